#!/usr/bin/env python3
"""check.py <ID> <quick|thorough> [--replay FILE]

Decides one property of /verif/properties.jsonl for /repo's current working tree:

  proofs   lake build of Acpi.Props.<ID>            (kernel-checked theorems about the model)
  audit    #print axioms of every theorem in it     (⊆ propext, Classical.choice, Quot.sound)
           + scan of lean/ for sorry/admit/axiom/native_decide/bv_decide/...
  tie      harness (real crate, rebuilt from /repo) | driver (the model's executable
           definitions + spec-side oracles) on the streams of the property's footprint

Exit 0 iff everything passes.  Otherwise prints
  VIOLATION property=<ID> replay=<path>[ no-failing-input-found]
and exits 1.  Writes /verif/evidence/<ID>.json on every run.
"""
import fcntl
import hashlib
import json
import os
import re
import shutil
import subprocess
import sys
import time

ROOT = os.path.dirname(os.path.abspath(__file__))
LEAN = os.path.join(ROOT, "lean")
HARN = os.path.join(ROOT, "harness")
CACHE = os.path.join(ROOT, ".cache")
EVID = os.path.join(ROOT, "evidence")
REPLAY = os.path.join(EVID, "replay")
# the crate under check: /repo, unless a development sweep (seedall.py under `vp run --with-repo`)
# points at a scratch copy; registered checks never set VERIF_REPO
REPO = os.environ.get("VERIF_REPO", "/repo")
DRIVER = os.path.join(LEAN, ".lake", "build", "bin", "driver")
NPROC = max(1, min(16, os.cpu_count() or 1))
ALLOWED_AXIOMS = {"propext", "Classical.choice", "Quot.sound"}
FORBIDDEN = re.compile(
    r"\b(sorry|admit|native_decide|bv_decide|implemented_by|unsafe)\b|^\s*axiom\s|maxHeartbeats\s+0")

# ---------------------------------------------------------------------------------------
# property registry: Lean module, streams of the footprint, what a non-trivial case is
# ---------------------------------------------------------------------------------------
# stream spec: (name, shardable, profile) ; profile "release" unless stated
PROPS = {
    "C01": dict(streams=["tbl", "fix", "sdt"], exhaustive="",
                nontrivial="history with at least one operation"),
    "C02": dict(streams=["tbl", "fix", "sdt", "misc"], exhaustive="", nontrivial="history with at least one operation"),
    "C03": dict(streams=["tbl", "fix"], exhaustive="", nontrivial="history with at least one add"),
    "C04": dict(streams=["ent", "tbl", "fix", "misc"], exhaustive="every (device, function) pair x 4 buses (all 256 buses in the thorough tier) through each place a PCI bus/device/function is packed (VIOT, RIMT, SRAT, HEST x3, GAS::new_pci_config); every enum value of every enum-typed argument",
                nontrivial="any entry / any history with an operation"),
    "C11": dict(streams=["ent", "fix", "tbl"], exhaustive="all subsets and all orders/repetitions up to length 4 (3 for the 8-option cache node) of each option family; all 2^7 subsets and all ordered triples of the TCPA server builders; ordered pairs/triples of the FADT exclusive setters",
                nontrivial="at least one option call"),
    "C12": dict(streams=["fix", "ent", "tbl"], exhaustive="SLIT 0..3 localities: all op sequences up to length 3 (2 for 3x3) over all cell pairs and 2 values",
                nontrivial="at least one cell assignment"),
    "C05": dict(streams=["tbl"], exhaustive="", nontrivial="history with at least one add"),
    "C07": dict(streams=["pkglen", "pkgblk", "aml", "amlbig"], exhaustive="all 2^28 lengths x both forms via the hook (block digests), in both tiers",
                nontrivial="length > 0"),
    "C08": dict(streams=["int", "intblk"], exhaustive="u8 and u16 through all five entry points (quick); u32 through u32/u64/usize (thorough), block digests",
                nontrivial="value > 1"),
    "C09": dict(streams=["path"], exhaustive="every segment count 1..257 rooted/unrooted; each of the 4 positions over its alphabet and over all ASCII bytes; every case through Path::new and through Path::from",
                nontrivial="non-empty string"),
    "C06": dict(streams=["aml"], exhaustive="",
                nontrivial="any term tree"),
    "C10": dict(streams=["aml", "amlbig"], exhaustive="all flag combinations of the extended-interrupt and address-space descriptors",
                nontrivial="any template or descriptor"),
    "C13": dict(streams=["sdt"], exhaustive="all op sequences of length <= 2 (3 in the thorough tier) over a 34-op alphabet on a 40-byte table; every declared length 0..80",
                nontrivial="at least one operation"),
    "C14": dict(streams=["ent", "aml", "sdt", "cks", "tbl", "fix"], exhaustive="downstream aml_as_bytes! types of every size 1..16; Default values of every public entry struct that derives Default",
                nontrivial="any object"),
    "C15": dict(streams=["amlalt", "misc"], exhaustive="body sizes 0..4200 (every size near 63/64 and 4095/4096; every 7th elsewhere in the quick tier, all in the thorough tier)",
                nontrivial="non-empty body"),
    "C18": dict(streams=["tblbig", "amlbig", "path", "pkglen", "fix", "ent"], profiles=["release", "dev"],
                both_profiles=["tblbig", "amlbig", "path", "pkglen", "fix"], exhaustive="",
                nontrivial="any case"),
    "C16": dict(streams=["eisa", "eisablk", "uuid"], exhaustive="each EISA/UUID position over its alphabet and over every other ASCII byte; a UUID separator moved to each of the 32 digit positions, all orders of the group lengths; all 26^3*16^4 ids in the thorough tier (block digests)",
                nontrivial="non-empty string"),
    "C17": dict(streams=["cks"], exhaustive="all 256x256 (state, byte) pairs for add/sub/value",
                nontrivial="at least one operation"),
}

TRUSTED_BASE = [
    "Lean 4.33.0 kernel (leanchecker re-check in the thorough tier)",
    "axioms: propext, Classical.choice, Quot.sound only (audited per theorem with #print axioms)",
    "hand-written Lean model of the Rust code, tied to /repo by differential execution (harness + driver), not by translation",
    "rustc/cargo, the harness interpreter, the driver's line-protocol parser, Lean's compiler for the driver executable",
    "spec side (decoders, layouts, walkers, AML grammar) is my offline reading of ACPI 6.5 / CXL 3.0 / TCG / RISC-V documents",
]


def log(*a):
    print(*a, file=sys.stderr, flush=True)


def sh(cmd, cwd=None, env=None, timeout=None, stdin=None):
    e = dict(os.environ)
    e.update({"CARGO_NET_OFFLINE": "true"})
    if env:
        e.update(env)
    p = subprocess.run(cmd, cwd=cwd, env=e, timeout=timeout, input=stdin,
                       stdout=subprocess.PIPE, stderr=subprocess.STDOUT, text=True,
                       shell=isinstance(cmd, str))
    return p.returncode, p.stdout


class Violation(Exception):
    def __init__(self, what, replay_text, found_input):
        self.what, self.replay_text, self.found_input = what, replay_text, found_input


# ---------------------------------------------------------------------------------------
# builds (serialised by a lock: checks may run concurrently)
# ---------------------------------------------------------------------------------------
def build_lock():
    os.makedirs(CACHE, exist_ok=True)
    f = open(os.path.join(CACHE, "build.lock"), "w")
    fcntl.flock(f, fcntl.LOCK_EX)
    return f


def build_lean(targets):
    rc, out = sh(["lake", "build"] + targets, cwd=LEAN, timeout=3000)
    if rc != 0:
        raise Violation("lean build failed: a theorem or the driver no longer checks",
                        "stage: lake build " + " ".join(targets) + "\n" + out[-6000:], False)


def target_dir():
    return os.path.join(CACHE, "target" if REPO == "/repo" else "target-alt")


def harness_bin(profile):
    return os.path.join(target_dir(), "release" if profile == "release" else "debug", "harness")


def harness_dir():
    """harness/ itself for /repo; for a scratch copy of the crate, a copy of harness/ whose path
    dependency points there"""
    if REPO == "/repo":
        return HARN
    d = os.path.join(CACHE, "harness-alt")
    if os.path.exists(d):
        shutil.rmtree(d)
    shutil.copytree(HARN, d, ignore=shutil.ignore_patterns("target"))
    m = os.path.join(d, "Cargo.toml")
    txt = open(m).read().replace('path = "/repo"', 'path = "%s"' % REPO)
    open(m, "w").write(txt)
    return d


def build_harness(profile):
    hd = harness_dir()
    if not os.path.exists(os.path.join(hd, "Cargo.lock")):
        shutil.copy(os.path.join(REPO, "Cargo.lock"), os.path.join(hd, "Cargo.lock"))
    cmd = ["cargo", "build", "--offline"] + (["--release"] if profile == "release" else [])
    env = {"CARGO_TARGET_DIR": target_dir(),
           "RUSTFLAGS": "--cfg rust_vmm_acpi_tables_verif --check-cfg cfg(rust_vmm_acpi_tables_verif) -Awarnings"}
    rc, out = sh(cmd, cwd=hd, env=env, timeout=1800)
    if rc != 0:
        raise Violation("the harness no longer builds against /repo (changed public API or compile error): "
                        "the model<->code correspondence cannot be established",
                        "stage: cargo build (%s)\n%s" % (profile, out[-6000:]), False)


# ---------------------------------------------------------------------------------------
# audit
# ---------------------------------------------------------------------------------------
def strip_comments(src):
    src = re.sub(r"/-.*?-/", "", src, flags=re.S)
    return re.sub(r"--.*", "", src)


def scan_forbidden():
    hits = []
    for d, _, fs in os.walk(LEAN):
        if ".lake" in d:
            continue
        for f in fs:
            if f.endswith(".lean"):
                p = os.path.join(d, f)
                for i, line in enumerate(strip_comments(open(p).read()).splitlines()):
                    if FORBIDDEN.search(line):
                        hits.append("%s:%d: %s" % (p, i + 1, line.strip()))
    return hits


def prop_modules(pid):
    """Acpi.Props.<pid> and every module under Acpi/Props/<pid>/"""
    mods = []
    p = os.path.join(LEAN, "Acpi", "Props", pid + ".lean")
    if os.path.exists(p):
        mods.append(("Acpi.Props." + pid, p))
    d = os.path.join(LEAN, "Acpi", "Props", pid)
    if os.path.isdir(d):
        for f in sorted(os.listdir(d)):
            if f.endswith(".lean"):
                mods.append(("Acpi.Props.%s.%s" % (pid, f[:-5]), os.path.join(d, f)))
    return mods


def theorems_of(pid):
    """fully qualified names of every theorem declared in the property's modules"""
    names = []
    for _, path in prop_modules(pid):
        src = strip_comments(open(path).read())
        ns = None
        for line in src.splitlines():
            m = re.match(r"^namespace\s+(\S+)", line)
            if m:
                ns = m.group(1)
            m = re.match(r"^\s*(?:private\s+|protected\s+)?theorem\s+(\S+)", line)
            if m and ns:
                names.append(ns + "." + m.group(1))
    return names


def audit(pid):
    names = theorems_of(pid)
    if not names:
        raise Violation("no theorems found", "Props/%s.lean declares no theorem" % pid, False)
    d = os.path.join(CACHE, "audit")
    os.makedirs(d, exist_ok=True)
    p = os.path.join(d, pid + ".lean")
    with open(p, "w") as f:
        for mod, _ in prop_modules(pid):
            f.write("import %s\n" % mod)
        for n in names:
            f.write("#print axioms %s\n" % n)
    rc, out = sh(["lake", "env", "lean", p], cwd=LEAN, timeout=900)
    if rc != 0:
        raise Violation("axiom audit failed to run", out[-4000:], False)
    res = {}
    for m in re.finditer(r"^'(.+)' (does not depend on any axioms|depends on axioms: \[([^\]]*)\])", out, flags=re.M):
        axs = [a.strip() for a in (m.group(3) or "").split(",") if a.strip()]
        res[m.group(1)] = axs
    bad = {k: v for k, v in res.items() if not set(v) <= ALLOWED_AXIOMS}
    missing = [n for n in names if n not in res]
    if bad or missing:
        raise Violation("axiom audit: disallowed axioms or missing theorems",
                        "disallowed: %r\nmissing: %r\n%s" % (bad, missing, out[-3000:]), False)
    hits = scan_forbidden()
    if hits:
        raise Violation("forbidden construct in lean/", "\n".join(hits), False)
    return res


# ---------------------------------------------------------------------------------------
# tie: run streams through harness and driver
# ---------------------------------------------------------------------------------------
def run_stream(pid, stream, tier, seed, work, profile="release", shards=NPROC):
    """returns (n_cases, flines, case_lines_sample, distinct_nontrivial_estimator)"""
    hb = harness_bin(profile)
    cases = os.path.join(work, "%s.cases" % stream)
    rc, out = sh("%s gen %s %s %d > %s" % (hb, stream, tier, seed, cases), timeout=1800)
    if rc != 0:
        raise Violation("harness gen failed for stream " + stream, out[-3000:], False)
    return run_cases_file(cases, work, stream, profile, shards)


def run_cases_file(cases, work, tag, profile="release", shards=NPROC):
    hb = harness_bin(profile)
    lines = open(cases).read().splitlines()
    k = max(1, min(shards, len(lines)))
    procs = []
    for i in range(k):
        part = os.path.join(work, "%s.%s.%d.in" % (tag, profile, i))
        with open(part, "w") as f:
            f.write("\n".join(lines[i::k]) + "\n")
        outp = os.path.join(work, "%s.%s.%d.out" % (tag, profile, i))
        mid = os.path.join(work, "%s.%s.%d.mid" % (tag, profile, i))
        cmd = "%s run < %s > %s && %s < %s > %s" % (hb, part, mid, DRIVER, mid, outp)
        procs.append((subprocess.Popen(cmd, shell=True, stderr=subprocess.PIPE, text=True), outp, part))
    flines, done = [], 0
    STATS.setdefault(tag, dict(refused_by_impl=0, notes={}, kinds={}))
    deadline = time.time() + 3000
    for p, outp, part in procs:
        try:
            _, err = p.communicate(timeout=max(1, deadline - time.time()))
        except subprocess.TimeoutExpired:
            p.kill()
            raise Violation("stream %s exceeded its time cap" % tag, "shard " + part, False)
        txt = open(outp).read().splitlines()
        ok = False
        midp = outp[:-4] + ".mid"
        if os.path.exists(midp):
            with open(midp, errors="replace") as fm:
                for ml in fm:
                    if " panic" in ml:
                        STATS[tag]["refused_by_impl"] += 1
                    t = ml.split(" ", 3)
                    if len(t) > 2:
                        k = t[1] if tag not in ("ent",) else t[1].split("/")[0]
                        if tag in ("aml", "amlalt", "amlbig") and len(t) > 2:
                            k = t[2]
                        if len(k) > 12:
                            k = "(value)"
                        STATS[tag]["kinds"][k] = STATS[tag]["kinds"].get(k, 0) + 1
            os.remove(midp)
        for l in txt:
            if l.startswith("N "):
                k = l.split(" ")[1]
                STATS[tag]["notes"][k] = STATS[tag]["notes"].get(k, 0) + 1
            if l.startswith("F "):
                flines.append(l)
            elif l.startswith("DONE "):
                ok = True
                done += int(re.search(r"cases=(\d+)", l).group(1))
        if p.returncode != 0 or not ok:
            raise Violation("harness or driver died on stream %s" % tag,
                            "shard %s rc=%s\nstderr: %s\nlast output: %s" % (part, p.returncode, (err or "")[-2000:], "\n".join(txt[-3:])),
                            False)
    if done != len([l for l in lines if l.strip()]):
        raise Violation("driver processed %d of %d cases on stream %s" % (done, len(lines), tag), "", False)
    return lines, flines


STATS = {}


def parse_fline(l):
    # F <kind> <props> <check> <detail...> ## <case line>
    head, _, case = l.partition(" ## ")
    t = head.split(" ", 4)
    return dict(kind=t[1], props=t[2].split(","), check=t[3], detail=t[4] if len(t) > 4 else "", case=case)


# ---------------------------------------------------------------------------------------
# known findings
# ---------------------------------------------------------------------------------------
def load_known():
    p = os.path.join(ROOT, "known_findings.json")
    if not os.path.exists(p):
        return []
    return [f for f in json.load(open(p)).get("findings", []) if f.get("status") == "known"]


def match_known(pid, f, known):
    for k in known:
        if pid in k["properties"] and re.search(k["pattern"], "%s %s %s ## %s" % (f["kind"], f["check"], f["detail"], f["case"])):
            return k
    return None


# ---------------------------------------------------------------------------------------
# shrinking: ddmin over ';'-separated ops of the case line, keeping "still fails for pid"
# ---------------------------------------------------------------------------------------
def still_fails(pid, case_line, work, profile):
    p = os.path.join(work, "shrink.cases")
    with open(p, "w") as f:
        f.write(case_line.split(" | ")[0] + "\n")
    try:
        _, fl = run_cases_file(p, work, "shrink", profile, shards=1)
    except Violation:
        return None
    fl = [parse_fline(l) for l in fl]
    fl = [f for f in fl if pid in f["props"]]
    return fl or None


def shrink(pid, f, work, profile, budget=60):
    case = f["case"].split(" | ")[0]
    if " ; " not in case:
        return f
    head, *ops = case.split(" ; ")
    best, bestf = ops, f
    n = 2
    t0 = time.time()
    while len(best) >= 2 and time.time() - t0 < budget:
        chunk = max(1, len(best) // n)
        reduced = False
        for i in range(0, len(best), chunk):
            cand = best[:i] + best[i + chunk:]
            r = still_fails(pid, " ; ".join([head] + cand), work, profile)
            if r:
                best, bestf, reduced = cand, r[0], True
                n = max(n - 1, 2)
                break
        if not reduced:
            if chunk == 1:
                break
            n = min(len(best), n * 2)
    return shrink_scalars(pid, head, best, bestf, work, profile, max(10, budget - (time.time() - t0)))


def shrink_scalars(pid, head, ops, f, work, profile, budget):
    """second pass: walk the decimal numbers of the (already op-minimal) case towards 0/1/half,
    keeping every replacement under which the case still fails for this property"""
    t0 = time.time()
    line = " ; ".join([head] + ops)
    pat = re.compile(r"(?<![0-9a-fA-Fx])\d+(?![0-9a-fA-F])")
    pos = 0
    while time.time() - t0 < budget:
        ms = [m for m in pat.finditer(line) if m.start() >= pos and int(m.group()) > 1]
        # never touch the stream name / table name tokens (first two words)
        ms = [m for m in ms if m.start() > len(" ".join(line.split(" ")[:2]))]
        if not ms:
            break
        m = ms[0]
        v = int(m.group())
        done = False
        for cand in (0, 1, v // 2):
            if cand >= v:
                continue
            trial = line[:m.start()] + str(cand) + line[m.end():]
            r = still_fails(pid, trial, work, profile)
            if r:
                line, f, done = trial, r[0], True
                break
        if not done or cand in (0, 1):
            pos = m.start() + 1 if not done else m.start() + len(str(cand))
    return f


# ---------------------------------------------------------------------------------------
def refine_block(pid, f, work, profile):
    """a block digest differs: re-run that block input by input and return the failures
    (with concrete inputs) that the per-input oracle/correspondence finds"""
    t = f["case"].split(" | ")[0].split(" ")
    lines = []
    if t[0] == "pkgblk":
        start, count, incl = int(t[1]), int(t[2]), t[3]
        lines = ["pkglen %d %s" % (n, incl) for n in range(start, start + count)]
    elif t[0] == "intblk":
        ty, start, count = t[1], int(t[2]), int(t[3])
        lines = ["int %s %d" % (ty, v) for v in range(start, start + count)]
    elif t[0] == "eisablk":
        i = int(t[1])
        l = "%c%c%c" % (65 + i // 676, 65 + i // 26 % 26, 65 + i % 26)
        lines = ["eisa " + (l + "%04X" % d).encode().hex() for d in range(65536)]
    if not lines:
        return []
    pth = os.path.join(work, "refine.cases")
    open(pth, "w").write("\n".join(lines) + "\n")
    try:
        _, fl = run_cases_file(pth, work, "refine", profile)
    except Violation:
        return []
    out = [parse_fline(l) for l in fl]
    return [x for x in out if pid in x["props"]]


def nontrivial(stream, case_line):
    body = case_line.split(" ", 1)[1] if " " in case_line else ""
    if stream in ("pkglen", "pkgblk"):
        return not body.startswith("0 ")
    if stream in ("tbl", "tblbig", "fix"):
        return " ; " in case_line
    if stream == "ent":
        return not case_line.endswith("/-")
    if stream in ("aml", "amlalt", "amlbig", "sdt"):
        return len(case_line.split(" ")) > 3
    if stream == "int":
        return body.split(" ")[-1] not in ("0", "1")
    return len(body.strip()) > 0 and body.strip() != "-"


def api_inventory():
    """public functions of the crate (non-test code, written out as `pub fn`) that the harness never
    names: code that has grown outside the tie.  Informational (goes into the evidence), never an alarm."""
    names = {}
    try:
        for f in sorted(os.listdir(os.path.join(REPO, "src"))):
            if f.endswith(".rs"):
                t = open(os.path.join(REPO, "src", f), errors="replace").read()
                i = t.find("#[cfg(test)]")
                t = t[:i] if i > 0 else t
                for m in re.finditer(r"pub fn (\w+)", t):
                    names.setdefault(m.group(1), set()).add(f)
                for m in re.finditer(r"pub (?:struct|enum) (\w+)", t):
                    names.setdefault("type " + m.group(1), set()).add(f)
        h = "".join(open(os.path.join(HARN, "src", f)).read() for f in os.listdir(os.path.join(HARN, "src")) if f.endswith(".rs"))
        return sorted("%s (%s)" % (n, ",".join(sorted(fs))) for n, fs in names.items()
                      if not re.search(r"\b%s\b" % re.escape(n.split(" ")[-1]), h))
    except OSError:
        return []


def write_evidence(pid, tier, seed, wall, cov, violations, assumptions):
    os.makedirs(EVID, exist_ok=True)
    cov["public_items_never_named_by_the_harness"] = api_inventory()
    ev = dict(property_id=pid, tier=tier, seed=seed, level="proof", coverage=cov,
              assumptions=assumptions, wall_s=round(wall, 2), violations=violations)
    tmp = os.path.join(EVID, pid + ".json.tmp")
    json.dump(ev, open(tmp, "w"), indent=1)
    os.replace(tmp, os.path.join(EVID, pid + ".json"))


def write_replay(pid, text):
    os.makedirs(REPLAY, exist_ok=True)
    h = hashlib.sha1(text.encode()).hexdigest()[:10]
    p = os.path.join(REPLAY, "%s-%s.txt" % (pid, h))
    open(p, "w").write(text)
    return p


def main():
    args = sys.argv[1:]
    if not args:
        print(__doc__)
        sys.exit(2)
    pid = args[0]
    tier = args[1] if len(args) > 1 and args[1] in ("quick", "thorough") else os.environ.get("VERIF_TIER", "quick")
    replay = args[args.index("--replay") + 1] if "--replay" in args else None
    seed = int(os.environ.get("VERIF_SEED", "1") or "1")
    if pid not in PROPS:
        print("unknown or unclaimed property", pid)
        sys.exit(2)
    spec = PROPS[pid]
    t0 = time.time()
    work = os.path.join(CACHE, "work", "%s-%s-%d" % (pid, tier, os.getpid()))
    os.makedirs(work, exist_ok=True)
    cov = dict(obligations=0, discharged=0, checker_cmd="lake build Acpi.Props.%s && #print axioms (all theorems)%s" % (
        pid, " && lake env leanchecker Acpi.Props.%s" % pid if tier == "thorough" else ""),
        trusted_base=list(TRUSTED_BASE), programs=0, disagreements_checked=0, evaluations=0,
        distinct_nontrivial=0, rule="", samples=[], exhaustive=False, streams={},
        oracle_failures_on_impl=0, model_disagreements=0, known_findings_hit=[])
    violations = []
    known_hits = []
    profiles = spec.get("profiles", ["release"])
    try:
        lock = build_lock()
        try:
            build_lean([m for m, _ in prop_modules(pid)] + ["driver"])
            for prof in profiles:
                build_harness(prof)
        finally:
            lock.close()
        axioms = audit(pid)
        cov["obligations"] = len(axioms)
        cov["discharged"] = len(axioms)
        cov["theorems"] = {k: v for k, v in sorted(axioms.items())}
        if tier == "thorough":
            for mod, _ in prop_modules(pid):
                rc, out = sh(["lake", "env", "leanchecker", mod], cwd=LEAN, timeout=3000)
                if rc != 0:
                    raise Violation("leanchecker rejected " + mod, out[-4000:], False)
            cov["leanchecker"] = "ok"

        if replay:
            cases = [l[len("case: "):] for l in open(replay).read().splitlines() if l.startswith("case: ")]
            p = os.path.join(work, "replay.cases")
            open(p, "w").write("\n".join(c.split(" | ")[0] for c in cases) + "\n")
            allf = []
            for prof in profiles:
                _, fl = run_cases_file(p, work, "replay", prof, shards=1)
                allf += [parse_fline(l) for l in fl]
            mine = [f for f in allf if pid in f["props"]]
            for f in mine:
                print("REPLAY %s %s %s %s ## %s" % (f["kind"], ",".join(f["props"]), f["check"], f["detail"], f["case"]))
            print("replay: %d case(s), %d failure(s) for %s" % (len(cases), len(mine), pid))
            sys.exit(1 if mine else 0)

        known = load_known()
        seen = set()
        rules = []
        for stream in spec["streams"]:
            for prof in profiles if stream in spec.get("both_profiles", []) else ["release"]:
                lines, flines = run_stream(pid, stream, tier, seed, work, prof)
                fl = [parse_fline(l) for l in flines]
                mine = [f for f in fl if pid in f["props"]]
                nt = 0
                for l in lines:
                    hsh = hashlib.blake2b(l.encode(), digest_size=8).digest()
                    if hsh not in seen:
                        seen.add(hsh)
                        if nontrivial(stream, l):
                            nt += 1
                st = STATS.get(stream, {})
                kinds = st.get("kinds", {})
                top = dict(sorted(kinds.items(), key=lambda kv: -kv[1])[:40])
                cov["streams"]["%s/%s" % (stream, prof)] = dict(cases=len(lines), distinct_nontrivial=nt,
                                                              failures_for_property=len(mine),
                                                              cases_in_which_the_implementation_refused=st.get("refused_by_impl", 0),
                                                              cases_outside_the_theorems_wf_guard=st.get("notes", {}),
                                                              distribution_by_kind=top)
                STATS.pop(stream, None)
                cov["evaluations"] += len(lines)
                cov["distinct_nontrivial"] += nt
                cov["programs"] += 1
                cov["disagreements_checked"] += len(lines)
                if len(cov["samples"]) < 12:
                    step = max(1, len(lines) // 4)
                    cov["samples"] += [l[:400] for l in lines[::step][:4]]
                # classify
                bycase = {}
                for f in mine:
                    bycase.setdefault(f["case"], []).append(f)
                for case, fs in bycase.items():
                    # failure lines that are a recorded finding are reported as such and set aside; what
                    # remains of the case (if anything) is judged on its own, so that a recorded finding in
                    # the same history neither hides a new failure nor lends it a "failing input"
                    kfs = [match_known(pid, f, known) for f in fs]
                    for k, f in zip(kfs, fs):
                        if k is not None:
                            known_hits.append((k, f))
                    fs = [f for f, k in zip(fs, kfs) if k is None]
                    if not fs:
                        continue
                    if any(f["check"] == "block-digest" for f in fs):
                        more = refine_block(pid, fs[0], work, prof)
                        if more:
                            fs = more[:3] + fs
                    props_f = [f for f in fs if f["kind"] == "prop"]
                    cov["oracle_failures_on_impl"] += len(props_f)
                    cov["model_disagreements"] += len([f for f in fs if f["kind"] == "corr"])
                    violations.append((stream, prof, fs, bool(props_f)))
        cov["rule"] = ("cases come from the seeded generators of harness/src (corpus + boundary + exhaustive small domains + random structured); "
                       "a case is counted once per distinct case line and is non-trivial when: " + spec["nontrivial"])
        cov["exhaustive"] = bool(spec.get("exhaustive"))
        if spec.get("exhaustive"):
            cov["exhaustive_domains"] = spec["exhaustive"]
    except Violation as v:
        violations.append(("-", "-", [dict(kind="infra", props=[pid], check="infrastructure", detail=v.what, case=v.replay_text)], False))
    except subprocess.TimeoutExpired as e:
        violations.append(("-", "-", [dict(kind="infra", props=[pid], check="timeout", detail=str(e), case="")], False))

    # report
    seen_k = set()
    for kf, f in known_hits:
        if kf["id"] not in seen_k:
            seen_k.add(kf["id"])
            print("KNOWN-FINDING: property=%s %s" % (pid, kf["what"]))
            cov["known_findings_hit"].append(kf["id"])
    rc = 0
    if violations:
        rc = 1
        # one replay per (stream, check) group, at most 5 reported
        groups = {}
        for stream, prof, fs, found in violations:
            key = (stream, fs[0]["check"], found)
            groups.setdefault(key, []).append((prof, fs))
        for (stream, check, found), items in list(groups.items())[:5]:
            prof, fs = items[0]
            f0 = fs[0]
            if f0["kind"] != "infra" and found:
                try:
                    pf = [f for f in fs if f["kind"] == "prop"][0]
                    f0 = shrink(pid, pf, work, prof)
                    fs = [f0] + [f for f in fs if f is not pf]
                except Exception as e:  # shrinking is best-effort
                    log("shrink failed:", e)
            text = ["property: " + pid, "tier: %s seed: %d profile: %s stream: %s" % (tier, seed, prof, stream),
                    "failing-input-found: %s" % ("yes" if found else "no"),
                    "other cases in this group: %d" % (len(items) - 1)]
            if f0["kind"] == "infra":
                text += ["what: " + f0["detail"], "", f0["case"]]
            else:
                for f in fs:
                    text.append("%s check=%s: %s" % ("ORACLE-FAILS-ON-IMPLEMENTATION" if f["kind"] == "prop" else
                                                    "MODEL-DISAGREES-WITH-IMPLEMENTATION (correspondence %s no longer checks)" % f["check"],
                                                    f["check"], f["detail"]))
                text.append("case: " + fs[0]["case"])
                text.append("replay: python3 /verif/check.py %s %s --replay <this file>" % (pid, tier))
            path = write_replay(pid, "\n".join(text) + "\n")
            print("VIOLATION property=%s replay=%s%s" % (pid, path, "" if found else " no-failing-input-found"))
    write_evidence(pid, tier, seed, time.time() - t0, cov, len(violations),
                   ["usize is 64-bit", "tables smaller than 4 GiB", "a history ends at its first panic"])
    shutil.rmtree(work, ignore_errors=True)
    print("%s %s: %s (%d theorems, %d cases, %.1fs)" % (pid, tier, "FAIL" if rc else "ok", cov["obligations"],
                                                       cov["evaluations"], time.time() - t0))
    sys.exit(rc)


if __name__ == "__main__":
    main()
