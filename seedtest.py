#!/usr/bin/env python3
"""seedtest.py <patch.diff> [--props C01,C02,…] — development tool (not a registered check).

Applies a seeded change to /repo, runs the quick checks, reports which properties raise a
VIOLATION (and whether with a concrete failing input), then restores /repo.  Never commits.
"""
import json, os, subprocess, sys, concurrent.futures, re, time
ROOT = os.path.dirname(os.path.abspath(__file__))
REPO = os.environ.get("VERIF_REPO", "/repo")

def run(pid):
    t0 = time.time()
    p = subprocess.run([sys.executable, os.path.join(ROOT, "check.py"), pid, "quick"], capture_output=True, text=True, timeout=3000)
    v = [l for l in p.stdout.splitlines() if l.startswith("VIOLATION")]
    return pid, p.returncode, v, time.time() - t0

def main():
    patch = os.path.abspath(sys.argv[1])
    props = None
    if "--props" in sys.argv:
        props = sys.argv[sys.argv.index("--props") + 1].split(",")
    m = json.load(open(os.path.join(ROOT, "MANIFEST.json")))
    pids = props or [c["property_id"] for c in m["checks"]]
    st = subprocess.run(["git", "-C", REPO, "status", "--porcelain", "--untracked-files=no"], capture_output=True, text=True).stdout.strip()
    assert st == "", "/repo is not clean: " + st
    subprocess.check_call(["git", "-C", REPO, "apply", patch])
    res = {}
    try:
        # first one alone (rebuilds the harness), the rest in parallel
        r = run(pids[0]); res[r[0]] = r
        with concurrent.futures.ThreadPoolExecutor(max_workers=5) as ex:
            for r in ex.map(run, pids[1:]):
                res[r[0]] = r
    finally:
        subprocess.check_call(["git", "-C", REPO, "checkout", "--", "."])
    out = {}
    for pid in pids:
        _, rc, v, dt = res[pid]
        found = [("no-failing-input-found" not in l) for l in v]
        out[pid] = dict(rc=rc, violations=len(v), with_input=sum(found), secs=round(dt, 1))
        print("%s rc=%d violations=%d with-failing-input=%d (%.0fs)" % (pid, rc, len(v), sum(found), dt))
        for l in v[:2]:
            print("   ", l)
    print(json.dumps(out))

if __name__ == "__main__":
    main()
