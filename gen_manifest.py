#!/usr/bin/env python3
"""Regenerates MANIFEST.json from the registry in check.py (claimed) + the rest as not_applicable."""
import json, re, os, sys
sys.path.insert(0, os.path.dirname(os.path.abspath(__file__)))
import check
props = [json.loads(l) for l in open(os.path.join(check.ROOT, "properties.jsonl"))]
NOTES = json.load(open(os.path.join(check.ROOT, "manifest_notes.json")))
checks, na = [], []
for p in props:
    pid = p["id"]
    if pid in check.PROPS:
        n = NOTES.get(pid, {})
        checks.append(dict(
            property_id=pid,
            quick_cmd="python3 check.py %s quick" % pid,
            thorough_cmd="python3 check.py %s thorough" % pid,
            evidence_file="/verif/evidence/%s.json" % pid,
            replay_cmd_template="python3 check.py %s quick --replay {path}" % pid,
            engine="lean4-model+correspondence",
            level_claimed=dict(category="proof", text=n.get("text", ""), design_ref="DESIGN.md §7 " + pid),
            level_note=n.get("note", ""),
            technique=n.get("technique", "Lean 4 theorem over a hand-written model + differential correspondence check (harness vs compiled model)"),
        ))
    else:
        na.append(dict(property_id=pid, reason=NOTES.get(pid, {}).get("na", "check not built yet in this session (work in progress; the design claims it, see DESIGN.md §7)")))
m = dict(
    version=1,
    setup_cmd="sh setup.sh",
    hooks=dict(guard="rust_vmm_acpi_tables_verif",
               enable='RUSTFLAGS="--cfg rust_vmm_acpi_tables_verif" on the harness build (a rustc --cfg; no Cargo feature, no Cargo.toml change)',
               baseline_off_cmd="cd /repo && cargo test --workspace --no-fail-fast --offline",
               source_commits=["4d7c7d3"], add_only=True),
    engines=[dict(name="lean4-model+correspondence", path="/verif/check.py",
                  serves_properties=sorted(check.PROPS),
                  kind_free_text="Lean 4.33 model + theorems (lean/Acpi), compiled model driver (lean/Main.lean), Rust harness linking /repo (harness/), orchestrator check.py")],
    checks=checks,
    not_applicable=na,
    notes="Every check: lake build of the property's theorems, #print axioms audit, then the streams of its footprint through harness|driver. See DESIGN.md.",
)
json.dump(m, open(os.path.join(check.ROOT, "MANIFEST.json"), "w"), indent=1)
print("claimed", len(checks), "not_applicable", len(na))
