#!/usr/bin/env python3
"""regress_seeds.py [--minutes M] [--seed S] [ids…] — development tool (not a registered check).

Re-runs kept seeded changes against the machinery as it stands and compares with what their meta.json
records: every property listed there as caught *with a failing input* must still report one.  Seeds are
taken in a shuffled order until the time budget is used up; results go to seeded/REGRESSION.json.
Needs a scratch clone of /repo named by VERIF_REPO (the registered checks never use one).
"""
import glob, json, os, random, subprocess, sys, time
ROOT = os.path.dirname(os.path.abspath(__file__))


def main():
    a = sys.argv[1:]
    minutes = float(a[a.index("--minutes") + 1]) if "--minutes" in a else 60
    seed = int(a[a.index("--seed") + 1]) if "--seed" in a else 1
    ids = [x for x in a if not x.startswith("--") and not x.replace(".", "").isdigit()]
    assert os.environ.get("VERIF_REPO"), "set VERIF_REPO to a scratch clone of /repo"
    metas = {}
    for m in glob.glob(os.path.join(ROOT, "seeded", "*", "meta.json")):
        d = json.load(open(m))
        sid = os.path.basename(os.path.dirname(m))
        want = d.get("caught_detail") or {p: "found-input" for p in d.get("caught_by", [])}
        if isinstance(want, dict) and want:
            metas[sid] = {p: v for p, v in want.items() if v == "found-input"}
    order = sorted(metas)
    random.Random(seed).shuffle(order)
    if ids:
        order = [i for i in ids if i in metas]
    t0 = time.time()
    out = {}
    for sid in order:
        if time.time() - t0 > minutes * 60:
            break
        want = metas[sid]
        if not want:
            continue
        p = subprocess.run([sys.executable, os.path.join(ROOT, "seedtest.py"), os.path.join(ROOT, "seeded", sid, "patch.diff"),
                            "--props", ",".join(sorted(want))], capture_output=True, text=True)
        last = [l for l in p.stdout.splitlines() if l.startswith("{")]
        if not last:
            out[sid] = {"error": (p.stdout + p.stderr)[-300:]}
        else:
            r = json.loads(last[-1])
            lost = [q for q in want if not r.get(q, {}).get("with_input")]
            out[sid] = {"checked": sorted(want), "lost": lost}
        print(sid, out[sid], flush=True)
        json.dump(out, open(os.path.join(ROOT, "seeded", "REGRESSION.json"), "w"), indent=1, sort_keys=True)
    bad = {k: v for k, v in out.items() if v.get("lost") or v.get("error")}
    print("re-checked %d seeds, %d with a lost detection: %s" % (len(out), len(bad), sorted(bad)))


if __name__ == "__main__":
    main()
