import Acpi.Basic
import Acpi.Lemmas.Basic
