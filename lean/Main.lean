import Drv.Cks
import Drv.PkgLen
import Drv.AmlScalars
import Drv.Tables
import Drv.Fixed
import Drv.Aml
import Drv.Sdt
open Drv

/-- one line `stream case… | impl…` → failures -/
def checkLine (line : String) : List Fail :=
  match line.splitOn " | " with
  | [lhs, rhs] =>
    match toks lhs with
    | stream :: case =>
      let impl := toks rhs
      match stream with
      | "cks" => checkCks case impl
      | "pkglen" => checkPkgLen case impl
      | "pkgblk" => checkPkgBlk case impl
      | "int" => checkInt case impl
      | "intblk" => checkIntBlk case impl
      | "path" => checkPath case impl
      | "eisa" => checkEisa case impl
      | "eisablk" => checkEisaBlk case impl
      | "uuid" => checkUuid case impl
      | "tbl" => checkTbl case impl
      | "tblbig" => checkTbl case impl
      | "ent" => checkEnt case impl
      | "fix" => checkFix case impl
      | "misc" => checkMisc case impl
      | "sdt" => checkSdt case impl
      | "aml" => checkAml case impl
      | "amlalt" => checkAml case impl
      | "amlbig" => checkAmlBig case impl
      | _ => [⟨"corr", "-", "driver", s!"unknown stream {stream}"⟩]
    | [] => [⟨"corr", "-", "driver", "empty line"⟩]
  | _ => [⟨"corr", "-", "driver", "malformed line (no ' | ')"⟩]

partial def loop (h : IO.FS.Stream) (out : IO.FS.Stream) (n bad : Nat) : IO (Nat × Nat) := do
  let line ← h.getLine
  if line.isEmpty then return (n, bad)
  let line := line.trimAscii.toString
  if line.isEmpty then loop h out n bad else
  let all := checkLine line
  let fs := all.filter (·.kind ≠ "note")
  for f in all do
    if f.kind = "note" then out.putStrLn s!"N {f.check} {f.detail}" else out.putStrLn (f.render line)
  loop h out (n + 1) (if fs.isEmpty then bad else bad + 1)

def main (_args : List String) : IO UInt32 := do
  let stdin ← IO.getStdin
  let stdout ← IO.getStdout
  let (n, bad) ← loop stdin stdout 0 0
  stdout.putStrLn s!"DONE cases={n} failing={bad}"
  return 0
