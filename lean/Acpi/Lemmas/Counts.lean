/-
  Helper lemmas for C03.entry_counts (Props/C03/Counts.lean): reading count / offset fields
  back out of a conforming entry, and one lemma per kind with inner counts.
-/
import Acpi.Spec.Counts
import Acpi.Lemmas.Inst
import Acpi.Lemmas.InstVar
namespace Acpi.Cnt
open Acpi Spec

set_option linter.unusedSimpArgs false

/-! ### reading fields of a conforming image -/

/-- a numeric row held by an image is read back modulo the width of its field -/
theorem readAt_mod_of_rowHolds (raw : Bytes) (off w v : Nat) (h : rowHolds raw (.num off w v) = true) :
    readAt raw off w = some (v % 256 ^ w) := by
  simp only [rowHolds, Row.off, Row.width, Row.bytes, Bool.and_eq_true, decide_eq_true_eq,
    beq_iff_eq] at h
  unfold readAt
  rw [if_pos (of_decide_eq_true h.1), h.2, fromLE_leN]

theorem rd_mod_of_conforms {total : Nat} {rs : List Row} {raw : Bytes} (h : conforms total rs raw = none)
    {off w v : Nat} (hm : Row.num off w v ∈ rs) : (readAt raw off w).getD 0 = v % 256 ^ w := by
  rw [readAt_mod_of_rowHolds _ _ _ _ (C04.decode_rows _ _ _ h _ hm)]; rfl

theorem rd_of_conforms {total : Nat} {rs : List Row} {raw : Bytes} (h : conforms total rs raw = none)
    {off w v : Nat} (hm : Row.num off w v ∈ rs) (hv : v < 256 ^ w) : (readAt raw off w).getD 0 = v := by
  rw [rd_mod_of_conforms h hm, Nat.mod_eq_of_lt hv]

/-- a byte of a verbatim row -/
theorem getD_of_rowHolds (raw : Bytes) (off : Nat) (bs : Bytes) (h : rowHolds raw (.raw off bs) = true)
    (i : Nat) (hi : i < bs.length) (d : UInt8) : raw.getD (off + i) d = bs.getD i d := by
  simp only [rowHolds, Row.off, Row.width, Row.bytes, Bool.and_eq_true, decide_eq_true_eq,
    beq_iff_eq] at h
  have e : bs[i]? = raw[off + i]? := by
    rw [← h.2, List.getElem?_take_of_lt hi, List.getElem?_drop]
  rw [List.getD_eq_getElem?_getD, List.getD_eq_getElem?_getD, e]

theorem getD_zeros (n i : Nat) (d : UInt8) (hi : i < n) : (zeros n).getD i d = 0 := by
  unfold zeros
  rw [List.getD_eq_getElem?_getD, List.getElem?_replicate, if_pos hi]; rfl

/-! ### PPTT processor node -/

theorem counts_proc (c : EArgs) (opts : List Opt) (a : EArgs)
    (hwf : entryWf .proc c opts = true) (h : buildEntry .proc c opts = .ok a) :
    entryCountsOracle .proc (entryBytes .proc a) = none := by
  have hc := Inst.conforms_of_entry .proc c opts a _ _ (by decide) hwf nofun h rfl
  have hl := Inst.length_of_conforms hc
  have hp := (CHM.buildEntry_ok _ _ _ _ h).2.2
  have hl2 := Inst.length_entryBytes .proc a
  simp only [panics] at hp
  have hp' := of_decide_eq_false hp
  simp only [fields, List.cons_append, List.nil_append, Inst.fieldsLen_cons, Inst.fieldsLen_map_num,
    Fld.width] at hl2
  have hr := rd_of_conforms hc (off := 16) (w := 4) (v := (pushed opts "cache").length) (by simp)
    (by omega)
  unfold entryCountsOracle
  simp only [hr, hl]
  rw [if_neg]; omega

/-! ### HMAT memory-side cache, RHCT hart info, CEDT XOR interleave math -/

theorem counts_msc (c : EArgs) (opts : List Opt) (a : EArgs)
    (hwf : entryWf .msc c opts = true) (h : buildEntry .msc c opts = .ok a) :
    entryCountsOracle .msc (entryBytes .msc a) = none := by
  have hc := Inst.conforms_of_entry .msc c opts a _ _ (by decide) hwf nofun h rfl
  have hl := Inst.length_of_conforms hc
  have hp := (CHM.buildEntry_ok _ _ _ _ h).2.2
  have hl2 := Inst.length_entryBytes .msc a
  simp only [panics] at hp
  have hp' := of_decide_eq_false hp
  simp only [fields, List.cons_append, List.nil_append, Inst.fieldsLen_cons, Inst.fieldsLen_map_num,
    Fld.width] at hl2
  have hr := rd_of_conforms hc (off := 30) (w := 2) (v := (pushed opts "h").length) (by simp)
    (by omega)
  unfold entryCountsOracle
  simp only [hr, hl]
  rw [if_neg]; omega

theorem counts_hart (c : EArgs) (opts : List Opt) (a : EArgs)
    (hwf : entryWf .hart c opts = true) (h : buildEntry .hart c opts = .ok a) :
    entryCountsOracle .hart (entryBytes .hart a) = none := by
  have hc := Inst.conforms_of_entry .hart c opts a _ _ (by decide) hwf nofun h rfl
  have hl := Inst.length_of_conforms hc
  have hp := (CHM.buildEntry_ok _ _ _ _ h).2.2
  have hl2 := Inst.length_entryBytes .hart a
  simp only [panics] at hp
  have hp' := of_decide_eq_false hp
  simp only [fields, List.cons_append, List.nil_append, Inst.fieldsLen_cons, Inst.fieldsLen_map_num,
    Fld.width] at hl2
  have hr := rd_of_conforms hc (off := 6) (w := 2) (v := (c.num 1 :: pushed opts "cmo").length) (by simp)
    (by omega)
  unfold entryCountsOracle
  simp only [hr, hl]
  rw [if_neg]; omega

theorem counts_cxims (c : EArgs) (opts : List Opt) (a : EArgs)
    (hwf : entryWf .cxims c opts = true) (h : buildEntry .cxims c opts = .ok a) :
    entryCountsOracle .cxims (entryBytes .cxims a) = none := by
  have hc := Inst.conforms_of_entry .cxims c opts a _ _ (by decide) hwf nofun h rfl
  have hl := Inst.length_of_conforms hc
  have hp := (CHM.buildEntry_ok _ _ _ _ h).2.2
  have hl2 := Inst.length_entryBytes .cxims a
  simp only [panics] at hp
  have hp' := of_decide_eq_false hp
  simp only [fields, List.cons_append, List.nil_append, Inst.fieldsLen_cons, Inst.fieldsLen_map_num,
    Fld.width] at hl2
  have hr := rd_of_conforms hc (off := 7) (w := 1) (v := (pushed opts "map").length) (by simp)
    (by omega)
  unfold entryCountsOracle
  simp only [hr, hl]
  rw [if_neg]; omega

/-! ### RIMT -/

theorem counts_iommu (c : EArgs) (opts : List Opt) (a : EArgs)
    (hwf : entryWf .iommu c opts = true) (h : buildEntry .iommu c opts = .ok a) :
    entryCountsOracle .iommu (entryBytes .iommu a) = none := by
  have hc := Inst.conforms_of_entry .iommu c opts a _ _ (by decide) hwf nofun h rfl
  have hl := Inst.length_of_conforms hc
  obtain ⟨-, ha, -, hp⟩ := CHM.noOpts .iommu (fun _ _ => rfl) c opts a h
  have ha' : a = c := ha
  subst ha'
  simp only [panics] at hp
  have hp' := of_decide_eq_false hp
  have hb : (if a.num 10 ≠ 0 then a.s else []).length < 65536 := by
    by_cases h10 : a.num 10 ≠ 0
    · rw [if_pos h10] at hp' ⊢; omega
    · rw [if_neg h10]; simp
  have hr := rd_of_conforms hc (off := 28) (w := 2) (v := (if a.num 10 ≠ 0 then a.s else []).length)
    (by simp) (by omega)
  have hr2 := rd_of_conforms hc (off := 30) (w := 2) (v := 32) (by simp) (by omega)
  unfold entryCountsOracle
  simp only [hr, hr2, hl]
  rw [if_neg]; omega

theorem counts_pcierc (c : EArgs) (opts : List Opt) (a : EArgs)
    (hwf : entryWf .pcierc c opts = true) (h : buildEntry .pcierc c opts = .ok a) :
    entryCountsOracle .pcierc (entryBytes .pcierc a) = none := by
  have hc := Inst.conforms_of_entry .pcierc c opts a _ _ (by decide) hwf nofun h rfl
  have hl := Inst.length_of_conforms hc
  obtain ⟨-, ha, -, hp⟩ := CHM.noOpts .pcierc (fun _ _ => rfl) c opts a h
  have ha' : a = c := ha
  subst ha'
  simp only [panics] at hp
  have hp' := of_decide_eq_false hp
  have hb : (if a.num 4 ≠ 0 then a.s else []).length < 65536 := by
    by_cases h4 : a.num 4 ≠ 0
    · rw [if_pos h4] at hp' ⊢; omega
    · rw [if_neg h4]; simp
  have hr := rd_of_conforms hc (off := 14) (w := 2) (v := (if a.num 4 ≠ 0 then a.s else []).length)
    (by simp) (by omega)
  have hr2 := rd_of_conforms hc (off := 12) (w := 2) (v := 16) (by simp) (by omega)
  unfold entryCountsOracle
  simp only [hr, hr2, hl]
  rw [if_neg]; omega

theorem counts_platform (c : EArgs) (opts : List Opt) (a : EArgs)
    (hwf : entryWf .platform c opts = true) (h : buildEntry .platform c opts = .ok a) :
    entryCountsOracle .platform (entryBytes .platform a) = none := by
  have hc := Inst.conforms_of_entry .platform c opts a _ _ (by decide) hwf nofun h rfl
  have hl := Inst.length_of_conforms hc
  obtain ⟨-, ha, -, hp⟩ := CHM.noOpts .platform (fun _ _ => rfl) c opts a h
  have ha' : a = c := ha
  subst ha'
  simp only [panics] at hp
  have hp' := of_decide_eq_false hp
  have hb : 13 + (a.blob 0).length + 20 * (if a.num 1 ≠ 0 then a.s else []).length < 65536 := by
    by_cases h1 : a.num 1 ≠ 0
    · rw [if_pos h1] at hp' ⊢; omega
    · rw [if_neg h1] at hp' ⊢; simp only [List.length_nil] at hp' ⊢; omega
  have hr := rd_of_conforms hc (off := 8) (w := 2) (v := 13 + (a.blob 0).length) (by simp) (by omega)
  have hr2 := rd_of_conforms hc (off := 10) (w := 2) (v := (if a.num 1 ≠ 0 then a.s else []).length)
    (by simp) (by omega)
  have hrow := C04.decode_rows _ _ _ hc (res (12 + (a.blob 0).length) 1) (by simp)
  have hz := getD_of_rowHolds _ _ _ hrow 0 (by decide) 1
  rw [getD_zeros 1 0 1 (by decide)] at hz
  unfold entryCountsOracle
  simp only [hr, hr2, hl]
  rw [if_neg (by omega), if_neg]
  have e : 13 + (a.blob 0).length - 1 = 12 + (a.blob 0).length + 0 := by omega
  rw [e, hz]; simp

/-! ### CEDT fixed memory window -/

/-- HYPOTHESIS `hways`: the interleave-ways code fits its one-byte field (an enum in the crate,
    an unconstrained number in the model) -/
theorem counts_cfmws (c : EArgs) (opts : List Opt) (a : EArgs)
    (hwf : entryWf .cfmws c opts = true) (h : buildEntry .cfmws c opts = .ok a)
    (hways : c.num 4 < 256) :
    entryCountsOracle .cfmws (entryBytes .cfmws a) = none := by
  have hc := Inst.conforms_of_entry .cfmws c opts a _ _ (by decide) hwf nofun h rfl
  have hl := Inst.length_of_conforms hc
  obtain ⟨-, ha, hp⟩ := CHM.buildEntry_ok _ _ _ _ h
  obtain ⟨-, hall⟩ := (CHM.entryWf_iff _ _ _).mp hwf
  obtain ⟨-, hb, hn, -⟩ := C04.cfmws_final opts _ a rfl hall ha
  have hb' : a.b.toList = (pushed opts "target").map (leN 4) := by rw [hb]; simp [init]
  have hw : numWays (a.num 4) = (pushed opts "target").length := by
    have : numWays (a.num 4) = a.b.size := by simpa [panics] using hp
    rw [this, ← Array.length_toList, hb', List.length_map]
  have e4 : a.num 4 = c.num 4 := hn 4 (by decide)
  rw [e4] at hw
  have hr := rd_of_conforms hc (off := 24) (w := 1) (v := c.num 4) (by simp) (by omega)
  unfold entryCountsOracle
  simp only [hr, hl, hw]
  rw [if_neg]; omega

/-! ### HMAT locality structure -/

/-- HYPOTHESIS `h32`: the structure is smaller than 4 GiB (as in `Inst.sd_loc`) -/
theorem counts_loc (c : EArgs) (opts : List Opt) (a : EArgs)
    (hwf : entryWf .loc c opts = true) (h : buildEntry .loc c opts = .ok a)
    (h32 : (entryBytes .loc a).length < 2 ^ 32) :
    entryCountsOracle .loc (entryBytes .loc a) = none := by
  have hc := Inst.conforms_of_entry .loc c opts a _ _ (by decide) hwf nofun h rfl
  have hl := Inst.length_of_conforms hc
  rw [hl] at h32
  have hr := rd_of_conforms hc (off := 12) (w := 4) (v := c.num 4) (by simp) (by omega)
  have hr2 := rd_of_conforms hc (off := 16) (w := 4) (v := c.num 5) (by simp) (by omega)
  unfold entryCountsOracle
  simp only [hr, hr2, hl]
  rw [if_neg]; omega

/-- what the count fields of a locality structure read back as, without any size bound (used to
    show that `h32` of `counts_loc` cannot be dropped) -/
theorem loc_reads (c : EArgs) (opts : List Opt) (a : EArgs)
    (hwf : entryWf .loc c opts = true) (h : buildEntry .loc c opts = .ok a) :
    (entryBytes .loc a).length = 32 + 4 * c.num 4 + 4 * c.num 5 + 2 * (c.num 4 * c.num 5) ∧
    (readAt (entryBytes .loc a) 12 4).getD 0 = c.num 4 % 256 ^ 4 ∧
    (readAt (entryBytes .loc a) 16 4).getD 0 = c.num 5 % 256 ^ 4 := by
  have hc := Inst.conforms_of_entry .loc c opts a _ _ (by decide) hwf nofun h rfl
  exact ⟨Inst.length_of_conforms hc, rd_mod_of_conforms hc (off := 12) (w := 4) (v := c.num 4) (by simp),
    rd_mod_of_conforms hc (off := 16) (w := 4) (v := c.num 5) (by simp)⟩

/-! ### RHCT ISA string node -/

theorem isa_core (raw blob : Bytes) (tot : Nat)
    (ht : tot = 9 + blob.length ∨ tot = 10 + blob.length) (hev : tot % 2 = 0) (hlt : tot < 65536)
    (hnul : ∀ b ∈ blob, b ≠ 0)
    (hc : conforms tot [.num 0 2 0, .num 2 2 tot, .num 4 2 1, .num 6 2 (blob.length + 1), .raw 8 blob,
      res (8 + blob.length) (tot - 8 - blob.length)] raw = none) :
    entryCountsOracle .isa raw = none := by
  have hl := Inst.length_of_conforms hc
  have hr := rd_of_conforms hc (off := 6) (w := 2) (v := blob.length + 1) (by simp) (by omega)
  have hd := C04.decode_rows _ _ _ hc
  have hrow := hd (res (8 + blob.length) (tot - 8 - blob.length)) (by simp)
  have hz := getD_of_rowHolds _ _ _ hrow 0 (by simp [zeros]; omega) 1
  rw [getD_zeros _ 0 1 (by omega)] at hz
  have hraw := hd (.raw 8 blob) (by simp)
  have hb : (raw.drop 8).take blob.length = blob := by
    simp only [rowHolds, Row.off, Row.width, Row.bytes, Bool.and_eq_true, beq_iff_eq] at hraw
    exact hraw.2
  unfold entryCountsOracle
  simp only [hr, hl]
  rw [if_neg (by omega)]
  have e : 8 + (blob.length + 1) - 1 = 8 + blob.length + 0 := by omega
  rw [e, hz, if_neg (by simp), if_neg (by split <;> omega), Nat.add_sub_cancel, hb, if_neg]
  simp only [List.any_eq_true, decide_eq_true_eq, not_exists, not_and]
  exact hnul

/-- HYPOTHESIS `hnul`: the ISA string has no interior NUL byte (a Rust `&str` may have one; the
    crate does not check) -/
theorem counts_isa (c : EArgs) (opts : List Opt) (a : EArgs)
    (hwf : entryWf .isa c opts = true) (h : buildEntry .isa c opts = .ok a)
    (hnul : ∀ b ∈ c.blob 0, b ≠ 0) :
    entryCountsOracle .isa (entryBytes .isa a) = none := by
  obtain ⟨-, ha, -, hp⟩ := CHM.noOpts .isa (fun _ _ => rfl) c opts a h
  have ha' : a = c := ha
  subst ha'
  have hc : conforms (if (9 + (a.blob 0).length) % 2 = 0 then 9 + (a.blob 0).length else 10 + (a.blob 0).length)
      [.num 0 2 0,
       .num 2 2 (if (9 + (a.blob 0).length) % 2 = 0 then 9 + (a.blob 0).length else 10 + (a.blob 0).length),
       .num 4 2 1, .num 6 2 ((a.blob 0).length + 1), .raw 8 (a.blob 0),
       res (8 + (a.blob 0).length)
         ((if (9 + (a.blob 0).length) % 2 = 0 then 9 + (a.blob 0).length else 10 + (a.blob 0).length) - 8 -
           (a.blob 0).length)] (entryBytes .isa a) = none :=
    Inst.conforms_of_entry .isa a opts a _ _ (by decide) hwf nofun h rfl
  simp only [panics] at hp
  have hp' := of_decide_eq_false hp
  by_cases hpar : (9 + (a.blob 0).length) % 2 = 0
  · have hpar' : (8 + (a.blob 0).length + 1) % 2 = 0 := by omega
    rw [if_pos hpar'] at hp'
    rw [if_pos hpar] at hc
    exact isa_core _ _ _ (Or.inl rfl) hpar (by omega) hnul hc
  · have hpar' : ¬ (8 + (a.blob 0).length + 1) % 2 = 0 := by omega
    rw [if_neg hpar'] at hp'
    rw [if_neg hpar] at hc
    exact isa_core _ _ _ (Or.inr rfl) (by omega) (by omega) hnul hc

/-! ### RQSC QoS controller -/

/-- an integer field in the middle of a byte string is read back modulo its width -/
theorem readAt_mid (pre post : Bytes) (off w v : Nat) (hoff : pre.length = off) :
    readAt (pre ++ (leN w v ++ post)) off w = some (v % 256 ^ w) := by
  unfold readAt
  rw [if_pos (by simp only [List.length_append, length_leN]; omega), List.drop_left' hoff,
    List.take_left' (length_leN w v), fromLE_leN]

theorem encFields_cons (f : Fld) (fs : List Fld) : encFields (f :: fs) = f.bytes ++ encFields fs := by
  simp [encFields]

theorem encFields_flatMap {α : Type} (l : List α) (f : α → List Fld) :
    encFields (l.flatMap f) = (l.map fun x => encFields (f x)).flatten := by
  induction l with
  | nil => rfl
  | cons x l ih => rw [List.flatMap_cons, CHM.encFields_append, ih]; rfl

theorem length_le_sum_map {α : Type} (l : List α) (f : α → Nat) (h : ∀ x, 1 ≤ f x) :
    l.length ≤ (l.map f).sum := by
  induction l with
  | nil => simp
  | cons x l ih => have := h x; simp only [List.length_cons, List.map_cons, List.sum_cons]; omega

/-- one RQSC resource announces its type and its own length (if the length fits 16 bits, which
    `ResourceStructure::new` asserts) -/
theorem sd_qosRes (t : List Nat) (blob : Bytes) (hlen : qosResLen t blob ≤ 65535) :
    C03.SelfDescribing .t8l16 (t.getD 0 0 % 256) (encFields (qosResFields t blob)) := by
  have hl : (encFields (qosResFields t blob)).length = qosResLen t blob := by
    rw [Inst.length_encFields]
    simp only [qosResFields, qosResLen, Inst.fieldsLen_append, Inst.fieldsLen_cons, Inst.fieldsLen_nil,
      Fld.width]
  have h0 : readAt (encFields (qosResFields t blob)) 0 1 = some (t.getD 0 0 % 256) := by
    have := readAt_mid [] (encFields ([b8 0, w16 (qosResLen t blob), w16 (t.getD 1 0), b8 0] ++ qosResPayload t blob))
      0 1 (t.getD 0 0) rfl
    simpa [qosResFields, encFields_cons, Fld.bytes] using this
  have h2 : readAt (encFields (qosResFields t blob)) 2 2 = some (qosResLen t blob) := by
    have := readAt_mid (encFields [b8 (t.getD 0 0), b8 0])
      (encFields ([w16 (t.getD 1 0), b8 0] ++ qosResPayload t blob)) 2 2 (qosResLen t blob) rfl
    rw [Nat.mod_eq_of_lt (by omega)] at this
    simpa [qosResFields, encFields_cons, encFields, Fld.bytes] using this
  refine ⟨?_, ?_, ?_⟩
  · simp only [entryHdr, h0, h2, hl]; rfl
  · rw [hl]; simp only [hdrSize, qosResLen]; omega
  · rw [hl]; simp only [qosResLen]; omega

/-- the controller's resources tile it from offset 28 and there are as many as the count field
    says (no hypothesis on the resources is needed: the asserts of `ResourceStructure::new` and
    `add_resource` bound the lengths) -/
theorem counts_qosctrl (c : EArgs) (opts : List Opt) (a : EArgs)
    (h : buildEntry .qosctrl c opts = .ok a) :
    entryCountsOracle .qosctrl (entryBytes .qosctrl a) = none := by
  obtain ⟨-, ha, hcp, -⟩ := CHM.noOpts .qosctrl (fun _ _ => rfl) c opts a h
  have ha' : a = c := ha
  subst ha'
  simp only [ctorPanics, Bool.or_eq_false_iff] at hcp
  obtain ⟨hany, hsum⟩ := hcp
  have hsum' := of_decide_eq_false hsum
  have hres : ∀ i, i < a.s.length → qosResLen (a.s.getD i []) (a.blob i) ≤ 65535 := by
    intro i hi
    rw [List.any_eq_false] at hany
    have := hany _ (List.mem_map.mpr ⟨i, List.mem_range.mpr hi, rfl⟩)
    simpa using this
  have hn := length_le_sum_map (List.range a.s.length)
    (fun i => qosResLen (a.s.getD i []) (a.blob i)) (fun i => by simp only [qosResLen]; omega)
  rw [List.length_range] at hn
  generalize hes : (List.range a.s.length).map (fun i =>
    ((a.s.getD i []).getD 0 0 % 256, encFields (qosResFields (a.s.getD i []) (a.blob i)))) = es
  have hesl : es.length = a.s.length := by rw [← hes, List.length_map, List.length_range]
  generalize hpre : encFields ([b8 (a.num 0), b8 0,
      w16 (28 + ((List.range a.s.length).map fun i => qosResLen (a.s.getD i []) (a.blob i)).sum)] ++
      gasFields (a.num 1) (a.num 2) (a.num 3) (a.num 4) (a.num 5) ++
      [d32 (a.num 6), d32 (a.num 7), w16 (a.num 8)]) = pre
  have hprel : pre.length = 26 := by
    rw [← hpre, Inst.length_encFields]
    simp only [gasFields, Inst.fieldsLen_append, Inst.fieldsLen_cons, Inst.fieldsLen_nil, Fld.width]
  have hraw : entryBytes .qosctrl a = pre ++ (leN 2 a.s.length ++ (es.map (·.2)).flatten) := by
    rw [← hpre, ← hes]
    simp only [entryBytes, fields, CHM.encFields_append, encFields_cons, gasFields, Fld.bytes,
      List.append_assoc, List.cons_append, List.nil_append, encFields_flatMap, List.map_map]
    rfl
  have hsd : ∀ e ∈ es, C03.SelfDescribing .t8l16 e.1 e.2 := by
    intro e he
    rw [← hes] at he
    obtain ⟨i, hi, rfl⟩ := List.mem_map.mp he
    exact sd_qosRes _ _ (hres i (List.mem_range.mp hi))
  have hl : (entryBytes .qosctrl a).length = 28 + (es.map (·.2)).flatten.length := by
    rw [hraw]; simp only [List.length_append, length_leN, hprel]; omega
  have hdrop : (entryBytes .qosctrl a).drop 28 = (es.map (·.2)).flatten := by
    rw [hraw, ← List.append_assoc]
    exact List.drop_left' (by simp only [List.length_append, length_leN, hprel])
  have hwalk := C03.walk_flatten .t8l16 es hsd (entryBytes .qosctrl a).length (by omega)
  have hr : readAt (entryBytes .qosctrl a) 26 2 = some a.s.length := by
    rw [hraw, readAt_mid pre _ 26 2 a.s.length hprel, Nat.mod_eq_of_lt (by omega)]
  unfold entryCountsOracle
  simp only [hdrop, hwalk, hr, hesl, Option.getD_some, if_true]

end Acpi.Cnt
