/-
  Acpi.Lemmas.AmlFacts — compositional "facts" about how emitted bytes parse, used to assemble
  the per-constructor round-trip proofs of C06.
-/
import Acpi.Lemmas.AmlLeaf
namespace Acpi.Lemmas.AmlParse
open Acpi Spec Spec.Aml

/-- the round-trip statement for one tree -/
def RT (env : Env) (t : Aml) : Prop :=
  ∀ (bs rest : Bytes) (fuel : Nat), wf env t = true → okTerm t = true → t.enc = some bs →
    8 * bs.length + 16 ≤ fuel → parseTerm env fuel (bs ++ rest) = some (meaning t, rest)

def RTs (env : Env) : AmlList → Prop
  | .nil => True
  | .cons a r => RT env a ∧ RTs env r

/-- `e` parses as the term `tm` in TermArg position, with enough fuel -/
def TFact (env : Env) (e : Bytes) (tm : Tm) : Prop :=
  ∀ (f : Nat) (rest : Bytes), 8 * e.length + 16 ≤ f → parseTerm env f (e ++ rest) = some (tm, rest)

/-- `e` parses as `tm` in a SuperName / Target slot -/
def SGFact (env : Env) (s : Slot) (e : Bytes) (tm : Tm) : Prop :=
  ∀ (f : Nat) (ss : List Slot) (rest : Bytes) (is : List Nat) (ks : TmList) (r : Bytes),
    8 * e.length + 16 ≤ f → parseSlots env f ss rest = some (is, ks, r) →
    parseSlots env (f + 1) (s :: ss) (e ++ rest) = some (is, .cons tm ks, r)

/-- `e` is a NameString denoting `tm` -/
def NFact (e : Bytes) (tm : Tm) : Prop :=
  ∃ (r : Bool) (segs : List Bytes), tm = mkName r segs .nil ∧
    (∀ rest, NameString.decode (e ++ rest) = some (r, segs, rest)) ∧
    ∃ b t, e = b :: t ∧ isNameLead b = true

/-- `e` fills the operand slots `ss` exactly -/
def SlotsFact (env : Env) (ss : List Slot) (e : Bytes) (is : List Nat) (ks : TmList) : Prop :=
  ∀ (f : Nat) (rest : Bytes), 8 * e.length + 16 + ss.length ≤ f →
    parseSlots env f ss (e ++ rest) = some (is, ks, rest)

theorem TFact.nonempty {env : Env} {e : Bytes} {tm : Tm} (h : TFact env e tm) : 1 ≤ e.length := by
  cases e with
  | nil =>
    have := h 16 [] (by simp)
    simp [parseTerm] at this
  | cons b t => simp

theorem RT.tfact {env : Env} {a : Aml} {e : Bytes} (i : RT env a) (hw : wf env a = true)
    (hk : okTerm a = true) (he : a.enc = some e) : TFact env e (meaning a) :=
  fun f rest hf => i e rest f hw hk he hf

namespace SlotsFact
variable {env : Env}

theorem nil : SlotsFact env [] [] [] .nil := fun f rest _ => slots_nil env f rest

theorem T {ss : List Slot} {ea e : Bytes} {ta : Tm} {is : List Nat} {ks : TmList}
    (ha : TFact env ea ta) (h : SlotsFact env ss e is ks) :
    SlotsFact env (.T :: ss) (ea ++ e) is (.cons ta ks) := by
  intro f rest hf
  simp only [List.length_append, List.length_cons] at hf
  obtain ⟨f, rfl⟩ : ∃ g, f = g + 1 := ⟨f - 1, by omega⟩
  rw [List.append_assoc]
  exact slots_T env f ss _ _ ta is ks rest (ha f _ (by omega)) (h f rest (by omega))

theorem N {ss : List Slot} {ea e : Bytes} {ta : Tm} {is : List Nat} {ks : TmList}
    (ha : NFact ea ta) (h : SlotsFact env ss e is ks) :
    SlotsFact env (.N :: ss) (ea ++ e) is (.cons ta ks) := by
  intro f rest hf
  simp only [List.length_append, List.length_cons] at hf
  obtain ⟨f, rfl⟩ : ∃ g, f = g + 1 := ⟨f - 1, by omega⟩
  obtain ⟨r, segs, rfl, hd, _⟩ := ha
  rw [List.append_assoc]
  exact slots_N env f ss _ _ r segs is ks rest (hd _) (h f rest (by omega))

theorem B {ss : List Slot} {e : Bytes} (b : UInt8) {is : List Nat} {ks : TmList}
    (h : SlotsFact env ss e is ks) :
    SlotsFact env (.B :: ss) (b :: e) (b.toNat :: is) ks := by
  intro f rest hf
  simp only [List.length_cons] at hf
  obtain ⟨f, rfl⟩ : ∃ g, f = g + 1 := ⟨f - 1, by omega⟩
  exact slots_B env f ss b _ is ks rest (h f rest (by omega))

theorem W {ss : List Slot} {e : Bytes} (w : Bytes) (hw : w.length = 2) {is : List Nat} {ks : TmList}
    (h : SlotsFact env ss e is ks) :
    SlotsFact env (.W :: ss) (w ++ e) (fromLE w :: is) ks := by
  intro f rest hf
  simp only [List.length_append, List.length_cons] at hf
  obtain ⟨f, rfl⟩ : ∃ g, f = g + 1 := ⟨f - 1, by omega⟩
  rw [List.append_assoc]
  exact slots_W env f ss w _ is ks rest hw (h f rest (by omega))

theorem SG {s : Slot} {ss : List Slot} {ea e : Bytes} {ta : Tm} {is : List Nat} {ks : TmList}
    (ha : SGFact env s ea ta) (h : SlotsFact env ss e is ks) :
    SlotsFact env (s :: ss) (ea ++ e) is (.cons ta ks) := by
  intro f rest hf
  simp only [List.length_append, List.length_cons] at hf
  obtain ⟨f, rfl⟩ : ∃ g, f = g + 1 := ⟨f - 1, by omega⟩
  rw [List.append_assoc]
  exact ha f ss _ is ks rest (by omega) (h f rest (by omega))

end SlotsFact

/-- opcode bytes and the grammar code they select -/
inductive OpCode : Bytes → Nat → Prop
  | plain (c : UInt8) (code : Nat) (hc : OpByte c) (h5 : c ≠ 0x5B) (hcode : code = c.toNat) : OpCode [c] code
  | ext (c2 : UInt8) (code : Nat) (hcode : code = 0x5B00 + c2.toNat) : OpCode [0x5B, c2] code

theorem OpCode.len {opc : Bytes} {code : Nat} (h : OpCode opc code) : 1 ≤ opc.length ∧ opc.length ≤ 2 := by
  cases h <;> simp

theorem parseTerm_opc (env : Env) (fuel : Nat) (opc : Bytes) (code : Nat) (bs : Bytes) (h : OpCode opc code) :
    parseTerm env (fuel + 1) (opc ++ bs) = parseOp env fuel code bs := by
  cases h with
  | plain c code hc h5 hcode => subst hcode; exact parseTerm_op env fuel c bs hc h5
  | ext c2 code hcode => subst hcode; exact parseTerm_ext env fuel c2 bs

/-- operators without a PkgLength -/
theorem tfact_plain {env : Env} {opc : Bytes} {code : Nat} {ss : List Slot} {e : Bytes}
    {is : List Nat} {ks : TmList}
    (hop : OpCode opc code) (hsh : shape code = some ⟨ss, none⟩) (hl : ss.length ≤ 6)
    (hS : SlotsFact env ss e is ks) :
    TFact env (opc ++ e) (.node (.op code) is [] ks) := by
  intro f rest hf
  have := hop.len
  simp only [List.length_append] at hf
  obtain ⟨f, rfl⟩ : ∃ g, f = g + 1 := ⟨f - 1, by omega⟩
  rw [List.append_assoc, parseTerm_opc env f opc code _ hop]
  exact parseOp_plain env f code _ ss is ks rest hsh (hS f rest (by omega))


theorem pkgObj_some {opc body bs : Bytes} (h : pkgObj opc body = some bs) :
    pkgLenPanics body.length true = false ∧ bs = opc ++ (pkgLen body.length true ++ body) := by
  unfold pkgObj at h
  split at h
  · simp at h
  · rename_i hp
    injection h with h
    exact ⟨by simpa using hp, by rw [← h, List.append_assoc]⟩

/-- operators with a TermList body -/
theorem tfact_terms {env : Env} {opc : Bytes} {code : Nat} {ss : List Slot} {e d body : Bytes}
    {is : List Nat} {ks ts : TmList}
    (hop : OpCode opc code) (hsh : shape code = some ⟨ss, some .terms⟩) (hl : ss.length ≤ 6)
    (hS : SlotsFact env ss e is ks)
    (hL : ∀ f, 8 * d.length + 17 ≤ f → parseTermList env f d = some ts)
    (hbody : body = e ++ d) (hpl : pkgLenPanics body.length true = false) :
    TFact env (opc ++ (pkgLen body.length true ++ body)) (.node (.op code) is [] (ks.append ts)) := by
  subst hbody
  intro f rest hf
  have := hop.len
  simp only [List.length_append] at hf
  obtain ⟨f, rfl⟩ : ∃ g, f = g + 1 := ⟨f - 1, by omega⟩
  rw [List.append_assoc, parseTerm_opc env f opc code _ hop]
  exact parseOp_terms env f code _ rest ss is ks ts d hsh hpl (hS f d (by omega)) (hL f (by omega))

/-- operators with a PackageElementList body -/
theorem tfact_elems {env : Env} {opc : Bytes} {code : Nat} {ss : List Slot} {e d body : Bytes}
    {is : List Nat} {ks ts : TmList}
    (hop : OpCode opc code) (hsh : shape code = some ⟨ss, some .elems⟩) (hl : ss.length ≤ 6)
    (hS : SlotsFact env ss e is ks)
    (hL : ∀ f, 8 * d.length + 17 ≤ f → parseElems env f d = some ts)
    (hbody : body = e ++ d) (hpl : pkgLenPanics body.length true = false) :
    TFact env (opc ++ (pkgLen body.length true ++ body)) (.node (.op code) is [] (ks.append ts)) := by
  subst hbody
  intro f rest hf
  have := hop.len
  simp only [List.length_append] at hf
  obtain ⟨f, rfl⟩ : ∃ g, f = g + 1 := ⟨f - 1, by omega⟩
  rw [List.append_assoc, parseTerm_opc env f opc code _ hop]
  exact parseOp_elems env f code _ rest ss is ks ts d hsh hpl (hS f d (by omega)) (hL f (by omega))

/-- operators with a FieldList body -/
theorem tfact_fields {env : Env} {opc : Bytes} {code : Nat} {ss : List Slot} {e d body : Bytes}
    {is : List Nat} {ks ts : TmList}
    (hop : OpCode opc code) (hsh : shape code = some ⟨ss, some .fields⟩) (hl : ss.length ≤ 6)
    (hS : SlotsFact env ss e is ks)
    (hL : parseFields d.length d = some ts)
    (hbody : body = e ++ d) (hpl : pkgLenPanics body.length true = false) :
    TFact env (opc ++ (pkgLen body.length true ++ body)) (.node (.op code) is [] (ks.append ts)) := by
  subst hbody
  intro f rest hf
  have := hop.len
  simp only [List.length_append] at hf
  obtain ⟨f, rfl⟩ : ∃ g, f = g + 1 := ⟨f - 1, by omega⟩
  rw [List.append_assoc, parseTerm_opc env f opc code _ hop]
  exact parseOp_fields env f code _ rest ss is ks ts d hsh hpl (hS f d (by omega)) hL

/-- operators with a ByteList body -/
theorem tfact_bytes {env : Env} {opc : Bytes} {code : Nat} {ss : List Slot} {e d body : Bytes}
    {is : List Nat} {ks : TmList}
    (hop : OpCode opc code) (hsh : shape code = some ⟨ss, some .bytes⟩) (hl : ss.length ≤ 6)
    (hS : SlotsFact env ss e is ks)
    (hbody : body = e ++ d) (hpl : pkgLenPanics body.length true = false) :
    TFact env (opc ++ (pkgLen body.length true ++ body)) (.node (.op code) is [d] ks) := by
  subst hbody
  intro f rest hf
  have := hop.len
  simp only [List.length_append] at hf
  obtain ⟨f, rfl⟩ : ∃ g, f = g + 1 := ⟨f - 1, by omega⟩
  rw [List.append_assoc, parseTerm_opc env f opc code _ hop]
  exact parseOp_bytes env f code _ rest ss is ks d hsh hpl (hS f d (by omega))

end Acpi.Lemmas.AmlParse
