/-
  Acpi.Lemmas.AmlParse — one-step lemmas for the grammar-driven AML parser of Acpi.Spec.Aml,
  stated with hypotheses about the recursive calls (used by C06).
-/
import Acpi.Spec.Aml
import Acpi.Props.C07
namespace Acpi.Lemmas.AmlParse
open Acpi Spec Spec.Aml

/-- the operator branch of `parseTerm`, after the opcode has been read -/
def parseOp (env : Env) (fuel : Nat) (code : Nat) (rest : Bytes) : Option (Tm × Bytes) :=
  match shape code with
  | none => none
  | some sh =>
    match sh.body with
    | none =>
      (parseSlots env fuel sh.slots rest).map fun (ints, kids, r) => (.node (.op code) ints [] kids, r)
    | some body =>
      match PkgLength.decode rest with
      | none => none
      | some (total, w) =>
        if total < w ∨ rest.length < total then none else
        let inner := (rest.drop w).take (total - w)
        let after := rest.drop total
        match parseSlots env fuel sh.slots inner with
        | none => none
        | some (ints, kids, r) =>
          match body with
          | .bytes => some (.node (.op code) ints [r] kids, after)
          | .terms => (parseTermList env fuel r).map fun ts => (.node (.op code) ints [] (kids.append ts), after)
          | .elems => (parseElems env fuel r).map fun ts => (.node (.op code) ints [] (kids.append ts), after)
          | .fields => (parseFields r.length r).map fun ts => (.node (.op code) ints [] (kids.append ts), after)

/-- first bytes that reach the operator branch -/
def OpByte (b : UInt8) : Prop :=
  ¬ (b = 0x00 ∨ b = 0x01 ∨ b = 0x0A ∨ b = 0x0B ∨ b = 0x0C ∨ b = 0x0E) ∧ ¬ b = 0x0D ∧
  ¬ (0x60 ≤ b ∧ b ≤ 0x67) ∧ ¬ (0x68 ≤ b ∧ b ≤ 0x6E) ∧ ¬ isNameLead b = true

instance (b : UInt8) : Decidable (OpByte b) := by unfold OpByte; infer_instance

theorem parseTerm_op (env : Env) (fuel : Nat) (b : UInt8) (bs : Bytes) (hb : OpByte b) (h5 : b ≠ 0x5B) :
    parseTerm env (fuel + 1) (b :: bs) = parseOp env fuel b.toNat bs := by
  obtain ⟨h1, h2, h3, h4, h6⟩ := hb
  rw [parseTerm.eq_3]
  simp only [if_neg h1, if_neg h2, if_neg h3, if_neg h4, if_neg h6, if_neg h5]
  rfl

theorem parseTerm_ext (env : Env) (fuel : Nat) (b2 : UInt8) (bs : Bytes) :
    parseTerm env (fuel + 1) (0x5B :: b2 :: bs) = parseOp env fuel (0x5B00 + b2.toNat) bs := by
  rw [parseTerm.eq_3]
  have hb : OpByte 0x5B := by decide
  obtain ⟨h1, h2, h3, h4, h6⟩ := hb
  simp only [if_neg h1, if_neg h2, if_neg h3, if_neg h4, if_neg h6, if_true, List.headD_cons, List.drop_succ_cons,
    List.drop_zero]
  rfl


theorem parseOp_plain (env : Env) (fuel code : Nat) (rest : Bytes) (slots : List Slot)
    (ints : List Nat) (kids : TmList) (r : Bytes)
    (hsh : shape code = some ⟨slots, none⟩)
    (hs : parseSlots env fuel slots rest = some (ints, kids, r)) :
    parseOp env fuel code rest = some (.node (.op code) ints [] kids, r) := by
  simp only [parseOp, hsh, hs, Option.map_some]

/-- framing of a PkgLength-delimited object emitted as `pkgLen |body| ++ body` -/
theorem frame (body rest : Bytes) (hpl : pkgLenPanics body.length true = false) :
    ∃ total w, PkgLength.decode (pkgLen body.length true ++ body ++ rest) = some (total, w) ∧
      ¬ (total < w ∨ (pkgLen body.length true ++ body ++ rest).length < total) ∧
      ((pkgLen body.length true ++ body ++ rest).drop w).take (total - w) = body ∧
      (pkgLen body.length true ++ body ++ rest).drop total = rest := by
  have h28 : pkgLenTotal body.length true < 2 ^ 28 := by
    have : ¬ 2 ^ 28 ≤ pkgLenTotal body.length true := by simpa [pkgLenPanics] using hpl
    omega
  refine ⟨_, _, C07.decode_object body.length body rest rfl h28, ?_, ?_, ?_⟩
  · simp only [List.length_append]; omega
  · rw [List.append_assoc, List.drop_left, List.length_append, Nat.add_sub_cancel_left, List.take_left]
  · rw [List.drop_left]

theorem parseOp_terms (env : Env) (fuel code : Nat) (body rest : Bytes) (slots : List Slot)
    (ints : List Nat) (kids ts : TmList) (r : Bytes)
    (hsh : shape code = some ⟨slots, some .terms⟩)
    (hpl : pkgLenPanics body.length true = false)
    (hs : parseSlots env fuel slots body = some (ints, kids, r))
    (hb : parseTermList env fuel r = some ts) :
    parseOp env fuel code (pkgLen body.length true ++ body ++ rest) =
      some (.node (.op code) ints [] (kids.append ts), rest) := by
  obtain ⟨total, w, hd, hc, hi, ha⟩ := frame body rest hpl
  simp only [parseOp, hsh, hd, if_neg hc, hi, ha, hs, hb, Option.map_some]

theorem parseOp_elems (env : Env) (fuel code : Nat) (body rest : Bytes) (slots : List Slot)
    (ints : List Nat) (kids ts : TmList) (r : Bytes)
    (hsh : shape code = some ⟨slots, some .elems⟩)
    (hpl : pkgLenPanics body.length true = false)
    (hs : parseSlots env fuel slots body = some (ints, kids, r))
    (hb : parseElems env fuel r = some ts) :
    parseOp env fuel code (pkgLen body.length true ++ body ++ rest) =
      some (.node (.op code) ints [] (kids.append ts), rest) := by
  obtain ⟨total, w, hd, hc, hi, ha⟩ := frame body rest hpl
  simp only [parseOp, hsh, hd, if_neg hc, hi, ha, hs, hb, Option.map_some]

theorem parseOp_fields (env : Env) (fuel code : Nat) (body rest : Bytes) (slots : List Slot)
    (ints : List Nat) (kids ts : TmList) (r : Bytes)
    (hsh : shape code = some ⟨slots, some .fields⟩)
    (hpl : pkgLenPanics body.length true = false)
    (hs : parseSlots env fuel slots body = some (ints, kids, r))
    (hb : parseFields r.length r = some ts) :
    parseOp env fuel code (pkgLen body.length true ++ body ++ rest) =
      some (.node (.op code) ints [] (kids.append ts), rest) := by
  obtain ⟨total, w, hd, hc, hi, ha⟩ := frame body rest hpl
  simp only [parseOp, hsh, hd, if_neg hc, hi, ha, hs, hb, Option.map_some]

theorem parseOp_bytes (env : Env) (fuel code : Nat) (body rest : Bytes) (slots : List Slot)
    (ints : List Nat) (kids : TmList) (r : Bytes)
    (hsh : shape code = some ⟨slots, some .bytes⟩)
    (hpl : pkgLenPanics body.length true = false)
    (hs : parseSlots env fuel slots body = some (ints, kids, r)) :
    parseOp env fuel code (pkgLen body.length true ++ body ++ rest) =
      some (.node (.op code) ints [r] kids, rest) := by
  obtain ⟨total, w, hd, hc, hi, ha⟩ := frame body rest hpl
  simp only [parseOp, hsh, hd, if_neg hc, hi, ha, hs]

/-! ### slots -/

theorem slots_nil (env : Env) (fuel : Nat) (bs : Bytes) :
    parseSlots env fuel [] bs = some ([], .nil, bs) := by
  cases fuel <;> simp only [parseSlots]

theorem slots_B (env : Env) (fuel : Nat) (ss : List Slot) (b : UInt8) (bs : Bytes)
    (is : List Nat) (ks : TmList) (r : Bytes)
    (h : parseSlots env fuel ss bs = some (is, ks, r)) :
    parseSlots env (fuel + 1) (.B :: ss) (b :: bs) = some (b.toNat :: is, ks, r) := by
  simp only [parseSlots, h, Option.map_some]

theorem slots_W (env : Env) (fuel : Nat) (ss : List Slot) (w bs : Bytes)
    (is : List Nat) (ks : TmList) (r : Bytes) (hw : w.length = 2)
    (h : parseSlots env fuel ss bs = some (is, ks, r)) :
    parseSlots env (fuel + 1) (.W :: ss) (w ++ bs) = some (fromLE w :: is, ks, r) := by
  have hl : ¬ (w ++ bs).length < 2 := by simp only [List.length_append]; omega
  simp only [parseSlots, if_neg hl, List.drop_left' hw, List.take_left' hw, h, Option.map_some]

theorem slots_N (env : Env) (fuel : Nat) (ss : List Slot) (bs rest : Bytes) (rt : Bool) (segs : List Bytes)
    (is : List Nat) (ks : TmList) (r : Bytes)
    (hn : NameString.decode bs = some (rt, segs, rest))
    (h : parseSlots env fuel ss rest = some (is, ks, r)) :
    parseSlots env (fuel + 1) (.N :: ss) bs = some (is, .cons (mkName rt segs .nil) ks, r) := by
  simp only [parseSlots, hn, h, Option.map_some]

theorem slots_T (env : Env) (fuel : Nat) (ss : List Slot) (bs rest : Bytes) (t : Tm)
    (is : List Nat) (ks : TmList) (r : Bytes)
    (ht : parseTerm env fuel bs = some (t, rest))
    (h : parseSlots env fuel ss rest = some (is, ks, r)) :
    parseSlots env (fuel + 1) (.T :: ss) bs = some (is, .cons t ks, r) := by
  simp only [parseSlots, ht, h, Option.map_some]

/-- Target slot: NullName -/
theorem slots_G_null (env : Env) (fuel : Nat) (ss : List Slot) (bs : Bytes)
    (is : List Nat) (ks : TmList) (r : Bytes)
    (h : parseSlots env fuel ss bs = some (is, ks, r)) :
    parseSlots env (fuel + 1) (.G :: ss) (0x00 :: bs) =
      some (is, .cons (.node .nullName [] [] .nil) ks, r) := by
  simp only [parseSlots, and_self, if_true, h, Option.map_some]

/-- SuperName / Target slot: a name -/
theorem slots_SG_name (env : Env) (fuel : Nat) (s : Slot) (hs : s = .S ∨ s = .G) (ss : List Slot)
    (b : UInt8) (bs rest : Bytes) (rt : Bool) (segs : List Bytes)
    (is : List Nat) (ks : TmList) (r : Bytes)
    (hb : isNameLead b = true)
    (hn : NameString.decode (b :: bs) = some (rt, segs, rest))
    (h : parseSlots env fuel ss rest = some (is, ks, r)) :
    parseSlots env (fuel + 1) (s :: ss) (b :: bs) = some (is, .cons (mkName rt segs .nil) ks, r) := by
  have h0 : b ≠ 0 := by intro e; subst e; revert hb; decide
  rcases hs with rfl | rfl <;>
    simp only [parseSlots, h0, and_false, reduceCtorEq, if_false, hb, if_true, hn, h, Option.map_some]

theorem not_lead_of_super (b : UInt8) (hb : (0x60 ≤ b ∧ b ≤ 0x6E) ∨ b = 0x83 ∨ b = 0x88 ∨ b = 0x71) :
    ¬ isNameLead b = true := by
  simp only [isNameLead, NameString.isLead, UInt8.le_iff_toNat_le, ← UInt8.toNat_inj, Bool.or_eq_true,
    Bool.and_eq_true, decide_eq_true_eq] at hb ⊢
  simp only [UInt8.toNat_ofNat] at hb ⊢
  omega

/-- SuperName / Target slot: LocalObj | ArgObj | DerefOf | Index -/
theorem slots_SG_term (env : Env) (fuel : Nat) (s : Slot) (hs : s = .S ∨ s = .G) (ss : List Slot)
    (b : UInt8) (bs rest : Bytes) (t : Tm)
    (is : List Nat) (ks : TmList) (r : Bytes)
    (hb : (0x60 ≤ b ∧ b ≤ 0x6E) ∨ b = 0x83 ∨ b = 0x88 ∨ b = 0x71)
    (ht : parseTerm env fuel (b :: bs) = some (t, rest))
    (h : parseSlots env fuel ss rest = some (is, ks, r)) :
    parseSlots env (fuel + 1) (s :: ss) (b :: bs) = some (is, .cons t ks, r) := by
  have h0 : b ≠ 0 := by
    intro e; subst e; revert hb; decide
  have hl : ¬ isNameLead b = true := not_lead_of_super b hb
  rcases hs with rfl | rfl <;>
    simp only [parseSlots, h0, and_false, reduceCtorEq, if_false, hl, if_pos hb, ht, h, Option.map_some]

/-! ### lists -/

theorem termList_nil (env : Env) (fuel : Nat) : parseTermList env fuel [] = some .nil := by
  cases fuel <;> simp only [parseTermList]

theorem termList_cons (env : Env) (fuel : Nat) (bs rest : Bytes) (t : Tm) (ts : TmList)
    (hne : bs ≠ [])
    (ht : parseTerm env fuel bs = some (t, rest))
    (h : parseTermList env fuel rest = some ts) :
    parseTermList env (fuel + 1) bs = some (.cons t ts) := by
  cases bs with
  | nil => exact absurd rfl hne
  | cons b bs => simp only [parseTermList, ht, h, Option.map_some]

theorem terms_zero (env : Env) (fuel : Nat) (bs : Bytes) : parseTerms env fuel 0 bs = some (.nil, bs) := by
  cases fuel <;> simp only [parseTerms]

theorem terms_succ (env : Env) (fuel n : Nat) (bs rest r : Bytes) (t : Tm) (ts : TmList)
    (ht : parseTerm env fuel bs = some (t, rest))
    (h : parseTerms env fuel n rest = some (ts, r)) :
    parseTerms env (fuel + 1) (n + 1) bs = some (.cons t ts, r) := by
  simp only [parseTerms, ht, h, Option.map_some]

theorem elems_nil (env : Env) (fuel : Nat) : parseElems env fuel [] = some .nil := by
  cases fuel <;> simp only [parseElems]

theorem elems_name (env : Env) (fuel : Nat) (b : UInt8) (bs rest : Bytes) (rt : Bool) (segs : List Bytes)
    (ts : TmList) (hb : isNameLead b = true)
    (hn : NameString.decode (b :: bs) = some (rt, segs, rest))
    (h : parseElems env fuel rest = some ts) :
    parseElems env (fuel + 1) (b :: bs) = some (.cons (mkName rt segs .nil) ts) := by
  simp only [parseElems, hb, if_true, hn, h, Option.map_some]

theorem elems_term (env : Env) (fuel : Nat) (b : UInt8) (bs rest : Bytes) (t : Tm)
    (ts : TmList) (hb : ¬ isNameLead b = true)
    (ht : parseTerm env fuel (b :: bs) = some (t, rest))
    (h : parseElems env fuel rest = some ts) :
    parseElems env (fuel + 1) (b :: bs) = some (.cons t ts) := by
  simp only [parseElems, hb, Bool.false_eq_true, if_false, ht, h, Option.map_some]

end Acpi.Lemmas.AmlParse
