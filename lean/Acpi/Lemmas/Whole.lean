/-
  Helper lemmas for the whole-table theorems (Props/C0x/Whole.lean): inversion of `runTable`
  and `buildAll`, the per-table side conditions of the engine theorems, and the conformance of
  the table head.
-/
import Acpi.Tables.Whole
import Acpi.Spec.FixedLayout
import Acpi.Lemmas.Layout
import Acpi.Lemmas.FixedRows
import Acpi.Props.C02
import Acpi.Props.C02.Entries
import Acpi.Props.C02.Fixed
import Acpi.Props.C03
import Acpi.Props.C03.Entries
import Acpi.Props.C04
namespace Acpi.Whole
open Acpi Spec

/-! ### inversion -/

/-- a successful `buildAll` built every entry, in order -/
theorem buildAll_spec : ∀ (ops : List AddOp) (bs : List (Kind × EArgs)), buildAll ops = some bs →
    bs.length = ops.length ∧
    ∀ i (hi : i < ops.length) (hi' : i < bs.length),
      bs[i].1 = ops[i].k ∧ buildEntry ops[i].k ops[i].ctor ops[i].opts = .ok bs[i].2 := by
  intro ops
  induction ops with
  | nil =>
    intro bs h
    unfold buildAll at h
    cases h
    exact ⟨rfl, fun i hi => absurd hi (Nat.not_lt_zero i)⟩
  | cons op ops ih =>
    intro bs h
    unfold buildAll at h
    split at h
    · cases h
    · rename_i a ha
      simp only [Option.map_eq_some_iff] at h
      obtain ⟨r, hr, rfl⟩ := h
      obtain ⟨h1, h2⟩ := ih r hr
      refine ⟨by simp only [List.length_cons, h1], ?_⟩
      intro i hi hi'
      cases i with
      | zero => exact ⟨rfl, ha⟩
      | succ i =>
        simp only [List.length_cons] at hi hi'
        simp only [List.getElem_cons_succ]
        exact h2 i (by omega) (by omega)

/-- a successful `runTable`: every kind is accepted by the table, every entry was built, and
    the engine ran on the built entries -/
theorem runTable_inv {T : TableId} {o : Oem} {ops : List AddOp} {hs : List Nat} {t : Tbl}
    (h : runTable T o ops = some (hs, t)) :
    (∀ op ∈ ops, tableOf op.k = some T.name) ∧
    ∃ bs, buildAll ops = some bs ∧ runAdds (Tbl.new T.cfg o) (bs.map rawOf) = some (hs, t) := by
  unfold runTable at h
  split at h
  · rename_i hc
    simp only [Bool.and_eq_true, List.all_eq_true, TableId.accepts, decide_eq_true_eq] at hc
    refine ⟨hc.1, ?_⟩
    split at h
    · cases h
    · rename_i bs hb
      exact ⟨bs, hb, h⟩
  · cases h

/-- the same, with the built entries already named -/
theorem runTable_inv' {T : TableId} {o : Oem} {ops : List AddOp} {hs : List Nat} {t : Tbl}
    {bs : List (Kind × EArgs)} (hb : buildAll ops = some bs)
    (h : runTable T o ops = some (hs, t)) :
    (∀ op ∈ ops, tableOf op.k = some T.name) ∧
    runAdds (Tbl.new T.cfg o) (bs.map rawOf) = some (hs, t) := by
  obtain ⟨ha, bs', hb', hr⟩ := runTable_inv h
  rw [hb] at hb'
  cases hb'
  exact ⟨ha, hr⟩

/-! ### side conditions of the engine theorems -/

theorem sig_length (T : TableId) : T.cfg.sig.length = 4 := by
  cases T <;> rfl

theorem cfgWf (T : TableId) (o : Oem) (ho : C02.OemWf o) : C02.CfgWf T.cfg o :=
  ⟨sig_length T, ho.1, ho.2⟩

/-- the `len()` helper of every built entry is its serialised size -/
theorem claimed_eq (ops : List AddOp)
    (hwf : ∀ op ∈ ops, op.k ≠ .rdpas ∧ entryWf op.k op.ctor op.opts = true)
    (bs : List (Kind × EArgs)) (hb : buildAll ops = some bs) :
    ∀ e ∈ bs.map rawOf, e.2 = e.1.length := by
  obtain ⟨hl, hget⟩ := buildAll_spec ops bs hb
  intro e he
  obtain ⟨b, hbm, rfl⟩ := List.mem_map.mp he
  obtain ⟨i, hi, rfl⟩ := List.mem_iff_getElem.mp hbm
  have hi' : i < ops.length := hl ▸ hi
  obtain ⟨h1, h2⟩ := hget i hi' hi
  obtain ⟨w1, w2⟩ := hwf ops[i] (List.getElem_mem hi')
  unfold rawOf
  simp only
  rw [h1]
  exact (C02.entry_length ops[i].k w1 ops[i].ctor ops[i].opts bs[i].2 w2 h2).symm

/-- every table's engine configuration matches its specification shape -/
theorem shape (T : TableId) : ∃ sh, shapeOf T.name = some sh ∧ C03.ShapeMatches sh T.cfg := by
  cases T with
  | xsdt => exact C03.shape_xsdt
  | mcfg => exact C03.shape_mcfg
  | madt l => exact C03.shape_madt l
  | srat => exact C03.shape_srat
  | hmat => exact C03.shape_hmat
  | pptt => exact C03.shape_pptt
  | cedt => exact C03.shape_cedt
  | rhct tb => exact C03.shape_rhct tb
  | rimt => exact C03.shape_rimt
  | viot => exact C03.shape_viot
  | hest => exact C03.shape_hest
  | rqsc => exact C03.shape_rqsc

/-! ### the table head -/

theorem render_append (xs ys : List Row) : render (xs ++ ys) = render xs ++ render ys := by
  simp [render]

/-- the head of an engine state is the header rows followed by rows for the table's own fixed
    fields, provided these rows tile `[36, total)` and render to `pre ++ count ++ post` -/
theorem head_conforms_aux (t : Tbl) (total : Nat) (rows : List Row)
    (hsig : t.cfg.sig.length = 4) (hid : t.oem.id.length = 6) (htb : t.oem.table.length = 8)
    (ht : tilesFrom 36 total rows = true)
    (hb : t.cfg.pre ++ leN t.cfg.cw t.count ++ t.cfg.post = render rows) :
    conforms total
      (hdrRows t.cfg.sig t.length.toNat t.cfg.rev.toNat t.hdrCks.toNat t.oem ++ rows) t.head = none := by
  apply conforms_of_eq
  · rw [C04.tilesFrom_append 0 36 total _ _ (C04.tiles_hdrRows _ _ _ _ _ hsig hid htb)]
    exact ht
  · rw [render_append, C04.render_hdrRows _ _ _ _ _ t.length.toNat_lt, UInt32.ofNat_toNat, ← hb]
    unfold Tbl.head
    simp only [List.append_assoc]

end Acpi.Whole
