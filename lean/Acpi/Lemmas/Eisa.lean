/-
  Acpi.Lemmas.Eisa — helper lemmas for C16 (EISA id compression, ToUUID buffers).

  * Nat: `x ||| y = x + y` when the operands occupy disjoint bit ranges; the or-chains of
    `EISAName::new` and `u32::swap_bytes` as sums.
  * `swapBytes_toNat`: `u32::swap_bytes` described with `/` and `%`.
  * `decompress_swapped`: the specification's decompression applied to the byte-swapped packed
    value gives back the seven fields.
  * Option `mapM id` refusal, `hex2byte` refusal, and `uuidBytes` as a map over index pairs.
-/
import Acpi.Aml.Eisa
import Acpi.Spec.Eisa
namespace Acpi.Lemmas.Eisa
open Acpi Acpi.Spec.Eisa

/-! ### or = add on disjoint bit ranges -/

theorem or_eq_add_of_mod (k x y : Nat) (hx : x % 2^k = 0) (hy : y < 2^k) : x ||| y = x + y := by
  have h := Nat.shiftLeft_add_eq_or_of_lt hy (x / 2^k)
  have e : (x / 2^k) <<< k = x := by
    rw [Nat.shiftLeft_eq]; have := Nat.div_add_mod x (2^k); rw [hx] at this; rw [Nat.mul_comm]; omega
  rw [e] at h; exact h.symm

/-- the same with the power given as a literal `m` (keeps `2 ^ k` out of `omega` goals) -/
theorem or_eq_add_of_mod' (k m : Nat) (hm : m = 2^k) (x y : Nat) (hx : x % m = 0) (hy : y < m) :
    x ||| y = x + y := by subst hm; exact or_eq_add_of_mod k x y hx hy

theorem and_ff00 (x : Nat) : x &&& 0xFF00 = (x / 256 % 256) * 256 := by
  apply Nat.eq_of_testBit_eq
  intro i
  have e1 : (0xFF00 : Nat) = (2^8 - 1) <<< 8 := by decide
  have e2 : (256:Nat) = 2^8 := by decide
  rw [Nat.testBit_and, e1, Nat.testBit_shiftLeft, Nat.testBit_two_pow_sub_one, e2,
    Nat.testBit_mul_two_pow, Nat.testBit_mod_two_pow, Nat.testBit_div_two_pow]
  by_cases h : 8 ≤ i
  · have : i - 8 + 8 = i := by omega
    simp [h, this]
    exact Bool.and_comm _ _
  · simp [h]

/-! ### `u32::swap_bytes` arithmetically -/

theorem or4_bytes (a b c d : Nat) (hb : b < 256) (hc : c < 256) (hd : d < 256) :
    a * 16777216 ||| b * 65536 ||| c * 256 ||| d = a * 16777216 + b * 65536 + c * 256 + d := by
  have s1 := or_eq_add_of_mod' 24 16777216 (by decide) (a * 16777216) (b * 65536) (by omega) (by omega)
  have s2 := or_eq_add_of_mod' 16 65536 (by decide) (a * 16777216 + b * 65536) (c * 256) (by omega) (by omega)
  have s3 := or_eq_add_of_mod' 8 256 (by decide) (a * 16777216 + b * 65536 + c * 256) d (by omega) hd
  rw [s1, s2, s3]

-- note: each `omega` call below runs with the earlier large-literal facts cleared; with them in
-- the context `omega` hits the default recursion limit.
theorem swap_arith (n : Nat) (hx : n < 4294967296) :
    n % 256 * 16777216 % 4294967296 ||| n / 256 % 256 * 256 * 256 % 4294967296 ||| n / 256 / 256 % 256 * 256 |||
      n / 16777216 =
    n % 256 * 16777216 + n / 256 % 256 * 65536 + n / 65536 % 256 * 256 + n / 16777216 := by
  have eA : n % 256 * 16777216 % 4294967296 = n % 256 * 16777216 := by omega
  have eB : n / 256 % 256 * 256 * 256 % 4294967296 = n / 256 % 256 * 65536 := by clear eA; omega
  have eC : n / 256 / 256 % 256 * 256 = n / 65536 % 256 * 256 := by clear eA eB; omega
  rw [eA, eB, eC]
  exact or4_bytes _ _ _ _ (Nat.mod_lt _ (by decide)) (Nat.mod_lt _ (by decide)) (by clear eA eB eC; omega)

/-- `u32::swap_bytes`: byte k of the argument becomes byte 3-k of the result. -/
theorem swapBytes_toNat (x : UInt32) :
    (swapBytes x).toNat = (x.toNat % 256) * 16777216 + (x.toNat / 256 % 256) * 65536
      + (x.toNat / 65536 % 256) * 256 + x.toNat / 16777216 := by
  have hx : x.toNat < 4294967296 := x.toNat_lt
  unfold swapBytes
  simp only [UInt32.toNat_or, UInt32.toNat_shiftLeft, UInt32.toNat_and, UInt32.toNat_shiftRight]
  have c1 : UInt32.toNat 255 = 2^8 - 1 := by decide
  have c2 : UInt32.toNat 65280 = 0xFF00 := by decide
  have c3 : UInt32.toNat 24 % 32 = 24 := by decide
  have c4 : UInt32.toNat 8 % 32 = 8 := by decide
  rw [c1, c2, c3, c4, Nat.and_two_pow_sub_one_eq_mod, and_ff00, and_ff00]
  simp only [Nat.shiftLeft_eq, Nat.shiftRight_eq_div_pow]
  have p8 : (2:Nat)^8 = 256 := by decide
  have p24 : (2:Nat)^24 = 16777216 := by decide
  have p32 : (2:Nat)^32 = 4294967296 := by decide
  rw [p8, p24, p32]
  exact swap_arith _ hx

/-! ### the packed EISA value -/

theorem or7 (a b c e f g h : Nat) (hb : b < 32) (hc : c < 32) (he : e < 16) (hf : f < 16)
    (hg : g < 16) (hh : h < 16) :
    a * 67108864 ||| b * 2097152 ||| c * 65536 ||| e * 4096 ||| f * 256 ||| g * 16 ||| h
      = a * 67108864 + b * 2097152 + c * 65536 + e * 4096 + f * 256 + g * 16 + h := by
  have s1 := or_eq_add_of_mod' 26 67108864 (by decide) (a * 67108864) (b * 2097152) (by omega) (by omega)
  have s2 := or_eq_add_of_mod' 21 2097152 (by decide) (a * 67108864 + b * 2097152) (c * 65536) (by omega) (by omega)
  have s3 := or_eq_add_of_mod' 16 65536 (by decide) (a * 67108864 + b * 2097152 + c * 65536) (e * 4096) (by omega) (by omega)
  have s4 := or_eq_add_of_mod' 12 4096 (by decide) (a * 67108864 + b * 2097152 + c * 65536 + e * 4096) (f * 256) (by omega) (by omega)
  have s5 := or_eq_add_of_mod' 8 256 (by decide) (a * 67108864 + b * 2097152 + c * 65536 + e * 4096 + f * 256) (g * 16) (by omega) (by omega)
  have s6 := or_eq_add_of_mod' 4 16 (by decide) (a * 67108864 + b * 2097152 + c * 65536 + e * 4096 + f * 256 + g * 16) h (by omega) hh
  rw [s1, s2, s3, s4, s5, s6]

/-- the shift-and-or chain of `EISAName::new` (before `swap_bytes`) as a sum -/
theorem pack_toNat (a b c e f g h : UInt32) (ha : a.toNat < 32) (hb : b.toNat < 32) (hc : c.toNat < 32)
    (he : e.toNat < 16) (hf : f.toNat < 16) (hg : g.toNat < 16) (hh : h.toNat < 16) :
    ((a <<< 26) ||| (b <<< 21) ||| (c <<< 16) ||| (e <<< 12) ||| (f <<< 8) ||| (g <<< 4) ||| h).toNat
      = a.toNat * 67108864 + b.toNat * 2097152 + c.toNat * 65536 + e.toNat * 4096 + f.toNat * 256
        + g.toNat * 16 + h.toNat := by
  simp only [UInt32.toNat_or, UInt32.toNat_shiftLeft]
  have c26 : UInt32.toNat 26 % 32 = 26 := by decide
  have c21 : UInt32.toNat 21 % 32 = 21 := by decide
  have c16 : UInt32.toNat 16 % 32 = 16 := by decide
  have c12 : UInt32.toNat 12 % 32 = 12 := by decide
  have c8 : UInt32.toNat 8 % 32 = 8 := by decide
  have c4 : UInt32.toNat 4 % 32 = 4 := by decide
  rw [c26, c21, c16, c12, c8, c4]
  simp only [Nat.shiftLeft_eq]
  clear c26 c21 c16 c12 c8 c4
  have p26 : (2:Nat)^26 = 67108864 := by decide
  have p21 : (2:Nat)^21 = 2097152 := by decide
  have p16 : (2:Nat)^16 = 65536 := by decide
  have p12 : (2:Nat)^12 = 4096 := by decide
  have p8 : (2:Nat)^8 = 256 := by decide
  have p4 : (2:Nat)^4 = 16 := by decide
  have p32 : (2:Nat)^32 = 4294967296 := by decide
  rw [p26, p21, p16, p12, p8, p4, p32]
  clear p26 p21 p16 p12 p8 p4 p32
  have m1 : a.toNat * 67108864 % 4294967296 = a.toNat * 67108864 := Nat.mod_eq_of_lt (by omega)
  have m2 : b.toNat * 2097152 % 4294967296 = b.toNat * 2097152 := Nat.mod_eq_of_lt (by omega)
  have m3 : c.toNat * 65536 % 4294967296 = c.toNat * 65536 := Nat.mod_eq_of_lt (by omega)
  have m4 : e.toNat * 4096 % 4294967296 = e.toNat * 4096 := Nat.mod_eq_of_lt (by omega)
  have m5 : f.toNat * 256 % 4294967296 = f.toNat * 256 := Nat.mod_eq_of_lt (by omega)
  have m6 : g.toNat * 16 % 4294967296 = g.toNat * 16 := Nat.mod_eq_of_lt (by omega)
  rw [m1, m2, m3, m4, m5, m6]
  exact or7 _ _ _ _ _ _ _ hb hc he hf hg hh

theorem toNat_ofNat_small (n : Nat) (h : n < 32) : (UInt32.ofNat n).toNat = n := by
  rw [UInt32.toNat_ofNat']; exact Nat.mod_eq_of_lt (Nat.lt_trans h (by decide))

/-- the four bytes (low to high) of the packed value -/
theorem packed_bytes (a b c e f g h : Nat) (hc : c < 32) (he : e < 16)
    (hf : f < 16) (hg : g < 16) (hh : h < 16) (n : Nat)
    (hn : n = a * 67108864 + b * 2097152 + c * 65536 + e * 4096 + f * 256 + g * 16 + h) :
    n % 256 = g * 16 + h ∧ n / 256 % 256 = e * 16 + f ∧ n / 65536 % 256 = (b % 8) * 32 + c ∧
      n / 16777216 = a * 4 + b / 8 := by
  refine ⟨by omega, by omega, by omega, by omega⟩

theorem le_bytes (p q r s : Nat) (hp : p < 256) (hq : q < 256) (hr : r < 256) (hs : s < 256) (v : Nat)
    (hv : v = p * 16777216 + q * 65536 + r * 256 + s) :
    v % 256 = s ∧ v / 256 % 256 = r ∧ v / 65536 % 256 = q ∧ v / 16777216 % 256 = p := by
  refine ⟨by omega, by omega, by omega, by omega⟩

theorem unpack_letters (a b c : Nat) (ha : a < 32) (hb : b < 32) (hc : c < 32) (s r : Nat)
    (hs : s = a * 4 + b / 8) (hr : r = (b % 8) * 32 + c) :
    s / 4 % 32 = a ∧ (s % 4) * 8 + r / 32 = b ∧ r % 32 = c := by
  refine ⟨by omega, by omega, by omega⟩

/-- The specification's decompression, applied to the byte-swapped packed value, returns the
    three letter fields (offset 0x40) and the four hex digits. -/
theorem decompress_swapped (a b c e f g h : Nat) (ha : a < 32) (hb : b < 32) (hc : c < 32) (he : e < 16)
    (hf : f < 16) (hg : g < 16) (hh : h < 16) (n v : Nat)
    (hn : n = a * 67108864 + b * 2097152 + c * 65536 + e * 4096 + f * 256 + g * 16 + h)
    (hv : v = (n % 256) * 16777216 + (n / 256 % 256) * 65536 + (n / 65536 % 256) * 256 + n / 16777216) :
    decompress v = [Char.ofNat (64 + a), Char.ofNat (64 + b), Char.ofNat (64 + c),
      hexUpper e, hexUpper f, hexUpper g, hexUpper h] := by
  obtain ⟨n0, n1, n2, n3⟩ := packed_bytes a b c e f g h hc he hf hg hh n hn
  rw [n0, n1, n2, n3] at hv
  clear hn n0 n1 n2 n3
  obtain ⟨v0, v1, v2, v3⟩ := le_bytes (g * 16 + h) (e * 16 + f) (b % 8 * 32 + c) (a * 4 + b / 8)
    (by omega) (by omega) (by omega) (by omega) v hv
  obtain ⟨l1, l2, l3⟩ := unpack_letters a b c ha hb hc _ _ rfl rfl
  unfold decompress
  simp only [v0, v1, v2, v3, l1, l3]
  have d1 : (e * 16 + f) / 16 = e := by omega
  have d2 : (e * 16 + f) % 16 = f := by omega
  have d3 : (g * 16 + h) / 16 = g := by omega
  have d4 : (g * 16 + h) % 16 = h := by omega
  rw [d1, d2, d3, d4, Nat.add_assoc 64, l2]

/-! ### UUID -/

/-- in `Option`, `mapM id` over a list containing `none` is `none` -/
theorem mapM_id_none_of_mem {α : Type} : ∀ (l : List (Option α)), none ∈ l → l.mapM id = none
  | [], h => by cases h
  | a :: as, h => by
    rw [List.mapM_cons]
    cases a with
    | none => rfl
    | some x =>
      have h' : none ∈ as := by
        rcases List.mem_cons.mp h with h | h
        · cases h
        · exact h
      rw [mapM_id_none_of_mem as h']; rfl

theorem hex2byte_none_left (c1 c2 : Char) (h : toDigit16 c1 = none) : hex2byte c1 c2 = none := by
  unfold hex2byte; rw [h]; rfl
theorem hex2byte_none_right (c1 c2 : Char) (h : toDigit16 c2 = none) : hex2byte c1 c2 = none := by
  unfold hex2byte; rw [h]; cases toDigit16 c1 <;> rfl

/-- the index pairs read by `Uuid::new`, in buffer order -/
def uuidPairs : List (Nat × Nat) :=
  [(6, 7), (4, 5), (2, 3), (0, 1), (11, 12), (9, 10), (16, 17), (14, 15), (19, 20), (21, 22),
   (24, 25), (26, 27), (28, 29), (30, 31), (32, 33), (34, 35)]

/-- every non-dash position below 36 is read by some pair -/
theorem uuidPairs_cover : ∀ k : Fin 36, (k.val ≠ 8 ∧ k.val ≠ 13 ∧ k.val ≠ 18 ∧ k.val ≠ 23) →
    ∃ p ∈ uuidPairs, p.1 = k.val ∨ p.2 = k.val := by decide +kernel

theorem uuidBytes_eq (cs : List Char) (hl : cs.length = 36)
    (hd : ¬ (cs[8]! ≠ '-' ∨ cs[13]! ≠ '-' ∨ cs[18]! ≠ '-' ∨ cs[23]! ≠ '-')) :
    uuidBytes cs = (uuidPairs.map (fun p => hex2byte cs[p.1]! cs[p.2]!)).mapM id := by
  unfold uuidBytes
  rw [if_neg (by intro h; exact h hl), if_neg hd]
  rfl

end Acpi.Lemmas.Eisa
