/-
  Helper lemmas for the mixed-program theorems (Props/C0x/Mixed.lean): inversion of `runMixed`
  and `buildMixed`, the relation to `runTable`, and the truthful-length side condition of the
  engine theorems.
-/
import Acpi.Tables.Mixed
import Acpi.Lemmas.Whole
namespace Acpi.Mixed
open Acpi Spec

/-! ### the modelled calls -/

@[simp] theorem modelledOps_nil : modelledOps [] = [] := rfl
@[simp] theorem modelledOps_modelled (op : AddOp) (ms : List MOp) :
    modelledOps (.modelled op :: ms) = op :: modelledOps ms := rfl
@[simp] theorem modelledOps_opaque (raw : Bytes) (ms : List MOp) :
    modelledOps (.opaque raw :: ms) = modelledOps ms := rfl

theorem modelledOps_map (ops : List AddOp) : modelledOps (ops.map .modelled) = ops := by
  induction ops with
  | nil => rfl
  | cons op ops ih => simp only [List.map_cons, modelledOps_modelled, ih]

theorem mem_modelledOps (op : AddOp) (ms : List MOp) :
    op ∈ modelledOps ms ↔ MOp.modelled op ∈ ms := by
  induction ms with
  | nil => simp
  | cons m ms ih =>
    cases m with
    | modelled op' =>
      simp only [modelledOps_modelled, List.mem_cons, ih, MOp.modelled.injEq]
    | «opaque» raw =>
      simp only [modelledOps_opaque, List.mem_cons, ih, reduceCtorEq, false_or]

/-- a program without opaque entries is the image of its modelled calls -/
theorem eq_map_of_no_opaque (ms : List MOp) (h : ∀ m ∈ ms, ∃ op, m = .modelled op) :
    ms = (modelledOps ms).map .modelled := by
  induction ms with
  | nil => rfl
  | cons m ms ih =>
    obtain ⟨op, rfl⟩ := h m List.mem_cons_self
    simp only [modelledOps_modelled, List.map_cons, List.cons.injEq, true_and]
    exact ih fun m hm => h m (List.mem_cons_of_mem _ hm)

/-! ### `buildMixed` -/

theorem buildMixed_map (ops : List AddOp) :
    buildMixed (ops.map .modelled) = (buildAll ops).map fun bs => bs.map rawOf := by
  induction ops with
  | nil => rfl
  | cons op ops ih =>
    simp only [List.map_cons]
    unfold buildMixed buildAll
    cases buildEntry op.k op.ctor op.opts with
    | error _ => rfl
    | ok a =>
      simp only [ih]
      cases buildAll ops <;> rfl

/-- a successful `buildMixed` lines up one engine entry per call, in call order: the built
    modelled entry (`entryBytes`, `lenOf`) or the opaque bytes with their length -/
theorem buildMixed_spec : ∀ (ms : List MOp) (es : List (Bytes × Nat)), buildMixed ms = some es →
    es.length = ms.length ∧
    ∀ i (hi : i < ms.length) (hi' : i < es.length),
      (∀ op, ms[i] = .modelled op →
        ∃ a, buildEntry op.k op.ctor op.opts = .ok a ∧ es[i] = (entryBytes op.k a, lenOf op.k a)) ∧
      (∀ raw, ms[i] = .opaque raw → es[i] = (raw, raw.length)) := by
  intro ms
  induction ms with
  | nil =>
    intro es h
    unfold buildMixed at h
    cases h
    exact ⟨rfl, fun i hi => absurd hi (Nat.not_lt_zero i)⟩
  | cons m ms ih =>
    intro es h
    cases m with
    | modelled op =>
      unfold buildMixed at h
      split at h
      · cases h
      · rename_i a ha
        simp only [Option.map_eq_some_iff] at h
        obtain ⟨r, hr, rfl⟩ := h
        obtain ⟨h1, h2⟩ := ih r hr
        refine ⟨by simp only [List.length_cons, h1], ?_⟩
        intro i hi hi'
        cases i with
        | zero =>
          refine ⟨fun op' e => ?_, fun raw e => ?_⟩
          · simp only [List.getElem_cons_zero, MOp.modelled.injEq] at e
            subst e
            exact ⟨a, ha, rfl⟩
          · simp only [List.getElem_cons_zero, reduceCtorEq] at e
        | succ i =>
          simp only [List.length_cons] at hi hi'
          simp only [List.getElem_cons_succ]
          exact h2 i (by omega) (by omega)
    | «opaque» raw =>
      unfold buildMixed at h
      simp only [Option.map_eq_some_iff] at h
      obtain ⟨r, hr, rfl⟩ := h
      obtain ⟨h1, h2⟩ := ih r hr
      refine ⟨by simp only [List.length_cons, h1], ?_⟩
      intro i hi hi'
      cases i with
      | zero =>
        refine ⟨fun op' e => ?_, fun raw' e => ?_⟩
        · simp only [List.getElem_cons_zero, reduceCtorEq] at e
        · simp only [List.getElem_cons_zero, MOp.opaque.injEq] at e
          subst e
          rfl
      | succ i =>
        simp only [List.length_cons] at hi hi'
        simp only [List.getElem_cons_succ]
        exact h2 i (by omega) (by omega)

/-! ### `runMixed` -/

/-- a mixed program written as a list of modelled calls is that `runTable` program -/
theorem runMixed_map (T : TableId) (o : Oem) (ops : List AddOp) :
    runMixed T o (ops.map .modelled) = runTable T o ops := by
  unfold runMixed runTable
  rw [modelledOps_map, buildMixed_map]
  cases buildAll ops <;> rfl

/-- a mixed program with no opaque entry is `runTable` of its modelled ops -/
theorem runMixed_modelled (T : TableId) (o : Oem) (ms : List MOp)
    (h : ∀ m ∈ ms, ∃ op, m = .modelled op) :
    runMixed T o ms = runTable T o (modelledOps ms) := by
  conv => lhs; rw [eq_map_of_no_opaque ms h]
  exact runMixed_map T o (modelledOps ms)

/-- non-vacuity: the example program without its opaque call is the `runTable` program GICC, GICD,
    which runs -/
example : runMixed (.madt 0) Mixed.exOem [Mixed.exProg[0], Mixed.exProg[2]] =
      runTable (.madt 0) Mixed.exOem
        [⟨.gicc, { n := #[1] }, [⟨"pi", [23, 0]⟩]⟩, ⟨.gicd, { n := #[0, 0x8000000, 3] }, []⟩] ∧
    (runTable (.madt 0) Mixed.exOem
        [⟨.gicc, { n := #[1] }, [⟨"pi", [23, 0]⟩]⟩, ⟨.gicd, { n := #[0, 0x8000000, 3] }, []⟩]).isSome = true :=
  ⟨runMixed_modelled _ _ _ (by simp [Mixed.exProg]), by decide +kernel⟩

/-- a successful `runMixed`: every modelled kind is accepted by the table, every modelled entry
    was built, and the engine ran on the lined-up entries -/
theorem runMixed_inv {T : TableId} {o : Oem} {ms : List MOp} {hs : List Nat} {t : Tbl}
    (h : runMixed T o ms = some (hs, t)) :
    (∀ op, MOp.modelled op ∈ ms → tableOf op.k = some T.name) ∧
    ∃ es, buildMixed ms = some es ∧ runAdds (Tbl.new T.cfg o) es = some (hs, t) := by
  unfold runMixed at h
  split at h
  · rename_i hc
    simp only [Bool.and_eq_true, List.all_eq_true, TableId.accepts, decide_eq_true_eq] at hc
    refine ⟨fun op hop => hc.1 op ((mem_modelledOps op ms).mpr hop), ?_⟩
    split at h
    · cases h
    · rename_i es hb
      exact ⟨es, hb, h⟩
  · cases h

/-- the same, with the lined-up entries already named -/
theorem runMixed_inv' {T : TableId} {o : Oem} {ms : List MOp} {hs : List Nat} {t : Tbl}
    {es : List (Bytes × Nat)} (hb : buildMixed ms = some es)
    (h : runMixed T o ms = some (hs, t)) :
    (∀ op, MOp.modelled op ∈ ms → tableOf op.k = some T.name) ∧
    runAdds (Tbl.new T.cfg o) es = some (hs, t) := by
  obtain ⟨ha, es', hb', hr⟩ := runMixed_inv h
  rw [hb] at hb'
  cases hb'
  exact ⟨ha, hr⟩

/-- the claimed length of every lined-up entry is its serialised size: `len()` of a modelled
    entry within its Rust types (C02, entries), the byte count of an opaque one -/
theorem claimed_eq (ms : List MOp)
    (hwf : ∀ op, MOp.modelled op ∈ ms → op.k ≠ .rdpas ∧ entryWf op.k op.ctor op.opts = true)
    (es : List (Bytes × Nat)) (hb : buildMixed ms = some es) :
    ∀ e ∈ es, e.2 = e.1.length := by
  obtain ⟨hl, hget⟩ := buildMixed_spec ms es hb
  intro e he
  obtain ⟨i, hi, rfl⟩ := List.mem_iff_getElem.mp he
  have hi' : i < ms.length := hl ▸ hi
  obtain ⟨h1, h2⟩ := hget i hi' hi
  cases hm : ms[i] with
  | modelled op =>
    obtain ⟨a, ha, e1⟩ := h1 op hm
    obtain ⟨w1, w2⟩ := hwf op (hm ▸ List.getElem_mem hi')
    rw [e1]
    exact (C02.entry_length op.k w1 op.ctor op.opts a w2 ha).symm
  | «opaque» raw =>
    rw [h2 raw hm]

end Acpi.Mixed
