/-
  Acpi.Lemmas.AmlStep4 — C06 induction steps: PkgLength-delimited operators with a TermList or
  PackageElementList body.
-/
import Acpi.Lemmas.AmlStep3
import Acpi.Props.C15
set_option linter.unusedSimpArgs false
namespace Acpi.Lemmas.AmlParse
open Acpi Spec Spec.Aml

theorem append_one (x : Tm) (l : List Tm) :
    (TmList.cons x .nil).append (TmList.ofList l) = TmList.ofList (x :: l) := rfl

theorem append_nil_left (l : TmList) : TmList.nil.append l = l := rfl

theorem step_device (env : Env) : Step env .device := by
  intro ints blobs kids ih bs rest fuel hwf hok henc hf
  simp only [wf, Bool.and_eq_true, decide_eq_true_eq] at hwf
  obtain ⟨hws, hpo, hall⟩ := hwf
  simp only [Aml.enc, Option.bind_eq_bind, Option.bind_eq_some_iff] at henc
  obtain ⟨p, hp, d, hd, hobj⟩ := henc
  obtain ⟨hpl, rfl⟩ := pkgObj_some hobj
  have hm : meaning (.node .device ints blobs kids) =
      .node (.op 0x5B82) [] [] ((TmList.cons (nameOf (blobs.getD 0 [])) .nil).append
        (TmList.ofList (meanings kids))) := by
    simp only [meaning, append_one]
  rw [hm]
  have T := tfact_terms (env := env) (.ext 0x82 0x5B82 rfl) (ss := [.N]) rfl (by decide)
    (.N (NFact.path hp hpo) .nil) (termList_fact env kids d ih hws hall hd)
    (by simp only [List.append_assoc, List.cons_append, List.nil_append, List.append_nil]) hpl
  exact T.finish rfl hf

theorem step_scope (env : Env) : Step env .scope := by
  intro ints blobs kids ih bs rest fuel hwf hok henc hf
  simp only [wf, Bool.and_eq_true, decide_eq_true_eq] at hwf
  obtain ⟨hws, hpo, hall⟩ := hwf
  simp only [Aml.enc, Option.bind_eq_bind, Option.bind_eq_some_iff] at henc
  obtain ⟨p, hp, d, hd, hobj⟩ := henc
  obtain ⟨hpl, rfl⟩ := pkgObj_some hobj
  have hm : meaning (.node .scope ints blobs kids) =
      .node (.op (0x10 : UInt8).toNat) [] [] ((TmList.cons (nameOf (blobs.getD 0 [])) .nil).append
        (TmList.ofList (meanings kids))) := by
    simp only [meaning, append_one]; rfl
  rw [hm]
  have T := tfact_terms (env := env) (.plain 0x10 _ (by decide) (by decide) rfl) (ss := [.N]) rfl (by decide)
    (.N (NFact.path hp hpo) .nil) (termList_fact env kids d ih hws hall hd)
    (by simp only [List.append_assoc, List.cons_append, List.nil_append, List.append_nil]) hpl
  exact T.finish rfl hf

theorem step_scoperaw (env : Env) : Step env .scoperaw := by
  intro ints blobs kids ih bs rest fuel hwf hok henc hf
  rw [C15.scoperaw_eq_scope] at henc
  have hwf' : wf env (.node .scope ints blobs kids) = true := by
    simp only [wf] at hwf ⊢; exact hwf
  have hm : meaning (.node .scoperaw ints blobs kids) = meaning (.node .scope ints blobs kids) := by
    simp only [meaning]
  rw [hm]
  exact step_scope env ints blobs kids ih bs rest fuel hwf' rfl henc hf

theorem method_flags (a s : Nat) (h : a ≤ 7) :
    (UInt8.ofNat ((a &&& 7) ||| ((if s ≠ 0 then 1 else 0) <<< 3))).toNat = a + (if s ≠ 0 then 8 else 0) := by
  have : a = 0 ∨ a = 1 ∨ a = 2 ∨ a = 3 ∨ a = 4 ∨ a = 5 ∨ a = 6 ∨ a = 7 := by omega
  by_cases hs : s ≠ 0
  · simp only [if_pos hs]; rcases this with h | h | h | h | h | h | h | h <;> subst h <;> decide
  · simp only [if_neg hs]; rcases this with h | h | h | h | h | h | h | h <;> subst h <;> decide

theorem step_method (env : Env) : Step env .method := by
  intro ints blobs kids ih bs rest fuel hwf hok henc hf
  simp only [wf, Bool.and_eq_true, decide_eq_true_eq] at hwf
  obtain ⟨hws, ⟨hpo, hi⟩, hall⟩ := hwf
  have hi' : ¬ 7 < ints.getD 0 0 := by omega
  simp only [Aml.enc, if_neg hi', Option.bind_eq_bind, Option.bind_eq_some_iff] at henc
  obtain ⟨p, hp, d, hd, hobj⟩ := henc
  obtain ⟨hpl, rfl⟩ := pkgObj_some hobj
  have hm : meaning (.node .method ints blobs kids) =
      .node (.op (0x14 : UInt8).toNat)
        [(UInt8.ofNat ((ints.getD 0 0 &&& 7) ||| ((if ints.getD 1 0 ≠ 0 then 1 else 0) <<< 3))).toNat] []
        ((TmList.cons (nameOf (blobs.getD 0 [])) .nil).append (TmList.ofList (meanings kids))) := by
    simp only [meaning, append_one, method_flags _ _ hi]; rfl
  rw [hm]
  have T := tfact_terms (env := env) (.plain 0x14 _ (by decide) (by decide) rfl) (ss := [.N, .B]) rfl (by decide)
    (.N (NFact.path hp hpo) (.B (UInt8.ofNat ((ints.getD 0 0 &&& 7) ||| ((if ints.getD 1 0 ≠ 0 then 1 else 0) <<< 3))) .nil)) (termList_fact env kids d ih hws hall hd)
    (by simp only [List.append_assoc, List.cons_append, List.nil_append, List.append_nil]) hpl
  exact T.finish rfl hf

theorem step_powerres (env : Env) : Step env .powerres := by
  intro ints blobs kids ih bs rest fuel hwf hok henc hf
  simp only [wf, Bool.and_eq_true, decide_eq_true_eq] at hwf
  obtain ⟨hws, ⟨⟨hpo, hi0⟩, hi1⟩, hall⟩ := hwf
  simp only [Aml.enc, Option.bind_eq_bind, Option.bind_eq_some_iff] at henc
  obtain ⟨p, hp, d, hd, hobj⟩ := henc
  obtain ⟨hpl, rfl⟩ := pkgObj_some hobj
  have hle : fromLE (leN 2 (ints.getD 1 0)) = ints.getD 1 0 := by
    rw [fromLE_leN]; exact Nat.mod_eq_of_lt (by omega)
  have hm : meaning (.node .powerres ints blobs kids) =
      .node (.op 0x5B84) [(UInt8.ofNat (ints.getD 0 0)).toNat, fromLE (leN 2 (ints.getD 1 0))] []
        ((TmList.cons (nameOf (blobs.getD 0 [])) .nil).append (TmList.ofList (meanings kids))) := by
    simp only [meaning, append_one, toNat_ofNat_lt _ hi0, hle]
  rw [hm]
  have T := tfact_terms (env := env) (.ext 0x84 0x5B84 rfl) (ss := [.N, .B, .W]) rfl (by decide)
    (.N (NFact.path hp hpo) (.B (UInt8.ofNat (ints.getD 0 0)) (.W (leN 2 (ints.getD 1 0)) (length_leN _ _) .nil))) (termList_fact env kids d ih hws hall hd)
    (by simp only [List.append_assoc, List.cons_append, List.nil_append, List.append_nil]) hpl
  exact T.finish rfl hf

-- kids = predicate :: body
set_option hygiene false in
local macro "step_pred " op:term ", " c:term : tactic => `(tactic| (
  intro ints blobs kids ih bs rest fuel hwf hok henc hf
  simp only [wf, Bool.and_eq_true, decide_eq_true_eq] at hwf
  obtain ⟨hws, hlen, hall⟩ := hwf
  simp only [Aml.enc, Option.bind_eq_some_iff] at henc
  obtain ⟨d, hd, hobj⟩ := henc
  obtain ⟨hpl, rfl⟩ := pkgObj_some hobj
  cases kids with
  | nil => simp [AmlList.toList] at hlen
  | cons a0 r =>
    obtain ⟨e0, dr, h0, hdr, rfl⟩ := catOpt_cons_some hd
    obtain ⟨hk0, hkr⟩ := allTerms_cons hall
    simp only [wfs, Bool.and_eq_true] at hws
    have hm : meaning (.node $op ints blobs (.cons a0 r)) =
        .node (.op ($c : UInt8).toNat) [] [] ((TmList.cons (meaning a0) .nil).append
          (TmList.ofList (meanings r))) := by
      simp only [meaning, meanings, append_one]; rfl
    rw [hm]
    have T := tfact_terms (env := env) (.plain $c _ (by decide) (by decide) rfl) (ss := [.T]) rfl (by decide)
      (.T (ih.1.tfact hws.1 hk0 h0) .nil) (termList_fact env r dr ih.2 hws.2 hkr hdr)
      (by simp only [List.append_assoc, List.cons_append, List.nil_append, List.append_nil]) hpl
    exact T.finish rfl hf))

theorem step_if (env : Env) : Step env .if_ := by step_pred Op.if_, 0xA0
theorem step_while (env : Env) : Step env .while_ := by step_pred Op.while_, 0xA2

theorem step_else (env : Env) : Step env .else_ := by
  intro ints blobs kids ih bs rest fuel hwf hok henc hf
  simp only [wf, Bool.and_eq_true, decide_eq_true_eq] at hwf
  obtain ⟨hws, hall⟩ := hwf
  simp only [Aml.enc, Option.bind_eq_some_iff] at henc
  obtain ⟨d, hd, hobj⟩ := henc
  obtain ⟨hpl, rfl⟩ := pkgObj_some hobj
  have hm : meaning (.node .else_ ints blobs kids) =
      .node (.op (0xA1 : UInt8).toNat) [] [] (TmList.nil.append (TmList.ofList (meanings kids))) := by
    simp only [meaning, append_nil_left]; rfl
  rw [hm]
  have T := tfact_terms (env := env) (.plain 0xA1 _ (by decide) (by decide) rfl) (ss := []) rfl (by decide)
    .nil (termList_fact env kids d ih hws hall hd) (by simp only [List.append_assoc, List.cons_append, List.nil_append, List.append_nil]) hpl
  exact T.finish rfl hf

end Acpi.Lemmas.AmlParse
