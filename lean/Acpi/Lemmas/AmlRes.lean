/-
  Acpi.Lemmas.AmlRes — the model's resource descriptor bytes are the reference rendering
  (`Res.encode`) of the same descriptor (used by C06 for `ResourceTemplate`).
-/
import Acpi.Spec.Res
import Acpi.Spec.AmlWf
import Acpi.Lemmas.Basic
set_option linter.unusedSimpArgs false
namespace Acpi.Lemmas.AmlParse
open Acpi Spec Spec.Aml

theorem ofNat_mod256 (n : Nat) : UInt8.ofNat (n % 256) = UInt8.ofNat n := by
  apply UInt8.toNat_inj.mp
  simp only [UInt8.toNat_ofNat']
  omega

theorem leN_one (n : Nat) : leN 1 n = [UInt8.ofNat n] := by
  simp only [leN, ofNat_mod256]

theorem ofNat_ite (c : Prop) [Decidable c] : UInt8.ofNat (if c then 1 else 0) = (if c then 1 else 0 : UInt8) := by
  split <;> rfl

theorem desc_mem32 (ints : List Nat) (blobs : List Bytes) (kids : AmlList) :
    (Aml.node .mem32 ints blobs kids).enc = some (Res.encode .mem32 ints) := by
  simp only [Aml.enc, Res.encode, Res.rows, render, List.flatMap_cons, List.flatMap_nil, Row.bytes, leN_one,
    ofNat_ite, List.append_assoc, List.append_nil, List.cons_append, List.nil_append]
  rfl


theorem desc_io (ints : List Nat) (blobs : List Bytes) (kids : AmlList) :
    (Aml.node .io ints blobs kids).enc = some (Res.encode .io ints) := by
  simp only [Aml.enc, Res.encode, Res.rows, render, List.flatMap_cons, List.flatMap_nil, Row.bytes, leN_one,
    ofNat_ite, List.append_assoc, List.append_nil, List.cons_append, List.nil_append]
  rfl

theorem desc_reg (ints : List Nat) (blobs : List Bytes) (kids : AmlList) :
    (Aml.node .reg ints blobs kids).enc = some (Res.encode .reg ints) := by
  simp only [Aml.enc, Res.encode, Res.rows, render, List.flatMap_cons, List.flatMap_nil, Row.bytes, leN_one,
    ofNat_ite, List.append_assoc, List.append_nil, List.cons_append, List.nil_append]
  rfl

theorem irq_flags (b0 b1 b2 b3 : Bool) :
    (((if b3 then 1 else 0) <<< 3) ||| ((if b2 then 1 else 0) <<< 2) ||| ((if b1 then 1 else 0) <<< 1) |||
      (if b0 then 1 else 0) : Nat) =
    (if b0 then 1 else 0) + 2 * (if b1 then 1 else 0) + 4 * (if b2 then 1 else 0) + 8 * (if b3 then 1 else 0) := by
  cases b0 <;> cases b1 <;> cases b2 <;> cases b3 <;> decide

theorem desc_irq (ints : List Nat) (blobs : List Bytes) (kids : AmlList) :
    (Aml.node .irq ints blobs kids).enc = some (Res.encode .irq ints) := by
  have := irq_flags (decide (ints.getD 0 0 ≠ 0)) (decide (ints.getD 1 0 ≠ 0)) (decide (ints.getD 2 0 ≠ 0))
    (decide (ints.getD 3 0 ≠ 0))
  simp only [decide_eq_true_eq] at this
  simp only [Aml.enc, Res.encode, Res.rows, render, List.flatMap_cons, List.flatMap_nil, Row.bytes, leN_one,
    List.append_assoc, List.append_nil, List.cons_append, List.nil_append, this]
  rfl


/-- reference rendering of an address-space descriptor -/
def asRef (bits ty tf mn mx tr : Nat) : Bytes :=
  leN 1 (if bits = 16 then 0x88 else if bits = 32 then 0x87 else 0x8A) ++ (leN 2 (3 + 5 * (bits / 8)) ++
    (leN 1 ty ++ (leN 1 0x0C ++ (leN 1 tf ++ (leN (bits / 8) 0 ++ (leN (bits / 8) mn ++ (leN (bits / 8) mx ++
    (leN (bits / 8) tr ++ (leN (bits / 8) (mx - mn + 1) ++ [])))))))))

theorem addrSpace_eq (bits ty tf mn mx tr : Nat) (e : Bytes) (h : addrSpace bits ty tf mn mx tr = some e) :
    e = asRef bits ty tf mn mx tr := by
  unfold addrSpace at h
  split at h
  · simp at h
  · injection h with h
    subst h
    simp only [asRef, leN_one, intLE, List.append_assoc, List.append_nil, List.cons_append, List.nil_append]
    congr 1
    split
    · rfl
    · split <;> rfl

theorem shl1_or (a b : Nat) (hb : b < 2) : (a <<< 1) ||| b = 2 * a + b := by
  rw [← Nat.shiftLeft_add_eq_or_of_lt (by omega), Nat.shiftLeft_eq]; omega

theorem desc_asmem (ints : List Nat) (blobs : List Bytes) (kids : AmlList) (e : Bytes)
    (h : (Aml.node .asmem ints blobs kids).enc = some e) : e = Res.encode .asmem ints := by
  simp only [Aml.enc] at h
  have := addrSpace_eq _ _ _ _ _ _ e h
  rw [this, shl1_or _ _ (by split <;> omega)]
  simp only [Res.encode, Res.rows, render, List.flatMap_cons, List.flatMap_nil, Row.bytes, asRef]

theorem desc_asio (ints : List Nat) (blobs : List Bytes) (kids : AmlList) (e : Bytes)
    (h : (Aml.node .asio ints blobs kids).enc = some e) : e = Res.encode .asio ints := by
  simp only [Aml.enc] at h
  have := addrSpace_eq _ _ _ _ _ _ e h
  rw [this]
  simp only [Res.encode, Res.rows, render, List.flatMap_cons, List.flatMap_nil, Row.bytes, asRef]

theorem desc_asbus (ints : List Nat) (blobs : List Bytes) (kids : AmlList) (e : Bytes)
    (h : (Aml.node .asbus ints blobs kids).enc = some e) : e = Res.encode .asbus ints := by
  simp only [Aml.enc] at h
  have := addrSpace_eq _ _ _ _ _ _ e h
  rw [this]
  simp only [Res.encode, Res.rows, render, List.flatMap_cons, List.flatMap_nil, Row.bytes, asRef]

/-- every descriptor the crate can build is emitted as its reference rendering -/
theorem desc_enc (op : Op) (ints : List Nat) (blobs : List Bytes) (kids : AmlList) (e : Bytes)
    (hd : isDesc op = true) (h : (Aml.node op ints blobs kids).enc = some e) : e = Res.encode op ints := by
  cases op <;> first
    | (exact absurd hd (by decide))
    | (rw [desc_mem32] at h; exact (Option.some.inj h).symm)
    | (rw [desc_io] at h; exact (Option.some.inj h).symm)
    | (rw [desc_irq] at h; exact (Option.some.inj h).symm)
    | (rw [desc_reg] at h; exact (Option.some.inj h).symm)
    | exact desc_asmem ints blobs kids e h
    | exact desc_asio ints blobs kids e h
    | exact desc_asbus ints blobs kids e h

end Acpi.Lemmas.AmlParse
