/-
  C04/C12 for the SLIT: cell (i, j) of the matrix after a program is the last distance assigned
  to the unordered pair {i, j}, else 10; the image is the header, the locality count and the
  matrix in row-major order.
-/
import Acpi.Lemmas.FixedRows
namespace Acpi.C04
open Acpi Spec Acpi.C04.Madt

/-! ### index arithmetic -/

theorem slit_idx_lt {n i j : Nat} (hi : i < n) (hj : j < n) : i * n + j < n * n := by
  have : (i + 1) * n ≤ n * n := Nat.mul_le_mul_right n hi
  rw [Nat.succ_mul] at this
  omega

/-- `(i, j) ↦ i * n + j` is injective on `j < n` -/
theorem slit_idx_inj {n a b i j : Nat} (hb : b < n) (hj : j < n) :
    b + n * a = i * n + j ↔ a = i ∧ b = j := by
  constructor
  · intro h
    rw [Nat.mul_comm i n, Nat.add_comm (n * i) j] at h
    have hm := congrArg (· % n) h
    simp only [Nat.add_mul_mod_self_left, Nat.mod_eq_of_lt hb, Nat.mod_eq_of_lt hj] at hm
    subst hm
    have : n * a = n * i := by omega
    exact ⟨Nat.eq_of_mul_eq_mul_left (by omega) this, rfl⟩
  · rintro ⟨rfl, rfl⟩
    rw [Nat.mul_comm]; omega

theorem getD_set {α : Type} (l : List α) (k m : Nat) (v d : α) (hk : k < l.length) :
    (l.set k v).getD m d = if k = m then v else l.getD m d := by
  rw [List.getD_eq_getElem?_getD, List.getD_eq_getElem?_getD, List.getElem?_set]
  by_cases h : k = m
  · subst h; simp [hk]
  · simp [h]

/-! ### the meaning of a program, read forwards -/

/-- does call `o` assign the unordered pair {i, j}? -/
def slitP (i j : Nat) (o : Opt) : Bool :=
  decide (o.name = "dist" ∧ ((o.arg 0 = i ∧ o.arg 1 = j) ∨ (o.arg 0 = j ∧ o.arg 1 = i)))

/-- last distance assigned to {i, j}, else `d` -/
def cellVal (d : Nat) (ops : List Opt) (i j : Nat) : Nat :=
  (((ops.filter (slitP i j)).getLast?).map (·.arg 2)).getD d

theorem slitCell_eq (ops : List Opt) (i j : Nat) : slitCell ops i j = cellVal 10 ops i j := rfl

theorem cellVal_nil (d i j : Nat) : cellVal d [] i j = d := rfl

theorem cellVal_cons (d : Nat) (o : Opt) (os : List Opt) (i j : Nat) :
    cellVal d (o :: os) i j = cellVal (if slitP i j o then o.arg 2 else d) os i j := by
  unfold cellVal
  exact lastMap_cons _ _ _ _ _

/-- **SLIT cells**: after the program, cell (i, j) holds the last distance assigned to {i, j} by
    the program text, else what it held before -/
theorem slit_cells (ops : List Opt) : ∀ (s s' : FixedState), SlitInv s → runFixedFrom s ops = some s' →
    SlitInv s' ∧ s'.a = s.a ∧ s'.oem = s.oem ∧
    ∀ i j, i < s.a.num 0 → j < s.a.num 0 →
      s'.cells.getD (i * s.a.num 0 + j) 0 = cellVal (s.cells.getD (i * s.a.num 0 + j) 0) ops i j := by
  induction ops with
  | nil => intro s s' I h; cases h; exact ⟨I, rfl, rfl, fun i j _ _ => rfl⟩
  | cons o os ih =>
    intro s s' I h
    obtain ⟨s1, h1, h2⟩ := runFixedFrom_cons_some h
    have I1 := slitInv_step s o s1 I h1
    obtain ⟨hn, r1, r2, _, ha, ho, hc, _, _⟩ := slit_step I.t h1
    obtain ⟨I', ha', ho', hcells⟩ := ih s1 s' I1 h2
    refine ⟨I', ha'.trans ha, ho'.trans ho, ?_⟩
    intro i j hi hj
    rw [ha] at hcells
    rw [hcells i j hi hj, cellVal_cons]
    congr 1
    rw [I.len] at r1 r2
    obtain ⟨hA, hB⟩ := slit_coords r1 r2
    rw [hc, getD_set _ _ _ _ _ (by rw [List.length_set, I.len]; exact r2),
      getD_set _ _ _ _ _ (by rw [I.len]; exact r1)]
    have e1 := slit_idx_inj (a := o.arg 0) (i := i) hB hj
    have e2 := slit_idx_inj (a := o.arg 1) (i := i) hA hj
    unfold slitP
    by_cases c1 : o.arg 0 = i ∧ o.arg 1 = j
    · rw [if_pos (e1.mpr c1)]; simp [hn, c1]
    · rw [if_neg (fun h => c1 (e1.mp h))]
      by_cases c2 : o.arg 1 = i ∧ o.arg 0 = j
      · rw [if_pos (e2.mpr c2)]; simp [hn, c2]
      · rw [if_neg (fun h => c2 (e2.mp h))]
        have : ¬ (o.arg 0 = j ∧ o.arg 1 = i) := fun h => c2 ⟨h.2, h.1⟩
        simp [hn, c1, this]

/-! ### the matrix as rows -/

theorem tiles_rowcells (g : Nat → Nat) (p : Nat) : ∀ k,
    tilesFrom p (p + k) ((List.range k).map fun j => Row.num (p + j) 1 (g j)) = true := by
  intro k
  induction k with
  | zero => simp [tilesFrom]
  | succ k ih =>
    rw [List.range_succ, List.map_append, tilesFrom_append p (p + k) _ _ _ ih]
    simp [tilesFrom, Row.off, Row.width]; omega

theorem tiles_grid (f : Nat → Nat → Nat) (base k : Nat) : ∀ m,
    tilesFrom base (base + m * k) ((List.range m).flatMap fun i =>
      (List.range k).map fun j => Row.num (base + i * k + j) 1 (f i j)) = true := by
  intro m
  induction m with
  | zero => simp [tilesFrom]
  | succ m ih =>
    rw [List.range_succ, List.flatMap_append, tilesFrom_append base (base + m * k) _ _ _ ih]
    simp only [List.flatMap_cons, List.flatMap_nil, List.append_nil]
    have := tiles_rowcells (f m) (base + m * k) k
    rw [Nat.succ_mul, ← Nat.add_assoc]
    exact this

theorem render_rowcells (p g : Nat → Nat) (l : List Nat) :
    render (l.map fun j => Row.num (p j) 1 (g j)) = l.map fun j => UInt8.ofNat (g j) := by
  induction l with
  | nil => rfl
  | cons x l ih =>
    simp only [render, List.map_cons, List.flatMap_cons, Row.bytes, leN1_eq] at ih ⊢
    rw [ih]; rfl

theorem render_flatMap (F : Nat → List Row) (L : List Nat) :
    render (L.flatMap F) = L.flatMap fun i => render (F i) := by
  induction L with
  | nil => rfl
  | cons x L ih => rw [List.flatMap_cons, render_append, ih, List.flatMap_cons]

/-- a list of length `m * k` read as an `m × k` row-major matrix -/
theorem grid_eq {β : Type} (h : Nat → β) (k : Nat) : ∀ m,
    (List.range (m * k)).map h = (List.range m).flatMap fun i => (List.range k).map fun j => h (i * k + j) := by
  intro m
  induction m with
  | zero => simp
  | succ m ih =>
    rw [Nat.succ_mul, List.range_add, List.map_append, ih, List.range_succ, List.flatMap_append,
      List.map_map]
    simp only [List.flatMap_cons, List.flatMap_nil, List.append_nil]
    rfl

theorem list_eq_range_map (l : List Nat) : l = (List.range l.length).map fun x => l.getD x 0 := by
  apply List.ext_getElem
  · simp
  · intro i h1 h2
    simp [List.getD_eq_getElem?_getD, h1]

theorem cells_eq_grid (cells : List Nat) (k : Nat) (f : Nat → Nat → Nat) (hl : cells.length = k * k)
    (hc : ∀ i j, i < k → j < k → cells.getD (i * k + j) 0 = f i j) :
    cells.map UInt8.ofNat = (List.range k).flatMap fun i => (List.range k).map fun j => UInt8.ofNat (f i j) := by
  conv => lhs; rw [list_eq_range_map cells, hl, List.map_map]
  rw [grid_eq]
  rw [List.flatMap_def, List.flatMap_def]
  congr 1
  apply List.map_congr_left
  intro i hi
  apply List.map_congr_left
  intro j hj
  rw [List.mem_range] at hi hj
  simp only [Function.comp, hc i j hi hj]

theorem conforms_slit (o : Oem) (c : EArgs) (ops : List Opt) (s : FixedState) (e : Nat)
    (h1 : o.id.length = 6) (h2 : o.table.length = 8) (hrun : runFixed .slit o c ops = some s) :
    conforms (fixedRows .slit o c ops (s.image.getD 8 0).toNat (s.image.getD 9 0).toNat e).1
      (fixedRows .slit o c ops (s.image.getD 8 0).toNat (s.image.getD 9 0).toNat e).2 s.image = none := by
  obtain ⟨s0, h0, hr⟩ := runFixed_some hrun
  obtain ⟨I0, ha0, ho0, hc0, hlt⟩ := slitInv_new h0
  obtain ⟨I, ha, ho, hcells⟩ := slit_cells ops s0 s I0 hr
  rw [ha0] at ha hcells
  rw [ho0] at ho
  have hlen := I.len
  rw [ha] at hlen
  have hcell : ∀ i j, i < c.num 0 → j < c.num 0 →
      s.cells.getD (i * c.num 0 + j) 0 = slitCell ops i j := by
    intro i j hi hj
    rw [hcells i j hi hj, hc0, slitCell_eq]
    congr 1
    rw [List.getD_eq_getElem?_getD, List.getElem?_replicate, if_pos (slit_idx_lt hi hj)]
    rfl
  unfold FixedState.image
  rw [I.t]
  simp only []
  rw [ha, ho]
  unfold fixedRows slitHead
  simp only []
  rw [Nat.add_comm (c.num 0 * c.num 0) 44, List.append_assoc, List.append_assoc]
  refine conforms_hdr _ (44 + c.num 0 * c.num 0) _ _ _ _ _ rfl h1 h2 (by omega) ?_ ?_
  · simp only [List.cons_append, List.nil_append, tilesFrom, Row.off, Row.width, beq_self_eq_true, Bool.true_and]
    exact tiles_grid _ 44 (c.num 0) (c.num 0)
  · rw [render_append, render_flatMap]
    simp only [render_rowcells]
    rw [← cells_eq_grid s.cells (c.num 0) (slitCell ops) hlen hcell]
    rfl

/-- in-range `set_distance` calls never panic -/
theorem slit_accepts_from (ops : List Opt) : ∀ (s : FixedState), SlitInv s →
    (∀ op ∈ ops, op.name = "dist" ∧ op.arg 0 < s.a.num 0 ∧ op.arg 1 < s.a.num 0) →
    ∃ s', runFixedFrom s ops = some s' := by
  induction ops with
  | nil => intro s _ _; exact ⟨s, rfl⟩
  | cons o os ih =>
    intro s I hops
    obtain ⟨hn, ha, hb⟩ := hops o (List.mem_cons_self ..)
    have r1 : ¬ (s.cells.length ≤ o.arg 0 + s.a.num 0 * o.arg 1 ∨
        s.cells.length ≤ o.arg 1 + s.a.num 0 * o.arg 0) := by
      rw [I.len]
      have e1 := slit_idx_lt hb ha
      have e2 := slit_idx_lt ha hb
      rw [Nat.mul_comm (o.arg 1)] at e1
      rw [Nat.mul_comm (o.arg 0)] at e2
      omega
    have hstep : ∃ s1, s.step o = some s1 := by
      unfold FixedState.step
      rw [I.t]
      simp only [hn, if_true, if_neg r1]
      split <;> exact ⟨_, rfl⟩
    obtain ⟨s1, h1⟩ := hstep
    have I1 := slitInv_step s o s1 I h1
    have ha1 : s1.a = s.a := (slit_step I.t h1).2.2.2.2.1
    obtain ⟨s', h'⟩ := ih s1 I1 (fun op hop => by rw [ha1]; exact hops op (List.mem_cons_of_mem _ hop))
    exact ⟨s', by unfold runFixedFrom; rw [h1]; exact h'⟩

end Acpi.C04
