/-
  Acpi.Lemmas.AmlStep6 — C06 induction steps: EISA ids, UUID buffers, field lists.
-/
import Acpi.Lemmas.AmlStep5
import Acpi.Lemmas.AmlEisa
set_option linter.unusedSimpArgs false
namespace Acpi.Lemmas.AmlParse
open Acpi Spec Spec.Aml

theorem eisa_value' (cs : List Char) (hl : cs.length = 7) (hu : (cs.take 3).all isUpperLetterC = true)
    (hh : (cs.drop 3).all isHexC = true) :
    ∃ v, eisaValue (cs.map (fun c => UInt8.ofNat c.toNat)) cs = some v ∧ v.toNat = Eisa.compress cs := by
  match cs, hl with
  | [c0, c1, c2, c3, c4, c5, c6], _ =>
    simp only [List.take_succ_cons, List.take_zero, List.drop_succ_cons, List.drop_zero, List.all_cons,
      List.all_nil, Bool.and_true, Bool.and_eq_true] at hu hh
    exact eisa_value c0 c1 c2 c3 c4 c5 c6 hu.1 hu.2.1 hu.2.2 hh.1 hh.2.1 hh.2.2.1 hh.2.2.2

theorem step_eisa (env : Env) : Step env .eisa := by
  intro ints blobs kids ih bs rest fuel hwf hok henc hf
  simp only [wf, Bool.and_eq_true, decide_eq_true_eq] at hwf
  obtain ⟨_, ⟨⟨hl, hu⟩, hh⟩, hb⟩ := hwf
  obtain ⟨v, hv, hc⟩ := eisa_value' _ hl hu hh
  simp only [Aml.enc, eisaEnc, hb, hv, Option.map_some, Option.some.injEq, C08.encU32_spec, hc] at henc
  have hm : meaning (.node .eisa ints blobs kids) = intTm (Eisa.compress (ints.map Char.ofNat)) := by
    simp only [meaning]
  rw [hm]
  have hlt : Eisa.compress (ints.map Char.ofNat) < 2 ^ 64 := by
    rw [← hc]; have := v.toNat_lt; omega
  exact (tfact_int env _ hlt).finish henc.symm hf

theorem step_uuid (env : Env) : Step env .uuid := by
  intro ints blobs kids ih bs rest fuel hwf hok henc hf
  simp only [wf, Bool.and_eq_true, decide_eq_true_eq] at hwf
  obtain ⟨_, hl, hall⟩ := hwf
  have hv := uuid_value _ hl hall
  simp only [Aml.enc, hv, Option.bind_some] at henc
  have hm : meaning (.node .uuid ints blobs kids) =
      .node (.op 0x11) [] [Eisa.uuidToBuffer (ints.map Char.ofNat)]
        (TmList.cons (intTm (Eisa.uuidToBuffer (ints.map Char.ofNat)).length) .nil) := by
    simp only [meaning, TmList.ofList]; rfl
  rw [hm]
  exact (tfact_buffer env _ bs henc).finish rfl hf


/-! ### field lists -/

theorem parseFields_nil (f : Nat) : parseFields f [] = some .nil := by
  cases f <;> simp only [parseFields]

theorem parseFields_reserved (f : Nat) (pl rest : Bytes) (v : Nat) (ts : TmList)
    (hd : PkgLength.decode (pl ++ rest) = some (v, pl.length))
    (h : parseFields f rest = some ts) :
    parseFields (f + 1) (0x00 :: (pl ++ rest)) = some (.cons (.node .freserved [v] [] .nil) ts) := by
  simp only [parseFields, if_true, hd, List.drop_left, h, Option.map_some]

theorem parseFields_named (f : Nat) (seg pl rest : Bytes) (v : Nat) (ts : TmList)
    (hs : NameString.isSeg seg = true)
    (hd : PkgLength.decode (pl ++ rest) = some (v, pl.length))
    (h : parseFields f rest = some ts) :
    parseFields (f + 1) (seg ++ (pl ++ rest)) = some (.cons (.node .fnamed [v] [seg] .nil) ts) := by
  unfold NameString.isSeg at hs
  split at hs
  · rename_i a b c d
    have ha : NameString.isLead a = true := by
      simp only [Bool.and_eq_true] at hs; exact hs.1.1.1
    have h0 : a ≠ 0 := by intro e; subst e; revert ha; decide
    have hseg : NameString.isSeg [a, b, c, d] = true := by simpa only [NameString.isSeg] using hs
    have hdrop : List.drop (3 + pl.length) (b :: c :: d :: (pl ++ rest)) = rest := by
      rw [← List.drop_drop]
      simp only [List.drop_succ_cons, List.drop_zero, List.drop_left]
    simp only [List.cons_append, List.nil_append, parseFields, if_neg h0, List.take_succ_cons, List.take_zero,
      hseg, if_true, List.drop_succ_cons, List.drop_zero, hd, hdrop, h, Option.map_some]
  · simp at hs

/-- the field entries `wf` admits -/
def fieldOk : Aml → Bool
  | .node .fnamed _ bl _ => NameString.isSeg (bl.getD 0 [])
  | .node .freserved _ _ _ => true
  | _ => false

theorem decode_excl (c : Nat) (rest : Bytes) (h : pkgLenPanics c false = false) :
    PkgLength.decode (pkgLen c false ++ rest) = some (c, (pkgLen c false).length) := by
  have h28 : ¬ 2 ^ 28 ≤ pkgLenTotal c false := by simpa [pkgLenPanics] using h
  rw [C07.decode_pkgLen c false rest (by omega), C07.length_pkgLen]
  simp [pkgLenTotal]

theorem fields_fact : ∀ (kids : AmlList) (d : Bytes), kids.toList.all fieldOk = true →
    catOpt (AmlList.encs kids) = some d → ∀ f, d.length ≤ f →
    parseFields f d = some (TmList.ofList (meanings kids))
  | .nil, d, _, hd, f, _ => by
    simp only [catOpt_nil, Option.some.injEq] at hd
    subst hd
    exact parseFields_nil f
  | .cons a r, d, hk, hd, f, hf => by
    obtain ⟨ea, dr, he, hdr, rfl⟩ := catOpt_cons_some hd
    have hk' : fieldOk a = true ∧ (AmlList.toList r).all fieldOk = true := by
      simpa [AmlList.toList] using hk
    simp only [meanings, TmList.ofList]
    unfold fieldOk at hk'
    obtain ⟨hka, hkr⟩ := hk'
    split at hka
    · rename_i ints blobs k
      simp only [Aml.enc] at he
      split at he
      · simp at he
      · rename_i hp
        injection he with he; subst he
        have hm : meaning (.node .fnamed ints blobs k) = .node .fnamed [ints.getD 0 0] [blobs.getD 0 []] .nil := by
          simp only [meaning]
        have hlen : 4 ≤ (blobs.getD 0 []).length := by
          unfold NameString.isSeg at hka; split at hka
          · rename_i heq; rw [heq]; simp
          · simp at hka
        simp only [List.length_append] at hf
        obtain ⟨f, rfl⟩ : ∃ g, f = g + 1 := ⟨f - 1, by omega⟩
        rw [hm, List.append_assoc]
        exact parseFields_named f _ _ dr _ _ hka (decode_excl _ dr (by simpa using hp))
          (fields_fact r dr hkr hdr f (by omega))
    · rename_i ints blobs k
      simp only [Aml.enc] at he
      split at he
      · simp at he
      · rename_i hp
        injection he with he; subst he
        have hm : meaning (.node .freserved ints blobs k) = .node .freserved [ints.getD 0 0] [] .nil := by
          simp only [meaning]
        simp only [List.length_append, List.length_cons] at hf
        obtain ⟨f, rfl⟩ : ∃ g, f = g + 1 := ⟨f - 1, by omega⟩
        rw [hm, List.append_assoc]
        exact parseFields_reserved f _ dr _ _ (decode_excl _ dr (by simpa using hp))
          (fields_fact r dr hkr hdr f (by omega))
    · simp at hka

theorem field_flags : ∀ a < 6, ∀ b < 2, ∀ c < 3,
    (UInt8.ofNat (a ||| (b <<< 4) ||| (c <<< 5))).toNat = a + 16 * b + 32 * c := by
  decide

theorem step_field (env : Env) : Step env .field := by
  intro ints blobs kids ih bs rest fuel hwf hok henc hf
  simp only [wf, Bool.and_eq_true, decide_eq_true_eq] at hwf
  obtain ⟨hws, ⟨⟨⟨hpo, hi0⟩, hi1⟩, hi2⟩, hall⟩ := hwf
  have hall' : kids.toList.all fieldOk = true := hall
  simp only [Aml.enc, Option.bind_eq_bind, Option.bind_eq_some_iff] at henc
  obtain ⟨p, hp, d, hd, hobj⟩ := henc
  obtain ⟨hpl, rfl⟩ := pkgObj_some hobj
  have hm : meaning (.node .field ints blobs kids) =
      .node (.op 0x5B81)
        [(UInt8.ofNat (ints.getD 0 0 ||| (ints.getD 1 0 <<< 4) ||| (ints.getD 2 0 <<< 5))).toNat] []
        ((TmList.cons (nameOf (blobs.getD 0 [])) .nil).append (TmList.ofList (meanings kids))) := by
    simp only [meaning, append_one, field_flags _ hi0 _ hi1 _ hi2]
  rw [hm]
  have T := tfact_fields (env := env) (.ext 0x81 0x5B81 rfl) (ss := [.N, .B]) rfl (by decide)
    (.N (NFact.path hp hpo) (.B (UInt8.ofNat (ints.getD 0 0 ||| (ints.getD 1 0 <<< 4) ||| (ints.getD 2 0 <<< 5)))
      .nil)) (fields_fact kids d hall' hd d.length (Nat.le_refl _))
    (by simp only [List.append_assoc, List.cons_append, List.nil_append, List.append_nil]) hpl
  exact T.finish rfl hf

end Acpi.Lemmas.AmlParse
