/-
  C04/C11 for the TCPA server table: every builder call acts on the 20 state slots as
  `tcpasWrite` says; the image is the reference encoding of `tcpasRows`.
-/
import Acpi.Lemmas.FixedRows
namespace Acpi.C04
open Acpi Spec Acpi.C04.Madt

set_option linter.unusedSimpArgs false

macro "tcpas_slot" hn:ident hs:ident i:ident : tactic =>
  `(tactic| (refine ⟨by simp [$hs:ident], ?_⟩; intro $i:ident; unfold tcpasWrite;
             simp only [$hn:ident, num_setNum, size_setNum, num_orNum, size_orNum, $hs:ident]))

theorem tcpas_logarea (a : EArgs) (o : Opt) (hs : a.n.size = 20) (hn : o.name = "logarea") :
    ((a.setNum 0 (o.arg 0)).setNum 1 (o.arg 1)).n.size = 20 ∧
    ∀ i, ((a.setNum 0 (o.arg 0)).setNum 1 (o.arg 1)).num i = upd (tcpasWrite i o) (a.num i) := by
  tcpas_slot hn hs i
  repeat' split
  all_goals (first | rfl | omega | (simp_all; done))

theorem tcpas_activelow (a : EArgs) (o : Opt) (hs : a.n.size = 20) (hn : o.name = "activelow") :
    (a.orNum 3 2).n.size = 20 ∧
    ∀ i, (a.orNum 3 2).num i = upd (tcpasWrite i o) (a.num i) := by
  tcpas_slot hn hs i
  repeat' split
  all_goals (first | rfl | omega | (simp_all; done))

theorem tcpas_edge (a : EArgs) (o : Opt) (hs : a.n.size = 20) (hn : o.name = "edge") :
    (a.orNum 3 1).n.size = 20 ∧
    ∀ i, (a.orNum 3 1).num i = upd (tcpasWrite i o) (a.num i) := by
  tcpas_slot hn hs i
  repeat' split
  all_goals (first | rfl | omega | (simp_all; done))

theorem tcpas_scigpe (a : EArgs) (o : Opt) (hs : a.n.size = 20) (hn : o.name = "scigpe") :
    ((a.setNum 4 (o.arg 0)).orNum 3 4).n.size = 20 ∧
    ∀ i, ((a.setNum 4 (o.arg 0)).orNum 3 4).num i = upd (tcpasWrite i o) (a.num i) := by
  tcpas_slot hn hs i
  repeat' split
  all_goals (first | rfl | omega | (simp_all; done))

theorem tcpas_gsi (a : EArgs) (o : Opt) (hs : a.n.size = 20) (hn : o.name = "gsi") :
    ((a.setNum 5 (o.arg 0)).orNum 3 8).n.size = 20 ∧
    ∀ i, ((a.setNum 5 (o.arg 0)).orNum 3 8).num i = upd (tcpasWrite i o) (a.num i) := by
  tcpas_slot hn hs i
  repeat' split
  all_goals (first | rfl | omega | (simp_all; done))

theorem tcpas_pnp (a : EArgs) (o : Opt) (hs : a.n.size = 20) (hn : o.name = "pnp") :
    (a.orNum 2 2).n.size = 20 ∧
    ∀ i, (a.orNum 2 2).num i = upd (tcpasWrite i o) (a.num i) := by
  tcpas_slot hn hs i
  repeat' split
  all_goals (first | rfl | omega | (simp_all; done))

theorem tcpas_sbdf (a : EArgs) (o : Opt) (hs : a.n.size = 20) (hn : o.name = "sbdf") :
    (((((a.setNum 16 (o.arg 0)).setNum 17 (o.arg 1)).setNum 18 (o.arg 2)).setNum 19 (o.arg 3)).orNum 2 1).n.size = 20 ∧
    ∀ i, (((((a.setNum 16 (o.arg 0)).setNum 17 (o.arg 1)).setNum 18 (o.arg 2)).setNum 19 (o.arg 3)).orNum 2 1).num i = upd (tcpasWrite i o) (a.num i) := by
  tcpas_slot hn hs i
  by_cases h0 : i = 16
  · subst h0; simp
  by_cases h1 : i = 17
  · subst h1; simp
  by_cases h2 : i = 18
  · subst h2; simp
  by_cases h3 : i = 19
  · subst h3; simp
  by_cases h4 : i = 2
  · subst h4; simp
  rw [if_neg (by omega), if_neg (by omega), if_neg (by omega), if_neg (by omega), if_neg (by omega), if_neg (by omega), if_neg (by omega)]
  rfl

theorem tcpas_base (a : EArgs) (o : Opt) (hs : a.n.size = 20) (hn : o.name = "base") :
    (((((a.setNum 6 (o.arg 0)).setNum 7 (o.arg 1)).setNum 8 (o.arg 2)).setNum 9 (o.arg 3)).setNum 10 (o.arg 4)).n.size = 20 ∧
    ∀ i, (((((a.setNum 6 (o.arg 0)).setNum 7 (o.arg 1)).setNum 8 (o.arg 2)).setNum 9 (o.arg 3)).setNum 10 (o.arg 4)).num i = upd (tcpasWrite i o) (a.num i) := by
  tcpas_slot hn hs i
  by_cases h0 : i = 6
  · subst h0; simp
  by_cases h1 : i = 7
  · subst h1; simp
  by_cases h2 : i = 8
  · subst h2; simp
  by_cases h3 : i = 9
  · subst h3; simp
  by_cases h4 : i = 10
  · subst h4; simp
  rw [if_neg (by omega), if_neg (by omega), if_neg (by omega), if_neg (by omega), if_neg (by omega), if_neg (by omega)]
  rfl

theorem tcpas_config (a : EArgs) (o : Opt) (hs : a.n.size = 20) (hn : o.name = "config") :
    ((((((a.setNum 11 (o.arg 0)).setNum 12 (o.arg 1)).setNum 13 (o.arg 2)).setNum 14 (o.arg 3)).setNum 15 (o.arg 4)).orNum 2 4).n.size = 20 ∧
    ∀ i, ((((((a.setNum 11 (o.arg 0)).setNum 12 (o.arg 1)).setNum 13 (o.arg 2)).setNum 14 (o.arg 3)).setNum 15 (o.arg 4)).orNum 2 4).num i = upd (tcpasWrite i o) (a.num i) := by
  tcpas_slot hn hs i
  by_cases h0 : i = 11
  · subst h0; simp
  by_cases h1 : i = 12
  · subst h1; simp
  by_cases h2 : i = 13
  · subst h2; simp
  by_cases h3 : i = 14
  · subst h3; simp
  by_cases h4 : i = 15
  · subst h4; simp
  by_cases h5 : i = 2
  · subst h5; simp
  rw [if_neg (by omega), if_neg (by omega), if_neg (by omega), if_neg (by omega), if_neg (by omega), if_neg (by omega), if_neg (by omega), if_neg (by omega)]
  rfl

/-- one TCPA-server builder call, slot by slot -/
theorem tcpas_apply (a a' : EArgs) (o : Opt) (hs : a.n.size = 20) (h : Tcpas.applyOp a o = some a') :
    a'.n.size = 20 ∧ ∀ i, a'.num i = upd (tcpasWrite i o) (a.num i) := by
  unfold Tcpas.applyOp at h
  simp only [] at h
  split at h
  case h_1 hn => rw [Option.some.injEq] at h; subst h; exact tcpas_logarea a o hs hn
  case h_2 hn => rw [Option.some.injEq] at h; subst h; exact tcpas_activelow a o hs hn
  case h_3 hn => rw [Option.some.injEq] at h; subst h; exact tcpas_edge a o hs hn
  case h_4 hn => rw [Option.some.injEq] at h; subst h; exact tcpas_scigpe a o hs hn
  case h_5 hn => rw [Option.some.injEq] at h; subst h; exact tcpas_gsi a o hs hn
  case h_6 hn => rw [Option.some.injEq] at h; subst h; exact tcpas_pnp a o hs hn
  case h_7 hn =>
    split at h
    · exact absurd h nofun
    · rw [Option.some.injEq] at h; subst h; exact tcpas_sbdf a o hs hn
  case h_8 hn => rw [Option.some.injEq] at h; subst h; exact tcpas_base a o hs hn
  case h_9 hn => rw [Option.some.injEq] at h; subst h; exact tcpas_config a o hs hn
  case h_10 => exact absurd h nofun

/-- **TCPA-server slots**: after the program every slot holds what `slotValue tcpasWrite`
    computes from the program text -/
theorem tcpas_slots (ops : List Opt) : ∀ (s s' : FixedState), s.t = .tcpas → s.a.n.size = 20 →
    runFixedFrom s ops = some s' → ∀ i, s'.a.num i = slotValue tcpasWrite i (s.a.num i) ops := by
  induction ops with
  | nil => intro s s' _ _ h i; cases h; rw [slotValue_nil]
  | cons o os ih =>
    intro s s' ht hs h i
    obtain ⟨s1, h1, h2⟩ := runFixedFrom_cons_some h
    obtain ⟨a, ha, rfl⟩ := tcpas_step ht h1
    obtain ⟨hs1, hv⟩ := tcpas_apply _ _ _ hs ha
    rw [slotValue_cons, ← hv i]
    exact ih { s with a } s' ht hs1 h2 i

theorem conforms_tcpas (o : Oem) (c : EArgs) (ops : List Opt) (s : FixedState) (e : Nat)
    (h1 : o.id.length = 6) (h2 : o.table.length = 8) (hrun : runFixed .tcpas o c ops = some s) :
    conforms (fixedRows .tcpas o c ops (s.image.getD 8 0).toNat (s.image.getD 9 0).toNat e).1
      (fixedRows .tcpas o c ops (s.image.getD 8 0).toNat (s.image.getD 9 0).toNat e).2 s.image = none := by
  obtain ⟨ht, ho⟩ := runFixed_t hrun
  obtain ⟨s0, h0, hr⟩ := runFixed_some hrun
  have hs0 : s0 = { t := .tcpas, oem := o, a := Tcpas.initState } := by
    unfold FixedState.new at h0; cases h0; rfl
  subst hs0
  have hslots := tcpas_slots ops _ s rfl (by simp [Tcpas.initState]) hr
  have hinit : ∀ i, Tcpas.initState.num i = 0 := by
    intro i
    unfold Tcpas.initState EArgs.num
    simp only [Array.getD_eq_getD_getElem?, Array.getElem?_replicate]
    split <;> rfl
  simp only [hinit] at hslots
  unfold FixedState.image
  rw [ht]
  simp only []
  rw [ho]
  unfold fixedRows tcpasRows
  simp only []
  obtain ⟨k, hk⟩ := fixedImage_eq [0x54, 0x43, 0x50, 0x41] 100 2 o (encFields (Tcpas.body s.a))
  rw [hk]
  simp only [List.append_assoc]
  refine conforms_hdr _ 100 _ _ _ _ _ rfl h1 h2 (by decide)
    (by simp [tilesFrom, Row.off, Row.width, res, gasRows]) ?_
  simp [Tcpas.body, gasFields, gasRows, hslots, encFields, render, Row.bytes, Fld.bytes, res, zeros,
    List.replicate_succ, leN]

end Acpi.C04
