import Acpi.Aml.PkgLen
import Acpi.Spec.PkgLength
import Acpi.Lemmas.Basic
namespace Acpi
open Spec.PkgLength

theorem lead1 (k : Fin 16) : (((1 : UInt8) <<< 6) ||| UInt8.ofNat k.val).toNat = 64 + k.val := by
  revert k; decide
theorem lead2 (k : Fin 16) : (((2 : UInt8) <<< 6) ||| UInt8.ofNat k.val).toNat = 128 + k.val := by
  revert k; decide
theorem lead3 (k : Fin 16) : (((3 : UInt8) <<< 6) ||| UInt8.ofNat k.val).toNat = 192 + k.val := by
  revert k; decide

theorem and15 (L : Nat) : L &&& 0xf = L % 16 := Nat.and_two_pow_sub_one_eq_mod L 4

theorem lead1' (L : Nat) : (((1 : UInt8) <<< 6) ||| UInt8.ofNat (L &&& 0xf)).toNat = 64 + L % 16 := by
  rw [and15]; exact lead1 ⟨L % 16, Nat.mod_lt _ (by decide)⟩
theorem lead2' (L : Nat) : (((2 : UInt8) <<< 6) ||| UInt8.ofNat (L &&& 0xf)).toNat = 128 + L % 16 := by
  rw [and15]; exact lead2 ⟨L % 16, Nat.mod_lt _ (by decide)⟩
theorem lead3' (L : Nat) : (((3 : UInt8) <<< 6) ||| UInt8.ofNat (L &&& 0xf)).toNat = 192 + L % 16 := by
  rw [and15]; exact lead3 ⟨L % 16, Nat.mod_lt _ (by decide)⟩

theorem decode2 (L : Nat) (rest : Bytes) (h : L < 2 ^ 12) :
    decode ((((1 : UInt8) <<< 6) ||| UInt8.ofNat (L &&& 0xf)) :: UInt8.ofNat (L >>> 4) :: rest)
      = some (L, 2) := by
  simp only [decode, lead1', Nat.shiftRight_eq_div_pow]
  have e : (64 + L % 16) / 64 = 1 := by omega
  simp [e, fromLE, UInt8.toNat_ofNat']
  omega

theorem decode3 (L : Nat) (rest : Bytes) (h : L < 2 ^ 20) :
    decode ((((2 : UInt8) <<< 6) ||| UInt8.ofNat (L &&& 0xf)) :: UInt8.ofNat (L >>> 4)
      :: UInt8.ofNat (L >>> 12) :: rest) = some (L, 3) := by
  simp only [decode, lead2', Nat.shiftRight_eq_div_pow]
  have e : (128 + L % 16) / 64 = 2 := by omega
  simp [e, fromLE, UInt8.toNat_ofNat']
  omega

theorem decode4 (L : Nat) (rest : Bytes) (h : L < 2 ^ 28) :
    decode ((((3 : UInt8) <<< 6) ||| UInt8.ofNat (L &&& 0xf)) :: UInt8.ofNat (L >>> 4)
      :: UInt8.ofNat (L >>> 12) :: UInt8.ofNat (L >>> 20) :: rest) = some (L, 4) := by
  simp only [decode, lead3', Nat.shiftRight_eq_div_pow]
  have e : (192 + L % 16) / 64 = 3 := by omega
  simp [e, fromLE, UInt8.toNat_ofNat']
  omega

theorem decode1 (L : Nat) (rest : Bytes) (h : L < 64) :
    decode (UInt8.ofNat L :: rest) = some (L, 1) := by
  simp only [decode, UInt8.toNat_ofNat']
  have e : L % 2 ^ 8 / 64 = 0 := by omega
  simp [e]; omega

theorem width_cases (c : Nat) :
    (pkgLenWidth c = 1 ∧ c < 63) ∨ (pkgLenWidth c = 2 ∧ 63 ≤ c ∧ c < 4094) ∨
    (pkgLenWidth c = 3 ∧ 4094 ≤ c ∧ c < 1048573) ∨ (pkgLenWidth c = 4 ∧ 1048573 ≤ c) := by
  unfold pkgLenWidth
  simp only [Nat.reducePow, Nat.reduceSub]
  split
  · left; omega
  · split
    · right; left; omega
    · split
      · right; right; left; omega
      · right; right; right; omega

end Acpi
