import Acpi.Basic
namespace Acpi

theorem foldl_add_acc (bs : Bytes) (a : UInt8) :
    bs.foldl (· + ·) a = a + bs.foldl (· + ·) 0 := by
  induction bs generalizing a with
  | nil => simp
  | cons b bs ih =>
    simp only [List.foldl_cons]
    rw [ih (a + b), ih (0 + b)]
    simp [UInt8.add_assoc]

@[simp] theorem sum8_nil : sum8 [] = 0 := rfl

@[simp] theorem sum8_cons (b : UInt8) (bs : Bytes) : sum8 (b :: bs) = b + sum8 bs := by
  unfold sum8
  simp only [List.foldl_cons]
  rw [foldl_add_acc]
  simp

@[simp] theorem sum8_append (a b : Bytes) : sum8 (a ++ b) = sum8 a + sum8 b := by
  induction a with
  | nil => simp
  | cons x xs ih => simp [ih, UInt8.add_assoc]

@[simp] theorem sum8_zeros (n : Nat) : sum8 (zeros n) = 0 := by
  induction n with
  | zero => rfl
  | succ n ih => simp [zeros, List.replicate_succ] at *; exact ih

@[simp] theorem length_leN (w n : Nat) : (leN w n).length = w := by
  induction w generalizing n with
  | zero => rfl
  | succ w ih => simp [leN, ih]

@[simp] theorem length_u16le (x : UInt16) : (u16le x).length = 2 := rfl
@[simp] theorem length_u32le (x : UInt32) : (u32le x).length = 4 := rfl
@[simp] theorem length_u64le (x : UInt64) : (u64le x).length = 8 := rfl
@[simp] theorem length_zeros (n : Nat) : (zeros n).length = n := by simp [zeros]

theorem fromLE_leN (w n : Nat) : fromLE (leN w n) = n % 256 ^ w := by
  induction w generalizing n with
  | zero => simp [leN, fromLE, Nat.mod_one]
  | succ w ih =>
    simp only [leN, fromLE, ih]
    have : (UInt8.ofNat (n % 256)).toNat = n % 256 := by
      simp [UInt8.toNat_ofNat']
    rw [this, Nat.pow_succ, Nat.mul_comm (256 ^ w) 256, Nat.mod_mul]

theorem u16le_eq_leN (x : UInt16) : u16le x = leN 2 x.toNat := by
  simp only [u16le, leN]
  congr 1
  · apply UInt8.toNat_inj.mp; simp
  · congr 1
    apply UInt8.toNat_inj.mp; simp [Nat.shiftRight_eq_div_pow]

theorem u32le_eq_leN (x : UInt32) : u32le x = leN 4 x.toNat := by
  simp only [u32le, leN]
  refine List.cons_eq_cons.mpr ⟨?_, List.cons_eq_cons.mpr ⟨?_, List.cons_eq_cons.mpr ⟨?_, List.cons_eq_cons.mpr ⟨?_, rfl⟩⟩⟩⟩ <;>
  · apply UInt8.toNat_inj.mp; simp [Nat.shiftRight_eq_div_pow]; try omega

theorem u64le_eq_leN (x : UInt64) : u64le x = leN 8 x.toNat := by
  simp only [u64le, leN]
  refine List.cons_eq_cons.mpr ⟨?_, List.cons_eq_cons.mpr ⟨?_, List.cons_eq_cons.mpr ⟨?_, List.cons_eq_cons.mpr ⟨?_, 
    List.cons_eq_cons.mpr ⟨?_, List.cons_eq_cons.mpr ⟨?_, List.cons_eq_cons.mpr ⟨?_, List.cons_eq_cons.mpr ⟨?_, rfl⟩⟩⟩⟩⟩⟩⟩⟩ <;>
  · apply UInt8.toNat_inj.mp; simp [Nat.shiftRight_eq_div_pow]; try omega

end Acpi
