/-
  Helper lemmas for Acpi.Props.C04.CedtHestMisc (CEDT, HEST, MCFG, XSDT, RQSC, GAS entries):
  builder-state accessors, the set-semantics helpers of Acpi.Spec.Layout under `cons`,
  array rows, `leN` arithmetic, and a generic induction principle over builder calls.
-/
import Acpi.Tables.Build
import Acpi.Tables.Wf
import Acpi.Spec.Layout
import Acpi.Lemmas.Layout
namespace Acpi.CHM
open Acpi Spec

/-! ### builder state accessors -/

theorem num_setNum (a : EArgs) (i v j : Nat) :
    (a.setNum i v).num j = if i = j ∧ i < a.n.size then v else a.num j := by
  unfold EArgs.num EArgs.setNum
  simp only [Array.getD_eq_getD_getElem?, Array.getElem?_setIfInBounds]
  by_cases hij : i = j
  · subst hij
    by_cases hs : i < a.n.size
    · simp [hs]
    · simp [hs]
  · simp [hij]

@[scoped simp] theorem size_setNum (a : EArgs) (i v : Nat) : (a.setNum i v).n.size = a.n.size := by
  simp [EArgs.setNum]

@[scoped simp] theorem b_setNum (a : EArgs) (i v : Nat) : (a.setNum i v).b = a.b := rfl
@[scoped simp] theorem s_setNum (a : EArgs) (i v : Nat) : (a.setNum i v).s = a.s := rfl

theorem num_orNum (a : EArgs) (i bit j : Nat) :
    (a.orNum i bit).num j = if i = j ∧ i < a.n.size then a.num i ||| bit else a.num j := by
  unfold EArgs.orNum
  rw [num_setNum]

@[scoped simp] theorem size_orNum (a : EArgs) (i v : Nat) : (a.orNum i v).n.size = a.n.size := by
  simp [EArgs.orNum]

@[scoped simp] theorem b_orNum (a : EArgs) (i v : Nat) : (a.orNum i v).b = a.b := rfl
@[scoped simp] theorem s_orNum (a : EArgs) (i v : Nat) : (a.orNum i v).s = a.s := rfl


/-! ### option semantics under `cons` -/

@[scoped simp] theorem has_nil (n : String) : has [] n = false := rfl
theorem has_cons (o : Opt) (os : List Opt) (n : String) :
    has (o :: os) n = (decide (o.name = n) || has os n) := by
  simp [has]

@[scoped simp] theorem lastSet_nil (j d : Nat) : lastSet [] j d = d := rfl
theorem lastSet_cons (o : Opt) (os : List Opt) (j d : Nat) :
    lastSet (o :: os) j d = lastSet os j (if o.name = "set" ∧ o.arg 0 = j then o.arg 1 else d) := by
  unfold lastSet
  by_cases h : o.name = "set" ∧ o.arg 0 = j
  · rw [List.filter_cons_of_pos (by simpa using h), if_pos h, List.getLast?_cons]
    cases (List.filter (fun o => decide (o.name = "set" ∧ o.arg 0 = j)) os).getLast? <;> rfl
  · rw [List.filter_cons_of_neg (by simpa using h), if_neg h]

@[scoped simp] theorem lastVal_nil (n : String) (i d : Nat) : lastVal [] n i d = d := rfl
theorem lastVal_cons (o : Opt) (os : List Opt) (n : String) (i d : Nat) :
    lastVal (o :: os) n i d = lastVal os n i (if o.name = n then o.arg i else d) := by
  unfold lastVal lastOf
  by_cases h : o.name = n
  · rw [List.filter_cons_of_pos (by simpa using h), if_pos h, List.getLast?_cons]
    cases (List.filter (fun x => decide (x.name = n)) os).getLast? <;> rfl
  · rw [List.filter_cons_of_neg (by simpa using h), if_neg h]

@[scoped simp] theorem pushed_nil (n : String) : pushed [] n = [] := rfl
theorem pushed_cons (o : Opt) (os : List Opt) (n : String) :
    pushed (o :: os) n = if o.name = n then o.arg 0 :: pushed os n else pushed os n := by
  unfold pushed
  by_cases h : o.name = n
  · rw [List.filter_cons_of_pos (by simpa using h), if_pos h]; rfl
  · rw [List.filter_cons_of_neg (by simpa using h), if_neg h]

/-- no `set` call addresses slot `j`: the slot keeps its default -/
theorem lastSet_of_not_mem (opts : List Opt) (j d : Nat)
    (h : ∀ o ∈ opts, o.name = "set" → o.arg 0 ≠ j) : lastSet opts j d = d := by
  induction opts generalizing d with
  | nil => rfl
  | cons o os ih =>
    rw [lastSet_cons, if_neg, ih]
    · intro o' ho'; exact h o' (List.mem_cons_of_mem _ ho')
    · intro hc; exact h o List.mem_cons_self hc.1 hc.2

/-! ### rendering -/

theorem render_append (a b : List Row) : render (a ++ b) = render a ++ render b := by
  simp [render]

theorem render_cons (r : Row) (rs : List Row) : render (r :: rs) = r.bytes ++ render rs := by
  simp [render]

@[scoped simp] theorem render_nil : render [] = [] := rfl

theorem arrayRows_cons (base w : Nat) (v : Nat) (vs : List Nat) :
    arrayRows base w w (v :: vs) = .num base w v :: arrayRows (base + w) w w vs := by
  unfold arrayRows
  rw [List.mapIdx_cons]
  congr 2
  funext i v
  rw [Nat.mul_add, Nat.mul_one, Nat.add_assoc, Nat.add_comm w]

theorem render_arrayRows (base w : Nat) (vs : List Nat) :
    render (arrayRows base w w vs) = vs.flatMap (leN w) := by
  induction vs generalizing base with
  | nil => rfl
  | cons v vs ih => rw [arrayRows_cons, render_cons, ih]; rfl

theorem tilesFrom_arrayRows (base w total : Nat) (vs : List Nat) (h : total = base + w * vs.length) :
    tilesFrom base total (arrayRows base w w vs) = true := by
  induction vs generalizing base with
  | nil => simp [arrayRows, tilesFrom, h]
  | cons v vs ih =>
    rw [arrayRows_cons]
    simp only [tilesFrom, Row.off, Row.width, beq_self_eq_true, Bool.true_and]
    apply ih
    rw [h, List.length_cons, Nat.mul_add, Nat.mul_one]; omega


/-! ### `leN` arithmetic -/

@[scoped simp] theorem leN_zero_val (w : Nat) : leN w 0 = zeros w := by
  induction w with
  | zero => rfl
  | succ w ih => simp only [leN, Nat.zero_mod, Nat.zero_div, ih]; rfl

theorem leN_add (a b v : Nat) : leN (a + b) v = leN a v ++ leN b (v / 256 ^ a) := by
  induction a generalizing v with
  | zero => simp [leN]
  | succ a ih =>
    rw [Nat.add_right_comm]
    simp only [leN, List.cons_append, ih]
    rw [Nat.div_div_eq_div_mul, Nat.pow_succ, Nat.mul_comm]

theorem leN_of_lt (a b v : Nat) (h : v < 256 ^ a) : leN (a + b) v = leN a v ++ zeros b := by
  rw [leN_add, Nat.div_eq_of_lt h, leN_zero_val]

/-- `(bus << 8) | (device << 3) | function` is the PCI BDF of the specification -/
theorem bdf_eq_bdfOf (bus dev fn : Nat) (hb : bus < 256) (hd : dev < 32) (hf : fn < 8) :
    bdf bus dev fn = bdfOf bus dev fn := by
  unfold bdf bdfOf
  have h1 : bus <<< 8 ||| dev <<< 3 = bus <<< 8 + dev <<< 3 := by
    rw [Nat.shiftLeft_add_eq_or_of_lt]
    rw [Nat.shiftLeft_eq]; omega
  have h2 : bus <<< 8 + dev <<< 3 = (bus <<< 5 + dev) <<< 3 := by
    simp only [Nat.shiftLeft_eq]; omega
  rw [h1, h2, ← Nat.shiftLeft_add_eq_or_of_lt (by omega : fn < 2 ^ 3)]
  simp only [Nat.shiftLeft_eq]
  omega

/-! ### builder programs -/

theorem buildEntry_ok (k : Kind) (c : EArgs) (opts : List Opt) (a : EArgs)
    (h : buildEntry k c opts = .ok a) :
    ctorPanics k c = false ∧ applyOpts k (init k c) opts = .ok a ∧ panics k a = false := by
  unfold buildEntry at h
  split at h
  · cases h
  · split at h
    · cases h
    · rename_i a' ha'
      split at h
      · cases h
      · cases h
        refine ⟨by simpa using ‹¬ctorPanics k c = true›, ha', by simpa using ‹¬panics k a = true›⟩

/-- a kind without builder calls: the program is the constructor alone -/
theorem applyOpts_none (k : Kind) (hk : ∀ a o, applyOpt k a o = none) (s a : EArgs) (opts : List Opt)
    (h : applyOpts k s opts = .ok a) : opts = [] ∧ a = s := by
  cases opts with
  | nil => simp only [applyOpts] at h; cases h; exact ⟨rfl, rfl⟩
  | cons o os => simp only [applyOpts, hk] at h; cases h

/-- induction over a builder program: an invariant of the state and a relation between the
    remaining calls, the current state and the final state -/
theorem applyOpts_ind (k : Kind) (Inv : EArgs → Prop) (R : List Opt → EArgs → EArgs → Prop)
    (hnil : ∀ s, Inv s → R [] s s)
    (hstep : ∀ o s s', Inv s → optWf k o = true → applyOpt k s o = some s' →
      Inv s' ∧ ∀ os a, R os s' a → R (o :: os) s a) :
    ∀ (opts : List Opt) (s a : EArgs), Inv s → opts.all (optWf k) = true →
      applyOpts k s opts = .ok a → R opts s a := by
  intro opts
  induction opts with
  | nil =>
    intro s a hi _ h
    simp only [applyOpts] at h; cases h
    exact hnil s hi
  | cons o os ih =>
    intro s a hi hwf h
    simp only [List.all_cons, Bool.and_eq_true] at hwf
    simp only [applyOpts] at h
    split at h
    · rename_i s' hs'
      obtain ⟨hi', hr⟩ := hstep o s s' hi hwf.1 hs'
      exact hr os a (ih s' a hi' hwf.2 h)
    · cases h

/-- a well-formed `set=slot.v` call addresses a settable slot -/
theorem optWf_set (k : Kind) (o : Opt) (h : optWf k o = true) (hn : o.name = "set") :
    o.arg 0 ∈ settableSlots k := by
  obtain ⟨nm, v⟩ := o
  cases hn
  have : (settableSlots k).contains (Opt.arg ⟨"set", v⟩ 0) = true := by
    cases k
    case proc =>     -- the PPTT direct writes additionally bound the value (`u32`)
      have h' : ((settableSlots .proc).contains (Opt.arg ⟨"set", v⟩ 0) &&
          decide (Opt.arg ⟨"set", v⟩ 1 < 2 ^ 32)) = true := h
      exact (Bool.and_eq_true _ _ ▸ h').1
    all_goals exact h
  simpa using this

/-- slots outside `settableSlots` keep their default under well-formed programs -/
theorem lastSet_unsettable (k : Kind) (opts : List Opt) (hwf : opts.all (optWf k) = true) (j d : Nat)
    (hj : j ∉ settableSlots k) : lastSet opts j d = d := by
  apply lastSet_of_not_mem
  intro o ho hn he
  rw [List.all_eq_true] at hwf
  exact hj (he ▸ optWf_set k o (hwf o ho) hn)

/-- kinds whose only builder call is `set=slot.v`: every slot holds its last assignment -/
theorem setOnly_final (k : Kind) (N : Nat)
    (hk : ∀ a o, applyOpt k a o = if o.name = "set" then some (a.setNum (o.arg 0) (o.arg 1)) else none)
    (hslots : ∀ i ∈ settableSlots k, i < N) :
    ∀ (opts : List Opt) (s a : EArgs), s.n.size = N → opts.all (optWf k) = true →
      applyOpts k s opts = .ok a →
      a.n.size = N ∧ a.b = s.b ∧ a.s = s.s ∧ ∀ j, j < N → a.num j = lastSet opts j (s.num j) := by
  apply applyOpts_ind k (fun s => s.n.size = N)
    (fun opts s a => a.n.size = N ∧ a.b = s.b ∧ a.s = s.s ∧ ∀ j, j < N → a.num j = lastSet opts j (s.num j))
  · intro s hs
    exact ⟨hs, rfl, rfl, fun j _ => rfl⟩
  · intro o s s' hs hwf hstep
    rw [hk] at hstep
    by_cases hn : o.name = "set"
    · rw [if_pos hn] at hstep
      cases hstep
      have hlt : o.arg 0 < N := hslots _ (optWf_set k o hwf hn)
      refine ⟨by simpa using hs, ?_⟩
      intro os a ⟨h1, h2, h3, h4⟩
      refine ⟨h1, by simpa using h2, by simpa using h3, ?_⟩
      intro j hj
      rw [h4 j hj, lastSet_cons, num_setNum, hs]
      simp [hn, hlt]
    · rw [if_neg hn] at hstep
      cases hstep

theorem entryWf_iff (k : Kind) (c : EArgs) (opts : List Opt) :
    entryWf k c opts = true ↔ ctorWf k c = true ∧ opts.all (optWf k) = true := by
  simp [entryWf]

/-! ### field sequences -/

theorem encFields_append (a b : List Fld) : encFields (a ++ b) = encFields a ++ encFields b := by
  simp [encFields]

theorem encFields_map_num (w : Nat) (vs : List Nat) :
    encFields (vs.map (Fld.num w)) = vs.flatMap (leN w) := by
  simp [encFields, List.flatMap_map, Fld.bytes]

theorem encFields_map_raw (bs : List Bytes) : encFields (bs.map Fld.raw) = bs.flatten := by
  simp [encFields, List.flatMap_map, Fld.bytes, List.flatMap_id']

theorem tilesFrom_append (p q total : Nat) (rs1 rs2 : List Row)
    (h1 : tilesFrom p q rs1 = true) (h2 : tilesFrom q total rs2 = true) :
    tilesFrom p total (rs1 ++ rs2) = true := by
  induction rs1 generalizing p with
  | nil =>
    simp only [tilesFrom, beq_iff_eq] at h1
    subst h1; exact h2
  | cons r rs ih =>
    simp only [tilesFrom, Bool.and_eq_true, List.cons_append] at h1 ⊢
    exact ⟨h1.1, ih _ h1.2⟩

/-- a program of a kind without builder calls is its constructor -/
theorem noOpts (k : Kind) (hk : ∀ a o, applyOpt k a o = none) (c : EArgs) (opts : List Opt) (a : EArgs)
    (h : buildEntry k c opts = .ok a) :
    opts = [] ∧ a = init k c ∧ ctorPanics k c = false ∧ panics k a = false := by
  obtain ⟨hc, ha, hp⟩ := buildEntry_ok k c opts a h
  obtain ⟨ho, he⟩ := applyOpts_none k hk _ _ _ ha
  exact ⟨ho, he, hc, hp⟩

end Acpi.CHM
