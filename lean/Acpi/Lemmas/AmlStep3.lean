/-
  Acpi.Lemmas.AmlStep3 — C06 induction steps: leaves (constants, strings, names, locals, args)
  and method invocations.
-/
import Acpi.Lemmas.AmlLists
import Acpi.Lemmas.AmlStep2
set_option linter.unusedSimpArgs false
namespace Acpi.Lemmas.AmlParse
open Acpi Spec Spec.Aml

theorem tfact_int (env : Env) (n : Nat) (h : n < 2 ^ 64) : TFact env (Int.enc n) (intTm n) := by
  intro f rest hf
  obtain ⟨f, rfl⟩ : ∃ g, f = g + 1 := ⟨f - 1, by omega⟩
  exact parseTerm_intEnc env f n rest h

theorem step_zero (env : Env) : Step env .zero := by
  intro ints blobs kids ih bs rest fuel hwf hok henc hf
  simp only [Aml.enc, Option.some.injEq] at henc
  subst henc
  exact (tfact_int env 0 (by decide)).finish rfl hf

theorem step_one (env : Env) : Step env .one := by
  intro ints blobs kids ih bs rest fuel hwf hok henc hf
  simp only [Aml.enc, Option.some.injEq] at henc
  subst henc
  exact (tfact_int env 1 (by decide)).finish rfl hf

theorem step_ones (env : Env) : Step env .ones := by
  intro ints blobs kids ih bs rest fuel hwf hok henc hf
  simp only [Aml.enc, Option.some.injEq] at henc
  subst henc
  have hm : meaning (.node .ones ints blobs kids) = .node (.op (0xFF : UInt8).toNat) [] [] .nil := by
    simp only [meaning, TmList.ofList]; rfl
  rw [hm]
  have T := tfact_plain (env := env) (.plain 0xFF _ (by decide) (by decide) rfl) (ss := []) rfl (by decide) .nil
  exact T.finish rfl hf

theorem step_u8 (env : Env) : Step env .u8 := by
  intro ints blobs kids ih bs rest fuel hwf hok henc hf
  simp only [wf, Bool.and_eq_true, decide_eq_true_eq] at hwf
  have hv : (UInt8.ofNat (ints.getD 0 0)).toNat = ints.getD 0 0 := by
    simp only [UInt8.toNat_ofNat']; omega
  simp only [Aml.enc, Option.some.injEq, C08.encU8_spec, hv] at henc
  have hm : meaning (.node .u8 ints blobs kids) = intTm (ints.getD 0 0) := by simp only [meaning]
  rw [hm]
  exact (tfact_int env _ (by omega)).finish henc.symm hf

theorem step_u16 (env : Env) : Step env .u16 := by
  intro ints blobs kids ih bs rest fuel hwf hok henc hf
  simp only [wf, Bool.and_eq_true, decide_eq_true_eq] at hwf
  have hv : (UInt16.ofNat (ints.getD 0 0)).toNat = ints.getD 0 0 := by
    simp only [UInt16.toNat_ofNat']; omega
  simp only [Aml.enc, Option.some.injEq, C08.encU16_spec, hv] at henc
  have hm : meaning (.node .u16 ints blobs kids) = intTm (ints.getD 0 0) := by simp only [meaning]
  rw [hm]
  exact (tfact_int env _ (by omega)).finish henc.symm hf

theorem step_u32 (env : Env) : Step env .u32 := by
  intro ints blobs kids ih bs rest fuel hwf hok henc hf
  simp only [wf, Bool.and_eq_true, decide_eq_true_eq] at hwf
  have hv : (UInt32.ofNat (ints.getD 0 0)).toNat = ints.getD 0 0 := by
    simp only [UInt32.toNat_ofNat']; omega
  simp only [Aml.enc, Option.some.injEq, C08.encU32_spec, hv] at henc
  have hm : meaning (.node .u32 ints blobs kids) = intTm (ints.getD 0 0) := by simp only [meaning]
  rw [hm]
  exact (tfact_int env _ (by omega)).finish henc.symm hf

theorem step_u64 (env : Env) : Step env .u64 := by
  intro ints blobs kids ih bs rest fuel hwf hok henc hf
  simp only [wf, Bool.and_eq_true, decide_eq_true_eq] at hwf
  have hv : (UInt64.ofNat (ints.getD 0 0)).toNat = ints.getD 0 0 := by
    simp only [UInt64.toNat_ofNat']; omega
  simp only [Aml.enc, Option.some.injEq, C08.encU64_spec, hv] at henc
  have hm : meaning (.node .u64 ints blobs kids) = intTm (ints.getD 0 0) := by simp only [meaning]
  rw [hm]
  exact (tfact_int env _ (by omega)).finish henc.symm hf

theorem step_usize (env : Env) : Step env .usize := by
  intro ints blobs kids ih bs rest fuel hwf hok henc hf
  simp only [wf, Bool.and_eq_true, decide_eq_true_eq] at hwf
  have hv : (UInt64.ofNat (ints.getD 0 0)).toNat = ints.getD 0 0 := by
    simp only [UInt64.toNat_ofNat']; omega
  simp only [Aml.enc, Option.some.injEq, encUsize, C08.encU64_spec, hv] at henc
  have hm : meaning (.node .usize ints blobs kids) = intTm (ints.getD 0 0) := by simp only [meaning]
  rw [hm]
  exact (tfact_int env _ (by omega)).finish henc.symm hf

theorem step_str (env : Env) : Step env .str := by
  intro ints blobs kids ih bs rest fuel hwf hok henc hf
  simp only [wf, Bool.and_eq_true, Bool.not_eq_true', List.contains_eq_mem, decide_eq_false_iff_not] at hwf
  simp only [Aml.enc, Option.some.injEq] at henc
  subst henc
  have hm : meaning (.node .str ints blobs kids) = .node .str [] [blobs.getD 0 []] .nil := by
    simp only [meaning]
  rw [hm]
  obtain ⟨f, rfl⟩ : ∃ g, fuel = g + 1 := ⟨fuel - 1, by omega⟩
  have := parseTerm_str env f (blobs.getD 0 []) rest hwf.2
  simpa only [List.cons_append, List.nil_append, List.append_assoc] using this

theorem step_local (env : Env) : Step env .local_ := by
  intro ints blobs kids ih bs rest fuel hwf hok henc hf
  simp only [wf, Bool.and_eq_true, decide_eq_true_eq] at hwf
  simp only [Aml.enc, if_pos hwf.2, Option.some.injEq] at henc
  subst henc
  have hm : meaning (.node .local_ ints blobs kids) = .node .local_ [ints.getD 0 0] [] .nil := by
    simp only [meaning]
  rw [hm]
  obtain ⟨f, rfl⟩ : ∃ g, fuel = g + 1 := ⟨fuel - 1, by omega⟩
  exact parseTerm_local env f _ rest hwf.2

theorem step_arg (env : Env) : Step env .arg := by
  intro ints blobs kids ih bs rest fuel hwf hok henc hf
  simp only [wf, Bool.and_eq_true, decide_eq_true_eq] at hwf
  simp only [Aml.enc, if_pos hwf.2, Option.some.injEq] at henc
  subst henc
  have hm : meaning (.node .arg ints blobs kids) = .node .arg [ints.getD 0 0] [] .nil := by
    simp only [meaning]
  rw [hm]
  obtain ⟨f, rfl⟩ : ∃ g, fuel = g + 1 := ⟨fuel - 1, by omega⟩
  exact parseTerm_arg env f _ rest hwf.2

theorem step_path (env : Env) : Step env .path := by
  intro ints blobs kids ih bs rest fuel hwf hok henc hf
  simp only [wf, Bool.and_eq_true, decide_eq_true_eq] at hwf
  obtain ⟨_, hpo, har⟩ := hwf
  simp only [Aml.enc] at henc
  have hm : meaning (.node .path ints blobs kids) = nameOf (blobs.getD 0 []) := by simp only [meaning]
  rw [hm, nameOf_eq]
  obtain ⟨f, rfl⟩ : ∃ g, fuel = g + 1 := ⟨fuel - 1, by omega⟩
  obtain ⟨hd, b, t, rfl, hb⟩ := pathEnc_decode _ bs rest henc hpo
  exact parseTerm_name env f b (t ++ rest) rest rest _ _ .nil hb hd (by rw [har]; exact terms_zero env f rest)

theorem toList_length : ∀ (kids : AmlList), kids.toList.length = kids.length
  | .nil => rfl
  | .cons a r => by simp [AmlList.toList, AmlList.length, toList_length r]

theorem step_call (env : Env) : Step env .call := by
  intro ints blobs kids ih bs rest fuel hwf hok henc hf
  simp only [wf, Bool.and_eq_true, decide_eq_true_eq] at hwf
  obtain ⟨hws, ⟨hpo, hall⟩, har⟩ := hwf
  simp only [Aml.enc, Option.bind_eq_bind, Option.bind_eq_some_iff, Option.some.injEq] at henc
  obtain ⟨p, hp, d, hd, rfl⟩ := henc
  have hm : meaning (.node .call ints blobs kids) =
      mkName (pathOf (blobs.getD 0 [])).1 (pathOf (blobs.getD 0 [])).2 (TmList.ofList (meanings kids)) := by
    simp only [meaning]
  rw [hm]
  simp only [List.length_append] at hf
  obtain ⟨f, rfl⟩ : ∃ g, fuel = g + 1 := ⟨fuel - 1, by omega⟩
  obtain ⟨hdec, b, t, rfl, hb⟩ := pathEnc_decode _ p (d ++ rest) hp hpo
  have hlen := toList_length kids
  rw [List.append_assoc]
  refine parseTerm_name env f b (t ++ (d ++ rest)) (d ++ rest) rest _ _ _ hb hdec ?_
  rw [har, hlen]
  exact terms_fact env kids d ih hws hall hd f rest (by simp only [List.length_cons] at hf; omega)

end Acpi.Lemmas.AmlParse
