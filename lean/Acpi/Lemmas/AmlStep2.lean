/-
  Acpi.Lemmas.AmlStep2 — C06 induction steps: store, notify, one-operand operators,
  four-operand operators, named objects without a PkgLength.
-/
import Acpi.Lemmas.AmlStep1
set_option linter.unusedSimpArgs false
namespace Acpi.Lemmas.AmlParse
open Acpi Spec Spec.Aml

theorem tgt_super (a : Aml) (h : okSuperName a = true) : tgt a = meaning a := by
  unfold tgt; rw [okSuperName_int a h]

theorem toNat_ofNat_lt (n : Nat) (h : n < 256) : (UInt8.ofNat n).toNat = n := by
  simp only [UInt8.toNat_ofNat']; omega

theorem step_store (env : Env) : Step env .store := by
  intro ints blobs kids ih bs rest fuel hwf hok henc hf
  simp only [Aml.enc, Option.bind_eq_bind, Option.bind_eq_some_iff, Option.some.injEq] at henc
  obtain ⟨e0, h0, e1, h1, rfl⟩ := henc
  obtain ⟨a0, a1, r, rfl, h0, h1⟩ := kids2 h0 h1
  simp only [wf, wfs, AmlList.toList, List.getD_cons_zero, List.getD_cons_succ, Bool.and_eq_true] at hwf
  obtain ⟨⟨hw0, hw1, _⟩, hk0, hk1⟩ := hwf
  obtain ⟨i0, i1, _⟩ := ih
  have hm : meaning (.node .store ints blobs (.cons a0 (.cons a1 r))) =
      .node (.op (0x70 : UInt8).toNat) [] [] (.cons (meaning a1) (.cons (meaning a0) .nil)) := by
    simp only [meaning, meanings, targets_cons, tgt_super a0 hk0, List.getD_cons_zero, List.getD_cons_succ,
      TmList.ofList]; rfl
  rw [hm]
  have T := tfact_plain (env := env) (.plain 0x70 _ (by decide) (by decide) rfl) (ss := [.T, .S]) rfl (by decide)
    (.T (i1.tfact hw1 hk1 h1) (.SG (sfact (Or.inl rfl) i0 hw0 hk0 h0) .nil))
  exact T.finish (by simp only [List.append_assoc, List.append_nil]) hf

theorem step_notify (env : Env) : Step env .notify := by
  intro ints blobs kids ih bs rest fuel hwf hok henc hf
  simp only [Aml.enc, Option.bind_eq_bind, Option.bind_eq_some_iff, Option.some.injEq] at henc
  obtain ⟨e0, h0, e1, h1, rfl⟩ := henc
  obtain ⟨a0, a1, r, rfl, h0, h1⟩ := kids2 h0 h1
  simp only [wf, wfs, AmlList.toList, List.getD_cons_zero, List.getD_cons_succ, Bool.and_eq_true] at hwf
  obtain ⟨⟨hw0, hw1, _⟩, hk0, hk1⟩ := hwf
  obtain ⟨i0, i1, _⟩ := ih
  have hm : meaning (.node .notify ints blobs (.cons a0 (.cons a1 r))) =
      .node (.op (0x86 : UInt8).toNat) [] [] (.cons (meaning a0) (.cons (meaning a1) .nil)) := by
    simp only [meaning, meanings, targets_cons, tgt_super a0 hk0, List.getD_cons_zero, List.getD_cons_succ,
      TmList.ofList]; rfl
  rw [hm]
  have T := tfact_plain (env := env) (.plain 0x86 _ (by decide) (by decide) rfl) (ss := [.S, .T]) rfl (by decide)
    (.SG (sfact (Or.inl rfl) i0 hw0 hk0 h0) (.T (i1.tfact hw1 hk1 h1) .nil))
  exact T.finish (by simp only [List.append_assoc, List.append_nil]) hf

-- `[object]`, grammar `Op SuperName`
set_option hygiene false in
local macro "step_s " op:term ", " c:term : tactic => `(tactic| (
  intro ints blobs kids ih bs rest fuel hwf hok henc hf
  simp only [Aml.enc, Option.map_eq_some_iff] at henc
  obtain ⟨e0, h0, rfl⟩ := henc
  obtain ⟨a0, r, rfl, h0⟩ := kids1 h0
  simp only [wf, wfs, AmlList.toList, List.getD_cons_zero, Bool.and_eq_true] at hwf
  obtain ⟨⟨hw0, _⟩, hk0⟩ := hwf
  obtain ⟨i0, _⟩ := ih
  have hm : meaning (.node $op ints blobs (.cons a0 r)) =
      .node (.op ($c : UInt8).toNat) [] [] (.cons (meaning a0) .nil) := by
    simp only [meaning, targets_cons, tgt_super a0 hk0, List.getD_cons_zero, TmList.ofList]; rfl
  rw [hm]
  have T := tfact_plain (env := env) (.plain $c _ (by decide) (by decide) rfl) (ss := [.S]) rfl (by decide)
    (.SG (sfact (Or.inl rfl) i0 hw0 hk0 h0) .nil)
  exact T.finish (by simp only [opByte, List.append_assoc, List.append_nil]) hf))

theorem step_objtype (env : Env) : Step env .objtype := by step_s Op.objtype, 0x8E
theorem step_sizeof (env : Env) : Step env .sizeof := by step_s Op.sizeof, 0x87

-- `[a]`, grammar `Op TermArg`
set_option hygiene false in
local macro "step_t " op:term ", " c:term : tactic => `(tactic| (
  intro ints blobs kids ih bs rest fuel hwf hok henc hf
  simp only [Aml.enc, Option.map_eq_some_iff] at henc
  obtain ⟨e0, h0, rfl⟩ := henc
  obtain ⟨a0, r, rfl, h0⟩ := kids1 h0
  simp only [wf, wfs, AmlList.toList, List.getD_cons_zero, Bool.and_eq_true] at hwf
  obtain ⟨⟨hw0, _⟩, hk0⟩ := hwf
  obtain ⟨i0, _⟩ := ih
  have hm : meaning (.node $op ints blobs (.cons a0 r)) =
      .node (.op ($c : UInt8).toNat) [] [] (.cons (meaning a0) .nil) := by
    simp only [meaning, meanings, List.getD_cons_zero, TmList.ofList]; rfl
  rw [hm]
  have T := tfact_plain (env := env) (.plain $c _ (by decide) (by decide) rfl) (ss := [.T]) rfl (by decide)
    (.T (i0.tfact hw0 hk0 h0) .nil)
  exact T.finish (by simp only [opByte, List.append_assoc, List.append_nil]) hf))

theorem step_ret (env : Env) : Step env .ret := by step_t Op.ret, 0xA4
theorem step_deref (env : Env) : Step env .deref := by step_t Op.deref, 0x83

theorem step_createfield (env : Env) : Step env .createfield := by
  intro ints blobs kids ih bs rest fuel hwf hok henc hf
  simp only [Aml.enc, Option.bind_eq_bind, Option.bind_eq_some_iff, Option.some.injEq] at henc
  obtain ⟨e0, h0, e1, h1, e2, h2, e3, h3, rfl⟩ := henc
  obtain ⟨a0, a1, a2, a3, r, rfl, h0, h1, h2, h3⟩ := kids4 h0 h1 h2 h3
  simp only [wf, wfs, AmlList.toList, List.getD_cons_zero, List.getD_cons_succ, Bool.and_eq_true] at hwf
  obtain ⟨⟨hw0, hw1, hw2, hw3, _⟩, ⟨⟨hk0, hk1⟩, hk2⟩, hk3⟩ := hwf
  obtain ⟨i0, i1, i2, i3, _⟩ := ih
  have hm : meaning (.node .createfield ints blobs (.cons a0 (.cons a1 (.cons a2 (.cons a3 r))))) =
      .node (.op 0x5B13) [] [] (.cons (meaning a1) (.cons (meaning a2) (.cons (meaning a3)
        (.cons (meaning a0) .nil)))) := by
    simp only [meaning, meanings, names_cons, List.getD_cons_zero, List.getD_cons_succ, TmList.ofList]
  rw [hm]
  have T := tfact_plain (env := env) (.ext 0x13 0x5B13 rfl) (ss := [.T, .T, .T, .N]) rfl (by decide)
    (.T (i1.tfact hw1 hk1 h1) (.T (i2.tfact hw2 hk2 h2) (.T (i3.tfact hw3 hk3 h3)
      (.N (nfact (env := env) hw0 hk0 h0) .nil))))
  exact T.finish (by simp only [List.append_assoc, List.append_nil]) hf

theorem step_mid (env : Env) : Step env .mid := by
  intro ints blobs kids ih bs rest fuel hwf hok henc hf
  simp only [Aml.enc, Option.bind_eq_bind, Option.bind_eq_some_iff, Option.some.injEq] at henc
  obtain ⟨e0, h0, e1, h1, e2, h2, e3, h3, rfl⟩ := henc
  obtain ⟨a0, a1, a2, a3, r, rfl, h0, h1, h2, h3⟩ := kids4 h0 h1 h2 h3
  simp only [wf, wfs, AmlList.toList, List.getD_cons_zero, List.getD_cons_succ, Bool.and_eq_true] at hwf
  obtain ⟨⟨hw0, hw1, hw2, hw3, _⟩, ⟨⟨hk0, hk1⟩, hk2⟩, hk3⟩ := hwf
  obtain ⟨i0, i1, i2, i3, _⟩ := ih
  have hm : meaning (.node .mid ints blobs (.cons a0 (.cons a1 (.cons a2 (.cons a3 r))))) =
      .node (.op (0x9E : UInt8).toNat) [] [] (.cons (meaning a0) (.cons (meaning a1) (.cons (meaning a2)
        (.cons (tgt a3) .nil)))) := by
    simp only [meaning, meanings, targets_cons, List.getD_cons_zero, List.getD_cons_succ, TmList.ofList]; rfl
  rw [hm]
  have T := tfact_plain (env := env) (.plain 0x9E _ (by decide) (by decide) rfl) (ss := [.T, .T, .T, .G]) rfl
    (by decide)
    (.T (i0.tfact hw0 hk0 h0) (.T (i1.tfact hw1 hk1 h1) (.T (i2.tfact hw2 hk2 h2)
      (.SG (gfact i3 hw3 hk3 h3) .nil))))
  exact T.finish (by simp only [List.append_assoc, List.append_nil]) hf

theorem step_mutex (env : Env) : Step env .mutex := by
  intro ints blobs kids ih bs rest fuel hwf hok henc hf
  simp only [Aml.enc, Option.map_eq_some_iff] at henc
  obtain ⟨p, hp, rfl⟩ := henc
  simp only [wf, Bool.and_eq_true, decide_eq_true_eq] at hwf
  obtain ⟨_, hpo, hi⟩ := hwf
  have hm : meaning (.node .mutex ints blobs kids) =
      .node (.op 0x5B01) [(UInt8.ofNat (ints.getD 0 0)).toNat] [] (.cons (nameOf (blobs.getD 0 [])) .nil) := by
    simp only [meaning, toNat_ofNat_lt _ hi, TmList.ofList]
  rw [hm]
  have T := tfact_plain (env := env) (.ext 0x01 0x5B01 rfl) (ss := [.N, .B]) rfl (by decide)
    (.N (NFact.path hp hpo) (.B (UInt8.ofNat (ints.getD 0 0)) .nil))
  exact T.finish (by simp only [List.append_assoc, List.append_nil]) hf

theorem step_acquire (env : Env) : Step env .acquire := by
  intro ints blobs kids ih bs rest fuel hwf hok henc hf
  simp only [Aml.enc, Option.map_eq_some_iff] at henc
  obtain ⟨p, hp, rfl⟩ := henc
  simp only [wf, Bool.and_eq_true, decide_eq_true_eq] at hwf
  obtain ⟨_, hpo, hi⟩ := hwf
  have hle : fromLE (leN 2 (ints.getD 0 0)) = ints.getD 0 0 := by
    rw [fromLE_leN]; exact Nat.mod_eq_of_lt (by omega)
  have hm : meaning (.node .acquire ints blobs kids) =
      .node (.op 0x5B23) [fromLE (leN 2 (ints.getD 0 0))] [] (.cons (nameOf (blobs.getD 0 [])) .nil) := by
    simp only [meaning, hle, TmList.ofList]
  rw [hm]
  have T := tfact_plain (env := env) (.ext 0x23 0x5B23 rfl) (ss := [.S, .W]) rfl (by decide)
    (.SG (SGFact.name (Or.inl rfl) (NFact.path hp hpo)) (.W (leN 2 (ints.getD 0 0)) (length_leN _ _) .nil))
  exact T.finish (by simp only [List.append_assoc, List.append_nil]) hf

theorem step_release (env : Env) : Step env .release := by
  intro ints blobs kids ih bs rest fuel hwf hok henc hf
  simp only [Aml.enc, Option.map_eq_some_iff] at henc
  obtain ⟨p, hp, rfl⟩ := henc
  simp only [wf, Bool.and_eq_true, decide_eq_true_eq] at hwf
  obtain ⟨_, hpo⟩ := hwf
  have hm : meaning (.node .release ints blobs kids) =
      .node (.op 0x5B27) [] [] (.cons (nameOf (blobs.getD 0 [])) .nil) := by
    simp only [meaning, TmList.ofList]
  rw [hm]
  have T := tfact_plain (env := env) (.ext 0x27 0x5B27 rfl) (ss := [.S]) rfl (by decide)
    (.SG (SGFact.name (Or.inl rfl) (NFact.path hp hpo)) .nil)
  exact T.finish (by simp only [List.append_assoc, List.append_nil]) hf

theorem step_opregion (env : Env) : Step env .opregion := by
  intro ints blobs kids ih bs rest fuel hwf hok henc hf
  simp only [Aml.enc, Option.bind_eq_bind, Option.bind_eq_some_iff, Option.some.injEq] at henc
  obtain ⟨p, hp, e0, h0, e1, h1, rfl⟩ := henc
  obtain ⟨a0, a1, r, rfl, h0, h1⟩ := kids2 h0 h1
  simp only [wf, wfs, AmlList.toList, List.getD_cons_zero, List.getD_cons_succ, Bool.and_eq_true,
    decide_eq_true_eq] at hwf
  obtain ⟨⟨hw0, hw1, _⟩, ⟨⟨hpo, hi⟩, hk0⟩, hk1⟩ := hwf
  obtain ⟨i0, i1, _⟩ := ih
  have hm : meaning (.node .opregion ints blobs (.cons a0 (.cons a1 r))) =
      .node (.op 0x5B80) [(UInt8.ofNat (ints.getD 0 0)).toNat] [] (.cons (nameOf (blobs.getD 0 []))
        (.cons (meaning a0) (.cons (meaning a1) .nil))) := by
    simp only [meaning, meanings, toNat_ofNat_lt _ hi, List.getD_cons_zero, List.getD_cons_succ, TmList.ofList]
  rw [hm]
  have T := tfact_plain (env := env) (.ext 0x80 0x5B80 rfl) (ss := [.N, .B, .T, .T]) rfl (by decide)
    (.N (NFact.path hp hpo) (.B (UInt8.ofNat (ints.getD 0 0))
      (.T (i0.tfact hw0 hk0 h0) (.T (i1.tfact hw1 hk1 h1) .nil))))
  exact T.finish (by simp only [List.append_assoc, List.append_nil, List.cons_append, List.nil_append]) hf

theorem step_name (env : Env) : Step env .name := by
  intro ints blobs kids ih bs rest fuel hwf hok henc hf
  simp only [Aml.enc, Option.bind_eq_bind, Option.bind_eq_some_iff, Option.some.injEq] at henc
  obtain ⟨p, hp, e0, h0, rfl⟩ := henc
  obtain ⟨a0, r, rfl, h0⟩ := kids1 h0
  simp only [wf, wfs, AmlList.toList, List.getD_cons_zero, Bool.and_eq_true] at hwf
  obtain ⟨⟨hw0, _⟩, hpo, hk0⟩ := hwf
  obtain ⟨i0, _⟩ := ih
  have hm : meaning (.node .name ints blobs (.cons a0 r)) =
      .node (.op (0x08 : UInt8).toNat) [] [] (.cons (nameOf (blobs.getD 0 [])) (.cons (meaning a0) .nil)) := by
    simp only [meaning, meanings, List.getD_cons_zero, TmList.ofList]; rfl
  rw [hm]
  have T := tfact_plain (env := env) (.plain 0x08 _ (by decide) (by decide) rfl) (ss := [.N, .T]) rfl (by decide)
    (.N (NFact.path hp hpo) (.T (i0.tfact hw0 hk0 h0) .nil))
  exact T.finish (by simp only [List.append_assoc, List.append_nil]) hf

end Acpi.Lemmas.AmlParse
