/-
  Helper lemmas for Acpi/Props/C11/Distinct.lean (C11: distinguishability of flag options,
  gating flags, order/repetition irrelevance):

    * reading a row of an entry's reference layout back from the model's bytes,
    * the arithmetic of a flag field written as a sum of distinct bits (`Sl`): bit `b` of the sum
      is set iff its summand is present — proved by exhaustive evaluation for each arity in use,
    * set-semantics facts about the spec-side queries (`has`, `lastVal`, `pushed`, the OR-fold of
      the PPTT cache attributes, the per-cell filters of the HMAT locality structure).
-/
import Acpi.Lemmas.Inst
import Acpi.Props.C11
namespace Acpi.C11
open Acpi Spec

/-! ### reading reference rows back from the model's bytes -/

/-- a numeric reference row of an entry is read back (modulo the field width) at its offset -/
theorem readAt_of_rowHolds_mod (raw : Bytes) (off w v : Nat) (h : rowHolds raw (.num off w v) = true) :
    readAt raw off w = some (v % 256 ^ w) := by
  simp only [rowHolds, Row.off, Row.width, Row.bytes, Bool.and_eq_true, beq_iff_eq] at h
  unfold readAt
  rw [if_pos (of_decide_eq_true h.1), h.2, fromLE_leN]

/-- every numeric row of the reference layout of an entry is read back from the model's bytes -/
theorem readAt_row (k : Kind) (c : EArgs) (opts : List Opt) (a : EArgs) (total : Nat) (rs : List Row)
    (off w v : Nat) (hk : k ≠ .ged) (hwf : entryWf k c opts = true) (hq : k = .qosctrl → C04.qosCtorWf c)
    (h : buildEntry k c opts = .ok a) (hr : rows k c opts = some (total, rs))
    (hm : Row.num off w v ∈ rs) (hv : v < 256 ^ w) : readAt (entryBytes k a) off w = some v :=
  Inst.readAt_of_rowHolds _ _ _ _
    (C04.decode_rows _ _ _ (Inst.conforms_of_entry k c opts a total rs hk hwf hq h hr) _ hm) hv

/-- … the same without a bound on the value: the field holds the value modulo its width -/
theorem readAt_row_mod (k : Kind) (c : EArgs) (opts : List Opt) (a : EArgs) (total : Nat) (rs : List Row)
    (off w v : Nat) (hk : k ≠ .ged) (hwf : entryWf k c opts = true) (hq : k = .qosctrl → C04.qosCtorWf c)
    (h : buildEntry k c opts = .ok a) (hr : rows k c opts = some (total, rs))
    (hm : Row.num off w v ∈ rs) : readAt (entryBytes k a) off w = some (v % 256 ^ w) :=
  readAt_of_rowHolds_mod _ _ _ _
    (C04.decode_rows _ _ _ (Inst.conforms_of_entry k c opts a total rs hk hwf hq h hr) _ hm)

/-! ### spec-side queries -/

theorem bit_le (opts : List Opt) (nm : String) (b : Nat) : bit opts nm b ≤ b := by
  unfold bit; split <;> omega

theorem bit_eq_ite (opts : List Opt) (nm : String) (b : Nat) :
    bit opts nm b = if has opts nm = true then b else 0 := rfl

theorem filter_name_eq_nil_of_not_has (opts : List Opt) (nm : String) (h : has opts nm = false) :
    opts.filter (fun o => decide (o.name = nm)) = [] := by
  unfold has at h
  rw [List.filter_eq_nil_iff]
  intro o ho
  have := (List.any_eq_false.mp h) o ho
  simpa using this

/-- an option that does not occur contributes the default value … -/
theorem lastVal_of_not_has (opts : List Opt) (nm : String) (i d : Nat) (h : has opts nm = false) :
    lastVal opts nm i d = d := by
  unfold lastVal lastOf
  rw [filter_name_eq_nil_of_not_has opts nm h]
  rfl

/-- … and pushes nothing -/
theorem pushed_of_not_has (opts : List Opt) (nm : String) (h : has opts nm = false) :
    pushed opts nm = [] := by
  unfold pushed
  rw [filter_name_eq_nil_of_not_has opts nm h]
  rfl

/-- an option occurs iff it pushed at least one value -/
theorem has_iff_pushed_ne_nil (opts : List Opt) (nm : String) :
    has opts nm = true ↔ pushed opts nm ≠ [] := by
  unfold has pushed
  simp [List.any_eq_true, List.filter_eq_nil_iff]

/-! ### a flag field as a sum of distinct bits -/

/-- sum of the bits `p.2` of the summands that are present (`p.1`) -/
def Sl (l : List (Bool × Nat)) : Nat := (l.map fun p => if p.1 = true then p.2 else 0).sum

/-- the flag field of the reference layout: the sum of the bits of the options of `l` present
    in the program -/
def flagSum (opts : List Opt) (l : List (String × Nat)) : Nat := (l.map fun p => bit opts p.1 p.2).sum

theorem flagSum_eq_Sl (opts : List Opt) (l : List (String × Nat)) :
    flagSum opts l = Sl (l.map fun p => (has opts p.1, p.2)) := by
  unfold flagSum Sl
  rw [List.map_map]
  rfl

theorem flagSum_le (opts : List Opt) (l : List (String × Nat)) :
    flagSum opts l ≤ (l.map (·.2)).sum := by
  unfold flagSum
  induction l with
  | nil => simp
  | cons p l ih =>
    simp only [List.map_cons, List.sum_cons]
    have := bit_le opts p.1 p.2
    omega

theorem mask1 : ∀ (x0 : Bool), ∀ p ∈ [(x0, 1)], (Sl [(x0, 1)] &&& p.2 = p.2 ↔ p.1 = true) := by
  decide

theorem mask2 : ∀ (x0 x1 : Bool), ∀ p ∈ [(x0, 1), (x1, 2)],
    (Sl [(x0, 1), (x1, 2)] &&& p.2 = p.2 ↔ p.1 = true) := by
  decide

theorem mask3 : ∀ (x0 x1 x2 : Bool), ∀ p ∈ [(x0, 1), (x1, 2), (x2, 4)],
    (Sl [(x0, 1), (x1, 2), (x2, 4)] &&& p.2 = p.2 ↔ p.1 = true) := by
  decide

theorem mask5 : ∀ (x0 x1 x2 x3 x4 : Bool), ∀ p ∈ [(x0, 1), (x1, 2), (x2, 4), (x3, 8), (x4, 16)],
    (Sl [(x0, 1), (x1, 2), (x2, 4), (x3, 8), (x4, 16)] &&& p.2 = p.2 ↔ p.1 = true) := by
  decide

theorem mask8 : ∀ (x0 x1 x2 x3 x4 x5 x6 x7 : Bool),
    ∀ p ∈ [(x0, 1), (x1, 2), (x2, 4), (x3, 8), (x4, 16), (x5, 32), (x6, 64), (x7, 128)],
    (Sl [(x0, 1), (x1, 2), (x2, 4), (x3, 8), (x4, 16), (x5, 32), (x6, 64), (x7, 128)] &&& p.2 = p.2 ↔
      p.1 = true) := by
  decide

/-- HMAT locality flags byte: data-type code (below 4… 16) in the low nibble, two flags above -/
theorem maskLoc : ∀ (n0 : Fin 16) (x0 x1 : Bool), ∀ p ∈ [(x0, 0x10), (x1, 0x20)],
    ((n0.val + Sl [(x0, 0x10), (x1, 0x20)]) &&& p.2 = p.2 ↔ p.1 = true) := by
  decide

/-! ### the OR-fold of the PPTT cache attributes depends only on the *set* of values -/

theorem testBit_foldl_or (f : Nat → Nat) (l : List Nat) (acc i : Nat) :
    (l.foldl (fun a v => a ||| f v) acc).testBit i = (acc.testBit i || l.any fun v => (f v).testBit i) := by
  induction l generalizing acc with
  | nil => simp
  | cons v l ih =>
    simp only [List.foldl_cons, List.any_cons]
    rw [ih, Nat.testBit_or, Bool.or_assoc]

theorem foldl_or_congr_set (f : Nat → Nat) (l l' : List Nat) (h : ∀ v, v ∈ l ↔ v ∈ l') :
    l.foldl (fun a v => a ||| f v) 0 = l'.foldl (fun a v => a ||| f v) 0 := by
  apply Nat.eq_of_testBit_eq
  intro i
  rw [testBit_foldl_or, testBit_foldl_or]
  congr 1
  rw [Bool.eq_iff_iff]
  simp only [List.any_eq_true]
  constructor
  · rintro ⟨v, hv, hb⟩; exact ⟨v, (h v).mp hv, hb⟩
  · rintro ⟨v, hv, hb⟩; exact ⟨v, (h v).mpr hv, hb⟩

/-! ### filters that ignore the calls of a given class -/

/-- a filter selecting only calls outside a class `q` sees the same calls after the class `q` has
    been removed from the program -/
theorem filter_of_filter_not (opts : List Opt) (p q : Opt → Bool) (h : ∀ o, p o = true → q o = false) :
    opts.filter p = (opts.filter (fun o => !q o)).filter p := by
  rw [List.filter_filter]
  congr 1
  funext o
  cases hp : p o with
  | false => simp
  | true => simp [h o hp]

end Acpi.C11
