/-
  Lemmas for C13: the pointwise overwrite `put`, the checksum fix-up, and the one-step
  correspondence between the model (Acpi/Sdt.lean) and the reference machine
  (Acpi/Spec/Sdt.lean).
-/
import Acpi.Sdt
import Acpi.Spec.Sdt
import Acpi.Lemmas.Basic
import Acpi.Lemmas.Sink
namespace Acpi
namespace Sdt
open Spec.Sdt (put fixSum)

/-! ### `put` -/

@[simp] theorem length_put (v : Bytes) (off : Nat) (bs : Bytes) : (put v off bs).length = v.length := by
  simp [put]

theorem getElem?_put (v : Bytes) (off : Nat) (bs : Bytes) (i : Nat) :
    (put v off bs)[i]? =
      if off ≤ i ∧ i < off + bs.length ∧ i < v.length then bs[i - off]? else v[i]? := by
  unfold put
  rw [List.getElem?_mapIdx]
  by_cases hi : i < v.length
  · rw [List.getElem?_eq_getElem hi]
    simp only [Option.map_some, hi, and_true]
    by_cases ho : off ≤ i
    · simp only [ho, if_true, true_and]
      by_cases hb : i - off < bs.length
      · have : i < off + bs.length := by omega
        simp [this, List.getD_eq_getElem?_getD, List.getElem?_eq_getElem hb]
      · have : ¬ i < off + bs.length := by omega
        simp only [this, if_false]
        have : bs[i - off]? = none := List.getElem?_eq_none (by omega)
        simp [List.getD_eq_getElem?_getD, this]
    · simp [ho]
  · have : v[i]? = none := List.getElem?_eq_none (by omega)
    simp [hi]

theorem getElem?_patch (img : Bytes) (off : Nat) (bs : Bytes) (h : off + bs.length ≤ img.length)
    (i : Nat) :
    (patch img off bs)[i]? =
      if off ≤ i ∧ i < off + bs.length ∧ i < img.length then bs[i - off]? else img[i]? := by
  unfold patch
  rw [List.append_assoc, List.getElem?_append]
  have hl : (List.take off img).length = off := by simp; omega
  rw [hl]
  by_cases h1 : i < off
  · have : ¬ off ≤ i := by omega
    simp [h1, this]
  · rw [if_neg h1, List.getElem?_append]
    by_cases h2 : i - off < bs.length
    · have h3 : i < off + bs.length := by omega
      have h4 : off ≤ i := by omega
      have h5 : i < img.length := by omega
      simp [h2, h3, h4, h5]
    · have h3 : ¬ i < off + bs.length := by omega
      simp only [h2, h3, if_false, false_and, and_false, List.getElem?_drop]
      congr 1; omega

/-- in range, the model's slice copy is the pointwise overwrite -/
theorem patch_eq_put (img : Bytes) (off : Nat) (bs : Bytes) (h : off + bs.length ≤ img.length) :
    patch img off bs = put img off bs := by
  apply List.ext_getElem?
  intro i
  rw [getElem?_patch _ _ _ h, getElem?_put]

theorem set_eq_put (l : Bytes) (i : Nat) (x : UInt8) : l.set i x = put l i [x] := by
  apply List.ext_getElem?
  intro j
  rw [getElem?_put, List.getElem?_set]
  by_cases h : i = j
  · subst h
    by_cases h2 : i < l.length
    · simp [h2]
    · simp [h2]
  · simp only [h, if_false, List.length_cons, List.length_nil]
    have : ¬ (i ≤ j ∧ j < i + (0 + 1) ∧ j < l.length) := by omega
    simp [this]

theorem put_nil (v : Bytes) (off : Nat) : put v off [] = v := by
  apply List.ext_getElem?
  intro i
  rw [getElem?_put]
  have : ¬ (off ≤ i ∧ i < off + ([] : Bytes).length ∧ i < v.length) := by simp; omega
  rw [if_neg this]

theorem put_append (v : Bytes) (off : Nat) (bs w : Bytes) (h : off + bs.length ≤ v.length) :
    put v off bs ++ w = put (v ++ w) off bs := by
  apply List.ext_getElem?
  intro i
  rw [getElem?_put, List.getElem?_append, List.getElem?_append, getElem?_put, length_put,
    List.length_append]
  by_cases hi : i < v.length
  · have : i < v.length + w.length := by omega
    simp [hi, this]
  · have h1 : ¬ (off ≤ i ∧ i < off + bs.length ∧ i < v.length + w.length) := by omega
    simp [hi, h1]

/-- a later overwrite of the same range wins -/
theorem put_put_same (v : Bytes) (off : Nat) (a b : Bytes) (h : a.length = b.length) :
    put (put v off a) off b = put v off b := by
  apply List.ext_getElem?
  intro i
  rw [getElem?_put, getElem?_put, getElem?_put, length_put, h]
  split <;> simp_all

/-- overwrites of disjoint ranges commute -/
theorem put_comm (v : Bytes) (o1 o2 : Nat) (a b : Bytes)
    (h : o1 + a.length ≤ o2 ∨ o2 + b.length ≤ o1) :
    put (put v o1 a) o2 b = put (put v o2 b) o1 a := by
  apply List.ext_getElem?
  intro i
  simp only [getElem?_put, length_put]
  by_cases h1 : o1 ≤ i ∧ i < o1 + a.length ∧ i < v.length
  · have h2 : ¬ (o2 ≤ i ∧ i < o2 + b.length ∧ i < v.length) := by omega
    rw [if_neg h2, if_pos h1, if_pos h1]
  · rw [if_neg h1, if_neg h1]

/-- appending to a vector whose range `[off, off+|a|)` was overwritten, then overwriting
    that range again: the first overwrite is forgotten -/
theorem put_append_put (v w : Bytes) (off : Nat) (a b : Bytes) (h : a.length = b.length) :
    put (put v off a ++ w) off b = put (v ++ w) off b := by
  apply List.ext_getElem?
  intro i
  simp only [getElem?_put, List.getElem?_append, length_put, List.length_append, h]
  by_cases h1 : off ≤ i ∧ i < off + b.length ∧ i < v.length + w.length
  · simp [h1]
  · simp only [h1, if_false]
    by_cases h2 : i < v.length
    · have : ¬ (off ≤ i ∧ i < off + b.length ∧ i < v.length) := by omega
      rw [if_pos h2, if_pos h2, if_neg this]
    · rw [if_neg h2, if_neg h2]

/-! ### sums -/

theorem sum8_put_one (v : Bytes) (i : Nat) (x : UInt8) (h : i < v.length) :
    sum8 (put v i [x]) + v[i] = sum8 v + x := by
  rw [← set_eq_put]
  induction v generalizing i with
  | nil => simp at h
  | cons y ys ih =>
    cases i with
    | zero => simp; grind
    | succ i =>
      simp only [List.length_cons, Nat.add_lt_add_iff_right] at h
      have := ih i h
      simp only [List.set_cons_succ, sum8_cons, List.getElem_cons_succ]
      grind

theorem getElem_put_self (v : Bytes) (i : Nat) (x : UInt8) (h : i < v.length) :
    (put v i [x])[i]'(by simpa using h) = x := by
  have := getElem?_put v i [x] i
  simpa [h] using this

/-- **the fix-up works**: with byte 9 present, the fixed image sums to 0 -/
theorem sum8_fixSum (v : Bytes) (h : 9 < v.length) : sum8 (fixSum v) = 0 := by
  unfold fixSum
  have hz : 9 < (put v 9 [0]).length := by simpa using h
  have h1 := sum8_put_one (put v 9 [0]) 9 (0 - sum8 (put v 9 [0])) hz
  rw [getElem_put_self v 9 0 h] at h1
  simp only at h1 ⊢
  grind

@[simp] theorem length_fixSum (v : Bytes) : (fixSum v).length = v.length := by
  simp [fixSum]

/-- the fix-up forgets whatever byte 9 held -/
theorem fixSum_put9 (v : Bytes) (c : UInt8) : fixSum (put v 9 [c]) = fixSum v := by
  unfold fixSum
  simp only [put_put_same _ _ [c] [0] rfl]

theorem fixSum_eq_put (v : Bytes) : fixSum v = put v 9 [0 - sum8 (put v 9 [0])] := by
  show put (put v 9 [0]) 9 [0 - sum8 (put v 9 [0])] = _
  exact put_put_same _ _ _ _ rfl

theorem fixSum_idem (v : Bytes) : fixSum (fixSum v) = fixSum v := by
  conv => lhs; rw [fixSum_eq_put v, fixSum_put9]


/-! ### the model's functions in terms of `put` / `fixSum` -/

theorem genChecksum_eq (bs : Bytes) : genChecksum bs = 0 - sum8 bs := by
  unfold genChecksum
  grind

theorem updateChecksum_data (s : Sdt) : (updateChecksum s).data = fixSum s.data := by
  unfold updateChecksum fixSum
  simp only [set_eq_put, genChecksum_eq]

theorem updateChecksum_eq (s : Sdt) : updateChecksum s = ⟨fixSum s.data⟩ := by
  show (⟨(updateChecksum s).data⟩ : Sdt) = _
  rw [updateChecksum_data]

theorem writeBytes_eq (s : Sdt) (off : Nat) (bs : Bytes) (h : off + bs.length ≤ s.data.length) :
    s.writeBytes off bs = some ⟨fixSum (put s.data off bs)⟩ := by
  unfold writeBytes
  rw [if_pos h]
  rw [updateChecksum_eq, patch_eq_put _ _ _ h]

theorem writeBytes_none (s : Sdt) (off : Nat) (bs : Bytes) (h : s.data.length < off + bs.length) :
    s.writeBytes off bs = none := by
  unfold writeBytes
  rw [if_neg (by omega)]

theorem resize_ge (d : Bytes) (n : Nat) (h : d.length ≤ n) :
    resize d n = d ++ zeros (n - d.length) := by
  unfold resize
  rw [List.take_of_length_le h]

theorem leN_mod (w n : Nat) : leN w (n % 256 ^ w) = leN w n := by
  induction w generalizing n with
  | zero => rfl
  | succ w ih =>
    simp only [leN]
    have h1 : n % 256 ^ (w + 1) % 256 = n % 256 := by
      rw [Nat.pow_succ, Nat.mul_comm]
      exact Nat.mod_mul_right_mod n 256 (256 ^ w)
    have h2 : n % 256 ^ (w + 1) / 256 = (n / 256) % 256 ^ w := by
      rw [Nat.pow_succ, Nat.mul_comm, Nat.mod_mul_right_div_self]
    rw [h1, h2, ih]

/-- `new_length as u32`, little-endian, is the low 32 bits of the length -/
theorem u32le_ofNat (n : Nat) : u32le (UInt32.ofNat n) = leN 4 n := by
  rw [u32le_eq_leN]
  have : (UInt32.ofNat n).toNat = n % 256 ^ 4 := by simp [UInt32.toNat_ofNat']
  rw [this, leN_mod]

theorem put_append_right (d w v : Bytes) (h : w.length = v.length) :
    put (d ++ w) d.length v = d ++ v := by
  apply List.ext_getElem?
  intro i
  simp only [getElem?_put, List.getElem?_append, List.length_append]
  by_cases h1 : i < d.length
  · have : ¬ (d.length ≤ i ∧ i < d.length + v.length ∧ i < d.length + w.length) := by omega
    rw [if_neg this, if_pos h1, if_pos h1]
  · rw [if_neg h1, if_neg h1]
    by_cases h2 : i < d.length + v.length
    · have : d.length ≤ i ∧ i < d.length + v.length ∧ i < d.length + w.length := by omega
      rw [if_pos this]
    · have : ¬ (d.length ≤ i ∧ i < d.length + v.length ∧ i < d.length + w.length) := by omega
      rw [if_neg this, List.getElem?_eq_none (by omega), List.getElem?_eq_none (by omega)]

@[simp] theorem length_spec_append (d v : Bytes) :
    (Spec.Sdt.append d v).length = d.length + v.length := by
  simp [Spec.Sdt.append]

/-- `append<T>`: two writes, two checksum updates = the reference machine's one append -/
theorem appendT_eq (s : Sdt) (v : Bytes) (h : 10 ≤ s.data.length) :
    s.appendT v = some ⟨Spec.Sdt.append s.data v⟩ := by
  unfold appendT
  have hr : resize s.data (s.data.length + v.length) = s.data ++ zeros v.length := by
    rw [resize_ge _ _ (by omega)]; congr 2; omega
  simp only [hr, u32le_ofNat]
  rw [writeBytes_eq _ _ _ (by simp; omega)]
  simp only [Option.bind_eq_bind, Option.bind_some]
  rw [writeBytes_eq _ _ _ (by simp)]
  congr 2
  unfold Spec.Sdt.append
  rw [fixSum_eq_put (put (s.data ++ zeros v.length) 4 _),
    put_comm _ 9 s.data.length _ v (Or.inl (by simp; omega)), fixSum_put9,
    put_comm _ 4 s.data.length _ v (Or.inl (by simp; omega)),
    put_append_right _ _ _ (by simp)]


/-- `append_slice`: length written into the old data, extend, checksum = one append -/
theorem appendSlice_eq (s : Sdt) (bs : Bytes) (h : 10 ≤ s.data.length) :
    s.appendSlice bs = some ⟨Spec.Sdt.append s.data bs⟩ := by
  unfold appendSlice
  simp only [u32le_ofNat]
  rw [writeBytes_eq _ _ _ (by simp; omega)]
  simp only [Option.bind_eq_bind, Option.bind_some, updateChecksum_eq]
  congr 2
  unfold Spec.Sdt.append
  rw [fixSum_eq_put (put s.data 4 _), put_append _ 9 _ bs (by simp; omega), fixSum_put9,
    put_append _ 4 _ bs (by simp; omega)]

/-! ### only the concatenation matters -/

theorem append_aux (d x y L1 L2 : Bytes) (h : 10 ≤ d.length) (h1 : L1.length = 4)
    (h2 : L2.length = 4) :
    fixSum (put (fixSum (put (d ++ x) 4 L1) ++ y) 4 L2) = fixSum (put (d ++ (x ++ y)) 4 L2) := by
  rw [fixSum_eq_put (put (d ++ x) 4 L1), put_append _ 9 _ y (by simp; omega),
    put_comm _ 9 4 _ _ (Or.inr (by simp [h2])), fixSum_put9,
    put_append_put _ _ _ _ _ (by rw [h1, h2]), List.append_assoc]

theorem spec_append_append (d x y : Bytes) (h : 10 ≤ d.length) :
    Spec.Sdt.append (Spec.Sdt.append d x) y = Spec.Sdt.append d (x ++ y) := by
  have hl : (Spec.Sdt.append d x).length + y.length = d.length + (x ++ y).length := by
    simp; omega
  rw [Spec.Sdt.append.eq_def (Spec.Sdt.append d x) y, hl, Spec.Sdt.append.eq_def d x,
    Spec.Sdt.append.eq_def d (x ++ y)]
  exact append_aux d x y _ _ h (by simp) (by simp)

@[simp] theorem length_push (d x : Bytes) : (Spec.Sdt.push d x).length = d.length + x.length := by
  unfold Spec.Sdt.push
  split
  · next h => simp [h]
  · simp

theorem push_push (d x y : Bytes) (h : 10 ≤ d.length) :
    Spec.Sdt.push (Spec.Sdt.push d x) y = Spec.Sdt.push d (x ++ y) := by
  unfold Spec.Sdt.push
  by_cases hx : x = []
  · subst hx; simp
  · by_cases hy : y = []
    · subst hy; simp [hx]
    · have : x ++ y ≠ [] := by simp [hx]
      rw [if_neg hx, if_neg hy, if_neg this, spec_append_append _ _ _ h]

theorem foldl_sinkByte_none (v : Bytes) : v.foldl sinkByte none = none := by
  induction v with
  | nil => rfl
  | cons b v ih => simpa [sinkByte] using ih

/-- per-byte appends through the sink = one push of all the bytes -/
theorem foldl_sinkByte (v : Bytes) (s : Sdt) (h : 10 ≤ s.data.length) :
    v.foldl sinkByte (some s) = some ⟨Spec.Sdt.push s.data v⟩ := by
  induction v generalizing s with
  | nil => simp [Spec.Sdt.push]
  | cons b v ih =>
    simp only [List.foldl_cons, sinkByte, Option.bind_some]
    rw [appendT_eq _ _ h]
    have := ih ⟨Spec.Sdt.append s.data [b]⟩ (by simp; omega)
    rw [this]
    have h1 : Spec.Sdt.append s.data [b] = Spec.Sdt.push s.data [b] := by simp [Spec.Sdt.push]
    rw [h1, push_push _ _ _ h]
    rfl

theorem sink_feed1 (s : Sdt) (c : SinkCall) (h : 10 ≤ s.data.length) :
    Sdt.sink.feed1 (some s) c = some ⟨Spec.Sdt.push s.data c.bytes⟩ := by
  cases c <;> simp only [Sink.feed1, Sdt.sink, Sink.ofByte, SinkCall.bytes] <;>
    first
      | exact foldl_sinkByte _ s h
      | exact foldl_sinkByte [_] s h

theorem sink_feed (cs : List SinkCall) (s : Sdt) (h : 10 ≤ s.data.length) :
    Sdt.sink.feed (some s) cs = some ⟨Spec.Sdt.push s.data (flatten cs)⟩ := by
  induction cs generalizing s with
  | nil => simp [Sink.feed, flatten, Spec.Sdt.push]
  | cons c cs ih =>
    simp only [Sink.feed, List.foldl_cons] at ih ⊢
    rw [sink_feed1 _ _ h, ih _ (by simp; omega), push_push _ _ _ h]
    simp [flatten]


/-! ### creation -/

theorem put_zero_full (w v : Bytes) (h : w.length = v.length) : put w 0 v = v := by
  have := put_append_right [] w v h
  simpa using this

theorem new_eq (sig : Bytes) (length : UInt32) (rev : UInt8) (oemId oemTable : Bytes)
    (oemRev : UInt32) (hs : sig.length = 4) (hi : oemId.length = 6) (ht : oemTable.length = 8) :
    (Sdt.new sig length rev oemId oemTable oemRev).map Sdt.data
      = Spec.Sdt.create sig length.toNat rev oemId oemTable oemRev.toNat := by
  unfold Sdt.new Spec.Sdt.create
  have hlt : length < 36 ↔ length.toNat < 36 := by
    rw [UInt32.lt_iff_toNat_lt]; rfl
  by_cases h : length.toNat < 36
  · rw [if_pos (hlt.mpr h), if_pos h]; rfl
  · rw [if_neg (fun x => h (hlt.mp x)), if_neg h]
    have hH : sig ++ u32le length ++ [rev] ++ [0] ++ oemId ++ oemTable ++ u32le oemRev
          ++ creatorId ++ creatorRev
        = sig ++ leN 4 length.toNat ++ [rev, 0] ++ oemId ++ oemTable ++ leN 4 oemRev.toNat
          ++ [0x52, 0x56, 0x41, 0x54] ++ [0, 0, 0, 1] := by
      simp [u32le_eq_leN, creatorId, creatorRev]
    simp only [hH]
    generalize hHd : sig ++ leN 4 length.toNat ++ [rev, 0] ++ oemId ++ oemTable
      ++ leN 4 oemRev.toNat ++ [0x52, 0x56, 0x41, 0x54] ++ [0, 0, 0, 1] = H
    have hlen : H.length = 36 := by
      rw [← hHd]; simp [hs, hi, ht]
    rw [if_neg (by simp [hlen])]
    simp only [Option.map_some, updateChecksum_data]
    congr 2
    rw [resize_ge _ _ (by omega), hlen]
    have hrep : List.replicate length.toNat (0 : UInt8)
        = List.replicate 36 0 ++ zeros (length.toNat - 36) := by
      unfold zeros
      rw [List.replicate_append_replicate]; congr 1; omega
    rw [hrep, ← put_append _ 0 H _ (by simp [hlen]), put_zero_full _ _ (by simp [hlen])]

/-! ### the Length field -/

theorem drop4_take4 (X L : Bytes) (h : 10 ≤ X.length) (hL : L.length = 4) :
    ((fixSum (put X 4 L)).drop 4).take 4 = L := by
  apply List.ext_getElem?
  intro i
  rw [List.getElem?_take, List.getElem?_drop, fixSum_eq_put]
  simp only [getElem?_put, length_put, List.length_cons, List.length_nil]
  by_cases hi : i < 4
  · have h1 : ¬ (9 ≤ 4 + i ∧ 4 + i < 9 + (0 + 1) ∧ 4 + i < X.length) := by omega
    have h2 : 4 ≤ 4 + i ∧ 4 + i < 4 + L.length ∧ 4 + i < X.length := by omega
    rw [if_pos hi, if_neg h1, if_pos h2]
    congr 1; omega
  · rw [if_neg hi, List.getElem?_eq_none (by omega)]

theorem readAt_spec_append (d v : Bytes) (h : 10 ≤ d.length)
    (hlt : d.length + v.length < 2 ^ 32) :
    readAt (Spec.Sdt.append d v) 4 4 = some (d.length + v.length) := by
  unfold readAt
  rw [if_pos (by simp; omega)]
  unfold Spec.Sdt.append
  rw [drop4_take4 _ _ (by simp; omega) (by simp), fromLE_leN]
  congr 1
  exact Nat.mod_eq_of_lt hlt

/-- with a zero sum already, the fix-up changes nothing -/
theorem fixSum_of_sum_zero (v : Bytes) (h : 9 < v.length) (hs : sum8 v = 0) : fixSum v = v := by
  rw [fixSum_eq_put]
  have h1 := sum8_put_one v 9 0 h
  have hc : (0 : UInt8) - sum8 (put v 9 [0]) = v[9] := by grind
  rw [hc]
  apply List.ext_getElem?
  intro i
  rw [getElem?_put]
  by_cases hi : i = 9
  · subst hi; simp [h]
  · have : ¬ (9 ≤ i ∧ i < 9 + [v[9]].length ∧ i < v.length) := by simp; omega
    rw [if_neg this]


/-! ### outside the managed positions the table is a plain vector -/

open Spec.Sdt (agree) in
theorem agree_refl (a : Bytes) : agree a a := ⟨rfl, fun _ _ => rfl⟩

open Spec.Sdt (agree) in
theorem agree_trans {a b c : Bytes} (h1 : agree a b) (h2 : agree b c) : agree a c :=
  ⟨h1.1.trans h2.1, fun i hi => (h1.2 i hi).trans (h2.2 i hi)⟩

open Spec.Sdt (agree) in
theorem agree_fixSum (a : Bytes) : agree (fixSum a) a := by
  refine ⟨by simp, fun i hi => ?_⟩
  rw [fixSum_eq_put, getElem?_put]
  have : ¬ (9 ≤ i ∧ i < 9 + [0 - sum8 (put a 9 [0])].length ∧ i < a.length) := by
    simp only [List.length_cons, List.length_nil]; omega
  rw [if_neg this]

open Spec.Sdt (agree) in
theorem agree_put4 (a L : Bytes) (hL : L.length = 4) : agree (put a 4 L) a := by
  refine ⟨by simp, fun i hi => ?_⟩
  rw [getElem?_put]
  have : ¬ (4 ≤ i ∧ i < 4 + L.length ∧ i < a.length) := by omega
  rw [if_neg this]

open Spec.Sdt (agree) in
theorem agree_append {a b : Bytes} (h : agree a b) (w : Bytes) : agree (a ++ w) (b ++ w) := by
  refine ⟨by simp [h.1], fun i hi => ?_⟩
  rw [List.getElem?_append, List.getElem?_append, h.1, h.2 i hi]

open Spec.Sdt (agree) in
theorem agree_put {a b : Bytes} (h : agree a b) (off : Nat) (bs : Bytes) :
    agree (put a off bs) (put b off bs) := by
  refine ⟨by simp [h.1], fun i hi => ?_⟩
  rw [getElem?_put, getElem?_put, h.1, h.2 i hi]

open Spec.Sdt (agree) in
theorem agree_spec_append {a b : Bytes} (h : agree a b) (w : Bytes) :
    agree (Spec.Sdt.append a w) (b ++ w) := by
  unfold Spec.Sdt.append
  exact agree_trans (agree_fixSum _) (agree_trans (agree_put4 _ _ (by simp)) (agree_append h w))

open Spec.Sdt (agree) in
/-- one step: same refusal, and agreement is preserved -/
theorem agree_step {v p : Bytes} (h : agree v p) (a : Spec.Sdt.Act) :
    (Spec.Sdt.step v a = none ∧ Spec.Sdt.plainStep p a = none)
    ∨ ∃ v' p', Spec.Sdt.step v a = some v' ∧ Spec.Sdt.plainStep p a = some p' ∧ agree v' p' := by
  cases a with
  | append bs => exact Or.inr ⟨_, _, rfl, rfl, agree_spec_append h bs⟩
  | touch => exact Or.inr ⟨_, _, rfl, rfl, agree_trans (agree_fixSum _) h⟩
  | push bs =>
    refine Or.inr ⟨_, _, rfl, rfl, ?_⟩
    unfold Spec.Sdt.push
    split
    · next hb => subst hb; simpa using h
    · exact agree_spec_append h bs
  | write off bs =>
    simp only [Spec.Sdt.step, Spec.Sdt.plainStep, h.1]
    split
    · exact Or.inr ⟨_, _, rfl, rfl, agree_trans (agree_fixSum _) (agree_put h off bs)⟩
    · exact Or.inl ⟨rfl, rfl⟩

open Spec.Sdt (agree) in
theorem agree_run {v p : Bytes} (h : agree v p) (acts : List Spec.Sdt.Act) :
    agree (Spec.Sdt.run v acts) (Spec.Sdt.plainRun p acts) := by
  induction acts generalizing v p with
  | nil => exact h
  | cons a acts ih =>
    simp only [Spec.Sdt.run, Spec.Sdt.plainRun, List.foldl_cons] at ih ⊢
    apply ih
    rcases agree_step h a with ⟨h1, h2⟩ | ⟨v', p', h1, h2, h3⟩
    · rw [h1, h2]; exact h
    · rw [h1, h2]; exact h3

end Sdt
end Acpi
