/-
  Acpi.Lemmas.AmlLeaf — parser lemmas for the leaves (integers, strings, locals, args, names)
  and the bridge between the model's `pathEnc` and the spec's `pathOf` / `NameString.decode`.
-/
import Acpi.Lemmas.AmlParse
import Acpi.Spec.AmlWf
import Acpi.Props.C08
import Acpi.Props.C09
namespace Acpi.Lemmas.AmlParse
open Acpi Spec Spec.Aml

theorem parseTerm_int (env : Env) (fuel : Nat) (b : UInt8) (bs r : Bytes) (v : Nat)
    (hb : b = 0x00 ∨ b = 0x01 ∨ b = 0x0A ∨ b = 0x0B ∨ b = 0x0C ∨ b = 0x0E)
    (hd : Int.decode (b :: bs) = some (v, r)) :
    parseTerm env (fuel + 1) (b :: bs) = some (intTm v, r) := by
  rw [parseTerm.eq_3]
  simp only [if_pos hb, hd, Option.map_some, intTm]

theorem intEnc_head (n : Nat) : ∃ b t, Int.enc n = b :: t ∧
    (b = 0x00 ∨ b = 0x01 ∨ b = 0x0A ∨ b = 0x0B ∨ b = 0x0C ∨ b = 0x0E) := by
  unfold Int.enc
  (repeat' split) <;> exact ⟨_, _, rfl, by decide⟩

theorem parseTerm_intEnc (env : Env) (fuel n : Nat) (rest : Bytes) (h : n < 2 ^ 64) :
    parseTerm env (fuel + 1) (Int.enc n ++ rest) = some (intTm n, rest) := by
  obtain ⟨b, t, he, hb⟩ := intEnc_head n
  have hd := C08.decode_enc n rest h
  rw [he] at hd ⊢
  exact parseTerm_int env fuel b (t ++ rest) rest n hb hd

theorem takeString_app (s rest : Bytes) (h : (0 : UInt8) ∉ s) :
    takeString (s ++ 0 :: rest) = some (s, rest) := by
  induction s with
  | nil => simp [takeString]
  | cons a s ih =>
    have ha : a ≠ 0 := fun e => h (by simp [e])
    have hs : (0 : UInt8) ∉ s := fun e => h (by simp [e])
    simp only [List.cons_append, takeString, if_neg ha, ih hs, Option.map_some]

theorem parseTerm_str (env : Env) (fuel : Nat) (s rest : Bytes) (h : (0 : UInt8) ∉ s) :
    parseTerm env (fuel + 1) (0x0D :: (s ++ 0 :: rest)) = some (.node .str [] [s] .nil, rest) := by
  rw [parseTerm.eq_3]
  have h1 : ¬ ((0x0D : UInt8) = 0x00 ∨ (0x0D : UInt8) = 0x01 ∨ (0x0D : UInt8) = 0x0A ∨ (0x0D : UInt8) = 0x0B ∨
    (0x0D : UInt8) = 0x0C ∨ (0x0D : UInt8) = 0x0E) := by decide
  simp only [if_neg h1, if_true, takeString_app s rest h, Option.map_some]

theorem parseTerm_local (env : Env) (fuel n : Nat) (rest : Bytes) (h : n ≤ 7) :
    parseTerm env (fuel + 1) (UInt8.ofNat (0x60 + n) :: rest) = some (.node .local_ [n] [] .nil, rest) := by
  rw [parseTerm.eq_3]
  have h1 : ¬ (UInt8.ofNat (0x60 + n) = 0x00 ∨ UInt8.ofNat (0x60 + n) = 0x01 ∨ UInt8.ofNat (0x60 + n) = 0x0A ∨
      UInt8.ofNat (0x60 + n) = 0x0B ∨ UInt8.ofNat (0x60 + n) = 0x0C ∨ UInt8.ofNat (0x60 + n) = 0x0E) := by
    simp only [← UInt8.toNat_inj, UInt8.toNat_ofNat', UInt8.toNat_ofNat]; omega
  have h2 : ¬ UInt8.ofNat (0x60 + n) = 0x0D := by
    simp only [← UInt8.toNat_inj, UInt8.toNat_ofNat', UInt8.toNat_ofNat]; omega
  have h3 : 0x60 ≤ UInt8.ofNat (0x60 + n) ∧ UInt8.ofNat (0x60 + n) ≤ 0x67 := by
    simp only [UInt8.le_iff_toNat_le, UInt8.toNat_ofNat', UInt8.toNat_ofNat]; omega
  have h4 : (UInt8.ofNat (0x60 + n)).toNat - 0x60 = n := by
    simp only [UInt8.toNat_ofNat']; omega
  simp only [if_neg h1, if_neg h2, if_pos h3, h4]

theorem parseTerm_arg (env : Env) (fuel n : Nat) (rest : Bytes) (h : n ≤ 6) :
    parseTerm env (fuel + 1) (UInt8.ofNat (0x68 + n) :: rest) = some (.node .arg [n] [] .nil, rest) := by
  rw [parseTerm.eq_3]
  have h1 : ¬ (UInt8.ofNat (0x68 + n) = 0x00 ∨ UInt8.ofNat (0x68 + n) = 0x01 ∨ UInt8.ofNat (0x68 + n) = 0x0A ∨
      UInt8.ofNat (0x68 + n) = 0x0B ∨ UInt8.ofNat (0x68 + n) = 0x0C ∨ UInt8.ofNat (0x68 + n) = 0x0E) := by
    simp only [← UInt8.toNat_inj, UInt8.toNat_ofNat', UInt8.toNat_ofNat]; omega
  have h2 : ¬ UInt8.ofNat (0x68 + n) = 0x0D := by
    simp only [← UInt8.toNat_inj, UInt8.toNat_ofNat', UInt8.toNat_ofNat]; omega
  have h3 : ¬ (0x60 ≤ UInt8.ofNat (0x68 + n) ∧ UInt8.ofNat (0x68 + n) ≤ 0x67) := by
    simp only [UInt8.le_iff_toNat_le, UInt8.toNat_ofNat', UInt8.toNat_ofNat]; omega
  have h3' : 0x68 ≤ UInt8.ofNat (0x68 + n) ∧ UInt8.ofNat (0x68 + n) ≤ 0x6E := by
    simp only [UInt8.le_iff_toNat_le, UInt8.toNat_ofNat', UInt8.toNat_ofNat]; omega
  have h4 : (UInt8.ofNat (0x68 + n)).toNat - 0x68 = n := by
    simp only [UInt8.toNat_ofNat']; omega
  simp only [if_neg h1, if_neg h2, if_neg h3, if_pos h3', h4]

theorem lead_classes (b : UInt8) (hb : isNameLead b = true) :
    ¬ (b = 0x00 ∨ b = 0x01 ∨ b = 0x0A ∨ b = 0x0B ∨ b = 0x0C ∨ b = 0x0E) ∧ ¬ b = 0x0D ∧
    ¬ (0x60 ≤ b ∧ b ≤ 0x67) ∧ ¬ (0x68 ≤ b ∧ b ≤ 0x6E) := by
  simp only [isNameLead, NameString.isLead, UInt8.le_iff_toNat_le, ← UInt8.toNat_inj, Bool.or_eq_true,
    Bool.and_eq_true, decide_eq_true_eq] at hb ⊢
  simp only [UInt8.toNat_ofNat] at hb ⊢
  omega

theorem parseTerm_name (env : Env) (fuel : Nat) (b : UInt8) (bs rest rest' : Bytes) (rt : Bool)
    (segs : List Bytes) (args : TmList) (hb : isNameLead b = true)
    (hn : NameString.decode (b :: bs) = some (rt, segs, rest))
    (ha : parseTerms env fuel (env.arity rt segs) rest = some (args, rest')) :
    parseTerm env (fuel + 1) (b :: bs) = some (mkName rt segs args, rest') := by
  obtain ⟨h1, h2, h3, h4⟩ := lead_classes b hb
  rw [parseTerm.eq_3]
  simp only [if_neg h1, if_neg h2, if_neg h3, if_neg h4, hb, if_true, hn, ha, Option.map_some]


/-! ### paths -/

theorem pathOf_eq (s : Bytes) : pathOf s = (Path.isRooted s, splitDot (Path.body s)) := by
  have hf : ∀ l : Bytes, l.foldr (fun (b : UInt8) (acc : List Bytes) => if b = 0x2E then [] :: acc else
      match acc with
      | p :: ps => (b :: p) :: ps
      | [] => [[b]]) [[]] = splitDot l := by
    intro l
    induction l with
    | nil => rfl
    | cons b l ih =>
      simp only [List.foldr_cons, ih, splitDot]
      split
      · rfl
      · split <;> rename_i h <;> simp only [h]
  unfold pathOf Path.body Path.isRooted
  by_cases h : s.head? = some 0x5C
  · simp [h]; exact hf _
  · simp [h]; exact hf _

theorem path_head (P : Path) (h1 : 1 ≤ P.parts.length) (hs : ∀ q ∈ P.parts, NameString.isSeg q = true) :
    ∃ b t, P.enc = b :: t ∧ isNameLead b = true := by
  unfold Path.enc
  cases P.root
  · simp only [Bool.false_eq_true, if_false, List.nil_append]
    match hp : P.parts, h1, hs with
    | [q], _, hs =>
      obtain ⟨a, t, rfl, ha⟩ := C09.lead_of_seg q (hs q (by simp))
      refine ⟨a, t, by simp [namePrefix], ?_⟩
      simp [isNameLead, ha]
    | [q1, q2], _, _ => exact ⟨0x2E, _, rfl, by decide⟩
    | q1 :: q2 :: q3 :: qs, _, _ => exact ⟨0x2F, _, rfl, by decide⟩
  · exact ⟨0x5C, _, rfl, by decide⟩

theorem pathEnc_decode (s p rest : Bytes) (hp : pathEnc s = some p) (hok : pathOk s = true) :
    NameString.decode (p ++ rest) = some ((pathOf s).1, (pathOf s).2, rest) ∧
    ∃ b t, p = b :: t ∧ isNameLead b = true := by
  unfold pathEnc at hp
  cases hn : Path.new s with
  | none => simp [hn] at hp
  | some P =>
    simp only [hn, Option.bind_some] at hp
    split at hp
    · simp at hp
    · injection hp with hp; subst hp
      obtain ⟨hr, hparts, _, _⟩ := C09.new_some s P hn
      unfold pathOk at hok
      rw [pathOf_eq] at hok ⊢
      simp only [Bool.and_eq_true, decide_eq_true_eq, List.all_eq_true] at hok
      obtain ⟨⟨h1, h2⟩, h3⟩ := hok
      rw [← hparts] at h1 h2 h3
      refine ⟨?_, path_head P h1 h3⟩
      rw [C09.decode_enc P rest h3 h1 h2, hr, hparts]

end Acpi.Lemmas.AmlParse
