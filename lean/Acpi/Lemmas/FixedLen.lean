/-
  Helper lemmas for C02 on the fixed tables: sizes of the images and the Length field.
-/
import Acpi.Tables.Fixed
import Acpi.Lemmas.Basic
import Acpi.Lemmas.FixedRun
import Acpi.Lemmas.FixedSum
namespace Acpi
open Acpi.C04.Madt

theorem length_encFields (fs : List Fld) : (encFields fs).length = fieldsLen fs := by
  induction fs with
  | nil => rfl
  | cons f fs ih =>
    simp only [encFields, List.flatMap_cons, List.length_append, fieldsLen, List.map_cons, List.sum_cons] at ih ⊢
    rw [ih]
    cases f <;> simp [Fld.bytes, Fld.width]

theorem length_hdrBytes (sig : Bytes) (len : UInt32) (rev k : UInt8) (o : Oem)
    (hs : sig.length = 4) (h1 : o.id.length = 6) (h2 : o.table.length = 8) :
    (hdrBytes sig len rev k o).length = 36 := by
  simp [hdrBytes, hs, h1, h2, creatorId, creatorRev]

/-- the Length field of a header-bearing image reads back as the number it was built from -/
theorem readAt_hdr_len (sig : Bytes) (len : Nat) (rev k : UInt8) (o : Oem) (rest : Bytes)
    (hs : sig.length = 4) (hl : len < 2 ^ 32) :
    readAt (hdrBytes sig (UInt32.ofNat len) rev k o ++ rest) 4 4 = some len := by
  unfold readAt hdrBytes
  rw [if_pos (by simp [hs]; omega)]
  simp only [List.append_assoc]
  rw [List.drop_left' hs, List.take_left' (by simp), u32le_eq_leN, fromLE_leN, UInt32.toNat_ofNat']
  congr 1
  have : (256 : Nat) ^ 4 = 2 ^ 32 := by decide
  rw [this, Nat.mod_mod, Nat.mod_eq_of_lt hl]

theorem length_fixedImage (sig : Bytes) (len : Nat) (rev : UInt8) (o : Oem) (body : Bytes)
    (hs : sig.length = 4) (h1 : o.id.length = 6) (h2 : o.table.length = 8) :
    (fixedImage sig len rev o body).length = 36 + body.length := by
  unfold fixedImage
  simp only [List.length_append, length_hdrBytes _ _ _ _ _ hs h1 h2]

theorem readAt_fixedImage (sig : Bytes) (len : Nat) (rev : UInt8) (o : Oem) (body : Bytes)
    (hs : sig.length = 4) (hl : len < 2 ^ 32) :
    readAt (fixedImage sig len rev o body) 4 4 = some len := by
  unfold fixedImage
  exact readAt_hdr_len _ _ _ _ _ _ hs hl

theorem fieldsLen_fadt (a : EArgs) : fieldsLen (Fadt.body a) = 240 := by
  unfold fieldsLen Fadt.body
  rw [List.map_map]
  have : (Fld.width ∘ fun i => Fld.num (Fadt.widths.getD i 0) (a.num i)) = fun i => Fadt.widths.getD i 0 := by
    funext i; rfl
  rw [this]
  decide +kernel

theorem fieldsLen_tcpas (a : EArgs) : fieldsLen (Tcpas.body a) = 64 := by
  simp [fieldsLen, Tcpas.body, gasFields, Fld.width]

theorem fieldsLen_spcr : fieldsLen spcrBody = 54 := by decide

theorem length_tpm2Rest (a : EArgs) : (tpm2Rest a).length + 36 = tpm2Len a := by
  unfold tpm2Rest tpm2Len
  rw [length_encFields]
  split <;> simp [fieldsLen, Fld.width]

end Acpi
