/-
  Helper lemmas for the C04 proofs of the SRAT / HMAT / PPTT entry kinds
  (Acpi.Props.C04.SratHmatPptt): little-endian arithmetic, the builder fold seen from the
  right (`applyOpts` on `os ++ [o]`), and the set-semantics helpers of Acpi.Spec.Layout on
  `os ++ [o]`.
-/
import Acpi.Tables.Build
import Acpi.Tables.Wf
import Acpi.Spec.Layout
import Acpi.Lemmas.Layout
namespace Acpi.SHP
open Acpi Spec

/-! ### little-endian arithmetic -/

theorem leN_zero (w : Nat) : leN w 0 = zeros w := by
  induction w with
  | zero => rfl
  | succ w ih => simp [leN, ih, zeros, List.replicate_succ]

theorem leN_add (a b v : Nat) : leN (a + b) v = leN a v ++ leN b (v / 256 ^ a) := by
  induction a generalizing v with
  | zero => simp [leN]
  | succ a ih =>
    have : a + 1 + b = (a + b) + 1 := by omega
    rw [this]
    simp only [leN, List.cons_append, ih]
    rw [Nat.div_div_eq_div_mul, Nat.pow_succ, Nat.mul_comm]

theorem leN_mod (w v : Nat) : leN w (v % 256 ^ w) = leN w v := by
  induction w generalizing v with
  | zero => rfl
  | succ w ih =>
    simp only [leN]
    have h1 : v % 256 ^ (w + 1) % 256 = v % 256 := by
      rw [Nat.pow_succ, Nat.mul_comm]
      exact Nat.mod_mul_right_mod v 256 (256 ^ w)
    have h2 : v % 256 ^ (w + 1) / 256 = v / 256 % 256 ^ w := by
      rw [Nat.pow_succ, Nat.mul_comm, Nat.mod_mul_right_div_self]
    rw [h1, h2, ih]

/-- SRAT memory affinity: a 64-bit value is its low dword followed by its high dword -/
theorem leN8_split (v : Nat) : leN 8 v = leN 4 (v % 2 ^ 32) ++ leN 4 (v / 2 ^ 32 % 2 ^ 32) := by
  have h := leN_add 4 4 v
  have e : (256 : Nat) ^ 4 = 2 ^ 32 := by decide
  rw [show (4 : Nat) + 4 = 8 from rfl, e] at h
  rw [h, ← e, leN_mod, leN_mod]

theorem zeros_append (a b : Nat) : zeros a ++ zeros b = zeros (a + b) := by
  simp [zeros]

theorem zeros_append' (a b : Nat) (l : Bytes) : zeros a ++ (zeros b ++ l) = zeros (a + b) ++ l := by
  rw [← List.append_assoc, zeros_append]

/-- `(device << 3) | function` of a PCI device/function pair -/
theorem shl3_or (d f : Nat) (_hd : d < 32) (hf : f < 8) : (d <<< 3 ||| f) % 256 = (d * 8 + f) % 256 := by
  rw [← Nat.shiftLeft_add_eq_or_of_lt (show f < 2 ^ 3 by omega), Nat.shiftLeft_eq]

theorem leN1_mod (v : Nat) : leN 1 (v % 256) = leN 1 v := leN_mod 1 v
theorem leN2_mod (v : Nat) : leN 2 (v % 65536) = leN 2 v := leN_mod 2 v
theorem leN4_mod (v : Nat) : leN 4 (v % 4294967296) = leN 4 v := leN_mod 4 v

/-! ### tiling and rendering of row lists built from pieces -/

theorem tilesFrom_append (pos mid total : Nat) (rs rs' : List Row)
    (h1 : tilesFrom pos mid rs = true) (h2 : tilesFrom mid total rs' = true) :
    tilesFrom pos total (rs ++ rs') = true := by
  induction rs generalizing pos with
  | nil =>
    simp only [tilesFrom, beq_iff_eq] at h1
    subst h1
    simpa using h2
  | cons r rs ih =>
    simp only [tilesFrom, Bool.and_eq_true] at h1
    simp only [List.cons_append, tilesFrom, Bool.and_eq_true]
    exact ⟨h1.1, ih _ h1.2⟩

theorem append_congr {a a' b b' : Bytes} (h1 : a = a') (h2 : b = b') : a ++ b = a' ++ b' := by
  subst h1 h2; rfl

theorem render_append (rs rs' : List Row) : render (rs ++ rs') = render rs ++ render rs' := by
  simp [render]

theorem encFields_append (fs gs : List Fld) : encFields (fs ++ gs) = encFields fs ++ encFields gs := by
  simp [encFields]

theorem encFields_map_num (w : Nat) (vs : List Nat) :
    encFields (vs.map (Fld.num w)) = vs.flatMap (leN w) := by
  induction vs with
  | nil => rfl
  | cons v vs ih =>
    simp only [List.map_cons, List.flatMap_cons]
    rw [← ih]
    rfl

theorem arrayRows_cons (base stride w v : Nat) (vs : List Nat) :
    arrayRows base stride w (v :: vs) = Row.num base w v :: arrayRows (base + stride) stride w vs := by
  unfold arrayRows
  rw [List.mapIdx_cons]
  simp only [Nat.mul_zero, Nat.add_zero, List.cons.injEq, true_and]
  congr 1
  funext i v
  rw [Nat.mul_add, Nat.mul_one, Nat.add_assoc, Nat.add_comm stride]

theorem tilesFrom_arrayRows (base w : Nat) (vs : List Nat) :
    tilesFrom base (base + w * vs.length) (arrayRows base w w vs) = true := by
  induction vs generalizing base with
  | nil => simp [arrayRows, tilesFrom]
  | cons v vs ih =>
    rw [arrayRows_cons]
    simp only [tilesFrom, Row.off, Row.width, beq_self_eq_true, Bool.true_and, List.length_cons]
    have := ih (base + w)
    rwa [show base + w * (vs.length + 1) = base + w + w * vs.length by rw [Nat.mul_add]; omega]

theorem render_arrayRows (base stride w : Nat) (vs : List Nat) :
    render (arrayRows base stride w vs) = vs.flatMap (leN w) := by
  induction vs generalizing base with
  | nil => rfl
  | cons v vs ih =>
    rw [arrayRows_cons]
    simp only [render, List.flatMap_cons, Row.bytes] at ih ⊢
    rw [ih]

/-! ### index-built lists (HMAT locality structure) -/

theorem map_range_set (n k v : Nat) (f : Nat → Nat) :
    ((List.range n).map f).set k v = (List.range n).map (fun i => if k = i then v else f i) := by
  apply List.ext_getElem
  · simp
  · intro i h1 h2
    simp [List.getElem_set]

theorem map_range_const (n d : Nat) : (List.range n).map (fun _ => d) = List.replicate n d := by
  rw [List.map_const', List.length_range]

/-- rows `.num (g i) w (f i)` for `i` in a list render as the values `f i` in `w` bytes each -/
theorem render_map_num (l : List Nat) (w : Nat) (g f : Nat → Nat) :
    render (l.map (fun i => Row.num (g i) w (f i))) = (l.map f).flatMap (leN w) := by
  induction l with
  | nil => rfl
  | cons a l ih =>
    simp only [render, List.map_cons, List.flatMap_cons, Row.bytes] at ih ⊢
    rw [ih]

theorem render_matrix (l : List Nat) (T w : Nat) (g h : Nat → Nat → Nat) :
    render (l.flatMap (fun i => (List.range T).map fun j => Row.num (g i j) w (h i j))) =
      (l.flatMap (fun i => (List.range T).map (h i))).flatMap (leN w) := by
  induction l with
  | nil => rfl
  | cons a l ih =>
    simp only [List.flatMap_cons, render_append, List.flatMap_append, ih, render_map_num]

theorem tiles_rangeRows (base w n : Nat) (f : Nat → Nat) :
    tilesFrom base (base + w * n) ((List.range n).map (fun i => Row.num (base + w * i) w (f i))) = true := by
  induction n with
  | zero => simp [tilesFrom]
  | succ n ih =>
    rw [List.range_succ, List.map_append]
    apply tilesFrom_append _ _ _ _ _ ih
    simp [tilesFrom, Row.off, Row.width, Nat.mul_add, Nat.add_assoc]

theorem tiles_matrix (base w I T : Nat) (h : Nat → Nat → Nat) :
    tilesFrom base (base + w * (I * T))
      ((List.range I).flatMap fun i => (List.range T).map fun j => Row.num (base + w * (i * T + j)) w (h i j)) = true := by
  induction I with
  | zero => simp [tilesFrom]
  | succ I ih =>
    rw [List.range_succ, List.flatMap_append]
    apply tilesFrom_append _ _ _ _ _ ih
    simp only [List.flatMap_cons, List.flatMap_nil, List.append_nil]
    have e : (fun j => Row.num (base + w * (I * T + j)) w (h I j)) =
        (fun j => Row.num (base + w * (I * T) + w * j) w (h I j)) := by
      funext j; rw [Nat.mul_add, Nat.add_assoc]
    rw [e, show base + w * ((I + 1) * T) = base + w * (I * T) + w * T by rw [Nat.succ_mul, Nat.mul_add, Nat.add_assoc]]
    exact tiles_rangeRows _ _ _ _

/-- a row-major `I × T` matrix listed by linear index is the concatenation of its rows -/
theorem range_mul_map (I T : Nat) (g : Nat → Nat) :
    (List.range (I * T)).map g = (List.range I).flatMap (fun i => (List.range T).map (fun j => g (i * T + j))) := by
  induction I with
  | zero => simp
  | succ I ih =>
    rw [Nat.succ_mul, List.range_add, List.map_append, ih, List.range_succ, List.flatMap_append]
    simp [List.map_map, Function.comp_def]

/-- `(i, j) ↦ i * T + j` is injective on `j < T` (HMAT matrix indexing, C12) -/
theorem cell_index_inj (T a b i j : Nat) (hb : b < T) (hj : j < T) :
    a * T + b = i * T + j ↔ a = i ∧ b = j := by
  constructor
  · intro h
    have h1 : (a * T + b) / T = a := by
      rw [Nat.mul_comm, Nat.mul_add_div (by omega), Nat.div_eq_of_lt hb, Nat.add_zero]
    have h2 : (i * T + j) / T = i := by
      rw [Nat.mul_comm, Nat.mul_add_div (by omega), Nat.div_eq_of_lt hj, Nat.add_zero]
    have hai : a = i := by rw [← h1, ← h2, h]
    subst hai
    exact ⟨rfl, by omega⟩
  · rintro ⟨rfl, rfl⟩; rfl

/-! ### induction from the right -/

theorem snoc_induction {α : Type} {P : List α → Prop} (hnil : P [])
    (hsnoc : ∀ l a, P l → P (l ++ [a])) : ∀ l, P l := by
  intro l
  have : ∀ r : List α, P r.reverse := by
    intro r
    induction r with
    | nil => exact hnil
    | cons a r ih => rw [List.reverse_cons]; exact hsnoc _ _ ih
  have h := this l.reverse
  rwa [List.reverse_reverse] at h

theorem applyOpts_snoc (k : Kind) (s : EArgs) (os : List Opt) (o : Opt) (a : EArgs) :
    applyOpts k s (os ++ [o]) = .ok a ↔ ∃ a', applyOpts k s os = .ok a' ∧ applyOpt k a' o = some a := by
  induction os generalizing s with
  | nil =>
    simp only [List.nil_append, applyOpts]
    cases h : applyOpt k s o with
    | none => simp [h]
    | some x => simp [h]
  | cons p os ih =>
    simp only [List.cons_append, applyOpts]
    cases h : applyOpt k s p with
    | none => simp
    | some x => simp only []; exact ih x

/-! ### the set-semantics helpers on `os ++ [o]` -/

theorem has_snoc (os : List Opt) (o : Opt) (n : String) :
    has (os ++ [o]) n = (has os n || decide (o.name = n)) := by
  simp [has]

theorem pushed_snoc (os : List Opt) (o : Opt) (n : String) :
    pushed (os ++ [o]) n = pushed os n ++ (if o.name = n then [o.arg 0] else []) := by
  unfold pushed
  by_cases h : o.name = n <;> simp [List.filter_append, h]

/-- generic "value of the last call satisfying `p`" -/
def lastD (p : Opt → Bool) (f : Opt → Nat) (os : List Opt) (d : Nat) : Nat :=
  (((os.filter p).getLast?).map f).getD d

theorem lastD_nil (p : Opt → Bool) (f : Opt → Nat) (d : Nat) : lastD p f [] d = d := rfl

theorem lastD_snoc (p : Opt → Bool) (f : Opt → Nat) (os : List Opt) (o : Opt) (d : Nat) :
    lastD p f (os ++ [o]) d = if p o then f o else lastD p f os d := by
  unfold lastD
  by_cases h : p o = true
  · simp [List.filter_append, h]
  · simp [List.filter_append, h]

theorem lastD_congr (p q : Opt → Bool) (f : Opt → Nat) (os : List Opt) (d : Nat)
    (h : ∀ o ∈ os, p o = q o) : lastD p f os d = lastD q f os d := by
  unfold lastD
  rw [List.filter_congr h]

theorem lastVal_eq (os : List Opt) (n : String) (i d : Nat) :
    lastVal os n i d = lastD (fun o => decide (o.name = n)) (fun o => o.arg i) os d := rfl

theorem lastVal_snoc (os : List Opt) (o : Opt) (n : String) (i d : Nat) :
    lastVal (os ++ [o]) n i d = if o.name = n then o.arg i else lastVal os n i d := by
  rw [lastVal_eq, lastD_snoc, lastVal_eq]
  simp

theorem bit_snoc (os : List Opt) (o : Opt) (n : String) (b : Nat) :
    bit (os ++ [o]) n b = if o.name = n then b else bit os n b := by
  unfold bit
  rw [has_snoc]
  by_cases h : o.name = n <;> simp [h]

theorem bit_cases (os : List Opt) (n : String) (b : Nat) : bit os n b = 0 ∨ bit os n b = b := by
  unfold bit; split <;> simp

theorem bit_nil (n : String) (b : Nat) : bit [] n b = 0 := rfl

/-! ### `|||` up to associativity, commutativity, idempotence, zero -/

theorem or_lc (a b c : Nat) : a ||| (b ||| c) = b ||| (a ||| c) := by
  rw [← Nat.or_assoc, Nat.or_comm a b, Nat.or_assoc]
theorem or_sl (a b : Nat) : a ||| (a ||| b) = a ||| b := by
  rw [← Nat.or_assoc, Nat.or_self]

set_option linter.unusedSimpArgs false in
/-- normalise both sides of an equation between `|||`-combinations -/
macro "or_ac" : tactic =>
  `(tactic| simp only [Nat.or_assoc, Nat.or_comm, or_lc, Nat.or_self, or_sl, Nat.or_zero, Nat.zero_or])

/-! ### builder-state accessors -/

theorem num_mk (n : Array Nat) (b : Array Bytes) (s : List (List Nat)) (i : Nat) :
    (EArgs.mk n b s).num i = n[i]?.getD 0 := by simp [EArgs.num]
theorem blob_mk (n : Array Nat) (b : Array Bytes) (s : List (List Nat)) (i : Nat) :
    (EArgs.mk n b s).blob i = b[i]?.getD [] := by simp [EArgs.blob]

@[simp] theorem setNum_b (a : EArgs) (i v : Nat) : (a.setNum i v).b = a.b := rfl
@[simp] theorem setNum_s (a : EArgs) (i v : Nat) : (a.setNum i v).s = a.s := rfl
@[simp] theorem orNum_b (a : EArgs) (i v : Nat) : (a.orNum i v).b = a.b := rfl
@[simp] theorem orNum_s (a : EArgs) (i v : Nat) : (a.orNum i v).s = a.s := rfl

/-! ### unpacking a successful build -/

/-- unpack a successful `buildEntry` -/
theorem buildEntry_ok (k : Kind) (c : EArgs) (opts : List Opt) (a : EArgs)
    (h : buildEntry k c opts = .ok a) :
    ctorPanics k c = false ∧ applyOpts k (init k c) opts = .ok a ∧ panics k a = false := by
  unfold buildEntry at h
  cases hc : ctorPanics k c with
  | true => simp [hc] at h
  | false =>
    simp only [hc, Bool.false_eq_true, if_false] at h
    cases ha : applyOpts k (init k c) opts with
    | error e => simp [ha] at h
    | ok x =>
      simp only [ha] at h
      cases hp : panics k x with
      | true => simp [hp] at h
      | false =>
        simp only [hp, Bool.false_eq_true, if_false] at h
        cases h
        exact ⟨rfl, rfl, hp⟩

end Acpi.SHP
