import Acpi.Sink
import Acpi.Lemmas.Basic
namespace Acpi
namespace Sink
variable {σ : Type}

/-- Chunking irrelevance: a lawful sink sees only the concatenation. -/
theorem feed_lawful (S : Sink σ) (abs : σ → Bytes) (h : Lawful S abs) (s : σ)
    (cs : List SinkCall) : abs (feed S s cs) = abs s ++ flatten cs := by
  induction cs generalizing s with
  | nil => simp [feed, flatten]
  | cons c cs ih =>
    have ih' := ih (feed1 S s c)
    simp only [feed, List.foldl_cons] at ih' ⊢
    rw [ih']
    cases c <;> simp [feed1, flatten, SinkCall.bytes, h.byte, h.word, h.dword, h.qword, h.vec]

theorem foldl_byte_lawful (byte : σ → UInt8 → σ) (abs : σ → Bytes)
    (hb : ∀ s b, abs (byte s b) = abs s ++ [b]) (s : σ) (v : Bytes) :
    abs (v.foldl byte s) = abs s ++ v := by
  induction v generalizing s with
  | nil => simp
  | cons b v ih => simp [ih, hb]

/-- Any sink that implements only `byte` (appending that byte) is lawful through the
    trait's default methods. -/
theorem ofByte_lawful (byte : σ → UInt8 → σ) (abs : σ → Bytes)
    (hb : ∀ s b, abs (byte s b) = abs s ++ [b]) : Lawful (ofByte byte) abs where
  byte := hb
  word s _ := foldl_byte_lawful byte abs hb s _
  dword s _ := foldl_byte_lawful byte abs hb s _
  qword s _ := foldl_byte_lawful byte abs hb s _
  vec s v := foldl_byte_lawful byte abs hb s v

theorem vecSink_lawful : Lawful vecSink id where
  byte _ _ := rfl
  word _ _ := rfl
  dword _ _ := rfl
  qword _ _ := rfl
  vec _ _ := rfl

end Sink
end Acpi
