/-
  Acpi.Lemmas.C18Accepted — definitions and one-node helper lemmas for
  Props/C18/Accepted.lean (the converse half of C18 over the whole AML tree).

  * `countsFit` / `countsFitList` / `countsFitTake`: the Bool-valued, structurally recursive
    predicate "every count and size of every serialised node fits its field".
  * `enc_some_nodeFits`: an accepted node satisfies the local (non-recursive) conditions.
  * `enc_some_kids`: an accepted node has accepted every child it serialises.
-/
import Acpi.Aml.Term
import Acpi.Spec.AmlFrame
import Acpi.Props.C07
import Acpi.Lemmas.AmlFrame
namespace Acpi.C18
open Acpi

/-! ## the predicate -/

/-- the path argument parses and has at most 255 segments
    (`∃ p, Path.new s = some p ∧ p.parts.length ≤ 255`, as a Bool) -/
def pathFits (s : Bytes) : Bool :=
  match Path.new s with
  | some p => decide (p.parts.length ≤ 255)
  | none => false

/-- the constructors whose encoding goes through `pathEnc (blobs.getD 0 [])` -/
def usesPath : Op → Bool
  | .path | .name | .device | .scope | .scoperaw | .method | .field | .opregion | .powerres
  | .mutex | .acquire | .release | .call => true
  | _ => false

/-- the count / size conditions of one node that do not involve its path
    (`len` = number of children) -/
def localFits (op : Op) (ints : List Nat) (len : Nat) : Bool :=
  let i (k : Nat) := ints.getD k 0
  match op with
  | .pkg | .pkgb => decide (len ≤ 255)
  | .method => decide (i 0 ≤ 7)
  | .arg => decide (i 0 ≤ 6)
  | .local_ => decide (i 0 ≤ 7)
  | .asmem => decide (i 3 ≤ i 4) && decide (i 4 - i 3 + 1 < 2 ^ (i 0))
  | .asio | .asbus => decide (i 1 ≤ i 2) && decide (i 2 - i 1 + 1 < 2 ^ (i 0))
  | .fnamed | .freserved => decide (pkgLenTotal (i 0) false < 2 ^ 28)
  | _ => true

/-- all conditions on one node, children aside -/
def nodeFits (op : Op) (ints : List Nat) (blobs : List Bytes) (len : Nat) : Bool :=
  localFits op ints len && (!usesPath op || pathFits (blobs.getD 0 []))

/-- how many children the constructor serialises: `none` = all of them (`catOpt`),
    `some n` = exactly the first `n` (`k 0 … k (n-1)`); leaves serialise none -/
def used : Op → Option Nat
  | .pkg | .pkgb | .rt | .device | .scope | .scoperaw | .method | .field | .if_ | .while_ | .else_
  | .powerres | .call => none
  | .bufterm | .varpkg | .name | .objtype | .sizeof | .ret | .deref => some 1
  | .opregion | .eq | .lt | .gt | .ne | .ge | .le | .store | .notify | .tobuffer | .tointeger => some 2
  | .add | .concat | .subtract | .multiply | .shl | .shr | .and_ | .nand | .or_ | .nor | .xor
  | .concatres | .mod | .index | .tostring | .createdw | .createqw => some 3
  | .createfield | .mid => some 4
  | _ => some 0

mutual
/-- every serialised node of the tree satisfies `nodeFits`.  The recursion goes into exactly the
    children the constructor serialises (`used op`): all of them for the list-bodied
    constructors, the first `n` for the fixed-arity operators, none for leaves. -/
def countsFit : Aml → Bool
  | .node op ints blobs kids =>
    nodeFits op ints blobs kids.length &&
      (match used op with
       | none => countsFitList kids
       | some n => countsFitTake n kids)
/-- `countsFit` of every element -/
def countsFitList : AmlList → Bool
  | .nil => true
  | .cons a r => countsFit a && countsFitList r
/-- `countsFit` of the first `n` elements (fewer if the list is shorter) -/
def countsFitTake (n : Nat) : AmlList → Bool
  | .nil => true
  | .cons a r =>
    match n with
    | 0 => true
    | m + 1 => countsFit a && countsFitTake m r
end

/-- what acceptance of a node says about its children: either the whole list was sequenced, or
    the first `n` slots of `AmlList.encs kids` are `some` -/
def KidsAccepted (op : Op) (kids : AmlList) : Prop :=
  match used op with
  | none => ∃ d, catOpt (AmlList.encs kids) = some d
  | some n => ∀ j, j < n → ∃ e, (AmlList.encs kids).getD j none = some e

/-! ## small helpers -/

theorem forall_lt_1 {P : Nat → Prop} (h0 : P 0) : ∀ j, j < 1 → P j := by
  intro j hj
  have : j = 0 := by omega
  subst this; exact h0

theorem forall_lt_2 {P : Nat → Prop} (h0 : P 0) (h1 : P 1) : ∀ j, j < 2 → P j := by
  intro j hj
  have : j = 0 ∨ j = 1 := by omega
  rcases this with rfl | rfl
  · exact h0
  · exact h1

theorem forall_lt_3 {P : Nat → Prop} (h0 : P 0) (h1 : P 1) (h2 : P 2) : ∀ j, j < 3 → P j := by
  intro j hj
  have : j = 0 ∨ j = 1 ∨ j = 2 := by omega
  rcases this with rfl | rfl | rfl
  · exact h0
  · exact h1
  · exact h2

theorem forall_lt_4 {P : Nat → Prop} (h0 : P 0) (h1 : P 1) (h2 : P 2) (h3 : P 3) :
    ∀ j, j < 4 → P j := by
  intro j hj
  have : j = 0 ∨ j = 1 ∨ j = 2 ∨ j = 3 := by omega
  rcases this with rfl | rfl | rfl | rfl
  · exact h0
  · exact h1
  · exact h2
  · exact h3

/-- an accepted path argument parses and has between 1 and 255 segments -/
theorem pathEnc_some {s p : Bytes} (h : pathEnc s = some p) :
    ∃ q, Path.new s = some q ∧ q.encPanics = false ∧ p = q.enc := by
  unfold pathEnc at h
  simp only [Option.bind_eq_some_iff] at h
  obtain ⟨q, hq, h⟩ := h
  cases hp : q.encPanics
  · rw [hp] at h
    simp only [Bool.false_eq_true, if_false, Option.some.injEq] at h
    exact ⟨q, hq, hp, h.symm⟩
  · rw [hp] at h; simp at h

theorem pathFits_of_pathEnc {s p : Bytes} (h : pathEnc s = some p) : pathFits s = true := by
  obtain ⟨q, hq, hp, _⟩ := pathEnc_some h
  unfold pathFits
  rw [hq]
  unfold Path.encPanics at hp
  simp only [Bool.or_eq_false_iff, decide_eq_false_iff_not, Nat.not_lt] at hp
  simpa using hp.2

theorem addrSpace_some {bits ty tf mn mx tr : Nat} {bs : Bytes}
    (h : addrSpace bits ty tf mn mx tr = some bs) : mn ≤ mx ∧ mx - mn + 1 < 2 ^ bits := by
  unfold addrSpace at h
  split at h
  · cases h
  · rename_i hn
    omega

theorem pkgLenTotal_lt_of_not_panics {c : Nat} {incl : Bool} (hp : ¬ pkgLenPanics c incl = true) :
    pkgLenTotal c incl < 2 ^ 28 :=
  total_lt_of_not_panics (Bool.eq_false_iff.mpr hp)

/-- `nodeFits` for a constructor with a path and no other condition -/
theorem nodeFits_path {op : Op} {ints : List Nat} {blobs : List Bytes} {len : Nat} {p : Bytes}
    (hl : localFits op ints len = true) (h : pathEnc (blobs.getD 0 []) = some p) :
    nodeFits op ints blobs len = true := by
  unfold nodeFits
  rw [hl, pathFits_of_pathEnc h]
  simp

/-! ## one accepted node -/

/-- what one accepted node gives -/
def NodeOk (op : Op) (ints : List Nat) (blobs : List Bytes) (kids : AmlList) : Prop :=
  nodeFits op ints blobs kids.length = true ∧ KidsAccepted op kids

section
variable (ints : List Nat) (blobs : List Bytes) (kids : AmlList) (bs : Bytes)

theorem ok_leaf {op : Op} (hu : used op = some 0) (hp : usesPath op = false)
    (hl : localFits op ints kids.length = true) : NodeOk op ints blobs kids := by
  refine ⟨?_, ?_⟩
  · unfold nodeFits; rw [hl, hp]; rfl
  · unfold KidsAccepted; rw [hu]; intro j hj; omega

theorem ok_arg (h : (Aml.node .arg ints blobs kids).enc = some bs) : NodeOk .arg ints blobs kids := by
  unfold Aml.enc at h
  simp only [] at h
  split at h
  · rename_i hc
    exact ok_leaf ints blobs kids rfl rfl (decide_eq_true hc)
  · cases h

theorem ok_local (h : (Aml.node .local_ ints blobs kids).enc = some bs) : NodeOk .local_ ints blobs kids := by
  unfold Aml.enc at h
  simp only [] at h
  split at h
  · rename_i hc
    exact ok_leaf ints blobs kids rfl rfl (decide_eq_true hc)
  · cases h

theorem ok_fnamed (h : (Aml.node .fnamed ints blobs kids).enc = some bs) : NodeOk .fnamed ints blobs kids := by
  unfold Aml.enc at h
  simp only [] at h
  split at h
  · cases h
  · rename_i hc
    exact ok_leaf ints blobs kids rfl rfl (decide_eq_true (pkgLenTotal_lt_of_not_panics hc))

theorem ok_freserved (h : (Aml.node .freserved ints blobs kids).enc = some bs) : NodeOk .freserved ints blobs kids := by
  unfold Aml.enc at h
  simp only [] at h
  split at h
  · cases h
  · rename_i hc
    exact ok_leaf ints blobs kids rfl rfl (decide_eq_true (pkgLenTotal_lt_of_not_panics hc))

theorem and_decide {p q : Prop} [Decidable p] [Decidable q] (h : p ∧ q) :
    (decide p && decide q) = true := by simp [h.1, h.2]

theorem ok_asmem (h : (Aml.node .asmem ints blobs kids).enc = some bs) : NodeOk .asmem ints blobs kids := by
  unfold Aml.enc at h
  simp only [] at h
  exact ok_leaf ints blobs kids rfl rfl (and_decide (addrSpace_some h))

theorem ok_asio (h : (Aml.node .asio ints blobs kids).enc = some bs) : NodeOk .asio ints blobs kids := by
  unfold Aml.enc at h
  simp only [] at h
  exact ok_leaf ints blobs kids rfl rfl (and_decide (addrSpace_some h))

theorem ok_asbus (h : (Aml.node .asbus ints blobs kids).enc = some bs) : NodeOk .asbus ints blobs kids := by
  unfold Aml.enc at h
  simp only [] at h
  exact ok_leaf ints blobs kids rfl rfl (and_decide (addrSpace_some h))

/-! constructors with a path and no children -/

theorem ok_path (h : (Aml.node .path ints blobs kids).enc = some bs) : NodeOk .path ints blobs kids := by
  unfold Aml.enc at h
  simp only [] at h
  exact ⟨nodeFits_path rfl h, fun j hj => by omega⟩

theorem ok_mutex (h : (Aml.node .mutex ints blobs kids).enc = some bs) : NodeOk .mutex ints blobs kids := by
  unfold Aml.enc at h
  simp only [Option.map_eq_some_iff] at h
  obtain ⟨p, hp, _⟩ := h
  exact ⟨nodeFits_path rfl hp, fun j hj => by omega⟩

theorem ok_acquire (h : (Aml.node .acquire ints blobs kids).enc = some bs) : NodeOk .acquire ints blobs kids := by
  unfold Aml.enc at h
  simp only [Option.map_eq_some_iff] at h
  obtain ⟨p, hp, _⟩ := h
  exact ⟨nodeFits_path rfl hp, fun j hj => by omega⟩

theorem ok_release (h : (Aml.node .release ints blobs kids).enc = some bs) : NodeOk .release ints blobs kids := by
  unfold Aml.enc at h
  simp only [Option.map_eq_some_iff] at h
  obtain ⟨p, hp, _⟩ := h
  exact ⟨nodeFits_path rfl hp, fun j hj => by omega⟩

/-! constructors with a path and fixed children -/

theorem ok_name (h : (Aml.node .name ints blobs kids).enc = some bs) : NodeOk .name ints blobs kids := by
  unfold Aml.enc at h
  simp only [bind, Option.bind_eq_some_iff] at h
  obtain ⟨p, hp, v, hv, _⟩ := h
  exact ⟨nodeFits_path rfl hp, forall_lt_1 ⟨v, hv⟩⟩

theorem ok_opregion (h : (Aml.node .opregion ints blobs kids).enc = some bs) : NodeOk .opregion ints blobs kids := by
  unfold Aml.enc at h
  simp only [bind, Option.bind_eq_some_iff] at h
  obtain ⟨p, hp, o, ho, l, hl, _⟩ := h
  exact ⟨nodeFits_path rfl hp, forall_lt_2 ⟨o, ho⟩ ⟨l, hl⟩⟩

/-! constructors with a path and a child list -/

theorem ok_device (h : (Aml.node .device ints blobs kids).enc = some bs) : NodeOk .device ints blobs kids := by
  unfold Aml.enc at h
  simp only [bind, Option.bind_eq_some_iff] at h
  obtain ⟨p, hp, d, hd, _⟩ := h
  exact ⟨nodeFits_path rfl hp, ⟨d, hd⟩⟩

theorem ok_scope (h : (Aml.node .scope ints blobs kids).enc = some bs) : NodeOk .scope ints blobs kids := by
  unfold Aml.enc at h
  simp only [bind, Option.bind_eq_some_iff] at h
  obtain ⟨p, hp, d, hd, _⟩ := h
  exact ⟨nodeFits_path rfl hp, ⟨d, hd⟩⟩

theorem ok_scoperaw (h : (Aml.node .scoperaw ints blobs kids).enc = some bs) : NodeOk .scoperaw ints blobs kids := by
  unfold Aml.enc at h
  simp only [bind, Option.bind_eq_some_iff] at h
  obtain ⟨p, hp, d, hd, _⟩ := h
  exact ⟨nodeFits_path rfl hp, ⟨d, hd⟩⟩

theorem ok_field (h : (Aml.node .field ints blobs kids).enc = some bs) : NodeOk .field ints blobs kids := by
  unfold Aml.enc at h
  simp only [bind, Option.bind_eq_some_iff] at h
  obtain ⟨p, hp, d, hd, _⟩ := h
  exact ⟨nodeFits_path rfl hp, ⟨d, hd⟩⟩

theorem ok_powerres (h : (Aml.node .powerres ints blobs kids).enc = some bs) : NodeOk .powerres ints blobs kids := by
  unfold Aml.enc at h
  simp only [bind, Option.bind_eq_some_iff] at h
  obtain ⟨p, hp, d, hd, _⟩ := h
  exact ⟨nodeFits_path rfl hp, ⟨d, hd⟩⟩

theorem ok_call (h : (Aml.node .call ints blobs kids).enc = some bs) : NodeOk .call ints blobs kids := by
  unfold Aml.enc at h
  simp only [bind, Option.bind_eq_some_iff] at h
  obtain ⟨p, hp, d, hd, _⟩ := h
  exact ⟨nodeFits_path rfl hp, ⟨d, hd⟩⟩

theorem ok_method (h : (Aml.node .method ints blobs kids).enc = some bs) : NodeOk .method ints blobs kids := by
  unfold Aml.enc at h
  simp only [] at h
  split at h
  · cases h
  · rename_i hc
    simp only [bind, Option.bind_eq_some_iff] at h
    obtain ⟨p, hp, d, hd, _⟩ := h
    exact ⟨nodeFits_path (decide_eq_true (Nat.le_of_not_lt hc)) hp, ⟨d, hd⟩⟩

/-! counted constructors -/

theorem ok_pkg (h : (Aml.node .pkg ints blobs kids).enc = some bs) : NodeOk .pkg ints blobs kids := by
  unfold Aml.enc at h
  simp only [] at h
  split at h
  · cases h
  · rename_i hc
    simp only [Option.bind_eq_some_iff] at h
    obtain ⟨d, hd, _⟩ := h
    refine ⟨?_, ⟨d, hd⟩⟩
    show (decide (kids.length ≤ 255) && true) = true
    simp only [Bool.and_true]
    exact decide_eq_true (Nat.le_of_not_lt hc)

theorem ok_pkgb (h : (Aml.node .pkgb ints blobs kids).enc = some bs) : NodeOk .pkgb ints blobs kids := by
  unfold Aml.enc at h
  simp only [Option.bind_eq_some_iff] at h
  obtain ⟨d, hd, h⟩ := h
  split at h
  · cases h
  · rename_i hc
    refine ⟨?_, ⟨d, hd⟩⟩
    show (decide (kids.length ≤ 255) && true) = true
    simp only [Bool.and_true]
    exact decide_eq_true (Nat.le_of_not_lt hc)

/-! list-bodied constructors without a path -/

theorem ok_rt (h : (Aml.node .rt ints blobs kids).enc = some bs) : NodeOk .rt ints blobs kids := by
  unfold Aml.enc at h
  simp only [Option.bind_eq_some_iff] at h
  obtain ⟨d, hd, _⟩ := h
  exact ⟨rfl, ⟨d, hd⟩⟩

theorem ok_if (h : (Aml.node .if_ ints blobs kids).enc = some bs) : NodeOk .if_ ints blobs kids := by
  unfold Aml.enc at h
  simp only [Option.bind_eq_some_iff] at h
  obtain ⟨d, hd, _⟩ := h
  exact ⟨rfl, ⟨d, hd⟩⟩

theorem ok_while (h : (Aml.node .while_ ints blobs kids).enc = some bs) : NodeOk .while_ ints blobs kids := by
  unfold Aml.enc at h
  simp only [Option.bind_eq_some_iff] at h
  obtain ⟨d, hd, _⟩ := h
  exact ⟨rfl, ⟨d, hd⟩⟩

theorem ok_else (h : (Aml.node .else_ ints blobs kids).enc = some bs) : NodeOk .else_ ints blobs kids := by
  unfold Aml.enc at h
  simp only [Option.bind_eq_some_iff] at h
  obtain ⟨d, hd, _⟩ := h
  exact ⟨rfl, ⟨d, hd⟩⟩

end

/-! fixed-arity operators, by arity -/

theorem ok_arity1 (op : Op) (ints : List Nat) (blobs : List Bytes) (kids : AmlList) (bs : Bytes)
    (hop : op = .bufterm ∨ op = .varpkg ∨ op = .objtype ∨ op = .sizeof ∨ op = .ret ∨ op = .deref)
    (h : (Aml.node op ints blobs kids).enc = some bs) : NodeOk op ints blobs kids := by
  rcases hop with rfl | rfl | rfl | rfl | rfl | rfl <;>
  · unfold Aml.enc at h
    simp only [Option.bind_eq_some_iff, Option.map_eq_some_iff] at h
    obtain ⟨a, ha, _⟩ := h
    exact ⟨rfl, forall_lt_1 ⟨a, ha⟩⟩

theorem ok_arity2 (op : Op) (ints : List Nat) (blobs : List Bytes) (kids : AmlList) (bs : Bytes)
    (hop : op = .eq ∨ op = .lt ∨ op = .gt ∨ op = .ne ∨ op = .ge ∨ op = .le ∨ op = .store ∨ op = .notify ∨
      op = .tobuffer ∨ op = .tointeger)
    (h : (Aml.node op ints blobs kids).enc = some bs) : NodeOk op ints blobs kids := by
  rcases hop with rfl | rfl | rfl | rfl | rfl | rfl | rfl | rfl | rfl | rfl <;>
  · unfold Aml.enc at h
    simp only [bind, Option.bind_eq_some_iff] at h
    obtain ⟨a, ha, c, hc, _⟩ := h
    exact ⟨rfl, forall_lt_2 ⟨a, ha⟩ ⟨c, hc⟩⟩

theorem ok_arity3 (op : Op) (ints : List Nat) (blobs : List Bytes) (kids : AmlList) (bs : Bytes)
    (hop : op = .add ∨ op = .concat ∨ op = .subtract ∨ op = .multiply ∨ op = .shl ∨ op = .shr ∨
      op = .and_ ∨ op = .nand ∨ op = .or_ ∨ op = .nor ∨ op = .xor ∨ op = .concatres ∨ op = .mod ∨
      op = .index ∨ op = .tostring ∨ op = .createdw ∨ op = .createqw)
    (h : (Aml.node op ints blobs kids).enc = some bs) : NodeOk op ints blobs kids := by
  rcases hop with rfl | rfl | rfl | rfl | rfl | rfl | rfl | rfl | rfl | rfl | rfl | rfl | rfl |
    rfl | rfl | rfl | rfl <;>
  · unfold Aml.enc at h
    simp only [bind, Option.bind_eq_some_iff] at h
    obtain ⟨a, ha, c, hc, e, he, _⟩ := h
    exact ⟨rfl, forall_lt_3 ⟨a, ha⟩ ⟨c, hc⟩ ⟨e, he⟩⟩

theorem ok_arity4 (op : Op) (ints : List Nat) (blobs : List Bytes) (kids : AmlList) (bs : Bytes)
    (hop : op = .createfield ∨ op = .mid)
    (h : (Aml.node op ints blobs kids).enc = some bs) : NodeOk op ints blobs kids := by
  rcases hop with rfl | rfl <;>
  · unfold Aml.enc at h
    simp only [bind, Option.bind_eq_some_iff] at h
    obtain ⟨a, ha, c, hc, e, he, f, hf, _⟩ := h
    exact ⟨rfl, forall_lt_4 ⟨a, ha⟩ ⟨c, hc⟩ ⟨e, he⟩ ⟨f, hf⟩⟩

/-- every accepted node satisfies its local conditions and has accepted the children it serialises -/
theorem enc_some_nodeOk (op : Op) (ints : List Nat) (blobs : List Bytes) (kids : AmlList) (bs : Bytes)
    (h : (Aml.node op ints blobs kids).enc = some bs) : NodeOk op ints blobs kids := by
  cases op
  case arg => exact ok_arg _ _ _ _ h
  case local_ => exact ok_local _ _ _ _ h
  case fnamed => exact ok_fnamed _ _ _ _ h
  case freserved => exact ok_freserved _ _ _ _ h
  case asmem => exact ok_asmem _ _ _ _ h
  case asio => exact ok_asio _ _ _ _ h
  case asbus => exact ok_asbus _ _ _ _ h
  case path => exact ok_path _ _ _ _ h
  case mutex => exact ok_mutex _ _ _ _ h
  case acquire => exact ok_acquire _ _ _ _ h
  case release => exact ok_release _ _ _ _ h
  case name => exact ok_name _ _ _ _ h
  case opregion => exact ok_opregion _ _ _ _ h
  case device => exact ok_device _ _ _ _ h
  case scope => exact ok_scope _ _ _ _ h
  case scoperaw => exact ok_scoperaw _ _ _ _ h
  case field => exact ok_field _ _ _ _ h
  case powerres => exact ok_powerres _ _ _ _ h
  case call => exact ok_call _ _ _ _ h
  case method => exact ok_method _ _ _ _ h
  case pkg => exact ok_pkg _ _ _ _ h
  case pkgb => exact ok_pkgb _ _ _ _ h
  case rt => exact ok_rt _ _ _ _ h
  case if_ => exact ok_if _ _ _ _ h
  case while_ => exact ok_while _ _ _ _ h
  case else_ => exact ok_else _ _ _ _ h
  case bufterm | varpkg | objtype | sizeof | ret | deref => exact ok_arity1 _ _ _ _ _ (by decide) h
  case eq | lt | gt | ne | ge | le | store | notify | tobuffer | tointeger =>
    exact ok_arity2 _ _ _ _ _ (by decide) h
  case add | concat | subtract | multiply | shl | shr | and_ | nand | or_ | nor | xor | concatres
      | mod | index | tostring | createdw | createqw => exact ok_arity3 _ _ _ _ _ (by decide) h
  case createfield | mid => exact ok_arity4 _ _ _ _ _ (by decide) h
  all_goals exact ok_leaf _ _ _ rfl rfl rfl

/-! ## child lists -/

theorem catOpt_cons {a : Aml} {r : AmlList} {d : Bytes}
    (h : catOpt (AmlList.encs (.cons a r)) = some d) :
    ∃ ea dr, a.enc = some ea ∧ catOpt (AmlList.encs r) = some dr ∧ d = ea ++ dr := by
  simp only [AmlList.encs] at h
  cases he : a.enc with
  | none => simp [he, catOpt] at h
  | some ea =>
    simp only [he, catOpt, Option.map_eq_some_iff] at h
    obtain ⟨dr, hdr, rfl⟩ := h
    exact ⟨ea, dr, rfl, hdr, rfl⟩

theorem encs_getD_zero (a : Aml) (r : AmlList) : (AmlList.encs (.cons a r)).getD 0 none = a.enc := by
  simp only [AmlList.encs, List.getD_cons_zero]

theorem encs_getD_succ (a : Aml) (r : AmlList) (j : Nat) :
    (AmlList.encs (.cons a r)).getD (j + 1) none = (AmlList.encs r).getD j none := by
  simp only [AmlList.encs, List.getD_cons_succ]

/-! ## count bytes and flag bits -/

theorem and7_of_le (n : Nat) (h : n ≤ 7) : n &&& 7 = n := by
  have h3 : n &&& (2 ^ 3 - 1) = n % 2 ^ 3 := Nat.and_two_pow_sub_one_eq_mod n 3
  have h4 : n &&& 7 = n % 8 := h3
  rw [h4]
  exact Nat.mod_eq_of_lt (by omega)

theorem flags_low3 (n s : Nat) (hn : n ≤ 7) (hs : s ≤ 1) :
    (UInt8.ofNat ((n &&& 7) ||| (s <<< 3))).toNat &&& 7 = n := by
  have h1 : n = 0 ∨ n = 1 ∨ n = 2 ∨ n = 3 ∨ n = 4 ∨ n = 5 ∨ n = 6 ∨ n = 7 := by omega
  have h2 : s = 0 ∨ s = 1 := by omega
  rcases h2 with rfl | rfl <;> rcases h1 with rfl | rfl | rfl | rfl | rfl | rfl | rfl | rfl <;> decide

theorem count_byte (n : Nat) (h : n ≤ 255) : (UInt8.ofNat n).toNat = n := by
  rw [UInt8.toNat_ofNat']
  exact Nat.mod_eq_of_lt (by omega)

/-! ## a package of `n` Ones (for the non-vacuity examples) -/

/-- `n` copies of the `One` term, as a child list -/
def repOnes : Nat → AmlList
  | 0 => .nil
  | n + 1 => .cons (.node .one [] [] .nil) (repOnes n)

theorem repOnes_length (n : Nat) : (repOnes n).length = n := by
  induction n with
  | zero => rfl
  | succ n ih => rw [repOnes, AmlList.length, ih]

theorem enc_one : (Aml.node .one [] [] .nil).enc = some [0x01] := by
  unfold Aml.enc; rfl

theorem repOnes_encs (n : Nat) : catOpt (AmlList.encs (repOnes n)) = some (List.replicate n 0x01) := by
  induction n with
  | zero => rfl
  | succ n ih =>
    rw [repOnes, AmlList.encs, enc_one, catOpt, ih]
    rfl

theorem repOnes_countsFit (n : Nat) : countsFitList (repOnes n) = true := by
  induction n with
  | zero => rw [repOnes, countsFitList]
  | succ n ih => rw [repOnes, countsFitList, ih]; rfl

/-- a Package of `n ≤ 255` Ones is accepted, with the explicit bytes -/
theorem pkg_repOnes (n : Nat) (h : n ≤ 255) :
    (Aml.node .pkg [] [] (repOnes n)).enc =
      some ([0x12] ++ pkgLen (n + 1) true ++ [UInt8.ofNat n] ++ List.replicate n 0x01) := by
  unfold Aml.enc
  simp only [repOnes_length, repOnes_encs, Option.bind_some]
  rw [if_neg (by omega)]
  unfold pkgObj
  have hl : ([UInt8.ofNat n] ++ List.replicate n (0x01 : UInt8)).length = n + 1 := by
    rw [List.length_append, List.length_singleton, List.length_replicate, Nat.add_comm]
  rw [hl]
  have hp : pkgLenPanics (n + 1) true = false := by
    unfold pkgLenPanics pkgLenTotal pkgLenWidth
    simp only [if_true]
    apply decide_eq_false
    repeat' split
    all_goals omega
  rw [hp]
  simp

end Acpi.C18
