/-
  Acpi.Lemmas.AmlKids — facts about a child in each grammar position (TermArg, SuperName,
  Target, NameString), derived from the child's own round trip.
-/
import Acpi.Lemmas.AmlFacts
namespace Acpi.Lemmas.AmlParse
open Acpi Spec Spec.Aml

theorem nameOf_eq (s : Bytes) : nameOf s = mkName (pathOf s).1 (pathOf s).2 .nil := rfl

theorem NFact.path {s p : Bytes} (hp : pathEnc s = some p) (hok : pathOk s = true) : NFact p (nameOf s) := by
  refine ⟨(pathOf s).1, (pathOf s).2, nameOf_eq s, fun rest => (pathEnc_decode s p rest hp hok).1, ?_⟩
  exact (pathEnc_decode s p [] hp hok).2

theorem NFact.seg {q : Bytes} (hq : NameString.isSeg q = true) : NFact q (mkName false [q] .nil) := by
  refine ⟨false, [q], rfl, fun rest => ?_, ?_⟩
  · have := C09.decode_enc ⟨false, [q]⟩ rest (by simpa using hq) (by simp) (by simp)
    simpa [Path.enc, namePrefix] using this
  · obtain ⟨a, t, rfl, ha⟩ := C09.lead_of_seg q hq
    exact ⟨a, t, rfl, by simp [isNameLead, ha]⟩

theorem SGFact.name {env : Env} {s : Slot} (hs : s = .S ∨ s = .G) {e : Bytes} {tm : Tm} (h : NFact e tm) :
    SGFact env s e tm := by
  obtain ⟨r, segs, rfl, hd, b, t, rfl, hb⟩ := h
  intro f ss rest is ks r' _ hss
  exact slots_SG_name env f s hs ss b (t ++ rest) rest r segs is ks r' hb (hd rest) hss

theorem SGFact.term {env : Env} {s : Slot} (hs : s = .S ∨ s = .G) {e : Bytes} {tm : Tm} (h : TFact env e tm)
    (hb : ∃ b t, e = b :: t ∧ ((0x60 ≤ b ∧ b ≤ 0x6E) ∨ b = 0x83 ∨ b = 0x88 ∨ b = 0x71)) :
    SGFact env s e tm := by
  obtain ⟨b, t, rfl, hb⟩ := hb
  intro f ss rest is ks r' hf hss
  exact slots_SG_term env f s hs ss b (t ++ rest) rest tm is ks r' hb (h f rest hf) hss

theorem SGFact.null {env : Env} : SGFact env .G [0x00] (.node .nullName [] [] .nil) := by
  intro f ss rest is ks r' _ hss
  exact slots_G_null env f ss rest is ks r' hss

/-- the denotation of a child in Target position -/
def tgt (a : Aml) : Tm :=
  match intValue? a with
  | some 0 => .node .nullName [] [] .nil
  | _ => meaning a

theorem targets_cons (a : Aml) (r : AmlList) : targets (.cons a r) = tgt a :: targets r := by
  simp only [targets, tgt]; rfl

theorem okSuperName_okTerm (a : Aml) (h : okSuperName a = true) : okTerm a = true := by
  unfold okSuperName at h
  split at h <;> first | rfl | exact absurd h (by simp)

theorem okSuperName_int (a : Aml) (h : okSuperName a = true) : intValue? a = none := by
  unfold okSuperName at h
  split at h <;> first | rfl | exact absurd h (by simp)

theorem ofNat_range (base n hi : Nat) (h : base + n ≤ hi) (hh : hi < 256) :
    UInt8.ofNat base ≤ UInt8.ofNat (base + n) ∧ UInt8.ofNat (base + n) ≤ UInt8.ofNat hi := by
  simp only [UInt8.le_iff_toNat_le, UInt8.toNat_ofNat']; omega

theorem sfact {env : Env} {a : Aml} {e : Bytes} {s : Slot} (hs : s = .S ∨ s = .G) (i : RT env a)
    (hw : wf env a = true) (hk : okSuperName a = true) (he : a.enc = some e) :
    SGFact env s e (meaning a) := by
  have ht := i.tfact hw (okSuperName_okTerm a hk) he
  unfold okSuperName at hk
  split at hk
  · -- local
    rename_i ints blobs kids
    refine SGFact.term hs ht ?_
    simp only [Aml.enc] at he
    split at he
    · rename_i h7
      injection he with he; subst he
      refine ⟨_, _, rfl, Or.inl ?_⟩
      have := ofNat_range 0x60 (ints.getD 0 0) 0x67 (by omega) (by omega)
      refine ⟨this.1, UInt8.le_trans this.2 (by decide)⟩
    · simp at he
  · -- arg
    rename_i ints blobs kids
    refine SGFact.term hs ht ?_
    simp only [Aml.enc] at he
    split at he
    · rename_i h7
      injection he with he; subst he
      refine ⟨_, _, rfl, Or.inl ?_⟩
      have := ofNat_range 0x68 (ints.getD 0 0) 0x6E (by omega) (by omega)
      refine ⟨UInt8.le_trans (by decide) this.1, this.2⟩
    · simp at he
  · -- path
    rename_i ints blobs kids
    simp only [Aml.enc] at he
    simp only [wf, Bool.and_eq_true, decide_eq_true_eq] at hw
    have : meaning (.node .path ints blobs kids) = nameOf (blobs.getD 0 []) := by simp only [meaning]
    rw [this]
    exact SGFact.name hs (NFact.path he hw.2.1)
  · -- deref
    rename_i ints blobs kids
    refine SGFact.term hs ht ?_
    simp only [Aml.enc, Option.map_eq_some_iff] at he
    obtain ⟨x, _, rfl⟩ := he
    exact ⟨0x83, _, rfl, by decide⟩
  · -- index
    rename_i ints blobs kids
    refine SGFact.term hs ht ?_
    simp only [Aml.enc, Option.bind_eq_bind, Option.bind_eq_some_iff, Option.some.injEq] at he
    obtain ⟨_, _, _, _, _, _, rfl⟩ := he
    exact ⟨0x88, _, rfl, by decide⟩
  · exact absurd hk (by simp)


theorem enc_of_int_zero (a : Aml) (e : Bytes) (h : intValue? a = some 0) (he : a.enc = some e) : e = [0x00] := by
  unfold intValue? at h
  split at h
  · simp only [Aml.enc, Option.some.injEq] at he; exact he.symm
  · simp at h
  all_goals first
    | (injection h with h
       simp only [Aml.enc, h, Option.some.injEq] at he
       subst he; decide)
    | simp at h

theorem gfact {env : Env} {a : Aml} {e : Bytes} (i : RT env a)
    (hw : wf env a = true) (hk : okTarget a = true) (he : a.enc = some e) :
    SGFact env .G e (tgt a) := by
  unfold okTarget at hk
  simp only [Bool.or_eq_true, beq_iff_eq] at hk
  rcases hk with hk | hk
  · have : tgt a = meaning a := by unfold tgt; rw [okSuperName_int a hk]
    rw [this]
    exact sfact (Or.inr rfl) i hw hk he
  · have : tgt a = .node .nullName [] [] .nil := by unfold tgt; rw [hk]; rfl
    rw [this, enc_of_int_zero a e hk he]
    exact SGFact.null

theorem nfact {env : Env} {a : Aml} {e : Bytes}
    (hw : wf env a = true) (hk : okNameString a = true) (he : a.enc = some e) :
    NFact e (meaning a) := by
  unfold okNameString at hk
  split at hk
  · rename_i ints blobs kids
    simp only [Aml.enc] at he
    simp only [wf, Bool.and_eq_true, decide_eq_true_eq] at hw
    have : meaning (.node .path ints blobs kids) = nameOf (blobs.getD 0 []) := by simp only [meaning]
    rw [this]
    exact NFact.path he hw.2.1
  · rename_i ints blobs kids
    simp only [Aml.enc, Option.some.injEq] at he
    subst he
    have : meaning (.node .fieldname ints blobs kids) = mkName false [blobs.getD 0 []] .nil := by
      simp only [meaning]
    rw [this]
    exact NFact.seg hk
  · exact absurd hk (by simp)

end Acpi.Lemmas.AmlParse
