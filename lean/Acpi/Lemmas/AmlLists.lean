/-
  Acpi.Lemmas.AmlLists — child lists: exactly-n TermArgs (method invocation), TermList bodies,
  PackageElementLists.
-/
import Acpi.Lemmas.AmlStep1
set_option linter.unusedSimpArgs false
namespace Acpi.Lemmas.AmlParse
open Acpi Spec Spec.Aml

theorem catOpt_cons_some {a : Aml} {r : AmlList} {d : Bytes}
    (h : catOpt (AmlList.encs (.cons a r)) = some d) :
    ∃ ea dr, a.enc = some ea ∧ catOpt (AmlList.encs r) = some dr ∧ d = ea ++ dr := by
  simp only [AmlList.encs] at h
  cases he : a.enc with
  | none => simp [he, catOpt] at h
  | some ea =>
    simp only [he, catOpt, Option.map_eq_some_iff] at h
    obtain ⟨dr, hdr, rfl⟩ := h
    exact ⟨ea, dr, rfl, hdr, rfl⟩

theorem catOpt_nil : catOpt (AmlList.encs .nil) = some [] := rfl

theorem allTerms_cons {a : Aml} {r : AmlList} (h : (AmlList.toList (.cons a r)).all okTerm = true) :
    okTerm a = true ∧ (AmlList.toList r).all okTerm = true := by
  simpa [AmlList.toList] using h

/-- exactly `kids.length` TermArgs -/
theorem terms_fact (env : Env) : ∀ (kids : AmlList) (d : Bytes), RTs env kids → wfs env kids = true →
    kids.toList.all okTerm = true → catOpt (AmlList.encs kids) = some d →
    ∀ (f : Nat) (rest : Bytes), 8 * d.length + 17 ≤ f →
      parseTerms env f kids.length (d ++ rest) = some (TmList.ofList (meanings kids), rest)
  | .nil, d, _, _, _, hd, f, rest, _ => by
    simp only [catOpt_nil, Option.some.injEq] at hd
    subst hd
    exact terms_zero env f rest
  | .cons a r, d, ih, hw, hk, hd, f, rest, hf => by
    obtain ⟨ea, dr, he, hdr, rfl⟩ := catOpt_cons_some hd
    obtain ⟨hka, hkr⟩ := allTerms_cons hk
    simp only [wfs, Bool.and_eq_true] at hw
    have T := ih.1.tfact hw.1 hka he
    have := T.nonempty
    simp only [List.length_append] at hf
    obtain ⟨f, rfl⟩ : ∃ g, f = g + 1 := ⟨f - 1, by omega⟩
    rw [List.append_assoc]
    exact terms_succ env f r.length _ _ rest _ _ (T f _ (by omega))
      (terms_fact env r dr ih.2 hw.2 hkr hdr f rest (by omega))

/-- a TermList body -/
theorem termList_fact (env : Env) : ∀ (kids : AmlList) (d : Bytes), RTs env kids → wfs env kids = true →
    kids.toList.all okTerm = true → catOpt (AmlList.encs kids) = some d →
    ∀ (f : Nat), 8 * d.length + 17 ≤ f →
      parseTermList env f d = some (TmList.ofList (meanings kids))
  | .nil, d, _, _, _, hd, f, _ => by
    simp only [catOpt_nil, Option.some.injEq] at hd
    subst hd
    exact termList_nil env f
  | .cons a r, d, ih, hw, hk, hd, f, hf => by
    obtain ⟨ea, dr, he, hdr, rfl⟩ := catOpt_cons_some hd
    obtain ⟨hka, hkr⟩ := allTerms_cons hk
    simp only [wfs, Bool.and_eq_true] at hw
    have T := ih.1.tfact hw.1 hka he
    have hne := T.nonempty
    simp only [List.length_append] at hf
    obtain ⟨f, rfl⟩ : ∃ g, f = g + 1 := ⟨f - 1, by omega⟩
    have hnil : ea ++ dr ≠ [] := by
      intro e; have := congrArg List.length e; simp only [List.length_append, List.length_nil] at this; omega
    have h1 := T f dr (by omega)
    exact termList_cons env f _ dr _ _ hnil h1
      (termList_fact env r dr ih.2 hw.2 hkr hdr f (by omega))

/-! ### package elements -/

theorem meaning_nameRef (op : Op) (ints : List Nat) (blobs : List Bytes) (kids : AmlList)
    (i : List Nat) (b : List Bytes) (k : TmList)
    (h : meaning (.node op ints blobs kids) = .node .nameRef i b k) :
    op = .path ∨ op = .call ∨ op = .fieldname := by
  cases op <;> first
    | (left; rfl) | (right; left; rfl) | (right; right; rfl)
    | (exfalso; simp only [meaning, intTm, Tm.node.injEq, reduceCtorEq, false_and] at h)

/-- a term that starts with a name character parses as a name -/
theorem parseTerm_lead_inv (env : Env) (f : Nat) (b : UInt8) (bs r : Bytes) (tm : Tm)
    (hb : isNameLead b = true) (h : parseTerm env f (b :: bs) = some (tm, r)) :
    ∃ rt segs args, tm = mkName rt segs args := by
  cases f with
  | zero => simp [parseTerm] at h
  | succ f =>
    obtain ⟨h1, h2, h3, h4⟩ := lead_classes b hb
    rw [parseTerm.eq_3] at h
    simp only [if_neg h1, if_neg h2, if_neg h3, if_neg h4, hb, if_true] at h
    split at h
    · simp only [Option.map_eq_some_iff, Prod.mk.injEq] at h
      obtain ⟨⟨args, r'⟩, _, rfl, _⟩ := h
      exact ⟨_, _, _, rfl⟩
    · simp at h

/-- the extra condition `wf` puts on package elements -/
def elemOk : Aml → Bool
  | .node .call _ _ k => k.length = 0
  | _ => true

theorem elem_fact (env : Env) (a : Aml) (ea : Bytes) (i : RT env a) (hw : wf env a = true)
    (hk : okTerm a = true) (hel : elemOk a = true) (he : a.enc = some ea) :
    (NFact ea (meaning a)) ∨ (∃ b t, ea = b :: t ∧ ¬ isNameLead b = true) := by
  have T := i.tfact hw hk he
  obtain ⟨op, ints, blobs, kids⟩ := a
  by_cases hp : op = .path
  · subst hp
    left
    simp only [Aml.enc] at he
    simp only [wf, Bool.and_eq_true, decide_eq_true_eq] at hw
    have : meaning (.node .path ints blobs kids) = nameOf (blobs.getD 0 []) := by simp only [meaning]
    rw [this]
    exact NFact.path he hw.2.1
  · by_cases hc : op = .call
    · subst hc
      left
      simp only [elemOk, decide_eq_true_eq] at hel
      cases kids with
      | cons _ _ => simp [AmlList.length] at hel
      | nil =>
        simp only [Aml.enc, AmlList.encs, catOpt, Option.bind_eq_bind, Option.bind_eq_some_iff,
          Option.some.injEq, List.append_nil] at he
        obtain ⟨p, hp', _, rfl, rfl⟩ := he
        simp only [wf, Bool.and_eq_true, decide_eq_true_eq] at hw
        have : meaning (.node .call ints blobs .nil) = nameOf (blobs.getD 0 []) := by
          simp only [meaning, meanings, TmList.ofList]; rfl
        rw [this, List.append_nil]
        exact NFact.path hp' hw.2.1.1
    · right
      have hne := T.nonempty
      cases ea with
      | nil => simp at hne
      | cons b t =>
        refine ⟨b, t, rfl, fun hb => ?_⟩
        have := T (8 * (b :: t).length + 16) [] (Nat.le_refl _)
        obtain ⟨rt, segs, args, hm⟩ := parseTerm_lead_inv env _ b _ _ _ hb this
        rcases meaning_nameRef op ints blobs kids _ _ _ hm with h | h | h
        · exact hp h
        · exact hc h
        · subst h; simp [okTerm] at hk


theorem elems_cons (a : Aml) (r : AmlList) : elems (.cons a r) = meaning a :: elems r := by
  simp only [elems]

/-- a PackageElementList -/
theorem elems_fact (env : Env) : ∀ (kids : AmlList) (d : Bytes), RTs env kids → wfs env kids = true →
    kids.toList.all okTerm = true → kids.toList.all elemOk = true → catOpt (AmlList.encs kids) = some d →
    ∀ (f : Nat), 8 * d.length + 17 ≤ f →
      parseElems env f d = some (TmList.ofList (elems kids))
  | .nil, d, _, _, _, _, hd, f, _ => by
    simp only [catOpt_nil, Option.some.injEq] at hd
    subst hd
    exact elems_nil env f
  | .cons a r, d, ih, hw, hk, hel, hd, f, hf => by
    obtain ⟨ea, dr, he, hdr, rfl⟩ := catOpt_cons_some hd
    obtain ⟨hka, hkr⟩ := allTerms_cons hk
    have hel' : elemOk a = true ∧ (AmlList.toList r).all elemOk = true := by
      simpa [AmlList.toList] using hel
    simp only [wfs, Bool.and_eq_true] at hw
    have T := ih.1.tfact hw.1 hka he
    have hne := T.nonempty
    simp only [List.length_append] at hf
    obtain ⟨f, rfl⟩ : ∃ g, f = g + 1 := ⟨f - 1, by omega⟩
    have hrec := elems_fact env r dr ih.2 hw.2 hkr hel'.2 hdr f (by omega)
    rw [elems_cons]
    rcases elem_fact env a ea ih.1 hw.1 hka hel'.1 he with hN | ⟨b, t, rfl, hb⟩
    · obtain ⟨rt, segs, hm, hdec, b, t, rfl, hb⟩ := hN
      rw [hm]
      exact elems_name env f b (t ++ dr) dr rt segs _ hb (hdec dr) hrec
    · exact elems_term env f b (t ++ dr) dr _ _ hb (T f dr (by omega)) hrec

end Acpi.Lemmas.AmlParse
