/-
  Acpi.Lemmas.AmlEisa — the model's `EISAName::new` / `Uuid::new` values are the specification's
  `compress` / `uuidToBuffer` on well-formed ids (bridge used by C06).
-/
import Acpi.Lemmas.Eisa
import Acpi.Spec.AmlWf
set_option linter.unusedSimpArgs false
namespace Acpi.Lemmas.AmlParse
open Acpi Spec Spec.Aml Lemmas.Eisa

theorem subBase_upper : ∀ n < 91, 65 ≤ n → (subBase (UInt8.ofNat n)).map UInt32.toNat = some (n - 64) := by
  decide +kernel

theorem upper_range (c : Char) (h : isUpperLetterC c = true) : 65 ≤ c.toNat ∧ c.toNat < 91 := by
  simp only [isUpperLetterC, Bool.and_eq_true, decide_eq_true_eq, Char.le_def, UInt32.le_iff_toNat_le] at h
  have : c.toNat = c.val.toNat := rfl
  simp only [Char.reduceVal, UInt32.reduceToNat] at h
  omega

theorem hex_small (c : Char) (h : isHexC c = true) : c.toNat < 128 := by
  simp only [isHexC, Bool.or_eq_true, Bool.and_eq_true, decide_eq_true_eq, Char.le_def,
    UInt32.le_iff_toNat_le] at h
  have : c.toNat = c.val.toNat := rfl
  simp only [Char.reduceVal, UInt32.reduceToNat] at h
  omega

theorem toDigit_hex_nat : ∀ n < 128, isHexC (Char.ofNat n) = true →
    (toDigit16 (Char.ofNat n)).map UInt32.toNat = some (Eisa.hexVal (Char.ofNat n)) ∧
    Eisa.hexVal (Char.ofNat n) < 16 := by
  decide +kernel

theorem subBase_of_upper (c : Char) (h : isUpperLetterC c = true) :
    ∃ x, subBase (UInt8.ofNat c.toNat) = some x ∧ x.toNat = c.toNat - 64 ∧ x.toNat < 32 := by
  obtain ⟨h1, h2⟩ := upper_range c h
  have := subBase_upper c.toNat h2 h1
  simp only [Option.map_eq_some_iff] at this
  obtain ⟨x, hx, hv⟩ := this
  exact ⟨x, hx, hv, by omega⟩

theorem toDigit_of_hex (c : Char) (h : isHexC c = true) :
    ∃ x, toDigit16 c = some x ∧ x.toNat = Eisa.hexVal c ∧ x.toNat < 16 := by
  have hs := hex_small c h
  have := toDigit_hex_nat c.toNat hs (by rw [Char.ofNat_toNat]; exact h)
  rw [Char.ofNat_toNat] at this
  obtain ⟨h1, h2⟩ := this
  simp only [Option.map_eq_some_iff] at h1
  obtain ⟨x, hx, hv⟩ := h1
  exact ⟨x, hx, hv, by omega⟩

theorem eisa_value (c0 c1 c2 c3 c4 c5 c6 : Char)
    (h0 : isUpperLetterC c0 = true) (h1 : isUpperLetterC c1 = true) (h2 : isUpperLetterC c2 = true)
    (h3 : isHexC c3 = true) (h4 : isHexC c4 = true) (h5 : isHexC c5 = true) (h6 : isHexC c6 = true) :
    ∃ v, eisaValue ([c0, c1, c2, c3, c4, c5, c6].map (fun c => UInt8.ofNat c.toNat)) [c0, c1, c2, c3, c4, c5, c6]
      = some v ∧ v.toNat = Eisa.compress [c0, c1, c2, c3, c4, c5, c6] := by
  obtain ⟨x0, e0, v0, b0⟩ := subBase_of_upper c0 h0
  obtain ⟨x1, e1, v1, b1⟩ := subBase_of_upper c1 h1
  obtain ⟨x2, e2, v2, b2⟩ := subBase_of_upper c2 h2
  obtain ⟨x3, e3, v3, b3⟩ := toDigit_of_hex c3 h3
  obtain ⟨x4, e4, v4, b4⟩ := toDigit_of_hex c4 h4
  obtain ⟨x5, e5, v5, b5⟩ := toDigit_of_hex c5 h5
  obtain ⟨x6, e6, v6, b6⟩ := toDigit_of_hex c6 h6
  unfold eisaValue
  rw [if_neg (by simp)]
  simp only [List.map_cons, List.getElem!_cons_zero, List.getElem!_cons_succ, List.getElem?_cons_zero,
    List.getElem?_cons_succ, e0, e1, e2, e3, e4, e5, e6, Option.bind_some, Option.bind_eq_bind]
  refine ⟨_, rfl, ?_⟩
  have hp := pack_toNat x0 x1 x2 x3 x4 x5 x6 b0 b1 b2 b3 b4 b5 b6
  obtain ⟨n0, n1, n2, n3⟩ := packed_bytes x0.toNat x1.toNat x2.toNat x3.toNat x4.toNat x5.toNat x6.toNat
    b2 b3 b4 b5 b6 _ hp
  rw [swapBytes_toNat, n0, n1, n2, n3]
  unfold Eisa.compress
  simp only [List.getD_cons_zero, List.getD_cons_succ, ← v0, ← v1, ← v2, ← v3, ← v4, ← v5, ← v6]
  omega


/-! ### UUID -/

theorem mapM_id_map {α β : Type} (l : List α) (f : α → Option β) (g : α → β)
    (h : ∀ p ∈ l, f p = some (g p)) : (l.map f).mapM id = some (l.map g) := by
  induction l with
  | nil => rfl
  | cons a as ih =>
    rw [List.map_cons, List.mapM_cons, id, h a (by simp), ih (fun p hp => h p (by simp [hp]))]
    rfl

theorem nibbles : ∀ a < 16, ∀ b < 16,
    ((UInt32.ofNat a).toUInt8 <<< 4) ||| (UInt32.ofNat b).toUInt8 = UInt8.ofNat (16 * a + b) := by
  decide +kernel

theorem hex2byte_of_hex (c1 c2 : Char) (h1 : isHexC c1 = true) (h2 : isHexC c2 = true) :
    hex2byte c1 c2 = some (UInt8.ofNat (16 * Eisa.hexVal c1 + Eisa.hexVal c2)) := by
  obtain ⟨x1, e1, v1, b1⟩ := toDigit_of_hex c1 h1
  obtain ⟨x2, e2, v2, b2⟩ := toDigit_of_hex c2 h2
  unfold hex2byte
  simp only [e1, e2, Option.bind_some, Option.bind_eq_bind]
  have := nibbles x1.toNat b1 x2.toNat b2
  rw [UInt32.ofNat_toNat, UInt32.ofNat_toNat] at this
  rw [this, v1, v2]

theorem uuidPairs_ok : ∀ p ∈ uuidPairs, p.1 < 36 ∧ p.2 < 36 ∧ p.2 = p.1 + 1 ∧
    ¬ (p.1 = 8 ∨ p.1 = 13 ∨ p.1 = 18 ∨ p.1 = 23) ∧ ¬ (p.2 = 8 ∨ p.2 = 13 ∨ p.2 = 18 ∨ p.2 = 23) := by
  decide

theorem uuidToBuffer_eq (cs : List Char) :
    Eisa.uuidToBuffer cs = uuidPairs.map
      (fun p => UInt8.ofNat (16 * Eisa.hexVal (cs.getD p.1 '0') + Eisa.hexVal (cs.getD (p.1 + 1) '0'))) := rfl

theorem getD_any (cs : List Char) (i : Nat) (h : i < cs.length) (d d' : Char) : cs.getD i d = cs.getD i d' := by
  simp only [List.getD_eq_getElem?_getD, List.getElem?_eq_getElem h, Option.getD_some]

theorem getBang (cs : List Char) (i : Nat) (h : i < cs.length) (d : Char) : cs[i]! = cs.getD i d := by
  simp only [List.getD_eq_getElem?_getD, List.getElem?_eq_getElem h, Option.getD_some, getElem!_pos cs i h]

theorem uuid_value (cs : List Char) (hl : cs.length = 36)
    (h : (List.range 36).all (fun j =>
      if j = 8 ∨ j = 13 ∨ j = 18 ∨ j = 23 then decide (cs.getD j 'x' = '-') else isHexC (cs.getD j 'x')) = true) :
    uuidBytes cs = some (Eisa.uuidToBuffer cs) := by
  simp only [List.all_eq_true, List.mem_range] at h
  have hd : ¬ (cs[8]! ≠ '-' ∨ cs[13]! ≠ '-' ∨ cs[18]! ≠ '-' ∨ cs[23]! ≠ '-') := by
    have h8 := h 8 (by decide)
    have h13 := h 13 (by decide)
    have h18 := h 18 (by decide)
    have h23 := h 23 (by decide)
    simp only [true_or, or_true, if_true, decide_eq_true_eq] at h8 h13 h18 h23
    rw [getBang cs 8 (by omega) 'x', getBang cs 13 (by omega) 'x', getBang cs 18 (by omega) 'x',
      getBang cs 23 (by omega) 'x', h8, h13, h18, h23]
    simp
  rw [uuidBytes_eq cs hl hd, uuidToBuffer_eq]
  apply mapM_id_map
  intro p hp
  obtain ⟨p1, p2, hp2, n1, n2⟩ := uuidPairs_ok p hp
  have a1 := h p.1 p1
  have a2 := h p.2 p2
  rw [if_neg n1] at a1
  rw [if_neg n2] at a2
  rw [getBang cs p.1 (by omega) 'x', getBang cs p.2 (by omega) 'x', hex2byte_of_hex _ _ a1 a2, ← hp2,
    getD_any cs p.1 (by omega) 'x' '0', getD_any cs p.2 (by omega) 'x' '0']

end Acpi.Lemmas.AmlParse
