/-
  Lemmas for Props/C10/Oracle.lean: the resource-template oracle (`Spec.rtOracle`) on the
  model's encoder — the per-descriptor check over the walk's items, and the DefBuffer header.
-/
import Acpi.Spec.ResTemplate
import Acpi.Props.C10
namespace Acpi.C10
open Acpi Spec

theorem isDescriptor_eq (op : Op) : Spec.isDescriptor op = C10.isDescriptor op := by
  cases op <;> rfl

/-- one item per child that encodes -/
theorem length_items : (kids : AmlList) → (ds : Bytes) → catOpt (AmlList.encs kids) = some ds →
    ((AmlList.encs kids).filterMap id).length = kids.toList.length
  | .nil, _, _ => by simp [AmlList.encs, AmlList.toList]
  | .cons a r, ds, h => by
    simp only [AmlList.encs] at h ⊢
    obtain ⟨d, ds', hd, hr, rfl⟩ := Res.catOpt_cons_some _ _ _ h
    have := length_items r ds' hr
    simp [hd, AmlList.toList, this]

/-- the per-descriptor check of `rtOracle` fails at no index -/
theorem kid_ok : (kids : AmlList) → allDescriptors kids → (ds : Bytes) →
    catOpt (AmlList.encs kids) = some ds → ∀ (tail : List Bytes) (i : Nat), i < kids.toList.length →
    ∀ dflt : Aml,
    (match kids.toList.getD i dflt with
      | .node op ints _ _ =>
        match Spec.Res.rows op ints with
        | some (total, rs) =>
          (Spec.conforms total rs (((AmlList.encs kids).filterMap id ++ tail).getD i [])).isSome
        | none => true) = false
  | .nil, _, _, _, _, i, hi, _ => by simp [AmlList.toList] at hi
  | .cons (.node op ints blobs ks) r, hk, ds, h, tail, i, hi, dflt => by
    simp only [AmlList.encs] at h ⊢
    obtain ⟨d, ds', hd, hr, rfl⟩ := Res.catOpt_cons_some _ _ _ h
    obtain ⟨hop, hwf, hrest⟩ := hk
    rw [hd]
    simp only [List.filterMap_cons, id, AmlList.toList, List.cons_append]
    cases i with
    | zero =>
      simp only [List.getD_cons_zero]
      obtain ⟨total, rs, hrows, hc⟩ := descriptor_conforms op hop ints blobs ks hwf d hd
      simp only [hrows, hc, Option.isSome_none]
    | succ j =>
      simp only [List.getD_cons_succ]
      simp only [AmlList.toList, List.length_cons] at hi
      exact kid_ok r hrest ds' hr tail j (by omega) dflt

/-- a template that encodes has a payload below 2^28 bytes -/
theorem template_small (ints : List Nat) (blobs : List Bytes) (kids : AmlList)
    (bs : Bytes) (h : (Aml.node .rt ints blobs kids).enc = some bs) :
    ∃ ds, catOpt (AmlList.encs kids) = some ds ∧ (ds ++ [0x79, 0x00]).length < 2 ^ 28 := by
  simp only [Aml.enc] at h
  cases hc : catOpt (AmlList.encs kids) with
  | none => rw [hc] at h; cases h
  | some ds =>
    rw [hc, Option.bind_some] at h
    split at h
    · cases h
    · rename_i hp
      exact ⟨ds, rfl, by have := (not_panics _ hp).2; omega⟩

/-- the DefBuffer header of the oracle reads back the payload -/
theorem bufferPayloadAny_framed (pl payload bs : Bytes) (hlt : payload.length < 2 ^ 64)
    (hbs : bs = [0x11] ++ pl ++ Spec.Int.enc payload.length ++ payload)
    (hdec : PkgLength.decode (bs.drop 1) = some (bs.length - 1, pl.length)) :
    rtOracle.bufferPayloadAny bs = some payload := by
  subst hbs
  simp only [List.cons_append, List.nil_append, List.drop_succ_cons, List.drop_zero, List.append_assoc,
    List.length_cons, Nat.add_sub_cancel] at hdec
  unfold rtOracle.bufferPayloadAny
  simp only [List.cons_append, List.nil_append, List.append_assoc, hdec]
  rw [if_neg (by simp), List.drop_left, C08.decode_enc _ _ hlt]
  simp

end Acpi.C10
