/-
  Acpi.Lemmas.AmlStep7 — C06 induction step: resource templates.
-/
import Acpi.Lemmas.AmlStep6
import Acpi.Lemmas.AmlRes
set_option linter.unusedSimpArgs false
namespace Acpi.Lemmas.AmlParse
open Acpi Spec Spec.Aml

/-- the children `wf` admits in a resource template -/
def descOk : Aml → Bool
  | .node o is _ _ => isDesc o && descWfB o is

theorem resBytes_fact : ∀ (kids : AmlList) (d : Bytes), kids.toList.all descOk = true →
    catOpt (AmlList.encs kids) = some d → d = (resBytes kids).flatten
  | .nil, d, _, hd => by
    simp only [catOpt_nil, Option.some.injEq] at hd
    subst hd; rfl
  | .cons (.node op ints blobs k) r, d, hk, hd => by
    obtain ⟨ea, dr, he, hdr, rfl⟩ := catOpt_cons_some hd
    have hk' : descOk (.node op ints blobs k) = true ∧ (AmlList.toList r).all descOk = true := by
      simpa [AmlList.toList] using hk
    simp only [descOk, Bool.and_eq_true] at hk'
    simp only [resBytes, List.flatten_cons]
    rw [desc_enc op ints blobs k ea hk'.1.1 he, resBytes_fact r dr hk'.2 hdr]

theorem step_rt (env : Env) : Step env .rt := by
  intro ints blobs kids ih bs rest fuel hwf hok henc hf
  simp only [wf, Bool.and_eq_true, decide_eq_true_eq] at hwf
  obtain ⟨_, hall⟩ := hwf
  have hall' : kids.toList.all descOk = true := hall
  simp only [Aml.enc, Option.bind_eq_some_iff] at henc
  obtain ⟨d, hd, h⟩ := henc
  have hobj : pkgObj [0x11] (encUsize (UInt64.ofNat (d ++ [0x79, 0x00]).length) ++ (d ++ [0x79, 0x00])) = some bs := by
    have hlen : (encUsize (UInt64.ofNat (d ++ [0x79, 0x00]).length) ++ (d ++ [0x79, 0x00])).length =
        (d ++ [0x79, 0x00]).length + (encUsize (UInt64.ofNat (d ++ [0x79, 0x00]).length)).length := by
      rw [List.length_append, Nat.add_comm]
    unfold pkgObj
    rw [hlen]
    simpa only [List.append_assoc] using h
  have hm : meaning (.node .rt ints blobs kids) =
      .node (.op 0x11) [] [d ++ [0x79, 0x00]] (TmList.cons (intTm (d ++ [0x79, 0x00]).length) .nil) := by
    simp only [meaning, TmList.ofList, resBytes_fact kids d hall' hd]
  rw [hm]
  exact (tfact_buffer env _ bs hobj).finish rfl hf

end Acpi.Lemmas.AmlParse
