/-
  Acpi.Lemmas.AmlStep5 — C06 induction steps: packages and buffers.
-/
import Acpi.Lemmas.AmlStep4
set_option linter.unusedSimpArgs false
namespace Acpi.Lemmas.AmlParse
open Acpi Spec Spec.Aml

theorem step_pkg (env : Env) : Step env .pkg := by
  intro ints blobs kids ih bs rest fuel hwf hok henc hf
  simp only [wf, Bool.and_eq_true, decide_eq_true_eq] at hwf
  obtain ⟨hws, ⟨hlen, hall⟩, hel⟩ := hwf
  have hel' : kids.toList.all elemOk = true := hel
  rw [toList_length] at hlen
  have hl' : ¬ 255 < kids.length := by omega
  simp only [Aml.enc, if_neg hl', Option.bind_eq_some_iff] at henc
  obtain ⟨d, hd, hobj⟩ := henc
  obtain ⟨hpl, rfl⟩ := pkgObj_some hobj
  have hm : meaning (.node .pkg ints blobs kids) =
      .node (.op (0x12 : UInt8).toNat) [(UInt8.ofNat kids.length).toNat] []
        (TmList.nil.append (TmList.ofList (elems kids))) := by
    simp only [meaning, append_nil_left, toNat_ofNat_lt _ (show kids.length < 256 by omega)]; rfl
  rw [hm]
  have T := tfact_elems (env := env) (.plain 0x12 _ (by decide) (by decide) rfl) (ss := [.B]) rfl (by decide)
    (.B (UInt8.ofNat kids.length) .nil) (elems_fact env kids d ih hws hall hel' hd)
    (by simp only [List.append_assoc, List.cons_append, List.nil_append, List.append_nil]) hpl
  exact T.finish rfl hf

theorem step_pkgb (env : Env) : Step env .pkgb := by
  intro ints blobs kids ih bs rest fuel hwf hok henc hf
  rw [C15.pkgb_eq_pkg] at henc
  have hwf' : wf env (.node .pkg ints blobs kids) = true := by
    simp only [wf] at hwf ⊢; exact hwf
  have hm : meaning (.node .pkgb ints blobs kids) = meaning (.node .pkg ints blobs kids) := by
    simp only [meaning]
  rw [hm]
  exact step_pkg env ints blobs kids ih bs rest fuel hwf' rfl henc hf

theorem step_varpkg (env : Env) : Step env .varpkg := by
  intro ints blobs kids ih bs rest fuel hwf hok henc hf
  simp only [Aml.enc, Option.bind_eq_some_iff] at henc
  obtain ⟨e0, h0, hobj⟩ := henc
  obtain ⟨hpl, rfl⟩ := pkgObj_some hobj
  obtain ⟨a0, r, rfl, h0⟩ := kids1 h0
  simp only [wf, wfs, AmlList.toList, List.getD_cons_zero, Bool.and_eq_true] at hwf
  obtain ⟨⟨hw0, _⟩, hk0⟩ := hwf
  have hm : meaning (.node .varpkg ints blobs (.cons a0 r)) =
      .node (.op (0x13 : UInt8).toNat) [] [] ((TmList.cons (meaning a0) .nil).append .nil) := by
    simp only [meaning, meanings, List.getD_cons_zero, TmList.ofList]; rfl
  rw [hm]
  have T := tfact_elems (env := env) (.plain 0x13 _ (by decide) (by decide) rfl) (ss := [.T]) (d := []) rfl
    (by decide) (.T (ih.1.tfact hw0 hk0 h0) .nil) (fun f _ => elems_nil env f)
    (by simp only [List.append_nil]) hpl
  exact T.finish rfl hf

theorem step_bufterm (env : Env) : Step env .bufterm := by
  intro ints blobs kids ih bs rest fuel hwf hok henc hf
  simp only [Aml.enc, Option.bind_eq_some_iff] at henc
  obtain ⟨e0, h0, hobj⟩ := henc
  obtain ⟨hpl, rfl⟩ := pkgObj_some hobj
  obtain ⟨a0, r, rfl, h0⟩ := kids1 h0
  simp only [wf, wfs, AmlList.toList, List.getD_cons_zero, Bool.and_eq_true] at hwf
  obtain ⟨⟨hw0, _⟩, hk0⟩ := hwf
  have hm : meaning (.node .bufterm ints blobs (.cons a0 r)) =
      .node (.op (0x11 : UInt8).toNat) [] [[]] (TmList.cons (meaning a0) .nil) := by
    simp only [meaning, meanings, List.getD_cons_zero, TmList.ofList]; rfl
  rw [hm]
  have T := tfact_bytes (env := env) (.plain 0x11 _ (by decide) (by decide) rfl) (ss := [.T]) (d := []) rfl
    (by decide) (.T (ih.1.tfact hw0 hk0 h0) .nil) (by simp only [List.append_nil]) hpl
  exact T.finish rfl hf

/-- a buffer whose declared size is its payload length -/
theorem tfact_buffer (env : Env) (data bs : Bytes)
    (hobj : pkgObj [0x11] (encUsize (UInt64.ofNat data.length) ++ data) = some bs) :
    TFact env bs (.node (.op 0x11) [] [data] (TmList.cons (intTm data.length) .nil)) := by
  obtain ⟨hpl, rfl⟩ := pkgObj_some hobj
  have h28 : ¬ 2 ^ 28 ≤ pkgLenTotal (encUsize (UInt64.ofNat data.length) ++ data).length true := by
    simpa [pkgLenPanics] using hpl
  have hlt : data.length < 2 ^ 28 := by
    simp only [pkgLenTotal, List.length_append] at h28; omega
  have hv : (UInt64.ofNat data.length).toNat = data.length := by
    simp only [UInt64.toNat_ofNat']; omega
  have he : encUsize (UInt64.ofNat data.length) = Int.enc data.length := by
    simp only [encUsize, C08.encU64_spec, hv]
  rw [he] at hpl ⊢
  exact tfact_bytes (env := env) (.plain 0x11 _ (by decide) (by decide) rfl) (ss := [.T]) rfl
    (by decide) (.T (tfact_int env data.length (by omega)) .nil) (by simp only [List.append_nil]) hpl

theorem step_buf (env : Env) : Step env .buf := by
  intro ints blobs kids ih bs rest fuel hwf hok henc hf
  simp only [Aml.enc] at henc
  have hm : meaning (.node .buf ints blobs kids) =
      .node (.op 0x11) [] [blobs.getD 0 []] (TmList.cons (intTm (blobs.getD 0 []).length) .nil) := by
    simp only [meaning, TmList.ofList]
  rw [hm]
  exact (tfact_buffer env _ bs henc).finish rfl hf

end Acpi.Lemmas.AmlParse
