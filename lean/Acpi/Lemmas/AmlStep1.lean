/-
  Acpi.Lemmas.AmlStep1 — C06 induction steps: operators without a PkgLength body.
-/
import Acpi.Lemmas.AmlKids
namespace Acpi.Lemmas.AmlParse
open Acpi Spec Spec.Aml

/-- induction step for constructor `op` -/
def Step (env : Env) (op : Op) : Prop :=
  ∀ (ints : List Nat) (blobs : List Bytes) (kids : AmlList), RTs env kids →
    RT env (.node op ints blobs kids)

theorem TFact.finish {env : Env} {e bs rest : Bytes} {tm : Tm} {fuel : Nat} (h : TFact env e tm)
    (hbs : bs = e) (hf : 8 * bs.length + 16 ≤ fuel) : parseTerm env fuel (bs ++ rest) = some (tm, rest) := by
  subst hbs; exact h fuel rest hf

theorem kids1 {kids : AmlList} {e0 : Bytes} (h0 : (AmlList.encs kids).getD 0 none = some e0) :
    ∃ a0 r, kids = .cons a0 r ∧ a0.enc = some e0 := by
  cases kids with
  | nil => simp [AmlList.encs] at h0
  | cons a0 r => exact ⟨a0, r, rfl, by simpa [AmlList.encs] using h0⟩

theorem kids2 {kids : AmlList} {e0 e1 : Bytes} (h0 : (AmlList.encs kids).getD 0 none = some e0)
    (h1 : (AmlList.encs kids).getD 1 none = some e1) :
    ∃ a0 a1 r, kids = .cons a0 (.cons a1 r) ∧ a0.enc = some e0 ∧ a1.enc = some e1 := by
  cases kids with
  | nil => simp [AmlList.encs] at h0
  | cons a0 r =>
    obtain ⟨a1, r', rfl, h1'⟩ := kids1 (kids := r) (e0 := e1) (by simpa [AmlList.encs] using h1)
    exact ⟨a0, a1, r', rfl, by simpa [AmlList.encs] using h0, h1'⟩

theorem kids3 {kids : AmlList} {e0 e1 e2 : Bytes} (h0 : (AmlList.encs kids).getD 0 none = some e0)
    (h1 : (AmlList.encs kids).getD 1 none = some e1) (h2 : (AmlList.encs kids).getD 2 none = some e2) :
    ∃ a0 a1 a2 r, kids = .cons a0 (.cons a1 (.cons a2 r)) ∧ a0.enc = some e0 ∧ a1.enc = some e1 ∧
      a2.enc = some e2 := by
  cases kids with
  | nil => simp [AmlList.encs] at h0
  | cons a0 r =>
    obtain ⟨a1, a2, r', rfl, h1', h2'⟩ := kids2 (kids := r) (e0 := e1) (e1 := e2)
      (by simpa [AmlList.encs] using h1) (by simpa [AmlList.encs] using h2)
    exact ⟨a0, a1, a2, r', rfl, by simpa [AmlList.encs] using h0, h1', h2'⟩

theorem kids4 {kids : AmlList} {e0 e1 e2 e3 : Bytes} (h0 : (AmlList.encs kids).getD 0 none = some e0)
    (h1 : (AmlList.encs kids).getD 1 none = some e1) (h2 : (AmlList.encs kids).getD 2 none = some e2)
    (h3 : (AmlList.encs kids).getD 3 none = some e3) :
    ∃ a0 a1 a2 a3 r, kids = .cons a0 (.cons a1 (.cons a2 (.cons a3 r))) ∧ a0.enc = some e0 ∧
      a1.enc = some e1 ∧ a2.enc = some e2 ∧ a3.enc = some e3 := by
  cases kids with
  | nil => simp [AmlList.encs] at h0
  | cons a0 r =>
    obtain ⟨a1, a2, a3, r', rfl, h1', h2', h3'⟩ := kids3 (kids := r) (e0 := e1) (e1 := e2) (e2 := e3)
      (by simpa [AmlList.encs] using h1) (by simpa [AmlList.encs] using h2) (by simpa [AmlList.encs] using h3)
    exact ⟨a0, a1, a2, a3, r', rfl, by simpa [AmlList.encs] using h0, h1', h2', h3'⟩


-- three operands `[target, a, b]`, grammar `Op a b Target`
set_option hygiene false in
local macro "step_ttg " op:term ", " c:term : tactic => `(tactic| (
  intro ints blobs kids ih bs rest fuel hwf hok henc hf
  simp only [Aml.enc, Option.bind_eq_bind, Option.bind_eq_some_iff, Option.some.injEq] at henc
  obtain ⟨et, h0, ea, h1, ec, h2, rfl⟩ := henc
  obtain ⟨a0, a1, a2, r, rfl, h0, h1, h2⟩ := kids3 h0 h1 h2
  simp only [wf, wfs, AmlList.toList, List.getD_cons_zero, List.getD_cons_succ, Bool.and_eq_true] at hwf
  obtain ⟨⟨hw0, hw1, hw2, _⟩, ⟨hk0, hk1⟩, hk2⟩ := hwf
  obtain ⟨i0, i1, i2, _⟩ := ih
  have hm : meaning (.node $op ints blobs (.cons a0 (.cons a1 (.cons a2 r)))) =
      .node (.op ($c : UInt8).toNat) [] [] (.cons (meaning a1) (.cons (meaning a2) (.cons (tgt a0) .nil))) := by
    simp only [meaning, meanings, targets_cons, List.getD_cons_zero, List.getD_cons_succ, TmList.ofList]; rfl
  rw [hm]
  have T := tfact_plain (env := _) (.plain $c _ (by decide) (by decide) rfl) (ss := [.T, .T, .G]) rfl (by decide)
    (.T (i1.tfact hw1 hk1 h1) (.T (i2.tfact hw2 hk2 h2) (.SG (gfact i0 hw0 hk0 h0) .nil)))
  exact T.finish (by simp only [opByte, List.append_assoc, List.append_nil]) hf))

theorem step_add (env : Env) : Step env .add := by step_ttg Op.add, 0x72
theorem step_concat (env : Env) : Step env .concat := by step_ttg Op.concat, 0x73
theorem step_subtract (env : Env) : Step env .subtract := by step_ttg Op.subtract, 0x74
theorem step_multiply (env : Env) : Step env .multiply := by step_ttg Op.multiply, 0x77
theorem step_shl (env : Env) : Step env .shl := by step_ttg Op.shl, 0x79
theorem step_shr (env : Env) : Step env .shr := by step_ttg Op.shr, 0x7A
theorem step_and (env : Env) : Step env .and_ := by step_ttg Op.and_, 0x7B
theorem step_nand (env : Env) : Step env .nand := by step_ttg Op.nand, 0x7C
theorem step_or (env : Env) : Step env .or_ := by step_ttg Op.or_, 0x7D
theorem step_nor (env : Env) : Step env .nor := by step_ttg Op.nor, 0x7E
theorem step_xor (env : Env) : Step env .xor := by step_ttg Op.xor, 0x7F
theorem step_concatres (env : Env) : Step env .concatres := by step_ttg Op.concatres, 0x84
theorem step_mod (env : Env) : Step env .mod := by step_ttg Op.mod, 0x85
theorem step_index (env : Env) : Step env .index := by step_ttg Op.index, 0x88
theorem step_tostring (env : Env) : Step env .tostring := by step_ttg Op.tostring, 0x9C


theorem names_cons (a : Aml) (r : AmlList) : names (.cons a r) = meaning a :: names r := by
  simp only [names]

-- `[name, a, b]`, grammar `Op a b NameString`
set_option hygiene false in
local macro "step_ttn " op:term ", " c:term : tactic => `(tactic| (
  intro ints blobs kids ih bs rest fuel hwf hok henc hf
  simp only [Aml.enc, Option.bind_eq_bind, Option.bind_eq_some_iff, Option.some.injEq] at henc
  obtain ⟨et, h0, ea, h1, ec, h2, rfl⟩ := henc
  obtain ⟨a0, a1, a2, r, rfl, h0, h1, h2⟩ := kids3 h0 h1 h2
  simp only [wf, wfs, AmlList.toList, List.getD_cons_zero, List.getD_cons_succ, Bool.and_eq_true] at hwf
  obtain ⟨⟨hw0, hw1, hw2, _⟩, ⟨hk0, hk1⟩, hk2⟩ := hwf
  obtain ⟨i0, i1, i2, _⟩ := ih
  have hm : meaning (.node $op ints blobs (.cons a0 (.cons a1 (.cons a2 r)))) =
      .node (.op ($c : UInt8).toNat) [] [] (.cons (meaning a1) (.cons (meaning a2) (.cons (meaning a0) .nil))) := by
    simp only [meaning, meanings, names_cons, List.getD_cons_zero, List.getD_cons_succ, TmList.ofList]; rfl
  rw [hm]
  have T := tfact_plain (env := _) (.plain $c _ (by decide) (by decide) rfl) (ss := [.T, .T, .N]) rfl (by decide)
    (.T (i1.tfact hw1 hk1 h1) (.T (i2.tfact hw2 hk2 h2) (.N (nfact (env := env) hw0 hk0 h0) .nil)))
  exact T.finish (by simp only [opByte, List.append_assoc, List.append_nil]) hf))

theorem step_createdw (env : Env) : Step env .createdw := by step_ttn Op.createdw, 0x8A
theorem step_createqw (env : Env) : Step env .createqw := by step_ttn Op.createqw, 0x8F

-- `[target, a]`, grammar `Op a Target`
set_option hygiene false in
local macro "step_tg " op:term ", " c:term : tactic => `(tactic| (
  intro ints blobs kids ih bs rest fuel hwf hok henc hf
  simp only [Aml.enc, Option.bind_eq_bind, Option.bind_eq_some_iff, Option.some.injEq] at henc
  obtain ⟨et, h0, ea, h1, rfl⟩ := henc
  obtain ⟨a0, a1, r, rfl, h0, h1⟩ := kids2 h0 h1
  simp only [wf, wfs, AmlList.toList, List.getD_cons_zero, List.getD_cons_succ, Bool.and_eq_true] at hwf
  obtain ⟨⟨hw0, hw1, _⟩, hk0, hk1⟩ := hwf
  obtain ⟨i0, i1, _⟩ := ih
  have hm : meaning (.node $op ints blobs (.cons a0 (.cons a1 r))) =
      .node (.op ($c : UInt8).toNat) [] [] (.cons (meaning a1) (.cons (tgt a0) .nil)) := by
    simp only [meaning, meanings, targets_cons, List.getD_cons_zero, List.getD_cons_succ, TmList.ofList]; rfl
  rw [hm]
  have T := tfact_plain (env := _) (.plain $c _ (by decide) (by decide) rfl) (ss := [.T, .G]) rfl (by decide)
    (.T (i1.tfact hw1 hk1 h1) (.SG (gfact i0 hw0 hk0 h0) .nil))
  exact T.finish (by simp only [opByte, List.append_assoc, List.append_nil]) hf))

theorem step_tobuffer (env : Env) : Step env .tobuffer := by step_tg Op.tobuffer, 0x96
theorem step_tointeger (env : Env) : Step env .tointeger := by step_tg Op.tointeger, 0x99

-- `[left, right]`, grammar `Op left right`
set_option hygiene false in
local macro "step_tt " op:term ", " c:term : tactic => `(tactic| (
  intro ints blobs kids ih bs rest fuel hwf hok henc hf
  simp only [Aml.enc, Option.bind_eq_bind, Option.bind_eq_some_iff, Option.some.injEq] at henc
  obtain ⟨e0, h0, e1, h1, rfl⟩ := henc
  obtain ⟨a0, a1, r, rfl, h0, h1⟩ := kids2 h0 h1
  simp only [wf, wfs, AmlList.toList, List.getD_cons_zero, List.getD_cons_succ, Bool.and_eq_true] at hwf
  obtain ⟨⟨hw0, hw1, _⟩, hk0, hk1⟩ := hwf
  obtain ⟨i0, i1, _⟩ := ih
  have hm : meaning (.node $op ints blobs (.cons a0 (.cons a1 r))) =
      .node (.op ($c : UInt8).toNat) [] [] (.cons (meaning a0) (.cons (meaning a1) .nil)) := by
    simp only [meaning, meanings, List.getD_cons_zero, List.getD_cons_succ, TmList.ofList]; rfl
  rw [hm]
  have T := tfact_plain (env := _) (.plain $c _ (by decide) (by decide) rfl) (ss := [.T, .T]) rfl (by decide)
    (.T (i0.tfact hw0 hk0 h0) (.T (i1.tfact hw1 hk1 h1) .nil))
  exact T.finish (by simp only [opByte, List.append_assoc, List.append_nil]) hf))

theorem step_eq (env : Env) : Step env .eq := by step_tt Op.eq, 0x93
theorem step_lt (env : Env) : Step env .lt := by step_tt Op.lt, 0x95
theorem step_gt (env : Env) : Step env .gt := by step_tt Op.gt, 0x94

-- `[left, right]`, grammar `LNot (Op left right)`
set_option hygiene false in
local macro "step_ntt " op:term ", " c:term : tactic => `(tactic| (
  intro ints blobs kids ih bs rest fuel hwf hok henc hf
  simp only [Aml.enc, Option.bind_eq_bind, Option.bind_eq_some_iff, Option.some.injEq] at henc
  obtain ⟨e0, h0, e1, h1, rfl⟩ := henc
  obtain ⟨a0, a1, r, rfl, h0, h1⟩ := kids2 h0 h1
  simp only [wf, wfs, AmlList.toList, List.getD_cons_zero, List.getD_cons_succ, Bool.and_eq_true] at hwf
  obtain ⟨⟨hw0, hw1, _⟩, hk0, hk1⟩ := hwf
  obtain ⟨i0, i1, _⟩ := ih
  have hm : meaning (.node $op ints blobs (.cons a0 (.cons a1 r))) =
      .node (.op (0x92 : UInt8).toNat) [] [] (.cons
        (.node (.op ($c : UInt8).toNat) [] [] (.cons (meaning a0) (.cons (meaning a1) .nil))) .nil) := by
    simp only [meaning, meanings, List.getD_cons_zero, List.getD_cons_succ, TmList.ofList]; rfl
  rw [hm]
  have T := tfact_plain (env := _) (.plain $c _ (by decide) (by decide) rfl) (ss := [.T, .T]) rfl (by decide)
    (.T (i0.tfact hw0 hk0 h0) (.T (i1.tfact hw1 hk1 h1) .nil))
  have T2 := tfact_plain (env := _) (.plain 0x92 _ (by decide) (by decide) rfl) (ss := [.T]) rfl (by decide)
    (.T T .nil)
  exact T2.finish (by simp only [opByte, List.append_assoc, List.append_nil, List.cons_append, List.nil_append]) hf))

theorem step_ne (env : Env) : Step env .ne := by step_ntt Op.ne, 0x93
theorem step_ge (env : Env) : Step env .ge := by step_ntt Op.ge, 0x95
theorem step_le (env : Env) : Step env .le := by step_ntt Op.le, 0x94

end Acpi.Lemmas.AmlParse
