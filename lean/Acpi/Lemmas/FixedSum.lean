/-
  Helper lemmas for C01 on the fixed tables: byte sums of headers, of lists under `set`, and the
  accumulator invariants of TPM2 and SLIT.
-/
import Acpi.Tables.Fixed
import Acpi.Lemmas.Basic
import Acpi.Lemmas.FixedRun
import Acpi.Props.C17
import Acpi.Lemmas.LayoutMadt
namespace Acpi
open Acpi.C17 Acpi.C04.Madt

/-- the checksum byte enters the header's sum additively -/
theorem sum8_hdrBytes (sig : Bytes) (len : UInt32) (rev k : UInt8) (o : Oem) :
    sum8 (hdrBytes sig len rev k o) = sum8 (hdrBytes sig len rev 0 o) + k := by
  simp only [hdrBytes, sum8_append, sum8_cons, sum8_nil]
  grind

/-- the Length field enters the header's sum additively -/
theorem sum8_hdrBytes_len (sig : Bytes) (len len' : UInt32) (rev k : UInt8) (o : Oem) :
    sum8 (hdrBytes sig len' rev k o) =
      sum8 (hdrBytes sig len rev k o) - sum8 (u32le len) + sum8 (u32le len') := by
  simp only [hdrBytes, sum8_append, sum8_cons, sum8_nil]
  grind

/-- a header whose checksum byte is `Checksum::value()` of an accumulator that holds the sum
    of every other byte: the whole sums to zero -/
theorem sum8_with_cksum (sig : Bytes) (len : UInt32) (rev : UInt8) (o : Oem) (rest : Bytes) (c : Cks)
    (hc : c.raw = sum8 (hdrBytes sig len rev 0 o ++ rest)) :
    sum8 (hdrBytes sig len rev c.cksum o ++ rest) = 0 := by
  rw [sum8_append, sum8_hdrBytes, cksum_eq_neg, hc, sum8_append]
  grind

theorem sum8_set (l : Bytes) (i : Nat) (x : UInt8) (h : i < l.length) :
    sum8 (l.set i x) = sum8 l - l[i] + x := by
  induction l generalizing i with
  | nil => simp at h
  | cons a l ih =>
    cases i with
    | zero => simp only [List.set_cons_zero, sum8_cons, List.getElem_cons_zero]; grind
    | succ i =>
      simp only [List.length_cons] at h
      simp only [List.set_cons_succ, sum8_cons, List.getElem_cons_succ, ih i (by omega)]
      grind

theorem sum8_map_set (l : List Nat) (i v : Nat) (h : i < l.length) :
    sum8 ((l.set i v).map UInt8.ofNat) =
      sum8 (l.map UInt8.ofNat) - UInt8.ofNat (l.getD i 0) + UInt8.ofNat v := by
  rw [List.map_set, sum8_set _ _ _ (by simpa using h)]
  simp [List.getD_eq_getElem?_getD, h]

/-! ### SLIT index arithmetic -/

/-- both flat indices of a pair in range ⇒ both coordinates in range -/
theorem slit_coords {n a b : Nat} (h1 : a + n * b < n * n) (h2 : b + n * a < n * n) : a < n ∧ b < n := by
  constructor
  · apply Nat.lt_of_not_le
    intro h
    have := Nat.mul_le_mul_left n h
    omega
  · apply Nat.lt_of_not_le
    intro h
    have := Nat.mul_le_mul_left n h
    omega

theorem slit_index_ne {n a b : Nat} (hab : a ≠ b) (h1 : a + n * b < n * n) (h2 : b + n * a < n * n) :
    a + n * b ≠ b + n * a := by
  obtain ⟨ha, hb⟩ := slit_coords h1 h2
  intro h
  have := congrArg (· % n) h
  simp only [Nat.add_mul_mod_self_left, Nat.mod_eq_of_lt ha, Nat.mod_eq_of_lt hb] at this
  exact hab this

/-! ### accumulator invariants -/

structure SlitInv (s : FixedState) : Prop where
  t : s.t = .slit
  len : s.cells.length = s.a.num 0 * s.a.num 0
  raw : s.cks.raw = sum8 (slitHead s.oem (s.a.num 0) 0 ++ s.cells.map UInt8.ofNat)
  hdr : s.hdrCks = s.cks.cksum

theorem slitInv_new {o : Oem} {c : EArgs} {s : FixedState} (h : FixedState.new .slit o c = some s) :
    SlitInv s ∧ s.a = c ∧ s.oem = o ∧ s.cells = List.replicate (c.num 0 * c.num 0) 10 ∧
      c.num 0 * c.num 0 + 44 < 2 ^ 32 := by
  unfold FixedState.new at h
  simp only [] at h
  split at h
  · cases h
  · rename_i hr
    cases h
    refine ⟨⟨rfl, by simp, ?_, rfl⟩, rfl, rfl, rfl, by omega⟩
    simp only [append_raw, sum8_append]
    simp [Cks.raw]

theorem slitInv_step (s : FixedState) (o : Opt) (s' : FixedState) (I : SlitInv s)
    (h : s.step o = some s') : SlitInv s' := by
  obtain ⟨_, h1, h2, ht, ha, ho, hc, hh, hk⟩ := slit_step I.t h
  have hl : s'.cells.length = s.cells.length := by rw [hc]; simp
  refine ⟨ht, by rw [hl, ha, I.len], ?_, hh⟩
  rw [hk, ha, ho, hc, sum8_append]
  by_cases hab : o.arg 0 = o.arg 1
  · rw [if_pos hab]
    simp only [hab, List.set_set]
    rw [sum8_map_set _ _ _ (by simpa [hab] using h1)]
    simp only [Cks.add, Cks.sub, Cks.raw]
    have := I.raw
    simp only [Cks.raw, sum8_append] at this
    rw [this]
    grind
  · rw [if_neg hab]
    have hne := slit_index_ne hab (I.len ▸ h1) (I.len ▸ h2)
    rw [sum8_map_set _ _ _ (by simpa using h2), sum8_map_set _ _ _ h1]
    rw [List.getD_eq_getElem?_getD (l := s.cells.set _ _), List.getElem?_set_ne hne,
      ← List.getD_eq_getElem?_getD]
    rw [append_raw, delete_raw, I.raw]
    simp only [sum8_append, sum8_cons, sum8_nil]
    grind

structure Tpm2Inv (s : FixedState) : Prop where
  t : s.t = .tpm2
  size : s.a.n.size = 6
  raw : s.cks.raw = sum8 (hdrBytes [0x54, 0x50, 0x4D, 0x32] (UInt32.ofNat (tpm2Len s.a)) 1 0 s.oem ++ tpm2Rest s.a)
  hdr : s.hdrCks = s.cks.cksum

theorem tpm2Inv_new {o : Oem} {c : EArgs} {s : FixedState} (h : FixedState.new .tpm2 o c = some s) :
    Tpm2Inv s ∧ s.oem = o ∧ s.a = { n := #[c.num 0, c.num 1, c.num 2, 0, 0, 0] } := by
  unfold FixedState.new at h
  simp only [] at h
  cases h
  refine ⟨⟨rfl, rfl, ?_, rfl⟩, rfl, rfl⟩
  simp only [append_raw, sum8_append]
  simp [Cks.raw, tpm2Len, EArgs.num]

theorem tpm2Inv_step (s : FixedState) (o : Opt) (s' : FixedState) (I : Tpm2Inv s)
    (h : s.step o = some s') : Tpm2Inv s' := by
  obtain ⟨_, h3, ht, ho, _, ha, hh, hk⟩ := tpm2_step I.t h
  have hs := I.size
  have hr := I.raw
  refine ⟨ht, by rw [ha]; simp [hs], ?_, hh⟩
  have hl : tpm2Len s.a = 52 := by simp [tpm2Len, h3]
  have hl' : tpm2Len s'.a = 76 := by rw [ha]; simp [tpm2Len, hs]
  rw [hl] at hr
  rw [hl', hk, ho, append_raw, append_raw, append_raw, delete_raw, hr, sum8_append, sum8_append,
    sum8_hdrBytes_len _ (UInt32.ofNat 52) (UInt32.ofNat 76)]
  have e1 : tpm2Rest s.a = encFields [w16 (s.a.num 0), w16 0, q64 (s.a.num 1), d32 (s.a.num 2)] := by
    simp [tpm2Rest, h3]
  have e2 : tpm2Rest s'.a = encFields [w16 (s.a.num 0), w16 0, q64 (s.a.num 1), d32 (s.a.num 2),
      .raw (zeros 12), d32 (o.arg 0), q64 (o.arg 1)] := by
    rw [ha]; simp [tpm2Rest, hs]
  rw [e1, e2]
  simp only [encFields, List.flatMap_cons, List.flatMap_nil, Fld.bytes, sum8_append, sum8_zeros, sum8_nil]
  have : (52 : UInt32) = UInt32.ofNat 52 := rfl
  have : (76 : UInt32) = UInt32.ofNat 76 := rfl
  grind

end Acpi
