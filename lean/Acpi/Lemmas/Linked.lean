/-
  Helper lemmas for Acpi/Props/C05/Linked.lean (linked programs, Acpi/Tables/Linked.lean):

    * read/write algebra of reference positions (`getRef`/`writeRef`) and of `link`,
    * `runLinkedFrom` is `buildAll` + `runAdds` on the linked calls,
    * engine facts: handles lie inside the image; with a checked offset field (VIOT) they fit it,
    * reading a field of an entry back from the whole image,
    * one small lemma per reference position saying which row of the reference layout
      (Acpi/Spec/Layout.lean `rows`) carries it.
-/
import Acpi.Tables.Linked
import Acpi.Lemmas.Whole
import Acpi.Lemmas.LayoutCedtHestMisc
import Acpi.Lemmas.C11Distinct
import Acpi.Lemmas.ProcFlags
import Acpi.Props.C05.Whole
namespace Acpi.Linked
open Acpi Spec

set_option linter.unusedSimpArgs false

/-! ### options: reading and overwriting the value of a named call -/

@[simp] theorem name_setArg0 (o : Opt) (x : Nat) : (o.setArg0 x).name = o.name := rfl
@[simp] theorem arg0_setArg0 (o : Opt) (x : Nat) : (o.setArg0 x).arg 0 = x := rfl

/-- `optVals` is the specification side's `pushed` -/
theorem optVals_eq_pushed (nm : String) (opts : List Opt) : optVals nm opts = pushed opts nm := rfl

/-- `lastOptVal` is the specification side's `lastVal` (first argument) -/
theorem lastVal_eq_lastOptVal (nm : String) (opts : List Opt) (d : Nat) :
    lastVal opts nm 0 d = (lastOptVal nm opts).getD d := rfl

theorem optVals_cons (nm : String) (o : Opt) (os : List Opt) :
    optVals nm (o :: os) = if o.name = nm then o.arg 0 :: optVals nm os else optVals nm os := by
  unfold optVals
  by_cases h : o.name = nm
  · simp [h]
  · simp [h]

theorem names_setNthNamed (nm : String) (x : Nat) : ∀ (i : Nat) (os : List Opt),
    (setNthNamed nm x i os).map (·.name) = os.map (·.name)
  | _, [] => rfl
  | i, o :: os => by
    unfold setNthNamed
    by_cases h : o.name = nm
    · rw [if_pos h]
      cases i with
      | zero => simp
      | succ i => simp [names_setNthNamed nm x i os]
    · rw [if_neg h]; simp [names_setNthNamed nm x i os]

/-- overwriting the i-th call of `nm` overwrites the i-th pushed value -/
theorem optVals_setNthNamed (nm : String) (x : Nat) : ∀ (i : Nat) (os : List Opt),
    optVals nm (setNthNamed nm x i os) = (optVals nm os).set i x
  | _, [] => by simp [setNthNamed, optVals]
  | i, o :: os => by
    unfold setNthNamed
    by_cases h : o.name = nm
    · rw [if_pos h]
      cases i with
      | zero => simp [optVals_cons, h]
      | succ i => simp [optVals_cons, h, optVals_setNthNamed nm x i os]
    · rw [if_neg h]; simp [optVals_cons, h, optVals_setNthNamed nm x i os]

theorem lastOptVal_cons (nm : String) (o : Opt) (os : List Opt) :
    lastOptVal nm (o :: os) =
      match lastOptVal nm os with
      | some v => some v
      | none => if o.name = nm then some (o.arg 0) else none := by
  unfold lastOptVal
  by_cases h : o.name = nm
  · simp only [List.filter_cons, h, decide_true, if_true, List.getLast?_cons]
    cases (os.filter fun o => decide (o.name = nm)).getLast? <;> rfl
  · rw [List.filter_cons_of_neg (by simpa using h)]
    simp only [h, if_false]
    cases (os.filter fun o => decide (o.name = nm)).getLast? <;> rfl

theorem lastOptVal_eq_none (nm : String) : ∀ (os : List Opt),
    lastOptVal nm os = none ↔ os.all (fun o' => decide (o'.name ≠ nm)) = true
  | [] => by simp [lastOptVal]
  | o :: os => by
    rw [lastOptVal_cons]
    have ih := lastOptVal_eq_none nm os
    cases hl : lastOptVal nm os with
    | some v =>
      rw [hl] at ih
      simp only [List.all_cons, Bool.and_eq_true]
      constructor
      · intro h; cases h
      · intro h; exact absurd (ih.mpr h.2) (by simp)
    | none =>
      rw [hl] at ih
      have := ih.mp rfl
      by_cases h : o.name = nm
      · simp [h]
      · simpa [h] using this

theorem names_setLastNamed (nm : String) (x : Nat) : ∀ (os : List Opt),
    (setLastNamed nm x os).map (·.name) = os.map (·.name)
  | [] => rfl
  | o :: os => by
    unfold setLastNamed
    split
    · simp
    · simp [names_setLastNamed nm x os]

/-- overwriting the last call of `nm` overwrites the last value (if there is one) -/
theorem lastOptVal_setLastNamed (nm : String) (x : Nat) : ∀ (os : List Opt),
    lastOptVal nm (setLastNamed nm x os) = (lastOptVal nm os).map fun _ => x
  | [] => rfl
  | o :: os => by
    have ih := lastOptVal_setLastNamed nm x os
    unfold setLastNamed
    split
    · rename_i hc
      have hn := (lastOptVal_eq_none nm os).mpr hc.2
      rw [lastOptVal_cons, lastOptVal_cons, hn]
      simp [hc.1]
    · rename_i hc
      rw [lastOptVal_cons, lastOptVal_cons, ih]
      cases hl : lastOptVal nm os with
      | some v => rfl
      | none =>
        have hall := (lastOptVal_eq_none nm os).mp hl
        have : ¬ o.name = nm := fun h => hc ⟨h, hall⟩
        simp [this]

/-! ### id mappings -/

theorem length_setDst (i x : Nat) (s : List (List Nat)) : (setDst i x s).length = s.length := by
  simp [setDst]

theorem getElem?_setDst_ne (i x : Nat) (s : List (List Nat)) (j : Nat) (h : i ≠ j) :
    (setDst i x s)[j]? = s[j]? := by
  unfold setDst
  rw [List.getElem?_set_ne h]

theorem getElem?_setDst_self (i x : Nat) (s : List (List Nat)) (t : List Nat) (y : Nat)
    (ht : s[i]? = some t) (hy : t[3]? = some y) : ((setDst i x s)[i]?).bind (·[3]?) = some x := by
  unfold setDst
  have hi : i < s.length := by
    rcases Nat.lt_or_ge i s.length with h | h
    · exact h
    · rw [List.getElem?_eq_none h] at ht; cases ht
  have h3 : 3 < t.length := by
    rcases Nat.lt_or_ge 3 t.length with h | h
    · exact h
    · rw [List.getElem?_eq_none h] at hy; cases hy
  have hg : s.getD i [] = t := by
    rw [List.getD_eq_getElem?_getD, ht]; rfl
  rw [List.getElem?_set_self hi, hg]
  simp only [Option.bind_some]
  rw [List.getElem?_set_self h3]

/-! ### `writeRef`: what it leaves alone -/

@[simp] theorem writeRef_k (pos : RefPos) (x : Nat) (op : AddOp) : (writeRef pos x op).k = op.k := by
  unfold writeRef
  cases pos <;> simp only [] <;> (repeat' split) <;> rfl

@[simp] theorem writeRef_b (pos : RefPos) (x : Nat) (op : AddOp) :
    (writeRef pos x op).ctor.b = op.ctor.b := by
  unfold writeRef
  cases pos <;> simp only [] <;> (repeat' split) <;> rfl

@[simp] theorem writeRef_names (pos : RefPos) (x : Nat) (op : AddOp) :
    (writeRef pos x op).opts.map (·.name) = op.opts.map (·.name) := by
  unfold writeRef
  cases pos <;> simp only [] <;> (repeat' split) <;>
    first | rfl | exact names_setNthNamed _ _ _ _ | exact names_setLastNamed _ _ _

/-- writing a position that exists makes it hold the value written -/
theorem getRef_writeRef_self (pos : RefPos) (x : Nat) (op : AddOp) (h : (getRef pos op).isSome) :
    getRef pos (writeRef pos x op) = some x := by
  cases pos with
  | procParent =>
    simp only [getRef] at h ⊢
    split at h
    · rename_i hc
      simp [writeRef, hc.1, hc.2]
    · cases h
  | procCache i =>
    simp only [getRef] at h ⊢
    split at h
    · rename_i hc
      simp only [writeRef, hc, if_true]
      rw [optVals_setNthNamed]
      have hi : i < (optVals "cache" op.opts).length := by
        rcases Nat.lt_or_ge i (optVals "cache" op.opts).length with h' | h'
        · exact h'
        · rw [List.getElem?_eq_none h'] at h; cases h
      exact List.getElem?_set_self hi
    · cases h
  | cacheNext =>
    simp only [getRef] at h ⊢
    split at h
    · rename_i hc
      simp only [writeRef, hc, if_true]
      rw [lastOptVal_setLastNamed]
      cases hl : lastOptVal "next" op.opts with
      | none => rw [hl] at h; cases h
      | some v => rfl
    · cases h
  | hartIsa =>
    simp only [getRef] at h ⊢
    split at h
    · rename_i hc
      simp [writeRef, hc.1, hc.2]
    · cases h
  | hartCmo i =>
    simp only [getRef] at h ⊢
    split at h
    · rename_i hc
      simp only [writeRef, hc, if_true]
      rw [optVals_setNthNamed]
      have hi : i < (optVals "cmo" op.opts).length := by
        rcases Nat.lt_or_ge i (optVals "cmo" op.opts).length with h' | h'
        · exact h'
        · rw [List.getElem?_eq_none h'] at h; cases h
      exact List.getElem?_set_self hi
    · cases h
  | viotTrans =>
    simp only [getRef] at h ⊢
    split at h
    · rename_i hc
      simp [writeRef, hc.1, hc.2]
    · split at h
      · rename_i hc' hc
        simp [writeRef, hc.1, hc.2]
      · cases h
  | idmapDst i =>
    simp only [getRef] at h ⊢
    split at h
    · rename_i hc
      have hk : op.k = .pcierc ∨ op.k = .platform := hc.elim (fun h => Or.inl h.1) (fun h => Or.inr h.1)
      simp only [writeRef, hk, if_true]
      rw [if_pos (by simpa [EArgs.num] using hc)]
      cases ht : op.ctor.s[i]? with
      | none => rw [ht] at h; cases h
      | some t =>
        rw [ht] at h
        simp only [Option.bind_some] at h
        cases hy : t[3]? with
        | none => rw [hy] at h; cases h
        | some y => exact getElem?_setDst_self i x _ t y ht hy
    · cases h

/-- writing one position does not disturb another -/
theorem getRef_writeRef_ne (pos pos' : RefPos) (x : Nat) (op : AddOp) (hne : pos ≠ pos') :
    getRef pos' (writeRef pos x op) = getRef pos' op := by
  cases pos <;> cases pos'
  case procCache.procCache i i' =>
    have hi : i ≠ i' := fun h => hne (by rw [h])
    simp only [getRef, writeRef]
    by_cases hk : op.k = .proc
    · simp only [hk, if_true]
      rw [optVals_setNthNamed, List.getElem?_set_ne hi]
    · simp only [hk, if_false]
  case hartCmo.hartCmo i i' =>
    have hi : i ≠ i' := fun h => hne (by rw [h])
    simp only [getRef, writeRef]
    by_cases hk : op.k = .hart
    · simp only [hk, if_true]
      rw [optVals_setNthNamed, List.getElem?_set_ne hi]
    · simp only [hk, if_false]
  case idmapDst.idmapDst i i' =>
    have hi : i ≠ i' := fun h => hne (by rw [h])
    simp only [getRef, writeRef]
    by_cases hk : op.k = .pcierc ∨ op.k = .platform
    · rw [if_pos hk]
      show (if (op.k = .pcierc ∧ op.ctor.num 4 ≠ 0) ∨ (op.k = .platform ∧ op.ctor.num 1 ≠ 0) then
          ((setDst i x op.ctor.s)[i']?).bind (·[3]?) else none) = _
      rw [getElem?_setDst_ne _ _ _ _ hi]
    · rw [if_neg hk]
  all_goals first
    | exact absurd rfl hne
    | (simp only [getRef, writeRef]
       repeat' split
       all_goals first
         | rfl
         | simp_all [CHM.num_setNum, CHM.size_setNum])

/-! ### `link` -/

/-- anything `writeRef` leaves alone, `link` leaves alone -/
theorem foldl_writeRef_inv {α : Type} (P : AddOp → α) (hP : ∀ pos x op, P (writeRef pos x op) = P op)
    (hs : List Nat) : ∀ (refs : List (RefPos × Nat)) (op : AddOp),
    P (refs.foldl (fun op r => writeRef r.1 (hs.getD r.2 0) op) op) = P op
  | [], _ => rfl
  | r :: refs, op => by
    rw [List.foldl_cons, foldl_writeRef_inv P hP hs refs, hP]

@[simp] theorem link_k (hs : List Nat) (l : LAddOp) : (link hs l).k = l.op.k :=
  foldl_writeRef_inv (·.k) writeRef_k hs l.refs l.op

@[simp] theorem link_b (hs : List Nat) (l : LAddOp) : (link hs l).ctor.b = l.op.ctor.b :=
  foldl_writeRef_inv (·.ctor.b) writeRef_b hs l.refs l.op

theorem link_names (hs : List Nat) (l : LAddOp) :
    (link hs l).opts.map (·.name) = l.op.opts.map (·.name) :=
  foldl_writeRef_inv (fun op => op.opts.map (·.name)) writeRef_names hs l.refs l.op

theorem fieldOffset_link (pos : RefPos) (hs : List Nat) (l : LAddOp) :
    fieldOffset pos (link hs l) = fieldOffset pos l.op := by
  unfold fieldOffset EArgs.blob
  rw [link_k, link_b]

/-- a property of the option names only is not changed by linking -/
theorem link_all_names (hs : List Nat) (l : LAddOp) (p : String → Bool) :
    (link hs l).opts.all (fun o => p o.name) = l.op.opts.all (fun o => p o.name) := by
  have h := congrArg (fun ns => ns.all p) (link_names hs l)
  simpa [List.all_map, Function.comp_def] using h

theorem foldl_getRef_notin (hs : List Nat) (pos : RefPos) : ∀ (refs : List (RefPos × Nat)) (op : AddOp),
    pos ∉ refs.map (·.1) →
    getRef pos (refs.foldl (fun op r => writeRef r.1 (hs.getD r.2 0) op) op) = getRef pos op
  | [], _, _ => rfl
  | r :: refs, op, h => by
    simp only [List.map_cons, List.mem_cons, not_or] at h
    rw [List.foldl_cons, foldl_getRef_notin hs pos refs _ h.2,
      getRef_writeRef_ne _ _ _ _ (fun e => h.1 e.symm)]

theorem foldl_getRef_mem (hs : List Nat) : ∀ (refs : List (RefPos × Nat)) (op : AddOp),
    (refs.map (·.1)).Nodup → (∀ r ∈ refs, (getRef r.1 op).isSome) →
    ∀ r ∈ refs, getRef r.1 (refs.foldl (fun op r => writeRef r.1 (hs.getD r.2 0) op) op) =
      some (hs.getD r.2 0)
  | [], _, _, _, r, hr => by cases hr
  | r0 :: refs, op, hnd, hex, r, hr => by
    simp only [List.map_cons, List.nodup_cons] at hnd
    rw [List.foldl_cons]
    rcases List.mem_cons.mp hr with rfl | hr'
    · rw [foldl_getRef_notin hs r.1 refs _ hnd.1]
      exact getRef_writeRef_self _ _ _ (hex r List.mem_cons_self)
    · refine foldl_getRef_mem hs refs _ hnd.2 ?_ r hr'
      intro r' hr''
      have hne : r0.1 ≠ r'.1 := fun e => hnd.1 (e ▸ List.mem_map_of_mem (f := (·.1)) hr'')
      rw [getRef_writeRef_ne _ _ _ _ hne]
      exact hex r' (List.mem_cons_of_mem _ hr'')

/-- **linking writes the handles**: if no position is named twice and every named position
    exists, the linked call holds `hs[j]` at each position `(pos, j)` -/
theorem getRef_link (hs : List Nat) (l : LAddOp) (hnd : (l.refs.map (·.1)).Nodup)
    (hex : ∀ r ∈ l.refs, (getRef r.1 l.op).isSome) (pos : RefPos) (j : Nat) (hr : (pos, j) ∈ l.refs) :
    getRef pos (link hs l) = some (hs.getD j 0) :=
  foldl_getRef_mem hs l.refs l.op hnd hex (pos, j) hr

theorem foldl_writeRef_congr (hs hs' : List Nat) : ∀ (refs : List (RefPos × Nat)) (op : AddOp),
    (∀ r ∈ refs, hs.getD r.2 0 = hs'.getD r.2 0) →
    refs.foldl (fun op r => writeRef r.1 (hs.getD r.2 0) op) op =
      refs.foldl (fun op r => writeRef r.1 (hs'.getD r.2 0) op) op
  | [], _, _ => rfl
  | r :: refs, op, h => by
    rw [List.foldl_cons, List.foldl_cons, h r List.mem_cons_self,
      foldl_writeRef_congr hs hs' refs _ (fun r' hr' => h r' (List.mem_cons_of_mem _ hr'))]

/-- a call that only refers to handles already returned is not affected by later handles -/
theorem link_append (done ext : List Nat) (l : LAddOp) (h : ∀ r ∈ l.refs, r.2 < done.length) :
    link (done ++ ext) l = link done l := by
  unfold link
  apply foldl_writeRef_congr
  intro r hr
  rw [List.getD_eq_getElem?_getD, List.getD_eq_getElem?_getD, List.getElem?_append_left (h r hr)]

/-! ### the run -/

theorem imsicOnce_congr : ∀ (ops ops' : List AddOp), ops.map (·.k) = ops'.map (·.k) →
    imsicOnce ops = imsicOnce ops'
  | [], [], _ => rfl
  | [], _ :: _, h => by simp at h
  | _ :: _, [], h => by simp at h
  | op :: ops, op' :: ops', h => by
    simp only [List.map_cons, List.cons.injEq] at h
    have ha : ops.all (fun o => o.k != .imsic) = ops'.all (fun o => o.k != .imsic) := by
      have := congrArg (fun ks => ks.all (· != Kind.imsic)) h.2
      simpa [List.all_map, Function.comp_def] using this
    unfold imsicOnce
    rw [h.1, ha, imsicOnce_congr ops ops' h.2]

/-- a successful linked run: the calls executed are the symbolic calls linked against the
    handles known at the end; every reference is to an earlier call; the entries were built and
    the engine ran on them -/
theorem runLinkedFrom_spec : ∀ (ls : List LAddOp) (t : Tbl) (done hs : List Nat) (t' : Tbl)
    (ops : List AddOp), runLinkedFrom t done ls = some (hs, t', ops) →
    ops = ls.map (link (done ++ hs)) ∧
    (∀ i (hi : i < ls.length), ∀ r ∈ ls[i].refs, r.2 < done.length + i) ∧
    ∃ bs, buildAll ops = some bs ∧ runAdds t (bs.map rawOf) = some (hs, t')
  | [], t, done, hs, t', ops, h => by
    unfold runLinkedFrom at h
    cases h
    exact ⟨rfl, fun i hi => absurd hi (Nat.not_lt_zero i), [], rfl, rfl⟩
  | l :: ls, t, done, hs, t', ops, h => by
    unfold runLinkedFrom at h
    split at h
    · rename_i hrefs
      have hlt : ∀ r ∈ l.refs, r.2 < done.length := by
        intro r hr
        exact of_decide_eq_true (List.all_eq_true.mp hrefs r hr)
      split at h
      · cases h
      · rename_i a ha
        split at h
        · cases h
        · rename_i hnd t1 hadd
          simp only [Option.map_eq_some_iff] at h
          obtain ⟨⟨hs1, t2, ops1⟩, hrec, heq⟩ := h
          simp only [Prod.mk.injEq] at heq
          obtain ⟨rfl, rfl, rfl⟩ := heq
          obtain ⟨e1, e2, bs1, e3, e4⟩ := runLinkedFrom_spec ls t1 (done ++ [hnd]) hs1 t2 ops1 hrec
          refine ⟨?_, ?_, ((link done l).k, a) :: bs1, ?_, ?_⟩
          · rw [List.map_cons, link_append done (hnd :: hs1) l hlt, e1, List.append_assoc]
            rfl
          · intro i hi r hr
            cases i with
            | zero => exact hlt r hr
            | succ i =>
              simp only [List.length_cons] at hi
              have := e2 i (by omega) r hr
              simp only [List.length_append, List.length_cons, List.length_nil] at this
              omega
          · unfold buildAll
            simp only [ha, e3, Option.map_some]
          · show runAdds t (((rawOf ((link done l).k, a)).1, (rawOf ((link done l).k, a)).2) ::
              bs1.map rawOf) = _
            unfold runAdds
            simp only [hadd, e4, Option.map_some]
    · cases h

/-- conversely: if every reference is to an earlier call, running the calls linked against the
    final handle list through `buildAll` + `runAdds` is a run of the linked program -/
theorem runLinkedFrom_complete : ∀ (ls : List LAddOp) (t : Tbl) (done hs : List Nat) (t' : Tbl)
    (bs : List (Kind × EArgs)),
    (∀ i (hi : i < ls.length), ∀ r ∈ ls[i].refs, r.2 < done.length + i) →
    buildAll (ls.map (link (done ++ hs))) = some bs →
    runAdds t (bs.map rawOf) = some (hs, t') →
    runLinkedFrom t done ls = some (hs, t', ls.map (link (done ++ hs)))
  | [], t, done, hs, t', bs, _, hb, hr => by
    rw [List.map_nil] at hb
    unfold buildAll at hb
    cases hb
    rw [List.map_nil, runAdds_nil] at hr
    cases hr
    rfl
  | l :: ls, t, done, hs, t', bs, hlt, hb, hr => by
    have hl : ∀ r ∈ l.refs, r.2 < done.length := fun r hr' => by
      have := hlt 0 (by simp) r hr'
      simpa using this
    rw [List.map_cons] at hb
    unfold buildAll at hb
    split at hb
    · cases hb
    · rename_i a ha
      simp only [Option.map_eq_some_iff] at hb
      obtain ⟨bs1, hb1, rfl⟩ := hb
      rw [List.map_cons] at hr
      change runAdds t (((rawOf ((link (done ++ hs) l).k, a)).1, (rawOf ((link (done ++ hs) l).k, a)).2) ::
        bs1.map rawOf) = _ at hr
      unfold runAdds at hr
      split at hr
      · cases hr
      · rename_i h t1 hadd
        simp only [Option.map_eq_some_iff] at hr
        obtain ⟨⟨hs1, t2⟩, hrec, heq⟩ := hr
        cases heq
        rw [link_append done (h :: hs1) l hl] at ha hadd
        have ih := runLinkedFrom_complete ls t1 (done ++ [h]) hs1 _ bs1
          (fun i hi r hr' => by
            have := hlt (i + 1) (by simp only [List.length_cons]; omega) r hr'
            simp only [List.length_append, List.length_cons, List.length_nil]
            omega)
          (by rw [List.append_assoc]; exact hb1)
          hrec
        unfold runLinkedFrom
        rw [if_pos (List.all_eq_true.mpr fun r hr' => decide_eq_true (hl r hr'))]
        simp only [ha, hadd, ih, Option.map_some]
        rw [List.map_cons, link_append done (h :: hs1) l hl, List.append_assoc]
        rfl

/-- inversion of `runLinked` -/
theorem runLinked_inv {T : TableId} {o : Oem} {ls : List LAddOp} {hs : List Nat} {t : Tbl}
    {ops : List AddOp} (h : runLinked T o ls = some (hs, t, ops)) :
    (ls.all (fun l => T.accepts l.op.k) = true ∧ imsicOnce (ls.map (·.op)) = true) ∧
    runLinkedFrom (Tbl.new T.cfg o) [] ls = some (hs, t, ops) := by
  unfold runLinked at h
  split at h
  · rename_i hc
    exact ⟨by simpa using hc, h⟩
  · cases h

/-! ### engine facts -/

theorem add_some_bound {t : Tbl} {raw : Bytes} {cl : Nat} {fed : UInt8} {m h : Nat} {t' : Tbl}
    (hm : t.cfg.maxOffset = some m) (e : t.add raw cl fed = some (h, t')) : h + cl ≤ m := by
  have hh := (Tbl.add_eq_some e).1
  unfold Tbl.add at e
  rw [hm] at e
  simp only [] at e
  split at e
  · cases e
  · omega

/-- with a checked offset field (VIOT: 16 bits), every handle handed out fits the field -/
theorem handles_le_max : ∀ (es : List (Bytes × Nat)) (t : Tbl) (hs : List Nat) (t' : Tbl) (m : Nat),
    t.cfg.maxOffset = some m → runAdds t es = some (hs, t') → ∀ h ∈ hs, h ≤ m
  | [], t, hs, t', m, _, h => by
    rw [runAdds_nil] at h; cases h
    intro h hh; cases hh
  | (raw, cl) :: es, t, hs, t', m, hm, h => by
    unfold runAdds at h
    cases hadd : t.add raw cl (sum8 raw) with
    | none => rw [hadd] at h; cases h
    | some p =>
      obtain ⟨h0, t1⟩ := p
      rw [hadd] at h
      simp only [Option.map_eq_some_iff] at h
      obtain ⟨⟨hs1, t2⟩, hrec, heq⟩ := h
      cases heq
      have hb := add_some_bound hm hadd
      have hcfg : t1.cfg = t.cfg := by rw [(Tbl.add_eq_some hadd).2]; rfl
      intro x hx
      rcases List.mem_cons.mp hx with rfl | hx'
      · omega
      · exact handles_le_max es t1 hs1 _ m (hcfg ▸ hm) hrec x hx'

theorem sum_take_le (l : List Nat) (i : Nat) : (l.take i).sum ≤ l.sum := by
  have := congrArg List.sum (List.take_append_drop i l)
  rw [List.sum_append] at this
  omega

/-- every handle is an offset inside (or at the end of) the final image -/
theorem handle_le_image (c : TblCfg) (o : Oem) (hw : C02.CfgWf c o) (es : List (Bytes × Nat))
    (hcl : ∀ e ∈ es, e.2 = e.1.length) (hs : List Nat) (t : Tbl)
    (h : runAdds (Tbl.new c o) es = some (hs, t)) :
    ∀ (i hnd : Nat), hs[i]? = some hnd → hnd ≤ t.image.length := by
  obtain ⟨hsig, hid, htb⟩ := hw
  obtain ⟨hcfg, hoem, hbody, -, -, -, hlen, hget⟩ := runAdds_struct es _ hs t h
  simp only [Tbl.new_cfg, Tbl.new_oem, Tbl.new_body, List.nil_append, Tbl.new_handleOffset] at hcfg hoem hbody hget
  have hhead : t.head.length = Tbl.firstOffset c := by
    rw [Tbl.length_head t (hcfg ▸ hsig) (hoem ▸ hid) (hoem ▸ htb), hcfg]
  intro i hnd hi
  have hi' : i < es.length := by
    rcases Nat.lt_or_ge i hs.length with h' | h'
    · omega
    · rw [List.getElem?_eq_none h'] at hi; cases hi
  rw [hget i hi'] at hi
  cases hi
  rw [Tbl.image_eq, List.length_append, hhead, hbody, length_flatten_map_fst es hcl, List.map_take]
  have := sum_take_le (es.map (·.2)) i
  omega

/-! ### reading a field of an entry back from the whole image -/

theorem readAt_sub (img e : Bytes) (hnd off w v : Nat) (hw : 0 < w)
    (he : (img.drop hnd).take e.length = e) (hr : readAt e off w = some v) :
    readAt img (hnd + off) w = some v := by
  unfold readAt at hr ⊢
  split at hr
  · rename_i hle
    have hlen := congrArg List.length he
    simp only [List.length_take, List.length_drop] at hlen
    have hin : hnd + e.length ≤ img.length := by omega
    rw [if_pos (by omega)]
    rw [← hr, ← he, List.drop_take, List.take_take, List.drop_drop, Nat.min_eq_left (by omega)]
  · cases hr

/-! ### which reference row carries which reference position

    One small lemma per position; these are the only places that unfold `Spec.rows`. -/

theorem mem_arrayRows (base stride w : Nat) (vs : List Nat) (i v : Nat) (h : vs[i]? = some v) :
    Row.num (base + stride * i) w v ∈ arrayRows base stride w vs := by
  unfold arrayRows
  apply List.mem_of_getElem? (i := i)
  rw [List.getElem?_mapIdx, h]
  rfl

/-- PPTT processor node, parent: row `4 bytes at 8 = ctor.num 0`.  (`_hset`: the program makes no
    raw field write; with it this statement also holds for a layout whose parent row reads
    `lastSet opts 1 (n 0)`.) -/
theorem proc_parent_row (c : EArgs) (opts : List Opt)
    (_hset : opts.all (fun o => o.name != "set") = true) :
    ∃ total rs, rows .proc c opts = some (total, rs) ∧ Row.num 8 4 (c.num 0) ∈ rs := by
  have hns : has opts "set" = false := by
    unfold has
    rw [List.any_eq_false]
    intro o ho
    have := (List.all_eq_true.mp _hset) o ho
    simpa using this
  have hl : lastSet opts 1 (c.num 0) = c.num 0 := Acpi.ProcF.lastSet_of_not_has_set opts hns 1 (c.num 0)
  refine ⟨_, _, rfl, ?_⟩
  simp [hl]

/-- PPTT processor node, i-th private resource: row `4 bytes at 20 + 4 i` -/
theorem proc_cache_row (c : EArgs) (opts : List Opt) (i v : Nat)
    (h : (optVals "cache" opts)[i]? = some v) :
    ∃ total rs, rows .proc c opts = some (total, rs) ∧ Row.num (20 + 4 * i) 4 v ∈ rs :=
  ⟨_, _, rfl, List.mem_append_right _ (mem_arrayRows 20 4 4 _ i v h)⟩

/-- PPTT cache node, next level of cache: row `4 bytes at 8` -/
theorem cache_next_row (c : EArgs) (opts : List Opt) (v : Nat) (h : lastOptVal "next" opts = some v) :
    ∃ total rs, rows .cache c opts = some (total, rs) ∧ Row.num 8 4 v ∈ rs := by
  have hv : lastVal opts "next" 0 0 = v := by rw [lastVal_eq_lastOptVal, h]; rfl
  refine ⟨_, _, rfl, ?_⟩
  rw [hv]
  simp

/-- RHCT hart info node, ISA string node offset: row `4 bytes at 12` -/
theorem hart_isa_row (c : EArgs) (opts : List Opt) :
    ∃ total rs, rows .hart c opts = some (total, rs) ∧ Row.num 12 4 (c.num 1) ∈ rs :=
  ⟨_, _, rfl, List.mem_append_right _ (mem_arrayRows 12 4 4 _ 0 _ rfl)⟩

/-- RHCT hart info node, i-th CMO node offset: row `4 bytes at 16 + 4 i` -/
theorem hart_cmo_row (c : EArgs) (opts : List Opt) (i v : Nat) (h : (optVals "cmo" opts)[i]? = some v) :
    ∃ total rs, rows .hart c opts = some (total, rs) ∧ Row.num (16 + 4 * i) 4 v ∈ rs := by
  refine ⟨_, _, rfl, List.mem_append_right _ ?_⟩
  have := mem_arrayRows 12 4 4 (c.num 1 :: pushed opts "cmo") (i + 1) v
    (by rw [List.getElem?_cons_succ]; exact h)
  have e : 12 + 4 * (i + 1) = 16 + 4 * i := by omega
  rw [e] at this
  exact this

/-- VIOT PCI range node, translation offset: row `2 bytes at 16 = ctor.num 8` -/
theorem pcirange_row (c : EArgs) (opts : List Opt) :
    ∃ total rs, rows .pcirange c opts = some (total, rs) ∧ Row.num 16 2 (c.num 8) ∈ rs :=
  ⟨_, _, rfl, by simp⟩

/-- VIOT MMIO endpoint node, translation offset: row `2 bytes at 16 = ctor.num 2` -/
theorem mmioep_row (c : EArgs) (opts : List Opt) :
    ∃ total rs, rows .mmioep c opts = some (total, rs) ∧ Row.num 16 2 (c.num 2) ∈ rs :=
  ⟨_, _, rfl, by simp⟩

theorem idmap_dst_mem (o : Nat) (t : List Nat) (v : Nat) (h : t[3]? = some v) :
    Row.num (o + 12) 4 v ∈ idmapRows o t := by
  simp [idmapRows, h]

/-- RIMT PCIe root complex, destination of the i-th id mapping: row `4 bytes at 16 + 20 i + 12` -/
theorem pcierc_dst_row (c : EArgs) (opts : List Opt) (i : Nat) (t : List Nat) (v : Nat)
    (hf : c.num 4 ≠ 0) (ht : c.s[i]? = some t) (hv : t[3]? = some v) :
    ∃ total rs, rows .pcierc c opts = some (total, rs) ∧ Row.num (16 + 20 * i + 12) 4 v ∈ rs := by
  refine ⟨_, _, rfl, List.mem_append_right _ ?_⟩
  rw [if_pos hf]
  have hi : i < c.s.length := by
    rcases Nat.lt_or_ge i c.s.length with h | h
    · exact h
    · rw [List.getElem?_eq_none h] at ht; cases ht
  refine List.mem_flatMap.mpr ⟨i, List.mem_range.mpr hi, ?_⟩
  have : c.s.getD i [] = t := by rw [List.getD_eq_getElem?_getD, ht]; rfl
  rw [this]
  exact idmap_dst_mem _ t v hv

/-- RIMT platform device, destination of the i-th id mapping: row `4 bytes at 13 + l + 20 i + 12`
    (`l` = length of the device name) -/
theorem platform_dst_row (c : EArgs) (opts : List Opt) (i : Nat) (t : List Nat) (v : Nat)
    (hf : c.num 1 ≠ 0) (ht : c.s[i]? = some t) (hv : t[3]? = some v) :
    ∃ total rs, rows .platform c opts = some (total, rs) ∧
      Row.num (13 + (c.blob 0).length + 20 * i + 12) 4 v ∈ rs := by
  refine ⟨_, _, rfl, List.mem_append_right _ ?_⟩
  rw [if_pos hf]
  have hi : i < c.s.length := by
    rcases Nat.lt_or_ge i c.s.length with h | h
    · exact h
    · rw [List.getElem?_eq_none h] at ht; cases ht
  refine List.mem_flatMap.mpr ⟨i, List.mem_range.mpr hi, ?_⟩
  have : c.s.getD i [] = t := by rw [List.getD_eq_getElem?_getD, ht]; rfl
  rw [this]
  exact idmap_dst_mem _ t v hv

/-- **the value a call holds at a reference position is a row of its reference layout**, at
    `fieldOffset` and of width `width` -/
theorem ref_row (pos : RefPos) (op : AddOp) (v : Nat) (hg : getRef pos op = some v)
    (hset : pos = .procParent → op.opts.all (fun o => o.name != "set") = true) :
    ∃ total rs, rows op.k op.ctor op.opts = some (total, rs) ∧
      Row.num (fieldOffset pos op) pos.width v ∈ rs := by
  cases pos with
  | procParent =>
    simp only [getRef] at hg
    split at hg
    · rename_i hc
      cases hg
      rw [hc.1]
      exact proc_parent_row op.ctor op.opts (hset rfl)
    · cases hg
  | procCache i =>
    simp only [getRef] at hg
    split at hg
    · rename_i hc
      rw [hc]
      exact proc_cache_row op.ctor op.opts i v hg
    · cases hg
  | cacheNext =>
    simp only [getRef] at hg
    split at hg
    · rename_i hc
      rw [hc]
      exact cache_next_row op.ctor op.opts v hg
    · cases hg
  | hartIsa =>
    simp only [getRef] at hg
    split at hg
    · rename_i hc
      cases hg
      rw [hc.1]
      exact hart_isa_row op.ctor op.opts
    · cases hg
  | hartCmo i =>
    simp only [getRef] at hg
    split at hg
    · rename_i hc
      rw [hc]
      exact hart_cmo_row op.ctor op.opts i v hg
    · cases hg
  | viotTrans =>
    simp only [getRef] at hg
    split at hg
    · rename_i hc
      cases hg
      rw [hc.1]
      exact pcirange_row op.ctor op.opts
    · split at hg
      · rename_i hc
        cases hg
        rw [hc.1]
        exact mmioep_row op.ctor op.opts
      · cases hg
  | idmapDst i =>
    simp only [getRef] at hg
    split at hg
    · rename_i hc
      cases ht : op.ctor.s[i]? with
      | none => rw [ht] at hg; cases hg
      | some t =>
        rw [ht] at hg
        simp only [Option.bind_some] at hg
        rcases hc with ⟨hk, hf⟩ | ⟨hk, hf⟩
        · have := pcierc_dst_row op.ctor op.opts i t v hf ht hg
          simpa only [fieldOffset, RefPos.width, hk, reduceCtorEq, if_false] using this
        · have := platform_dst_row op.ctor op.opts i t v hf ht hg
          simpa only [fieldOffset, RefPos.width, hk, if_true] using this
    · cases hg

/-! ### the typing discipline, spelled out -/

theorem refsWellTyped_spec (ls : List LAddOp) (h : refsWellTyped ls = true) (i : Nat) (hi : i < ls.length) :
    (ls[i].refs.map (·.1)).Nodup ∧
    ∀ r ∈ ls[i].refs, r.2 < i ∧ (∃ hj : r.2 < ls.length, ls[r.2].op.k ∈ targetKinds r.1) ∧
      (getRef r.1 ls[i].op).isSome = true ∧
      (r.1 = .procParent → ls[i].op.opts.all (fun o => o.name != "set") = true) := by
  unfold refsWellTyped at h
  have h1 := List.all_eq_true.mp h i (List.mem_range.mpr hi)
  simp only [List.getElem?_eq_getElem hi] at h1
  unfold callOk at h1
  simp only [Bool.and_eq_true, decide_eq_true_eq] at h1
  refine ⟨h1.2, ?_⟩
  intro r hr
  have h2 := List.all_eq_true.mp h1.1 r hr
  unfold refOk at h2
  simp only [Bool.and_eq_true, decide_eq_true_eq, Bool.or_eq_true, bne_iff_ne, ne_eq] at h2
  obtain ⟨⟨⟨a1, a2⟩, a3⟩, a4⟩ := h2
  refine ⟨a1, ?_, a3, ?_⟩
  · have hj : r.2 < ls.length := by omega
    refine ⟨hj, ?_⟩
    rw [List.getElem?_eq_getElem hj] at a2
    simpa using a2
  · intro e
    rcases a4 with a4 | a4
    · exact absurd e a4
    · simpa using a4

theorem targetKinds_ne_qos (pos : RefPos) (k : Kind) (h : k ∈ targetKinds pos) : k ≠ .qosctrl := by
  rintro rfl
  cases pos <;> simp [targetKinds] at h

/-- a call with a VIOT translation-offset position can only be accepted by the VIOT -/
theorem viot_of_viotTrans (T : TableId) (op : AddOp) (h : (getRef .viotTrans op).isSome = true)
    (hacc : tableOf op.k = some T.name) : T = .viot := by
  have hk : tableOf op.k = some "viot" := by
    simp only [getRef] at h
    split at h
    · rename_i hc; rw [hc.1]; rfl
    · split at h
      · rename_i hc; rw [hc.1]; rfl
      · cases h
  rw [hk] at hacc
  cases T <;> first | rfl | (simp [TableId.name] at hacc)

end Acpi.Linked
