/- helper lemmas for the table-engine theorems (C01, C02, C03, C05) -/
import Acpi.Tbl
import Acpi.Spec.Walk
import Acpi.Lemmas.Basic
import Acpi.Props.C17
namespace Acpi

/-- run a history of adds; each entry is `(raw bytes, claimed length)`; the code feeds its
    accumulator the byte sum of the entry (`u8sum(&e)` / `as_bytes()`; C14 shows these are
    `sum8` of the serialised bytes).  Returns the handles handed out and the final state;
    `none`: some add panicked. -/
def runAdds (t : Tbl) : List (Bytes × Nat) → Option (List Nat × Tbl)
  | [] => some ([], t)
  | (raw, claimed) :: es =>
    match t.add raw claimed (sum8 raw) with
    | none => none
    | some (h, t') => (runAdds t' es).map fun (hs, t'') => (h :: hs, t'')

/-! ### `readAt` only looks at the bytes it names -/

theorem readAt_append_left (a b : Bytes) (off w : Nat) (h : off + w ≤ a.length) :
    readAt (a ++ b) off w = readAt a off w := by
  unfold readAt
  have h' : off + w ≤ (a ++ b).length := by simp only [List.length_append]; omega
  rw [if_pos h, if_pos h', List.drop_append_of_le_length (by omega),
    List.take_append_of_le_length (by simp only [List.length_drop]; omega)]

theorem readAt_mid (a x b : Bytes) (off w : Nat) (ho : off = a.length) (hx : w = x.length) :
    readAt (a ++ x ++ b) off w = some (fromLE x) := by
  subst ho hx
  unfold readAt
  have h' : a.length + x.length ≤ (a ++ x ++ b).length := by
    simp only [List.length_append]; omega
  rw [if_pos h', List.append_assoc, List.drop_left' rfl, List.take_left' rfl]

/-! ### one step of the engine -/

/-- the state after a successful `add` (the record built by `Tbl.add.go`) -/
def Tbl.step (t : Tbl) (raw : Bytes) (claimed : Nat) (fed : UInt8) : Tbl :=
  let newLen := t.length + UInt32.ofNat claimed
  let c1 := ((t.cks.delete (u32le t.length)).append (u32le newLen)).add fed
  let c2 := if t.cfg.cw = 0 then c1
            else (c1.delete (leN t.cfg.cw t.count)).append (leN t.cfg.cw (t.count + 1))
  { t with length := newLen, cks := c2, hdrCks := c2.cksum, count := t.count + 1,
           handleOffset := t.handleOffset + claimed, body := t.body ++ [raw] }

theorem Tbl.go_eq (t : Tbl) (raw : Bytes) (cl : Nat) (fed : UInt8) :
    Tbl.add.go t raw cl fed = some (t.handleOffset, t.step raw cl fed) := rfl

theorem Tbl.add_eq_some {t : Tbl} {raw : Bytes} {cl : Nat} {fed : UInt8} {h : Nat} {t' : Tbl}
    (e : t.add raw cl fed = some (h, t')) : h = t.handleOffset ∧ t' = t.step raw cl fed := by
  unfold Tbl.add at e
  rw [Tbl.go_eq] at e
  split at e
  · split at e
    · cases e
    · cases e; exact ⟨rfl, rfl⟩
  · cases e; exact ⟨rfl, rfl⟩

/-- a successful `add` is exactly `step`; it fails only through the checked handle offset -/
theorem Tbl.add_eq (t : Tbl) (raw : Bytes) (cl : Nat) (fed : UInt8) :
    t.add raw cl fed = none ∨ t.add raw cl fed = some (t.handleOffset, t.step raw cl fed) := by
  unfold Tbl.add
  rw [Tbl.go_eq]
  split
  · split
    · exact Or.inl rfl
    · exact Or.inr rfl
  · exact Or.inr rfl

theorem runAdds_nil (t : Tbl) : runAdds t [] = some ([], t) := rfl

theorem runAdds_cons_some {t : Tbl} {raw : Bytes} {cl : Nat} {es : List (Bytes × Nat)}
    {hs : List Nat} {t'' : Tbl} (h : runAdds t ((raw, cl) :: es) = some (hs, t'')) :
    ∃ hs', hs = t.handleOffset :: hs' ∧
      runAdds (t.step raw cl (sum8 raw)) es = some (hs', t'') := by
  unfold runAdds at h
  rcases Tbl.add_eq t raw cl (sum8 raw) with e | e
  · rw [e] at h; cases h
  · rw [e] at h
    simp only [Option.map_eq_some_iff] at h
    obtain ⟨⟨hs', t3⟩, h1, h2⟩ := h
    cases h2
    exact ⟨hs', rfl, h1⟩

/-! ### histories -/

theorem runAdds_struct : ∀ (es : List (Bytes × Nat)) (t : Tbl) (hs : List Nat) (t' : Tbl),
    runAdds t es = some (hs, t') →
    t'.cfg = t.cfg ∧ t'.oem = t.oem ∧ t'.body = t.body ++ es.map (·.1) ∧
    t'.count = t.count + es.length ∧
    t'.length = t.length + UInt32.ofNat (es.map (·.2)).sum ∧
    t'.handleOffset = t.handleOffset + (es.map (·.2)).sum ∧
    hs.length = es.length ∧
    ∀ i, i < es.length → hs[i]? = some (t.handleOffset + ((es.take i).map (·.2)).sum) := by
  intro es
  induction es with
  | nil =>
    intro t hs t' h
    rw [runAdds_nil] at h; cases h
    simp
  | cons e es ih =>
    intro t hs t' h
    obtain ⟨raw, cl⟩ := e
    obtain ⟨hs', rfl, h1⟩ := runAdds_cons_some h
    obtain ⟨a1, a2, a3, a4, a5, a6, a7, a8⟩ := ih _ _ _ h1
    refine ⟨a1, a2, ?_, ?_, ?_, ?_, ?_, ?_⟩
    · rw [a3]; simp [Tbl.step]
    · rw [a4]; simp only [Tbl.step, List.length_cons]; omega
    · rw [a5]; simp only [Tbl.step, List.map_cons, List.sum_cons, UInt32.ofNat_add, UInt32.add_assoc]
    · rw [a6]; simp only [Tbl.step, List.map_cons, List.sum_cons]; omega
    · simp [a7]
    · intro i hi
      cases i with
      | zero => simp
      | succ i =>
        simp only [List.length_cons] at hi
        rw [List.getElem?_cons_succ, a8 i (by omega)]
        simp only [Tbl.step, List.take_succ_cons, List.map_cons, List.sum_cons]
        congr 1; omega

theorem sum8_hdrBytes (sig : Bytes) (len : UInt32) (rev k : UInt8) (o : Oem) :
    sum8 (hdrBytes sig len rev k o) = sum8 (hdrBytes sig len rev 0 o) + k := by
  unfold hdrBytes
  simp only [sum8_append, sum8_cons, sum8_nil]
  grind

theorem sum8_hdrBytes_len (sig : Bytes) (len len' : UInt32) (rev k : UInt8) (o : Oem) :
    sum8 (hdrBytes sig len' rev k o) =
      sum8 (hdrBytes sig len rev k o) - sum8 (u32le len) + sum8 (u32le len') := by
  unfold hdrBytes
  simp only [sum8_append, sum8_cons, sum8_nil]
  grind

theorem sum8_leN_zero (w : Nat) : sum8 (leN w 0) = 0 := by
  induction w with
  | zero => rfl
  | succ w ih => simp [leN, ih]

/-- the accumulator tracks the image with a zero checksum byte; the stored checksum is the
    accumulator's -/
def CksInv (t : Tbl) : Prop :=
  t.cks.raw = sum8 (hdrBytes t.cfg.sig t.length t.cfg.rev 0 t.oem) + sum8 t.cfg.pre +
      sum8 (leN t.cfg.cw t.count) + sum8 t.cfg.post + sum8 t.body.flatten ∧
  t.hdrCks = t.cks.cksum

theorem CksInv_new (c : TblCfg) (o : Oem) : CksInv (Tbl.new c o) := by
  unfold CksInv Tbl.new
  simp only [C17.append_raw, sum8_leN_zero, List.flatten_nil, sum8_nil, and_true]
  simp [Cks.raw]

theorem CksInv_step (t : Tbl) (raw : Bytes) (cl : Nat) (hi : CksInv t) :
    CksInv (t.step raw cl (sum8 raw)) := by
  obtain ⟨h1, _⟩ := hi
  refine ⟨?_, rfl⟩
  unfold Tbl.step
  simp only [List.flatten_append, sum8_append, List.flatten_cons, List.flatten_nil,
    List.append_nil]
  rw [sum8_hdrBytes_len t.cfg.sig t.length]
  by_cases hc : t.cfg.cw = 0
  · rw [if_pos hc]
    have e : ∀ (c : Cks) (b : UInt8), (c.add b).raw = c.raw + b := fun _ _ => rfl
    rw [e, C17.append_raw, C17.delete_raw, h1]
    simp only [hc, leN, sum8_nil]
    grind
  · rw [if_neg hc]
    have e : ∀ (c : Cks) (b : UInt8), (c.add b).raw = c.raw + b := fun _ _ => rfl
    rw [C17.append_raw, C17.delete_raw, e, C17.append_raw, C17.delete_raw, h1]
    grind

theorem CksInv_runAdds : ∀ (es : List (Bytes × Nat)) (t : Tbl) (hs : List Nat) (t' : Tbl),
    CksInv t → runAdds t es = some (hs, t') → CksInv t' := by
  intro es
  induction es with
  | nil => intro t hs t' hi h; rw [runAdds_nil] at h; cases h; exact hi
  | cons e es ih =>
    intro t hs t' hi h
    obtain ⟨raw, cl⟩ := e
    obtain ⟨hs', rfl, h1⟩ := runAdds_cons_some h
    exact ih _ _ _ (CksInv_step t raw cl hi) h1

theorem CksInv_sum (t : Tbl) (hi : CksInv t) : sum8 t.image = 0 := by
  obtain ⟨h1, h2⟩ := hi
  unfold Tbl.image
  simp only [sum8_append]
  rw [sum8_hdrBytes, h2]
  have := C17.raw_add_cksum t.cks
  rw [h1] at this
  grind

/-! ### layout -/

theorem runAdds_append : ∀ (es es' : List (Bytes × Nat)) (t : Tbl) (hs hs' : List Nat) (t1 t' : Tbl),
    runAdds t es = some (hs, t1) → runAdds t (es ++ es') = some (hs', t') →
    ∃ hs2, runAdds t1 es' = some (hs2, t') ∧ hs' = hs ++ hs2 := by
  intro es
  induction es with
  | nil =>
    intro es' t hs hs' t1 t' h h'
    rw [runAdds_nil] at h; cases h
    exact ⟨hs', h', rfl⟩
  | cons e es ih =>
    intro es' t hs hs' t1 t' h h'
    obtain ⟨raw, cl⟩ := e
    obtain ⟨hsa, rfl, h1⟩ := runAdds_cons_some h
    rw [List.cons_append] at h'
    obtain ⟨hsb, rfl, h2⟩ := runAdds_cons_some h'
    obtain ⟨hs2, h3, rfl⟩ := ih _ _ _ _ _ _ h1 h2
    exact ⟨hs2, h3, rfl⟩

theorem length_hdrBytes (sig : Bytes) (len : UInt32) (rev k : UInt8) (o : Oem)
    (hsig : sig.length = 4) (hid : o.id.length = 6) (htb : o.table.length = 8) :
    (hdrBytes sig len rev k o).length = 36 := by
  unfold hdrBytes
  simp only [List.length_append, length_u32le, List.length_cons, List.length_nil, hsig, hid, htb,
    creatorId, creatorRev]

theorem Tbl.image_eq (t : Tbl) : t.image = t.head ++ t.body.flatten := rfl

theorem Tbl.length_head (t : Tbl) (hsig : t.cfg.sig.length = 4) (hid : t.oem.id.length = 6)
    (htb : t.oem.table.length = 8) : t.head.length = Tbl.firstOffset t.cfg := by
  unfold Tbl.head Tbl.firstOffset
  simp only [List.length_append, length_leN, length_hdrBytes _ _ _ _ _ hsig hid htb]

@[simp] theorem Tbl.new_cfg (c : TblCfg) (o : Oem) : (Tbl.new c o).cfg = c := rfl
@[simp] theorem Tbl.new_oem (c : TblCfg) (o : Oem) : (Tbl.new c o).oem = o := rfl
@[simp] theorem Tbl.new_body (c : TblCfg) (o : Oem) : (Tbl.new c o).body = [] := rfl
@[simp] theorem Tbl.new_count (c : TblCfg) (o : Oem) : (Tbl.new c o).count = 0 := rfl
@[simp] theorem Tbl.new_length (c : TblCfg) (o : Oem) :
    (Tbl.new c o).length = UInt32.ofNat (Tbl.firstOffset c) := rfl
@[simp] theorem Tbl.new_handleOffset (c : TblCfg) (o : Oem) :
    (Tbl.new c o).handleOffset = Tbl.firstOffset c := rfl

/-- the Length field (4 bytes at offset 4) reads back the header's `length` -/
theorem readAt_length (t : Tbl) (hsig : t.cfg.sig.length = 4) :
    readAt t.image 4 4 = some t.length.toNat := by
  unfold Tbl.image hdrBytes
  simp only [List.append_assoc]
  rw [← List.append_assoc]
  rw [readAt_mid _ _ _ 4 4 hsig.symm (length_u32le _).symm, u32le_eq_leN, fromLE_leN]
  congr 1
  have := t.length.toNat_lt
  omega

theorem length_flatten_map_fst (es : List (Bytes × Nat)) (hcl : ∀ e ∈ es, e.2 = e.1.length) :
    (es.map (·.1)).flatten.length = (es.map (·.2)).sum := by
  induction es with
  | nil => rfl
  | cons e es ih =>
    simp only [List.map_cons, List.flatten_cons, List.length_append, List.sum_cons]
    rw [ih (fun e he => hcl e (List.mem_cons_of_mem _ he)), hcl e (List.mem_cons_self)]

theorem map_snd_eq (es : List (Bytes × Nat)) (hcl : ∀ e ∈ es, e.2 = e.1.length) :
    es.map (·.2) = es.map (·.1.length) :=
  List.map_congr_left hcl

/-- the bytes of the i-th chunk of a concatenation sit at the sum of the earlier sizes -/
theorem flatten_drop_take (L : List Bytes) (i : Nat) (hi : i < L.length) (rest : Bytes) :
    ((L.flatten ++ rest).drop ((L.take i).map (·.length)).sum).take L[i].length = L[i] := by
  induction L generalizing i with
  | nil => simp at hi
  | cons x L ih =>
    cases i with
    | zero =>
      simp only [List.take_zero, List.map_nil, List.sum_nil, List.drop_zero, List.flatten_cons,
        List.getElem_cons_zero, List.append_assoc]
      exact List.take_left' rfl
    | succ i =>
      simp only [List.length_cons] at hi
      simp only [List.take_succ_cons, List.map_cons, List.sum_cons, List.flatten_cons,
        List.getElem_cons_succ, List.append_assoc]
      rw [← List.drop_drop, List.drop_left' rfl]
      exact ih i (by omega)

/-! ### the specification walk -/
section
open Spec

theorem entryHdr_append (k : WalkKind) (raw rest : Bytes) (h : hdrSize k ≤ raw.length) :
    entryHdr k (raw ++ rest) = entryHdr k raw := by
  cases k <;> simp only [hdrSize] at h <;> unfold entryHdr <;> simp only
  · rw [readAt_append_left _ _ 0 1 (by omega), readAt_append_left _ _ 1 1 (by omega)]
  · rw [readAt_append_left _ _ 0 2 (by omega), readAt_append_left _ _ 4 4 (by omega)]
  · rw [readAt_append_left _ _ 0 2 (by omega), readAt_append_left _ _ 2 2 (by omega)]
  · rw [readAt_append_left _ _ 0 1 (by omega), readAt_append_left _ _ 2 2 (by omega)]
  · rw [readAt_append_left _ _ 0 2 (by omega)]
  · rw [if_pos h, if_pos (by simp only [List.length_append]; omega)]

theorem walk_step (k : WalkKind) (fuel : Nat) (bs : Bytes) (hne : bs ≠ []) (ty len : Nat)
    (hh : entryHdr k bs = some (ty, len)) (h1 : hdrSize k ≤ len) (h2 : 0 < len)
    (h3 : len ≤ bs.length) :
    walk k (fuel + 1) bs = (walk k fuel (bs.drop len)).map fun es => (ty, bs.take len) :: es := by
  cases bs with
  | nil => exact absurd rfl hne
  | cons b bs =>
    conv => lhs; unfold walk
    simp only [hh]
    rw [if_neg (by omega)]

theorem walk_flatten_aux (k : WalkKind) (es : List (Nat × Bytes))
    (h : ∀ e ∈ es, entryHdr k e.2 = some (e.1, e.2.length) ∧ hdrSize k ≤ e.2.length ∧ 0 < e.2.length)
    (fuel : Nat) (hf : (es.map (·.2)).flatten.length ≤ fuel) :
    walk k fuel (es.map (·.2)).flatten = some es := by
  induction es generalizing fuel with
  | nil => cases fuel <;> rfl
  | cons e es ih =>
    obtain ⟨ty, raw⟩ := e
    obtain ⟨e1, e2, e3⟩ := h (ty, raw) List.mem_cons_self
    simp only at e1 e2 e3
    simp only [List.map_cons, List.flatten_cons, List.length_append] at hf ⊢
    cases fuel with
    | zero => omega
    | succ fuel =>
      have hne : raw ++ (es.map (·.2)).flatten ≠ [] := by
        intro hc
        have := congrArg List.length hc
        simp only [List.length_append, List.length_nil] at this
        omega
      rw [walk_step k fuel _ hne ty raw.length (by rw [entryHdr_append k _ _ e2]; exact e1) e2 e3
        (by simp only [List.length_append]; omega),
        List.drop_left' rfl, List.take_left' rfl,
        ih (fun e he => h e (List.mem_cons_of_mem _ he)) fuel (by omega)]
      rfl

end

/-! ### table-level checks -/
section
open Spec

theorem tableEntries_ok (sh : TableShape) (img : Bytes) (L : List (Nat × Bytes))
    (h1 : sh.first ≤ img.length)
    (h2 : walk sh.kind img.length (img.drop sh.first) = some L)
    (h3 : ∀ off w, sh.count = some (off, w) → readAt img off w = some (L.length % 256 ^ w))
    (h4 : ∀ o w v, sh.arrayOff = some (o, w, v) → readAt img o w = some v) :
    tableEntries sh img = .ok L := by
  unfold tableEntries
  rw [if_neg (by omega)]
  simp only [h2]
  cases hc : sh.count with
  | none => rfl
  | some p =>
    obtain ⟨off, w⟩ := p
    simp only
    rw [if_neg (by rw [h3 off w hc]; exact fun h => h rfl)]
    cases ha : sh.arrayOff with
    | none => rfl
    | some q =>
      obtain ⟨o, w', v⟩ := q
      simp only
      rw [if_pos (h4 o w' v ha)]

theorem readAt_count (t : Tbl) (hsig : t.cfg.sig.length = 4) (hid : t.oem.id.length = 6)
    (htb : t.oem.table.length = 8) :
    readAt t.image (36 + t.cfg.pre.length) t.cfg.cw = some (t.count % 256 ^ t.cfg.cw) := by
  unfold Tbl.image
  rw [List.append_assoc (hdrBytes _ _ _ _ _ ++ t.cfg.pre ++ _)]
  rw [readAt_mid _ _ _ _ _ (by rw [List.length_append, length_hdrBytes _ _ _ _ _ hsig hid htb])
    (length_leN _ _).symm, fromLE_leN]

theorem readAt_post (t : Tbl) (hsig : t.cfg.sig.length = 4) (hid : t.oem.id.length = 6)
    (htb : t.oem.table.length = 8) (w v : Nat) (hp : t.cfg.post.take w = leN w v) :
    readAt t.image (36 + t.cfg.pre.length + t.cfg.cw) w = some (v % 256 ^ w) := by
  unfold Tbl.image
  have himg : hdrBytes t.cfg.sig t.length t.cfg.rev t.hdrCks t.oem ++ t.cfg.pre ++
        leN t.cfg.cw t.count ++ t.cfg.post ++ t.body.flatten =
      (hdrBytes t.cfg.sig t.length t.cfg.rev t.hdrCks t.oem ++ t.cfg.pre ++
        leN t.cfg.cw t.count) ++ leN w v ++ (t.cfg.post.drop w ++ t.body.flatten) := by
    rw [← hp]
    simp only [List.append_assoc, List.append_cancel_left_eq]
    rw [← List.append_assoc, List.take_append_drop]
  rw [himg, readAt_mid _ _ _ _ _ (by
      rw [List.length_append, List.length_append, length_hdrBytes _ _ _ _ _ hsig hid htb, length_leN])
    (length_leN _ _).symm, fromLE_leN]

theorem zip_map_snd (tys : List Nat) (bs : List Bytes) (h : tys.length = bs.length) :
    (tys.zip bs).map (·.2) = bs := by
  induction tys generalizing bs with
  | nil => cases bs with
    | nil => rfl
    | cons _ _ => simp at h
  | cons a tys ih =>
    cases bs with
    | nil => simp at h
    | cons b bs =>
      simp only [List.length_cons, Nat.add_right_cancel_iff] at h
      simp only [List.zip_cons_cons, List.map_cons, ih bs h]

end

end Acpi
