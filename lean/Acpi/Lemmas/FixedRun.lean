/-
  Helper lemmas about `runFixed` / `runFixedFrom` / `FixedState.step` shared by the
  fixed-table theorems (C01, C02, C04 — `Acpi.Props.*.Fixed`).
-/
import Acpi.Tables.Fixed
import Acpi.Lemmas.Basic
namespace Acpi

theorem runFixed_some {t : FixedT} {o : Oem} {c : EArgs} {ops : List Opt} {s : FixedState}
    (h : runFixed t o c ops = some s) :
    ∃ s0, FixedState.new t o c = some s0 ∧ runFixedFrom s0 ops = some s := by
  unfold runFixed at h
  cases hn : FixedState.new t o c with
  | none => rw [hn] at h; cases h
  | some s0 => rw [hn] at h; exact ⟨s0, rfl, h⟩

theorem runFixedFrom_nil (s : FixedState) : runFixedFrom s [] = some s := rfl

theorem runFixedFrom_cons_some {s s' : FixedState} {o : Opt} {os : List Opt}
    (h : runFixedFrom s (o :: os) = some s') :
    ∃ s1, s.step o = some s1 ∧ runFixedFrom s1 os = some s' := by
  unfold runFixedFrom at h
  cases hs : s.step o with
  | none => rw [hs] at h; cases h
  | some s1 => rw [hs] at h; exact ⟨s1, rfl, h⟩

/-- a state on which every operation panics: a successful program is empty -/
theorem runFixedFrom_noop {s s' : FixedState} {ops : List Opt} (hno : ∀ o, s.step o = none)
    (h : runFixedFrom s ops = some s') : ops = [] ∧ s' = s := by
  cases ops with
  | nil => cases h; exact ⟨rfl, rfl⟩
  | cons o os =>
    obtain ⟨s1, h1, _⟩ := runFixedFrom_cons_some h
    rw [hno] at h1; cases h1

/-- tables without builder calls -/
def FixedT.plain (t : FixedT) : Prop :=
  t = .bert ∨ t = .spcr ∨ t = .tcpac ∨ t = .rsdp ∨ t = .facs

theorem step_plain (s : FixedState) (h : s.t.plain) (o : Opt) : s.step o = none := by
  unfold FixedState.step
  rcases h with h | h | h | h | h <;> rw [h]

theorem new_plain {t : FixedT} (h : t.plain) (o : Oem) (c : EArgs) :
    FixedState.new t o c = some { t, oem := o, a := c } := by
  rcases h with h | h | h | h | h <;> subst h <;> rfl

/-- a table without builder calls: the only successful program is the empty one and the state
    is the constructor's -/
theorem runFixed_plain {t : FixedT} (ht : t.plain) {o : Oem} {c : EArgs} {ops : List Opt}
    {s : FixedState} (h : runFixed t o c ops = some s) :
    ops = [] ∧ s = { t, oem := o, a := c } := by
  obtain ⟨s0, h0, h1⟩ := runFixed_some h
  rw [new_plain ht] at h0
  cases h0
  exact runFixedFrom_noop (step_plain _ ht) h1

/-- a property preserved by every successful operation holds after the program -/
theorem runFixedFrom_inv (P : FixedState → Prop)
    (hstep : ∀ s o s', P s → s.step o = some s' → P s') :
    ∀ (ops : List Opt) (s s' : FixedState), P s → runFixedFrom s ops = some s' → P s' := by
  intro ops
  induction ops with
  | nil => intro s s' hp h; cases h; exact hp
  | cons o os ih =>
    intro s s' hp h
    obtain ⟨s1, h1, h2⟩ := runFixedFrom_cons_some h
    exact ih s1 s' (hstep s o s1 hp h1) h2

/-- what a successful SLIT `set_distance` does -/
theorem slit_step {s s' : FixedState} {o : Opt} (ht : s.t = .slit) (h : s.step o = some s') :
    o.name = "dist" ∧ o.arg 0 + s.a.num 0 * o.arg 1 < s.cells.length ∧
    o.arg 1 + s.a.num 0 * o.arg 0 < s.cells.length ∧
    s'.t = .slit ∧ s'.a = s.a ∧ s'.oem = s.oem ∧
    s'.cells = (s.cells.set (o.arg 0 + s.a.num 0 * o.arg 1) (o.arg 2)).set (o.arg 1 + s.a.num 0 * o.arg 0) (o.arg 2) ∧
    s'.hdrCks = s'.cks.cksum ∧
    s'.cks = (if o.arg 0 = o.arg 1 then
        (s.cks.sub (UInt8.ofNat (s.cells.getD (o.arg 0 + s.a.num 0 * o.arg 1) 0))).add (UInt8.ofNat (o.arg 2))
      else (s.cks.delete [UInt8.ofNat (s.cells.getD (o.arg 0 + s.a.num 0 * o.arg 1) 0),
              UInt8.ofNat (s.cells.getD (o.arg 1 + s.a.num 0 * o.arg 0) 0)]).append
              [UInt8.ofNat (o.arg 2), UInt8.ofNat (o.arg 2)]) := by
  unfold FixedState.step at h
  rw [ht] at h
  simp only [] at h
  split at h
  · rename_i hn
    split at h
    · cases h
    · rename_i hr
      simp only [not_or, Nat.not_le] at hr
      split at h
      · rename_i hab
        cases h
        refine ⟨hn, hr.1, hr.2, rfl, rfl, rfl, ?_, rfl, ?_⟩
        · simp only [hab, List.set_set]
        · simp only [hab, if_true]
      · rename_i hab
        cases h
        refine ⟨hn, hr.1, hr.2, rfl, rfl, rfl, rfl, rfl, ?_⟩
        simp only [hab, if_false]
  · cases h

/-- what a successful TPM2 `set_log_area` does -/
theorem tpm2_step {s s' : FixedState} {o : Opt} (ht : s.t = .tpm2) (h : s.step o = some s') :
    o.name = "logarea" ∧ s.a.num 3 = 0 ∧
    s'.t = .tpm2 ∧ s'.oem = s.oem ∧ s'.cells = s.cells ∧
    s'.a = ((s.a.setNum 3 1).setNum 4 (o.arg 0)).setNum 5 (o.arg 1) ∧
    s'.hdrCks = s'.cks.cksum ∧
    s'.cks = (((s.cks.delete (u32le 52)).append (u32le 76)).append (leN 4 (o.arg 0))).append (leN 8 (o.arg 1)) := by
  unfold FixedState.step at h
  rw [ht] at h
  simp only [] at h
  split at h
  · rename_i hn
    split at h
    · cases h
    · rename_i hr
      cases h
      exact ⟨hn, by simpa using hr, rfl, rfl, rfl, rfl, rfl, rfl⟩
  · cases h

/-- what a successful FADT operation does -/
theorem fadt_step {s s' : FixedState} {o : Opt} (ht : s.t = .fadt) (h : s.step o = some s') :
    ∃ a, Fadt.applyOp s.a o = some a ∧ s' = { s with a } := by
  unfold FixedState.step at h
  rw [ht] at h
  simp only [Option.map_eq_some_iff] at h
  obtain ⟨a, h1, h2⟩ := h
  exact ⟨a, h1, by rw [ht]; exact h2.symm⟩

/-- what a successful TCPA-server operation does -/
theorem tcpas_step {s s' : FixedState} {o : Opt} (ht : s.t = .tcpas) (h : s.step o = some s') :
    ∃ a, Tcpas.applyOp s.a o = some a ∧ s' = { s with a } := by
  unfold FixedState.step at h
  rw [ht] at h
  simp only [Option.map_eq_some_iff] at h
  obtain ⟨a, h1, h2⟩ := h
  exact ⟨a, h1, by rw [ht]; exact h2.symm⟩

/-- operations never change the table type or the OEM fields -/
theorem step_t {s s' : FixedState} {o : Opt} (h : s.step o = some s') : s'.t = s.t ∧ s'.oem = s.oem := by
  cases ht : s.t with
  | fadt => obtain ⟨a, _, rfl⟩ := fadt_step ht h; exact ⟨ht, rfl⟩
  | tcpas => obtain ⟨a, _, rfl⟩ := tcpas_step ht h; exact ⟨ht, rfl⟩
  | tpm2 => have := tpm2_step ht h; exact ⟨this.2.2.1, this.2.2.2.1⟩
  | slit => have := slit_step ht h; exact ⟨this.2.2.2.1, this.2.2.2.2.2.1⟩
  | bert => rw [step_plain s (by simp [FixedT.plain, ht])] at h; cases h
  | spcr => rw [step_plain s (by simp [FixedT.plain, ht])] at h; cases h
  | tcpac => rw [step_plain s (by simp [FixedT.plain, ht])] at h; cases h
  | rsdp => rw [step_plain s (by simp [FixedT.plain, ht])] at h; cases h
  | facs => rw [step_plain s (by simp [FixedT.plain, ht])] at h; cases h

theorem new_t {t : FixedT} {o : Oem} {c : EArgs} {s : FixedState} (h : FixedState.new t o c = some s) :
    s.t = t ∧ s.oem = o := by
  unfold FixedState.new at h
  cases t <;> simp only [] at h
  case slit =>
    split at h
    · cases h
    · cases h; exact ⟨rfl, rfl⟩
  all_goals (cases h; exact ⟨rfl, rfl⟩)

theorem runFixed_t {t : FixedT} {o : Oem} {c : EArgs} {ops : List Opt} {s : FixedState}
    (h : runFixed t o c ops = some s) : s.t = t ∧ s.oem = o := by
  obtain ⟨s0, h0, h1⟩ := runFixed_some h
  obtain ⟨e1, e2⟩ := new_t h0
  have := runFixedFrom_inv (fun x => x.t = t ∧ x.oem = o) (fun x op x' hx hs => by
    obtain ⟨a1, a2⟩ := step_t hs
    exact ⟨a1.trans hx.1, a2.trans hx.2⟩) ops s0 s ⟨e1, e2⟩ h1
  exact this

end Acpi
