/-
  Helper lemmas for the MADT family of C04 (Acpi.Props.C04.Madt).
-/
import Acpi.Tables.Build
import Acpi.Tables.Wf
import Acpi.Spec.Layout
import Acpi.Lemmas.Layout
namespace Acpi.C04.Madt
open Acpi Spec

set_option linter.unusedSimpArgs false

/-- a kind without builder calls: a successful build has no options and returns the
    constructor state -/
theorem build_noopts (k : Kind) (c : EArgs) (opts : List Opt) (a : EArgs)
    (hno : ∀ s o, applyOpt k s o = none)
    (h : buildEntry k c opts = .ok a) : opts = [] ∧ a = init k c := by
  unfold buildEntry at h
  split at h
  · cases h
  · cases opts with
    | nil =>
      simp only [applyOpts] at h
      split at h
      · cases h
      · cases h; exact ⟨rfl, rfl⟩
    | cons o os =>
      simp only [applyOpts, hno] at h
      cases h

@[simp] theorem leN_zero (w : Nat) : leN w 0 = zeros w := by
  induction w with
  | zero => rfl
  | succ w ih => simp [leN, ih, zeros, List.replicate_succ]

@[simp] theorem size_setNum (a : EArgs) (i v : Nat) : (a.setNum i v).n.size = a.n.size := by
  simp [EArgs.setNum]

@[simp] theorem num_setNum (a : EArgs) (i v j : Nat) :
    (a.setNum i v).num j = if i = j ∧ i < a.n.size then v else a.num j := by
  simp only [EArgs.setNum, EArgs.num, Array.getD_eq_getD_getElem?, Array.getElem?_setIfInBounds]
  by_cases hij : i = j
  · subst hij
    by_cases hs : i < a.n.size
    · simp [hs]
    · simp [hs]
  · simp [hij]

@[simp] theorem size_orNum (a : EArgs) (i v : Nat) : (a.orNum i v).n.size = a.n.size := by
  simp [EArgs.orNum]

@[simp] theorem num_orNum (a : EArgs) (i b j : Nat) :
    (a.orNum i b).num j = if i = j ∧ i < a.n.size then a.num i ||| b else a.num j := by
  simp [EArgs.orNum]

/-- one step of "value of the last matching call, else the default" -/
theorem lastMap_cons (p : Opt → Bool) (f : Opt → Nat) (o : Opt) (os : List Opt) (d : Nat) :
    ((((o :: os).filter p).getLast?).map f).getD d =
      (((os.filter p).getLast?).map f).getD (if p o then f o else d) := by
  by_cases hp : p o
  · simp only [List.filter_cons_of_pos hp, hp, if_true, List.getLast?_cons]
    cases (os.filter p).getLast? <;> simp
  · simp [List.filter_cons_of_neg hp, hp]

theorem lastVal_nil (n : String) (i d : Nat) : lastVal [] n i d = d := rfl
theorem lastSet_nil (idx d : Nat) : lastSet [] idx d = d := rfl

theorem lastVal_cons (o : Opt) (os : List Opt) (n : String) (i d : Nat) :
    lastVal (o :: os) n i d = lastVal os n i (if o.name = n then o.arg i else d) := by
  unfold lastVal lastOf
  rw [lastMap_cons]
  simp

theorem lastSet_cons (o : Opt) (os : List Opt) (idx d : Nat) :
    lastSet (o :: os) idx d = lastSet os idx (if o.name = "set" ∧ o.arg 0 = idx then o.arg 1 else d) := by
  unfold lastSet
  rw [lastMap_cons]
  simp

theorem applyOpts_cons_ok {k : Kind} {s a : EArgs} {o : Opt} {os : List Opt}
    (h : applyOpts k s (o :: os) = .ok a) :
    ∃ s', applyOpt k s o = some s' ∧ applyOpts k s' os = .ok a := by
  simp only [applyOpts] at h
  split at h
  · exact ⟨_, ‹_›, h⟩
  · cases h

theorem build_ok {k : Kind} {c a : EArgs} {opts : List Opt} (h : buildEntry k c opts = .ok a) :
    applyOpts k (init k c) opts = .ok a := by
  unfold buildEntry at h
  split at h
  · cases h
  · split at h
    · cases h
    · split at h
      · cases h
      · cases h; assumption

/-! ### GICC -/

theorem gicc_pi (a : EArgs) (o : Opt) (h : o.name = "pi") : applyOpt .gicc a o =
   some ((if o.arg 1 = 0 then a.orNum 0 2 else a).setNum 4 (o.arg 0)) := by
  obtain ⟨nm, v⟩ := o
  cases h
  rfl
theorem gicc_mi (a : EArgs) (o : Opt) (h : o.name = "mi") : applyOpt .gicc a o =
   some ((if o.arg 1 = 0 then a.orNum 0 4 else a).setNum 9 (o.arg 0)) := by
  obtain ⟨nm, v⟩ := o
  cases h
  rfl
theorem gicc_set (a : EArgs) (o : Opt) (h : o.name = "set") : applyOpt .gicc a o =
   some (a.setNum (o.arg 0) (o.arg 1)) := by
  obtain ⟨nm, v⟩ := o
  cases h
  rfl
theorem gicc_other (a : EArgs) (o : Opt) (h1 : o.name ≠ "pi") (h2 : o.name ≠ "mi") (h3 : o.name ≠ "set") :
    applyOpt .gicc a o = none := by
  unfold applyOpt
  split <;> first | rfl | contradiction

/-- the final GICC builder state, by slots -/
structure GiccInv (s : EArgs) (opts : List Opt) (a : EArgs) : Prop where
  size : a.n.size = 15
  flags : a.num 0 = s.num 0 ||| (if opts.any (fun o => o.name = "pi" ∧ o.arg 1 = 0) then 2 else 0)
            ||| (if opts.any (fun o => o.name = "mi" ∧ o.arg 1 = 0) then 4 else 0)
  perf : a.num 4 = lastVal opts "pi" 0 (s.num 4)
  maint : a.num 9 = lastVal opts "mi" 0 (s.num 9)
  slot : ∀ j, j ≠ 0 → j ≠ 4 → j ≠ 9 → a.num j = lastSet opts j (s.num j)

theorem gicc_inv (opts : List Opt) : ∀ (s a : EArgs), s.n.size = 15 →
    opts.all (optWf .gicc) = true → applyOpts .gicc s opts = .ok a → GiccInv s opts a := by
  induction opts with
  | nil =>
    intro s a hs _ h
    simp only [applyOpts] at h
    cases h
    exact ⟨hs, by simp, rfl, rfl, fun _ _ _ _ => rfl⟩
  | cons o os ih =>
    intro s a hs hwf h
    obtain ⟨s', h1, h2⟩ := applyOpts_cons_ok h
    simp only [List.all_cons, Bool.and_eq_true] at hwf
    obtain ⟨hwo, hwos⟩ := hwf
    by_cases hpi : o.name = "pi"
    · rw [gicc_pi _ _ hpi] at h1
      cases h1
      by_cases hv : o.arg 1 = 0
      · rw [if_pos hv] at h2
        have I := ih _ a (by simp [hs]) hwos h2
        refine ⟨I.size, ?_, ?_, ?_, ?_⟩
        · rw [I.flags]
          simp only [List.any_cons, hpi]
          generalize os.any (fun o => decide (o.name = "pi" ∧ o.arg 1 = 0)) = b1
          generalize os.any (fun o => decide (o.name = "mi" ∧ o.arg 1 = 0)) = b2
          cases b1 <;> cases b2 <;> simp [hv, hs, Nat.or_assoc]
        · rw [I.perf, lastVal_cons]; simp [hpi, hs]
        · rw [I.maint, lastVal_cons]; simp [hpi, hs]
        · intro j j0 j4 j9
          rw [I.slot j j0 j4 j9, lastSet_cons]
          simp [hpi, hs, Ne.symm j4, Ne.symm j0]
      · rw [if_neg hv] at h2
        have I := ih _ a (by simp [hs]) hwos h2
        refine ⟨I.size, ?_, ?_, ?_, ?_⟩
        · rw [I.flags]
          simp only [List.any_cons, hpi]
          simp [hv, hs]
        · rw [I.perf, lastVal_cons]; simp [hpi, hs]
        · rw [I.maint, lastVal_cons]; simp [hpi, hs]
        · intro j j0 j4 j9
          rw [I.slot j j0 j4 j9, lastSet_cons]
          simp [hpi, hs, Ne.symm j4, Ne.symm j0]
    by_cases hmi : o.name = "mi"
    · rw [gicc_mi _ _ hmi] at h1
      cases h1
      by_cases hv : o.arg 1 = 0
      · rw [if_pos hv] at h2
        have I := ih _ a (by simp [hs]) hwos h2
        refine ⟨I.size, ?_, ?_, ?_, ?_⟩
        · rw [I.flags]
          simp only [List.any_cons, hmi]
          generalize os.any (fun o => decide (o.name = "pi" ∧ o.arg 1 = 0)) = b1
          generalize os.any (fun o => decide (o.name = "mi" ∧ o.arg 1 = 0)) = b2
          cases b1 <;> cases b2 <;> simp [hv, hs, Nat.or_assoc]
        · rw [I.perf, lastVal_cons]; simp [hmi, hs]
        · rw [I.maint, lastVal_cons]; simp [hmi, hs]
        · intro j j0 j4 j9
          rw [I.slot j j0 j4 j9, lastSet_cons]
          simp [hmi, hs, Ne.symm j9, Ne.symm j0]
      · rw [if_neg hv] at h2
        have I := ih _ a (by simp [hs]) hwos h2
        refine ⟨I.size, ?_, ?_, ?_, ?_⟩
        · rw [I.flags]
          simp only [List.any_cons, hmi]
          simp [hv, hs]
        · rw [I.perf, lastVal_cons]; simp [hmi, hs]
        · rw [I.maint, lastVal_cons]; simp [hmi, hs]
        · intro j j0 j4 j9
          rw [I.slot j j0 j4 j9, lastSet_cons]
          simp [hmi, hs, Ne.symm j9, Ne.symm j0]
    by_cases hset : o.name = "set"
    · rw [gicc_set _ _ hset] at h1
      cases h1
      have hm : o.arg 0 ≠ 0 ∧ o.arg 0 ≠ 4 ∧ o.arg 0 ≠ 9 ∧ o.arg 0 < 15 := by
        simp [optWf, hset, settableSlots] at hwo
        omega
      have I := ih _ a (by simp [hs]) hwos h2
      refine ⟨I.size, ?_, ?_, ?_, ?_⟩
      · rw [I.flags]
        simp only [List.any_cons, hset]
        simp [hs, hm]
      · rw [I.perf, lastVal_cons]; simp [hset, hs, hm]
      · rw [I.maint, lastVal_cons]; simp [hset, hs, hm]
      · intro j j0 j4 j9
        rw [I.slot j j0 j4 j9, lastSet_cons]
        simp [hset, hs, hm]
    · rw [gicc_other _ _ hpi hmi hset] at h1
      cases h1

/-! ### GIC MSI frame -/

theorem gicmsi_set (a : EArgs) (o : Opt) (h : o.name = "set") : applyOpt .gicmsi a o =
   some (a.setNum (o.arg 0) (o.arg 1)) := by
  obtain ⟨nm, v⟩ := o
  cases h
  rfl
theorem gicmsi_spi (a : EArgs) (o : Opt) (h : o.name = "spi") : applyOpt .gicmsi a o =
   some (((a.setNum 3 (o.arg 0)).setNum 4 (o.arg 1)).setNum 2 1) := by
  obtain ⟨nm, v⟩ := o
  cases h
  rfl
theorem gicmsi_other (a : EArgs) (o : Opt) (h1 : o.name ≠ "set") (h2 : o.name ≠ "spi") :
    applyOpt .gicmsi a o = none := by
  unfold applyOpt
  split <;> first | rfl | contradiction

theorem has_cons (o : Opt) (os : List Opt) (n : String) :
    has (o :: os) n = (decide (o.name = n) || has os n) := by
  simp [has]

/-- the final GIC MSI frame builder state, by slots -/
structure GicmsiInv (s : EArgs) (opts : List Opt) (a : EArgs) : Prop where
  size : a.n.size = 5
  id : a.num 0 = lastSet opts 0 (s.num 0)
  base : a.num 1 = lastSet opts 1 (s.num 1)
  flags : a.num 2 = if has opts "spi" then 1 else s.num 2
  count : a.num 3 = lastVal opts "spi" 0 (s.num 3)
  sbase : a.num 4 = lastVal opts "spi" 1 (s.num 4)

theorem gicmsi_inv (opts : List Opt) : ∀ (s a : EArgs), s.n.size = 5 →
    opts.all (optWf .gicmsi) = true → applyOpts .gicmsi s opts = .ok a → GicmsiInv s opts a := by
  induction opts with
  | nil =>
    intro s a hs _ h
    simp only [applyOpts] at h
    cases h
    exact ⟨hs, rfl, rfl, by simp [has], rfl, rfl⟩
  | cons o os ih =>
    intro s a hs hwf h
    obtain ⟨s', h1, h2⟩ := applyOpts_cons_ok h
    simp only [List.all_cons, Bool.and_eq_true] at hwf
    obtain ⟨hwo, hwos⟩ := hwf
    by_cases hset : o.name = "set"
    · rw [gicmsi_set _ _ hset] at h1
      cases h1
      have hm : o.arg 0 = 0 ∨ o.arg 0 = 1 := by
        simpa [optWf, hset, settableSlots] using hwo
      have I := ih _ a (by simp [hs]) hwos h2
      refine ⟨I.size, ?_, ?_, ?_, ?_, ?_⟩
      · rw [I.id, lastSet_cons]; rcases hm with hm | hm <;> simp [hset, hs, hm]
      · rw [I.base, lastSet_cons]; rcases hm with hm | hm <;> simp [hset, hs, hm]
      · rw [I.flags, has_cons]; rcases hm with hm | hm <;> simp [hset, hs, hm]
      · rw [I.count, lastVal_cons]; rcases hm with hm | hm <;> simp [hset, hs, hm]
      · rw [I.sbase, lastVal_cons]; rcases hm with hm | hm <;> simp [hset, hs, hm]
    by_cases hspi : o.name = "spi"
    · rw [gicmsi_spi _ _ hspi] at h1
      cases h1
      have I := ih _ a (by simp [hs]) hwos h2
      refine ⟨I.size, ?_, ?_, ?_, ?_, ?_⟩
      · rw [I.id, lastSet_cons]; simp [hspi, hs]
      · rw [I.base, lastSet_cons]; simp [hspi, hs]
      · rw [I.flags, has_cons]; simp [hspi, hs]
      · rw [I.count, lastVal_cons]; simp [hspi, hs]
      · rw [I.sbase, lastVal_cons]; simp [hspi, hs]
    · rw [gicmsi_other _ _ hset hspi] at h1
      cases h1

end Acpi.C04.Madt
