/-
  Helper lemmas for C10 (resource descriptors and templates): bytes of one-byte rows, flag
  arithmetic, the address-space descriptor against its reference rows, framing (`itemSize`)
  and the template walk.
-/
import Acpi.Spec.Res
import Acpi.Lemmas.Layout
namespace Acpi.Spec.Res
open Acpi Spec

/-! ### bytes -/

theorem ofNat_mod256 (x : Nat) : UInt8.ofNat (x % 256) = UInt8.ofNat x := by
  apply UInt8.toNat_inj.mp
  simp [UInt8.toNat_ofNat']

/-- a one-byte row is the `as u8` of its value -/
theorem leN_one (x : Nat) : leN 1 x = [UInt8.ofNat x] := by
  simp only [leN, ofNat_mod256]

theorem ofNat_bit (p : Prop) [Decidable p] :
    UInt8.ofNat (if p then 1 else 0) = if p then (1 : UInt8) else 0 := by
  split <;> rfl

/-- `(c << 1) | rw` for a one-bit `rw` -/
theorem shl1_or_bit (c : Nat) (p : Prop) [Decidable p] :
    (c <<< 1 ||| if p then 1 else 0) = 2 * c + (if p then 1 else 0) := by
  rw [← Nat.shiftLeft_add_eq_or_of_lt (by split <;> decide), Nat.shiftLeft_eq]
  omega

/-- the four interrupt flag bits: shifts and ors are the sum of the bit values -/
theorem irq_flags (p0 p1 p2 p3 : Prop) [Decidable p0] [Decidable p1] [Decidable p2] [Decidable p3] :
    ((if p3 then 1 else 0) <<< 3 ||| (if p2 then 1 else 0) <<< 2 ||| (if p1 then 1 else 0) <<< 1 |||
      (if p0 then 1 else 0) : Nat) =
    (if p0 then 1 else 0) + 2 * (if p1 then 1 else 0) + 4 * (if p2 then 1 else 0) + 8 * (if p3 then 1 else 0) := by
  by_cases h0 : p0 <;> by_cases h1 : p1 <;> by_cases h2 : p2 <;> by_cases h3 : p3 <;> simp [h0, h1, h2, h3]

/-! ### address space descriptors -/

/-- the tag byte of the model is the tag number of the reference rows -/
theorem as_tag (bits : Nat) :
    UInt8.ofNat (if bits = 16 then 0x88 else if bits = 32 then 0x87 else 0x8A) =
      if bits = 16 then (0x88 : UInt8) else if bits = 32 then 0x87 else 0x8A := by
  split
  · rfl
  · split <;> rfl

/-- reference rows of an address space descriptor of `n`-byte fields -/
def asRows (n tag ty tf mn mx tr : Nat) : List Row :=
  [.num 0 1 tag, .num 1 2 (3 + 5 * n), .num 3 1 ty, .num 4 1 0x0C, .num 5 1 tf,
   .num 6 n 0, .num (6 + n) n mn, .num (6 + 2 * n) n mx, .num (6 + 3 * n) n tr, .num (6 + 4 * n) n (mx - mn + 1)]

theorem asRows_tiles (n tag ty tf mn mx tr : Nat) :
    tilesFrom 0 (6 + 5 * n) (asRows n tag ty tf mn mx tr) = true := by
  simp only [asRows, tilesFrom, Row.off, Row.width, Bool.and_eq_true, beq_iff_eq]
  refine ⟨trivial, trivial, trivial, trivial, trivial, trivial, trivial, ?_, ?_, ?_, ?_⟩ <;> omega

/-- `addrSpace` succeeded: its bytes, explicitly -/
theorem addrSpace_some (bits ty tf mn mx tr : Nat) (bs : Bytes) (h : addrSpace bits ty tf mn mx tr = some bs) :
    bs = [if bits = 16 then (0x88 : UInt8) else if bits = 32 then 0x87 else 0x8A] ++ leN 2 (3 + 5 * (bits / 8)) ++
      [UInt8.ofNat ty, 0x0C, UInt8.ofNat tf] ++ leN (bits / 8) 0 ++ leN (bits / 8) mn ++ leN (bits / 8) mx ++
      leN (bits / 8) tr ++ leN (bits / 8) (mx - mn + 1) := by
  unfold addrSpace at h
  split at h
  · cases h
  · simp only [intLE, Option.some.injEq] at h
    exact h.symm

theorem addrSpace_conforms (bits ty tf tf' mn mx tr : Nat) (bs : Bytes)
    (htf : UInt8.ofNat tf = UInt8.ofNat tf') (h : addrSpace bits ty tf mn mx tr = some bs) :
    conforms (6 + 5 * (bits / 8))
      (asRows (bits / 8) (if bits = 16 then 0x88 else if bits = 32 then 0x87 else 0x8A) ty tf' mn mx tr) bs = none := by
  apply conforms_of_eq _ _ _ (asRows_tiles ..)
  rw [addrSpace_some _ _ _ _ _ _ _ h]
  simp only [asRows, render, List.flatMap_cons, List.flatMap_nil, Row.bytes, as_tag, leN_one, htf]
  simp [leN]

/-! ### framing -/

/-- a large item: tag with bit 7 set, then a 16-bit length `L`: framed as `3 + L` bytes whatever
    follows -/
theorem itemSize_large (t : UInt8) (L : Nat) (rest : Bytes) (ht : 128 ≤ t.toNat) (hL : L < 65536) :
    itemSize (t :: (leN 2 L ++ rest)) = some (false, 3 + L) := by
  simp only [itemSize]
  rw [if_pos ht, if_neg (by simp), List.take_left' (by simp), fromLE_leN]
  simp only [Option.some.injEq, Prod.mk.injEq, true_and]
  omega

theorem addrSpace_framed (bits ty tf mn mx tr : Nat) (bs rest : Bytes)
    (hb : bits = 16 ∨ bits = 32 ∨ bits = 64) (h : addrSpace bits ty tf mn mx tr = some bs) :
    itemSize (bs ++ rest) = some (false, bs.length) := by
  have e := addrSpace_some _ _ _ _ _ _ _ h
  have hl : bs.length = 3 + (3 + 5 * (bits / 8)) := by
    rw [e]; simp only [List.length_append, List.length_cons, List.length_nil, length_leN]; omega
  rw [hl, e]
  simp only [List.append_assoc, List.cons_append, List.nil_append]
  apply itemSize_large
  · rcases hb with rfl | rfl | rfl <;> decide
  · omega

/-- every framed item has positive size -/
theorem itemSize_pos (bs : Bytes) (e : Bool) (n : Nat) (h : itemSize bs = some (e, n)) : 0 < n := by
  unfold itemSize at h
  split at h
  · cases h
  · split at h
    · split at h
      · cases h
      · simp only [Option.some.injEq, Prod.mk.injEq] at h; omega
    · simp only [Option.some.injEq, Prod.mk.injEq] at h; omega

/-! ### the walk -/

/-- one step over a non-final item that is framed by its own length field -/
theorem walk_item (fuel : Nat) (d rest : Bytes) (h : itemSize (d ++ rest) = some (false, d.length)) :
    walk (fuel + 1) (d ++ rest) = (walk fuel rest).map (d :: ·) := by
  have hp := itemSize_pos _ _ _ h
  cases hd : d ++ rest with
  | nil => simp at hd; simp [hd.1] at hp
  | cons x xs =>
    rw [walk, ← hd, h]
    · simp only [List.length_append, List.drop_left, List.take_left]
      rw [if_neg (by omega)]
      simp
    · simp

/-- the end tag `79 00` closes the walk -/
theorem walk_end (fuel : Nat) : walk (fuel + 1) [0x79, 0x00] = some [[0x79, 0x00]] := by
  rw [walk]
  · rfl
  · simp

/-! ### `catOpt` -/

theorem catOpt_cons_some (a : Option Bytes) (xs : List (Option Bytes)) (ds : Bytes)
    (h : catOpt (a :: xs) = some ds) : ∃ d ds', a = some d ∧ catOpt xs = some ds' ∧ ds = d ++ ds' := by
  cases a with
  | none => simp [catOpt] at h
  | some d =>
    simp only [catOpt, Option.map_eq_some_iff] at h
    obtain ⟨ds', h1, h2⟩ := h
    exact ⟨d, ds', rfl, h1, h2.symm⟩

end Acpi.Spec.Res
