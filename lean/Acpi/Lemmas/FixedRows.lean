/-
  Helper lemmas for C04 on the fixed tables: header rows, tiling of appended row lists, the
  forward reading of `slotValue`.
-/
import Acpi.Tables.Fixed
import Acpi.Spec.FixedLayout
import Acpi.Lemmas.Layout
import Acpi.Lemmas.LayoutMadt
import Acpi.Lemmas.LayoutRhctRimtViot
import Acpi.Lemmas.FixedRun
import Acpi.Lemmas.FixedLen
namespace Acpi.C04
open Acpi Spec Acpi.C04.Madt

/-! ### bytes -/

theorem leN1_toNat (x : UInt8) : leN 1 x.toNat = [x] := by
  simp only [leN]
  congr 1
  apply UInt8.toNat_inj.mp
  simp

theorem leN1_eq (n : Nat) : leN 1 n = [UInt8.ofNat n] := by
  simp only [leN]
  congr 1
  apply UInt8.toNat_inj.mp
  simp

theorem leN4_ofNat (n : Nat) (h : n < 2 ^ 32) : u32le (UInt32.ofNat n) = leN 4 n := by
  rw [u32le_eq_leN, UInt32.toNat_ofNat', Nat.mod_eq_of_lt h]

/-! ### tiling -/

theorem tilesFrom_append (pos mid total : Nat) (xs ys : List Row) (h : tilesFrom pos mid xs = true) :
    tilesFrom pos total (xs ++ ys) = tilesFrom mid total ys := by
  induction xs generalizing pos with
  | nil => simp only [tilesFrom, beq_iff_eq] at h; subst h; rfl
  | cons r rs ih =>
    simp only [tilesFrom, Bool.and_eq_true, beq_iff_eq] at h
    simp only [List.cons_append, tilesFrom, h.1, beq_self_eq_true, Bool.true_and]
    exact ih _ h.2

theorem tiles_hdrRows (sig : Bytes) (len rev cks : Nat) (o : Oem)
    (hs : sig.length = 4) (h1 : o.id.length = 6) (h2 : o.table.length = 8) :
    tilesFrom 0 36 (hdrRows sig len rev cks o) = true := by
  simp [hdrRows, tilesFrom, Row.off, Row.width, hs, h1, h2]

theorem render_hdrRows (sig : Bytes) (len : Nat) (r k : UInt8) (o : Oem) (hl : len < 2 ^ 32) :
    render (hdrRows sig len r.toNat k.toNat o) = hdrBytes sig (UInt32.ofNat len) r k o := by
  simp only [render, hdrRows, List.flatMap_cons, List.flatMap_nil, Row.bytes, leN1_toNat, hdrBytes,
    leN4_ofNat len hl, u32le_eq_leN, creatorId, creatorRev, List.append_nil, List.append_assoc,
    List.cons_append, List.nil_append]

theorem getD8_hdr (sig : Bytes) (len : UInt32) (r k : UInt8) (o : Oem) (rest : Bytes) (hs : sig.length = 4) :
    (hdrBytes sig len r k o ++ rest).getD 8 0 = r ∧ (hdrBytes sig len r k o ++ rest).getD 9 0 = k := by
  match sig, hs with
  | [_, _, _, _], _ => exact ⟨rfl, rfl⟩

/-- the way every header-bearing case concludes: the body rows tile `[36, len)` and render to
    the body bytes -/
theorem conforms_hdr (sig : Bytes) (len : Nat) (r k : UInt8) (o : Oem) (body : Bytes) (rows : List Row)
    (hs : sig.length = 4) (h1 : o.id.length = 6) (h2 : o.table.length = 8) (hl : len < 2 ^ 32)
    (ht : tilesFrom 36 len rows = true) (hb : body = render rows) :
    let img := hdrBytes sig (UInt32.ofNat len) r k o ++ body
    conforms len (hdrRows sig len (img.getD 8 0).toNat (img.getD 9 0).toNat o ++ rows) img = none := by
  intro img
  obtain ⟨e8, e9⟩ := getD8_hdr sig (UInt32.ofNat len) r k o body hs
  apply conforms_of_eq
  · rw [tilesFrom_append 0 36 len _ _ (tiles_hdrRows _ _ _ _ _ hs h1 h2)]
    exact ht
  · show img = _
    rw [render_append, e8, e9, render_hdrRows _ _ _ _ _ hl, ← hb]

/-- `fixedImage` is a header with *some* checksum byte, then the body -/
theorem fixedImage_eq (sig : Bytes) (len : Nat) (rev : UInt8) (o : Oem) (body : Bytes) :
    ∃ k, fixedImage sig len rev o body = hdrBytes sig (UInt32.ofNat len) rev k o ++ body :=
  ⟨_, rfl⟩

/-! ### `slotValue`, read forwards -/

/-- effect of one call on a slot -/
def upd (w : Option (Nat × Bool)) (x : Nat) : Nat :=
  match w with
  | none => x
  | some (v, false) => v
  | some (v, true) => x ||| v

@[simp] theorem upd_none (x : Nat) : upd none x = x := rfl
@[simp] theorem upd_set (v x : Nat) : upd (some (v, false)) x = v := rfl
@[simp] theorem upd_or (v x : Nat) : upd (some (v, true)) x = x ||| v := rfl

theorem slotValue_go_acc (write : Nat → Opt → Option (Nat × Bool)) (slot d : Nat) (l : List Opt) (acc : Nat) :
    slotValue.go write slot d l acc = slotValue.go write slot d l 0 ||| acc := by
  induction l generalizing acc with
  | nil => simp [slotValue.go]
  | cons o rest ih =>
    simp only [slotValue.go]
    split
    · rw [ih (acc ||| _), ih (0 ||| _)]
      simp only [Nat.zero_or, Nat.or_assoc]
      congr 1
      exact Nat.or_comm _ _
    · simp
    · exact ih acc

theorem slotValue_go_foldr (write : Nat → Opt → Option (Nat × Bool)) (slot d : Nat) (l : List Opt) :
    slotValue.go write slot d l 0 = l.foldr (fun o x => upd (write slot o) x) d := by
  induction l with
  | nil => simp [slotValue.go]
  | cons o rest ih =>
    simp only [slotValue.go, List.foldr_cons]
    split
    · rename_i v h
      rw [h, slotValue_go_acc, ih]
      simp
    · rename_i v h
      rw [h]; simp
    · rename_i h
      rw [h, ih]; rfl

theorem slotValue_foldl (write : Nat → Opt → Option (Nat × Bool)) (slot d : Nat) (ops : List Opt) :
    slotValue write slot d ops = ops.foldl (fun x o => upd (write slot o) x) d := by
  unfold slotValue
  rw [slotValue_go_foldr, List.foldr_reverse]

theorem slotValue_nil (write : Nat → Opt → Option (Nat × Bool)) (slot d : Nat) :
    slotValue write slot d [] = d := by
  rw [slotValue_foldl]; rfl

theorem slotValue_cons (write : Nat → Opt → Option (Nat × Bool)) (slot d : Nat) (o : Opt) (ops : List Opt) :
    slotValue write slot d (o :: ops) = slotValue write slot (upd (write slot o) d) ops := by
  rw [slotValue_foldl, slotValue_foldl]; rfl

end Acpi.C04
