/-
  C03 instantiation for the entry kinds of variable size: the length announced in the header
  fits its field, because serialisation refuses (panics) otherwise — or, for the 4-byte length
  of the HMAT locality structure, because the entry is below 4 GiB (hypothesis).
-/
import Acpi.Lemmas.Inst
namespace Acpi.Inst
open Acpi Spec C03

set_option linter.unusedSimpArgs false

/-! ### PPTT processor node: `assert!(len <= 255)` -/

theorem sd_proc (c : EArgs) (opts : List Opt) (a : EArgs)
    (hwf : entryWf .proc c opts = true) (h : buildEntry .proc c opts = .ok a) :
    SelfDescribing .t8l8 (typeCode .proc a) (entryBytes .proc a) := by
  have hc := conforms_of_entry .proc c opts a _ _ (by decide) hwf nofun h rfl
  have hl := length_of_conforms hc
  have hp := (CHM.buildEntry_ok _ _ _ _ h).2.2
  refine sd_t8l8 _ (typeCodeConst .proc) _ _ hc (by decide) ?_
  rw [← hl, length_entryBytes]
  simp only [panics] at hp
  have := of_decide_eq_false hp
  simp only [fields, List.cons_append, List.nil_append, fieldsLen_cons, fieldsLen_map_num, Fld.width]
  omega

/-! ### HMAT -/

/-- HYPOTHESIS `h32`: the structure is smaller than 4 GiB (the model puts no bound on the
    numbers of initiators and targets, and the Length field has 4 bytes) -/
theorem sd_loc (c : EArgs) (opts : List Opt) (a : EArgs)
    (hwf : entryWf .loc c opts = true) (h : buildEntry .loc c opts = .ok a)
    (h32 : (entryBytes .loc a).length < 2 ^ 32) :
    SelfDescribing .t16l32 (typeCode .loc a) (entryBytes .loc a) := by
  have hc := conforms_of_entry .loc c opts a _ _ (by decide) hwf nofun h rfl
  have hl := length_of_conforms hc
  exact sd_t16l32 _ (typeCodeConst .loc) _ _ _ hc (by decide) (hl ▸ h32)

/-- size of a freshly constructed locality structure -/
theorem loc_len (c : EArgs) : (entryBytes .loc (init .loc c)).length =
    32 + 4 * c.num 4 + 4 * c.num 5 + 2 * (c.num 4 * c.num 5) := by
  rw [length_entryBytes]
  simp only [fields, init, List.getD_cons_zero, List.getD_cons_succ]
  simp only [fieldsLen_append, fieldsLen_cons, fieldsLen_nil, fieldsLen_map_num, Fld.width,
    List.length_replicate]

theorem sd_msc (c : EArgs) (opts : List Opt) (a : EArgs)
    (hwf : entryWf .msc c opts = true) (h : buildEntry .msc c opts = .ok a) :
    SelfDescribing .t16l32 (typeCode .msc a) (entryBytes .msc a) := by
  have hc := conforms_of_entry .msc c opts a _ _ (by decide) hwf nofun h rfl
  have hl := length_of_conforms hc
  have hp := (CHM.buildEntry_ok _ _ _ _ h).2.2
  refine sd_t16l32 _ (typeCodeConst .msc) _ _ _ hc (by decide) ?_
  rw [← hl, length_entryBytes]
  simp only [panics] at hp
  have := of_decide_eq_false hp
  simp only [fields, List.cons_append, List.nil_append, fieldsLen_cons, fieldsLen_map_num, Fld.width]
  omega

/-! ### RHCT -/

theorem sd_isa (c : EArgs) (opts : List Opt) (a : EArgs)
    (hwf : entryWf .isa c opts = true) (h : buildEntry .isa c opts = .ok a) :
    SelfDescribing .t16l16 (typeCode .isa a) (entryBytes .isa a) := by
  have hc := conforms_of_entry .isa c opts a _ _ (by decide) hwf nofun h rfl
  obtain ⟨-, ha, -, hp⟩ := CHM.noOpts .isa (fun _ _ => rfl) c opts a h
  have ha' : a = c := ha
  subst ha'
  refine sd_t16l16 _ (typeCodeConst .isa) _ _ hc (by decide) ?_
  simp only [panics] at hp
  have := of_decide_eq_false hp
  by_cases hpar : (9 + (a.blob 0).length) % 2 = 0
  · have hpar' : (8 + (a.blob 0).length + 1) % 2 = 0 := by omega
    rw [if_pos hpar'] at this
    rw [if_pos hpar]; omega
  · have hpar' : ¬ (8 + (a.blob 0).length + 1) % 2 = 0 := by omega
    rw [if_neg hpar'] at this
    rw [if_neg hpar]; omega

theorem sd_hart (c : EArgs) (opts : List Opt) (a : EArgs)
    (hwf : entryWf .hart c opts = true) (h : buildEntry .hart c opts = .ok a) :
    SelfDescribing .t16l16 (typeCode .hart a) (entryBytes .hart a) := by
  have hc := conforms_of_entry .hart c opts a _ _ (by decide) hwf nofun h rfl
  have hl := length_of_conforms hc
  have hp := (CHM.buildEntry_ok _ _ _ _ h).2.2
  refine sd_t16l16 _ (typeCodeConst .hart) _ _ hc (by decide) ?_
  rw [← hl, length_entryBytes]
  simp only [panics] at hp
  have := of_decide_eq_false hp
  simp only [fields, List.cons_append, List.nil_append, fieldsLen_cons, fieldsLen_map_num, Fld.width]
  omega

/-! ### RIMT -/

theorem sd_iommu (c : EArgs) (opts : List Opt) (a : EArgs)
    (hwf : entryWf .iommu c opts = true) (h : buildEntry .iommu c opts = .ok a) :
    SelfDescribing .t8l16 (typeCode .iommu a) (entryBytes .iommu a) := by
  have hc := conforms_of_entry .iommu c opts a _ _ (by decide) hwf nofun h rfl
  obtain ⟨-, ha, -, hp⟩ := CHM.noOpts .iommu (fun _ _ => rfl) c opts a h
  have ha' : a = c := ha
  subst ha'
  refine sd_t8l16 _ (typeCodeConst .iommu) _ _ _ hc (by decide) ?_
  simp only [panics] at hp
  have := of_decide_eq_false hp
  by_cases h10 : a.num 10 ≠ 0
  · rw [if_pos h10] at this ⊢; omega
  · rw [if_neg h10] at this ⊢; simp

theorem sd_pcierc (c : EArgs) (opts : List Opt) (a : EArgs)
    (hwf : entryWf .pcierc c opts = true) (h : buildEntry .pcierc c opts = .ok a) :
    SelfDescribing .t8l16 (typeCode .pcierc a) (entryBytes .pcierc a) := by
  have hc := conforms_of_entry .pcierc c opts a _ _ (by decide) hwf nofun h rfl
  obtain ⟨-, ha, -, hp⟩ := CHM.noOpts .pcierc (fun _ _ => rfl) c opts a h
  have ha' : a = c := ha
  subst ha'
  refine sd_t8l16 _ (typeCodeConst .pcierc) _ _ _ hc (by decide) ?_
  simp only [panics] at hp
  have := of_decide_eq_false hp
  by_cases h4 : a.num 4 ≠ 0
  · rw [if_pos h4] at this ⊢; omega
  · rw [if_neg h4] at this ⊢; simp

theorem sd_platform (c : EArgs) (opts : List Opt) (a : EArgs)
    (hwf : entryWf .platform c opts = true) (h : buildEntry .platform c opts = .ok a) :
    SelfDescribing .t8l16 (typeCode .platform a) (entryBytes .platform a) := by
  have hc := conforms_of_entry .platform c opts a _ _ (by decide) hwf nofun h rfl
  obtain ⟨-, ha, -, hp⟩ := CHM.noOpts .platform (fun _ _ => rfl) c opts a h
  have ha' : a = c := ha
  subst ha'
  refine sd_t8l16 _ (typeCodeConst .platform) _ _ _ hc (by decide) ?_
  simp only [panics] at hp
  have := of_decide_eq_false hp
  by_cases h1 : a.num 1 ≠ 0
  · rw [if_pos h1] at this ⊢; omega
  · rw [if_neg h1] at this ⊢
    simp only [List.length_nil] at this ⊢
    omega

/-! ### CEDT -/

theorem sd_cfmws (c : EArgs) (opts : List Opt) (a : EArgs)
    (hwf : entryWf .cfmws c opts = true) (h : buildEntry .cfmws c opts = .ok a) :
    SelfDescribing .t8l16 (typeCode .cfmws a) (entryBytes .cfmws a) := by
  have hc := conforms_of_entry .cfmws c opts a _ _ (by decide) hwf nofun h rfl
  obtain ⟨-, ha, hp⟩ := CHM.buildEntry_ok _ _ _ _ h
  obtain ⟨-, hall⟩ := (CHM.entryWf_iff _ _ _).mp hwf
  obtain ⟨-, hb, -, -⟩ := C04.cfmws_final opts _ a rfl hall ha
  have hb' : a.b.toList = (pushed opts "target").map (leN 4) := by rw [hb]; simp [init]
  have hways : numWays (a.num 4) = (pushed opts "target").length := by
    have : numWays (a.num 4) = a.b.size := by simpa [panics] using hp
    rw [this, ← Array.length_toList, hb', List.length_map]
  have := numWays_le (a.num 4)
  refine sd_t8l16 _ (typeCodeConst .cfmws) _ _ _ hc (by decide) ?_
  omega

theorem sd_cxims (c : EArgs) (opts : List Opt) (a : EArgs)
    (hwf : entryWf .cxims c opts = true) (h : buildEntry .cxims c opts = .ok a) :
    SelfDescribing .t8l16 (typeCode .cxims a) (entryBytes .cxims a) := by
  have hc := conforms_of_entry .cxims c opts a _ _ (by decide) hwf nofun h rfl
  have hl := length_of_conforms hc
  have hp := (CHM.buildEntry_ok _ _ _ _ h).2.2
  refine sd_t8l16 _ (typeCodeConst .cxims) _ _ _ hc (by decide) ?_
  rw [← hl, length_entryBytes]
  simp only [panics] at hp
  have := of_decide_eq_false hp
  simp only [fields, List.cons_append, List.nil_append, fieldsLen_cons, fieldsLen_map_num, Fld.width]
  omega

/-! ### RQSC -/

/-- HYPOTHESIS `hty`: the controller type fits its one-byte field (in the crate it is a
    two-variant enum; the model's constructor argument is an unconstrained number) -/
theorem sd_qosctrl (c : EArgs) (opts : List Opt) (a : EArgs)
    (hwf : entryWf .qosctrl c opts = true) (hq : C04.qosCtorWf c)
    (h : buildEntry .qosctrl c opts = .ok a) (hty : a.num 0 < 256) :
    SelfDescribing .t8l16 (typeCode .qosctrl a) (entryBytes .qosctrl a) := by
  have hc := conforms_of_entry .qosctrl c opts a _ _ (by decide) hwf (fun _ => hq) h (C04.rows_qosctrl c opts)
  obtain ⟨-, ha, hcp, -⟩ := CHM.noOpts .qosctrl (fun _ _ => rfl) c opts a h
  have ha' : a = c := ha
  subst ha'
  refine sd_t8l16 _ (a.num 0) _ _ _ hc hty ?_
  simp only [ctorPanics, Bool.or_eq_false_iff] at hcp
  have := of_decide_eq_false hcp.2
  omega

end Acpi.Inst
