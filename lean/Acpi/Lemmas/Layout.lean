import Acpi.Spec.Layout
import Acpi.Lemmas.Basic
namespace Acpi.Spec

@[simp] theorem Row.length_bytes (r : Row) : r.bytes.length = r.width := by
  cases r <;> simp [Row.bytes, Row.width]

theorem tilesFrom_length (pos total : Nat) (rs : List Row) (h : tilesFrom pos total rs = true) :
    pos + (render rs).length = total := by
  induction rs generalizing pos with
  | nil => simp [tilesFrom] at h; simp [render, h]
  | cons r rs ih =>
    simp only [tilesFrom, Bool.and_eq_true] at h
    have := ih (pos + r.width) h.2
    simp [render] at this ⊢
    omega

/-- the way every per-kind proof concludes: the model's bytes are the rows' bytes in order,
    and the rows tile the structure -/
theorem conforms_of_eq (total : Nat) (rs : List Row) (img : Bytes)
    (ht : tilesFrom 0 total rs = true) (he : img = render rs) : conforms total rs img = none := by
  have hl := tilesFrom_length 0 total rs ht
  unfold conforms tiles
  simp only [ht]
  rw [if_neg (by rw [he]; omega), if_neg (by simp), if_pos he]

/-- every row of a conforming image is read back at its offset (decoding direction) -/
theorem rowHolds_of_tiles (pos total : Nat) (pre : Bytes) (rs : List Row) (hp : pre.length = pos)
    (ht : tilesFrom pos total rs = true) : ∀ r ∈ rs, rowHolds (pre ++ render rs) r = true := by
  induction rs generalizing pos pre with
  | nil => simp
  | cons r rs ih =>
    simp only [tilesFrom, Bool.and_eq_true, beq_iff_eq] at ht
    intro x hx
    simp only [List.mem_cons] at hx
    rcases hx with rfl | hx
    · simp only [rowHolds, render, List.flatMap_cons, Bool.and_eq_true, decide_eq_true_eq, beq_iff_eq]
      constructor
      · simp; omega
      · rw [ht.1, ← hp, List.drop_left]
        rw [List.take_left' (by simp)]
    · have := ih (pos + r.width) (pre ++ r.bytes) (by simp [hp]) ht.2 x hx
      simpa [render, List.append_assoc] using this

end Acpi.Spec
