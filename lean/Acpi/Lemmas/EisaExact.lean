/-
  Acpi.Lemmas.EisaExact — helper lemmas for the exact acceptance characterisations of C16
  (`Acpi/Props/C16/Exact.lean`) and C09 (`Acpi/Props/C09/Exact.lean`).

  * `mapM_id_eq_some_iff`: in `Option`, `l.mapM id = some b ↔ l = b.map some`.
  * `hex2byte_eq_some_iff`, `subBase_isSome_iff`.
  * `uuidPairs` index facts.
  * `flatten_length_of_all4`.
-/
import Acpi.Aml.Eisa
import Acpi.Aml.Path
import Acpi.Lemmas.Eisa
namespace Acpi.Lemmas.EisaExact
open Acpi Acpi.Lemmas.Eisa

/-! ### `mapM id` in `Option` -/

/-- in `Option`, `mapM id` succeeds exactly when every entry is `some`, and then returns the
    entries' contents in order -/
theorem mapM_id_eq_some_iff {α : Type} : ∀ (l : List (Option α)) (b : List α),
    l.mapM id = some b ↔ l = b.map some
  | [], b => by
    rw [List.mapM_nil]
    cases b with
    | nil => simp
    | cons x xs => simp
  | a :: as, b => by
    rw [List.mapM_cons]
    cases a with
    | none =>
      constructor
      · intro h; cases h
      · intro h; cases b with
        | nil => cases h
        | cons x xs => simp at h
    | some x =>
      cases hm : as.mapM id with
      | none =>
        constructor
        · intro h; cases h
        · intro h
          cases b with
          | nil => cases h
          | cons y ys =>
            simp only [List.map_cons, List.cons.injEq] at h
            have := (mapM_id_eq_some_iff as ys).mpr h.2
            rw [hm] at this; cases this
      | some r =>
        have ih := (mapM_id_eq_some_iff as r).mp hm
        constructor
        · intro h
          have e : b = x :: r := by
            simp only [id_eq, Option.pure_def, Option.bind_eq_bind, Option.bind_some] at h
            exact (Option.some.inj h).symm
          subst e; rw [ih]; rfl
        · intro h
          cases b with
          | nil => cases h
          | cons y ys =>
            simp only [List.map_cons, List.cons.injEq, Option.some.injEq] at h
            have hr := (mapM_id_eq_some_iff as ys).mpr h.2
            rw [hm] at hr
            have e1 : r = ys := Option.some.inj hr
            rw [h.1, e1]; rfl

theorem mapM_id_length {α : Type} (l : List (Option α)) (b : List α) (h : l.mapM id = some b) :
    b.length = l.length := by
  rw [(mapM_id_eq_some_iff l b).mp h, List.length_map]

theorem mapM_id_isSome_iff {α : Type} (l : List (Option α)) :
    (l.mapM id).isSome ↔ ∀ x ∈ l, x.isSome := by
  constructor
  · intro h x hx
    obtain ⟨b, hb⟩ := Option.isSome_iff_exists.mp h
    rw [(mapM_id_eq_some_iff l b).mp hb] at hx
    obtain ⟨y, _, rfl⟩ := List.mem_map.mp hx
    rfl
  · intro h
    cases hm : l.mapM id with
    | some b => rfl
    | none =>
      exfalso
      -- build the witness list
      have : ∃ b : List α, l = b.map some := by
        clear hm
        induction l with
        | nil => exact ⟨[], rfl⟩
        | cons a as ih =>
          obtain ⟨r, hr⟩ := ih (fun x hx => h x (List.mem_cons_of_mem _ hx))
          have ha := h a (List.mem_cons_self ..)
          obtain ⟨y, hy⟩ := Option.isSome_iff_exists.mp ha
          exact ⟨y :: r, by rw [hy, hr]; rfl⟩
      obtain ⟨b, hb⟩ := this
      rw [(mapM_id_eq_some_iff l b).mpr hb] at hm
      cases hm

/-! ### `hex2byte`, `subBase` -/

theorem hex2byte_eq_some_iff (c1 c2 : Char) (x : UInt8) :
    hex2byte c1 c2 = some x ↔
      ∃ hi lo, toDigit16 c1 = some hi ∧ toDigit16 c2 = some lo ∧ x = (hi.toUInt8 <<< 4) ||| lo.toUInt8 := by
  unfold hex2byte
  cases h1 : toDigit16 c1 with
  | none => simp
  | some hi =>
    cases h2 : toDigit16 c2 with
    | none => simp
    | some lo =>
      simp only [Option.bind_eq_bind, Option.bind_some, Option.some.injEq]
      constructor
      · intro h; exact ⟨hi, lo, rfl, rfl, h.symm⟩
      · rintro ⟨hi', lo', e1, e2, e⟩; subst e1; subst e2; exact e.symm

theorem hex2byte_isSome_iff (c1 c2 : Char) :
    (hex2byte c1 c2).isSome ↔ (toDigit16 c1).isSome ∧ (toDigit16 c2).isSome := by
  unfold hex2byte
  cases toDigit16 c1 <;> cases toDigit16 c2 <;> simp

theorem subBase_isSome_iff (b : UInt8) : (subBase b).isSome ↔ 0x40 ≤ b := by
  unfold subBase
  by_cases h : b < 0x40
  · rw [if_pos h]
    simp only [Option.isSome_none, Bool.false_eq_true, false_iff]
    exact UInt8.not_le.mpr h
  · rw [if_neg h]
    simp only [Option.isSome_some, true_iff]
    exact UInt8.not_lt.mp h

/-! ### the pair table -/

theorem uuidPairs_length : uuidPairs.length = 16 := rfl

/-- every index read by a pair is a digit position below 36 -/
theorem uuidPairs_range : ∀ i : Fin 16,
    (uuidPairs[i.val]!).1 < 36 ∧ (uuidPairs[i.val]!).2 < 36 ∧
    ¬ ((uuidPairs[i.val]!).1 = 8 ∨ (uuidPairs[i.val]!).1 = 13 ∨ (uuidPairs[i.val]!).1 = 18 ∨ (uuidPairs[i.val]!).1 = 23) ∧
    ¬ ((uuidPairs[i.val]!).2 = 8 ∨ (uuidPairs[i.val]!).2 = 13 ∨ (uuidPairs[i.val]!).2 = 18 ∨ (uuidPairs[i.val]!).2 = 23) := by
  decide +kernel

/-- membership form of `uuidPairs_range` -/
theorem uuidPairs_mem_range (p : Nat × Nat) (hp : p ∈ uuidPairs) :
    p.1 < 36 ∧ p.2 < 36 ∧ ¬ (p.1 = 8 ∨ p.1 = 13 ∨ p.1 = 18 ∨ p.1 = 23) ∧
      ¬ (p.2 = 8 ∨ p.2 = 13 ∨ p.2 = 18 ∨ p.2 = 23) := by
  obtain ⟨i, hi, rfl⟩ := List.getElem_of_mem hp
  rw [uuidPairs_length] at hi
  have := uuidPairs_range ⟨i, hi⟩
  simp only [getElem!_pos uuidPairs i (by rw [uuidPairs_length]; exact hi)] at this
  exact this

/-! ### Path -/

theorem flatten_length_of_all4 : ∀ (parts : List Bytes), (∀ q ∈ parts, q.length = 4) →
    parts.flatten.length = 4 * parts.length
  | [], _ => rfl
  | q :: qs, h => by
    rw [List.flatten_cons, List.length_append, List.length_cons,
      flatten_length_of_all4 qs (fun x hx => h x (List.mem_cons_of_mem _ hx)),
      h q (List.mem_cons_self ..)]
    omega

end Acpi.Lemmas.EisaExact
