/-
  Helper lemmas for the PPTT processor node with direct writes of its three public fields
  (`set=slot.value`, slots 0 = flags, 1 = parent, 2 = ACPI processor id):

    * `noFlagsWrite`              "the program never writes the flags field directly",
    * `lastSet` / `afterLastFlagsWrite` / `procFlags` seen from the right (`os ++ [o]`),
    * `procFlags` as an OR of bits, its bound under `entryWf`, and its value
      (`flagSum`-style sum of the builder bits) for programs without a direct flags write.
-/
import Acpi.Lemmas.LayoutSratHmatPptt
import Acpi.Lemmas.LayoutCedtHestMisc
namespace Acpi.Spec

/-- the program never assigns the PPTT flags field (state slot 0) directly -/
def noFlagsWrite (opts : List Opt) : Bool := opts.all (fun o => ¬ (o.name = "set" ∧ o.arg 0 = 0))

/-- the five flag builders of the PPTT processor node, as a sum of their specification bits -/
def procBuilderBits (t : List Opt) : Nat :=
  bit t "physical" 1 + bit t "valid" 2 + bit t "thread" 4 + bit t "leaf" 8 + bit t "identical" 16

end Acpi.Spec

namespace Acpi.ProcF
open Acpi Spec SHP

theorem procFlags_eq (opts : List Opt) :
    procFlags opts = lastSet opts 0 0 ||| procBuilderBits (afterLastFlagsWrite opts) := rfl

/-! ### seen from the right -/

theorem lastSet_eq_lastD (os : List Opt) (j d : Nat) :
    lastSet os j d = lastD (fun o => decide (o.name = "set" ∧ o.arg 0 = j)) (fun o => o.arg 1) os d := rfl

theorem lastSet_snoc (os : List Opt) (o : Opt) (j d : Nat) :
    lastSet (os ++ [o]) j d = if o.name = "set" ∧ o.arg 0 = j then o.arg 1 else lastSet os j d := by
  rw [lastSet_eq_lastD, lastD_snoc, lastSet_eq_lastD]
  simp only [decide_eq_true_eq]

theorem afterLastFlagsWrite_snoc (os : List Opt) (o : Opt) :
    afterLastFlagsWrite (os ++ [o]) =
      if o.name = "set" ∧ o.arg 0 = 0 then [] else afterLastFlagsWrite os ++ [o] := by
  unfold afterLastFlagsWrite
  rw [List.reverse_append, List.reverse_singleton, List.singleton_append, List.takeWhile_cons]
  by_cases h : o.name = "set" ∧ o.arg 0 = 0
  · simp [h]
  · simp [h]

theorem afterLastFlagsWrite_nil : afterLastFlagsWrite [] = [] := rfl

theorem takeWhile_of_all {α : Type} (p : α → Bool) (l : List α) (h : ∀ a ∈ l, p a = true) :
    l.takeWhile p = l := by
  induction l with
  | nil => rfl
  | cons a l ih =>
    rw [List.takeWhile_cons_of_pos (h a List.mem_cons_self), ih (fun b hb => h b (List.mem_cons_of_mem _ hb))]

/-- a program without a direct flags write: everything is "after the last write" -/
theorem afterLastFlagsWrite_of_noFlagsWrite (opts : List Opt) (h : noFlagsWrite opts = true) :
    afterLastFlagsWrite opts = opts := by
  unfold afterLastFlagsWrite
  have : opts.reverse.takeWhile (fun o => decide ¬ (o.name = "set" ∧ o.arg 0 = 0)) = opts.reverse := by
    apply takeWhile_of_all
    intro o ho
    unfold noFlagsWrite at h
    rw [List.all_eq_true] at h
    exact h o (List.mem_reverse.mp ho)
  rw [this, List.reverse_reverse]

theorem lastSet_flags_of_noFlagsWrite (opts : List Opt) (h : noFlagsWrite opts = true) (d : Nat) :
    lastSet opts 0 d = d := by
  apply CHM.lastSet_of_not_mem
  intro o ho hn he
  unfold noFlagsWrite at h
  rw [List.all_eq_true] at h
  have := h o ho
  simp only [decide_eq_true_eq] at this
  exact this ⟨hn, he⟩

/-- **without a direct write of the flags field, the flags are the sum of the builder bits** of
    the options that occur in the program (the statement of `rows .proc` before direct writes
    were modelled) -/
theorem procFlags_of_noFlagsWrite (opts : List Opt) (h : noFlagsWrite opts = true) :
    procFlags opts =
      bit opts "physical" 1 + bit opts "valid" 2 + bit opts "thread" 4 + bit opts "leaf" 8 +
        bit opts "identical" 16 := by
  rw [procFlags_eq, lastSet_flags_of_noFlagsWrite opts h, afterLastFlagsWrite_of_noFlagsWrite opts h,
    Nat.zero_or]
  rfl

/-- two programs without a direct flags write that invoke the same set of options have the same
    flags -/
theorem procFlags_congr (opts opts' : List Opt) (hs : ∀ nm, has opts nm = has opts' nm)
    (h : noFlagsWrite opts = true) (h' : noFlagsWrite opts' = true) : procFlags opts = procFlags opts' := by
  rw [procFlags_of_noFlagsWrite opts h, procFlags_of_noFlagsWrite opts' h']
  simp only [bit, hs]

/-- a program without any `set=` call has, in particular, no direct flags write … -/
theorem noFlagsWrite_of_not_has_set (opts : List Opt) (h : has opts "set" = false) :
    noFlagsWrite opts = true := by
  unfold noFlagsWrite
  rw [List.all_eq_true]
  intro o ho
  have := (List.any_eq_false.mp h) o ho
  simp only [decide_eq_true_eq] at this ⊢
  exact fun hc => this hc.1

/-- … and every slot keeps its constructor value -/
theorem lastSet_of_not_has_set (opts : List Opt) (h : has opts "set" = false) (j d : Nat) :
    lastSet opts j d = d := by
  apply CHM.lastSet_of_not_mem
  intro o ho hn
  have := (List.any_eq_false.mp h) o ho
  simp only [decide_eq_true_eq] at this
  exact absurd hn this

/-! ### the builder bits as an OR -/

theorem procBuilderBits_or (t : List Opt) :
    procBuilderBits t =
      bit t "physical" 1 ||| bit t "valid" 2 ||| bit t "thread" 4 ||| bit t "leaf" 8 ||| bit t "identical" 16 := by
  unfold procBuilderBits bit
  cases has t "physical" <;> cases has t "valid" <;> cases has t "thread" <;> cases has t "leaf" <;>
    cases has t "identical" <;> rfl

theorem procBuilderBits_lt (t : List Opt) : procBuilderBits t < 32 := by
  unfold procBuilderBits bit
  cases has t "physical" <;> cases has t "valid" <;> cases has t "thread" <;> cases has t "leaf" <;>
    cases has t "identical" <;> decide

theorem procBuilderBits_nil : procBuilderBits [] = 0 := rfl

/-- the flags after one more call: a direct write of slot 0 replaces them, a flag builder ORs its
    bit in, anything else leaves them alone -/
theorem procFlags_snoc (os : List Opt) (o : Opt) :
    procFlags (os ++ [o]) =
      if o.name = "set" ∧ o.arg 0 = 0 then o.arg 1
      else procFlags os |||
        (if o.name = "physical" then 1 else if o.name = "valid" then 2 else if o.name = "thread" then 4
         else if o.name = "leaf" then 8 else if o.name = "identical" then 16 else 0) := by
  rw [procFlags_eq, procFlags_eq, lastSet_snoc, afterLastFlagsWrite_snoc]
  by_cases h : o.name = "set" ∧ o.arg 0 = 0
  · rw [if_pos h, if_pos h, if_pos h, procBuilderBits_nil, Nat.or_zero]
  · rw [if_neg h, if_neg h, if_neg h, procBuilderBits_or, procBuilderBits_or]
    simp only [bit_snoc]
    generalize afterLastFlagsWrite os = t
    by_cases h1 : o.name = "physical"
    · simp only [h1, if_true, String.reduceEq, if_false]
      rcases bit_cases t "physical" 1 with e | e <;> rw [e] <;> or_ac
    by_cases h2 : o.name = "valid"
    · simp only [h2, if_true, String.reduceEq, if_false]
      rcases bit_cases t "valid" 2 with e | e <;> rw [e] <;> or_ac
    by_cases h3 : o.name = "thread"
    · simp only [h3, if_true, String.reduceEq, if_false]
      rcases bit_cases t "thread" 4 with e | e <;> rw [e] <;> or_ac
    by_cases h4 : o.name = "leaf"
    · simp only [h4, if_true, String.reduceEq, if_false]
      rcases bit_cases t "leaf" 8 with e | e <;> rw [e] <;> or_ac
    by_cases h5 : o.name = "identical"
    · simp only [h5, if_true, String.reduceEq, if_false]
      rcases bit_cases t "identical" 16 with e | e <;> rw [e] <;> or_ac
    simp only [h1, h2, h3, h4, h5, if_false, Nat.or_zero]

theorem procFlags_nil : procFlags [] = 0 := rfl

/-- bit `i` of an OR is set iff it is set in one of the operands -/
theorem or_and_pow2 (x y i : Nat) :
    ((x ||| y) &&& 2 ^ i = 2 ^ i ↔ (x &&& 2 ^ i = 2 ^ i ∨ y &&& 2 ^ i = 2 ^ i)) := by
  have t : ∀ z : Nat, (z &&& 2 ^ i = 2 ^ i ↔ z.testBit i = true) := by
    intro z
    constructor
    · intro h
      have := congrArg (fun v => Nat.testBit v i) h
      simpa [Nat.testBit_and, Nat.testBit_two_pow_self] using this
    · intro h
      apply Nat.eq_of_testBit_eq
      intro j
      rw [Nat.testBit_and, Nat.testBit_two_pow]
      by_cases hij : i = j
      · subst hij; simp [h]
      · simp [hij]
  rw [t, t, t, Nat.testBit_or, Bool.or_eq_true]

/-! ### bounds under the well-formedness guard -/

/-- a well-formed direct write of a PPTT field stores a `u32` -/
theorem optWf_proc_set (o : Opt) (h : optWf .proc o = true) (hn : o.name = "set") :
    o.arg 0 ∈ [0, 1, 2] ∧ o.arg 1 < 2 ^ 32 := by
  obtain ⟨nm, v⟩ := o
  cases hn
  have h' : ((settableSlots .proc).contains (Opt.arg ⟨"set", v⟩ 0) && decide (Opt.arg ⟨"set", v⟩ 1 < 2 ^ 32)) = true := h
  simp only [Bool.and_eq_true, decide_eq_true_eq, List.contains_iff_mem] at h'
  exact h'

theorem lastSet_lt (opts : List Opt) (hwf : opts.all (optWf .proc) = true) (j d : Nat) (hd : d < 2 ^ 32) :
    lastSet opts j d < 2 ^ 32 := by
  induction opts using snoc_induction with
  | hnil => exact hd
  | hsnoc os o ih =>
    rw [List.all_append, Bool.and_eq_true] at hwf
    rw [lastSet_snoc]
    split
    · rename_i hc
      have := hwf.2
      simp only [List.all_cons, List.all_nil, Bool.and_true] at this
      exact (optWf_proc_set o this hc.1).2
    · exact ih hwf.1

/-- under `entryWf` the PPTT flags value fits the 4-byte field -/
theorem procFlags_lt (opts : List Opt) (hwf : opts.all (optWf .proc) = true) : procFlags opts < 2 ^ 32 := by
  rw [procFlags_eq]
  apply Nat.or_lt_two_pow (lastSet_lt opts hwf 0 0 (by decide))
  exact Nat.lt_trans (procBuilderBits_lt _) (by decide)

/-! ### the builder state -/

/-- writing slot `i` of a three-slot state -/
theorem setNum3 (x y z : Nat) (b : Array Bytes) (s : List (List Nat)) (i v : Nat) :
    (EArgs.mk #[x, y, z] b s).setNum i v =
      EArgs.mk #[if i = 0 then v else x, if i = 1 then v else y, if i = 2 then v else z] b s := by
  unfold EArgs.setNum
  simp only [EArgs.mk.injEq, and_true]
  match i with
  | 0 => rfl
  | 1 => rfl
  | 2 => rfl
  | i + 3 =>
    rw [Array.setIfInBounds_eq_of_size_le (by simp)]
    simp

end Acpi.ProcF
