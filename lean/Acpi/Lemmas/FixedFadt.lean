/-
  C04/C11 for the FADT: every builder call acts on the 99 state slots as `fadtWrite` says, so
  the final state is `slotValue fadtWrite` slot by slot; the image is the slots in order and
  `fadtSlotPos` tiles `[36, 276)` in that order.
-/
import Acpi.Lemmas.FixedRows
namespace Acpi.C04
open Acpi Spec Acpi.C04.Madt

set_option linter.unusedSimpArgs false

theorem flagValue_eq : ∀ k, k < 25 → Fadt.flagValue k = fadtFlagBits k := by decide

macro "fadt_slot" hn:ident hs:ident i:ident : tactic =>
  `(tactic| (refine ⟨by simp [$hs:ident], ?_⟩; intro $i:ident; unfold fadtWrite;
             simp only [$hn:ident, num_setNum, size_setNum, num_orNum, size_orNum, $hs:ident]))

theorem fadt_dsdt32 (a : EArgs) (o : Opt) (hs : a.n.size = 99) (hn : o.name = "dsdt32") :
    ((a.setNum 1 (o.arg 0)).setNum 47 0).n.size = 99 ∧
    ∀ i, ((a.setNum 1 (o.arg 0)).setNum 47 0).num i = upd (fadtWrite i o) (a.num i) := by
  fadt_slot hn hs i
  repeat' split
  all_goals (first | rfl | omega | (simp_all; done))

theorem fadt_dsdt64 (a : EArgs) (o : Opt) (hs : a.n.size = 99) (hn : o.name = "dsdt64") :
    ((a.setNum 1 0).setNum 47 (o.arg 0)).n.size = 99 ∧
    ∀ i, ((a.setNum 1 0).setNum 47 (o.arg 0)).num i = upd (fadtWrite i o) (a.num i) := by
  fadt_slot hn hs i
  repeat' split
  all_goals (first | rfl | omega | (simp_all; done))

theorem fadt_fc32 (a : EArgs) (o : Opt) (hs : a.n.size = 99) (hn : o.name = "fc32") :
    ((a.setNum 0 (o.arg 0)).setNum 46 0).n.size = 99 ∧
    ∀ i, ((a.setNum 0 (o.arg 0)).setNum 46 0).num i = upd (fadtWrite i o) (a.num i) := by
  fadt_slot hn hs i
  repeat' split
  all_goals (first | rfl | omega | (simp_all; done))

theorem fadt_fc64 (a : EArgs) (o : Opt) (hs : a.n.size = 99) (hn : o.name = "fc64") :
    ((a.setNum 0 0).setNum 46 (o.arg 0)).n.size = 99 ∧
    ∀ i, ((a.setNum 0 0).setNum 46 (o.arg 0)).num i = upd (fadtWrite i o) (a.num i) := by
  fadt_slot hn hs i
  repeat' split
  all_goals (first | rfl | omega | (simp_all; done))

theorem fadt_acpien (a : EArgs) (o : Opt) (hs : a.n.size = 99) (hn : o.name = "acpien") :
    ((a.setNum 6 1).setNum 7 0).n.size = 99 ∧
    ∀ i, ((a.setNum 6 1).setNum 7 0).num i = upd (fadtWrite i o) (a.num i) := by
  fadt_slot hn hs i
  repeat' split
  all_goals (first | rfl | omega | (simp_all; done))

theorem fadt_acpidis (a : EArgs) (o : Opt) (hs : a.n.size = 99) (hn : o.name = "acpidis") :
    ((a.setNum 6 0).setNum 7 1).n.size = 99 ∧
    ∀ i, ((a.setNum 6 0).setNum 7 1).num i = upd (fadtWrite i o) (a.num i) := by
  fadt_slot hn hs i
  repeat' split
  all_goals (first | rfl | omega | (simp_all; done))

theorem fadt_gpe (a : EArgs) (o : Opt) (hs : a.n.size = 99) (hn : o.name = "gpe") :
    (((((a.setNum 16 (o.arg 0)).setNum 17 (o.arg 1)).setNum 22 (o.arg 2)).setNum 23 (o.arg 3)).setNum 24 (o.arg 4)).n.size = 99 ∧
    ∀ i, (((((a.setNum 16 (o.arg 0)).setNum 17 (o.arg 1)).setNum 22 (o.arg 2)).setNum 23 (o.arg 3)).setNum 24 (o.arg 4)).num i = upd (fadtWrite i o) (a.num i) := by
  fadt_slot hn hs i
  repeat' split
  all_goals (first | rfl | omega | (simp_all; done))

theorem fadt_profile (a : EArgs) (o : Opt) (hs : a.n.size = 99) (hn : o.name = "profile") :
    (a.setNum 3 (o.arg 0)).n.size = 99 ∧
    ∀ i, (a.setNum 3 (o.arg 0)).num i = upd (fadtWrite i o) (a.num i) := by
  fadt_slot hn hs i
  repeat' split
  all_goals (first | rfl | omega | (simp_all; done))

theorem fadt_flag (a : EArgs) (o : Opt) (hs : a.n.size = 99) (hn : o.name = "flag") (hk : o.arg 0 < 25) :
    (a.orNum 37 (Fadt.flagValue (o.arg 0))).n.size = 99 ∧
    ∀ i, (a.orNum 37 (Fadt.flagValue (o.arg 0))).num i = upd (fadtWrite i o) (a.num i) := by
  fadt_slot hn hs i
  rw [flagValue_eq _ hk]
  split <;> split <;> simp_all <;> omega

theorem fadt_set (a : EArgs) (o : Opt) (hs : a.n.size = 99) (hn : o.name = "set") (h99 : o.arg 0 < 99) :
    (a.setNum (o.arg 0) (o.arg 1)).n.size = 99 ∧
    ∀ i, (a.setNum (o.arg 0) (o.arg 1)).num i = upd (fadtWrite i o) (a.num i) := by
  fadt_slot hn hs i
  by_cases hi : i = o.arg 0
  · rw [if_pos ⟨hi.symm, h99⟩, if_pos hi]; rfl
  · rw [if_neg (fun h => hi h.1.symm), if_neg hi]; rfl

theorem fadt_gas (a : EArgs) (o : Opt) (hs : a.n.size = 99) (hn : o.name = "gas") (base : Nat)
    (hb : (if o.arg 0 = 0 then 38 else 48 + 5 * (o.arg 0 - 1)) = base) (hbase : base + 5 ≤ 99) :
    (((((a.setNum base (o.arg 1)).setNum (base + 1) (o.arg 2)).setNum (base + 2) (o.arg 3)).setNum (base + 3)
      (o.arg 4)).setNum (base + 4) (o.arg 5)).n.size = 99 ∧
    ∀ i, (((((a.setNum base (o.arg 1)).setNum (base + 1) (o.arg 2)).setNum (base + 2) (o.arg 3)).setNum (base + 3)
      (o.arg 4)).setNum (base + 4) (o.arg 5)).num i = upd (fadtWrite i o) (a.num i) := by
  refine ⟨by simp [hs], ?_⟩
  intro i
  unfold fadtWrite
  simp only [hn, hb, num_setNum, size_setNum, hs]
  by_cases h0 : i = base
  · subst h0; simp; omega
  by_cases h1 : i = base + 1
  · subst h1; simp; omega
  by_cases h2 : i = base + 2
  · subst h2; simp; omega
  by_cases h3 : i = base + 3
  · subst h3; simp; omega
  by_cases h4 : i = base + 4
  · subst h4; simp; omega
  rw [if_neg (by omega), if_neg (by omega), if_neg (by omega), if_neg (by omega), if_neg (by omega),
    if_neg (by omega)]
  rfl

/-- one FADT builder call, slot by slot -/
theorem fadt_apply (a a' : EArgs) (o : Opt) (hs : a.n.size = 99) (h : Fadt.applyOp a o = some a') :
    a'.n.size = 99 ∧ ∀ i, a'.num i = upd (fadtWrite i o) (a.num i) := by
  unfold Fadt.applyOp at h
  simp only [] at h
  split at h
  case h_1 hn => rw [Option.some.injEq] at h; subst h; exact fadt_dsdt32 a o hs hn
  case h_2 hn => rw [Option.some.injEq] at h; subst h; exact fadt_dsdt64 a o hs hn
  case h_3 hn => rw [Option.some.injEq] at h; subst h; exact fadt_fc32 a o hs hn
  case h_4 hn => rw [Option.some.injEq] at h; subst h; exact fadt_fc64 a o hs hn
  case h_5 hn => rw [Option.some.injEq] at h; subst h; exact fadt_acpien a o hs hn
  case h_6 hn => rw [Option.some.injEq] at h; subst h; exact fadt_acpidis a o hs hn
  case h_7 hn =>
    split at h
    · rename_i hk
      rw [Option.some.injEq] at h; subst h; exact fadt_flag a o hs hn hk
    · exact absurd h nofun
  case h_8 hn => rw [Option.some.injEq] at h; subst h; exact fadt_gpe a o hs hn
  case h_9 hn => rw [Option.some.injEq] at h; subst h; exact fadt_profile a o hs hn
  case h_10 hn =>
    split at h
    · rename_i hk
      rw [Option.some.injEq] at h; subst h; exact fadt_set a o hs hn hk.1
    · exact absurd h nofun
  case h_11 hn =>
    split at h
    · rename_i hk
      rw [Option.some.injEq] at h; subst h
      exact fadt_gas a o hs hn _ rfl (by split <;> omega)
    · exact absurd h nofun
  case h_12 hn =>
    rw [Option.some.injEq] at h; subst h
    refine ⟨hs, fun i => ?_⟩
    have : fadtWrite i o = none := by unfold fadtWrite; simp [hn]
    rw [this]; rfl
  case h_13 => exact absurd h nofun

/-- **FADT slots**: after the program every slot holds what `slotValue fadtWrite` computes from
    the program text -/
theorem fadt_slots (ops : List Opt) : ∀ (s s' : FixedState), s.t = .fadt → s.a.n.size = 99 →
    runFixedFrom s ops = some s' → ∀ i, s'.a.num i = slotValue fadtWrite i (s.a.num i) ops := by
  induction ops with
  | nil => intro s s' _ _ h i; cases h; rw [slotValue_nil]
  | cons o os ih =>
    intro s s' ht hs h i
    obtain ⟨s1, h1, h2⟩ := runFixedFrom_cons_some h
    obtain ⟨a, ha, rfl⟩ := fadt_step ht h1
    obtain ⟨hs1, hv⟩ := fadt_apply _ _ _ hs ha
    rw [slotValue_cons, ← hv i]
    exact ih { s with a } s' ht hs1 h2 i

/-! ### image side -/

/-- `tilesFrom` only looks at offsets and widths -/
def tilesP : Nat → Nat → List (Nat × Nat) → Bool
  | pos, total, [] => pos == total
  | pos, total, p :: ps => p.1 == pos && tilesP (pos + p.2) total ps

theorem tilesFrom_eq_tilesP (pos total : Nat) (rs : List Row) :
    tilesFrom pos total rs = tilesP pos total (rs.map fun r => (r.off, r.width)) := by
  induction rs generalizing pos with
  | nil => rfl
  | cons r rs ih => simp only [tilesFrom, List.map_cons, tilesP, ih]

theorem pairRow (p : Nat × Nat) (v : Nat) :
    (match p with | (off, w) => Row.num off w v) = Row.num p.1 p.2 v := by
  cases p; rfl

theorem fadt_tiles (V : Nat → Nat) :
    tilesFrom 36 276 ((List.range 99).map fun i =>
      let (off, w) := fadtSlotPos.getD i (0, 0)
      Row.num off w (V i)) = true := by
  rw [tilesFrom_eq_tilesP, List.map_map]
  have : ((fun r : Row => (r.off, r.width)) ∘ fun i =>
      match fadtSlotPos.getD i (0, 0) with | (off, w) => Row.num off w (V i)) =
      fun i => fadtSlotPos.getD i (0, 0) := by
    funext i
    simp only [Function.comp, pairRow, Row.off, Row.width]
  rw [this]
  decide +kernel

theorem fadt_widths : ∀ i, i < 99 → Fadt.widths.getD i 0 = (fadtSlotPos.getD i (0, 0)).2 := by
  decide +kernel

theorem fadt_render (a : EArgs) (V : Nat → Nat) (hV : ∀ i, i < 99 → a.num i = V i) :
    encFields (Fadt.body a) = render ((List.range 99).map fun i =>
      let (off, w) := fadtSlotPos.getD i (0, 0)
      Row.num off w (V i)) := by
  unfold encFields render Fadt.body Fadt.slots
  rw [List.flatMap_def, List.flatMap_def, List.map_map, List.map_map]
  congr 1
  apply List.map_congr_left
  intro i hi
  rw [List.mem_range] at hi
  simp only [Function.comp, pairRow, Row.bytes, Fld.bytes, fadt_widths i hi, hV i hi]

/-- the default of every FADT slot -/
theorem fadt_init (i : Nat) : Fadt.initState.num i = if i = 45 then 5 else 0 := by
  unfold Fadt.initState Fadt.slots EArgs.num
  simp only [Array.getD_eq_getD_getElem?, Array.getElem?_setIfInBounds, Array.size_replicate,
    Array.getElem?_replicate]
  by_cases h : i = 45
  · subst h; simp
  · rw [if_neg (fun e => h e.symm), if_neg h]
    split <;> rfl

theorem conforms_fadt (o : Oem) (c : EArgs) (ops : List Opt) (s : FixedState) (e : Nat)
    (h1 : o.id.length = 6) (h2 : o.table.length = 8) (hrun : runFixed .fadt o c ops = some s) :
    conforms (fixedRows .fadt o c ops (s.image.getD 8 0).toNat (s.image.getD 9 0).toNat e).1
      (fixedRows .fadt o c ops (s.image.getD 8 0).toNat (s.image.getD 9 0).toNat e).2 s.image = none := by
  obtain ⟨ht, ho⟩ := runFixed_t hrun
  obtain ⟨s0, h0, hr⟩ := runFixed_some hrun
  have hs0 : s0 = { t := .fadt, oem := o, a := Fadt.initState } := by
    unfold FixedState.new at h0; cases h0; rfl
  subst hs0
  have hslots := fadt_slots ops _ s rfl (by simp [Fadt.initState, Fadt.slots]) hr
  unfold FixedState.image
  rw [ht]
  simp only []
  rw [ho]
  unfold fixedRows fadtRows
  simp only []
  obtain ⟨k, hk⟩ := fixedImage_eq [0x46, 0x41, 0x43, 0x50] 276 6 o (encFields (Fadt.body s.a))
  rw [hk]
  refine conforms_hdr _ 276 _ _ _ _ _ rfl h1 h2 (by decide) (fadt_tiles _) (fadt_render _ _ ?_)
  intro i _
  rw [hslots i, fadt_init]

end Acpi.C04
