/-
  Helper lemmas for Props/C07/Objects.lean: every length-prefixed constructor of the model's
  AML encoder emits `opcode ++ pkgLen body.length true ++ body` (`Framed`), and a framed object
  passes the specification-side oracle `Spec.c07Object`.
-/
import Acpi.Aml.Term
import Acpi.Spec.AmlFrame
import Acpi.Props.C07
namespace Acpi
open Spec

/-- `bs` is `w` opcode bytes, then the self-inclusive PkgLength of a body, then that body -/
def Framed (w : Nat) (bs : Bytes) : Prop :=
  ∃ body, bs = bs.take w ++ pkgLen body.length true ++ body ∧ pkgLenTotal body.length true < 2 ^ 28

theorem total_lt_of_not_panics {c : Nat} {incl : Bool} (hp : pkgLenPanics c incl = false) :
    pkgLenTotal c incl < 2 ^ 28 := by
  have := C07.refused_iff c incl
  rw [hp] at this
  simp at this
  exact this

theorem framed_mk {w : Nat} {oc body bs : Bytes} (hl : oc.length = w)
    (hp : pkgLenPanics body.length true = false)
    (h : bs = oc ++ pkgLen body.length true ++ body) : Framed w bs := by
  refine ⟨body, ?_, total_lt_of_not_panics hp⟩
  subst h
  rw [List.append_assoc oc, List.take_left' hl, List.append_assoc]

theorem pkgObj_eq {oc body bs : Bytes} (h : pkgObj oc body = some bs) :
    bs = oc ++ pkgLen body.length true ++ body ∧ pkgLenTotal body.length true < 2 ^ 28 := by
  unfold pkgObj at h
  cases hp : pkgLenPanics body.length true
  · rw [hp] at h
    simp only [Bool.false_eq_true, if_false, Option.some.injEq] at h
    exact ⟨h.symm, total_lt_of_not_panics hp⟩
  · rw [hp] at h; simp at h

theorem framed_of_pkgObj {w : Nat} {oc body bs : Bytes} (hl : oc.length = w)
    (h : pkgObj oc body = some bs) : Framed w bs := by
  obtain ⟨e, ht⟩ := pkgObj_eq h
  refine ⟨body, ?_, ht⟩
  subst e
  rw [List.append_assoc oc, List.take_left' hl, List.append_assoc]

section
variable (ints : List Nat) (blobs : List Bytes) (kids : AmlList) (bs : Bytes)

theorem framed_buf (h : (Aml.node .buf ints blobs kids).enc = some bs) : Framed 1 bs := by
  unfold Aml.enc at h
  simp only [] at h
  exact framed_of_pkgObj rfl h

theorem framed_uuid (h : (Aml.node .uuid ints blobs kids).enc = some bs) : Framed 1 bs := by
  unfold Aml.enc at h
  simp only [Option.bind_eq_some_iff] at h
  obtain ⟨d, _, h⟩ := h
  exact framed_of_pkgObj rfl h

theorem framed_bufterm (h : (Aml.node .bufterm ints blobs kids).enc = some bs) : Framed 1 bs := by
  unfold Aml.enc at h
  simp only [Option.bind_eq_some_iff] at h
  obtain ⟨d, _, h⟩ := h
  exact framed_of_pkgObj rfl h

theorem framed_varpkg (h : (Aml.node .varpkg ints blobs kids).enc = some bs) : Framed 1 bs := by
  unfold Aml.enc at h
  simp only [Option.bind_eq_some_iff] at h
  obtain ⟨d, _, h⟩ := h
  exact framed_of_pkgObj rfl h

theorem framed_if (h : (Aml.node .if_ ints blobs kids).enc = some bs) : Framed 1 bs := by
  unfold Aml.enc at h
  simp only [Option.bind_eq_some_iff] at h
  obtain ⟨d, _, h⟩ := h
  exact framed_of_pkgObj rfl h

theorem framed_while (h : (Aml.node .while_ ints blobs kids).enc = some bs) : Framed 1 bs := by
  unfold Aml.enc at h
  simp only [Option.bind_eq_some_iff] at h
  obtain ⟨d, _, h⟩ := h
  exact framed_of_pkgObj rfl h

theorem framed_else (h : (Aml.node .else_ ints blobs kids).enc = some bs) : Framed 1 bs := by
  unfold Aml.enc at h
  simp only [Option.bind_eq_some_iff] at h
  obtain ⟨d, _, h⟩ := h
  exact framed_of_pkgObj rfl h

theorem framed_pkg (h : (Aml.node .pkg ints blobs kids).enc = some bs) : Framed 1 bs := by
  unfold Aml.enc at h
  simp only [] at h
  split at h
  · cases h
  · simp only [Option.bind_eq_some_iff] at h
    obtain ⟨d, _, h⟩ := h
    exact framed_of_pkgObj rfl h

theorem framed_pkgb (h : (Aml.node .pkgb ints blobs kids).enc = some bs) : Framed 1 bs := by
  unfold Aml.enc at h
  simp only [Option.bind_eq_some_iff] at h
  obtain ⟨d, _, h⟩ := h
  split at h
  · cases h
  · split at h
    · cases h
    · rename_i hp
      simp only [Option.some.injEq] at h
      refine framed_mk (oc := [0x12]) (body := [UInt8.ofNat kids.length] ++ d) rfl ?_ ?_
      · simpa [Nat.add_comm] using hp
      · rw [← h]
        simp

theorem framed_rt (h : (Aml.node .rt ints blobs kids).enc = some bs) : Framed 1 bs := by
  unfold Aml.enc at h
  simp only [Option.bind_eq_some_iff] at h
  obtain ⟨d, _, h⟩ := h
  split at h
  · cases h
  · rename_i hp
    simp only [Option.some.injEq] at h
    refine framed_mk (oc := [0x11])
      (body := encUsize (UInt64.ofNat (d ++ [0x79, 0x00]).length) ++ (d ++ [0x79, 0x00])) rfl ?_ ?_
    · rw [List.length_append, Nat.add_comm]; simpa using hp
    · rw [← h, List.length_append (as := encUsize _), Nat.add_comm (encUsize _).length]
      simp only [List.append_assoc]

theorem framed_device (h : (Aml.node .device ints blobs kids).enc = some bs) : Framed 2 bs := by
  unfold Aml.enc at h
  simp only [bind, Option.bind_eq_some_iff] at h
  obtain ⟨p, _, d, _, h⟩ := h
  exact framed_of_pkgObj rfl h

theorem framed_scope (h : (Aml.node .scope ints blobs kids).enc = some bs) : Framed 1 bs := by
  unfold Aml.enc at h
  simp only [bind, Option.bind_eq_some_iff] at h
  obtain ⟨p, _, d, _, h⟩ := h
  exact framed_of_pkgObj rfl h

theorem framed_field (h : (Aml.node .field ints blobs kids).enc = some bs) : Framed 2 bs := by
  unfold Aml.enc at h
  simp only [bind, Option.bind_eq_some_iff] at h
  obtain ⟨p, _, d, _, h⟩ := h
  exact framed_of_pkgObj rfl h

theorem framed_powerres (h : (Aml.node .powerres ints blobs kids).enc = some bs) : Framed 2 bs := by
  unfold Aml.enc at h
  simp only [bind, Option.bind_eq_some_iff] at h
  obtain ⟨p, _, d, _, h⟩ := h
  exact framed_of_pkgObj rfl h

theorem framed_method (h : (Aml.node .method ints blobs kids).enc = some bs) : Framed 1 bs := by
  unfold Aml.enc at h
  simp only [] at h
  split at h
  · cases h
  · simp only [bind, Option.bind_eq_some_iff] at h
    obtain ⟨p, _, d, _, h⟩ := h
    exact framed_of_pkgObj rfl h

theorem framed_scoperaw (h : (Aml.node .scoperaw ints blobs kids).enc = some bs) : Framed 1 bs := by
  unfold Aml.enc at h
  simp only [bind, Option.bind_eq_some_iff] at h
  obtain ⟨p, _, d, _, h⟩ := h
  split at h
  · cases h
  · rename_i hp
    simp only [Option.some.injEq] at h
    refine framed_mk (oc := [0x10]) (body := p ++ d) rfl ?_ ?_
    · simpa [Nat.add_comm] using hp
    · rw [← h]
      simp
end

/-- a framed object passes the specification-side PkgLength oracle -/
theorem c07Object_of_framed {op : Op} {w : Nat} {bs : Bytes}
    (hw : pkgLenOpcodeWidth op = some w) (hf : Framed w bs) : c07Object op bs = none := by
  obtain ⟨body, e, ht⟩ := hf
  have hd : bs.drop w = pkgLen body.length true ++ body := by
    have e2 : bs.take w ++ bs.drop w = bs.take w ++ (pkgLen body.length true ++ body) := by
      rw [List.take_append_drop, ← List.append_assoc]; exact e
    exact List.append_cancel_left e2
  have hdec := C07.decode_object body.length body [] rfl ht
  rw [List.append_nil] at hdec
  unfold c07Object
  rw [hw]
  simp only [hd, hdec]
  rw [if_neg (by simp)]
  rw [if_neg]
  intro hany
  rw [List.any_eq_true] at hany
  obtain ⟨w', hmem, hle⟩ := hany
  rw [List.mem_range, C07.length_pkgLen] at hmem
  have hle' := of_decide_eq_true hle
  rw [List.length_append, C07.length_pkgLen] at hle'
  have hmin := C07.minimal body.length (w' + 1) (by omega) (by omega)
  omega

end Acpi
