/-
  Helper lemmas for the RHCT / RIMT / VIOT family of the C04 layout theorems
  (Acpi.Props.C04.RhctRimtViot).
-/
import Acpi.Tables.Build
import Acpi.Tables.Wf
import Acpi.Spec.Layout
import Acpi.Lemmas.Layout
namespace Acpi.C04
open Acpi Spec

/-! ### builder programs -/

theorem buildEntry_ok {k : Kind} {c : EArgs} {opts : List Opt} {a : EArgs}
    (h : buildEntry k c opts = .ok a) :
    ctorPanics k c = false ∧ applyOpts k (init k c) opts = .ok a ∧ panics k a = false := by
  unfold buildEntry at h
  split at h
  · cases h
  · split at h
    · cases h
    · split at h
      · cases h
      · cases h
        simp_all

/-- a kind without builder calls: a successful program has no calls -/
theorem applyOpts_none (k : Kind) (hk : ∀ a o, applyOpt k a o = none) {s a : EArgs}
    {opts : List Opt} (h : applyOpts k s opts = .ok a) : opts = [] ∧ a = s := by
  cases opts with
  | nil =>
    simp only [applyOpts, Except.ok.injEq] at h
    exact ⟨rfl, h.symm⟩
  | cons o os => simp [applyOpts, hk] at h

/-! ### arithmetic -/

theorem bdf_eq (bus dev fn : Nat) (hb : bus < 256) (hd : dev < 32) (hf : fn < 8) :
    bdf bus dev fn = bdfOf bus dev fn := by
  unfold bdf bdfOf
  have h1 : dev <<< 3 ||| fn = dev * 8 + fn := by
    rw [← Nat.shiftLeft_add_eq_or_of_lt (by omega), Nat.shiftLeft_eq]
  have h2 : bus <<< 8 ||| (dev * 8 + fn) = bus * 256 + (dev * 8 + fn) := by
    rw [← Nat.shiftLeft_add_eq_or_of_lt (by omega), Nat.shiftLeft_eq]
  rw [Nat.or_assoc, h1, h2]
  omega

theorem or2_eq_add (p q : Prop) [Decidable p] [Decidable q] :
    ((if p then 1 else 0) ||| (if q then 2 else 0) : Nat) = (if p then 1 else 0) + (if q then 2 else 0) := by
  split <;> split <;> rfl

theorem or3_eq_add (p q r : Prop) [Decidable p] [Decidable q] [Decidable r] :
    ((if p then 1 else 0) ||| (if q then 2 else 0) ||| (if r then 4 else 0) : Nat) =
      (if p then 1 else 0) + (if q then 2 else 0) + (if r then 4 else 0) := by
  split <;> split <;> split <;> rfl

theorem zeros1 : zeros 1 = [0] := rfl
theorem zeros2 : zeros 2 = [0, 0] := rfl
theorem zeros4 : zeros 4 = [0, 0, 0, 0] := rfl
theorem zeros6 : zeros 6 = [0, 0, 0, 0, 0, 0] := rfl
theorem zeros8 : zeros 8 = [0, 0, 0, 0, 0, 0, 0, 0] := rfl
theorem leN1_zero : leN 1 0 = [0] := rfl
theorem leN2_zero : leN 2 0 = [0, 0] := rfl
theorem leN4_zero : leN 4 0 = [0, 0, 0, 0] := rfl
theorem leN8_zero : leN 8 0 = [0, 0, 0, 0, 0, 0, 0, 0] := rfl

/-! ### arrays of numbers -/

theorem arrayRows_nil (base stride w : Nat) : arrayRows base stride w [] = [] := rfl

theorem arrayRows_cons (base stride w v : Nat) (vs : List Nat) :
    arrayRows base stride w (v :: vs) = .num base w v :: arrayRows (base + stride) stride w vs := by
  unfold arrayRows
  rw [List.mapIdx_cons]
  simp only [Nat.mul_zero, Nat.add_zero]
  congr 2
  funext i v
  congr 1
  rw [Nat.mul_succ]; omega

theorem tiles_arrayRows (w total : Nat) (vs : List Nat) (base : Nat) :
    tilesFrom base total (arrayRows base w w vs) = (base + w * vs.length == total) := by
  induction vs generalizing base with
  | nil => simp [arrayRows_nil, tilesFrom]
  | cons v vs ih =>
    rw [arrayRows_cons]
    simp only [tilesFrom, Row.off, Row.width, beq_self_eq_true, Bool.true_and, ih, List.length_cons]
    congr 1
    rw [Nat.mul_succ]; omega

theorem render_arrayRows (stride w : Nat) (vs : List Nat) (base : Nat) :
    render (arrayRows base stride w vs) = vs.flatMap (leN w) := by
  induction vs generalizing base with
  | nil => rfl
  | cons v vs ih =>
    rw [arrayRows_cons]
    have := ih (base + stride)
    simp only [render, List.flatMap_cons, Row.bytes] at this ⊢
    rw [this]

theorem encFields_map_num (w : Nat) (vs : List Nat) :
    encFields (vs.map (Fld.num w)) = vs.flatMap (leN w) := by
  induction vs with
  | nil => rfl
  | cons v vs ih =>
    simp only [encFields, List.map_cons, List.flatMap_cons, Fld.bytes] at ih ⊢
    rw [ih]

theorem encFields_append (xs ys : List Fld) : encFields (xs ++ ys) = encFields xs ++ encFields ys := by
  simp [encFields]

theorem render_append (xs ys : List Row) : render (xs ++ ys) = render xs ++ render ys := by
  simp [render]

/-! ### arrays of sub-structures -/

/-- sub-structures `g o t` laid one after the other, `stride` bytes each, from `base` -/
def subRows (g : Nat → List Nat → List Row) (stride : Nat) : Nat → List (List Nat) → List Row
  | _, [] => []
  | base, t :: ts => g base t ++ subRows g stride (base + stride) ts

theorem range_flatMap_eq (g : Nat → List Nat → List Row) (stride : Nat) (ws : List (List Nat)) (base : Nat) :
    ((List.range ws.length).flatMap fun i => g (base + stride * i) (ws.getD i [])) = subRows g stride base ws := by
  induction ws generalizing base with
  | nil => rfl
  | cons t ts ih =>
    rw [List.length_cons, List.range_succ_eq_map, List.flatMap_cons, List.flatMap_map, subRows, ← ih]
    congr 1
    congr 1
    funext i
    simp only [List.getD_cons_succ]
    congr 1
    rw [Nat.mul_succ]; omega

theorem tiles_subRows (g : Nat → List Nat → List Row) (stride : Nat)
    (hg : ∀ o t total rest, tilesFrom o total (g o t ++ rest) = tilesFrom (o + stride) total rest)
    (total : Nat) (ws : List (List Nat)) (base : Nat) :
    tilesFrom base total (subRows g stride base ws) = (base + stride * ws.length == total) := by
  induction ws generalizing base with
  | nil => simp [subRows, tilesFrom]
  | cons t ts ih =>
    rw [subRows, hg, ih, List.length_cons]
    congr 1
    rw [Nat.mul_succ]; omega

theorem render_subRows (g : Nat → List Nat → List Row) (stride : Nat) (f : List Nat → List Fld)
    (hg : ∀ o t, render (g o t) = encFields (f t)) (ws : List (List Nat)) (base : Nat) :
    render (subRows g stride base ws) = encFields (ws.flatMap f) := by
  induction ws generalizing base with
  | nil => rfl
  | cons t ts ih =>
    rw [subRows, render_append, hg, ih, List.flatMap_cons, encFields_append]

end Acpi.C04
