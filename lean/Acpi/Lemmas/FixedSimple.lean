/-
  C04 for the fixed tables whose image is a closed form of the constructor arguments:
  BERT, SPCR, TCPA client, RSDP, FACS, TPM2.
-/
import Acpi.Lemmas.FixedRows
namespace Acpi.C04
open Acpi Spec Acpi.C04.Madt

set_option linter.unusedVariables false

theorem conforms_bert (o : Oem) (c : EArgs) (ops : List Opt) (s : FixedState) (e : Nat)
    (h1 : o.id.length = 6) (h2 : o.table.length = 8) (hrun : runFixed .bert o c ops = some s) :
    conforms (fixedRows .bert o c ops (s.image.getD 8 0).toNat (s.image.getD 9 0).toNat e).1
      (fixedRows .bert o c ops (s.image.getD 8 0).toNat (s.image.getD 9 0).toNat e).2 s.image = none := by
  obtain ⟨rfl, rfl⟩ := runFixed_plain (by simp [FixedT.plain]) hrun
  unfold FixedState.image fixedRows
  simp only []
  obtain ⟨k, hk⟩ := fixedImage_eq [0x42, 0x45, 0x52, 0x54] 48 1 o (encFields [d32 (c.num 0), q64 (c.num 1)])
  rw [hk]
  exact conforms_hdr _ _ _ _ _ _ _ rfl h1 h2 (by decide) (by simp [tilesFrom, Row.off, Row.width])
    (by simp [encFields, render, Row.bytes, Fld.bytes])

theorem conforms_tcpac (o : Oem) (c : EArgs) (ops : List Opt) (s : FixedState) (e : Nat)
    (h1 : o.id.length = 6) (h2 : o.table.length = 8) (hrun : runFixed .tcpac o c ops = some s) :
    conforms (fixedRows .tcpac o c ops (s.image.getD 8 0).toNat (s.image.getD 9 0).toNat e).1
      (fixedRows .tcpac o c ops (s.image.getD 8 0).toNat (s.image.getD 9 0).toNat e).2 s.image = none := by
  obtain ⟨rfl, rfl⟩ := runFixed_plain (by simp [FixedT.plain]) hrun
  unfold FixedState.image fixedRows
  simp only []
  obtain ⟨k, hk⟩ := fixedImage_eq [0x54, 0x43, 0x50, 0x41] 50 2 o (encFields [w16 0, d32 (c.num 0), q64 (c.num 1)])
  rw [hk]
  exact conforms_hdr _ _ _ _ _ _ _ rfl h1 h2 (by decide) (by simp [tilesFrom, Row.off, Row.width])
    (by simp [encFields, render, Row.bytes, Fld.bytes])

theorem conforms_spcr (o : Oem) (c : EArgs) (ops : List Opt) (s : FixedState) (e : Nat)
    (h1 : o.id.length = 6) (h2 : o.table.length = 8) (hrun : runFixed .spcr o c ops = some s) :
    conforms (fixedRows .spcr o c ops (s.image.getD 8 0).toNat (s.image.getD 9 0).toNat e).1
      (fixedRows .spcr o c ops (s.image.getD 8 0).toNat (s.image.getD 9 0).toNat e).2 s.image = none := by
  obtain ⟨rfl, rfl⟩ := runFixed_plain (by simp [FixedT.plain]) hrun
  unfold FixedState.image fixedRows
  simp only []
  obtain ⟨k, hk⟩ := fixedImage_eq [0x53, 0x50, 0x43, 0x52] 90 4 o (encFields spcrBody)
  rw [hk]
  simp only [List.append_assoc]
  exact conforms_hdr _ _ _ _ _ _ _ rfl h1 h2 (by decide) (by decide) (by decide)

theorem conforms_facs (o : Oem) (c : EArgs) (ops : List Opt) (s : FixedState) (r k e : Nat)
    (hrun : runFixed .facs o c ops = some s) :
    conforms (fixedRows .facs o c ops r k e).1 (fixedRows .facs o c ops r k e).2 s.image = none := by
  obtain ⟨rfl, rfl⟩ := runFixed_plain (by simp [FixedT.plain]) hrun
  unfold FixedState.image fixedRows
  simp only []
  exact conforms_of_eq _ _ _ (by decide) (by decide)

theorem conforms_rsdp (o : Oem) (c : EArgs) (ops : List Opt) (s : FixedState) (r : Nat)
    (h1 : o.id.length = 6) (hrun : runFixed .rsdp o c ops = some s) :
    conforms (fixedRows .rsdp o c ops r (s.image.getD 8 0).toNat (s.image.getD 32 0).toNat).1
      (fixedRows .rsdp o c ops r (s.image.getD 8 0).toNat (s.image.getD 32 0).toNat).2 s.image = none := by
  obtain ⟨rfl, rfl⟩ := runFixed_plain (by simp [FixedT.plain]) hrun
  unfold FixedState.image fixedRows
  simp only []
  generalize genChecksum _ = k
  generalize genChecksum _ = x
  have e8 : ([0x52, 0x53, 0x44, 0x20, 0x50, 0x54, 0x52, 0x20] ++ [k] ++ o.id ++ [2] ++ u32le 0 ++
      (u32le 36 ++ leN 8 (c.num 0) ++ [x, 0, 0, 0])).getD 8 0 = k := rfl
  have e32 : ([0x52, 0x53, 0x44, 0x20, 0x50, 0x54, 0x52, 0x20] ++ [k] ++ o.id ++ [2] ++ u32le 0 ++
      (u32le 36 ++ leN 8 (c.num 0) ++ [x, 0, 0, 0])).getD 32 0 = x := by
    match o.id, h1 with
    | [_, _, _, _, _, _], _ => rfl
  rw [e8, e32]
  apply conforms_of_eq
  · simp [tilesFrom, Row.off, Row.width, h1, res]
  · simp [render, Row.bytes, res, zeros, leN1_eq, u32le_eq_leN, List.replicate_succ]

/-- a successful TPM2 program is empty or one `set_log_area` -/
theorem tpm2_run {o : Oem} {c : EArgs} {ops : List Opt} {s : FixedState}
    (hrun : runFixed .tpm2 o c ops = some s) :
    s.t = .tpm2 ∧ s.oem = o ∧
    ((ops = [] ∧ s.a = { n := #[c.num 0, c.num 1, c.num 2, 0, 0, 0] }) ∨
     (∃ op, ops = [op] ∧ op.name = "logarea" ∧
        s.a = { n := #[c.num 0, c.num 1, c.num 2, 1, op.arg 0, op.arg 1] })) := by
  obtain ⟨ht, ho⟩ := runFixed_t hrun
  refine ⟨ht, ho, ?_⟩
  obtain ⟨s0, h0, h1⟩ := runFixed_some hrun
  obtain ⟨I0, _, ha0⟩ := tpm2Inv_new h0
  cases ops with
  | nil => cases h1; exact Or.inl ⟨rfl, ha0⟩
  | cons op os =>
    right
    obtain ⟨s1, hs1, h2⟩ := runFixedFrom_cons_some h1
    obtain ⟨hn, _, ht1, _, _, ha1, _, _⟩ := tpm2_step I0.t hs1
    have h3 : s1.a.num 3 ≠ 0 := by rw [ha1, ha0]; simp [EArgs.setNum, EArgs.num]
    cases os with
    | nil =>
      cases h2
      refine ⟨op, rfl, hn, ?_⟩
      rw [ha1, ha0]; rfl
    | cons op2 os2 =>
      obtain ⟨s2, hs2, _⟩ := runFixedFrom_cons_some h2
      exact absurd (tpm2_step ht1 hs2).2.1 h3

theorem conforms_tpm2 (o : Oem) (c : EArgs) (ops : List Opt) (s : FixedState) (e : Nat)
    (h1 : o.id.length = 6) (h2 : o.table.length = 8) (hrun : runFixed .tpm2 o c ops = some s) :
    conforms (fixedRows .tpm2 o c ops (s.image.getD 8 0).toNat (s.image.getD 9 0).toNat e).1
      (fixedRows .tpm2 o c ops (s.image.getD 8 0).toNat (s.image.getD 9 0).toNat e).2 s.image = none := by
  obtain ⟨ht, ho, hc⟩ := tpm2_run hrun
  unfold FixedState.image
  rw [ht]
  simp only []
  rw [ho]
  rcases hc with ⟨rfl, ha⟩ | ⟨op, rfl, hn, ha⟩
  · rw [ha]
    unfold fixedRows
    simp only [List.find?_nil, Option.isSome_none, Bool.false_eq_true, if_false, List.append_nil]
    exact conforms_hdr _ 52 _ _ _ _ _ rfl h1 h2 (by decide) (by simp [tilesFrom, Row.off, Row.width, res])
      (by simp [tpm2Rest, EArgs.num, encFields, render, Row.bytes, Fld.bytes, res, zeros, List.replicate_succ])
  · rw [ha]
    unfold fixedRows
    simp only [List.find?_cons, hn, decide_true, Option.isSome_some, if_true, List.append_assoc]
    exact conforms_hdr _ 76 _ _ _ _ _ rfl h1 h2 (by decide) (by simp [tilesFrom, Row.off, Row.width, res])
      (by simp [tpm2Rest, EArgs.num, encFields, render, Row.bytes, Fld.bytes, res, zeros, List.replicate_succ])

end Acpi.C04
