/-
  Helper lemmas for the per-kind instantiations C02.entry_length and C03.entry_self_describing:
  sizes of field sequences, reading a row of a conforming image back with `readAt`, and one
  "self-describing" lemma per walk style, stated on the reference rows of Acpi.Spec.Layout.
-/
import Acpi.Tables.Build
import Acpi.Tables.Wf
import Acpi.Spec.Layout
import Acpi.Spec.Walk
import Acpi.Spec.Codes
import Acpi.Lemmas.Basic
import Acpi.Lemmas.Layout
import Acpi.Props.C03
import Acpi.Props.C04
namespace Acpi.Inst
open Acpi Spec

set_option linter.unusedSimpArgs false

/-! ### sizes of field sequences -/

theorem Fld.length_bytes (f : Fld) : f.bytes.length = f.width := by
  cases f <;> simp [Fld.bytes, Fld.width]

theorem fieldsLen_nil : fieldsLen [] = 0 := rfl

theorem fieldsLen_cons (f : Fld) (fs : List Fld) : fieldsLen (f :: fs) = f.width + fieldsLen fs := by
  simp [fieldsLen]

theorem fieldsLen_append (fs gs : List Fld) : fieldsLen (fs ++ gs) = fieldsLen fs + fieldsLen gs := by
  simp [fieldsLen]

theorem fieldsLen_map_num (w : Nat) (vs : List Nat) : fieldsLen (vs.map (Fld.num w)) = w * vs.length := by
  induction vs with
  | nil => rfl
  | cons v vs ih => rw [List.map_cons, fieldsLen_cons, ih, List.length_cons, Nat.mul_succ]; simp [Fld.width]; omega

/-- the serialised size of a field sequence is the sum of the field widths -/
theorem length_encFields (fs : List Fld) : (encFields fs).length = fieldsLen fs := by
  induction fs with
  | nil => rfl
  | cons f fs ih =>
    rw [fieldsLen_cons, ← ih, ← Fld.length_bytes]
    simp [encFields]

theorem length_entryBytes (k : Kind) (a : EArgs) : (entryBytes k a).length = fieldsLen (fields k a) :=
  length_encFields _

/-! ### reading rows back -/

/-- a numeric row held by an image is read back by `readAt` (if the value fits the width) -/
theorem readAt_of_rowHolds (raw : Bytes) (off w v : Nat) (h : rowHolds raw (.num off w v) = true)
    (hv : v < 256 ^ w) : readAt raw off w = some v := by
  simp only [rowHolds, Row.off, Row.width, Row.bytes, Bool.and_eq_true, decide_eq_true_eq,
    beq_iff_eq] at h
  unfold readAt
  rw [if_pos (of_decide_eq_true h.1), h.2, fromLE_leN, Nat.mod_eq_of_lt hv]

theorem le_of_rowHolds (raw : Bytes) (r : Row) (h : rowHolds raw r = true) :
    r.off + r.width ≤ raw.length := by
  simp only [rowHolds, Bool.and_eq_true] at h
  exact of_decide_eq_true h.1

/-- conformance of the entry bytes to the reference rows of its kind, with the rows exposed -/
theorem conforms_of_entry (k : Kind) (c : EArgs) (opts : List Opt) (a : EArgs) (total : Nat) (rs : List Row)
    (hk : k ≠ .ged) (hwf : entryWf k c opts = true) (hq : k = .qosctrl → C04.qosCtorWf c)
    (h : buildEntry k c opts = .ok a) (hr : rows k c opts = some (total, rs)) :
    conforms total rs (entryBytes k a) = none := by
  have := C04.entry_conforms k c opts a hk hwf hq h
  unfold layoutOracle at this
  rw [hr] at this
  exact this

theorem length_of_conforms {total : Nat} {rs : List Row} {raw : Bytes} (h : conforms total rs raw = none) :
    raw.length = total := (C04.conforms_iff_render total rs raw h).1

/-- the serialised size of a (non-RQSC, non-GED) entry is the total of its reference rows -/
theorem len_const (k : Kind) (c : EArgs) (opts : List Opt) (a : EArgs) (total : Nat) (rs : List Row)
    (hk : k ≠ .ged) (hq : k ≠ .qosctrl) (hwf : entryWf k c opts = true)
    (h : buildEntry k c opts = .ok a) (hr : rows k c opts = some (total, rs)) :
    (entryBytes k a).length = total :=
  length_of_conforms (conforms_of_entry k c opts a total rs hk hwf (fun e => absurd e hq) h hr)

/-! ### one lemma per walk style -/

open C03 in
/-- type 1@0, length 1@1 (MADT, SRAT, PPTT) -/
theorem sd_t8l8 (total ty : Nat) (rest : List Row) (raw : Bytes)
    (h : conforms total (.num 0 1 ty :: .num 1 1 total :: rest) raw = none)
    (hty : ty < 256) (hlt : total < 256) : SelfDescribing .t8l8 ty raw := by
  have hl := length_of_conforms h
  have hd := C04.decode_rows _ _ _ h
  have h0 := hd _ List.mem_cons_self
  have h1 := hd _ (List.mem_cons_of_mem _ List.mem_cons_self)
  have r0 := readAt_of_rowHolds _ _ _ _ h0 (by simpa using hty)
  have r1 := readAt_of_rowHolds _ _ _ _ h1 (by simpa using hlt)
  have b1 := le_of_rowHolds _ _ h1
  simp only [Row.off, Row.width] at b1
  refine ⟨?_, ?_, ?_⟩
  · simp only [entryHdr, r0, r1, hl]; rfl
  · simp only [hdrSize]; omega
  · omega

open C03 in
/-- type 2@0, length 4@4 (HMAT) -/
theorem sd_t16l32 (total ty : Nat) (r : Row) (rest : List Row) (raw : Bytes)
    (h : conforms total (.num 0 2 ty :: r :: .num 4 4 total :: rest) raw = none)
    (hty : ty < 65536) (hlt : total < 2 ^ 32) : SelfDescribing .t16l32 ty raw := by
  have hl := length_of_conforms h
  have hd := C04.decode_rows _ _ _ h
  have h0 := hd _ List.mem_cons_self
  have h1 := hd _ (List.mem_cons_of_mem _ (List.mem_cons_of_mem _ List.mem_cons_self))
  have r0 := readAt_of_rowHolds _ _ _ _ h0 (by simpa using hty)
  have r1 := readAt_of_rowHolds _ _ _ _ h1 (by simpa using hlt)
  have b1 := le_of_rowHolds _ _ h1
  simp only [Row.off, Row.width] at b1
  refine ⟨?_, ?_, ?_⟩
  · simp only [entryHdr, r0, r1, hl]; rfl
  · simp only [hdrSize]; omega
  · omega

open C03 in
/-- type 2@0, length 2@2 (RHCT) -/
theorem sd_t16l16 (total ty : Nat) (rest : List Row) (raw : Bytes)
    (h : conforms total (.num 0 2 ty :: .num 2 2 total :: rest) raw = none)
    (hty : ty < 65536) (hlt : total < 65536) : SelfDescribing .t16l16 ty raw := by
  have hl := length_of_conforms h
  have hd := C04.decode_rows _ _ _ h
  have h0 := hd _ List.mem_cons_self
  have h1 := hd _ (List.mem_cons_of_mem _ List.mem_cons_self)
  have r0 := readAt_of_rowHolds _ _ _ _ h0 (by simpa using hty)
  have r1 := readAt_of_rowHolds _ _ _ _ h1 (by simpa using hlt)
  have b1 := le_of_rowHolds _ _ h1
  simp only [Row.off, Row.width] at b1
  refine ⟨?_, ?_, ?_⟩
  · simp only [entryHdr, r0, r1, hl]; rfl
  · simp only [hdrSize]; omega
  · omega

open C03 in
/-- type 1@0, length 2@2 (RIMT, VIOT, CEDT, RQSC) -/
theorem sd_t8l16 (total ty : Nat) (r : Row) (rest : List Row) (raw : Bytes)
    (h : conforms total (.num 0 1 ty :: r :: .num 2 2 total :: rest) raw = none)
    (hty : ty < 256) (hlt : total < 65536) : SelfDescribing .t8l16 ty raw := by
  have hl := length_of_conforms h
  have hd := C04.decode_rows _ _ _ h
  have h0 := hd _ List.mem_cons_self
  have h1 := hd _ (List.mem_cons_of_mem _ (List.mem_cons_of_mem _ List.mem_cons_self))
  have r0 := readAt_of_rowHolds _ _ _ _ h0 (by simpa using hty)
  have r1 := readAt_of_rowHolds _ _ _ _ h1 (by simpa using hlt)
  have b1 := le_of_rowHolds _ _ h1
  simp only [Row.off, Row.width] at b1
  refine ⟨?_, ?_, ?_⟩
  · simp only [entryHdr, r0, r1, hl]; rfl
  · simp only [hdrSize]; omega
  · omega

open C03 in
/-- type 2@0, size fixed by the type (HEST) -/
theorem sd_hest (total ty : Nat) (rest : List Row) (raw : Bytes)
    (h : conforms total (.num 0 2 ty :: rest) raw = none)
    (hty : ty < 65536) (hsz : hestSize ty = some total) (hpos : 2 ≤ total) : SelfDescribing .hest ty raw := by
  have hl := length_of_conforms h
  have hd := C04.decode_rows _ _ _ h
  have h0 := hd _ List.mem_cons_self
  have r0 := readAt_of_rowHolds _ _ _ _ h0 (by simpa using hty)
  refine ⟨?_, ?_, ?_⟩
  · simp only [entryHdr, r0, hl]
    show (hestSize ty).bind (fun l => some (ty, l)) = _
    rw [hsz]; rfl
  · simp only [hdrSize]; omega
  · omega

open C03 in
/-- no header, fixed size (MCFG, XSDT) -/
theorem sd_fixed (n : Nat) (rs : List Row) (raw : Bytes)
    (h : conforms n rs raw = none) (hpos : 0 < n) : SelfDescribing (.fixed n) 0 raw := by
  have hl := length_of_conforms h
  refine ⟨?_, ?_, ?_⟩
  · simp only [entryHdr, hl, Nat.le_refl, if_true]
  · simp only [hdrSize]; omega
  · omega

/-! ### the 4-byte length field -/

theorem fromLE_lt (bs : Bytes) : fromLE bs < 256 ^ bs.length := by
  induction bs with
  | nil => simp [fromLE]
  | cons b bs ih =>
    have hb : b.toNat < 256 := b.toNat_lt
    simp only [fromLE, List.length_cons, Nat.pow_succ]
    omega

open C03 in
/-- a 4-byte length field cannot announce 4 GiB or more -/
theorem lt_of_sd_t16l32 (ty : Nat) (raw : Bytes) (h : SelfDescribing .t16l32 ty raw) : raw.length < 2 ^ 32 := by
  obtain ⟨h1, -, -⟩ := h
  simp only [entryHdr] at h1
  unfold readAt at h1
  by_cases c0 : 0 + 2 ≤ raw.length
  · by_cases c4 : 4 + 4 ≤ raw.length
    · rw [if_pos c0, if_pos c4] at h1
      have e : fromLE ((raw.drop 4).take 4) = raw.length := by
        injection h1 with h1
        injection h1 with _ h1
      have := fromLE_lt ((raw.drop 4).take 4)
      rw [e] at this
      have hl : ((raw.drop 4).take 4).length ≤ 4 := by simp; omega
      calc raw.length < 256 ^ ((raw.drop 4).take 4).length := this
        _ ≤ 256 ^ 4 := Nat.pow_le_pow_right (by decide) hl
    · rw [if_pos c0, if_neg c4] at h1; cases h1
  · rw [if_neg c0] at h1; cases h1

/-! ### small facts -/

theorem typeCode_of_ne (k : Kind) (a : EArgs) (h : k ≠ .qosctrl) : typeCode k a = typeCodeConst k :=
  if_neg h

theorem numWays_le (x : Nat) : numWays x ≤ 16 := by
  unfold numWays
  split <;> omega

end Acpi.Inst
