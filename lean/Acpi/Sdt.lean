/-
  Acpi.Sdt — the user-defined generic table `sdt::Sdt` (src/sdt.rs:54-161), mirrored
  function by function.

  `Option` results: `none` = the Rust call panics (failed `assert!`, or the overflowing
  `offset + data.len()`; offsets are `Nat` here, so an offset beyond `usize` is simply
  out of range).  A value of type `Sdt` can only be obtained from `Sdt.new`, which
  guarantees `36 ≤ data.length`; under that invariant (preserved by every operation,
  `Acpi.C13.inv_new`, `Acpi.C13.inv_step` in Props/C13.lean) the index `9` used by `updateChecksum` is in
  range, exactly as in the Rust where `self.data[9]` would otherwise panic.
-/
import Acpi.Basic
import Acpi.Sink
import Acpi.Header
namespace Acpi

/-- `pub struct Sdt { data: Vec<u8> }` -/
structure Sdt where
  data : Bytes
deriving Repr, DecidableEq, Inhabited

namespace Sdt

/-- `Vec::resize(n, 0)` -/
def resize (d : Bytes) (n : Nat) : Bytes := d.take n ++ zeros (n - d.length)

/-- `update_checksum` (sdt.rs:94-98): `data[9] = 0; data[9] = generate_checksum(data)` -/
def updateChecksum (s : Sdt) : Sdt :=
  let d0 := s.data.set 9 0
  ⟨d0.set 9 (genChecksum d0)⟩

/-- `Sdt::new` (sdt.rs:65-92).  `sig`, `oemId`, `oemTable` are `[u8; 4]`, `[u8; 6]`,
    `[u8; 8]` in the Rust; the `assert_eq!(data.len(), 36)` is kept. -/
def new (sig : Bytes) (length : UInt32) (rev : UInt8) (oemId oemTable : Bytes)
    (oemRev : UInt32) : Option Sdt :=
  if length < 36 then none else                       -- assert!(length >= 36)
  let data : Bytes := sig ++ u32le length ++ [rev] ++ [0] ++ oemId ++ oemTable
    ++ u32le oemRev ++ creatorId ++ creatorRev
  if data.length ≠ 36 then none else                  -- assert_eq!(data.len(), 36)
  some (updateChecksum ⟨resize data length.toNat⟩)

/-- `as_slice` -/
def asSlice (s : Sdt) : Bytes := s.data

/-- `len` -/
def len (s : Sdt) : Nat := s.data.length

/-- `write_bytes` (sdt.rs:118-122): assert in range, copy, update the checksum. -/
def writeBytes (s : Sdt) (off : Nat) (bs : Bytes) : Option Sdt :=
  if off + bs.length ≤ s.data.length then
    some (updateChecksum ⟨patch s.data off bs⟩)
  else none

/-- `append<T>` (sdt.rs:104-110) on `value.as_bytes()`: resize with zeros, write the new
    length (`as u32`: truncated) at 4, write the value at the old end. -/
def appendT (s : Sdt) (value : Bytes) : Option Sdt := do
  let origLength := s.data.length
  let newLength := origLength + value.length
  let s1 : Sdt := ⟨resize s.data newLength⟩
  let s2 ← s1.writeBytes 4 (u32le (UInt32.ofNat newLength))
  s2.writeBytes origLength value

/-- `append_slice` (sdt.rs:112-118): the length is written into the *old* data first,
    then the vector is extended and the checksum recomputed. -/
def appendSlice (s : Sdt) (bs : Bytes) : Option Sdt := do
  let origLength := s.data.length
  let newLength := origLength + bs.length
  let s1 ← s.writeBytes 4 (u32le (UInt32.ofNat newLength))
  some (updateChecksum ⟨s1.data ++ bs⟩)

/-- `impl AmlSink for Sdt { fn byte(&mut self, b) { self.append(b) } }`, on a state that
    remembers a panic. -/
def sinkByte (s : Option Sdt) (b : UInt8) : Option Sdt := s.bind (·.appendT [b])

/-- The remaining entry points are the trait's defaults: per-byte appends. -/
def sink : Sink (Option Sdt) := Sink.ofByte sinkByte

/-- The operations of the public interface. -/
inductive Op where
  | append8 (v : UInt8)
  | append16 (v : UInt16)
  | append32 (v : UInt32)
  | append64 (v : UInt64)
  | appendSlice (bs : Bytes)
  | write8 (off : Nat) (v : UInt8)
  | write16 (off : Nat) (v : UInt16)
  | write32 (off : Nat) (v : UInt32)
  | write64 (off : Nat) (v : UInt64)
  | writeSlice (off : Nat) (bs : Bytes)
  | sink (c : SinkCall)
  | updateChecksum
deriving Repr, DecidableEq, Inhabited

/-- One operation; `none` = it panics. -/
def step (s : Sdt) : Op → Option Sdt
  | .append8 v => s.appendT [v]
  | .append16 v => s.appendT (u16le v)
  | .append32 v => s.appendT (u32le v)
  | .append64 v => s.appendT (u64le v)
  | .appendSlice bs => s.appendSlice bs
  | .write8 off v => s.writeBytes off [v]
  | .write16 off v => s.writeBytes off (u16le v)
  | .write32 off v => s.writeBytes off (u32le v)
  | .write64 off v => s.writeBytes off (u64le v)
  | .writeSlice off bs => s.writeBytes off bs
  | .sink c => Sdt.sink.feed1 (some s) c
  | .updateChecksum => some s.updateChecksum

/-- A caller that catches the panic keeps the table it had. -/
def stepKeep (s : Sdt) (op : Op) : Sdt := (s.step op).getD s

/-- Final table after a history (refused operations skipped). -/
def run (s : Sdt) (ops : List Op) : Sdt := ops.foldl stepKeep s

/-- What an observer sees after each operation: was it refused, and the contents. -/
def trace (s : Sdt) : List Op → List (Bool × Bytes)
  | [] => []
  | op :: ops =>
    match s.step op with
    | some s' => (false, s'.data) :: trace s' ops
    | none => (true, s.data) :: trace s ops

end Sdt
end Acpi
