/-
  Acpi.Tables.Fixed — tables that are not built by the append engine:
  FADT (fadt.rs), BERT (bert.rs), SPCR (spcr.rs), TCPA client/server and TPM2 (tpm2.rs),
  RSDP (rsdp.rs), FACS (facs.rs), SLIT (slit.rs).

  Header-bearing ones are `hdr(sig, Length literal, revision, checksum) ++ body fields`; the
  checksum is either accumulated in `new` (`Checksum::append` of everything, then `value()`)
  or recomputed from scratch (`generate_checksum` with the checksum byte zeroed) — both are
  `0 - sum of all other bytes`.
-/
import Acpi.Header
import Acpi.Checksum
import Acpi.Tables.Entries
namespace Acpi

inductive FixedT where
  | fadt | bert | spcr | tcpac | tcpas | tpm2 | rsdp | facs | slit
deriving Repr, DecidableEq, Inhabited

/-- header-bearing table image from its parts: the checksum byte is what `Checksum::value()`
    gives after appending every other byte. -/
def fixedImage (sig : Bytes) (lenLit : Nat) (rev : UInt8) (o : Oem) (body : Bytes) : Bytes :=
  let h0 := hdrBytes sig (UInt32.ofNat lenLit) rev 0 o
  let c := (({} : Cks).append h0).append body
  hdrBytes sig (UInt32.ofNat lenLit) rev c.cksum o ++ body

/-! ### FADT — state = the 58 scalar slots of `FADTBuilder` after the header, in declaration
    order, a `GAS` occupying 5 consecutive slots.  Slot numbers: -/
namespace Fadt
/- 0 firmware_ctrl(4) 1 dsdt(4) 2 _reserved0(1) 3 preferred_pm_profile(1) 4 sci_int(2) 5 smi_cmd(4)
   6 acpi_enable(1) 7 acpi_disable(1) 8 s4bios_req(1) 9 pstate_cnt(1) 10..17 pm1a_evt..gpe1_blk(4 each)
   18 pm1_evt_len 19 pm1_cnt_len 20 pm2_cnt_len 21 pm_tmr_len 22 gpe0_blk_len 23 gpe1_blk_len
   24 gpe1_base 25 cst_cnt (1 each) 26 p_lvl2_lat 27 p_lvl3_lat 28 flush_size 29 flush_stride (2 each)
   30 duty_offset 31 duty_width 32 day_alrm 33 mon_alrm 34 century (1 each) 35 iapc_boot_arch(2)
   36 _reserved1(1) 37 flags(4) 38..42 reset_reg GAS 43 reset_value(1) 44 arm_boot_arch(2)
   45 fadt_minor_version(1) 46 x_firmware_ctrl(8) 47 x_dsdt(8)
   48.. ten GAS (5 slots each): x_pm1a_evt, x_pm1b_evt, x_pm1a_cnt, x_pm1b_cnt, x_pm2_cnt, x_pm_tmr,
        x_gpe0, x_gpe1, sleep_control, sleep_status  (48..97)   98 hypervisor_vendor_identity(8) -/
def slots : Nat := 99

/-- width in bytes of each slot (a GAS slot group is 1,1,1,1,8) -/
def gasW : List Nat := [1, 1, 1, 1, 8]
def widths : List Nat :=
  [4, 4, 1, 1, 2, 4, 1, 1, 1, 1] ++ List.replicate 8 4 ++ List.replicate 8 1 ++ List.replicate 4 2 ++
  List.replicate 5 1 ++ [2, 1, 4] ++ gasW ++ [1, 2, 1, 8, 8] ++ (List.replicate 10 gasW).flatten ++ [8]

/-- `FADTBuilder::new`: everything default (zero) except `fadt_minor_version = 5` -/
def initState : EArgs := { n := (Array.replicate slots 0).setIfInBounds 45 5 }

def body (a : EArgs) : List Fld := (List.range slots).map fun i => .num (widths.getD i 0) (a.num i)

/-- `Flags as u32` for the k-th variant of `enum Flags` (fadt.rs:13-51) -/
def flagValue (k : Nat) : Nat :=
  if k < 22 then 1 <<< k else if k = 22 then 0 <<< 22 else if k = 23 then 1 <<< 22 else 2 <<< 22

def applyOp (a : EArgs) (o : Opt) : Option EArgs :=
  let v := o.arg
  match o.name with
  | "dsdt32" => some ((a.setNum 1 (v 0)).setNum 47 0)
  | "dsdt64" => some ((a.setNum 1 0).setNum 47 (v 0))
  | "fc32" => some ((a.setNum 0 (v 0)).setNum 46 0)
  | "fc64" => some ((a.setNum 0 0).setNum 46 (v 0))
  | "acpien" => some ((a.setNum 6 1).setNum 7 0)
  | "acpidis" => some ((a.setNum 6 0).setNum 7 1)
  | "flag" => if v 0 < 25 then some (a.orNum 37 (flagValue (v 0))) else none
  | "gpe" => some (((((a.setNum 16 (v 0)).setNum 17 (v 1)).setNum 22 (v 2)).setNum 23 (v 3)).setNum 24 (v 4))
  | "profile" => some (a.setNum 3 (v 0))
  | "set" => if v 0 < slots ∧ v 0 ≠ 2 ∧ v 0 ≠ 36 then some (a.setNum (v 0) (v 1)) else none   -- public field write
  | "gas" =>     -- assignment of a whole public `GAS` field: 0 = reset_reg, 1..10 = the ten at the end
    if v 0 < 11 then
      let base := if v 0 = 0 then 38 else 48 + 5 * (v 0 - 1)
      some (((((a.setNum base (v 1)).setNum (base + 1) (v 2)).setNum (base + 2) (v 3)).setNum (base + 3) (v 4)).setNum (base + 4) (v 5))
    else none
  -- assignment of the crate-managed public header field `checksum`: `finalize` zeroes the field
  -- before summing, so the value written never reaches the image
  | "stalecks" => some a
  | _ => none
end Fadt

/-! ### TCPA server (TpmServer1_2) — state slots:
   0 laml(8) 1 lasa(8) 2 device_flags(1) 3 interrupt_flags(1) 4 gpe(1) 5 gsi(4)
   6..10 base_addr GAS  11..15 tpm_config_addr GAS  16 seg 17 bus 18 dev 19 fn (1 each) -/
namespace Tcpas
def initState : EArgs := { n := Array.replicate 20 0 }
def body (a : EArgs) : List Fld :=
  let n := a.num
  [w16 1, w16 0, q64 (n 0), q64 (n 1), .raw [1, 2], b8 (n 2), b8 (n 3), b8 (n 4), .raw [0, 0, 0], d32 (n 5)] ++
  gasFields (n 6) (n 7) (n 8) (n 9) (n 10) ++ [d32 0] ++ gasFields (n 11) (n 12) (n 13) (n 14) (n 15) ++
  [b8 (n 16), b8 (n 17), b8 (n 18), b8 (n 19)]
def applyOp (a : EArgs) (o : Opt) : Option EArgs :=
  let v := o.arg
  match o.name with
  | "logarea" => some ((a.setNum 0 (v 0)).setNum 1 (v 1))
  | "activelow" => some (a.orNum 3 2)
  | "edge" => some (a.orNum 3 1)
  | "scigpe" => some ((a.setNum 4 (v 0)).orNum 3 4)
  | "gsi" => some ((a.setNum 5 (v 0)).orNum 3 8)
  | "pnp" => some (a.orNum 2 2)
  | "sbdf" => if 32 ≤ v 2 ∨ 8 ≤ v 3 then none else
      some (((((a.setNum 16 (v 0)).setNum 17 (v 1)).setNum 18 (v 2)).setNum 19 (v 3)).orNum 2 1)
  | "base" => some (((((a.setNum 6 (v 0)).setNum 7 (v 1)).setNum 8 (v 2)).setNum 9 (v 3)).setNum 10 (v 4))
  | "config" => some ((((((a.setNum 11 (v 0)).setNum 12 (v 1)).setNum 13 (v 2)).setNum 14 (v 3)).setNum 15 (v 4)).orNum 2 4)
  | _ => none
end Tcpas

/-- `SerialPortInfo::sbi()` (spcr.rs) followed by the namespace string ".\0" -/
def spcrBody : List Fld :=
  [b8 0x15, .raw [0, 0, 0]] ++ gasFields 0 0 0 0 0 ++
  [b8 0, b8 0, d32 0, b8 0, b8 0, b8 0, b8 0, b8 0, b8 0, w16 0xffff, w16 0xffff, b8 0, b8 0, b8 0, d32 0,
   b8 0, d32 0, d32 0, w16 2, w16 88, .raw [0x2E, 0]]

/-- state of any fixed table as driven by the line protocol -/
structure FixedState where
  t : FixedT
  oem : Oem
  a : EArgs            -- per-table state slots
  /-- SLIT: the matrix; TPM2: unused -/
  cells : List Nat := []
  cks : Cks := {}
  hdrCks : UInt8 := 0
deriving Repr, Inhabited

/-- the SLIT header bytes with a given checksum byte -/
def slitHead (o : Oem) (n : Nat) (cks : UInt8) : Bytes :=
  hdrBytes [0x53, 0x4C, 0x49, 0x54] (UInt32.ofNat (n * n + 44)) 1 cks o ++ leN 8 n

/-- the TPM2 image parts (tpm2.rs:196-303): a = [class, base, start_method, hasLog, laml, lasa] -/
def tpm2Rest (a : EArgs) : Bytes :=
  encFields ([w16 (a.num 0), w16 0, q64 (a.num 1), d32 (a.num 2)] ++
    (if a.num 3 ≠ 0 then [.raw (zeros 12), d32 (a.num 4), q64 (a.num 5)] else []))

def tpm2Len (a : EArgs) : Nat := if a.num 3 ≠ 0 then 76 else 52

namespace FixedState

/-- constructor; `none` = panic (SLIT with `localities² + 44 ≥ 2^32`) -/
def new (t : FixedT) (o : Oem) (c : EArgs) : Option FixedState :=
  match t with
  | .fadt => some { t, oem := o, a := Fadt.initState }
  | .tcpas => some { t, oem := o, a := Tcpas.initState }
  | .slit =>
    let n := c.num 0
    if 2 ^ 32 ≤ n * n ∨ 2 ^ 32 ≤ n * n + 44 then none else
    let cells := List.replicate (n * n) 10
    let cks := ((({} : Cks).append (slitHead o n 0))).append (cells.map UInt8.ofNat)
    some { t, oem := o, a := c, cells, cks, hdrCks := cks.cksum }
  | .tpm2 =>
    let a : EArgs := { n := #[c.num 0, c.num 1, c.num 2, 0, 0, 0] }
    let cks := (({} : Cks).append (hdrBytes [0x54, 0x50, 0x4D, 0x32] 52 1 0 o)).append (tpm2Rest a)
    some { t, oem := o, a, cks, hdrCks := cks.cksum }
  | _ => some { t, oem := o, a := c }

/-- one mutating operation; `none` = panic -/
def step (s : FixedState) (o : Opt) : Option FixedState :=
  match s.t with
  | .fadt => (Fadt.applyOp s.a o).map fun a => { s with a }
  | .tcpas => (Tcpas.applyOp s.a o).map fun a => { s with a }
  | .tpm2 =>
    if o.name = "logarea" then
      if s.a.num 3 ≠ 0 then none     -- `assert!(old_len == 52)`
      else
        let a := ((s.a.setNum 3 1).setNum 4 (o.arg 0)).setNum 5 (o.arg 1)
        let cks := (((s.cks.delete (u32le 52)).append (u32le 76)).append (leN 4 (o.arg 0))).append (leN 8 (o.arg 1))
        some { s with a, cks, hdrCks := cks.cksum }
    else none
  | .slit =>
    if o.name = "dist" then
      let n := s.a.num 0
      let a := o.arg 0; let b := o.arg 1; let v := o.arg 2
      let i1 := a + n * b; let i2 := b + n * a
      if s.cells.length ≤ i1 ∨ s.cells.length ≤ i2 then none
      else if a = b then
        let old := s.cells.getD i1 0
        let cks := (s.cks.sub (UInt8.ofNat old)).add (UInt8.ofNat v)
        some { s with cells := s.cells.set i1 v, cks, hdrCks := cks.cksum }
      else
        let o1 := s.cells.getD i1 0; let o2 := s.cells.getD i2 0
        let cks := (s.cks.delete [UInt8.ofNat o1, UInt8.ofNat o2]).append [UInt8.ofNat v, UInt8.ofNat v]
        some { s with cells := (s.cells.set i1 v).set i2 v, cks, hdrCks := cks.cksum }
    else none
  | _ => none

/-- `to_aml_bytes` (FADT: after `finalize()`) -/
def image (s : FixedState) : Bytes :=
  let n := s.a.num
  match s.t with
  | .fadt => fixedImage [0x46, 0x41, 0x43, 0x50] 276 6 s.oem (encFields (Fadt.body s.a))
  | .bert => fixedImage [0x42, 0x45, 0x52, 0x54] 48 1 s.oem (encFields [d32 (n 0), q64 (n 1)])
  | .spcr => fixedImage [0x53, 0x50, 0x43, 0x52] 90 4 s.oem (encFields spcrBody)
  | .tcpac => fixedImage [0x54, 0x43, 0x50, 0x41] 50 2 s.oem (encFields [w16 0, d32 (n 0), q64 (n 1)])
  | .tcpas => fixedImage [0x54, 0x43, 0x50, 0x41] 100 2 s.oem (encFields (Tcpas.body s.a))
  | .tpm2 => hdrBytes [0x54, 0x50, 0x4D, 0x32] (UInt32.ofNat (tpm2Len s.a)) 1 s.hdrCks s.oem ++ tpm2Rest s.a
  | .rsdp =>     -- a = [xsdt_addr]; oem.id used
    let pre (c : UInt8) : Bytes := [0x52, 0x53, 0x44, 0x20, 0x50, 0x54, 0x52, 0x20] ++ [c] ++ s.oem.id ++ [2] ++ u32le 0
    let rest (e : UInt8) : Bytes := u32le 36 ++ leN 8 (n 0) ++ [e, 0, 0, 0]
    let c := genChecksum (pre 0)
    let e := genChecksum (pre c ++ rest 0)
    pre c ++ rest e
  | .facs => [0x46, 0x41, 0x43, 0x53] ++ u32le 64 ++ zeros 24 ++ [1, 0, 0, 0] ++ zeros 4 ++ zeros 24
  | .slit => slitHead s.oem (n 0) s.hdrCks ++ s.cells.map UInt8.ofNat

end FixedState
end Acpi

namespace Acpi

/-- a whole builder program on a fixed table: constructor then the operations in order;
    `none` as soon as one of them panics -/
def runFixedFrom : FixedState → List Opt → Option FixedState
  | s, [] => some s
  | s, o :: os => (s.step o).bind fun s' => runFixedFrom s' os

def runFixed (t : FixedT) (o : Oem) (c : EArgs) (ops : List Opt) : Option FixedState :=
  (FixedState.new t o c).bind fun s => runFixedFrom s ops

end Acpi
