/-
  Acpi.Tables.Wf — the well-formedness guard under which the entry theorems (C04/C11/C12)
  are stated: exactly what the Rust *types* guarantee about the arguments (a `u8` is below
  256, a `[u8; 8]` has 8 bytes, an enum has one of its discriminants) and that builder calls
  address a slot the public API can reach.  Decidable, and evaluated by the driver on every
  generated case (so the evidence reports how many cases met the theorems' hypotheses).
-/
import Acpi.Tables.Entries
namespace Acpi

/-- state slots a `set=slot.value` call may address (the public `mutable_setter!`s) -/
def settableSlots : Kind → List Nat
  | .gicc => [1, 2, 3, 5, 6, 7, 8, 10, 11, 12, 13, 14]
  | .gicmsi => [0, 1]
  | .aerrp => [4, 5, 6, 7, 8, 9, 10, 11]
  | .aerdev => [4, 5, 6, 7, 8, 9, 10]
  | .aerbr => [4, 5, 6, 7, 8, 9, 10, 11, 12, 13]
  | .ghes => [2, 3, 4, 5]
  | .ghesv2 => [2, 3, 4, 5, 25, 26]
  | .notif => [2, 3, 4, 5, 6, 7, 8]
  | .proc => [0, 1, 2]
  | _ => []

/-- arguments of one builder call are within their Rust types -/
def optWf (k : Kind) (o : Opt) : Bool :=
  let v := o.arg
  match k, o.name with
  | .proc, "set" => (settableSlots k).contains (v 0) && v 1 < 2 ^ 32
  | _, "set" => (settableSlots k).contains (v 0)
  | .gicc, "pi" | .gicc, "mi" => v 1 < 2
  | .cache, "alloc" => v 0 < 3
  | .cache, "ctype" => v 0 < 3
  | .cache, "wp" => v 0 < 2
  | _, _ => true

/-- constructor arguments are within their Rust types -/
def ctorWf (k : Kind) (c : EArgs) : Bool :=
  let n := c.num
  match k with
  | .aplic | .plic => (c.blob 0).length = 8
  | .gi => if n 1 = 1 then n 3 < 256 else (c.blob 0).length = 8 && (c.blob 1).length = 4
  | .rintcAff => (c.blob 0).length = 4
  | .loc => n 0 < 4
  | .msc => n 2 < 4 && n 3 < 4 && n 4 < 3 && n 5 < 3 && n 6 < 65536
  | .iommu => n 5 < 256
  | .pcirange => n 1 < 256 && n 5 < 256
  | .pciiommu => n 1 < 256
  | .rdpas => n 1 < 256
  | .ged => (c.blob 0).length = 16 && (c.blob 1).length = 20 && (c.blob 2).length = 8
  | _ => true

def entryWf (k : Kind) (c : EArgs) (opts : List Opt) : Bool := ctorWf k c && opts.all (optWf k)

end Acpi
