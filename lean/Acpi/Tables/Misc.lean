/-
  Acpi.Tables.Misc — the remaining public constructors that produce bytes:
  `sdt::GenericAddress::{io_port_address, mmio_address}<T>` (sdt.rs:22-52, a packed struct that
  is appended to an `Sdt` through `as_bytes`) and `gas::GAS::new_pci_config` (gas.rs:74-90).
-/
import Acpi.Tables.Fields
import Acpi.Tables.Entries
namespace Acpi

/-- `access_size_of::<T>()`: 1, 2, 3, 4 for a 1-, 2-, 4-, 8-byte `T` -/
def accessSizeOf (tsize : Nat) : Nat :=
  if tsize = 1 then 1 else if tsize = 2 then 2 else if tsize = 4 then 3 else 4

/-- `access_size_of::<T>()` ends in `unreachable!()` for every other size of `T`: both constructors
    refuse a register type that has no Access Size code -/
def genericAddressRefuses (tsize : Nat) : Bool := !(tsize == 1 || tsize == 2 || tsize == 4 || tsize == 8)

/-- `GenericAddress::io_port_address::<T>(a: u16)` / `mmio_address::<T>(a: u64)` as bytes (for the sizes
    that are not refused) -/
def genericAddress (io : Bool) (tsize addr : Nat) : List Fld :=
  [b8 (if io then 1 else 0), b8 ((8 * tsize) % 256), b8 0, b8 (accessSizeOf tsize), q64 addr]

/-- `GAS::new_pci_config(register_bit_width, access_size, device, function, register)` -/
def gasPciConfig (width access device function register : Nat) : List Fld :=
  gasFields 2 width 0 access ((((device % 256) <<< 32) ||| ((function % 256) <<< 16) ||| (register % 65536)) % 2 ^ 64)

end Acpi
