/-
  Acpi.Tables.Mixed — whole-table builder programs whose add calls MIX modelled entries
  (`AddOp`: kind + constructor arguments + builder options, serialised by `entryBytes`) with
  OPAQUE entries: entries outside any entry model (`derive(Default)` values of the entry structs,
  other crate types or caller-defined types handed to the generic `MADT::add_structure<T>` /
  `HEST::add_structure<T>`).  For an opaque entry the crate does its bookkeeping with
  `size_of::<T>()` / `as_bytes()` and emits the bytes of the `Aml` impl; for a *lawful* foreign
  type these coincide, so the engine is handed `(raw, raw.length)` and is fed `sum8 raw` — through
  the very same `runAdds` that `runTable` uses.

  `runMixed` is what the driver's full mode executes for histories with opaque entries, and what
  the mixed theorems (Props/C0x/Mixed.lean) are about.
-/
import Acpi.Tables.Whole
namespace Acpi

/-- one add call of a mixed program: a modelled entry, or an opaque one given by its bytes -/
inductive MOp
  | modelled (op : AddOp)
  | opaque (raw : Bytes)
deriving Inhabited

/-- the modelled calls of a mixed program, in order -/
def modelledOps : List MOp → List AddOp
  | [] => []
  | .modelled op :: ms => op :: modelledOps ms
  | .opaque _ :: ms => modelledOps ms

/-- what the engine is handed for an opaque entry: its bytes and their number -/
def rawOpaque (raw : Bytes) : Bytes × Nat := (raw, raw.length)

/-- run the modelled entries' builder programs and line up what the engine is handed for every
    call, in call order; `none` as soon as one builder program panics -/
def buildMixed : List MOp → Option (List (Bytes × Nat))
  | [] => some []
  | .modelled op :: ms =>
    match buildEntry op.k op.ctor op.opts with
    | .error _ => none
    | .ok a => (buildMixed ms).map fun r => rawOf (op.k, a) :: r
  | .opaque raw :: ms => (buildMixed ms).map fun r => rawOpaque raw :: r

/-- the whole mixed program: `none` = some call panics (or a modelled call does not exist on
    that table).  The `accepts` / `imsicOnce` guard of `runTable` is applied to the modelled
    calls; an opaque entry is accepted by any table. -/
def runMixed (T : TableId) (o : Oem) (ops : List MOp) : Option (List Nat × Tbl) :=
  if (modelledOps ops).all (fun op => T.accepts op.k) && imsicOnce (modelledOps ops) then
    match buildMixed ops with
    | none => none
    | some es => runAdds (Tbl.new T.cfg o) es
  else none

/-! ### a concrete mixed MADT program (used by the non-vacuity examples of the mixed theorems) -/

/-- OEM fields of the example -/
def Mixed.exOem : Oem := ⟨[1, 2, 3, 4, 5, 6], [1, 2, 3, 4, 5, 6, 7, 8], 7⟩

/-- `MADT::new(…)`, `add_gicc(GICC::new(Enabled).performance_interrupt(23, Edge))`, a 12-byte
    opaque structure through `add_structure<T>`, `add_gicd(GICD::new(0, 0x800_0000, V3))` -/
def Mixed.exProg : List MOp :=
  [.modelled ⟨.gicc, { n := #[1] }, [⟨"pi", [23, 0]⟩]⟩,
   .opaque [0x7f, 12, 1, 2, 3, 4, 5, 6, 7, 8, 9, 10],
   .modelled ⟨.gicd, { n := #[0, 0x8000000, 3] }, []⟩]

end Acpi
