/-
  Acpi.Tables.Fields — the small language in which every table/entry serialiser of the
  crate is modelled: a serialiser is the *sequence of fields it emits*, in emission order,
  exactly as the Rust pushes them into the sink (`sink.byte/word/dword/qword/vec`, or the
  declaration order of a `#[repr(C, packed)]` struct behind `as_bytes()`).

  `num w v`  — an integer emitted little-endian in `w` bytes (`v` reduced modulo 256^w, i.e.
               the Rust `as u8/u16/u32` cast made explicit)
  `raw bs`   — a byte array emitted verbatim (`[u8; N]` fields, strings, `sink.vec`)
-/
import Acpi.Basic
import Acpi.Sink
namespace Acpi

inductive Fld where
  | num (w : Nat) (v : Nat)
  | raw (bs : Bytes)
deriving Repr, DecidableEq, Inhabited

namespace Fld
def bytes : Fld → Bytes
  | num w v => leN w v
  | raw bs => bs

def width : Fld → Nat
  | num w _ => w
  | raw bs => bs.length

/-- the sink call the Rust makes for this field (1/2/4/8-byte integers go through the typed
    entry points; anything else through `vec`) -/
def toCall : Fld → SinkCall
  | num 1 v => .byte (UInt8.ofNat v)
  | num 2 v => .word (UInt16.ofNat v)
  | num 4 v => .dword (UInt32.ofNat v)
  | num 8 v => .qword (UInt64.ofNat v)
  | num w v => .vec (leN w v)
  | raw bs => .vec bs
end Fld

/-- the bytes a field sequence serialises to -/
def encFields (fs : List Fld) : Bytes := fs.flatMap Fld.bytes

/-- total size of a field sequence -/
def fieldsLen (fs : List Fld) : Nat := (fs.map Fld.width).sum

/-- arguments of one entry/table as they travel over the line protocol:
    numbers, byte blobs, and lists of numeric tuples (sub-arrays). -/
structure EArgs where
  n : Array Nat := #[]
  b : Array Bytes := #[]
  s : List (List Nat) := []
deriving Repr, DecidableEq, Inhabited

namespace EArgs
@[inline] def num (a : EArgs) (i : Nat) : Nat := a.n.getD i 0
@[inline] def blob (a : EArgs) (i : Nat) : Bytes := a.b.getD i []
def setNum (a : EArgs) (i v : Nat) : EArgs := { a with n := a.n.setIfInBounds i v }
/-- `field |= bit` -/
def orNum (a : EArgs) (i bit : Nat) : EArgs := a.setNum i (a.num i ||| bit)
end EArgs

/-- shorthand used by the entry tables -/
abbrev b8 (v : Nat) : Fld := .num 1 v
abbrev w16 (v : Nat) : Fld := .num 2 v
abbrev d32 (v : Nat) : Fld := .num 4 v
abbrev q64 (v : Nat) : Fld := .num 8 v

end Acpi
