/-
  Acpi.Tables.Whole — whole-table builder programs: `T::new(oem…, ctor…)` followed by a
  sequence of `add_*` calls, each of which is given an entry built by its own builder program
  (`Kind::new(ctor…).opt1(…)…`).  This composes the generic incremental engine (Acpi.Tbl, the
  model of the `update_header` family) with the entry models (Acpi.Tables.Build): the entry's
  serialised bytes, the Rust `len()` helper as the claimed length, and the byte sum of the
  serialised entry as what is fed to the checksum accumulator.

  `runTable` is what the driver's full mode executes and what the whole-table theorems
  (Props/C0x/Whole.lean) are about.
-/
import Acpi.Tbl
import Acpi.Lemmas.Tbl
import Acpi.Tables.Build
import Acpi.Tables.Wf
import Acpi.Spec.Codes
namespace Acpi

/-- the twelve append tables, with the constructor arguments that reach the image -/
inductive TableId
  | xsdt | mcfg
  | madt (lica : UInt32)          -- local interrupt controller address (0 when not given)
  | srat | hmat | pptt | cedt
  | rhct (timebase : UInt64)
  | rimt | viot | hest | rqsc
deriving Repr, DecidableEq, Inhabited

namespace TableId

/-- the name used by the specification side (`Spec.tableOf`, `Spec.shapeOf`, `Spec.tableHeadRows`) -/
def name : TableId → String
  | xsdt => "xsdt" | mcfg => "mcfg" | madt _ => "madt" | srat => "srat" | hmat => "hmat"
  | pptt => "pptt" | cedt => "cedt" | rhct _ => "rhct" | rimt => "rimt" | viot => "viot"
  | hest => "hest" | rqsc => "rqsc"

/-- the engine instance -/
def cfg : TableId → TblCfg
  | xsdt => cfgXSDT | mcfg => cfgMCFG | madt l => cfgMADT l | srat => cfgSRAT | hmat => cfgHMAT
  | pptt => cfgPPTT | cedt => cfgCEDT | rhct tb => cfgRHCT tb | rimt => cfgRIMT | viot => cfgVIOT
  | hest => cfgHEST | rqsc => cfgRQSC

/-- constructor arguments as the reference layout of the table head reads them -/
def ctor : TableId → List Nat
  | madt l => [1, l.toNat]
  | rhct tb => [tb.toNat]
  | _ => []

/-- the table has an `add_*` method for that kind of entry -/
def accepts (T : TableId) (k : Kind) : Bool := Spec.tableOf k = some T.name

end TableId

/-- one `add_*` call: the entry's kind and its builder program -/
structure AddOp where
  k : Kind
  ctor : EArgs
  opts : List Opt
deriving Inhabited

/-- run the entries' builder programs; `none` as soon as one of them panics -/
def buildAll : List AddOp → Option (List (Kind × EArgs))
  | [] => some []
  | op :: ops =>
    match buildEntry op.k op.ctor op.opts with
    | .error _ => none
    | .ok a => (buildAll ops).map fun r => (op.k, a) :: r

/-- what the engine is handed for one built entry: serialised bytes and the `len()` helper -/
def rawOf (e : Kind × EArgs) : Bytes × Nat := (entryBytes e.1 e.2, lenOf e.1 e.2)

/-- `MADT::add_imsic` asserts that no IMSIC structure was added before -/
def imsicOnce : List AddOp → Bool
  | [] => true
  | op :: ops => (op.k != .imsic || ops.all (fun o => o.k != .imsic)) && imsicOnce ops

/-- the whole program: `none` = some call panics (or does not exist on that table) -/
def runTable (T : TableId) (o : Oem) (ops : List AddOp) : Option (List Nat × Tbl) :=
  if ops.all (fun op => T.accepts op.k) && imsicOnce ops then
    match buildAll ops with
    | none => none
    | some bs => runAdds (Tbl.new T.cfg o) (bs.map rawOf)
  else none

end Acpi
