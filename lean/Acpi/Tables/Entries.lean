/-
  Acpi.Tables.Entries — model of every entry/sub-structure serialiser of the crate, as the
  field sequence it emits (see Acpi.Tables.Fields), together with

    init     constructor arguments ↦ builder state
    applyOpt one builder/setter call on the state (`None` = the Rust call panics)
    fields   `to_aml_bytes` / `as_bytes()` of the state, in emission order
    panics   the asserts inside serialisation (post-`fix:` refusals included)
    lenOf    the Rust `len()` helper the *table* uses to grow its Length field and handles

  Source anchors are given per kind.  State layouts (indices into `EArgs.n`) are documented
  next to each kind; the harness (harness/src/s_tables.rs) uses the same conventions.
-/
import Acpi.Tables.Fields
namespace Acpi

inductive Kind where
  -- MADT (src/madt.rs)
  | lapic | ioapic | gicc | gicd | gicmsi | gicr | its | rintc | imsic | aplic | plic
  -- SRAT (src/srat.rs)
  | mem | gi | rintcAff
  -- HMAT (src/hmat.rs)
  | mpd | loc | msc
  -- PPTT (src/pptt.rs)
  | proc | cache
  -- RHCT (src/rhct.rs)
  | isa | cmo | mmu | hart
  -- RIMT (src/rimt.rs)
  | iommu | pcierc | platform | idmap | wire
  -- VIOT (src/viot.rs)
  | pcirange | mmioep | pciiommu | mmioiommu
  -- CEDT (src/cedt.rs)
  | chbs | cfmws | cxims | rdpas
  -- HEST (src/hest.rs)
  | aerrp | aerdev | aerbr | ghes | ghesv2 | notif | ges | ged
  -- MCFG, XSDT
  | ecam | xsdtEntry
  -- RQSC (src/rqsc.rs)
  | qosctrl
  -- gas.rs
  | gas
deriving Repr, DecidableEq, Inhabited

structure Opt where
  name : String
  v : List Nat := []
deriving Repr, DecidableEq, Inhabited

namespace Opt
def arg (o : Opt) (i : Nat) : Nat := o.v.getD i 0
end Opt

/-- `(bus << 8) | (device << 3) | function` as `u16` (rimt.rs:141, viot.rs:148, cedt.rs:401) -/
def bdf (bus dev fn : Nat) : Nat := ((bus <<< 8) ||| (dev <<< 3) ||| fn) % 65536

/-- `GAS` (gas.rs:42, 12 bytes): space, width, offset, access size, address -/
def gasFields (space width off acc addr : Nat) : List Fld :=
  [b8 space, b8 width, b8 off, b8 acc, q64 addr]

/-- `NotificationStructure` (hest.rs, 28 bytes) from 9 state values -/
def notifFields (x : Nat → Nat) : List Fld :=
  [b8 (x 0), b8 (x 1), w16 (x 2), d32 (x 3), d32 (x 4), d32 (x 5), d32 (x 6), d32 (x 7), d32 (x 8)]

/-- `IdMapping` (rimt.rs:293, 20 bytes) from the tuple `[src, dst, num, off, ats, pri, rciep]` -/
def idmapFields (t : List Nat) : List Fld :=
  let g (i : Nat) := t.getD i 0
  let flags := (if g 4 ≠ 0 then 1 else 0) ||| (if g 5 ≠ 0 then 2 else 0) ||| (if g 6 ≠ 0 then 4 else 0)
  [d32 (g 0), d32 (g 1), d32 (g 2), d32 (g 3), d32 flags]

/-- `InterruptWire` (rimt.rs:150, 8 bytes) from `[num, level, high, aplic]` -/
def wireFields (t : List Nat) : List Fld :=
  let g (i : Nat) := t.getD i 0
  let flags := (if g 1 ≠ 0 then 1 else 0) ||| (if g 2 ≠ 0 then 2 else 0)
  [d32 (g 0), w16 flags, w16 (g 3)]

/-- number of interleave targets for an `InterleaveWays` code (cedt.rs:278) -/
def numWays (code : Nat) : Nat :=
  match code with
  | 0 => 1 | 1 => 2 | 2 => 4 | 3 => 8 | 4 => 16 | 8 => 3 | 9 => 6 | 10 => 12 | _ => 0

/-- RQSC resource `[rtype, rflags, idkind, a, b]` + vendor blob (rqsc.rs:176-268) -/
def qosResPayload (t : List Nat) (blob : Bytes) : List Fld :=
  let g (i : Nat) := t.getD i 0
  match g 2 with
  | 0 => [b8 0, d32 (g 3), d32 0, d32 0]
  | 1 => [b8 1, d32 (g 3), d32 0, d32 0, q64 (g 4)]
  | 2 => [b8 2, q64 (g 3), d32 (g 4)]
  | 3 => [b8 3, d32 (g 3), d32 0, d32 0]
  | _ => [b8 (g 3), .raw blob]

/-- `ResourceStructure::new`: `length = 3 + 4 + resource_id.len()` (unchecked here; the
    `fix:` assert `length <= 65535` is in `panics`) -/
def qosResLen (t : List Nat) (blob : Bytes) : Nat := 7 + fieldsLen (qosResPayload t blob)

def qosResFields (t : List Nat) (blob : Bytes) : List Fld :=
  [b8 (t.getD 0 0), b8 0, w16 (qosResLen t blob), w16 (t.getD 1 0), b8 0] ++ qosResPayload t blob

/-- builder state after construction -/
def init (k : Kind) (c : EArgs) : EArgs :=
  let n := c.num
  match k with
  | .gicc =>      -- ctor n=[status]; state [flags,cin,uid,ppv,perf,parked,base,vreg,cbr,maint,rbase,mpidr,pec,ovf,trbe]
    { n := #[(if n 0 = 1 then 1 else if n 0 = 2 then 8 else 0), 0, 0, 0, 0, 0, 0, 0, 0, 0, 0, 0, 0, 0, 0] }
  | .gicmsi => { n := #[0, 0, 0, 0, 0] }            -- [id, base, flags, count, sbase]
  | .mem => { n := #[n 0, n 1, n 2, 0] }             -- [pd, base, len, flags]
  | .gi => { c with n := #[n 0, n 1, n 2, n 3, n 4, n 5, 0] }   -- [pd,htype,seg,bus,dev,fn,flags] b=[hid,uid]
  | .rintcAff => { c with n := #[n 0, 0, 0] }         -- [clock, flags, pd] b=[uid]
  | .loc =>       -- ctor [ltype,dt,mts,ebu,I,T]; s=[initiators, targets, entries]
    { n := #[n 0, n 1, n 2, n 3, n 4, n 5],
      s := [List.replicate (n 4) 0, List.replicate (n 5) 0, List.replicate (n 4 * n 5) 0xFFFF] }
  | .msc =>       -- ctor [pd,size,tot,this,assoc,wp,line]; state [pd,size,attrs] s=[handles]
    { n := #[n 0, n 1, (n 2 ||| (n 3 <<< 4) ||| (n 4 <<< 8) ||| (n 5 <<< 12) ||| (n 6 <<< 16)) % 2 ^ 32], s := [[]] }
  | .proc => { n := #[0, n 0, n 1], s := [[]] }       -- ctor [parent,id]; state [flags,parent,id] s=[resources]
  | .cache => { n := #[0, 0, 0, 0, 0, 0, 0, 0] }      -- [next,size,sets,assoc,attr,line,id,flags]
  | .hart => { n := #[n 0], s := [[n 1]] }            -- ctor [uid, isaHandle]; s=[handles]
  | .cfmws => { n := #[n 0, n 1, n 2, n 3, n 4, n 5, 0], b := #[] }  -- [base,size,arith,gran,ways,qtg,restr] b=targets
  | .cxims => { n := #[n 0], s := [[]] }              -- [gran] s=[bitmaps]
  | .aerrp =>     -- ctor [global,ff,bus,dev,fn]; state [flags,bus,dev,fn,nr,ms,devctl,uem,ues,cem,aercap,rec]
    if n 0 ≠ 0 then { n := #[2, 0, 0, 0, 0, 0, 0, 0, 0, 0, 0, 0] }
    else { n := #[n 1, n 2, n 3, n 4, 0, 0, 0, 0, 0, 0, 0, 0] }
  | .aerdev =>
    if n 0 ≠ 0 then { n := #[2, 0, 0, 0, 0, 0, 0, 0, 0, 0, 0] }
    else { n := #[n 1, n 2, n 3, n 4, 0, 0, 0, 0, 0, 0, 0] }
  | .aerbr =>
    if n 0 ≠ 0 then { n := #[2, 0, 0, 0, 0, 0, 0, 0, 0, 0, 0, 0, 0, 0] }
    else { n := #[n 1, n 2, n 3, n 4, 0, 0, 0, 0, 0, 0, 0, 0, 0, 0] }
  | .ghes =>      -- ctor [id,enabled]; state [id,en,nr,ms,mrl,esbl, gas@6..10, notif@11..19 (Polled, length 28)]
    { n := #[n 0, n 1, 0, 0, 0, 0, 0, 0, 0, 0, 0, 0, 28, 0, 0, 0, 0, 0, 0, 0] }
  | .ghesv2 =>    -- … + gas2@20..24, preserve@25, write@26
    { n := #[n 0, n 1, 0, 0, 0, 0, 0, 0, 0, 0, 0, 0, 28, 0, 0, 0, 0, 0, 0, 0, 0, 0, 0, 0, 0, 0, 0] }
  | .notif => { n := #[n 0, 28, 0, 0, 0, 0, 0, 0, 0] }  -- ctor [type]; state = the 9 values
  | .ges =>       -- ctor [correctable, uncorrectable, severity]; state [status, severity]
    { n := #[(if n 0 = 1 then 2 else if n 0 > 1 then 8 else 0) ||| (if n 1 = 1 then 1 else if n 1 > 1 then 4 else 0), n 2] }
  | _ => c

/-- assertion failures inside constructors (`assert!(device < 32)` etc.) -/
def ctorPanics (k : Kind) (c : EArgs) : Bool :=
  let n := c.num
  match k with
  | .gi => n 1 = 1 && (32 ≤ n 4 || 8 ≤ n 5)
  | .iommu => n 3 ≠ 0 && (32 ≤ n 6 || 8 ≤ n 7)
  | .pcirange => 32 ≤ n 2 || 8 ≤ n 3 || 32 ≤ n 6 || 8 ≤ n 7
  | .pciiommu => 32 ≤ n 2 || 8 ≤ n 3
  | .rdpas => 32 ≤ n 2 || 8 ≤ n 3
  | .aerrp | .aerdev | .aerbr => n 0 = 0 && (32 ≤ n 3 || 8 ≤ n 4)
  | .qosctrl =>   -- ResourceStructure::new asserts length <= 65535; add_resource checks the u16 sum
    let lens := (List.range c.s.length).map fun i => qosResLen (c.s.getD i []) (c.blob i)
    lens.any (· > 65535) || 65535 < 28 + lens.sum
  | _ => false

/-- one builder call; `none` = the call panics -/
def applyOpt (k : Kind) (a : EArgs) (o : Opt) : Option EArgs :=
  let v := o.arg
  match k, o.name with
  | .gicc, "pi" => some ((if v 1 = 0 then a.orNum 0 2 else a).setNum 4 (v 0))
  | .gicc, "mi" => some ((if v 1 = 0 then a.orNum 0 4 else a).setNum 9 (v 0))
  | .gicc, "set" => some (a.setNum (v 0) (v 1))
  | .gicmsi, "set" => some (a.setNum (v 0) (v 1))
  | .gicmsi, "spi" => some (((a.setNum 3 (v 0)).setNum 4 (v 1)).setNum 2 1)
  | .mem, "en" => some (a.orNum 3 1)
  | .mem, "hp" => some (a.orNum 3 2)
  | .mem, "nv" => some (a.orNum 3 4)
  | .gi, "en" => some (a.orNum 6 1)
  | .gi, "arch" => some (a.orNum 6 2)
  | .rintcAff, "en" => some (a.orNum 1 1)
  | .rintcAff, "pd" => some (a.setNum 2 (v 0))
  | .loc, "nst" => some (a.orNum 0 0x20)
  | .loc, "mtsr" => some (a.orNum 0 0x10)
  | .loc, "seti" =>
    if v 0 < (a.s.getD 0 []).length then some { a with s := a.s.set 0 ((a.s.getD 0 []).set (v 0) (v 1)) } else none
  | .loc, "sett" =>
    if v 0 < (a.s.getD 1 []).length then some { a with s := a.s.set 1 ((a.s.getD 1 []).set (v 0) (v 1)) } else none
  | .loc, "sete" =>   -- asserts i < I, j < T; index i*T + j
    if v 0 < a.num 4 ∧ v 1 < a.num 5 then
      some { a with s := a.s.set 2 ((a.s.getD 2 []).set (v 0 * a.num 5 + v 1) (v 2)) }
    else none
  | .msc, "h" => some { a with s := [a.s.getD 0 [] ++ [v 0]] }
  | .proc, "physical" => some (a.orNum 0 1)
  | .proc, "valid" => some (a.orNum 0 2)
  | .proc, "thread" => some (a.orNum 0 4)
  | .proc, "leaf" => some (a.orNum 0 8)
  | .proc, "identical" => some (a.orNum 0 16)
  | .proc, "cache" => some { a with s := [a.s.getD 0 [] ++ [v 0]] }
  | .proc, "set" => some (a.setNum (v 0) (v 1))                      -- direct write of a `pub` field
  | .cache, "next" => some (a.setNum 0 (v 0))
  | .cache, "size" => some ((a.setNum 1 (v 0)).orNum 7 1)
  | .cache, "sets" => some ((a.setNum 2 (v 0)).orNum 7 2)
  | .cache, "assoc" => some ((a.setNum 3 (v 0)).orNum 7 4)
  | .cache, "alloc" => some ((a.orNum 4 (v 0)).orNum 7 8)           -- Read 0, Write 1, Both 2
  | .cache, "ctype" => some ((a.orNum 4 (v 0 * 4)).orNum 7 16)      -- Data 0, Instruction 4, Unified 8
  | .cache, "wp" => some ((a.orNum 4 (v 0 * 16)).orNum 7 32)        -- Writeback 0, Writethrough 16
  | .cache, "line" => some ((a.setNum 5 (v 0)).orNum 7 64)
  | .cache, "id" => some ((a.setNum 6 (v 0)).orNum 7 128)
  | .hart, "cmo" => some { a with s := [a.s.getD 0 [] ++ [v 0]] }
  | .cfmws, "t2" => some (a.orNum 6 1)
  | .cfmws, "t3" => some (a.orNum 6 2)
  | .cfmws, "vol" => some (a.orNum 6 4)
  | .cfmws, "pers" => some (a.orNum 6 8)
  | .cfmws, "fixed" => some (a.orNum 6 16)
  | .cfmws, "target" => some { a with b := a.b.push (leN 4 (v 0)) }
  | .cxims, "map" => some { a with s := [a.s.getD 0 [] ++ [v 0]] }
  | .aerrp, "set" => some (a.setNum (v 0) (v 1))
  | .aerdev, "set" => some (a.setNum (v 0) (v 1))
  | .aerbr, "set" => some (a.setNum (v 0) (v 1))
  | .ghes, "set" => some (a.setNum (v 0) (v 1))
  | .ghesv2, "set" => some (a.setNum (v 0) (v 1))
  | .notif, "set" => some (a.setNum (v 0) (v 1))
  | .ghes, "gas" | .ghesv2, "gas" =>
    some ((((((a.setNum 6 (v 0)).setNum 7 (v 1)).setNum 8 (v 2)).setNum 9 (v 3)).setNum 10 (v 4)))
  | .ghes, "notif" | .ghesv2, "notif" =>   -- NotificationStructure::new(type) + setters: length 28
    some (((((((((a.setNum 11 (v 0)).setNum 12 28).setNum 13 (v 1)).setNum 14 (v 2)).setNum 15 (v 3)).setNum 16 (v 4)).setNum 17 (v 5)).setNum 18 (v 6)).setNum 19 (v 7))
  | .ghesv2, "gas2" =>
    some ((((((a.setNum 20 (v 0)).setNum 21 (v 1)).setNum 22 (v 2)).setNum 23 (v 3)).setNum 24 (v 4)))
  | _, _ => none

/-- the sub-array elements of an entry (resources, wires, mappings, …), each as a field list -/
def fields (k : Kind) (a : EArgs) : List Fld :=
  let n := a.num
  let sub (i : Nat) := a.s.getD i []
  match k with
  -- ── MADT ─────────────────────────────────────────────────────────────────────────────
  | .lapic => [b8 0, b8 8, b8 (n 0), b8 (n 1), d32 (n 2)]                       -- [uid, apic_id, status]
  | .ioapic => [b8 1, b8 12, b8 (n 0), b8 0, d32 (n 1), d32 (n 2)]              -- [id, addr, gsi_base]
  | .gicc => [b8 0xb, b8 82, w16 0, d32 (n 1), d32 (n 2), d32 (n 0), d32 (n 3), d32 (n 4), q64 (n 5),
              q64 (n 6), q64 (n 7), q64 (n 8), d32 (n 9), q64 (n 10), q64 (n 11), b8 (n 12), b8 0,
              w16 (n 13), w16 (n 14)]
  | .gicd => [b8 0xc, b8 24, w16 0, d32 (n 0), q64 (n 1), d32 0, b8 (n 2), .raw [0, 0, 0]]   -- [id, base, version]
  | .gicmsi => [b8 0xd, b8 24, w16 0, d32 (n 0), q64 (n 1), d32 (n 2), w16 (n 3), w16 (n 4)]
  | .gicr => [b8 0xe, b8 16, w16 0, q64 (n 0), d32 (n 1)]                       -- [base, length]
  | .its => [b8 0xf, b8 20, w16 0, d32 (n 0), q64 (n 1), d32 0]                 -- [id, base]
  | .rintc => [b8 0x18, b8 36, b8 1, b8 0, d32 (n 0), q64 (n 1), d32 (n 2), d32 (n 3), q64 (n 4), d32 (n 5)]
  | .imsic => [b8 0x19, b8 16, b8 1, .raw [0, 0, 0, 0, 0], w16 (n 0), w16 (n 1), b8 (n 2), b8 (n 3), b8 (n 4), b8 (n 5)]
  | .aplic =>   -- n=[id, idcs, gsi_base, addr, size, sources] b=[hardware_id]
    [b8 0x1a, b8 36, b8 1, b8 (n 0), d32 0, .raw (a.blob 0), w16 (n 1), w16 (n 5), d32 (n 2), q64 (n 3), d32 (n 4)]
  | .plic =>    -- n=[id, sources, max_priority, size, addr, gsi_base] b=[hardware_id]
    [b8 0x1b, b8 36, b8 1, b8 (n 0), .raw (a.blob 0), w16 (n 1), w16 (n 2), d32 0, d32 (n 3), q64 (n 4), d32 (n 5)]
  -- ── SRAT ─────────────────────────────────────────────────────────────────────────────
  | .mem => [b8 1, b8 40, d32 (n 0), w16 0, d32 (n 1 % 2 ^ 32), d32 (n 1 / 2 ^ 32 % 2 ^ 32),
             d32 (n 2 % 2 ^ 32), d32 (n 2 / 2 ^ 32 % 2 ^ 32), d32 0, d32 (n 3), q64 0]
  | .gi =>
    [b8 5, b8 32, b8 0, b8 (if n 1 = 1 then 1 else 0), d32 (n 0)] ++
    (if n 1 = 1 then [w16 (n 2), b8 (n 3), b8 (((n 4 <<< 3) ||| n 5) % 256), d32 0, q64 0]
     else [.raw (a.blob 0), .raw (a.blob 1), d32 0]) ++ [d32 (n 6), d32 0]
  | .rintcAff => [b8 7, b8 20, w16 0, d32 (n 2), .raw (a.blob 0), d32 (n 1), d32 (n 0)]
  -- ── HMAT ─────────────────────────────────────────────────────────────────────────────
  | .mpd => [w16 0, w16 0, d32 40, w16 1, w16 0, d32 (n 0), d32 (n 1), .raw (zeros 20)]   -- [initiator, memory]
  | .loc =>
    [w16 1, w16 0, d32 (4 * (sub 0).length + 4 * (sub 1).length + 2 * (sub 2).length + 32),
     b8 (n 0), b8 (n 1), b8 (n 2), b8 0, d32 (sub 0).length, d32 (sub 1).length, d32 0, q64 (n 3)] ++
    (sub 0).map d32 ++ (sub 1).map d32 ++ (sub 2).map w16
  | .msc =>
    [w16 2, w16 0, d32 (32 + 2 * (sub 0).length), d32 (n 0), d32 0, q64 (n 1), d32 (n 2), w16 0,
     w16 (sub 0).length] ++ (sub 0).map w16
  -- ── PPTT ─────────────────────────────────────────────────────────────────────────────
  | .proc =>
    [b8 0, b8 (20 + 4 * (sub 0).length), w16 0, d32 (n 0), d32 (n 1), d32 (n 2), d32 (sub 0).length] ++
    (sub 0).map d32
  | .cache => [b8 1, b8 28, w16 0, d32 (n 7), d32 (n 0), d32 (n 1), d32 (n 2), b8 (n 3), b8 (n 4), w16 (n 5), d32 (n 6)]
  -- ── RHCT ─────────────────────────────────────────────────────────────────────────────
  | .isa =>     -- b=[string]
    let l := (a.blob 0).length
    let len := if (8 + l + 1) % 2 = 0 then 8 + l + 1 else 8 + l + 2
    [w16 0, w16 len, w16 1, w16 (l % 65536 + 1), .raw (a.blob 0), b8 0] ++
    (if (l % 65536 + 1) % 65536 % 2 = 1 then [b8 0] else [])
  | .cmo => [w16 1, w16 10, w16 1, b8 0, b8 (n 0), b8 (n 1), b8 (n 2)]
  | .mmu => [w16 2, w16 8, w16 1, b8 0, b8 (n 0)]
  | .hart => [w16 65535, w16 (12 + 4 * (sub 0).length), w16 1, w16 (sub 0).length, d32 (n 0)] ++ (sub 0).map d32
  -- ── RIMT ─────────────────────────────────────────────────────────────────────────────
  | .iommu =>   -- n=[id,hasBase,base,hasPci,seg,bus,dev,fn,hasPd,pd,hasWires] s=wires
    let w := if n 10 ≠ 0 then a.s.length else 0
    [b8 0, b8 1, w16 (32 + 8 * w), w16 (n 0), w16 0, q64 (if n 1 ≠ 0 then n 2 else 0),
     d32 ((if n 3 ≠ 0 then 1 else 0) ||| (if n 8 ≠ 0 then 2 else 0)),
     w16 (if n 3 ≠ 0 then n 4 else 0), w16 (if n 3 ≠ 0 then bdf (n 5) (n 6) (n 7) else 0),
     d32 (if n 8 ≠ 0 then n 9 else 0), w16 w, w16 32] ++
    (if n 10 ≠ 0 then a.s.flatMap wireFields else [])
  | .pcierc =>  -- n=[id,seg,ats,pri,hasMaps] s=mappings
    let m := if n 4 ≠ 0 then a.s.length else 0
    [b8 1, b8 1, w16 (16 + 20 * m), w16 (n 0), w16 (n 1),
     d32 ((if n 2 ≠ 0 then 1 else 0) ||| (if n 3 ≠ 0 then 2 else 0)), w16 16, w16 m] ++
    (if n 4 ≠ 0 then a.s.flatMap idmapFields else [])
  | .platform =>  -- n=[id,hasMaps] b=[name] s=mappings
    let m := if n 1 ≠ 0 then a.s.length else 0
    let off := 12 + (a.blob 0).length + 1
    [b8 2, b8 1, w16 (off + 20 * m), w16 (n 0), w16 0, w16 off, w16 m, .raw (a.blob 0), b8 0] ++
    (if n 1 ≠ 0 then a.s.flatMap idmapFields else [])
  | .idmap => idmapFields a.n.toList
  | .wire => wireFields a.n.toList
  -- ── VIOT ─────────────────────────────────────────────────────────────────────────────
  | .pcirange =>  -- n=[fseg,fbus,fdev,ffn, lseg,lbus,ldev,lfn, translation_offset]
    [b8 1, b8 0, w16 24, d32 (bdf (n 1) (n 2) (n 3)), w16 (n 0), w16 (n 4), w16 (bdf (n 1) (n 2) (n 3)),
     w16 (bdf (n 5) (n 6) (n 7)), w16 (n 8), w16 0, d32 0]
  | .mmioep => [b8 2, b8 0, w16 24, d32 (n 0), q64 (n 1), w16 (n 2), w16 0, d32 0]   -- [endpoint, base, offset]
  | .pciiommu => [b8 3, b8 0, w16 16, w16 (n 0), w16 (bdf (n 1) (n 2) (n 3)), q64 0]  -- [seg,bus,dev,fn]
  | .mmioiommu => [b8 4, b8 0, w16 16, d32 0, q64 (n 0)]
  -- ── CEDT ─────────────────────────────────────────────────────────────────────────────
  | .chbs =>    -- [uid, version, base]
    [b8 0, b8 0, w16 32, d32 (n 0), d32 (n 1), d32 0, q64 (n 2), q64 (if n 1 = 0 then 0x2000 else 0x10000)]
  | .cfmws =>
    [b8 1, b8 0, w16 (0x24 + 4 * numWays (n 4)), d32 0, q64 (n 0), q64 (n 1), b8 (n 4), b8 (n 2), w16 0,
     d32 (n 3), w16 (n 6), w16 (n 5)] ++ a.b.toList.map .raw
  | .cxims =>
    [b8 2, b8 0, w16 (8 + 8 * (sub 0).length), w16 0, b8 (n 0), b8 (sub 0).length] ++ (sub 0).map q64
  | .rdpas =>   -- [seg,bus,dev,fn,protocol,base]
    [b8 3, b8 0, w16 16, w16 (n 0), w16 (bdf (n 1) (n 2) (n 3)), b8 (n 4), q64 (n 5)]
  -- ── HEST ─────────────────────────────────────────────────────────────────────────────
  | .aerrp =>
    [w16 6, w16 0, w16 0, b8 (n 0), b8 0, d32 (n 4), d32 (n 5), d32 (n 1), w16 (n 2), w16 (n 3), w16 (n 6),
     w16 0, d32 (n 7), d32 (n 8), d32 (n 9), d32 (n 10), d32 (n 11)]
  | .aerdev =>
    [w16 7, w16 0, w16 0, b8 (n 0), b8 0, d32 (n 4), d32 (n 5), d32 (n 1), w16 (n 2), w16 (n 3), w16 (n 6),
     w16 0, d32 (n 7), d32 (n 8), d32 (n 9), d32 (n 10)]
  | .aerbr =>
    [w16 8, w16 0, w16 0, b8 (n 0), b8 0, d32 (n 4), d32 (n 5), d32 (n 1), w16 (n 2), w16 (n 3), w16 (n 6),
     w16 0, d32 (n 7), d32 (n 8), d32 (n 9), d32 (n 10), d32 (n 11), d32 (n 12), d32 (n 13)]
  | .ghes =>
    [w16 9, w16 (n 0), w16 0xffff, b8 0, b8 (n 1), d32 (n 2), d32 (n 3), d32 (n 4)] ++
    gasFields (n 6) (n 7) (n 8) (n 9) (n 10) ++ notifFields (fun i => n (11 + i)) ++ [d32 (n 5)]
  | .ghesv2 =>
    [w16 10, w16 (n 0), w16 0xffff, b8 0, b8 (n 1), d32 (n 2), d32 (n 3), d32 (n 4)] ++
    gasFields (n 6) (n 7) (n 8) (n 9) (n 10) ++ notifFields (fun i => n (11 + i)) ++ [d32 (n 5)] ++
    gasFields (n 20) (n 21) (n 22) (n 23) (n 24) ++ [q64 (n 25), q64 (n 26)]
  | .notif => notifFields n
  | .ges => [d32 (n 0), d32 0, d32 0, d32 0, d32 (n 1)]
  | .ged =>     -- n=[section_type, severity, revision, validation, flags, error_data_length] b=[fru_id, fru_text, timestamp, data…]
    [w16 (n 0), d32 (n 1), w16 (n 2), b8 (n 3), b8 (n 4), d32 (n 5)] ++ a.b.toList.map .raw
  -- ── MCFG / XSDT ──────────────────────────────────────────────────────────────────────
  | .ecam => [q64 (n 0), w16 (n 1), b8 (n 2), b8 (n 3), .raw [0, 0, 0, 0]]       -- [base, segment, start, end]
  | .xsdtEntry => [q64 (n 0)]
  -- ── RQSC ─────────────────────────────────────────────────────────────────────────────
  | .qosctrl =>  -- n=[type, space,width,off,access,addr, rcid, mcid, flags] s=resources b=vendor blobs
    let lens := (List.range a.s.length).map fun i => qosResLen (a.s.getD i []) (a.blob i)
    [b8 (n 0), b8 0, w16 (28 + lens.sum)] ++ gasFields (n 1) (n 2) (n 3) (n 4) (n 5) ++
    [d32 (n 6), d32 (n 7), w16 (n 8), w16 a.s.length] ++
    (List.range a.s.length).flatMap fun i => qosResFields (a.s.getD i []) (a.blob i)
  | .gas => gasFields (n 0) (n 1) (n 2) (n 3) (n 4)

/-- asserts inside serialisation (`to_aml_bytes`), including the `fix:` refusals -/
def panics (k : Kind) (a : EArgs) : Bool :=
  let sub (i : Nat) := a.s.getD i []
  match k with
  | .proc => 255 < 20 + 4 * (sub 0).length
  | .cxims => 255 < (sub 0).length
  | .msc => 65535 < (sub 0).length
  | .cfmws => numWays (a.num 4) ≠ a.b.size
  | .isa => 65535 < (if (8 + (a.blob 0).length + 1) % 2 = 0 then 8 + (a.blob 0).length + 1 else 8 + (a.blob 0).length + 2)
  | .hart => 65535 < 12 + 4 * (sub 0).length
  | .iommu => 65535 < 32 + 8 * (if a.num 10 ≠ 0 then a.s.length else 0)
  | .pcierc => 65535 < 16 + 20 * (if a.num 4 ≠ 0 then a.s.length else 0)
  | .platform => 65535 < 12 + (a.blob 0).length + 1 + 20 * (if a.num 1 ≠ 0 then a.s.length else 0)
  | _ => false

/-- the Rust `len()` helper a table uses for its Length field and handle offsets.  For the
    `IntoBytes` kinds added through `add_structure` it is `as_bytes().len()`. -/
def lenOf (k : Kind) (a : EArgs) : Nat :=
  match k with
  | .mem => 40
  | .gi => 32
  | .chbs => 32
  | .rdpas => 16
  | .cache => 28
  | .cmo => 10
  | .mmu => 8
  | .pcirange | .mmioep => 24
  | .pciiommu | .mmioiommu => 16
  | _ => fieldsLen (fields k a)

end Acpi
