/-
  Acpi.Tables.Build — a whole builder program for one entry: constructor, then a sequence of
  builder calls, then serialisation.  `buildEntry` is what the Rust program
  `Kind::new(ctor…).opt1(…).opt2(…)` followed by `to_aml_bytes` does; an `error` is a panic.
-/
import Acpi.Tables.Entries
namespace Acpi

def applyOpts (k : Kind) : EArgs → List Opt → Except String EArgs
  | a, [] => .ok a
  | a, o :: os =>
    match applyOpt k a o with
    | some a' => applyOpts k a' os
    | none => .error s!"opt:{o.name}"

/-- constructor + builder calls + serialisation asserts: the final builder state, or the
    reason the Rust panics -/
def buildEntry (k : Kind) (ctor : EArgs) (opts : List Opt) : Except String EArgs :=
  if ctorPanics k ctor then .error "ctor" else
  match applyOpts k (init k ctor) opts with
  | .error e => .error e
  | .ok a => if panics k a then .error "refused" else .ok a

/-- the bytes the entry serialises to -/
def entryBytes (k : Kind) (a : EArgs) : Bytes := encFields (fields k a)

end Acpi
