/-
  Acpi.Tables.Linked — *linked* whole-table programs: like the `List AddOp` programs of
  Acpi.Tables.Whole, but a reference position of a later entry (PPTT parent / private resource /
  next-level cache, RHCT hart-info offsets, VIOT translation offset, RIMT id-mapping destination)
  may hold `ref j` = "the handle returned by the j-th add call of this very program" instead of
  a literal number.  This is the layer that says where the numbers a program puts into reference
  fields come from: the Rust passes the `*Handle` value an earlier `add_*` returned.

    RefPos          names a reference position of an entry
    LAddOp          an add call with symbolic references: `refs = [(pos, j), …]`
    link hs l       the concrete add call: `hs[j]` written into each named position of `l.op`
    runLinked       the program run: the i-th call is linked against the handles returned so far
                    (a `ref j` with `j ≥ i` is ill-formed → `none`), built, added with the same
                    engine step as `runTable`, and its handle appended
    refsWellTyped   the typing discipline the Rust handle types enforce: a reference names an
                    earlier call of the kind the position expects, and the position exists

  Nothing here looks at the specification side (Acpi/Spec); `fieldOffset`/`width` are the places
  where the main theorem (Props/C05/Linked.lean) reads the references back from the final image.
-/
import Acpi.Tables.Whole
namespace Acpi

/-- a reference position of an entry -/
inductive RefPos where
  /-- PPTT processor node: parent (`ctor.num 0`; the literal 0 means "no parent") -/
  | procParent
  /-- PPTT processor node: i-th private resource = value of the i-th `cache` option -/
  | procCache (i : Nat)
  /-- PPTT cache node: next level of cache = value of the last `next` option -/
  | cacheNext
  /-- RHCT hart info node: first offset = the ISA string node (`ctor.num 1`) -/
  | hartIsa
  /-- RHCT hart info node: (i+1)-th offset = value of the i-th `cmo` option -/
  | hartCmo (i : Nat)
  /-- VIOT PCI range (`ctor.num 8`) / MMIO endpoint (`ctor.num 2`): translation offset -/
  | viotTrans
  /-- RIMT PCIe root complex / platform device: destination IOMMU offset of the i-th id mapping
      (`(ctor.s[i])[3]`) -/
  | idmapDst (i : Nat)
deriving Repr, DecidableEq, Inhabited

/-- an add call whose reference positions listed in `refs` hold "the handle of call j" -/
structure LAddOp where
  op : AddOp
  refs : List (RefPos × Nat) := []
deriving Inhabited

/-! ### reading and writing a reference position of a (concrete) add call -/

/-- replace the first argument of a builder call -/
def Opt.setArg0 (o : Opt) (x : Nat) : Opt := { o with v := x :: o.v.drop 1 }

/-- first arguments of the calls of option `nm`, in program order -/
def optVals (nm : String) (opts : List Opt) : List Nat := (opts.filter (·.name = nm)).map (·.arg 0)

/-- first argument of the last call of option `nm` -/
def lastOptVal (nm : String) (opts : List Opt) : Option Nat :=
  ((opts.filter (·.name = nm)).getLast?).map (·.arg 0)

/-- overwrite the first argument of the i-th call of option `nm` -/
def setNthNamed (nm : String) (x : Nat) : Nat → List Opt → List Opt
  | _, [] => []
  | i, o :: os =>
    if o.name = nm then
      match i with
      | 0 => o.setArg0 x :: os
      | i + 1 => o :: setNthNamed nm x i os
    else o :: setNthNamed nm x i os

/-- overwrite the first argument of the last call of option `nm` -/
def setLastNamed (nm : String) (x : Nat) : List Opt → List Opt
  | [] => []
  | o :: os =>
    if o.name = nm ∧ os.all (fun o' => o'.name ≠ nm) then o.setArg0 x :: os
    else o :: setLastNamed nm x os

/-- overwrite element 3 (destination IOMMU offset) of the i-th id-mapping tuple -/
def setDst (i x : Nat) (s : List (List Nat)) : List (List Nat) := s.set i ((s.getD i []).set 3 x)

/-- the number a concrete add call holds at a reference position; `none`: the call has no such
    position (wrong kind, fewer options/mappings, or the mappings are not emitted) -/
def getRef (pos : RefPos) (op : AddOp) : Option Nat :=
  match pos with
  | .procParent => if op.k = .proc ∧ 0 < op.ctor.n.size then some (op.ctor.num 0) else none
  | .procCache i => if op.k = .proc then (optVals "cache" op.opts)[i]? else none
  | .cacheNext => if op.k = .cache then lastOptVal "next" op.opts else none
  | .hartIsa => if op.k = .hart ∧ 1 < op.ctor.n.size then some (op.ctor.num 1) else none
  | .hartCmo i => if op.k = .hart then (optVals "cmo" op.opts)[i]? else none
  | .viotTrans =>
    if op.k = .pcirange ∧ 8 < op.ctor.n.size then some (op.ctor.num 8)
    else if op.k = .mmioep ∧ 2 < op.ctor.n.size then some (op.ctor.num 2) else none
  | .idmapDst i =>
    if (op.k = .pcierc ∧ op.ctor.num 4 ≠ 0) ∨ (op.k = .platform ∧ op.ctor.num 1 ≠ 0) then
      (op.ctor.s[i]?).bind (·[3]?)
    else none

/-- write `x` at a reference position (nothing happens if the call's kind has no such position) -/
def writeRef (pos : RefPos) (x : Nat) (op : AddOp) : AddOp :=
  match pos with
  | .procParent => if op.k = .proc then { op with ctor := op.ctor.setNum 0 x } else op
  | .procCache i => if op.k = .proc then { op with opts := setNthNamed "cache" x i op.opts } else op
  | .cacheNext => if op.k = .cache then { op with opts := setLastNamed "next" x op.opts } else op
  | .hartIsa => if op.k = .hart then { op with ctor := op.ctor.setNum 1 x } else op
  | .hartCmo i => if op.k = .hart then { op with opts := setNthNamed "cmo" x i op.opts } else op
  | .viotTrans =>
    if op.k = .pcirange then { op with ctor := op.ctor.setNum 8 x }
    else if op.k = .mmioep then { op with ctor := op.ctor.setNum 2 x } else op
  | .idmapDst i =>
    if op.k = .pcierc ∨ op.k = .platform then
      { op with ctor := { op.ctor with s := setDst i x op.ctor.s } }
    else op

/-- the concrete add call: the handle of call `j` written into every position that refers to it -/
def link (hs : List Nat) (l : LAddOp) : AddOp :=
  l.refs.foldl (fun op r => writeRef r.1 (hs.getD r.2 0) op) l.op

/-! ### where the reference sits in the serialised entry, and what it must point to -/

/-- byte offset of the reference field from the start of the entry -/
def fieldOffset (pos : RefPos) (op : AddOp) : Nat :=
  match pos with
  | .procParent => 8
  | .procCache i => 20 + 4 * i
  | .cacheNext => 8
  | .hartIsa => 12
  | .hartCmo i => 16 + 4 * i
  | .viotTrans => 16
  | .idmapDst i => (if op.k = .platform then 13 + (op.ctor.blob 0).length else 16) + 20 * i + 12

/-- width of the reference field in bytes (all little-endian) -/
def RefPos.width : RefPos → Nat
  | .viotTrans => 2
  | _ => 4

/-- the kinds of node a reference at that position may name (the Rust handle type) -/
def targetKinds : RefPos → List Kind
  | .procParent => [.proc]
  | .procCache _ => [.cache]
  | .cacheNext => [.cache]
  | .hartIsa => [.isa]
  | .hartCmo _ => [.cmo]
  | .viotTrans => [.pciiommu, .mmioiommu]
  | .idmapDst _ => [.iommu]

/-! ### the run -/

/-- process the remaining calls; `done` = handles returned so far.  Returns the handles of the
    remaining calls, the final state, and the concrete calls that were executed. -/
def runLinkedFrom : Tbl → List Nat → List LAddOp → Option (List Nat × Tbl × List AddOp)
  | t, _, [] => some ([], t, [])
  | t, done, l :: ls =>
    if l.refs.all (fun r => r.2 < done.length) then
      match buildEntry (link done l).k (link done l).ctor (link done l).opts with
      | .error _ => none
      | .ok a =>
        match t.add (rawOf ((link done l).k, a)).1 (rawOf ((link done l).k, a)).2
            (sum8 (rawOf ((link done l).k, a)).1) with
        | none => none
        | some (h, t') =>
          (runLinkedFrom t' (done ++ [h]) ls).map fun r => (h :: r.1, r.2.1, link done l :: r.2.2)
    else none

/-- the whole linked program: all handles, the final table, and the concrete program executed;
    `none` = ill-formed (forward reference), a call that does not exist on that table, a second
    IMSIC, or a panic of an entry builder or of the table's add -/
def runLinked (T : TableId) (o : Oem) (ls : List LAddOp) : Option (List Nat × Tbl × List AddOp) :=
  if ls.all (fun l => T.accepts l.op.k) && imsicOnce (ls.map (·.op)) then
    runLinkedFrom (Tbl.new T.cfg o) [] ls
  else none

/-! ### the typing discipline of the handle types -/

/-- one reference `(pos, j)` of call `i`: `j` is an earlier call, of a kind `pos` may name; the
    position exists in call `i`; and a processor node with a parent reference is given no raw
    field write (option "set"), which could overwrite the parent field -/
def refOk (ls : List LAddOp) (i : Nat) (l : LAddOp) (r : RefPos × Nat) : Bool :=
  decide (r.2 < i) &&
  (match ls[r.2]? with
   | some tgt => (targetKinds r.1).contains tgt.op.k
   | none => false) &&
  (getRef r.1 l.op).isSome &&
  (r.1 != .procParent || l.op.opts.all (fun o => o.name != "set"))

/-- all references of call `i` are fine and no position is named twice -/
def callOk (ls : List LAddOp) (i : Nat) (l : LAddOp) : Bool :=
  l.refs.all (refOk ls i l) && decide ((l.refs.map (·.1)).Nodup)

def refsWellTyped (ls : List LAddOp) : Bool :=
  (List.range ls.length).all fun i =>
    match ls[i]? with
    | some l => callOk ls i l
    | none => true

end Acpi
