/-
  Acpi.Basic — bytes, little-endian encoders, the 8-bit sum.

  Model conventions (DESIGN.md §3): bytes are `UInt8`, images are `List UInt8`.
  `u16le/u32le/u64le` mirror Rust's `to_le_bytes` (and zerocopy's `U16/U32/U64<LE>`
  in a `repr(C, packed)` struct); `leN w n` is the specification-side description
  "the number `n`, little-endian, in `w` bytes", written arithmetically.
-/
namespace Acpi

abbrev Bytes := List UInt8

/-- `u16::to_le_bytes` -/
def u16le (x : UInt16) : Bytes := [x.toUInt8, (x >>> 8).toUInt8]

/-- `u32::to_le_bytes` -/
def u32le (x : UInt32) : Bytes :=
  [x.toUInt8, (x >>> 8).toUInt8, (x >>> 16).toUInt8, (x >>> 24).toUInt8]

/-- `u64::to_le_bytes` -/
def u64le (x : UInt64) : Bytes :=
  [x.toUInt8, (x >>> 8).toUInt8, (x >>> 16).toUInt8, (x >>> 24).toUInt8,
   (x >>> 32).toUInt8, (x >>> 40).toUInt8, (x >>> 48).toUInt8, (x >>> 56).toUInt8]

/-- Specification side: `n` little-endian in `w` bytes (high part dropped). -/
def leN : Nat → Nat → Bytes
  | 0, _ => []
  | w + 1, n => UInt8.ofNat (n % 256) :: leN w (n / 256)

/-- Specification side: value of a little-endian byte string. -/
def fromLE : Bytes → Nat
  | [] => 0
  | b :: bs => b.toNat + 256 * fromLE bs

/-- Read `w` bytes little-endian at offset `off`; `none` when out of range. -/
def readAt (img : Bytes) (off w : Nat) : Option Nat :=
  if off + w ≤ img.length then some (fromLE ((img.drop off).take w)) else none

/-- The sum modulo 256 of a byte string (Rust: `fold(0u8, wrapping_add)`). -/
def sum8 (bs : Bytes) : UInt8 := bs.foldl (· + ·) 0

/-- `generate_checksum` of lib.rs: `(255 - sum).wrapping_add(1)`. -/
def genChecksum (bs : Bytes) : UInt8 := (255 - sum8 bs) + 1

/-- `n` zero bytes. -/
def zeros (n : Nat) : Bytes := List.replicate n 0

/-- overwrite `bs.length` bytes of `img` at `off` (caller guarantees range). -/
def patch (img : Bytes) (off : Nat) (bs : Bytes) : Bytes :=
  img.take off ++ bs ++ img.drop (off + bs.length)

end Acpi
