/-
  Acpi.Checksum — model of `pub struct Checksum` (src/lib.rs:119-164) and of
  `generate_checksum`, `u8sum`.  One model function per Rust method, same arithmetic
  (`wrapping_add`/`wrapping_sub` are `UInt8` `+`/`-`).
-/
import Acpi.Basic
import Acpi.Sink
namespace Acpi

/-- `Checksum { value: u8 }` -/
structure Cks where
  value : UInt8 := 0
deriving Repr, DecidableEq, Inhabited

namespace Cks

/-- `Checksum::append`: fold `wrapping_add` over the slice. -/
def append (c : Cks) (data : Bytes) : Cks := ⟨data.foldl (· + ·) c.value⟩
/-- `Checksum::delete`: fold `wrapping_sub` over the slice. -/
def delete (c : Cks) (data : Bytes) : Cks := ⟨data.foldl (· - ·) c.value⟩
/-- `Checksum::add` -/
def add (c : Cks) (b : UInt8) : Cks := ⟨c.value + b⟩
/-- `Checksum::sub` -/
def sub (c : Cks) (b : UInt8) : Cks := ⟨c.value - b⟩
/-- `Checksum::raw_value` -/
def raw (c : Cks) : UInt8 := c.value
/-- `Checksum::value`: `(255 - self.value).wrapping_add(1)` -/
def cksum (c : Cks) : UInt8 := (255 - c.value) + 1

/-- `impl AmlSink for Checksum`: only `byte` is overridden (→ `add`); `word/dword/qword`
    go through the trait defaults to `vec`, and `vec` to `byte` per element. -/
def sink : Sink Cks := Sink.ofByte add

/-- One operation of the public API, as driven by the correspondence check. -/
inductive Op where
  | add (b : UInt8) | sub (b : UInt8) | append (bs : Bytes) | delete (bs : Bytes)
  | sink (c : SinkCall)
deriving Repr, Inhabited

def step (c : Cks) : Op → Cks
  | .add b => c.add b
  | .sub b => c.sub b
  | .append bs => c.append bs
  | .delete bs => c.delete bs
  | .sink k => Sink.feed1 sink c k

def run (ops : List Op) : Cks := ops.foldl step {}

end Cks
end Acpi
