/-
  Acpi.Spec.Sdt — the reference machine for C13: a plain byte vector with a
  self-maintaining header.  Independent of the model (Acpi/Sdt.lean): one pointwise
  overwrite primitive `put`, the arithmetic encoder `leN`, and `sum8`.

    append bs   : v ++ bs, then bytes 4..8 := the new total length (LE, 32 bit)
    write off bs: overwrite in place when `off + |bs| ≤ |v|`, else refused
    push bs     : bytes arriving through the sink interface: one append of all of them;
                  pushing nothing is not an operation
    touch       : nothing but the checksum
  and after every accepted operation byte 9 := the value that makes the image sum to 0.
-/
import Acpi.Basic
namespace Acpi.Spec.Sdt
open Acpi

/-- `v` with the bytes of `bs` at positions `off, off+1, …` (positions beyond `v` dropped). -/
def put (v : Bytes) (off : Nat) (bs : Bytes) : Bytes :=
  v.mapIdx fun i x => if off ≤ i then bs.getD (i - off) x else x

/-- byte 9 := minus the sum of all the other bytes. -/
def fixSum (v : Bytes) : Bytes :=
  let z := put v 9 [0]
  put z 9 [0 - sum8 z]

inductive Act where
  | append (bs : Bytes)
  | write (off : Nat) (bs : Bytes)
  | push (bs : Bytes)
  | touch
deriving Repr, DecidableEq, Inhabited

def append (v bs : Bytes) : Bytes :=
  fixSum (put (v ++ bs) 4 (leN 4 (v.length + bs.length)))

/-- bytes arriving through the sink interface: one append; nothing pushed, nothing done -/
def push (v bs : Bytes) : Bytes := if bs = [] then v else append v bs

/-- `none` = refused. -/
def step (v : Bytes) : Act → Option Bytes
  | .append bs => some (append v bs)
  | .write off bs => if off + bs.length ≤ v.length then some (fixSum (put v off bs)) else none
  | .push bs => some (push v bs)
  | .touch => some (fixSum v)

/-- Creation: `length` zero bytes with the 36-byte header laid over them; refused below 36. -/
def create (sig : Bytes) (length : Nat) (rev : UInt8) (oemId oemTable : Bytes) (oemRev : Nat) :
    Option Bytes :=
  if length < 36 then none else
  some (fixSum (put (List.replicate length 0) 0
    (sig ++ leN 4 length ++ [rev, 0] ++ oemId ++ oemTable ++ leN 4 oemRev
      ++ [0x52, 0x56, 0x41, 0x54] ++ [0, 0, 0, 1])))

/-- Final contents; a refused operation leaves the vector as it was. -/
def run (v : Bytes) (acts : List Act) : Bytes :=
  acts.foldl (fun v a => (step v a).getD v) v

/-- Observation after each operation: refused?, contents. -/
def trace (v : Bytes) : List Act → List (Bool × Bytes)
  | [] => []
  | a :: as =>
    match step v a with
    | some v' => (false, v') :: trace v' as
    | none => (true, v) :: trace v as

/-! The same history on a vector nobody maintains: appends concatenate, writes overwrite,
    nothing else.  Used to state that outside the managed positions (Length 4..8, checksum 9)
    the table *is* that vector. -/

def plainStep (v : Bytes) : Act → Option Bytes
  | .append bs => some (v ++ bs)
  | .write off bs => if off + bs.length ≤ v.length then some (put v off bs) else none
  | .push bs => some (v ++ bs)
  | .touch => some v

def plainRun (v : Bytes) (acts : List Act) : Bytes :=
  acts.foldl (fun v a => (plainStep v a).getD v) v

/-- equal length, equal bytes everywhere except at the managed positions -/
def agree (a b : Bytes) : Prop :=
  a.length = b.length ∧ ∀ i : Nat, ¬ ((4 ≤ i ∧ i < 8) ∨ i = 9) → a[i]? = b[i]?

end Acpi.Spec.Sdt
