/-
  Acpi.Spec.Counts — the second sentence of C03 for single entries: every field that summarises
  a sub-array inside one entry (element counts, array offsets, string lengths) equals what the
  entry's own length implies.  Evaluated by the driver on every entry as the implementation
  serialised it; Props/C03/Counts.lean proves it of the model's entries.
-/
import Acpi.Tables.Entries
import Acpi.Spec.Walk
namespace Acpi.Spec
open Acpi

/-- per-entry sub-count oracles (C03, second sentence): element counts, array offsets, string
    lengths inside one entry equal what its own length implies -/
def entryCountsOracle (k : Kind) (raw : Bytes) : Option String :=
  let rd (o w : Nat) : Nat := (readAt raw o w).getD 0
  let len := raw.length
  match k with
  | .proc => if len < 20 ∨ (len - 20) % 4 ≠ 0 ∨ rd 16 4 ≠ (len - 20) / 4 then some "resource count" else none
  | .hart => if len < 12 ∨ (len - 12) % 4 ≠ 0 ∨ rd 6 2 ≠ (len - 12) / 4 then some "offset count" else none
  | .isa =>
    let sl := rd 6 2
    if sl = 0 ∨ len < 8 + sl then some "string length beyond node"
    else if raw.getD (8 + sl - 1) 1 ≠ 0 then some "string not NUL-terminated at its announced length"
    else if len ≠ (if (8 + sl) % 2 = 0 then 8 + sl else 8 + sl + 1) then some "node length is not 8 + string length rounded up to even"
    else if ((raw.drop 8).take (sl - 1)).any (· = 0) then some "NUL inside the string" else none
  | .iommu => if len < 32 ∨ (len - 32) % 8 ≠ 0 ∨ rd 28 2 ≠ (len - 32) / 8 ∨ rd 30 2 ≠ 32 then some "wire count/offset" else none
  | .pcierc => if len < 16 ∨ (len - 16) % 20 ≠ 0 ∨ rd 14 2 ≠ (len - 16) / 20 ∨ rd 12 2 ≠ 16 then some "mapping count/offset" else none
  | .platform =>
    let off := rd 8 2; let cnt := rd 10 2
    if off < 13 ∨ off + 20 * cnt ≠ len then some "mapping offset/count"
    else if raw.getD (off - 1) 1 ≠ 0 then some "name not NUL-terminated" else none
  | .msc => if len < 32 ∨ (len - 32) % 2 ≠ 0 ∨ rd 30 2 ≠ (len - 32) / 2 then some "SMBIOS handle count" else none
  | .loc => if len ≠ 32 + 4 * rd 12 4 + 4 * rd 16 4 + 2 * (rd 12 4 * rd 16 4) then some "initiator/target counts" else none
  | .cxims => if len < 8 ∨ (len - 8) % 8 ≠ 0 ∨ rd 7 1 ≠ (len - 8) / 8 then some "bitmap count" else none
  | .cfmws => if len ≠ 36 + 4 * numWays (rd 24 1) then some "interleave target count" else none
  | .qosctrl =>
    match Spec.walk .t8l16 len (raw.drop 28) with
    | some rs => if rs.length = rd 26 2 then none else some "resource count"
    | none => some "resources do not tile the controller"
  | _ => none

end Acpi.Spec
