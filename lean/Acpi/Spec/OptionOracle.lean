/-
  Acpi.Spec.OptionOracle — the C11 oracle on one structure built with option calls, given four
  byte strings of equal length: the reference encoding with the options (`ref`) and without them
  (`ref0`), and the implementation's bytes with (`raw`) and without (`base`) them.
    own field : where the two references differ (bytes the invoked options govern), the
                implementation must hold the reference value;
    frame     : everywhere else the implementation's bytes must be those of its own option-free
                build ("invoking an option changes nothing outside the fields it governs").
  Each returns the first offending offset.  Props/C11/Oracle.lean proves both are `none` for the
  model's encoders.
-/
import Acpi.Basic
namespace Acpi.Spec
open Acpi

def optionOwnViolation (ref ref0 raw : Bytes) : Option Nat :=
  (List.range raw.length).find? fun p => ref.getD p 0 ≠ ref0.getD p 0 ∧ raw.getD p 0 ≠ ref.getD p 0

def optionFrameViolation (ref ref0 raw base : Bytes) : Option Nat :=
  (List.range raw.length).find? fun p => ref.getD p 0 = ref0.getD p 0 ∧ raw.getD p 0 ≠ base.getD p 0

end Acpi.Spec
