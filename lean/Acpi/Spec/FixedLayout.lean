/-
  Spec side: reference layouts of the tables that are not built by appending entries
  (DESIGN.md appendix B): FADT (ACPI 6.5 Table 5.9), BERT (18.3.1), SPCR rev 4, TCPA client /
  server (TCG ACPI spec 1.2), TPM2 (TCG ACPI 2.0), RSDP (5.2.5.3), FACS (5.2.10), SLIT (5.2.17),
  and the fixed part that precedes the entries of the append tables.

  Builder calls are given their meaning per *field*: the value of a field is what the last
  call that writes it wrote (a backward scan of the program), a flag field is the union of the
  flag calls since the last plain write of it.
-/
import Acpi.Spec.Layout
import Acpi.Header
import Acpi.Tables.Fixed
namespace Acpi.Spec

/-- the 36-byte header; revision and checksum are parameters (revision: observed, so that a
    revision bump never raises an alarm; checksum: decided by C01, not by the layout) -/
def hdrRows (sig : Bytes) (len rev cks : Nat) (o : Oem) : List Row :=
  [.raw 0 sig, .num 4 4 len, .num 8 1 rev, .num 9 1 cks, .raw 10 o.id, .raw 16 o.table,
   .num 24 4 o.rev.toNat, .raw 28 [0x52, 0x56, 0x41, 0x54], .raw 32 [0, 0, 0, 1]]

/-! ### FADT -/

/-- (offset, width) of each of the 99 value slots of the FADT body (Acpi.Tables.Fixed) -/
def fadtSlotPos : List (Nat × Nat) :=
  [(36, 4), (40, 4), (44, 1), (45, 1), (46, 2), (48, 4), (52, 1), (53, 1), (54, 1), (55, 1),
   (56, 4), (60, 4), (64, 4), (68, 4), (72, 4), (76, 4), (80, 4), (84, 4),
   (88, 1), (89, 1), (90, 1), (91, 1), (92, 1), (93, 1), (94, 1), (95, 1),
   (96, 2), (98, 2), (100, 2), (102, 2), (104, 1), (105, 1), (106, 1), (107, 1), (108, 1),
   (109, 2), (111, 1), (112, 4),
   (116, 1), (117, 1), (118, 1), (119, 1), (120, 8), (128, 1), (129, 2), (131, 1), (132, 8), (140, 8)] ++
  ((List.range 10).flatMap fun k =>
    let o := 148 + 12 * k
    [(o, 1), (o + 1, 1), (o + 2, 1), (o + 3, 1), (o + 4, 8)]) ++ [(268, 8)]

/-- FADT feature flag number `f` of the crate's `Flags` enum ↦ its bit(s) (ACPI 6.5 Table 5.10;
    22/23/24 are the three values of the 2-bit persistent-CPU-caches field at bits 23:22) -/
def fadtFlagBits (f : Nat) : Nat :=
  if f < 22 then 2 ^ f else if f = 22 then 0 else if f = 23 then 2 ^ 22 else if f = 24 then 2 ^ 23 else 0

/-- what one call writes to `slot`, if anything: `some (v, true)` = accumulates (OR), `some (v,
    false)` = overwrites -/
def fadtWrite (slot : Nat) (o : Opt) : Option (Nat × Bool) :=
  let v := o.arg
  match o.name with
  | "dsdt32" => if slot = 1 then some (v 0, false) else if slot = 47 then some (0, false) else none
  | "dsdt64" => if slot = 1 then some (0, false) else if slot = 47 then some (v 0, false) else none
  | "fc32" => if slot = 0 then some (v 0, false) else if slot = 46 then some (0, false) else none
  | "fc64" => if slot = 0 then some (0, false) else if slot = 46 then some (v 0, false) else none
  | "acpien" => if slot = 6 then some (1, false) else if slot = 7 then some (0, false) else none
  | "acpidis" => if slot = 6 then some (0, false) else if slot = 7 then some (1, false) else none
  | "flag" => if slot = 37 then some (fadtFlagBits (v 0), true) else none
  | "gpe" => if slot = 16 then some (v 0, false) else if slot = 17 then some (v 1, false)
             else if slot = 22 then some (v 2, false) else if slot = 23 then some (v 3, false)
             else if slot = 24 then some (v 4, false) else none
  | "profile" => if slot = 3 then some (v 0, false) else none
  | "set" => if slot = v 0 then some (v 1, false) else none
  | "gas" =>
    let base := if v 0 = 0 then 38 else 48 + 5 * (v 0 - 1)
    if base ≤ slot ∧ slot < base + 5 then some (v (1 + (slot - base)), false) else none
  | _ => none

/-- value of a slot after the program: scan backwards to the last overwrite, OR-ing the
    accumulating writes met on the way -/
def slotValue (write : Nat → Opt → Option (Nat × Bool)) (slot dflt : Nat) (ops : List Opt) : Nat :=
  let rec go : List Opt → Nat → Nat
    | [], acc => dflt ||| acc
    | o :: rest, acc =>
      match write slot o with
      | some (v, true) => go rest (acc ||| v)
      | some (v, false) => v ||| acc
      | none => go rest acc
  go ops.reverse 0

def fadtRows (o : Oem) (rev cks : Nat) (ops : List Opt) : Nat × List Row :=
  (276, hdrRows [0x46, 0x41, 0x43, 0x50] 276 rev cks o ++
    (List.range 99).map fun i =>
      let (off, w) := fadtSlotPos.getD i (0, 0)
      .num off w (slotValue fadtWrite i (if i = 45 then 5 else 0) ops))

/-! ### TCPA server -/
def tcpasWrite (slot : Nat) (o : Opt) : Option (Nat × Bool) :=
  let v := o.arg
  match o.name with
  | "logarea" => if slot = 0 then some (v 0, false) else if slot = 1 then some (v 1, false) else none
  | "activelow" => if slot = 3 then some (2, true) else none
  | "edge" => if slot = 3 then some (1, true) else none
  | "scigpe" => if slot = 4 then some (v 0, false) else if slot = 3 then some (4, true) else none
  | "gsi" => if slot = 5 then some (v 0, false) else if slot = 3 then some (8, true) else none
  | "pnp" => if slot = 2 then some (2, true) else none
  | "sbdf" => if 16 ≤ slot ∧ slot < 20 then some (v (slot - 16), false) else if slot = 2 then some (1, true) else none
  | "base" => if 6 ≤ slot ∧ slot < 11 then some (v (slot - 6), false) else none
  | "config" => if 11 ≤ slot ∧ slot < 16 then some (v (slot - 11), false) else if slot = 2 then some (4, true) else none
  | _ => none

def tcpasRows (o : Oem) (rev cks : Nat) (ops : List Opt) : Nat × List Row :=
  let s (i : Nat) := slotValue tcpasWrite i 0 ops
  (100, hdrRows [0x54, 0x43, 0x50, 0x41] 100 rev cks o ++
    [.num 36 2 1, res 38 2, .num 40 8 (s 0), .num 48 8 (s 1), .raw 56 [1, 2], .num 58 1 (s 2), .num 59 1 (s 3),
     .num 60 1 (s 4), res 61 3, .num 64 4 (s 5)] ++ gasRows 68 (s 6) (s 7) (s 8) (s 9) (s 10) ++ [res 80 4] ++
    gasRows 84 (s 11) (s 12) (s 13) (s 14) (s 15) ++ [.num 96 1 (s 16), .num 97 1 (s 17), .num 98 1 (s 18), .num 99 1 (s 19)])

/-- SLIT cell (i, j): the last distance assigned to the unordered pair, else 10 -/
def slitCell (ops : List Opt) (i j : Nat) : Nat :=
  (((ops.filter fun o => o.name = "dist" ∧ ((o.arg 0 = i ∧ o.arg 1 = j) ∨ (o.arg 0 = j ∧ o.arg 1 = i))).getLast?).map (·.arg 2)).getD 10

/-- reference encoding of a fixed table built by `ctor` and the program `ops`; `rev`, `cks`
    (and for the RSDP the extended checksum `ecks`) are read from the image -/
def fixedRows (t : FixedT) (o : Oem) (c : EArgs) (ops : List Opt) (rev cks ecks : Nat) : Nat × List Row :=
  let n := c.num
  match t with
  | .fadt => fadtRows o rev cks ops
  | .bert => (48, hdrRows [0x42, 0x45, 0x52, 0x54] 48 rev cks o ++ [.num 36 4 (n 0), .num 40 8 (n 1)])
  | .spcr => (90, hdrRows [0x53, 0x50, 0x43, 0x52] 90 rev cks o ++
      [.num 36 1 0x15, res 37 3] ++ gasRows 40 0 0 0 0 0 ++
      [.num 52 1 0, .num 53 1 0, .num 54 4 0, .num 58 1 0, .num 59 1 0, .num 60 1 0, .num 61 1 0, .num 62 1 0,
       .num 63 1 0, .num 64 2 0xFFFF, .num 66 2 0xFFFF, .num 68 1 0, .num 69 1 0, .num 70 1 0, .num 71 4 0,
       .num 75 1 0, .num 76 4 0, .num 80 4 0, .num 84 2 2, .num 86 2 88, .raw 88 [0x2E, 0]])
  | .tcpac => (50, hdrRows [0x54, 0x43, 0x50, 0x41] 50 rev cks o ++ [.num 36 2 0, .num 38 4 (n 0), .num 42 8 (n 1)])
  | .tcpas => tcpasRows o rev cks ops
  | .tpm2 =>
    let log := ops.find? (·.name = "logarea")
    let tot := if log.isSome then 76 else 52
    (tot, hdrRows [0x54, 0x50, 0x4D, 0x32] tot rev cks o ++
      [.num 36 2 (n 0), res 38 2, .num 40 8 (n 1), .num 48 4 (n 2)] ++
      (match log with
       | some l => [res 52 12, .num 64 4 (l.arg 0), .num 68 8 (l.arg 1)]
       | none => []))
  | .rsdp => (36, [.raw 0 [0x52, 0x53, 0x44, 0x20, 0x50, 0x54, 0x52, 0x20], .num 8 1 cks, .raw 9 o.id, .num 15 1 2,
      .num 16 4 0, .num 20 4 36, .num 24 8 (n 0), .num 32 1 ecks, res 33 3])
  | .facs => (64, [.raw 0 [0x46, 0x41, 0x43, 0x53], .num 4 4 64, .num 8 4 0, .num 12 4 0, .num 16 4 0, .num 20 4 0,
      .num 24 8 0, .num 32 1 1, res 33 3, .num 36 4 0, res 40 24])
  | .slit =>
    let k := n 0
    (44 + k * k, hdrRows [0x53, 0x4C, 0x49, 0x54] (44 + k * k) rev cks o ++ [.num 36 8 k] ++
      (List.range k).flatMap fun i => (List.range k).map fun j => .num (44 + i * k + j) 1 (slitCell ops i j))

/-- the part of an append table before its first entry: header + the table's fixed fields
    (`count` = number of entries added so far) -/
def tableHeadRows (t : String) (o : Oem) (ctor : List Nat) (len rev cks count : Nat) : Option (Nat × List Row) :=
  let h (sig : Bytes) := hdrRows sig len rev cks o
  match t with
  | "xsdt" => some (36, h [0x58, 0x53, 0x44, 0x54])
  | "mcfg" => some (44, h [0x4D, 0x43, 0x46, 0x47] ++ [res 36 8])
  | "madt" => some (44, h [0x41, 0x50, 0x49, 0x43] ++ [.num 36 4 (if ctor.getD 0 0 = 0 then 0 else ctor.getD 1 0), .num 40 4 0])
  | "srat" => some (48, h [0x53, 0x52, 0x41, 0x54] ++ [.num 36 4 1, res 40 8])
  | "hmat" => some (40, h [0x48, 0x4D, 0x41, 0x54] ++ [res 36 4])
  | "pptt" => some (36, h [0x50, 0x50, 0x54, 0x54])
  | "cedt" => some (36, h [0x43, 0x45, 0x44, 0x54])
  | "rhct" => some (56, h [0x52, 0x48, 0x43, 0x54] ++ [.num 36 4 0, .num 40 8 (ctor.getD 0 0), .num 48 4 count, .num 52 4 56])
  | "rimt" => some (48, h [0x52, 0x49, 0x4D, 0x54] ++ [.num 36 4 count, .num 40 4 48, res 44 4])
  | "viot" => some (48, h [0x56, 0x49, 0x4F, 0x54] ++ [.num 36 2 count, .num 38 2 48, res 40 8])
  | "hest" => some (40, h [0x48, 0x45, 0x53, 0x54] ++ [.num 36 4 count])
  | "rqsc" => some (40, h [0x52, 0x51, 0x53, 0x43] ++ [.num 36 4 count])
  | _ => none

end Acpi.Spec
