/-
  Acpi.Spec.ResTemplate — the C10 oracle for a resource template as the root object: a DefBuffer
  whose BufferSize equals its payload, whose payload is tiled by the descriptors' own length
  fields up to the end tag `79 00`, each descriptor conforming to its reference layout.  Run by
  the driver on the implementation's bytes; Props/C10/Oracle.lean proves it of the model.
-/
import Acpi.Aml.Term
import Acpi.Spec.PkgLength
import Acpi.Spec.Int
import Acpi.Spec.Res
import Acpi.Spec.Layout
namespace Acpi.Spec
open Acpi

def isDescriptor : Op → Bool
  | .mem32 | .io | .irq | .reg | .asmem | .asio | .asbus => true
  | _ => false

/-- the oracle for a resource template as the root object -/
def rtOracle (kids : List Aml) (bs : Bytes) : Option String :=
  match bufferPayloadAny bs with
  | none => some "not a DefBuffer whose BufferSize equals its payload"
  | some payload =>
    match Spec.Res.walk (payload.length + 1) payload with
    | none => some "the descriptors' length fields do not tile the buffer up to the end tag"
    | some items =>
      if items.length ≠ kids.length + 1 then some s!"walk finds {items.length} items for {kids.length} descriptors + end tag"
      else if items.getLast? ≠ some [0x79, 0x00] then some "end tag is not 79 00"
      else
        let bad := (List.range kids.length).find? fun i =>
          match kids.getD i (.node .zero [] [] .nil) with
          | .node op ints _ _ =>
            match Spec.Res.rows op ints with
            | some (total, rs) => (Spec.conforms total rs (items.getD i [])).isSome
            | none => true
        match bad with
        | some i => some s!"descriptor #{i} does not conform to its reference layout"
        | none => none
where
  bufferPayloadAny (bs : Bytes) : Option Bytes :=
    match bs with
    | 0x11 :: rest =>
      match Spec.PkgLength.decode rest with
      | some (total, w) =>
        if total ≠ rest.length then none else
        match Spec.Int.decode (rest.drop w) with
        | some (n, payload) => if n = payload.length then some payload else none
        | none => none
      | none => none
    | _ => none

end Acpi.Spec
