/-
  Spec side: structure type codes and the table each entry kind belongs to
  (ACPI 6.5 Table 5.21 (MADT), 5.57ff (SRAT), 5.14x (HMAT), 5.15x (PPTT); RISC-V RHCT/RIMT
  documents; VIOT (ACPI 6.5 §5.2.32... virtio); CXL 3.0 Table 9-20 (CEDT); ACPI 6.5 Table 18.x (HEST);
  RQSC draft).
-/
import Acpi.Tables.Entries
import Acpi.Spec.Walk
namespace Acpi.Spec

/-- the table an entry kind belongs to (`none`: a free-standing sub-structure) -/
def tableOf : Kind → Option String
  | .lapic | .ioapic | .gicc | .gicd | .gicmsi | .gicr | .its | .rintc | .imsic | .aplic | .plic => some "madt"
  | .mem | .gi | .rintcAff => some "srat"
  | .mpd | .loc | .msc => some "hmat"
  | .proc | .cache => some "pptt"
  | .isa | .cmo | .mmu | .hart => some "rhct"
  | .iommu | .pcierc | .platform => some "rimt"
  | .pcirange | .mmioep | .pciiommu | .mmioiommu => some "viot"
  | .chbs | .cfmws | .cxims | .rdpas => some "cedt"
  | .aerrp | .aerdev | .aerbr | .ghes | .ghesv2 => some "hest"
  | .ecam => some "mcfg"
  | .xsdtEntry => some "xsdt"
  | .qosctrl => some "rqsc"
  | _ => none

/-- the structure type code the specification assigns -/
def typeCodeConst : Kind → Nat
  | .lapic => 0 | .ioapic => 1 | .gicc => 0xB | .gicd => 0xC | .gicmsi => 0xD | .gicr => 0xE | .its => 0xF
  | .rintc => 0x18 | .imsic => 0x19 | .aplic => 0x1A | .plic => 0x1B
  | .mem => 1 | .gi => 5 | .rintcAff => 7
  | .mpd => 0 | .loc => 1 | .msc => 2
  | .proc => 0 | .cache => 1
  | .isa => 0 | .cmo => 1 | .mmu => 2 | .hart => 0xFFFF
  | .iommu => 0 | .pcierc => 1 | .platform => 2
  | .pcirange => 1 | .mmioep => 2 | .pciiommu => 3 | .mmioiommu => 4
  | .chbs => 0 | .cfmws => 1 | .cxims => 2 | .rdpas => 3
  | .aerrp => 6 | .aerdev => 7 | .aerbr => 8 | .ghes => 9 | .ghesv2 => 10
  | _ => 0

/-- RQSC controllers carry the caller's controller type (0 capacity, 1 bandwidth) -/
def typeCode (k : Kind) (a : EArgs) : Nat := if k = .qosctrl then a.num 0 else typeCodeConst k

/-- how entries of that kind's table are walked -/
def walkKindOf (k : Kind) : Option WalkKind := (tableOf k).bind fun t => (shapeOf t).map (·.kind)

end Acpi.Spec
