/-
  Spec side: walking a table body by each entry's own length field, from the
  specification's first-entry offset (ACPI 6.5 ch. 5: MADT 44, SRAT 48, HMAT 40, PPTT 36,
  MCFG 44, XSDT 36; RISC-V RHCT 56; RIMT 48; VIOT 48; CXL CEDT 36; HEST 40 (ch. 18); RQSC 40).
-/
import Acpi.Basic
namespace Acpi.Spec

/-- how an entry announces its type and length -/
inductive WalkKind where
  | t8l8      -- type 1@0, length 1@1          (MADT, SRAT, PPTT)
  | t16l32    -- type 2@0, length 4@4          (HMAT)
  | t16l16    -- type 2@0, length 2@2          (RHCT)
  | t8l16     -- type 1@0, length 2@2          (RIMT, VIOT, CEDT, RQSC)
  | hest      -- type 2@0, size fixed by type  (HEST)
  | fixed (n : Nat)   -- no header, fixed size (MCFG 16, XSDT 8)
deriving Repr, DecidableEq, Inhabited

/-- HEST error source sizes (ACPI 6.5 §18.3.2): AER root port 48, endpoint 44, bridge 56,
    GHES 64, GHESv2 92 -/
def hestSize (ty : Nat) : Option Nat :=
  match ty with
  | 6 => some 48 | 7 => some 44 | 8 => some 56 | 9 => some 64 | 10 => some 92 | _ => none

def hdrSize : WalkKind → Nat
  | .t8l8 => 2 | .t16l32 => 8 | .t16l16 => 4 | .t8l16 => 4 | .hest => 2 | .fixed n => n

/-- `(type, length)` announced by the entry at the head of `bs` -/
def entryHdr (k : WalkKind) (bs : Bytes) : Option (Nat × Nat) :=
  match k with
  | .t8l8 => do let t ← readAt bs 0 1; let l ← readAt bs 1 1; some (t, l)
  | .t16l32 => do let t ← readAt bs 0 2; let l ← readAt bs 4 4; some (t, l)
  | .t16l16 => do let t ← readAt bs 0 2; let l ← readAt bs 2 2; some (t, l)
  | .t8l16 => do let t ← readAt bs 0 1; let l ← readAt bs 2 2; some (t, l)
  | .hest => do let t ← readAt bs 0 2; let l ← hestSize t; some (t, l)
  | .fixed n => if n ≤ bs.length then some (0, n) else none

/-- walk a body: the list of `(type, entry bytes)`, or `none` if the entries do not tile the
    body exactly (a length below the header size, or running past the end). -/
def walk (k : WalkKind) : Nat → Bytes → Option (List (Nat × Bytes))
  | _, [] => some []
  | 0, _ :: _ => none
  | fuel + 1, bs =>
    match entryHdr k bs with
    | none => none
    | some (ty, len) =>
      if len < hdrSize k ∨ len = 0 ∨ bs.length < len then none
      else (walk k fuel (bs.drop len)).map fun es => (ty, bs.take len) :: es

/-- table-level description: signature ↦ (first-entry offset, entry header style,
    position and width of the entry count if the table has one, position/width/value of the
    array-offset field if it has one) -/
structure TableShape where
  first : Nat
  kind : WalkKind
  count : Option (Nat × Nat) := none
  arrayOff : Option (Nat × Nat × Nat) := none
deriving Repr, Inhabited

def shapeOf (sig : String) : Option TableShape :=
  match sig with
  | "madt" => some { first := 44, kind := .t8l8 }
  | "srat" => some { first := 48, kind := .t8l8 }
  | "hmat" => some { first := 40, kind := .t16l32 }
  | "pptt" => some { first := 36, kind := .t8l8 }
  | "rhct" => some { first := 56, kind := .t16l16, count := some (48, 4), arrayOff := some (52, 4, 56) }
  | "rimt" => some { first := 48, kind := .t8l16, count := some (36, 4), arrayOff := some (40, 4, 48) }
  | "viot" => some { first := 48, kind := .t8l16, count := some (36, 2), arrayOff := some (38, 2, 48) }
  | "cedt" => some { first := 36, kind := .t8l16 }
  | "hest" => some { first := 40, kind := .hest, count := some (36, 4) }
  | "rqsc" => some { first := 40, kind := .t8l16, count := some (36, 4) }
  | "mcfg" => some { first := 44, kind := .fixed 16 }
  | "xsdt" => some { first := 36, kind := .fixed 8 }
  | _ => none

/-- everything C03 asks of a table image: the walk from the first-entry offset tiles the
    image exactly; the count field (if any) equals the number of entries found modulo its
    width; the array-offset field holds the first-entry offset.  Returns the entries. -/
def tableEntries (sh : TableShape) (img : Bytes) : Except String (List (Nat × Bytes)) :=
  if img.length < sh.first then .error "image shorter than the first-entry offset" else
  match walk sh.kind img.length (img.drop sh.first) with
  | none => .error "entries do not tile the body"
  | some es =>
    match sh.count with
    | some (off, w) =>
      if readAt img off w ≠ some (es.length % 256 ^ w) then
        .error s!"count field {readAt img off w} but the walk finds {es.length} entries"
      else match sh.arrayOff with
        | some (o, w, v) => if readAt img o w = some v then .ok es else .error "array offset field wrong"
        | none => .ok es
    | none => .ok es

end Acpi.Spec
