/-
  Spec side: the AML grammar (ACPI 6.5 §20.2) as a table, one generic recursive-descent
  parser over it, and the *meaning* of each crate constructor (what ASL operator, with which
  operand in which grammar position, its parameter names say it denotes).  Written from the
  grammar, independently of the crate's encoder.

  Term tree: a node is an opcode (one byte, or 0x5B00 + second byte for ExtOp), its ByteData /
  WordData operands (`ints`), a raw byte list (buffers, strings, field names) and its term
  operands followed by the terms of its body (`kids`).
-/
import Acpi.Basic
import Acpi.Spec.PkgLength
import Acpi.Spec.Int
import Acpi.Spec.NameString
import Acpi.Spec.Eisa
import Acpi.Spec.Res
import Acpi.Aml.Term
namespace Acpi.Spec.Aml

inductive SOp where
  | int          -- ints = [value]
  | str          -- blobs = [bytes]
  | nameRef      -- ints = [rooted]; blobs = segments; kids = method arguments
  | nullName     -- the NullName of a Target
  | local_ | arg -- ints = [n]
  | op (code : Nat)   -- grammar operator
  | fnamed       -- blobs = [NameSeg]; ints = [bits]
  | freserved    -- ints = [bits]
deriving Repr, DecidableEq, Inhabited

mutual
inductive Tm where
  | node (op : SOp) (ints : List Nat) (blobs : List Bytes) (kids : TmList)
inductive TmList where
  | nil
  | cons (t : Tm) (rest : TmList)
end

mutual
def Tm.beq : Tm → Tm → Bool
  | .node o1 i1 b1 k1, .node o2 i2 b2 k2 => o1 == o2 && i1 == i2 && b1 == b2 && TmList.beq k1 k2
def TmList.beq : TmList → TmList → Bool
  | .nil, .nil => true
  | .cons a r, .cons b s => Tm.beq a b && TmList.beq r s
  | _, _ => false
end

namespace TmList
def ofList : List Tm → TmList
  | [] => nil
  | a :: r => cons a (ofList r)
def toList : TmList → List Tm
  | nil => []
  | cons a r => a :: toList r
def append : TmList → TmList → TmList
  | nil, l => l
  | cons a r, l => cons a (append r l)
end TmList

/-- operand positions of the grammar -/
inductive Slot where
  | N   -- NameString
  | T   -- TermArg
  | S   -- SuperName
  | G   -- Target: SuperName | NullName
  | B | W   -- ByteData, WordData
deriving Repr, DecidableEq, Inhabited

inductive Body where
  | terms      -- TermList
  | bytes      -- ByteList
  | elems      -- PackageElementList
  | fields     -- FieldList
deriving Repr, DecidableEq, Inhabited

structure Shape where
  slots : List Slot
  body : Option Body := none    -- `some`: the operator is `Op PkgLength slots… body`
deriving Repr, Inhabited

open Slot in
/-- ACPI 6.5 §20.2.5: the operators the crate can express -/
def shape (code : Nat) : Option Shape :=
  match code with
  | 0xFF => some ⟨[], none⟩                                   -- OnesOp
  | 0x08 => some ⟨[N, T], none⟩                               -- DefName := NameOp NameString DataRefObject
  | 0x10 => some ⟨[N], some .terms⟩                           -- DefScope
  | 0x11 => some ⟨[T], some .bytes⟩                           -- DefBuffer := BufferOp PkgLength BufferSize ByteList
  | 0x12 => some ⟨[B], some .elems⟩                           -- DefPackage
  | 0x13 => some ⟨[T], some .elems⟩                           -- DefVarPackage
  | 0x14 => some ⟨[N, B], some .terms⟩                        -- DefMethod
  | 0x5B01 => some ⟨[N, B], none⟩                             -- DefMutex
  | 0x5B13 => some ⟨[T, T, T, N], none⟩                       -- DefCreateField := SourceBuff BitIndex NumBits NameString
  | 0x5B23 => some ⟨[S, W], none⟩                             -- DefAcquire
  | 0x5B27 => some ⟨[S], none⟩                                -- DefRelease
  | 0x5B80 => some ⟨[N, B, T, T], none⟩                       -- DefOpRegion
  | 0x5B81 => some ⟨[N, B], some .fields⟩                     -- DefField
  | 0x5B82 => some ⟨[N], some .terms⟩                         -- DefDevice
  | 0x5B84 => some ⟨[N, B, W], some .terms⟩                   -- DefPowerRes
  | 0x70 => some ⟨[T, S], none⟩                               -- DefStore := StoreOp TermArg SuperName
  | 0x72 | 0x73 | 0x74 | 0x77 | 0x79 | 0x7A | 0x7B | 0x7C | 0x7D | 0x7E | 0x7F | 0x84 | 0x85 | 0x88 | 0x9C =>
    some ⟨[T, T, G], none⟩                                    -- Add … Xor, ConcatRes, Mod, Index, ToString
  | 0x83 => some ⟨[T], none⟩                                  -- DefDerefOf
  | 0x86 => some ⟨[S, T], none⟩                               -- DefNotify
  | 0x87 | 0x8E => some ⟨[S], none⟩                           -- SizeOf, ObjectType
  | 0x8A | 0x8F => some ⟨[T, T, N], none⟩                     -- CreateDWordField, CreateQWordField
  | 0x92 => some ⟨[T], none⟩                                  -- DefLNot
  | 0x93 | 0x94 | 0x95 => some ⟨[T, T], none⟩                 -- LEqual, LGreater, LLess
  | 0x96 | 0x99 => some ⟨[T, G], none⟩                        -- ToBuffer, ToInteger
  | 0x9E => some ⟨[T, T, T, G], none⟩                         -- DefMid
  | 0xA0 | 0xA2 => some ⟨[T], some .terms⟩                    -- DefIfElse (the If part), DefWhile
  | 0xA1 => some ⟨[], some .terms⟩                            -- DefElse
  | 0xA4 => some ⟨[T], none⟩                                  -- DefReturn
  | _ => none

/-- arities of the methods that are invoked: `(rooted, segments) ↦ number of arguments` -/
abbrev Env := List ((Bool × List Bytes) × Nat)

def Env.arity (e : Env) (r : Bool) (segs : List Bytes) : Nat :=
  ((e.find? fun p => p.1 == (r, segs)).map (·.2)).getD 0

def isNameLead (b : UInt8) : Bool :=
  NameString.isLead b || b = 0x5C || b = 0x5E || b = 0x2E || b = 0x2F

def mkName (r : Bool) (segs : List Bytes) (args : TmList) : Tm :=
  .node .nameRef [if r then 1 else 0] segs args

/-- read a NUL-terminated string -/
def takeString : Bytes → Option (Bytes × Bytes)
  | [] => none
  | b :: bs => if b = 0 then some ([], bs) else (takeString bs).map fun (s, r) => (b :: s, r)

/-- FieldList: `NamedField := NameSeg PkgLength`, `ReservedField := 0x00 PkgLength` (the
    PkgLength here is the field width in bits and does not include itself) -/
def parseFields : Nat → Bytes → Option TmList
  | _, [] => some .nil
  | 0, _ => none
  | fuel + 1, b :: bs =>
    if b = 0x00 then
      match PkgLength.decode bs with
      | some (v, w) => (parseFields fuel (bs.drop w)).map fun r => .cons (.node .freserved [v] [] .nil) r
      | none => none
    else if NameString.isSeg ((b :: bs).take 4) then
      match PkgLength.decode (bs.drop 3) with
      | some (v, w) => (parseFields fuel (bs.drop (3 + w))).map fun r => .cons (.node .fnamed [v] [(b :: bs).take 4] .nil) r
      | none => none
    else none

mutual
/-- one TermArg / TermObj at the head of `bs` -/
def parseTerm (env : Env) : Nat → Bytes → Option (Tm × Bytes)
  | 0, _ => none
  | _, [] => none
  | fuel + 1, b :: bs =>
    if b = 0x00 ∨ b = 0x01 ∨ b = 0x0A ∨ b = 0x0B ∨ b = 0x0C ∨ b = 0x0E then
      (Int.decode (b :: bs)).map fun (v, r) => (.node .int [v] [] .nil, r)
    else if b = 0x0D then
      (takeString bs).map fun (s, r) => (.node .str [] [s] .nil, r)
    else if 0x60 ≤ b ∧ b ≤ 0x67 then some (.node .local_ [b.toNat - 0x60] [] .nil, bs)
    else if 0x68 ≤ b ∧ b ≤ 0x6E then some (.node .arg [b.toNat - 0x68] [] .nil, bs)
    else if isNameLead b then
      match NameString.decode (b :: bs) with
      | some (r, segs, rest) =>
        (parseTerms env fuel (env.arity r segs) rest).map fun (args, rest') => (mkName r segs args, rest')
      | none => none
    else
      let (code, rest) : Nat × Bytes :=
        if b = 0x5B then (0x5B00 + (bs.headD 0).toNat, bs.drop 1) else (b.toNat, bs)
      match shape code with
      | none => none
      | some sh =>
        match sh.body with
        | none =>
          (parseSlots env fuel sh.slots rest).map fun (ints, kids, r) => (.node (.op code) ints [] kids, r)
        | some body =>
          match PkgLength.decode rest with
          | none => none
          | some (total, w) =>
            if total < w ∨ rest.length < total then none else
            let inner := (rest.drop w).take (total - w)
            let after := rest.drop total
            match parseSlots env fuel sh.slots inner with
            | none => none
            | some (ints, kids, r) =>
              match body with
              | .bytes => some (.node (.op code) ints [r] kids, after)
              | .terms => (parseTermList env fuel r).map fun ts => (.node (.op code) ints [] (kids.append ts), after)
              | .elems => (parseElems env fuel r).map fun ts => (.node (.op code) ints [] (kids.append ts), after)
              | .fields => (parseFields r.length r).map fun ts => (.node (.op code) ints [] (kids.append ts), after)

/-- exactly `n` TermArgs -/
def parseTerms (env : Env) : Nat → Nat → Bytes → Option (TmList × Bytes)
  | _, 0, bs => some (.nil, bs)
  | 0, _ + 1, _ => none
  | fuel + 1, n + 1, bs =>
    match parseTerm env fuel bs with
    | none => none
    | some (t, r) => (parseTerms env fuel n r).map fun (ts, r') => (.cons t ts, r')

/-- the fixed operands of an operator -/
def parseSlots (env : Env) : Nat → List Slot → Bytes → Option (List Nat × TmList × Bytes)
  | _, [], bs => some ([], .nil, bs)
  | 0, _ :: _, _ => none
  | fuel + 1, s :: ss, bs =>
    match s with
    | .B => match bs with
      | [] => none
      | b :: r => (parseSlots env fuel ss r).map fun (is, ks, r') => (b.toNat :: is, ks, r')
    | .W => if bs.length < 2 then none else
      (parseSlots env fuel ss (bs.drop 2)).map fun (is, ks, r') => (fromLE (bs.take 2) :: is, ks, r')
    | .N =>
      match NameString.decode bs with
      | some (r, segs, rest) => (parseSlots env fuel ss rest).map fun (is, ks, r') => (is, .cons (mkName r segs .nil) ks, r')
      | none => none
    | .T =>
      match parseTerm env fuel bs with
      | some (t, rest) => (parseSlots env fuel ss rest).map fun (is, ks, r') => (is, .cons t ks, r')
      | none => none
    | .S | .G =>
      match bs with
      | [] => none
      | b :: r0 =>
        if s = .G ∧ b = 0x00 then
          (parseSlots env fuel ss r0).map fun (is, ks, r') => (is, .cons (.node .nullName [] [] .nil) ks, r')
        else if isNameLead b then
          -- a SuperName that is a name is a reference, never an invocation
          match NameString.decode bs with
          | some (r, segs, rest) => (parseSlots env fuel ss rest).map fun (is, ks, r') => (is, .cons (mkName r segs .nil) ks, r')
          | none => none
        else if (0x60 ≤ b ∧ b ≤ 0x6E) ∨ b = 0x83 ∨ b = 0x88 ∨ b = 0x71 then
          -- LocalObj | ArgObj | DerefOf | Index | RefOf
          match parseTerm env fuel bs with
          | some (t, rest) => (parseSlots env fuel ss rest).map fun (is, ks, r') => (is, .cons t ks, r')
          | none => none
        else none

/-- a TermList that must consume its extent exactly -/
def parseTermList (env : Env) : Nat → Bytes → Option TmList
  | _, [] => some .nil
  | 0, _ :: _ => none
  | fuel + 1, bs =>
    match parseTerm env fuel bs with
    | none => none
    | some (t, r) => (parseTermList env fuel r).map fun ts => .cons t ts

/-- PackageElementList: DataRefObject | NameString (a name here is a reference) -/
def parseElems (env : Env) : Nat → Bytes → Option TmList
  | _, [] => some .nil
  | 0, _ :: _ => none
  | fuel + 1, b :: bs =>
    if isNameLead b then
      match NameString.decode (b :: bs) with
      | some (r, segs, rest) => (parseElems env fuel rest).map fun ts => .cons (mkName r segs .nil) ts
      | none => none
    else
      match parseTerm env fuel (b :: bs) with
      | none => none
      | some (t, r) => (parseElems env fuel r).map fun ts => .cons t ts
end

/-! ### the meaning of the crate's constructors -/

/-- a path string "\AAAA.BBBB" ↦ (rooted, segments); written separately from the model's
    `Path.new` -/
def pathOf (s : Bytes) : Bool × List Bytes :=
  let rooted := s.head? = some 0x5C
  let body := if rooted then s.drop 1 else s
  (rooted, body.foldr (fun b acc => if b = 0x2E then [] :: acc else
    match acc with
    | p :: ps => (b :: p) :: ps
    | [] => [[b]]) [[]])

def nameOf (s : Bytes) : Tm := let (r, segs) := pathOf s; mkName r segs .nil

def intTm (v : Nat) : Tm := .node .int [v] [] .nil

/-- the integer value a crate node denotes, if it is an integer constant -/
def intValue? : Aml → Option Nat
  | .node .zero _ _ _ => some 0
  | .node .one _ _ _ => some 1
  | .node .u8 is _ _ | .node .u16 is _ _ | .node .u32 is _ _ | .node .u64 is _ _ | .node .usize is _ _ => some (is.getD 0 0)
  | _ => none

mutual
/-- what the crate node denotes in TermArg position -/
def meaning : Aml → Tm
  | .node op ints blobs kids =>
    let i (k : Nat) := ints.getD k 0
    let b (k : Nat) := blobs.getD k []
    let ks := meanings kids            -- children in TermArg position
    let gs := targets kids             -- children in Target position
    let ns := names kids               -- children in NameString position
    let k (j : Nat) : Tm := ks.getD j (intTm 0)
    let g (j : Nat) : Tm := gs.getD j (intTm 0)
    let nm (j : Nat) : Tm := ns.getD j (intTm 0)
    let opn (code : Nat) (is : List Nat) (l : List Tm) : Tm := .node (.op code) is [] (TmList.ofList l)
    match op with
    | .zero => intTm 0 | .one => intTm 1 | .ones => opn 0xFF [] []
    | .u8 | .u16 | .u32 | .u64 | .usize => intTm (i 0)
    | .str => .node .str [] [b 0] .nil
    | .path => nameOf (b 0)
    | .eisa => intTm (Eisa.compress (ints.map Char.ofNat))
    | .uuid => .node (.op 0x11) [] [Eisa.uuidToBuffer (ints.map Char.ofNat)] (TmList.ofList [intTm 16])
    | .buf => .node (.op 0x11) [] [b 0] (TmList.ofList [intTm (b 0).length])
    | .bufterm => .node (.op 0x11) [] [[]] (TmList.ofList [k 0])
    | .arg => .node .arg [i 0] [] .nil
    | .local_ => .node .local_ [i 0] [] .nil
    | .name => opn 0x08 [] [nameOf (b 0), k 0]
    | .fieldname => mkName false [b 0] .nil
    | .pkg | .pkgb => opn 0x12 [kids.length] (elems kids)
    | .varpkg => opn 0x13 [] [k 0]
    | .rt =>
      let payload := (resBytes kids).flatten ++ [0x79, 0x00]
      .node (.op 0x11) [] [payload] (TmList.ofList [intTm payload.length])
    | .mem32 | .io | .irq | .reg | .asmem | .asio | .asbus => .node .str [] [Res.encode op ints] .nil   -- only meaningful inside `rt`
    | .device => opn 0x5B82 [] (nameOf (b 0) :: ks)
    | .scope | .scoperaw => opn 0x10 [] (nameOf (b 0) :: ks)
    | .method => opn 0x14 [i 0 + (if i 1 ≠ 0 then 8 else 0)] (nameOf (b 0) :: ks)
    | .field => opn 0x5B81 [i 0 + 16 * i 1 + 32 * i 2] (nameOf (b 0) :: ks)
    | .fnamed => .node .fnamed [i 0] [b 0] .nil
    | .freserved => .node .freserved [i 0] [] .nil
    | .opregion => opn 0x5B80 [i 0] [nameOf (b 0), k 0, k 1]
    | .if_ => opn 0xA0 [] ks
    | .while_ => opn 0xA2 [] ks
    | .else_ => opn 0xA1 [] ks
    | .powerres => opn 0x5B84 [i 0, i 1] (nameOf (b 0) :: ks)
    | .eq => opn 0x93 [] [k 0, k 1]
    | .lt => opn 0x95 [] [k 0, k 1]
    | .gt => opn 0x94 [] [k 0, k 1]
    | .ne => opn 0x92 [] [opn 0x93 [] [k 0, k 1]]
    | .ge => opn 0x92 [] [opn 0x95 [] [k 0, k 1]]
    | .le => opn 0x92 [] [opn 0x94 [] [k 0, k 1]]
    | .store => opn 0x70 [] [k 1, g 0]                       -- Store(source := value, destination := name)
    | .mutex => opn 0x5B01 [i 0] [nameOf (b 0)]
    | .acquire => opn 0x5B23 [i 0] [nameOf (b 0)]
    | .release => opn 0x5B27 [] [nameOf (b 0)]
    | .notify => opn 0x86 [] [g 0, k 1]
    | .objtype => opn 0x8E [] [g 0]
    | .sizeof => opn 0x87 [] [g 0]
    | .ret => opn 0xA4 [] [k 0]
    | .deref => opn 0x83 [] [k 0]
    | .add => opn 0x72 [] [k 1, k 2, g 0] | .concat => opn 0x73 [] [k 1, k 2, g 0]
    | .subtract => opn 0x74 [] [k 1, k 2, g 0] | .multiply => opn 0x77 [] [k 1, k 2, g 0]
    | .shl => opn 0x79 [] [k 1, k 2, g 0] | .shr => opn 0x7A [] [k 1, k 2, g 0]
    | .and_ => opn 0x7B [] [k 1, k 2, g 0] | .nand => opn 0x7C [] [k 1, k 2, g 0]
    | .or_ => opn 0x7D [] [k 1, k 2, g 0] | .nor => opn 0x7E [] [k 1, k 2, g 0]
    | .xor => opn 0x7F [] [k 1, k 2, g 0] | .concatres => opn 0x84 [] [k 1, k 2, g 0]
    | .mod => opn 0x85 [] [k 1, k 2, g 0] | .index => opn 0x88 [] [k 1, k 2, g 0]
    | .tostring => opn 0x9C [] [k 1, k 2, g 0]
    | .createdw => opn 0x8A [] [k 1, k 2, nm 0]              -- (source buffer, byte index, field name)
    | .createqw => opn 0x8F [] [k 1, k 2, nm 0]
    | .tobuffer => opn 0x96 [] [k 1, g 0]
    | .tointeger => opn 0x99 [] [k 1, g 0]
    | .createfield => opn 0x5B13 [] [k 1, k 2, k 3, nm 0]
    | .mid => opn 0x9E [] [k 0, k 1, k 2, g 3]
    | .call => let (r, segs) := pathOf (b 0); mkName r segs (TmList.ofList ks)
def meanings : AmlList → List Tm
  | .nil => []
  | .cons a r => meaning a :: meanings r
/-- in Target / SuperName position an integer zero is the NullName and a name is a reference -/
def targets : AmlList → List Tm
  | .nil => []
  | .cons a r =>
    (match intValue? a with
     | some 0 => .node .nullName [] [] .nil
     | _ => meaning a) :: targets r
/-- in NameString position -/
def names : AmlList → List Tm
  | .nil => []
  | .cons a r => meaning a :: names r
/-- package elements: a name is a reference -/
def elems : AmlList → List Tm
  | .nil => []
  | .cons a r => meaning a :: elems r
/-- resource descriptors inside a template: their reference encodings -/
def resBytes : AmlList → List Bytes
  | .nil => []
  | .cons (.node op ints _ _) r => Res.encode op ints :: resBytes r
end

/-- the whole C06 oracle: parse (fuel generously above what any nesting of `bs.length` bytes
    can use: every recursive call consumes a byte or descends one of ≤ 5 operand slots) and compare -/
def parsesTo (env : Env) (bs : Bytes) (expected : Tm) : Option String :=
  match parseTerm env (8 * bs.length + 16) bs with
  | none => some "the grammar-driven parser rejects the bytes"
  | some (t, rest) =>
    if rest ≠ [] then some s!"{rest.length} bytes left after the object"
    else if Tm.beq t expected then none else some "parses to a different term tree"

end Acpi.Spec.Aml
