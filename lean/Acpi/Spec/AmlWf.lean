/-
  Well-formedness of a crate term tree with respect to the arities of invoked methods: the
  guard under which C06 is stated ("for every AML object tree assembled from the crate's
  constructors"): every operand is of a syntactic class its grammar position admits, names are
  NameSegs, scalars are within their Rust types, method calls carry as many arguments as the
  environment says.  Decidable; the driver evaluates it on every generated tree.
-/
import Acpi.Aml.Term
import Acpi.Spec.Aml
namespace Acpi.Spec.Aml

/-- a path string that `Path::new` accepts, made of 1..255 NameSegs -/
def pathOk (s : Bytes) : Bool :=
  let (_, segs) := pathOf s
  1 ≤ segs.length && segs.length ≤ 255 && segs.all NameString.isSeg

def isDesc : Op → Bool
  | .mem32 | .io | .irq | .reg | .asmem | .asio | .asbus => true
  | _ => false

def isIntOp : Op → Bool
  | .zero | .one | .u8 | .u16 | .u32 | .u64 | .usize => true
  | _ => false

/-- syntactic classes of a node, by its head constructor -/
def okSuperName : Aml → Bool     -- SuperName := SimpleName | DebugObj | ReferenceTypeOpcode
  | .node .local_ _ _ _ | .node .arg _ _ _ | .node .path _ _ _ | .node .deref _ _ _ | .node .index _ _ _ => true
  | _ => false

def okTarget (a : Aml) : Bool :=  -- Target := SuperName | NullName (an integer zero emits 0x00)
  okSuperName a || (intValue? a == some 0)

def okNameString : Aml → Bool
  | .node .path _ _ _ => true
  | .node .fieldname _ bl _ => NameString.isSeg (bl.getD 0 [])
  | _ => false

/-- nodes that are TermArgs / TermObjs (everything except descriptors and field entries) -/
def okTerm : Aml → Bool
  | .node op _ _ _ => !(isDesc op) && op != .fnamed && op != .freserved && op != .fieldname

def descWfB (op : Op) (ints : List Nat) : Bool :=
  let i (k : Nat) := ints.getD k 0
  let w (b : Nat) : Bool := b = 16 || b = 32 || b = 64
  match op with
  | .mem32 => i 1 < 2 ^ 32 && i 2 < 2 ^ 32
  | .io => i 0 < 2 ^ 16 && i 1 < 2 ^ 16 && i 2 < 256 && i 3 < 256
  | .irq => i 4 < 2 ^ 32
  | .reg => i 0 < 256 && i 1 < 256 && i 2 < 256 && i 3 < 256 && i 4 < 2 ^ 64
  | .asmem => w (i 0) && i 1 < 4 && i 3 < 2 ^ i 0 && i 4 < 2 ^ i 0 && i 6 < 2 ^ i 0
  | .asio => w (i 0) && i 1 < 2 ^ i 0 && i 2 < 2 ^ i 0 && i 4 < 2 ^ i 0
  | .asbus => w (i 0) && i 1 < 2 ^ i 0 && i 2 < 2 ^ i 0
  | _ => false

def isUpperLetterC (c : Char) : Bool := 'A' ≤ c && c ≤ 'Z'
def isHexC (c : Char) : Bool := ('0' ≤ c && c ≤ '9') || ('a' ≤ c && c ≤ 'f') || ('A' ≤ c && c ≤ 'F')

mutual
/-- local conditions at a node + recursively on its children -/
def wf (env : Env) : Aml → Bool
  | .node op ints blobs kids =>
    let i (k : Nat) := ints.getD k 0
    let b (k : Nat) := blobs.getD k []
    let ks := kids.toList
    let kid (j : Nat) : Aml := ks.getD j (.node .zero [] [] .nil)
    let allTerms := ks.all okTerm
    (wfs env kids) &&
    (match op with
     | .zero | .one | .ones => true
     | .u8 => i 0 < 2 ^ 8 | .u16 => i 0 < 2 ^ 16 | .u32 => i 0 < 2 ^ 32 | .u64 | .usize => i 0 < 2 ^ 64
     | .str => !(b 0).contains 0
     | .path => pathOk (b 0) && env.arity (pathOf (b 0)).1 (pathOf (b 0)).2 = 0
     | .eisa =>
       let cs := ints.map Char.ofNat
       cs.length = 7 && (cs.take 3).all isUpperLetterC && (cs.drop 3).all isHexC && b 0 = cs.map (fun c => UInt8.ofNat c.toNat)
     | .uuid =>
       let cs := ints.map Char.ofNat
       cs.length = 36 && (List.range 36).all fun j =>
         if j = 8 ∨ j = 13 ∨ j = 18 ∨ j = 23 then cs.getD j 'x' = '-' else isHexC (cs.getD j 'x')
     | .buf => true
     | .bufterm | .varpkg | .ret | .deref => okTerm (kid 0)
     | .arg => i 0 ≤ 6 | .local_ => i 0 ≤ 7
     | .name => pathOk (b 0) && okTerm (kid 0)
     | .fieldname => NameString.isSeg (b 0)
     | .pkg | .pkgb =>
       ks.length ≤ 255 && allTerms &&
       ks.all (fun a => match a with | .node .call _ _ k => k.length = 0 | _ => true)
     | .rt => ks.all (fun a => match a with | .node o is _ _ => isDesc o && descWfB o is)
     | .mem32 | .io | .irq | .reg | .asmem | .asio | .asbus => descWfB op ints
     | .device | .scope | .scoperaw => pathOk (b 0) && allTerms
     | .else_ => allTerms
     | .method => pathOk (b 0) && i 0 ≤ 7 && allTerms
     | .field => pathOk (b 0) && i 0 < 6 && i 1 < 2 && i 2 < 3 &&
         ks.all (fun a => match a with
           | .node .fnamed _ bl _ => NameString.isSeg (bl.getD 0 [])
           | .node .freserved _ _ _ => true
           | _ => false)
     | .fnamed => NameString.isSeg (b 0)
     | .freserved => true
     | .opregion => pathOk (b 0) && i 0 < 256 && okTerm (kid 0) && okTerm (kid 1)
     | .if_ | .while_ => 1 ≤ ks.length && allTerms
     | .powerres => pathOk (b 0) && i 0 < 256 && i 1 < 65536 && allTerms
     | .eq | .lt | .gt | .ne | .ge | .le => okTerm (kid 0) && okTerm (kid 1)
     | .store => okSuperName (kid 0) && okTerm (kid 1)
     | .mutex => pathOk (b 0) && i 0 < 256
     | .acquire => pathOk (b 0) && i 0 < 65536
     | .release => pathOk (b 0)
     | .notify => okSuperName (kid 0) && okTerm (kid 1)
     | .objtype | .sizeof => okSuperName (kid 0)
     | .add | .concat | .subtract | .multiply | .shl | .shr | .and_ | .nand | .or_ | .nor | .xor | .concatres
     | .mod | .index | .tostring => okTarget (kid 0) && okTerm (kid 1) && okTerm (kid 2)
     | .createdw | .createqw => okNameString (kid 0) && okTerm (kid 1) && okTerm (kid 2)
     | .tobuffer | .tointeger => okTarget (kid 0) && okTerm (kid 1)
     | .createfield => okNameString (kid 0) && okTerm (kid 1) && okTerm (kid 2) && okTerm (kid 3)
     | .mid => okTerm (kid 0) && okTerm (kid 1) && okTerm (kid 2) && okTarget (kid 3)
     | .call => pathOk (b 0) && allTerms && env.arity (pathOf (b 0)).1 (pathOf (b 0)).2 = ks.length)
def wfs (env : Env) : AmlList → Bool
  | .nil => true
  | .cons a r => wf env a && wfs env r
end

end Acpi.Spec.Aml
