/-
  Spec side (ACPI 6.5 §20.2.2):
    NameString  := <RootChar NamePath> | <PrefixPath NamePath>
    RootChar    := '\'  (0x5C)         PrefixPath := Nothing | <'^' PrefixPath>
    NamePath    := NameSeg | DualNamePath | MultiNamePath | NullName
    DualNamePath  := 0x2E NameSeg NameSeg
    MultiNamePath := 0x2F SegCount NameSeg(SegCount)      SegCount := ByteData (1..255)
    NameSeg     := <LeadNameChar NameChar NameChar NameChar>
    LeadNameChar := 'A'-'Z' | '_'     NameChar := DigitChar | LeadNameChar
-/
import Acpi.Basic
namespace Acpi.Spec.NameString

def isLead (b : UInt8) : Bool := (0x41 ≤ b && b ≤ 0x5A) || b = 0x5F
def isNameChar (b : UInt8) : Bool := isLead b || (0x30 ≤ b && b ≤ 0x39)

def isSeg (s : Bytes) : Bool :=
  match s with
  | [a, b, c, d] => isLead a && isNameChar b && isNameChar c && isNameChar d
  | _ => false

/-- read `n` NameSegs -/
def segs : Nat → Bytes → Option (List Bytes × Bytes)
  | 0, bs => some ([], bs)
  | n + 1, bs =>
    let s := bs.take 4
    if isSeg s then
      match segs n (bs.drop 4) with
      | some (ss, r) => some (s :: ss, r)
      | none => none
    else none

/-- NamePath after the optional root character (the crate never emits `^` or NullName;
    NullName is handled by the Target slot of the AML parser). -/
def namePath : Bytes → Option (List Bytes × Bytes)
  | 0x2E :: bs => segs 2 bs
  | 0x2F :: n :: bs => if n = 0 then none else segs n.toNat bs
  | bs => segs 1 bs

/-- `(rooted, segments, rest)` -/
def decode : Bytes → Option (Bool × List Bytes × Bytes)
  | 0x5C :: bs => (namePath bs).map fun (ss, r) => (true, ss, r)
  | bs => (namePath bs).map fun (ss, r) => (false, ss, r)

end Acpi.Spec.NameString
