/-
  Spec side: resource data types (ACPI 6.5 §6.4.2 small items, §6.4.3 large items), in
  placement style, and the walk of a resource template by the descriptors' own length fields.
-/
import Acpi.Spec.Layout
import Acpi.Aml.Term
namespace Acpi.Spec.Res

/-- reference rows of one descriptor the crate can build: `(total size, rows)` -/
def rows (op : Op) (ints : List Nat) : Option (Nat × List Row) :=
  let i (k : Nat) := ints.getD k 0
  let bit (k : Nat) : Nat := if i k ≠ 0 then 1 else 0
  match op with
  | .mem32 =>     -- 32-bit Fixed Memory Range Descriptor (6.4.3.4): tag 0x86, length 9
    some (12, [.num 0 1 0x86, .num 1 2 9, .num 3 1 (bit 0), .num 4 4 (i 1), .num 8 4 (i 2)])
  | .io =>        -- I/O Port Descriptor (6.4.2.5): tag 0x47 (name 8, length 7), 16-bit decode
    some (8, [.num 0 1 0x47, .num 1 1 1, .num 2 2 (i 0), .num 4 2 (i 1), .num 6 1 (i 2), .num 7 1 (i 3)])
  | .irq =>       -- Extended Interrupt Descriptor (6.4.3.6): tag 0x89, length 2 + 4·1, one interrupt
    some (9, [.num 0 1 0x89, .num 1 2 6, .num 3 1 (bit 0 + 2 * bit 1 + 4 * bit 2 + 8 * bit 3), .num 4 1 1, .num 5 4 (i 4)])
  | .reg =>       -- Generic Register Descriptor (6.4.3.7): tag 0x82, length 12
    some (15, [.num 0 1 0x82, .num 1 2 12, .num 3 1 (i 0), .num 4 1 (i 1), .num 5 1 (i 2), .num 6 1 (i 3), .num 7 8 (i 4)])
  | .asmem | .asio | .asbus =>
    -- Word/DWord/QWord Address Space Descriptor (6.4.3.5): tag 88/87/8A, length 3 + 5N + … ;
    -- general flags: MinFixed (bit 2) | MaxFixed (bit 3); range length = max − min + 1
    let n := i 0 / 8
    let tag := if i 0 = 16 then 0x88 else if i 0 = 32 then 0x87 else 0x8A
    let (ty, tf, mn, mx, tr) : Nat × Nat × Nat × Nat × Nat :=
      match op with
      | .asmem => (0, 2 * i 1 + bit 2, i 3, i 4, if i 5 ≠ 0 then i 6 else 0)
      | .asio => (1, 3, i 1, i 2, if i 3 ≠ 0 then i 4 else 0)
      | _ => (2, 0, i 1, i 2, 0)
    some (6 + 5 * n, [.num 0 1 tag, .num 1 2 (3 + 5 * n), .num 3 1 ty, .num 4 1 0x0C, .num 5 1 tf,
      .num 6 n 0, .num (6 + n) n mn, .num (6 + 2 * n) n mx, .num (6 + 3 * n) n tr, .num (6 + 4 * n) n (mx - mn + 1)])
  | _ => none

/-- the reference encoding -/
def encode (op : Op) (ints : List Nat) : Bytes :=
  match rows op ints with
  | some (_, rs) => render rs
  | none => []

/-- framing of one descriptor at the head of `bs`: `(is end tag, size including its header)` -/
def itemSize (bs : Bytes) : Option (Bool × Nat) :=
  match bs with
  | [] => none
  | t :: rest =>
    if t.toNat ≥ 128 then            -- large item: 16-bit length follows
      if rest.length < 2 then none else some (false, 3 + fromLE (rest.take 2))
    else                              -- small item: bits 6:3 name, bits 2:0 length
      some (t.toNat / 8 % 16 = 15, 1 + t.toNat % 8)

/-- walk a template payload: the descriptors in order, the last of which is the end tag and
    ends exactly at the end of the payload -/
def walk : Nat → Bytes → Option (List Bytes)
  | 0, _ => none
  | _, [] => none
  | fuel + 1, bs =>
    match itemSize bs with
    | none => none
    | some (isEnd, sz) =>
      if bs.length < sz then none
      else if isEnd then (if bs.length = sz then some [bs] else none)
      else (walk fuel (bs.drop sz)).map fun r => bs.take sz :: r

end Acpi.Spec.Res
