/-
  Spec side (ACPI 6.5 §20.2.4), written arithmetically and independently of the code:

    PkgLength   := PkgLeadByte | <PkgLeadByte ByteData> | … up to 3 ByteData
    PkgLeadByte := bit 7-6: ByteData count that follows (0-3)
                   bit 5-4: only used if PkgLength < 63 (i.e. reserved, zero, otherwise)
                   bit 3-0: least significant package length nybble
-/
import Acpi.Basic
namespace Acpi.Spec.PkgLength

/-- decode a PkgLength at the head of `bs`: `(value, number of bytes consumed)` -/
def decode : Bytes → Option (Nat × Nat)
  | [] => none
  | b0 :: rest =>
    let follow := b0.toNat / 64
    if follow = 0 then some (b0.toNat % 64, 1)
    else if (b0.toNat / 16) % 4 ≠ 0 then none
    else if rest.length < follow then none
    else some (b0.toNat % 16 + 16 * fromLE (rest.take follow), follow + 1)

/-- largest value a PkgLength of `w` bytes can carry -/
def maxOf (w : Nat) : Nat := if w = 1 then 63 else 2 ^ (8 * w - 4) - 1

end Acpi.Spec.PkgLength
