/-
  Spec side: reference layouts (DESIGN.md appendix B), written from the specifications in
  *placement* style — every field at an explicit byte offset — and independently of the
  model's emission-order field lists.  The meaning of the builder calls is given here in
  *set* semantics (C11): a flag field is the union of the bits of the options invoked,
  whatever their order or multiplicity; a valued option contributes its last value.

  `rows k ctor opts` = `(total size, rows)`; `conforms` checks an image against it:
  size, every row, and that the rows tile the image (nothing else in it).
-/
import Acpi.Tables.Entries
namespace Acpi.Spec

inductive Row where
  | num (off w v : Nat)          -- `v` little-endian in `w` bytes at `off`
  | raw (off : Nat) (bs : Bytes) -- verbatim bytes at `off`
deriving Repr, DecidableEq, Inhabited

namespace Row
def off : Row → Nat | num o _ _ => o | raw o _ => o
def width : Row → Nat | num _ w _ => w | raw _ bs => bs.length
def bytes : Row → Bytes | num _ w v => leN w v | raw _ bs => bs
end Row

/-- reserved bytes (zero) -/
def res (off len : Nat) : Row := .raw off (zeros len)

/-- does `img` carry row `r`? -/
def rowHolds (img : Bytes) (r : Row) : Bool :=
  r.off + r.width ≤ img.length && (img.drop r.off).take r.width == r.bytes

/-- rows listed in ascending offset order cover `[pos, total)` contiguously, without gap or
    overlap -/
def tilesFrom : Nat → Nat → List Row → Bool
  | pos, total, [] => pos == total
  | pos, total, r :: rs => r.off == pos && tilesFrom (pos + r.width) total rs

/-- the rows cover `[0, total)` exactly once -/
def tiles (total : Nat) (rs : List Row) : Bool := tilesFrom 0 total rs

/-- reference encoding: every row's bytes at its offset — for tiling rows, their bytes in
    offset order -/
def render (rs : List Row) : Bytes := rs.flatMap Row.bytes

/-- first violated requirement, if any -/
def conforms (total : Nat) (rs : List Row) (img : Bytes) : Option String :=
  if img.length ≠ total then some s!"size {img.length}, reference encoding has {total}"
  else if ¬ tiles total rs then some "reference rows do not tile the structure (spec table error)"
  else if img = render rs then none
  else match rs.find? (fun r => ¬ rowHolds img r) with
    | some r => some s!"field at offset {r.off} (width {r.width}): expected {r.bytes}, image has {(img.drop r.off).take r.width}"
    | none => some "image differs from the reference encoding"

/-! ### option semantics (sets) -/
section
variable (opts : List Opt)
def has (n : String) : Bool := opts.any (·.name = n)
def lastOf (n : String) : Option Opt := (opts.filter (·.name = n)).getLast?
/-- i-th value of the last call of option `n`, or `d` -/
def lastVal (n : String) (i d : Nat) : Nat := ((lastOf opts n).map (·.arg i)).getD d
/-- value of the last `set=idx.v` for state slot `idx`, or `d` -/
def lastSet (idx d : Nat) : Nat :=
  (((opts.filter (fun o => o.name = "set" ∧ o.arg 0 = idx)).getLast?).map (·.arg 1)).getD d
/-- all values (first argument) pushed by repeated option `n`, in order -/
def pushed (n : String) : List Nat := (opts.filter (·.name = n)).map (·.arg 0)
def bit (n : String) (b : Nat) : Nat := if has opts n then b else 0
end

def gasRows (o : Nat) (space width off acc addr : Nat) : List Row :=
  [.num o 1 space, .num (o + 1) 1 width, .num (o + 2) 1 off, .num (o + 3) 1 acc, .num (o + 4) 8 addr]

/-- Hardware Error Notification structure at `o` from `[type, cwe, poll, vec, ptv, ptw, etv, etw]` -/
def notifRows (o : Nat) (x : Nat → Nat) : List Row :=
  [.num o 1 (x 0), .num (o + 1) 1 28, .num (o + 2) 2 (x 1), .num (o + 4) 4 (x 2), .num (o + 8) 4 (x 3),
   .num (o + 12) 4 (x 4), .num (o + 16) 4 (x 5), .num (o + 20) 4 (x 6), .num (o + 24) 4 (x 7)]

def idmapRows (o : Nat) (t : List Nat) : List Row :=
  let g (i : Nat) := t.getD i 0
  [.num o 4 (g 0), .num (o + 4) 4 (g 1), .num (o + 8) 4 (g 2), .num (o + 12) 4 (g 3),
   .num (o + 16) 4 ((if g 4 ≠ 0 then 1 else 0) + (if g 5 ≠ 0 then 2 else 0) + (if g 6 ≠ 0 then 4 else 0))]

def wireRows (o : Nat) (t : List Nat) : List Row :=
  let g (i : Nat) := t.getD i 0
  [.num o 4 (g 0), .num (o + 4) 2 ((if g 1 ≠ 0 then 1 else 0) + (if g 2 ≠ 0 then 2 else 0)), .num (o + 6) 2 (g 3)]

/-- PCI BDF: bus 15:8, device 7:3, function 2:0 -/
def bdfOf (bus dev fn : Nat) : Nat := bus * 256 + dev * 8 + fn

def arrayRows (base stride w : Nat) (vs : List Nat) : List Row :=
  vs.mapIdx fun i v => .num (base + stride * i) w v

def aerCommon (ty : Nat) (c : EArgs) (opts : List Opt) : List Row :=
  let n := c.num
  let g := n 0 ≠ 0
  [.num 0 2 ty, .num 2 2 0, res 4 2, .num 6 1 (if g then 2 else n 1), .num 7 1 0,
   .num 8 4 (lastSet opts 4 0), .num 12 4 (lastSet opts 5 0),
   .num 16 4 (if g then 0 else n 2), .num 20 2 (if g then 0 else n 3), .num 22 2 (if g then 0 else n 4),
   .num 24 2 (lastSet opts 6 0), res 26 2, .num 28 4 (lastSet opts 7 0), .num 32 4 (lastSet opts 8 0),
   .num 36 4 (lastSet opts 9 0), .num 40 4 (lastSet opts 10 0)]

def ghesCommon (ty : Nat) (c : EArgs) (opts : List Opt) : List Row :=
  let n := c.num
  let lv := lastVal opts
  [.num 0 2 ty, .num 2 2 (n 0), .num 4 2 0xFFFF, .num 6 1 0, .num 7 1 (n 1),
   .num 8 4 (lastSet opts 2 0), .num 12 4 (lastSet opts 3 0), .num 16 4 (lastSet opts 4 0)] ++
  gasRows 20 (lv "gas" 0 0) (lv "gas" 1 0) (lv "gas" 2 0) (lv "gas" 3 0) (lv "gas" 4 0) ++
  notifRows 32 (fun i => lv "notif" i 0) ++ [.num 60 4 (lastSet opts 5 0)]

/-- RQSC resource at `o`: `[rtype, rflags, idkind, a, b]` + vendor blob; returns (size, rows) -/
def qosResRows (o : Nat) (t : List Nat) (blob : Bytes) : Nat × List Row :=
  let g (i : Nat) := t.getD i 0
  let hd (len idt : Nat) : List Row :=
    [.num o 1 (g 0), res (o + 1) 1, .num (o + 2) 2 len, .num (o + 4) 2 (g 1), res (o + 6) 1, .num (o + 7) 1 idt]
  match g 2 with
  | 0 => (20, hd 20 0 ++ [.num (o + 8) 8 (g 3), .num (o + 16) 4 0])
  | 1 => (28, hd 28 1 ++ [.num (o + 8) 8 (g 3), .num (o + 16) 4 0, .num (o + 20) 8 (g 4)])
  | 2 => (20, hd 20 2 ++ [.num (o + 8) 8 (g 3), .num (o + 16) 4 (g 4)])
  | 3 => (20, hd 20 3 ++ [.num (o + 8) 8 (g 3), .num (o + 16) 4 0])
  | _ => (8 + blob.length, hd (8 + blob.length) (g 3) ++ [.raw (o + 8) blob])

/-- the calls made after the last direct write of the PPTT flags field (all calls if there is none) -/
def afterLastFlagsWrite (opts : List Opt) : List Opt :=
  (opts.reverse.takeWhile (fun o => ¬ (o.name = "set" ∧ o.arg 0 = 0))).reverse

/-- PPTT processor flags: the last value written directly to the field (0 if none), together
    with the bits of the flag builders invoked after that write -/
def procFlags (opts : List Opt) : Nat :=
  lastSet opts 0 0 |||
    (let t := afterLastFlagsWrite opts
     bit t "physical" 1 + bit t "valid" 2 + bit t "thread" 4 + bit t "leaf" 8 + bit t "identical" 16)

/-- the reference encoding of one entry built by `ctor` + `opts`; `none`: no reference
    layout is claimed for this kind -/
def rows (k : Kind) (c : EArgs) (opts : List Opt) : Option (Nat × List Row) :=
  let n := c.num
  let b := bit opts
  let ls := lastSet opts
  let lv := lastVal opts
  match k with
  | .lapic => some (8, [.num 0 1 0, .num 1 1 8, .num 2 1 (n 0), .num 3 1 (n 1), .num 4 4 (n 2)])
  | .ioapic => some (12, [.num 0 1 1, .num 1 1 12, .num 2 1 (n 0), res 3 1, .num 4 4 (n 1), .num 8 4 (n 2)])
  | .gicc =>
    let flags := (if n 0 = 1 then 1 else 0) + (if n 0 = 2 then 8 else 0) +
      (if opts.any (fun o => o.name = "pi" ∧ o.arg 1 = 0) then 2 else 0) +
      (if opts.any (fun o => o.name = "mi" ∧ o.arg 1 = 0) then 4 else 0)
    some (82, [.num 0 1 0xB, .num 1 1 82, res 2 2, .num 4 4 (ls 1 0), .num 8 4 (ls 2 0), .num 12 4 flags,
      .num 16 4 (ls 3 0), .num 20 4 (lv "pi" 0 0), .num 24 8 (ls 5 0), .num 32 8 (ls 6 0), .num 40 8 (ls 7 0),
      .num 48 8 (ls 8 0), .num 56 4 (lv "mi" 0 0), .num 60 8 (ls 10 0), .num 68 8 (ls 11 0), .num 76 1 (ls 12 0),
      res 77 1, .num 78 2 (ls 13 0), .num 80 2 (ls 14 0)])
  | .gicd => some (24, [.num 0 1 0xC, .num 1 1 24, res 2 2, .num 4 4 (n 0), .num 8 8 (n 1), .num 16 4 0,
      .num 20 1 (n 2), res 21 3])
  | .gicmsi => some (24, [.num 0 1 0xD, .num 1 1 24, res 2 2, .num 4 4 (ls 0 0), .num 8 8 (ls 1 0),
      .num 16 4 (b "spi" 1), .num 20 2 (lv "spi" 0 0), .num 22 2 (lv "spi" 1 0)])
  | .gicr => some (16, [.num 0 1 0xE, .num 1 1 16, res 2 2, .num 4 8 (n 0), .num 12 4 (n 1)])
  | .its => some (20, [.num 0 1 0xF, .num 1 1 20, res 2 2, .num 4 4 (n 0), .num 8 8 (n 1), res 16 4])
  | .rintc => some (36, [.num 0 1 0x18, .num 1 1 36, .num 2 1 1, res 3 1, .num 4 4 (n 0), .num 8 8 (n 1),
      .num 16 4 (n 2), .num 20 4 (n 3), .num 24 8 (n 4), .num 32 4 (n 5)])
  | .imsic => some (16, [.num 0 1 0x19, .num 1 1 16, .num 2 1 1, res 3 1, .num 4 4 0, .num 8 2 (n 0),
      .num 10 2 (n 1), .num 12 1 (n 2), .num 13 1 (n 3), .num 14 1 (n 4), .num 15 1 (n 5)])
  | .aplic => some (36, [.num 0 1 0x1A, .num 1 1 36, .num 2 1 1, .num 3 1 (n 0), .num 4 4 0, .raw 8 (c.blob 0),
      .num 16 2 (n 1), .num 18 2 (n 5), .num 20 4 (n 2), .num 24 8 (n 3), .num 32 4 (n 4)])
  | .plic => some (36, [.num 0 1 0x1B, .num 1 1 36, .num 2 1 1, .num 3 1 (n 0), .raw 4 (c.blob 0),
      .num 12 2 (n 1), .num 14 2 (n 2), .num 16 4 0, .num 20 4 (n 3), .num 24 8 (n 4), .num 32 4 (n 5)])
  | .mem => some (40, [.num 0 1 1, .num 1 1 40, .num 2 4 (n 0), res 6 2, .num 8 8 (n 1), .num 16 8 (n 2), res 24 4,
      .num 28 4 (b "en" 1 + b "hp" 2 + b "nv" 4), res 32 8])
  | .gi =>
    some (32, [.num 0 1 5, .num 1 1 32, res 2 1, .num 3 1 (if n 1 = 1 then 1 else 0), .num 4 4 (n 0)] ++
      (if n 1 = 1 then [.num 8 2 (n 2), .num 10 1 (n 3), .num 11 1 (n 4 * 8 + n 5), res 12 12]
       else [.raw 8 (c.blob 0), .raw 16 (c.blob 1), res 20 4]) ++
      [.num 24 4 (b "en" 1 + b "arch" 2), res 28 4])
  | .rintcAff => some (20, [.num 0 1 7, .num 1 1 20, res 2 2, .num 4 4 (lv "pd" 0 0), .raw 8 (c.blob 0),
      .num 12 4 (b "en" 1), .num 16 4 (n 0)])
  | .mpd => some (40, [.num 0 2 0, res 2 2, .num 4 4 40, .num 8 2 1, res 10 2, .num 12 4 (n 0), .num 16 4 (n 1), res 20 20])
  | .loc =>
    let I := n 4; let T := n 5
    let cell (i j : Nat) : Nat :=
      (((opts.filter (fun o => o.name = "sete" ∧ o.arg 0 = i ∧ o.arg 1 = j)).getLast?).map (·.arg 2)).getD 0xFFFF
    let lastIdx (nm : String) (i : Nat) : Nat :=
      (((opts.filter (fun o => o.name = nm ∧ o.arg 0 = i)).getLast?).map (·.arg 1)).getD 0
    some (32 + 4 * I + 4 * T + 2 * (I * T),
      [.num 0 2 1, res 2 2, .num 4 4 (32 + 4 * I + 4 * T + 2 * (I * T)),
       .num 8 1 (n 0 + b "mtsr" 0x10 + b "nst" 0x20), .num 9 1 (n 1), .num 10 1 (n 2), res 11 1,
       .num 12 4 I, .num 16 4 T, res 20 4, .num 24 8 (n 3)] ++
      (List.range I).map (fun i => .num (32 + 4 * i) 4 (lastIdx "seti" i)) ++
      (List.range T).map (fun j => .num (32 + 4 * I + 4 * j) 4 (lastIdx "sett" j)) ++
      (List.range I).flatMap (fun i => (List.range T).map fun j =>
        .num (32 + 4 * I + 4 * T + 2 * (i * T + j)) 2 (cell i j)))
  | .msc =>
    let hs := pushed opts "h"
    some (32 + 2 * hs.length, [.num 0 2 2, res 2 2, .num 4 4 (32 + 2 * hs.length), .num 8 4 (n 0), res 12 4,
      .num 16 8 (n 1), .num 24 4 (n 2 + n 3 * 16 + n 4 * 256 + n 5 * 4096 + n 6 * 65536), res 28 2,
      .num 30 2 hs.length] ++ arrayRows 32 2 2 hs)
  | .proc =>
    let rs := pushed opts "cache"
    some (20 + 4 * rs.length, [.num 0 1 0, .num 1 1 (20 + 4 * rs.length), res 2 2,
      .num 4 4 (procFlags opts),
      .num 8 4 (ls 1 (n 0)), .num 12 4 (ls 2 (n 1)), .num 16 4 rs.length] ++ arrayRows 20 4 4 rs)
  | .cache =>
    -- attributes: union of the codes of the values supplied (allocation 1:0, type 3:2, policy 4)
    let orAll (nm : String) (f : Nat → Nat) : Nat := (pushed opts nm).foldl (fun acc v => acc ||| f v) 0
    some (28, [.num 0 1 1, .num 1 1 28, res 2 2,
      .num 4 4 (b "size" 1 + b "sets" 2 + b "assoc" 4 + b "alloc" 8 + b "ctype" 16 + b "wp" 32 + b "line" 64 + b "id" 128),
      .num 8 4 (lv "next" 0 0), .num 12 4 (lv "size" 0 0), .num 16 4 (lv "sets" 0 0), .num 20 1 (lv "assoc" 0 0),
      .num 21 1 (orAll "alloc" id ||| orAll "ctype" (· * 4) ||| orAll "wp" (· * 16)),
      .num 22 2 (lv "line" 0 0), .num 24 4 (lv "id" 0 0)])
  | .isa =>
    let l := (c.blob 0).length
    let tot := if (9 + l) % 2 = 0 then 9 + l else 10 + l
    some (tot, [.num 0 2 0, .num 2 2 tot, .num 4 2 1, .num 6 2 (l + 1), .raw 8 (c.blob 0), res (8 + l) (tot - 8 - l)])
  | .cmo => some (10, [.num 0 2 1, .num 2 2 10, .num 4 2 1, res 6 1, .num 7 1 (n 0), .num 8 1 (n 1), .num 9 1 (n 2)])
  | .mmu => some (8, [.num 0 2 2, .num 2 2 8, .num 4 2 1, res 6 1, .num 7 1 (n 0)])
  | .hart =>
    let hs := n 1 :: pushed opts "cmo"
    some (12 + 4 * hs.length, [.num 0 2 0xFFFF, .num 2 2 (12 + 4 * hs.length), .num 4 2 1, .num 6 2 hs.length,
      .num 8 4 (n 0)] ++ arrayRows 12 4 4 hs)
  | .iommu =>
    let ws := if n 10 ≠ 0 then c.s else []
    some (32 + 8 * ws.length, [.num 0 1 0, .num 1 1 1, .num 2 2 (32 + 8 * ws.length), .num 4 2 (n 0), .num 6 2 0,
      .num 8 8 (if n 1 ≠ 0 then n 2 else 0), .num 16 4 ((if n 3 ≠ 0 then 1 else 0) + (if n 8 ≠ 0 then 2 else 0)),
      .num 20 2 (if n 3 ≠ 0 then n 4 else 0), .num 22 2 (if n 3 ≠ 0 then bdfOf (n 5) (n 6) (n 7) else 0),
      .num 24 4 (if n 8 ≠ 0 then n 9 else 0), .num 28 2 ws.length, .num 30 2 32] ++
      (List.range ws.length).flatMap fun i => wireRows (32 + 8 * i) (ws.getD i []))
  | .pcierc =>
    let ms := if n 4 ≠ 0 then c.s else []
    some (16 + 20 * ms.length, [.num 0 1 1, .num 1 1 1, .num 2 2 (16 + 20 * ms.length), .num 4 2 (n 0), .num 6 2 (n 1),
      .num 8 4 ((if n 2 ≠ 0 then 1 else 0) + (if n 3 ≠ 0 then 2 else 0)), .num 12 2 16, .num 14 2 ms.length] ++
      (List.range ms.length).flatMap fun i => idmapRows (16 + 20 * i) (ms.getD i []))
  | .platform =>
    let ms := if n 1 ≠ 0 then c.s else []
    let l := (c.blob 0).length
    some (13 + l + 20 * ms.length, [.num 0 1 2, .num 1 1 1, .num 2 2 (13 + l + 20 * ms.length), .num 4 2 (n 0), res 6 2,
      .num 8 2 (13 + l), .num 10 2 ms.length, .raw 12 (c.blob 0), res (12 + l) 1] ++
      (List.range ms.length).flatMap fun i => idmapRows (13 + l + 20 * i) (ms.getD i []))
  | .idmap => some (20, idmapRows 0 c.n.toList)
  | .wire => some (8, wireRows 0 c.n.toList)
  | .pcirange => some (24, [.num 0 1 1, res 1 1, .num 2 2 24, .num 4 4 (bdfOf (n 1) (n 2) (n 3)), .num 8 2 (n 0),
      .num 10 2 (n 4), .num 12 2 (bdfOf (n 1) (n 2) (n 3)), .num 14 2 (bdfOf (n 5) (n 6) (n 7)), .num 16 2 (n 8), res 18 6])
  | .mmioep => some (24, [.num 0 1 2, res 1 1, .num 2 2 24, .num 4 4 (n 0), .num 8 8 (n 1), .num 16 2 (n 2), res 18 6])
  | .pciiommu => some (16, [.num 0 1 3, res 1 1, .num 2 2 16, .num 4 2 (n 0), .num 6 2 (bdfOf (n 1) (n 2) (n 3)), res 8 8])
  | .mmioiommu => some (16, [.num 0 1 4, res 1 1, .num 2 2 16, res 4 4, .num 8 8 (n 0)])
  | .chbs => some (32, [.num 0 1 0, res 1 1, .num 2 2 32, .num 4 4 (n 0), .num 8 4 (n 1), res 12 4, .num 16 8 (n 2),
      .num 24 8 (if n 1 = 0 then 0x2000 else 0x10000)])
  | .cfmws =>
    let ts := pushed opts "target"
    some (36 + 4 * ts.length, [.num 0 1 1, res 1 1, .num 2 2 (36 + 4 * ts.length), res 4 4, .num 8 8 (n 0), .num 16 8 (n 1),
      .num 24 1 (n 4), .num 25 1 (n 2), res 26 2, .num 28 4 (n 3),
      .num 32 2 (b "t2" 1 + b "t3" 2 + b "vol" 4 + b "pers" 8 + b "fixed" 16), .num 34 2 (n 5)] ++ arrayRows 36 4 4 ts)
  | .cxims =>
    let ms := pushed opts "map"
    some (8 + 8 * ms.length, [.num 0 1 2, res 1 1, .num 2 2 (8 + 8 * ms.length), res 4 2, .num 6 1 (n 0),
      .num 7 1 ms.length] ++ arrayRows 8 8 8 ms)
  | .rdpas =>    -- the record-length row is left out: the CXL text I can reproduce is inconsistent (known finding)
    some (17, [.num 0 1 3, res 1 1, .raw 2 [16, 0], .num 4 2 (n 0), .num 6 2 (bdfOf (n 1) (n 2) (n 3)), .num 8 1 (n 4), .num 9 8 (n 5)])
  | .aerrp => some (48, aerCommon 6 c opts ++ [.num 44 4 (ls 11 0)])
  | .aerdev => some (44, aerCommon 7 c opts)
  | .aerbr => some (56, aerCommon 8 c opts ++ [.num 44 4 (ls 11 0), .num 48 4 (ls 12 0), .num 52 4 (ls 13 0)])
  | .ghes => some (64, ghesCommon 9 c opts)
  | .ghesv2 => some (92, ghesCommon 10 c opts ++
      gasRows 64 (lv "gas2" 0 0) (lv "gas2" 1 0) (lv "gas2" 2 0) (lv "gas2" 3 0) (lv "gas2" 4 0) ++
      [.num 76 8 (ls 25 0), .num 84 8 (ls 26 0)])
  | .notif => some (28, notifRows 0 (fun i => if i = 0 then n 0 else ls (i + 1) 0))
  | .ges =>
    let st := (if n 1 = 1 then 1 else 0) + (if n 0 = 1 then 2 else 0) + (if n 1 > 1 then 4 else 0) + (if n 0 > 1 then 8 else 0)
    some (20, [.num 0 4 st, .num 4 4 0, .num 8 4 0, .num 12 4 0, .num 16 4 (n 2)])
  | .ged =>      -- ACPI 6.5 Table 18.12: Section Type is a 16-byte GUID (the crate has a u16: known finding)
    let data := (c.b.toList.drop 3).flatten       -- `add_data`: the section body follows the 72-byte head
    some (72 + data.length, [.raw 0 (leN 16 (n 0)), .num 16 4 (n 1), .num 20 2 (n 2), .num 22 1 (n 3), .num 23 1 (n 4), .num 24 4 (n 5),
      .raw 28 (c.blob 0), .raw 44 (c.blob 1), .raw 64 (c.blob 2)] ++ (if data.isEmpty then [] else [.raw 72 data]))
  | .ecam => some (16, [.num 0 8 (n 0), .num 8 2 (n 1), .num 10 1 (n 2), .num 11 1 (n 3), res 12 4])
  | .xsdtEntry => some (8, [.num 0 8 (n 0)])
  | .qosctrl =>
    let (tot, rrows) := (List.range c.s.length).foldl (fun (acc : Nat × List Row) i =>
      let (sz, rs) := qosResRows acc.1 (c.s.getD i []) (c.blob i)
      (acc.1 + sz, acc.2 ++ rs)) (28, [])
    some (tot, [.num 0 1 (n 0), res 1 1, .num 2 2 tot] ++ gasRows 4 (n 1) (n 2) (n 3) (n 4) (n 5) ++
      [.num 16 4 (n 6), .num 20 4 (n 7), .num 24 2 (n 8), .num 26 2 c.s.length] ++ rrows)
  | .gas => some (12, gasRows 0 (n 0) (n 1) (n 2) (n 3) (n 4))

/-- the C04/C11/C12 oracle on one entry as the implementation serialised it -/
def layoutOracle (k : Kind) (c : EArgs) (opts : List Opt) (img : Bytes) : Option String :=
  match rows k c opts with
  | none => none
  | some (total, rs) => conforms total rs img

end Acpi.Spec
