/-
  Spec side (ACPI 6.5 §20.2.3): ComputationalData integer constants
    ZeroOp 0x00 | OneOp 0x01 | BytePrefix 0x0A ByteData | WordPrefix 0x0B WordData |
    DWordPrefix 0x0C DWordData | QWordPrefix 0x0E QWordData      (data little-endian)
-/
import Acpi.Basic
namespace Acpi.Spec.Int

/-- the narrowest encoding of `n` (meaningful for `n < 2^64`) -/
def enc (n : Nat) : Bytes :=
  if n = 0 then [0x00]
  else if n = 1 then [0x01]
  else if n < 2 ^ 8 then 0x0A :: leN 1 n
  else if n < 2 ^ 16 then 0x0B :: leN 2 n
  else if n < 2 ^ 32 then 0x0C :: leN 4 n
  else 0x0E :: leN 8 n

/-- width in bytes of the data that follows a prefix byte -/
def prefixWidth (b : UInt8) : Option Nat :=
  if b = 0x0A then some 1 else if b = 0x0B then some 2
  else if b = 0x0C then some 4 else if b = 0x0E then some 8 else none

/-- decode an integer constant at the head of `bs` -/
def decode : Bytes → Option (Nat × Bytes)
  | [] => none
  | b :: rest =>
    if b = 0x00 then some (0, rest)
    else if b = 0x01 then some (1, rest)
    else match prefixWidth b with
      | none => none
      | some w => if rest.length < w then none else some (fromLE (rest.take w), rest.drop w)

/-- number of bytes the narrowest encoding may take for a value below `2^bits` -/
def isNarrowest (n : Nat) (bs : Bytes) : Prop :=
  (n = 0 → bs = [0x00]) ∧ (n = 1 → bs = [0x01]) ∧
  (2 ≤ n → n < 2 ^ 8 → bs.length = 2) ∧ (2 ^ 8 ≤ n → n < 2 ^ 16 → bs.length = 3) ∧
  (2 ^ 16 ≤ n → n < 2 ^ 32 → bs.length = 5) ∧ (2 ^ 32 ≤ n → bs.length = 9)

end Acpi.Spec.Int
