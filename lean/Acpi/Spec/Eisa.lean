/-
  Spec side.
  * EISA ID compression (ACPI 6.5 §19.3.4 "EISAID"): the 7-character id "UUUNNNN" is a
    32-bit integer stored little-endian whose bytes are
      byte 0: bit 7 zero, bits 6-2 first letter (−0x40), bits 1-0 second letter bits 4-3
      byte 1: bits 7-5 second letter bits 2-0, bits 4-0 third letter
      byte 2: hex digits 1 and 2,   byte 3: hex digits 3 and 4.
  * ToUUID (§19.6.142): "aabbccdd-eeff-gghh-iijj-kkllmmnnoopp" is the buffer
      dd cc bb aa ff ee hh gg ii jj kk ll mm nn oo pp.
-/
import Acpi.Basic
namespace Acpi.Spec.Eisa

def hexUpper (n : Nat) : Char := if n < 10 then Char.ofNat (48 + n) else Char.ofNat (55 + n)
def hexLower (n : Nat) : Char := if n < 10 then Char.ofNat (48 + n) else Char.ofNat (87 + n)

/-- decompress the integer (whose little-endian bytes are b0..b3) to the 7 characters -/
def decompress (v : Nat) : List Char :=
  let b0 := v % 256
  let b1 := v / 256 % 256
  let b2 := v / 65536 % 256
  let b3 := v / 16777216 % 256
  [Char.ofNat (64 + b0 / 4 % 32), Char.ofNat (64 + (b0 % 4) * 8 + b1 / 32), Char.ofNat (64 + b1 % 32),
   hexUpper (b2 / 16), hexUpper (b2 % 16), hexUpper (b3 / 16), hexUpper (b3 % 16)]

def byteLower (b : UInt8) : List Char := [hexLower (b.toNat / 16), hexLower (b.toNat % 16)]

/-- the canonical lower-case UUID string of a 16-byte ToUUID buffer -/
def uuidOfBuffer (b : Bytes) : Option (List Char) :=
  match b with
  | [b0, b1, b2, b3, b4, b5, b6, b7, b8, b9, b10, b11, b12, b13, b14, b15] =>
    some (byteLower b3 ++ byteLower b2 ++ byteLower b1 ++ byteLower b0 ++ ['-'] ++
          byteLower b5 ++ byteLower b4 ++ ['-'] ++ byteLower b7 ++ byteLower b6 ++ ['-'] ++
          byteLower b8 ++ byteLower b9 ++ ['-'] ++ byteLower b10 ++ byteLower b11 ++
          byteLower b12 ++ byteLower b13 ++ byteLower b14 ++ byteLower b15)
  | _ => none

/-- compression (the inverse direction of `decompress`), for canonical ids "UUUNNNN" -/
def hexVal (c : Char) : Nat :=
  if '0' ≤ c ∧ c ≤ '9' then c.toNat - 48 else if 'a' ≤ c ∧ c ≤ 'f' then c.toNat - 87 else c.toNat - 55

def compress (cs : List Char) : Nat :=
  let l (k : Nat) := (cs.getD k 'A').toNat - 64
  let d (k : Nat) := hexVal (cs.getD k '0')
  let b0 := l 0 * 4 + l 1 / 8
  let b1 := (l 1 % 8) * 32 + l 2
  let b2 := d 3 * 16 + d 4
  let b3 := d 5 * 16 + d 6
  b0 + 256 * b1 + 65536 * b2 + 16777216 * b3

/-- ToUUID: "aabbccdd-eeff-gghh-iijj-kkllmmnnoopp" ↦ dd cc bb aa ff ee hh gg ii jj kk ll mm nn oo pp -/
def uuidToBuffer (cs : List Char) : Bytes :=
  let h (i : Nat) : UInt8 := UInt8.ofNat (16 * hexVal (cs.getD i '0') + hexVal (cs.getD (i + 1) '0'))
  [h 6, h 4, h 2, h 0, h 11, h 9, h 16, h 14, h 19, h 21, h 24, h 26, h 28, h 30, h 32, h 34]

end Acpi.Spec.Eisa
