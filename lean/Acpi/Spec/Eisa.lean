/-
  Spec side.
  * EISA ID compression (ACPI 6.5 §19.3.4 "EISAID"): the 7-character id "UUUNNNN" is a
    32-bit integer stored little-endian whose bytes are
      byte 0: bit 7 zero, bits 6-2 first letter (−0x40), bits 1-0 second letter bits 4-3
      byte 1: bits 7-5 second letter bits 2-0, bits 4-0 third letter
      byte 2: hex digits 1 and 2,   byte 3: hex digits 3 and 4.
  * ToUUID (§19.6.142): "aabbccdd-eeff-gghh-iijj-kkllmmnnoopp" is the buffer
      dd cc bb aa ff ee hh gg ii jj kk ll mm nn oo pp.
-/
import Acpi.Basic
namespace Acpi.Spec.Eisa

def hexUpper (n : Nat) : Char := if n < 10 then Char.ofNat (48 + n) else Char.ofNat (55 + n)
def hexLower (n : Nat) : Char := if n < 10 then Char.ofNat (48 + n) else Char.ofNat (87 + n)

/-- decompress the integer (whose little-endian bytes are b0..b3) to the 7 characters -/
def decompress (v : Nat) : List Char :=
  let b0 := v % 256
  let b1 := v / 256 % 256
  let b2 := v / 65536 % 256
  let b3 := v / 16777216 % 256
  [Char.ofNat (64 + b0 / 4 % 32), Char.ofNat (64 + (b0 % 4) * 8 + b1 / 32), Char.ofNat (64 + b1 % 32),
   hexUpper (b2 / 16), hexUpper (b2 % 16), hexUpper (b3 / 16), hexUpper (b3 % 16)]

def byteLower (b : UInt8) : List Char := [hexLower (b.toNat / 16), hexLower (b.toNat % 16)]

/-- the canonical lower-case UUID string of a 16-byte ToUUID buffer -/
def uuidOfBuffer (b : Bytes) : Option (List Char) :=
  match b with
  | [b0, b1, b2, b3, b4, b5, b6, b7, b8, b9, b10, b11, b12, b13, b14, b15] =>
    some (byteLower b3 ++ byteLower b2 ++ byteLower b1 ++ byteLower b0 ++ ['-'] ++
          byteLower b5 ++ byteLower b4 ++ ['-'] ++ byteLower b7 ++ byteLower b6 ++ ['-'] ++
          byteLower b8 ++ byteLower b9 ++ ['-'] ++ byteLower b10 ++ byteLower b11 ++
          byteLower b12 ++ byteLower b13 ++ byteLower b14 ++ byteLower b15)
  | _ => none

end Acpi.Spec.Eisa
