/-
  Acpi.Spec.AmlFrame — the C07 oracles for real AML objects (specification side): the
  PkgLength that follows the opcode of a length-prefixed object, and the widths of field-list
  entries, read back with the specification's decoder (Acpi.Spec.PkgLength).  Run by the driver
  on the implementation's bytes; Props/C07/Objects.lean proves they hold of the model's encoder.
-/
import Acpi.Aml.Term
import Acpi.Spec.PkgLength
namespace Acpi.Spec
open Acpi

/-- opcode width of the objects that carry a PkgLength right after their opcode -/
def pkgLenOpcodeWidth : Op → Option Nat
  | .buf | .bufterm | .uuid | .pkg | .pkgb | .varpkg | .rt | .scope | .scoperaw | .method
  | .if_ | .while_ | .else_ => some 1
  | .device | .field | .powerres => some 2
  | _ => none

/-- C07 on a real length-prefixed object at the root: the PkgLength after the opcode decodes, by
    the specification's rule, to the number of bytes from its own first byte to the end of the
    object, in the shortest encoding that can include its own size -/
def c07Object (op : Op) (bs : Bytes) : Option String :=
  match pkgLenOpcodeWidth op with
  | none => none
  | some ow =>
    let rest := bs.drop ow
    match Spec.PkgLength.decode rest with
    | none => some "no PkgLength decodes after the opcode"
    | some (total, w) =>
      if total ≠ rest.length then some s!"PkgLength decodes to {total}; from its first byte to the end of the object there are {rest.length} bytes"
      else if (List.range (w - 1)).any (fun w' => (total - w) + (w' + 1) ≤ Spec.PkgLength.maxOf (w' + 1)) then
        some s!"PkgLength of width {w} is not the shortest that can include its own size (content {total - w})"
      else none

/-- C07 on the entries of a Field at the root: every named / reserved entry's width, which
    excludes the prefix itself, decodes to exactly the width given.  `widths` = the entries'
    bit widths with `true` for a named entry -/
def c07FieldEntries (bs : Bytes) (nameLen : Nat) (widths : List (Bool × Nat)) : Option String :=
  match Spec.PkgLength.decode (bs.drop 2) with
  | none => none            -- reported by `c07Object`
  | some (_, w) =>
    let rec go (fuel : Nat) (rest : Bytes) (ws : List (Bool × Nat)) (i : Nat) : Option String :=
      match fuel, ws with
      | _, [] => if rest.isEmpty then none else some s!"{rest.length} bytes after the last field entry"
      | 0, _ => some "out of fuel"
      | fuel + 1, (named, bits) :: ws =>
        let rest := if named then rest.drop 4 else rest.drop 1
        match Spec.PkgLength.decode rest with
        | none => some s!"entry #{i}: width does not decode"
        | some (v, pw) =>
          if v ≠ bits then some s!"entry #{i}: width decodes to {v}, given {bits}" else go fuel (rest.drop pw) ws (i + 1)
    go (widths.length + 1) (bs.drop (2 + w + nameLen + 1)) widths 0

end Acpi.Spec
