/-
  C02 — declared table length equals the number of bytes emitted (engine part).
-/
import Acpi.Tbl
import Acpi.Lemmas.Tbl
namespace Acpi.C02
open Acpi

/-- well-formed static parts: 4-byte signature, 6/8-byte OEM ids -/
def CfgWf (c : TblCfg) (o : Oem) : Prop := c.sig.length = 4 ∧ o.id.length = 6 ∧ o.table.length = 8

/-- **C02 (engine)**: if every entry's claimed length (the Rust `len()` helper) is the number
    of bytes it serialises to, then after every add history the 32-bit little-endian Length
    field at offset 4 equals the size of the image (for images below 4 GiB). -/
theorem tbl_length_field (c : TblCfg) (o : Oem) (hw : CfgWf c o) (es : List (Bytes × Nat))
    (hcl : ∀ e ∈ es, e.2 = e.1.length) (hs : List Nat) (t : Tbl)
    (h : runAdds (Tbl.new c o) es = some (hs, t)) (hlt : t.image.length < 2 ^ 32) :
    readAt t.image 4 4 = some t.image.length := by
  obtain ⟨hsig, hid, htb⟩ := hw
  obtain ⟨hcfg, hoem, hbody, -, hlen, -⟩ := runAdds_struct es _ hs t h
  simp only [Tbl.new_cfg, Tbl.new_oem, Tbl.new_body, Tbl.new_length, List.nil_append] at hcfg hoem hbody hlen
  have hil : t.image.length = Tbl.firstOffset c + ((es.map (·.2)).sum) := by
    rw [Tbl.image_eq, List.length_append,
      Tbl.length_head t (hcfg ▸ hsig) (hoem ▸ hid) (hoem ▸ htb), hcfg, hbody,
      length_flatten_map_fst es hcl]
  rw [readAt_length t (hcfg ▸ hsig), hlen, ← UInt32.ofNat_add, UInt32.toNat_ofNat', ← hil,
    Nat.mod_eq_of_lt hlt]

/-- and the image is exactly header part ++ the entries in insertion order -/
theorem tbl_image_body (c : TblCfg) (o : Oem) (es : List (Bytes × Nat)) (hs : List Nat) (t : Tbl)
    (h : runAdds (Tbl.new c o) es = some (hs, t)) :
    t.image = t.head ++ (es.map Prod.fst).flatten ∧ t.count = es.length := by
  obtain ⟨-, -, hbody, hcount, -⟩ := runAdds_struct es _ hs t h
  simp only [Tbl.new_body, Tbl.new_count, List.nil_append, Nat.zero_add] at hbody hcount
  exact ⟨by rw [Tbl.image_eq, hbody], hcount⟩

end Acpi.C02
