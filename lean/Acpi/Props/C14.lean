/-
  C14 — output is deterministic and independent of the receiving sink.

  Determinism itself is `enc` being a *function* of the object: true of the model by
  construction, tied to the code by the correspondence check (every object of every stream
  is serialised twice and into six sinks).  What is proved here is sink independence:
  only the concatenation of the bytes matters.
-/
import Acpi.Sink
import Acpi.Lemmas.Sink
import Acpi.Props.C17
import Acpi.Tables.Fields
import Acpi.Tables.Entries
namespace Acpi.C14
open Acpi Sink

/-- **C14 (chunking irrelevance)**: for any sink lawful w.r.t. an abstraction `abs`, feeding a
    call list appends exactly the bytes the calls denote — so two call lists with the same
    concatenation are indistinguishable, however they chunk the bytes across byte / word /
    dword / qword / slice entry points. -/
theorem chunking_irrelevant {σ : Type} (S : Sink σ) (abs : σ → Bytes) (h : Lawful S abs) (s : σ)
    (cs cs' : List SinkCall) (he : flatten cs = flatten cs') :
    abs (feed S s cs) = abs (feed S s cs') := by
  rw [feed_lawful S abs h, feed_lawful S abs h, he]

/-- the built-in vector sink (`impl AmlSink for Vec<u8>`, both overrides) is lawful -/
theorem vec_sink_lawful : Lawful vecSink id := vecSink_lawful

/-- a user sink implementing only the mandatory `byte` (by appending it) is lawful through the
    trait's default `word/dword/qword/vec` -/
theorem byte_only_sink_lawful {σ : Type} (byte : σ → UInt8 → σ) (abs : σ → Bytes)
    (hb : ∀ s b, abs (byte s b) = abs s ++ [b]) : Lawful (ofByte byte) abs :=
  ofByte_lawful byte abs hb

/-- `PackageBuilder` as a sink (`byte` pushes, `vec` extends; the rest default): lawful on its
    `data` vector -/
def pkgBuilderSink : Sink Bytes where
  byte s b := s ++ [b]
  word s w := s ++ u16le w
  dword s d := s ++ u32le d
  qword s q := s ++ u64le q
  vec s v := s ++ v

theorem pkg_builder_sink_lawful : Lawful pkgBuilderSink id where
  byte _ _ := rfl
  word _ _ := rfl
  dword _ _ := rfl
  qword _ _ := rfl
  vec _ _ := rfl

/-- the `Checksum` sink: its abstraction is the running sum — feeding any call list moves the
    raw value by the sum of the concatenation, whatever the chunking -/
theorem checksum_sink (c : Cks) (cs : List SinkCall) :
    (feed Cks.sink c cs).raw = c.raw + sum8 (flatten cs) := by
  induction cs generalizing c with
  | nil => simp [feed, flatten, Cks.raw]
  | cons k ks ih =>
    have := ih (feed1 Cks.sink c k)
    simp only [feed, List.foldl_cons] at this ⊢
    rw [this, C17.sink_raw]
    simp [flatten, UInt8.add_assoc]

/-- **C14 (byte-sum helper)**: `u8sum(x)` — serialise into a fresh `Checksum`, read the raw
    value — is the arithmetic sum of the serialised bytes, for every call list an object may
    emit. -/
theorem u8sum_is_sum (cs : List SinkCall) : (feed Cks.sink {} cs).raw = sum8 (flatten cs) := by
  have := checksum_sink {} cs
  simpa [Cks.raw] using this

/-- **C14 (raw form = serialised form)**: in the model a structure that can be added through its
    in-memory form (`as_bytes()` of a `#[repr(C, packed)]` struct) has *one* description, its
    field sequence; both `as_bytes()` and `to_aml_bytes` are `encFields (fields k a)`, and the
    sink calls a hand-written serialiser makes (`Fld.toCall`) flatten to the same bytes. -/
theorem leN_mod (w v : Nat) : leN w (v % 256 ^ w) = leN w v := by
  induction w generalizing v with
  | zero => rfl
  | succ w ih =>
    simp only [leN]
    have h1 : v % 256 ^ (w + 1) % 256 = v % 256 := by
      rw [Nat.pow_succ, Nat.mul_comm]; exact Nat.mod_mul_right_mod v 256 (256 ^ w)
    have h2 : v % 256 ^ (w + 1) / 256 = (v / 256) % 256 ^ w := by
      rw [Nat.pow_succ, Nat.mul_comm, Nat.mod_mul_right_div_self]
    rw [h1, h2, ih]

theorem calls_flatten_to_fields (fs : List Fld)
    (hw : ∀ f ∈ fs, match f with | .num w _ => w = 1 ∨ w = 2 ∨ w = 4 ∨ w = 8 | .raw _ => True) :
    flatten (fs.map Fld.toCall) = encFields fs := by
  induction fs with
  | nil => rfl
  | cons f fs ih =>
    have hf := hw f (by simp)
    have := ih (fun g hg => hw g (by simp [hg]))
    simp only [List.map_cons, flatten, List.flatMap_cons, encFields] at this ⊢
    rw [this]
    congr 1
    cases f with
    | raw bs => rfl
    | num w v =>
      simp only at hf
      rcases hf with rfl | rfl | rfl | rfl
      · simp only [Fld.toCall, SinkCall.bytes, Fld.bytes, leN]
        congr 1
        apply UInt8.toNat_inj.mp; simp
      · simp only [Fld.toCall, SinkCall.bytes, Fld.bytes, u16le_eq_leN, UInt16.toNat_ofNat']
        exact leN_mod 2 v
      · simp only [Fld.toCall, SinkCall.bytes, Fld.bytes, u32le_eq_leN, UInt32.toNat_ofNat']
        exact leN_mod 4 v
      · simp only [Fld.toCall, SinkCall.bytes, Fld.bytes, u64le_eq_leN, UInt64.toNat_ofNat']
        exact leN_mod 8 v

end Acpi.C14
