/-
  C08 — integer constants round-trip and use the narrowest AML encoding.
-/
import Acpi.Aml.Int
import Acpi.Spec.Int
import Acpi.Lemmas.Basic
namespace Acpi.C08
open Acpi Spec.Int

theorem encU8_spec (v : UInt8) : encU8 v = enc v.toNat := by
  unfold encU8 enc
  have h := v.toNat_lt
  by_cases h0 : v = 0
  · subst h0; simp
  · by_cases h1 : v = 1
    · subst h1; simp
    · have e0 : v.toNat ≠ 0 := fun e => h0 (UInt8.toNat_inj.mp (by simpa using e))
      have e1 : v.toNat ≠ 1 := fun e => h1 (UInt8.toNat_inj.mp (by simpa using e))
      have : v.toNat < 2 ^ 8 := by omega
      simp [h0, h1, e0, e1, this, leN]

theorem encU16_spec (v : UInt16) : encU16 v = enc v.toNat := by
  unfold encU16
  by_cases h : v ≤ 255
  · have hl : v.toNat ≤ 255 := by simpa [UInt16.le_iff_toNat_le] using h
    rw [if_pos h, encU8_spec]
    congr 1
    simp [UInt16.toNat_toUInt8]; omega
  · have hl : ¬ v.toNat ≤ 255 := by simpa [UInt16.le_iff_toNat_le] using h
    have hu := v.toNat_lt
    rw [if_neg h, u16le_eq_leN]
    unfold enc
    have a : v.toNat ≠ 0 := by omega
    have b : v.toNat ≠ 1 := by omega
    have c : ¬ v.toNat < 2 ^ 8 := by omega
    have d : v.toNat < 2 ^ 16 := by omega
    simp [a, b, c, d]

theorem encU32_spec (v : UInt32) : encU32 v = enc v.toNat := by
  unfold encU32
  by_cases h : v ≤ 65535
  · have hl : v.toNat ≤ 65535 := by simpa [UInt32.le_iff_toNat_le] using h
    rw [if_pos h, encU16_spec]
    congr 1
    simp [UInt32.toNat_toUInt16]; omega
  · have hl : ¬ v.toNat ≤ 65535 := by simpa [UInt32.le_iff_toNat_le] using h
    have hu := v.toNat_lt
    rw [if_neg h, u32le_eq_leN]
    unfold enc
    have a : v.toNat ≠ 0 := by omega
    have b : v.toNat ≠ 1 := by omega
    have c : ¬ v.toNat < 2 ^ 8 := by omega
    have d : ¬ v.toNat < 2 ^ 16 := by omega
    have e : v.toNat < 2 ^ 32 := by omega
    simp [a, b, c, d, e]

theorem encU64_spec (v : UInt64) : encU64 v = enc v.toNat := by
  unfold encU64
  by_cases h : v ≤ 4294967295
  · have hl : v.toNat ≤ 4294967295 := by simpa [UInt64.le_iff_toNat_le] using h
    rw [if_pos h, encU32_spec]
    congr 1
    simp [UInt64.toNat_toUInt32]; omega
  · have hl : ¬ v.toNat ≤ 4294967295 := by simpa [UInt64.le_iff_toNat_le] using h
    rw [if_neg h, u64le_eq_leN]
    unfold enc
    have a : v.toNat ≠ 0 := by omega
    have b : v.toNat ≠ 1 := by omega
    have c : ¬ v.toNat < 2 ^ 8 := by omega
    have d : ¬ v.toNat < 2 ^ 16 := by omega
    have e : ¬ v.toNat < 2 ^ 32 := by omega
    simp [a, b, c, d, e]

/-- **C08(a)**: every entry point emits the specification's narrowest encoding of the
    numeric value — hence the same value gives identical bytes whichever type carried it. -/
theorem all_entry_points (n : Nat) :
    (∀ v : UInt8, v.toNat = n → encU8 v = enc n) ∧
    (∀ v : UInt16, v.toNat = n → encU16 v = enc n) ∧
    (∀ v : UInt32, v.toNat = n → encU32 v = enc n) ∧
    (∀ v : UInt64, v.toNat = n → encU64 v = enc n) ∧
    (∀ v : UInt64, v.toNat = n → encUsize v = enc n) :=
  ⟨fun v h => h ▸ encU8_spec v, fun v h => h ▸ encU16_spec v, fun v h => h ▸ encU32_spec v,
   fun v h => h ▸ encU64_spec v, fun v h => h ▸ encU64_spec v⟩

/-- **C08(b)** round trip: the specification's decoder recovers the value and leaves the
    rest of the stream untouched. -/
theorem decode_enc (n : Nat) (rest : Bytes) (h : n < 2 ^ 64) :
    decode (enc n ++ rest) = some (n, rest) := by
  unfold enc
  split
  · simp [decode, *]
  · split
    · simp [decode, *]
    · split
      · simp [decode, prefixWidth, List.take_left', List.drop_left', fromLE_leN]; omega
      · split
        · simp [decode, prefixWidth, List.take_left', List.drop_left', fromLE_leN]; omega
        · split
          · simp [decode, prefixWidth, List.take_left', List.drop_left', fromLE_leN]; omega
          · simp [decode, prefixWidth, List.take_left', List.drop_left', fromLE_leN]; omega

/-- **C08(c)** narrowest: the encoding has the length of the smallest form that holds `n`. -/
theorem enc_narrowest (n : Nat) : isNarrowest n (enc n) := by
  unfold isNarrowest enc
  refine ⟨?_, ?_, ?_, ?_, ?_, ?_⟩ <;> intros <;> (repeat' split) <;> simp_all <;> omega

example : encU64 0x1234 = [0x0B, 0x34, 0x12] := by decide
example : decode (encU32 70000 ++ [9]) = some (70000, [9]) := by decide

end Acpi.C08
