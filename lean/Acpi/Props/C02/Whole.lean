/-
  C02, whole tables: Length field = image size for complete builder programs.
-/
import Acpi.Tables.Whole
import Acpi.Props.C02
import Acpi.Props.C02.Entries
import Acpi.Props.C02.Fixed
import Acpi.Lemmas.Whole
namespace Acpi.C02
open Acpi

/-- **C02 (whole tables)**: for every table, every program whose entries stay within their Rust
    types (`entryWf`) and contain no CEDT RDPAS record (recorded finding), if the program does not
    panic then the 32-bit Length at offset 4 is the size of the emitted image (below 4 GiB). -/
theorem whole_length_field (T : TableId) (o : Oem) (ho : OemWf o) (ops : List AddOp)
    (hwf : ∀ op ∈ ops, op.k ≠ .rdpas ∧ entryWf op.k op.ctor op.opts = true)
    (hs : List Nat) (t : Tbl) (h : runTable T o ops = some (hs, t))
    (hlt : t.image.length < 2 ^ 32) :
    readAt t.image 4 4 = some t.image.length := by
  obtain ⟨-, bs, hb, hr⟩ := Whole.runTable_inv h
  exact tbl_length_field T.cfg o (Whole.cfgWf T o ho) _ (Whole.claimed_eq ops hwf bs hb) hs t hr hlt

end Acpi.C02
