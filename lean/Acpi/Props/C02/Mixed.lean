/-
  C02, mixed programs: Length field = image size for whole-table programs whose add calls mix
  modelled entries with opaque ones (Acpi.Tables.Mixed).
-/
import Acpi.Tables.Mixed
import Acpi.Props.C02
import Acpi.Props.C02.Whole
import Acpi.Lemmas.Mixed
namespace Acpi.C02
open Acpi

/-- **C02 (mixed programs)**: for every table, every mixed program whose MODELLED entries stay
    within their Rust types (`entryWf`) and are not CEDT RDPAS records (recorded finding) — the
    hypotheses of `whole_length_field`, nothing being asked of the opaque entries' bytes — if the
    program does not panic then the 32-bit Length at offset 4 is the size of the emitted image
    (below 4 GiB). -/
theorem mixed_length_field (T : TableId) (o : Oem) (ho : OemWf o) (ops : List MOp)
    (hwf : ∀ op, MOp.modelled op ∈ ops → op.k ≠ .rdpas ∧ entryWf op.k op.ctor op.opts = true)
    (hs : List Nat) (t : Tbl) (h : runMixed T o ops = some (hs, t))
    (hlt : t.image.length < 2 ^ 32) :
    readAt t.image 4 4 = some t.image.length := by
  obtain ⟨-, es, hb, hr⟩ := Mixed.runMixed_inv h
  exact tbl_length_field T.cfg o (Whole.cfgWf T o ho) es (Mixed.claimed_eq ops hwf es hb) hs t hr hlt

/-- the image of a mixed program is the table head followed by every call's bytes in call order,
    and the entry count is the number of calls (opaque ones included) -/
theorem mixed_image_body (T : TableId) (o : Oem) (ops : List MOp)
    (es : List (Bytes × Nat)) (hb : buildMixed ops = some es)
    (hs : List Nat) (t : Tbl) (h : runMixed T o ops = some (hs, t)) :
    t.image = t.head ++ (es.map Prod.fst).flatten ∧ t.count = ops.length := by
  obtain ⟨-, hr⟩ := Mixed.runMixed_inv' hb h
  obtain ⟨h1, h2⟩ := tbl_image_body T.cfg o es hs t hr
  exact ⟨h1, h2.trans (Mixed.buildMixed_spec ops es hb).1⟩

/-- non-vacuity: the MADT program GICC, 12 opaque bytes, GICD satisfies the hypotheses … -/
example : OemWf Mixed.exOem ∧
    (∀ op, MOp.modelled op ∈ Mixed.exProg → op.k ≠ .rdpas ∧ entryWf op.k op.ctor op.opts = true) := by
  refine ⟨⟨rfl, rfl⟩, fun op hop => ?_⟩
  simp only [Mixed.exProg, List.mem_cons, MOp.modelled.injEq, reduceCtorEq, List.not_mem_nil,
    or_false, false_or] at hop
  rcases hop with rfl | rfl <;> exact ⟨by decide, by decide +kernel⟩

/-- … runs, and its image has 44 + 82 + 12 + 24 bytes -/
example : (runMixed (.madt 0) Mixed.exOem Mixed.exProg).map (fun r => r.2.image.length) = some 162 := by
  decide +kernel

end Acpi.C02
