/-
  C02, part 2 — declared length = bytes emitted, for the fixed tables.
-/
import Acpi.Tables.Fixed
import Acpi.Lemmas.Basic
import Acpi.Lemmas.FixedRun
import Acpi.Lemmas.FixedSum
import Acpi.Lemmas.FixedLen
import Acpi.Lemmas.Tbl
namespace Acpi.C02
open Acpi

def OemWf (o : Oem) : Prop := o.id.length = 6 ∧ o.table.length = 8

/-- **C02 (fixed tables)**: the Length field at offset 4 equals the image size (FADT 276, BERT 48,
    SPCR 90, TCPA 50/100, TPM2 52/76, SLIT 44 + n², FACS 64), after every program. -/
theorem fixed_length_field (t : FixedT) (o : Oem) (c : EArgs) (ops : List Opt) (s : FixedState)
    (ho : OemWf o) (ht : t ≠ .rsdp) (hrun : runFixed t o c ops = some s) :
    readAt s.image 4 4 = some s.image.length := by
  obtain ⟨hT, hO⟩ := runFixed_t hrun
  obtain ⟨ho1, ho2⟩ := ho
  rw [← hO] at ho1 ho2
  cases t with
  | rsdp => exact absurd rfl ht
  | fadt =>
    unfold FixedState.image; rw [hT]; simp only []
    rw [readAt_fixedImage _ _ _ _ _ rfl (by decide), length_fixedImage _ _ _ _ _ rfl ho1 ho2,
      length_encFields, fieldsLen_fadt]
  | tcpas =>
    unfold FixedState.image; rw [hT]; simp only []
    rw [readAt_fixedImage _ _ _ _ _ rfl (by decide), length_fixedImage _ _ _ _ _ rfl ho1 ho2,
      length_encFields, fieldsLen_tcpas]
  | spcr =>
    unfold FixedState.image; rw [hT]; simp only []
    rw [readAt_fixedImage _ _ _ _ _ rfl (by decide), length_fixedImage _ _ _ _ _ rfl ho1 ho2,
      length_encFields, fieldsLen_spcr]
  | bert =>
    unfold FixedState.image; rw [hT]; simp only []
    rw [readAt_fixedImage _ _ _ _ _ rfl (by decide), length_fixedImage _ _ _ _ _ rfl ho1 ho2,
      length_encFields]
    rfl
  | tcpac =>
    unfold FixedState.image; rw [hT]; simp only []
    rw [readAt_fixedImage _ _ _ _ _ rfl (by decide), length_fixedImage _ _ _ _ _ rfl ho1 ho2,
      length_encFields]
    rfl
  | facs =>
    unfold FixedState.image; rw [hT]
    rfl
  | tpm2 =>
    unfold FixedState.image; rw [hT]; simp only []
    have hl := length_tpm2Rest s.a
    have hb : tpm2Len s.a < 2 ^ 32 := by unfold tpm2Len; split <;> decide
    rw [readAt_hdr_len _ _ _ _ _ _ rfl hb, List.length_append, length_hdrBytes _ _ _ _ _ rfl ho1 ho2]
    congr 1; omega
  | slit =>
    obtain ⟨s0, h0, h1⟩ := runFixed_some hrun
    obtain ⟨I0, ha0, _, _, hlt⟩ := slitInv_new h0
    have I := runFixedFrom_inv (fun x => SlitInv x ∧ x.a = c) (fun x op x' hx hs =>
      ⟨slitInv_step x op x' hx.1 hs, (slit_step hx.1.t hs).2.2.2.2.1.trans hx.2⟩) ops s0 s ⟨I0, ha0⟩ h1
    obtain ⟨I, ha⟩ := I
    have hlen := I.len
    rw [ha] at hlen
    unfold FixedState.image; rw [hT]; simp only []
    rw [ha]
    unfold slitHead
    rw [List.append_assoc, readAt_hdr_len _ _ _ _ _ _ rfl hlt]
    have hh := length_hdrBytes [0x53, 0x4C, 0x49, 0x54] (UInt32.ofNat (c.num 0 * c.num 0 + 44)) 1 s.hdrCks s.oem
      rfl ho1 ho2
    simp only [List.length_append, hh, length_leN, List.length_map, hlen]
    congr 1; omega

/-- **C02 (RSDP)**: 36 at offset 20, and 36 bytes emitted. -/
theorem rsdp_length_field (o : Oem) (c : EArgs) (ops : List Opt) (s : FixedState) (ho : OemWf o)
    (hrun : runFixed .rsdp o c ops = some s) :
    readAt s.image 20 4 = some 36 ∧ s.image.length = 36 := by
  obtain ⟨_, rfl⟩ := runFixed_plain (by simp [FixedT.plain]) hrun
  obtain ⟨ho1, _⟩ := ho
  unfold FixedState.image
  simp only []
  refine ⟨?_, by simp [ho1]⟩
  generalize genChecksum _ = e
  generalize genChecksum _ = k
  rw [List.append_assoc (u32le 36), ← List.append_assoc]
  rw [readAt_mid _ _ _ _ _ (by simp [ho1]) (by simp)]
  rfl

end Acpi.C02
