/-
  C02, part 3 — per-kind instantiation: the Rust `len()` helper each table uses to grow its
  Length field (and its handle offset) equals the number of bytes the entry serialises to.
  This is the side condition `claimed = raw.length` of the engine theorems C02.tbl_length_field
  and C05.handle_is_offset, discharged for every entry kind of the model.
-/
import Acpi.Tables.Build
import Acpi.Tables.Wf
import Acpi.Props.C04
import Acpi.Lemmas.Inst
namespace Acpi.C02
open Acpi Spec

/-- **C02 (entries)**: for every entry kind that is added to a table — except the CEDT RDPAS
    record (recorded finding) — `len()` is the serialised size, whatever the arguments. -/
theorem entry_length (k : Kind) (hk : k ≠ .rdpas) (c : EArgs) (opts : List Opt) (a : EArgs)
    (hwf : entryWf k c opts = true) (h : buildEntry k c opts = .ok a) :
    (entryBytes k a).length = lenOf k a := by
  cases k with
  -- the kinds whose `len()` is a constant: the size comes from conformance (C04)
  | mem => exact Inst.len_const .mem c opts a _ _ (by decide) (by decide) hwf h rfl
  | gi => exact Inst.len_const .gi c opts a _ _ (by decide) (by decide) hwf h rfl
  | chbs => exact Inst.len_const .chbs c opts a _ _ (by decide) (by decide) hwf h rfl
  | cache => exact Inst.len_const .cache c opts a _ _ (by decide) (by decide) hwf h rfl
  | cmo => exact Inst.len_const .cmo c opts a _ _ (by decide) (by decide) hwf h rfl
  | mmu => exact Inst.len_const .mmu c opts a _ _ (by decide) (by decide) hwf h rfl
  | pcirange => exact Inst.len_const .pcirange c opts a _ _ (by decide) (by decide) hwf h rfl
  | mmioep => exact Inst.len_const .mmioep c opts a _ _ (by decide) (by decide) hwf h rfl
  | pciiommu => exact Inst.len_const .pciiommu c opts a _ _ (by decide) (by decide) hwf h rfl
  | mmioiommu => exact Inst.len_const .mmioiommu c opts a _ _ (by decide) (by decide) hwf h rfl
  | rdpas => exact absurd rfl hk
  -- every other kind: `len()` is the sum of the field widths, which is the serialised size
  | _ => exact Inst.length_encFields _

/-- the recorded finding as a theorem about the model: an RDPAS record serialises to 17 bytes
    while `len()` says 16 -/
theorem rdpas_counterexample :
    (entryBytes .rdpas { n := #[1, 2, 3, 4, 1, 5] }).length = 17 ∧ lenOf .rdpas { n := #[1, 2, 3, 4, 1, 5] } = 16 := by
  decide

end Acpi.C02
