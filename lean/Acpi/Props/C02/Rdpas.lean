/-
  C02/C03, the recorded finding made precise: every CEDT RDPAS record (`PortAssociation`), for
  all arguments, serialises to 17 bytes while `len()` and the record's own length field say 16
  (`C02.rdpas_counterexample` is one instance).  Hence a CEDT holding k such records declares a
  Length exactly k short — the pattern the known-findings file lists.
-/
import Acpi.Tables.Build
import Acpi.Tables.Wf
import Acpi.Lemmas.Inst
namespace Acpi.C02
open Acpi

/-- for all arguments: 17 bytes emitted, 16 claimed, and the record's length field (bytes 2..4)
    reads 16 -/
theorem rdpas_always (a : EArgs) :
    (entryBytes .rdpas a).length = 17 ∧ lenOf .rdpas a = 16 ∧ readAt (entryBytes .rdpas a) 2 2 = some 16 := by
  refine ⟨?_, rfl, ?_⟩
  · simp [entryBytes, fields, encFields, Fld.bytes, b8, w16, q64, leN]
  · simp [entryBytes, fields, encFields, Fld.bytes, b8, w16, q64, leN, readAt]
    decide

end Acpi.C02
