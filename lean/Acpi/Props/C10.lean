/-
  C10 — resource descriptors and templates are correctly framed and valued.
  Model: `Aml.enc` on the descriptor constructors and `.rt` (Acpi.Aml.Term); spec:
  Acpi.Spec.Res (reference rows per ACPI 6.5 §6.4.2/6.4.3, `itemSize`, `walk`).
-/
import Acpi.Aml.Term
import Acpi.Spec.Res
import Acpi.Spec.PkgLength
import Acpi.Spec.Int
import Acpi.Lemmas.Layout
import Acpi.Lemmas.Res
import Acpi.Props.C07
import Acpi.Props.C08
namespace Acpi.C10
open Acpi Spec

def isDescriptor : Op → Bool
  | .mem32 | .io | .irq | .reg | .asmem | .asio | .asbus => true
  | _ => false

/-- arguments within their Rust types -/
def descWf (op : Op) (ints : List Nat) : Prop :=
  let i (k : Nat) := ints.getD k 0
  match op with
  | .mem32 => i 1 < 2 ^ 32 ∧ i 2 < 2 ^ 32
  | .io => i 0 < 2 ^ 16 ∧ i 1 < 2 ^ 16 ∧ i 2 < 256 ∧ i 3 < 256
  | .irq => i 4 < 2 ^ 32
  | .reg => i 0 < 256 ∧ i 1 < 256 ∧ i 2 < 256 ∧ i 3 < 256 ∧ i 4 < 2 ^ 64
  | .asmem => (i 0 = 16 ∨ i 0 = 32 ∨ i 0 = 64) ∧ i 1 < 4 ∧ i 3 < 2 ^ i 0 ∧ i 4 < 2 ^ i 0 ∧ i 6 < 2 ^ i 0
  | .asio => (i 0 = 16 ∨ i 0 = 32 ∨ i 0 = 64) ∧ i 1 < 2 ^ i 0 ∧ i 2 < 2 ^ i 0 ∧ i 4 < 2 ^ i 0
  | .asbus => (i 0 = 16 ∨ i 0 = 32 ∨ i 0 = 64) ∧ i 1 < 2 ^ i 0 ∧ i 2 < 2 ^ i 0
  | _ => True

/-- **C10 (descriptors)**: every descriptor the crate emits is the reference encoding: the
    specification's tag, the caller's values at the specification's offsets, for address
    spaces range length = maximum − minimum + 1 with the min/max-fixed flags set. -/
theorem descriptor_conforms (op : Op) (hop : isDescriptor op = true) (ints : List Nat) (blobs : List Bytes)
    (kids : AmlList) (hwf : descWf op ints) (bs : Bytes) (h : (Aml.node op ints blobs kids).enc = some bs) :
    ∃ total rs, Res.rows op ints = some (total, rs) ∧ conforms total rs bs = none := by
  cases op <;> first | exact absurd hop (by decide) | skip
  case mem32 =>
    simp only [Aml.enc, Option.some.injEq] at h
    subst h
    refine ⟨_, _, rfl, ?_⟩
    apply conforms_of_eq _ _ _ rfl
    simp only [render, List.flatMap_cons, List.flatMap_nil, Row.bytes, Res.leN_one, Res.ofNat_bit]
    simp
  case io =>
    simp only [Aml.enc, Option.some.injEq] at h
    subst h
    refine ⟨_, _, rfl, ?_⟩
    apply conforms_of_eq _ _ _ rfl
    simp only [render, List.flatMap_cons, List.flatMap_nil, Row.bytes, Res.leN_one]
    simp
  case irq =>
    simp only [Aml.enc, Option.some.injEq, Res.irq_flags] at h
    subst h
    refine ⟨_, _, rfl, ?_⟩
    apply conforms_of_eq _ _ _ rfl
    simp only [render, List.flatMap_cons, List.flatMap_nil, Row.bytes, Res.leN_one]
    simp
  case reg =>
    simp only [Aml.enc, Option.some.injEq] at h
    subst h
    refine ⟨_, _, rfl, ?_⟩
    apply conforms_of_eq _ _ _ rfl
    simp only [render, List.flatMap_cons, List.flatMap_nil, Row.bytes, Res.leN_one]
    simp
  case asmem =>
    simp only [Aml.enc] at h
    exact ⟨_, _, rfl, Res.addrSpace_conforms _ _ _ _ _ _ _ _ (by rw [Res.shl1_or_bit]) h⟩
  case asio =>
    simp only [Aml.enc] at h
    exact ⟨_, _, rfl, Res.addrSpace_conforms _ _ _ _ _ _ _ _ rfl h⟩
  case asbus =>
    simp only [Aml.enc] at h
    exact ⟨_, _, rfl, Res.addrSpace_conforms _ _ _ _ _ _ _ _ rfl h⟩

/-- **C10 (framing)**: the length field equals the number of payload bytes that follow it:
    large items (bit 7 of the tag set) carry it as 16 bits after the tag, the small I/O item in
    the low three bits of the tag; i.e. `Res.itemSize` of the emitted bytes is their length. -/
theorem descriptor_framed (op : Op) (hop : isDescriptor op = true) (ints : List Nat) (blobs : List Bytes)
    (kids : AmlList) (hwf : descWf op ints) (bs rest : Bytes) (h : (Aml.node op ints blobs kids).enc = some bs) :
    Res.itemSize (bs ++ rest) = some (false, bs.length) := by
  cases op <;> first | exact absurd hop (by decide) | skip
  case mem32 =>
    simp only [Aml.enc, Option.some.injEq] at h
    subst h
    simp only [List.append_assoc, List.cons_append, List.nil_append]
    rw [Res.itemSize_large _ _ _ (by decide) (by decide)]
    simp
  case io =>
    simp only [Aml.enc, Option.some.injEq] at h
    subst h
    simp [Res.itemSize]
  case irq =>
    simp only [Aml.enc, Option.some.injEq] at h
    subst h
    simp only [List.append_assoc, List.cons_append, List.nil_append]
    rw [Res.itemSize_large _ _ _ (by decide) (by decide)]
    simp
  case reg =>
    simp only [Aml.enc, Option.some.injEq] at h
    subst h
    simp only [List.append_assoc, List.cons_append, List.nil_append]
    rw [Res.itemSize_large _ _ _ (by decide) (by decide)]
    simp
  case asmem =>
    simp only [Aml.enc] at h
    exact Res.addrSpace_framed _ _ _ _ _ _ _ _ hwf.1 h
  case asio =>
    simp only [Aml.enc] at h
    exact Res.addrSpace_framed _ _ _ _ _ _ _ _ hwf.1 h
  case asbus =>
    simp only [Aml.enc] at h
    exact Res.addrSpace_framed _ _ _ _ _ _ _ _ hwf.1 h

/-- all children of a template are descriptors -/
def allDescriptors : AmlList → Prop
  | .nil => True
  | .cons (.node op ints _ _) r => isDescriptor op = true ∧ descWf op ints ∧ allDescriptors r

/-- the walk over the children's encodings followed by the end tag -/
theorem walk_kids : (kids : AmlList) → allDescriptors kids → (ds : Bytes) →
    catOpt (AmlList.encs kids) = some ds → ∀ fuel, ds.length + 1 ≤ fuel →
    Res.walk fuel (ds ++ [0x79, 0x00]) = some ((AmlList.encs kids).filterMap id ++ [[0x79, 0x00]])
  | .nil, _, ds, h, fuel, hf => by
    simp only [AmlList.encs, catOpt, Option.some.injEq] at h
    subst h
    obtain ⟨f, rfl⟩ : ∃ f, fuel = f + 1 := ⟨fuel - 1, by omega⟩
    simpa [AmlList.encs] using Res.walk_end f
  | .cons (.node op ints blobs ks) r, hk, ds, h, fuel, hf => by
    simp only [AmlList.encs] at h ⊢
    obtain ⟨d, ds', hd, hr, rfl⟩ := Res.catOpt_cons_some _ _ _ h
    obtain ⟨hop, hwf, hrest⟩ := hk
    have hfr := descriptor_framed op hop ints blobs ks hwf d (ds' ++ [0x79, 0x00]) hd
    have hp := Res.itemSize_pos _ _ _ hfr
    simp only [List.length_append] at hf
    obtain ⟨f, rfl⟩ : ∃ f, fuel = f + 1 := ⟨fuel - 1, by omega⟩
    rw [List.append_assoc, Res.walk_item f d _ hfr, walk_kids r hrest ds' hr f (by omega), hd]
    simp

/-- `usize` sizes below 2^64 are encoded as the specification's narrowest integer -/
theorem encUsize_spec (n : Nat) (h : n < 2 ^ 64) : encUsize (UInt64.ofNat n) = Spec.Int.enc n := by
  unfold encUsize
  rw [C08.encU64_spec]
  congr 1
  simp only [UInt64.toNat_ofNat']
  exact Nat.mod_eq_of_lt h

/-- `create_pkg_length` did not refuse: the total, hence the content, is below 2^28 -/
theorem not_panics (c : Nat) (h : ¬ pkgLenPanics c true = true) : pkgLenTotal c true < 2 ^ 28 ∧ c < 2 ^ 28 := by
  rw [C07.refused_iff] at h
  have : c ≤ pkgLenTotal c true := by simp [pkgLenTotal]
  omega

/-- **C10 (templates)**: a resource template of 0..n descriptors is `BufferOp PkgLength
    BufferSize payload` where the PkgLength spans the object, BufferSize is the narrowest
    integer encoding of the payload size, the payload is the child descriptors in order
    followed by the end tag `79 00`, and the walk by the descriptors' own length fields tiles
    it exactly. -/
theorem template_framed (ints : List Nat) (blobs : List Bytes) (kids : AmlList) (hk : allDescriptors kids)
    (bs : Bytes) (h : (Aml.node .rt ints blobs kids).enc = some bs) :
    ∃ payload ds,
      catOpt (AmlList.encs kids) = some ds ∧ payload = ds ++ [0x79, 0x00] ∧
      bs = [0x11] ++ pkgLen (payload.length + (Spec.Int.enc payload.length).length) true ++
        Spec.Int.enc payload.length ++ payload ∧
      PkgLength.decode (bs.drop 1) = some (bs.length - 1, (pkgLen (payload.length + (Spec.Int.enc payload.length).length) true).length) ∧
      Res.walk (payload.length + 1) payload =
        some ((AmlList.encs kids).filterMap id ++ [[0x79, 0x00]]) := by
  simp only [Aml.enc] at h
  cases hc : catOpt (AmlList.encs kids) with
  | none => rw [hc] at h; cases h
  | some ds =>
    rw [hc, Option.bind_some] at h
    split at h
    · cases h
    · rename_i hp
      have hlt : (ds ++ [0x79, 0x00]).length < 2 ^ 64 := by
        have := (not_panics _ hp).2
        omega
      rw [encUsize_spec _ hlt] at h hp
      have hb := (not_panics _ hp).1
      simp only [Option.some.injEq] at h
      subst h
      refine ⟨ds ++ [0x79, 0x00], ds, rfl, rfl, rfl, ?_, ?_⟩
      · have := C07.decode_object ((ds ++ [0x79, 0x00]).length + (Spec.Int.enc (ds ++ [0x79, 0x00]).length).length)
          (Spec.Int.enc (ds ++ [0x79, 0x00]).length ++ (ds ++ [0x79, 0x00])) []
          (by simp only [List.length_append]; omega) hb
        simp only [List.append_nil] at this
        simp only [List.cons_append, List.nil_append, List.drop_succ_cons, List.drop_zero, List.append_assoc,
          List.length_cons, Nat.add_sub_cancel]
        exact this
      · exact walk_kids kids hk ds hc _ (by simp only [List.length_append]; omega)

end Acpi.C10
