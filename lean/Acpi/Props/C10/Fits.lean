/-
  C10 — the driver's "reference value must fit its field" requirement (DESIGN 18.2) never fires on a
  descriptor the model accepts: for every well-formed descriptor whose range length is
  representable, every numeric row of the reference layout fits its width, so `render` truncates
  nothing and `conforms` compares the image with the specification's values themselves.
-/
import Acpi.Spec.Res
import Acpi.Spec.AmlWf
namespace Acpi.C10
open Acpi Spec

/-- a numeric row's value is representable in its width -/
def rowFits : Row → Bool
  | .num _ w v => decide (v < 2 ^ (8 * w))
  | .raw _ _ => true

/-- the fixed-size descriptors: well-formed arguments ⇒ every reference value fits its field -/
theorem fixed_descriptor_rows_fit (op : Op) (ints : List Nat) (hop : op = .mem32 ∨ op = .io ∨ op = .irq ∨ op = .reg)
    (hwf : Spec.Aml.descWfB op ints = true) (total : Nat) (rs : List Row) (h : Res.rows op ints = some (total, rs)) :
    ∀ r ∈ rs, rowFits r = true := by
  rcases hop with rfl | rfl | rfl | rfl <;>
  · simp only [Res.rows, Option.some.injEq, Prod.mk.injEq] at h
    obtain ⟨_, rfl⟩ := h
    simp only [Spec.Aml.descWfB, Bool.and_eq_true, decide_eq_true_eq] at hwf
    intro r hr
    simp only [List.mem_cons, List.not_mem_nil, or_false] at hr
    rcases hr with rfl | rfl | rfl | rfl | rfl | rfl | rfl <;> simp only [rowFits, decide_eq_true_eq] <;>
      (try split) <;> (try split) <;> (try split) <;> (try split) <;> omega

/-- minimum and maximum of an address-space descriptor, as the reference reads them -/
def asMinMax (op : Op) (ints : List Nat) : Nat × Nat :=
  match op with
  | .asmem => (ints.getD 3 0, ints.getD 4 0)
  | _ => (ints.getD 1 0, ints.getD 2 0)

/-- the address-space descriptors: well-formed arguments and a representable range length
    (max − min + 1 below 2^width — what the encoder insists on) ⇒ every reference value fits -/
theorem address_space_rows_fit (op : Op) (ints : List Nat) (hop : op = .asmem ∨ op = .asio ∨ op = .asbus)
    (hwf : Spec.Aml.descWfB op ints = true)
    (hlen : (asMinMax op ints).2 - (asMinMax op ints).1 + 1 < 2 ^ ints.getD 0 0)
    (total : Nat) (rs : List Row) (h : Res.rows op ints = some (total, rs)) :
    ∀ r ∈ rs, rowFits r = true := by
  have fin : ∀ (W : Nat), ((W = 16 ∨ W = 32) ∨ W = 64) → ∀ a b c : Nat, a < 2 ^ W → b < 2 ^ W → c < 2 ^ W → b - a + 1 < 2 ^ W →
      ∀ (ty tf : Nat), ty < 256 → tf < 256 → ∀ r ∈ [Row.num 0 1 (if W = 16 then 0x88 else if W = 32 then 0x87 else 0x8A), .num 1 2 (3 + 5 * (W / 8)),
        .num 3 1 ty, .num 4 1 0x0C, .num 5 1 tf, .num 6 (W / 8) 0, .num (6 + W / 8) (W / 8) a, .num (6 + 2 * (W / 8)) (W / 8) b,
        .num (6 + 3 * (W / 8)) (W / 8) c, .num (6 + 4 * (W / 8)) (W / 8) (b - a + 1)], rowFits r = true := by
    intro W hW a b c ha hb hc hl ty tf hty htf r hr
    simp only [List.mem_cons, List.not_mem_nil, or_false] at hr
    rcases hW with (rfl | rfl) | rfl <;>
      rcases hr with rfl | rfl | rfl | rfl | rfl | rfl | rfl | rfl | rfl | rfl <;>
      simp [rowFits] <;> omega
  rcases hop with rfl | rfl | rfl
  · simp only [Res.rows, Option.some.injEq, Prod.mk.injEq] at h
    obtain ⟨_, rfl⟩ := h
    simp only [Spec.Aml.descWfB, Bool.and_eq_true, Bool.or_eq_true, decide_eq_true_eq] at hwf
    simp only [asMinMax] at hlen
    obtain ⟨⟨⟨⟨hw, h1⟩, h3⟩, h4⟩, h6⟩ := hwf
    refine fin _ hw _ _ _ h3 h4 ?_ hlen 0 _ (by omega) ?_
    · split
      · exact h6
      · exact Nat.two_pow_pos _
    · split <;> omega
  · simp only [Res.rows, Option.some.injEq, Prod.mk.injEq] at h
    obtain ⟨_, rfl⟩ := h
    simp only [Spec.Aml.descWfB, Bool.and_eq_true, Bool.or_eq_true, decide_eq_true_eq] at hwf
    simp only [asMinMax] at hlen
    obtain ⟨⟨⟨hw, h1⟩, h2⟩, h4⟩ := hwf
    refine fin _ hw _ _ _ h1 h2 ?_ hlen 1 3 (by omega) (by omega)
    split
    · exact h4
    · exact Nat.two_pow_pos _
  · simp only [Res.rows, Option.some.injEq, Prod.mk.injEq] at h
    obtain ⟨_, rfl⟩ := h
    simp only [Spec.Aml.descWfB, Bool.and_eq_true, Bool.or_eq_true, decide_eq_true_eq] at hwf
    simp only [asMinMax] at hlen
    obtain ⟨⟨hw, h1⟩, h2⟩ := hwf
    exact fin _ hw _ _ _ h1 h2 (Nat.two_pow_pos _) hlen 2 0 (by omega) (by omega)

/-- non-vacuity: a DWord memory descriptor 0x1000..0x1fff meets the hypotheses … -/
example : Spec.Aml.descWfB .asmem [32, 0, 1, 0x1000, 0x1fff, 0, 0] = true ∧
    (asMinMax .asmem [32, 0, 1, 0x1000, 0x1fff, 0, 0]).2 - (asMinMax .asmem [32, 0, 1, 0x1000, 0x1fff, 0, 0]).1 + 1 < 2 ^ 32 := by decide

/-- … and the guard is sharp: for the whole-width range 0..0xFFFF_FFFF (well-formed arguments) the
    specification's range length 2^32 does *not* fit its four-byte field — the input of seeded/U01 -/
theorem full_width_range_does_not_fit :
    Spec.Aml.descWfB .asmem [32, 0, 1, 0, 4294967295, 0, 0] = true ∧
    ∃ total rs, Res.rows .asmem [32, 0, 1, 0, 4294967295, 0, 0] = some (total, rs) ∧ ∃ r ∈ rs, rowFits r = false := by
  refine ⟨by decide, _, _, rfl, Row.num 22 4 4294967296, ?_, by decide⟩
  decide

end Acpi.C10
