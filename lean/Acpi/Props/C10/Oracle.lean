/-
  C10 — the resource-template oracle the driver evaluates on the implementation's bytes
  (Spec.rtOracle) holds of the model's encoder.
-/
import Acpi.Spec.ResTemplate
import Acpi.Props.C10
import Acpi.Lemmas.ResTemplate
namespace Acpi.C10
open Acpi Spec

/-- **C10 (oracle on the model)**: a resource template of descriptors within their Rust types,
    if the encoder does not refuse, passes the oracle: DefBuffer whose BufferSize is its payload,
    payload tiled by the descriptors' own lengths up to the end tag, every descriptor conforming
    to its reference layout. -/
theorem template_oracle (ints : List Nat) (blobs : List Bytes) (kids : AmlList) (hk : allDescriptors kids)
    (bs : Bytes) (h : (Aml.node .rt ints blobs kids).enc = some bs) :
    rtOracle kids.toList bs = none := by
  obtain ⟨payload, ds, hc, hpay, hbs, hdec, hwalk⟩ := template_framed ints blobs kids hk bs h
  obtain ⟨ds', hc', hsmall⟩ := template_small ints blobs kids bs h
  have hds : ds = ds' := by rw [hc] at hc'; exact Option.some.inj hc'
  subst hds
  have hlt : payload.length < 2 ^ 64 := by rw [hpay]; omega
  have hbuf := bufferPayloadAny_framed _ payload bs hlt hbs hdec
  have hlen := length_items kids ds hc
  unfold rtOracle
  simp only [hbuf, hwalk]
  rw [if_neg (by simp [hlen]), if_neg (by simp)]
  split
  · rename_i i heq
    have hi := List.mem_range.mp (List.mem_of_find?_eq_some heq)
    have hp := List.find?_some heq
    have hf := kid_ok kids hk ds hc [[0x79, 0x00]] i hi (.node .zero [] [] .nil)
    exact absurd (hf ▸ hp : false = true) (by decide)
  · rfl

end Acpi.C10
