/-
  C12 — locality matrices hold, per cell, the last value assigned to that cell.

  The per-cell meaning is the *specification side* of the layouts: `Spec.slitCell` (the last
  distance assigned to the unordered pair, else 10; cell (i,j) at offset 44 + i·N + j) and the
  HMAT `cell i j` of `Spec.rows .loc` (the last value assigned to (i,j), else 0xFFFF, at index
  i·T + j — stride = number of targets).  The theorems below say that the model, which folds
  the assignments in program order on a flat vector like the Rust, produces exactly that.
-/
import Acpi.Props.C04
import Acpi.Props.C04.Fixed
import Acpi.Props.C01.Fixed
namespace Acpi.C12
open Acpi Spec

/-- **C12 (HMAT)**: for every shape I×T (square or not, single row/column, empty), every
    sequence of flag calls, initiator/target writes and `set_entry_value i j v`: if no call
    panics the structure is the reference encoding in which cell (i,j) — at byte offset
    32 + 4I + 4T + 2(i·T + j) — holds the last value assigned to (i,j), else 0xFFFF, and every
    other cell is untouched. -/
theorem hmat_locality (c : EArgs) (opts : List Opt) (a : EArgs)
    (hwf : entryWf .loc c opts = true) (h : buildEntry .loc c opts = .ok a) :
    layoutOracle .loc c opts (entryBytes .loc a) = none :=
  C04.conforms_loc c opts a hwf h

/-- every in-range pair is accepted (the only refusals are out-of-range indices) -/
theorem hmat_in_range_accepted (a : EArgs) (i j v : Nat) (hi : i < a.num 4) (hj : j < a.num 5) :
    (applyOpt .loc a ⟨"sete", [i, j, v]⟩).isSome = true := by
  simp [applyOpt, Opt.arg, hi, hj]

/-- **C12 (SLIT)**: after every sequence of `set_distance` (repeated, diagonal, mirrored), the
    image is the reference encoding whose cell (i,j) and mirror cell (j,i) hold the last
    distance assigned to the unordered pair {i,j}, else 10 … -/
theorem slit_cells (o : Oem) (c : EArgs) (ops : List Opt) (s : FixedState)
    (hwf : C04.fixedWf .slit o c ops) (hrun : runFixed .slit o c ops = some s) :
    let img := s.image
    let (total, rows) := fixedRows .slit o c ops (img.getD 8 0).toNat (img.getD 9 0).toNat (img.getD 32 0).toNat
    conforms total rows img = none := by
  have := C04.fixed_conforms .slit o c ops s hwf hrun
  simpa using this

/-- … the mirror cells agree by construction of the reference … -/
theorem slitCell_symm (ops : List Opt) (i j : Nat) : slitCell ops i j = slitCell ops j i := by
  unfold slitCell
  have : (fun o : Opt => decide (o.name = "dist" ∧ (o.arg 0 = i ∧ o.arg 1 = j ∨ o.arg 0 = j ∧ o.arg 1 = i))) =
      (fun o : Opt => decide (o.name = "dist" ∧ (o.arg 0 = j ∧ o.arg 1 = i ∨ o.arg 0 = i ∧ o.arg 1 = j))) := by
    funext o
    simp only [decide_eq_decide]
    constructor <;> (intro ⟨h1, h2⟩; exact ⟨h1, h2.symm⟩)
  rw [this]

/-- … every in-range pair is accepted … -/
theorem slit_accepts (o : Oem) (n : Nat) (ops : List Opt) (hn : n * n + 44 < 2 ^ 32)
    (hops : ∀ op ∈ ops, op.name = "dist" ∧ op.arg 0 < n ∧ op.arg 1 < n) :
    ∃ s, runFixed .slit o { n := #[n] } ops = some s :=
  C04.slit_accepts o n ops hn hops

/-- … and the checksum stays valid throughout. -/
theorem slit_checksum (o : Oem) (c : EArgs) (ops : List Opt) (s : FixedState)
    (hrun : runFixed .slit o c ops = some s) : sum8 s.image = 0 :=
  C01.fixed_sum_zero .slit o c ops s ⟨by decide, by decide⟩ hrun

end Acpi.C12
