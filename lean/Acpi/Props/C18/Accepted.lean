/-
  C18, converse half, for the whole AML tree: whatever `Aml.enc` accepts (`enc = some bs`) has
  every count and every size within its field — at the root and, recursively, at every node the
  encoder serialises — and the count / length fields it wrote agree with the content.

  The forward half (oversized ⇒ `enc = none`) is Props/C18.lean.

  `countsFit` (defined in Acpi/Lemmas/C18Accepted.lean) recurses into exactly the children a
  constructor serialises: the whole child list for the list-bodied constructors (`pkg`, `pkgb`,
  `rt`, `device`, `scope`, `scoperaw`, `method`, `field`, `if_`, `while_`, `else_`, `powerres`,
  `call`), the first 1–4 children for the fixed-arity operators (which read `k 0 … k 3` and
  ignore any further child), and no child for leaves (which ignore `kids`).  Children the
  encoder never serialises are unconstrained by acceptance, so nothing can be proved of them.
-/
import Acpi.Lemmas.C18Accepted
import Acpi.Props.C07.Objects
import Acpi.Props.C18
namespace Acpi.C18
open Acpi

/-! ## 1. reading the predicate -/

/-- `pathFits` is the Bool form of "the path parses and has at most 255 segments". -/
theorem pathFits_iff (s : Bytes) :
    pathFits s = true ↔ ∃ p, Path.new s = some p ∧ p.parts.length ≤ 255 := by
  unfold pathFits
  cases h : Path.new s with
  | none => simp
  | some p => simp

/-- One unfolding step of `countsFit`: the node's own conditions, and `countsFit` of the
    children it serialises. -/
theorem countsFit_node (op : Op) (ints : List Nat) (blobs : List Bytes) (kids : AmlList) :
    countsFit (.node op ints blobs kids) =
      (nodeFits op ints blobs kids.length &&
        (match used op with
         | none => countsFitList kids
         | some n => countsFitTake n kids)) := by
  rw [countsFit]
  rfl

/-- What `countsFit` says of the root node, in plain propositions: the element count of a
    package, the argument / local / method-argument numbers, the address ranges, the field
    widths and the path segment count all fit their fields. -/
theorem countsFit_root (op : Op) (ints : List Nat) (blobs : List Bytes) (kids : AmlList)
    (h : countsFit (.node op ints blobs kids) = true) :
    (op = .pkg ∨ op = .pkgb → kids.length ≤ 255) ∧
    (op = .method → ints.getD 0 0 ≤ 7) ∧
    (op = .arg → ints.getD 0 0 ≤ 6) ∧
    (op = .local_ → ints.getD 0 0 ≤ 7) ∧
    (op = .asmem → ints.getD 3 0 ≤ ints.getD 4 0 ∧ ints.getD 4 0 - ints.getD 3 0 + 1 < 2 ^ ints.getD 0 0) ∧
    (op = .asio ∨ op = .asbus →
      ints.getD 1 0 ≤ ints.getD 2 0 ∧ ints.getD 2 0 - ints.getD 1 0 + 1 < 2 ^ ints.getD 0 0) ∧
    (op = .fnamed ∨ op = .freserved → pkgLenTotal (ints.getD 0 0) false < 2 ^ 28) ∧
    (usesPath op = true → ∃ p, Path.new (blobs.getD 0 []) = some p ∧ p.parts.length ≤ 255) := by
  rw [countsFit_node, Bool.and_eq_true] at h
  have hn := h.1
  unfold nodeFits at hn
  rw [Bool.and_eq_true] at hn
  obtain ⟨hl, hp⟩ := hn
  refine ⟨?_, ?_, ?_, ?_, ?_, ?_, ?_, ?_⟩
  · rintro (rfl | rfl) <;> exact of_decide_eq_true hl
  · rintro rfl; exact of_decide_eq_true hl
  · rintro rfl; exact of_decide_eq_true hl
  · rintro rfl; exact of_decide_eq_true hl
  · rintro rfl
    have hl' : (decide (ints.getD 3 0 ≤ ints.getD 4 0) &&
        decide (ints.getD 4 0 - ints.getD 3 0 + 1 < 2 ^ ints.getD 0 0)) = true := hl
    rw [Bool.and_eq_true] at hl'
    exact ⟨of_decide_eq_true hl'.1, of_decide_eq_true hl'.2⟩
  · rintro (rfl | rfl) <;>
    · have hl' : (decide (ints.getD 1 0 ≤ ints.getD 2 0) &&
          decide (ints.getD 2 0 - ints.getD 1 0 + 1 < 2 ^ ints.getD 0 0)) = true := hl
      rw [Bool.and_eq_true] at hl'
      exact ⟨of_decide_eq_true hl'.1, of_decide_eq_true hl'.2⟩
  · rintro (rfl | rfl) <;> exact of_decide_eq_true hl
  · intro hu
    rw [hu] at hp
    exact (pathFits_iff _).mp (by simpa using hp)

/-! ## 2. accepted ⇒ every count fits, at every serialised node -/

mutual
/-- **C18 converse, whole tree**: if the encoder returns bytes for a term, then at the root and
    at every descendant the encoder serialises, every count and size fits its field (package
    element count ≤ 255, method arguments ≤ 7, Arg ≤ 6, Local ≤ 7, address ranges ordered and
    sized within their width, field-entry widths below 2^28, paths with ≤ 255 segments). -/
theorem accepted_counts_fit : ∀ (t : Aml) (bs : Bytes), t.enc = some bs → countsFit t = true
  | .node op ints blobs kids, bs, h => by
    obtain ⟨hn, hk⟩ := enc_some_nodeOk op ints blobs kids bs h
    rw [countsFit_node, hn, Bool.true_and]
    unfold KidsAccepted at hk
    cases hu : used op with
    | none =>
      rw [hu] at hk
      obtain ⟨d, hd⟩ := hk
      exact accepted_list_counts_fit kids d hd
    | some n =>
      rw [hu] at hk
      exact accepted_take_counts_fit n kids hk
/-- list version: if a whole child list is sequenced (`catOpt … = some d`, i.e. every element
    was accepted), every element is `countsFit`. -/
theorem accepted_list_counts_fit : ∀ (l : AmlList) (d : Bytes),
    catOpt (AmlList.encs l) = some d → countsFitList l = true
  | .nil, _, _ => by rw [countsFitList]
  | .cons a r, d, h => by
    obtain ⟨ea, dr, ha, hr, _⟩ := catOpt_cons h
    rw [countsFitList, accepted_counts_fit a ea ha, accepted_list_counts_fit r dr hr]
    rfl
/-- prefix version, for the fixed-arity operators: if the first `n` child slots are accepted,
    the first `n` children are `countsFit`. -/
theorem accepted_take_counts_fit : ∀ (n : Nat) (l : AmlList),
    (∀ j, j < n → ∃ e, (AmlList.encs l).getD j none = some e) → countsFitTake n l = true
  | _, .nil, _ => by rw [countsFitTake]
  | 0, .cons a r, _ => by rw [countsFitTake]
  | m + 1, .cons a r, h => by
    obtain ⟨ea, ha⟩ := h 0 (Nat.succ_pos m)
    rw [encs_getD_zero] at ha
    have hr : ∀ j, j < m → ∃ e, (AmlList.encs r).getD j none = some e := by
      intro j hj
      obtain ⟨e, he⟩ := h (j + 1) (Nat.succ_lt_succ hj)
      rw [encs_getD_succ] at he
      exact ⟨e, he⟩
    rw [countsFitTake, accepted_counts_fit a ea ha, accepted_take_counts_fit m r hr]
    rfl
end

/-! ## 3. accepted ⇒ the object fits its PkgLength -/

/-- **C18 converse, sizes**: an accepted length-prefixed object (any of the sixteen constructors
    that carry a PkgLength after a `w`-byte opcode) is shorter than `w + 2^28` bytes: it never
    exceeds what its PkgLength field can describe. -/
theorem accepted_size_bounded (op : Op) (ints : List Nat) (blobs : List Bytes) (kids : AmlList)
    (bs : Bytes) (w : Nat) (hw : Spec.pkgLenOpcodeWidth op = some w)
    (h : (Aml.node op ints blobs kids).enc = some bs) : bs.length < w + 2 ^ 28 := by
  obtain ⟨body, hb, ht⟩ := C07.object_framed op ints blobs kids bs w hw h
  have hl := congrArg List.length hb
  simp only [List.length_append, C07.length_pkgLen, List.length_take] at hl
  unfold pkgLenTotal at ht
  simp only [if_true] at ht
  omega

/-! ## 4. the count fields agree with the content -/

/-- **C18 converse, `Package` count byte**: an accepted `Package` is `12`, the PkgLength of
    (count byte + elements), the count byte, the elements; and the count byte, read back as a
    number, is the true number of elements (not a wrapped one). -/
theorem pkg_count_field (ints : List Nat) (blobs : List Bytes) (kids : AmlList) (bs : Bytes)
    (h : (Aml.node .pkg ints blobs kids).enc = some bs) :
    ∃ d, catOpt (AmlList.encs kids) = some d ∧
      bs = [0x12] ++ pkgLen (d.length + 1) true ++ [UInt8.ofNat kids.length] ++ d ∧
      (UInt8.ofNat kids.length).toNat = kids.length := by
  unfold Aml.enc at h
  simp only [] at h
  split at h
  · cases h
  · rename_i hc
    simp only [Option.bind_eq_some_iff] at h
    obtain ⟨d, hd, h⟩ := h
    obtain ⟨e, _⟩ := pkgObj_eq h
    refine ⟨d, hd, ?_, count_byte _ (Nat.le_of_not_lt hc)⟩
    rw [e, List.length_append, List.length_singleton, Nat.add_comm 1, List.append_assoc _ [_] d]

/-- **C18 converse, `PackageBuilder` count byte**: same statement for the builder form. -/
theorem pkgb_count_field (ints : List Nat) (blobs : List Bytes) (kids : AmlList) (bs : Bytes)
    (h : (Aml.node .pkgb ints blobs kids).enc = some bs) :
    ∃ d, catOpt (AmlList.encs kids) = some d ∧
      bs = [0x12] ++ pkgLen (d.length + 1) true ++ [UInt8.ofNat kids.length] ++ d ∧
      (UInt8.ofNat kids.length).toNat = kids.length := by
  unfold Aml.enc at h
  simp only [Option.bind_eq_some_iff] at h
  obtain ⟨d, hd, h⟩ := h
  split at h
  · cases h
  · rename_i hc
    split at h
    · cases h
    · simp only [Option.some.injEq] at h
      exact ⟨d, hd, h.symm, count_byte _ (Nat.le_of_not_lt hc)⟩

/-- **C18 converse, `Method` flags byte**: an accepted `Method` is `14`, PkgLength, path, flags
    byte, body; masking the argument count to three bits lost nothing (`args &&& 7 = args`), and
    the low three bits of the flags byte actually written are the argument count. -/
theorem method_flags_argcount (ints : List Nat) (blobs : List Bytes) (kids : AmlList) (bs : Bytes)
    (h : (Aml.node .method ints blobs kids).enc = some bs) :
    ∃ p d flags, pathEnc (blobs.getD 0 []) = some p ∧ catOpt (AmlList.encs kids) = some d ∧
      flags = UInt8.ofNat ((ints.getD 0 0 &&& 7) ||| ((if ints.getD 1 0 ≠ 0 then 1 else 0) <<< 3)) ∧
      bs = [0x14] ++ pkgLen (p.length + 1 + d.length) true ++ p ++ [flags] ++ d ∧
      ints.getD 0 0 &&& 7 = ints.getD 0 0 ∧
      flags.toNat &&& 7 = ints.getD 0 0 := by
  unfold Aml.enc at h
  simp only [] at h
  split at h
  · cases h
  · rename_i hc
    simp only [bind, Option.bind_eq_some_iff] at h
    obtain ⟨p, hp, d, hd, h⟩ := h
    obtain ⟨e, _⟩ := pkgObj_eq h
    have h7 : ints.getD 0 0 ≤ 7 := Nat.le_of_not_lt hc
    refine ⟨p, d, _, hp, hd, rfl, ?_, and7_of_le _ h7, flags_low3 _ _ h7 ?_⟩
    · rw [e]
      simp only [List.length_append, List.length_singleton, List.append_assoc, Nat.add_assoc]
    · split <;> omega


/-! ## non-vacuity -/

/-- a small nested tree exercising most sites: Device(\\_SB_.PCI0) { Name(_CRS, ResourceTemplate
    { QWordMemory, WordBusNumber }), Method(MTHD, 2, Serialized) { Store(Arg1, Local7),
    Return(Package{One, One}) }, Field(…){named, reserved} } -/
def sample : Aml :=
  .node .device [] [[0x5C, 0x5F, 0x53, 0x42, 0x5F, 0x2E, 0x50, 0x43, 0x49, 0x30]]
    (.cons (.node .name [] [[0x5F, 0x43, 0x52, 0x53]]
        (.cons (.node .rt [] []
          (.cons (.node .asmem [64, 1, 1, 0x1000, 0x1FFF, 0, 0] [] .nil)
          (.cons (.node .asbus [16, 0, 255] [] .nil) .nil))) .nil))
    (.cons (.node .method [2, 1] [[0x4D, 0x54, 0x48, 0x44]]
        (.cons (.node .store [] [] (.cons (.node .local_ [7] [] .nil) (.cons (.node .arg [1] [] .nil) .nil)))
        (.cons (.node .ret [] [] (.cons (.node .pkg [] [] (repOnes 2)) .nil)) .nil)))
    (.cons (.node .field [1, 0, 0] [[0x52, 0x45, 0x47, 0x30]]
        (.cons (.node .fnamed [8] [[0x46, 0x4C, 0x44, 0x30]] .nil)
        (.cons (.node .freserved [24] [] .nil) .nil))) .nil)))

/-- `accepted_counts_fit` and `accepted_size_bounded` are not vacuous: the sample is accepted -/
example : ∃ bs, sample.enc = some bs ∧ countsFit sample = true ∧ bs.length < 2 + 2 ^ 28 := by
  cases h : sample.enc with
  | none => exact absurd h (by decide +kernel)
  | some bs => exact ⟨bs, rfl, accepted_counts_fit _ _ h, accepted_size_bounded _ _ _ _ bs 2 rfl h⟩

/-- the predicate is not trivially true: it rejects each kind of oversized count -/
example : countsFit (.node .arg [7] [] .nil) = false ∧ countsFit (.node .local_ [8] [] .nil) = false ∧
    countsFit (.node .method [8, 0] [[0x4D, 0x54, 0x48, 0x44]] .nil) = false ∧
    countsFit (.node .asbus [16, 0, 65535] [] .nil) = false ∧
    countsFit (.node .asio [16, 2, 1] [] .nil) = false ∧
    countsFit (.node .freserved [2 ^ 28] [] .nil) = false ∧
    countsFit (.node .name [] [[0x41, 0x42, 0x43]] (.cons (.node .one [] [] .nil) .nil)) = false ∧
    countsFit (.node .ret [] [] (.cons (.node .arg [7] [] .nil) .nil)) = false := by decide

/-- why `countsFit` follows only the serialised children: a leaf ignores its `kids`, and a
    two-operand operator ignores a third child, so acceptance says nothing about them -/
example : (Aml.node .one [] [] (.cons (.node .arg [9] [] .nil) .nil)).enc = some [0x01] ∧
    (Aml.node .eq [] [] (.cons (.node .one [] [] .nil) (.cons (.node .zero [] [] .nil)
      (.cons (.node .arg [9] [] .nil) .nil)))).enc = some [0x93, 0x01, 0x00] := by decide

/-- a 255-element package is accepted, is `countsFit`, and is 1 + 2 + 1 + 255 bytes long -/
example : ∃ bs, (Aml.node .pkg [] [] (repOnes 255)).enc = some bs ∧
    countsFit (Aml.node .pkg [] [] (repOnes 255)) = true ∧ bs.length = 259 :=
  ⟨_, pkg_repOnes 255 (Nat.le_refl _), accepted_counts_fit _ _ (pkg_repOnes 255 (Nat.le_refl _)), by
    simp only [List.length_append, List.length_replicate, C07.length_pkgLen, List.length_singleton]
    decide⟩

/-- a 256-element package is refused in both forms, and is not `countsFit` -/
example : (Aml.node .pkg [] [] (repOnes 256)).enc = none :=
  package_refused .pkg (Or.inl rfl) [] [] _ (by rw [repOnes_length]; decide)
example : (Aml.node .pkgb [] [] (repOnes 256)).enc = none :=
  package_refused .pkgb (Or.inr rfl) [] [] _ (by rw [repOnes_length]; decide)
example : countsFit (Aml.node .pkg [] [] (repOnes 256)) = false := by
  rw [countsFit_node]
  simp [nodeFits, localFits, repOnes_length]


/-- `pkg_count_field` / `pkgb_count_field` are not vacuous, and the count byte of the 255-element
    package is 255 -/
example : ∃ bs d, (Aml.node .pkg [] [] (repOnes 255)).enc = some bs ∧
    bs = [0x12] ++ pkgLen (d.length + 1) true ++ [UInt8.ofNat (repOnes 255).length] ++ d ∧
    (UInt8.ofNat (repOnes 255).length).toNat = 255 := by
  obtain ⟨d, _, hb, hc⟩ := pkg_count_field [] [] (repOnes 255) _ (pkg_repOnes 255 (Nat.le_refl _))
  exact ⟨_, d, pkg_repOnes 255 (Nat.le_refl _), hb, by rw [hc, repOnes_length]⟩

example : ∃ bs, (Aml.node .pkgb [] [] (repOnes 3)).enc = some bs := by
  cases h : (Aml.node .pkgb [] [] (repOnes 3)).enc with
  | none => exact absurd h (by decide)
  | some bs => exact ⟨bs, rfl⟩

/-- `method_flags_argcount` is not vacuous: a 7-argument serialized method is accepted -/
example : ∃ bs, (Aml.node .method [7, 1] [[0x4D, 0x54, 0x48, 0x44]] (repOnes 1)).enc = some bs := by
  cases h : (Aml.node .method [7, 1] [[0x4D, 0x54, 0x48, 0x44]] (repOnes 1)).enc with
  | none => exact absurd h (by decide)
  | some bs => exact ⟨bs, rfl⟩

end Acpi.C18
