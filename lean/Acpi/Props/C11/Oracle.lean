/-
  C11 — the own-field / frame oracle the driver evaluates on the implementation
  (Spec.optionOwnViolation, Spec.optionFrameViolation) holds of the model's entries.
-/
import Acpi.Spec.OptionOracle
import Acpi.Props.C04
import Acpi.Props.C11
import Acpi.Lemmas.Inst
namespace Acpi.C11
open Acpi Spec

/-- **C11 (oracle on the model)**: build the same structure twice, with a list of option calls and
    without any; if both programs run, then with `ref`/`ref0` the reference encodings (set
    semantics) and `raw`/`base` the model's serialisations, no byte governed by the options
    differs from the reference and no other byte differs from the option-free build. -/
theorem option_oracle (k : Kind) (c : EArgs) (opts : List Opt) (a a0 : EArgs)
    (hk : k ≠ .ged) (hwf : entryWf k c opts = true) (hq : k = .qosctrl → C04.qosCtorWf c)
    (h : buildEntry k c opts = .ok a) (h0 : buildEntry k c [] = .ok a0)
    (total total0 : Nat) (rs rs0 : List Row)
    (hr : Spec.rows k c opts = some (total, rs)) (hr0 : Spec.rows k c [] = some (total0, rs0)) :
    optionOwnViolation (render rs) (render rs0) (entryBytes k a) = none ∧
    optionFrameViolation (render rs) (render rs0) (entryBytes k a) (entryBytes k a0) = none := by
  have hwf0 : entryWf k c [] = true := by
    unfold entryWf at hwf ⊢
    simp only [Bool.and_eq_true] at hwf
    simp [hwf.1]
  have hc := Inst.conforms_of_entry k c opts a total rs hk hwf hq h hr
  have hc0 := Inst.conforms_of_entry k c [] a0 total0 rs0 hk hwf0 hq h0 hr0
  have he := (C04.conforms_iff_render total rs _ hc).2.2
  have he0 := (C04.conforms_iff_render total0 rs0 _ hc0).2.2
  rw [he, he0]
  unfold optionOwnViolation optionFrameViolation
  constructor
  · rw [List.find?_eq_none]
    intro p _
    simp
  · rw [List.find?_eq_none]
    intro p _
    simp

end Acpi.C11
