/-
  C11 — "Distinct options are therefore always distinguishable in the output, and an option that
  gates other fields (a 'values supplied' flag) is set exactly when those values were supplied",
  "in any order and any number of times".

  Everything here is a consequence of C04.entry_conforms (the model's bytes *are* the reference
  rows of Acpi.Spec.Layout, which give the options their set meaning):

    1. `flags_field`            the flags field of each flag-bearing structure, read back
                                little-endian at its specification offset, is the sum of the
                                specification bits of exactly the options invoked;
       `flag_set_iff`           bit `b` of it is set iff option `nm` was invoked, for every
                                `(nm, b) ∈ flagBits k`;
       `flag_distinguishable`   two programs differing in whether `nm` was invoked never emit the
                                same bytes.
    2. `cache_gating`, `gicmsi_gating` (+ the gated value fields): a "values supplied" flag is set
       exactly when the value option occurs, the value field holds the last value supplied, and
       an absent option leaves both zero.
    3. order / repetition irrelevance for the remaining flag kinds (`rintcAff`, `gicmsi`, `loc`,
       `cache`) and, generally, for every kind whose rows are written with the spec-side queries
       (`order_irrelevant_of_same_queries`).

  PPTT processor node: its flags field can also be *assigned* directly (`set=0.value`, the Rust
  `node.flags = v`).  The general fact is `proc_flags_field` (last written value OR-ed with the
  builders invoked after the write); the set-semantics statements above hold for `.proc` exactly
  for programs without such a write (`noFlagsWrite`), and `proc_flags_write_indistinguishable`
  shows the hypothesis is needed.

  One statement suggested for `.cache` is false and kept as `cache_order_irrelevant_lastval`
  with its refutation: allocation type / cache type / write policy are OR-ed into the attributes
  byte, so the *set* of values supplied matters, not just the last one.
-/
import Acpi.Lemmas.C11Distinct
import Acpi.Props.C11.Order
namespace Acpi.C11
open Acpi Spec

/-! ## 1. the flags field and distinguishability -/

/-- (offset, width) of the flags field of each flag-bearing structure (ACPI 6.5 Tables 5.59,
    5.65, 5.66 (RINTC affinity), 5.138, 5.140, CXL CFMWS, 5.146 (HMAT SLLBI), 5.34 (GIC MSI frame)) -/
def flagField : Kind → Nat × Nat
  | .mem => (28, 4) | .gi => (24, 4) | .rintcAff => (12, 4) | .proc => (4, 4) | .cache => (4, 4)
  | .cfmws => (32, 2) | .loc => (8, 1) | .gicmsi => (16, 4) | _ => (0, 0)

/-- what shares the flags field with the option bits: the HMAT locality flags byte carries the
    memory-hierarchy code (a constructor argument, below 4) in its low nibble -/
def flagBase (k : Kind) (c : EArgs) : Nat := match k with | .loc => c.num 0 | _ => 0

section perKind
variable (c : EArgs) (opts : List Opt) (a : EArgs)

theorem flags_field_mem (hwf : entryWf .mem c opts = true) (h : buildEntry .mem c opts = .ok a) :
    readAt (entryBytes .mem a) 28 4 = some (flagSum opts (flagBits .mem)) := by
  have hb := flagSum_le opts (flagBits .mem)
  refine readAt_row .mem c opts a _ _ 28 4 _ (by decide) hwf (by intro h; cases h) h rfl ?_ ?_
  · simp [flagSum, flagBits, Nat.add_assoc]
  · exact Nat.lt_of_le_of_lt hb (by decide)

theorem flags_field_gi (hwf : entryWf .gi c opts = true) (h : buildEntry .gi c opts = .ok a) :
    readAt (entryBytes .gi a) 24 4 = some (flagSum opts (flagBits .gi)) := by
  have hb := flagSum_le opts (flagBits .gi)
  refine readAt_row .gi c opts a _ _ 24 4 _ (by decide) hwf (by intro h; cases h) h rfl ?_ ?_
  · simp [flagSum, flagBits]
  · exact Nat.lt_of_le_of_lt hb (by decide)

theorem flags_field_rintcAff (hwf : entryWf .rintcAff c opts = true) (h : buildEntry .rintcAff c opts = .ok a) :
    readAt (entryBytes .rintcAff a) 12 4 = some (flagSum opts (flagBits .rintcAff)) := by
  have hb := flagSum_le opts (flagBits .rintcAff)
  refine readAt_row .rintcAff c opts a _ _ 12 4 _ (by decide) hwf (by intro h; cases h) h rfl ?_ ?_
  · simp [flagSum, flagBits]
  · exact Nat.lt_of_le_of_lt hb (by decide)

/-- PPTT processor node, in general: the flags dword holds the value of the last direct write of
    the field (0 if there is none) OR-ed with the specification bits of the flag builders invoked
    after that write -/
theorem proc_flags_field (hwf : entryWf .proc c opts = true) (h : buildEntry .proc c opts = .ok a) :
    readAt (entryBytes .proc a) 4 4 = some (procFlags opts) := by
  refine readAt_row .proc c opts a _ _ 4 4 _ (by decide) hwf (by intro h; cases h) h rfl ?_ ?_
  · simp
  · rw [entryWf, Bool.and_eq_true] at hwf
    exact ProcF.procFlags_lt opts hwf.2

theorem flags_field_proc (hwf : entryWf .proc c opts = true) (h : buildEntry .proc c opts = .ok a)
    (hnw : noFlagsWrite opts = true) :
    readAt (entryBytes .proc a) 4 4 = some (flagSum opts (flagBits .proc)) := by
  rw [proc_flags_field c opts a hwf h, ProcF.procFlags_of_noFlagsWrite opts hnw]
  simp [flagSum, flagBits, Nat.add_assoc]

theorem flags_field_cache (hwf : entryWf .cache c opts = true) (h : buildEntry .cache c opts = .ok a) :
    readAt (entryBytes .cache a) 4 4 = some (flagSum opts (flagBits .cache)) := by
  have hb := flagSum_le opts (flagBits .cache)
  refine readAt_row .cache c opts a _ _ 4 4 _ (by decide) hwf (by intro h; cases h) h rfl ?_ ?_
  · simp [flagSum, flagBits, Nat.add_assoc]
  · exact Nat.lt_of_le_of_lt hb (by decide)

theorem flags_field_cfmws (hwf : entryWf .cfmws c opts = true) (h : buildEntry .cfmws c opts = .ok a) :
    readAt (entryBytes .cfmws a) 32 2 = some (flagSum opts (flagBits .cfmws)) := by
  have hb := flagSum_le opts (flagBits .cfmws)
  refine readAt_row .cfmws c opts a _ _ 32 2 _ (by decide) hwf (by intro h; cases h) h rfl ?_ ?_
  · simp [flagSum, flagBits, Nat.add_assoc]
  · exact Nat.lt_of_le_of_lt hb (by decide)

theorem loc_ctor_lt (hwf : entryWf .loc c opts = true) : c.num 0 < 4 := by
  unfold entryWf ctorWf at hwf
  simp at hwf
  exact hwf.1

theorem flags_field_loc (hwf : entryWf .loc c opts = true) (h : buildEntry .loc c opts = .ok a) :
    readAt (entryBytes .loc a) 8 1 = some (c.num 0 + flagSum opts (flagBits .loc)) := by
  have hb := flagSum_le opts (flagBits .loc)
  have hn := loc_ctor_lt c opts hwf
  refine readAt_row .loc c opts a _ _ 8 1 _ (by decide) hwf (by intro h; cases h) h rfl ?_ ?_
  · simp [flagSum, flagBits, Nat.add_assoc]
  · have : (List.map (·.2) (flagBits .loc)).sum = 48 := by decide
    omega

theorem flags_field_gicmsi (hwf : entryWf .gicmsi c opts = true) (h : buildEntry .gicmsi c opts = .ok a) :
    readAt (entryBytes .gicmsi a) 16 4 = some (flagSum opts (flagBits .gicmsi)) := by
  have hb := flagSum_le opts (flagBits .gicmsi)
  refine readAt_row .gicmsi c opts a _ _ 16 4 _ (by decide) hwf (by intro h; cases h) h rfl ?_ ?_
  · simp [flagSum, flagBits]
  · exact Nat.lt_of_le_of_lt hb (by decide)

end perKind

/-- **C11, the flags field**: for each of the eight flag-bearing structures, whatever the program
    (any options, any order, any multiplicity), the flags field read back little-endian at its
    specification offset is the sum of the specification bits of exactly those flag options that
    occur in the program (plus, for the HMAT locality structure, the hierarchy code that shares
    the byte).  For the PPTT processor node, whose flags field can also be assigned directly, this
    is the statement for programs without such a write (`hnw`); see `proc_flags_field` for the
    general value and `proc_flags_write_indistinguishable` for why `hnw` is needed. -/
theorem flags_field (k : Kind) (c : EArgs) (opts : List Opt) (a : EArgs) (hk : flagBits k ≠ [])
    (hwf : entryWf k c opts = true) (h : buildEntry k c opts = .ok a)
    (hnw : k = .proc → noFlagsWrite opts = true) :
    readAt (entryBytes k a) (flagField k).1 (flagField k).2 =
      some (flagBase k c + flagSum opts (flagBits k)) := by
  cases k
  case mem => simpa only [flagField, flagBase, Nat.zero_add] using flags_field_mem c opts a hwf h
  case gi => simpa only [flagField, flagBase, Nat.zero_add] using flags_field_gi c opts a hwf h
  case rintcAff => simpa only [flagField, flagBase, Nat.zero_add] using flags_field_rintcAff c opts a hwf h
  case proc => simpa only [flagField, flagBase, Nat.zero_add] using flags_field_proc c opts a hwf h (hnw rfl)
  case cache => simpa only [flagField, flagBase, Nat.zero_add] using flags_field_cache c opts a hwf h
  case cfmws => simpa only [flagField, flagBase, Nat.zero_add] using flags_field_cfmws c opts a hwf h
  case loc => simpa only [flagField, flagBase] using flags_field_loc c opts a hwf h
  case gicmsi => simpa only [flagField, flagBase, Nat.zero_add] using flags_field_gicmsi c opts a hwf h
  all_goals exact absurd rfl hk

/-- in the value of the flags field, bit `b` is set iff option `nm` occurs in the program, for every
    pair `(nm, b)` of the specification's table `flagBits k` (pure arithmetic: the bits are distinct
    powers of two, and the HMAT hierarchy code stays below the flag bits) -/
theorem flag_bit_iff (k : Kind) (c : EArgs) (opts : List Opt) (hwf : entryWf k c opts = true)
    (nm : String) (b : Nat) (hm : (nm, b) ∈ flagBits k) :
    ((flagBase k c + flagSum opts (flagBits k)) &&& b = b ↔ has opts nm = true) := by
  have hp : (has opts nm, b) ∈ (flagBits k).map (fun p => (has opts p.1, p.2)) :=
    List.mem_map_of_mem (f := fun p => (has opts p.1, p.2)) hm
  rw [flagSum_eq_Sl]
  cases k
  case mem => simp only [flagBase, Nat.zero_add]; exact mask3 _ _ _ _ hp
  case gi => simp only [flagBase, Nat.zero_add]; exact mask2 _ _ _ hp
  case rintcAff => simp only [flagBase, Nat.zero_add]; exact mask1 _ _ hp
  case proc => simp only [flagBase, Nat.zero_add]; exact mask5 _ _ _ _ _ _ hp
  case cache => simp only [flagBase, Nat.zero_add]; exact mask8 _ _ _ _ _ _ _ _ _ hp
  case cfmws => simp only [flagBase, Nat.zero_add]; exact mask5 _ _ _ _ _ _ hp
  case loc =>
    have hn := loc_ctor_lt c opts hwf
    exact maskLoc ⟨c.num 0, by omega⟩ _ _ _ hp
  case gicmsi => simp only [flagBase, Nat.zero_add]; exact mask1 _ _ hp
  all_goals simp [flagBits] at hm

/-- **C11, every flag option is read back**: the flags field of the emitted bytes can be read at
    its specification offset, and in it the specification bit `b` of flag option `nm` is set if
    and only if `nm` was invoked (at least once, anywhere in the program) — whatever other
    options were invoked.  (PPTT processor node: for programs that do not assign the flags field
    directly, `hnw`; in general see `proc_flag_set_iff`.) -/
theorem flag_set_iff (k : Kind) (c : EArgs) (opts : List Opt) (a : EArgs)
    (hwf : entryWf k c opts = true) (h : buildEntry k c opts = .ok a)
    (hnw : k = .proc → noFlagsWrite opts = true)
    (nm : String) (b : Nat) (hm : (nm, b) ∈ flagBits k) :
    ∃ f, readAt (entryBytes k a) (flagField k).1 (flagField k).2 = some f ∧
      (f &&& b = b ↔ has opts nm = true) :=
  ⟨_, flags_field k c opts a (List.ne_nil_of_mem hm) hwf h hnw, flag_bit_iff k c opts hwf nm b hm⟩

/-- **C11, distinguishability**: two builder programs for the same structure with the same
    constructor arguments that differ in whether flag option `nm` is invoked never emit the same
    bytes, whatever else they invoke (other flags, valued options, list elements, in any order
    and number).  No extra hypothesis is needed for seven of the eight kinds; for the PPTT processor
    node neither program may assign the flags field directly (`hnw`, `hnw'` — needed:
    `proc_flags_write_indistinguishable`). -/
theorem flag_distinguishable (k : Kind) (c : EArgs) (opts opts' : List Opt) (a a' : EArgs)
    (hwf : entryWf k c opts = true) (hwf' : entryWf k c opts' = true)
    (h : buildEntry k c opts = .ok a) (h' : buildEntry k c opts' = .ok a')
    (hnw : k = .proc → noFlagsWrite opts = true) (hnw' : k = .proc → noFlagsWrite opts' = true)
    (nm : String) (b : Nat) (hm : (nm, b) ∈ flagBits k) (hd : has opts nm ≠ has opts' nm) :
    entryBytes k a ≠ entryBytes k a' := by
  intro he
  obtain ⟨f, hf, hi⟩ := flag_set_iff k c opts a hwf h hnw nm b hm
  obtain ⟨f', hf', hi'⟩ := flag_set_iff k c opts' a' hwf' h' hnw' nm b hm
  rw [he, hf'] at hf
  cases hf
  exact hd (Bool.eq_iff_iff.mpr (hi.symm.trans hi'))

/-- non-vacuity (PPTT cache node): `size`+`ctype` against `ctype` alone — the hypotheses hold, … -/
example : entryWf .cache {} [⟨"size", [4096]⟩, ⟨"ctype", [2]⟩] = true ∧
    entryWf .cache {} [⟨"ctype", [2]⟩] = true ∧
    (∃ a, buildEntry .cache {} [⟨"size", [4096]⟩, ⟨"ctype", [2]⟩] = .ok a) ∧
    (∃ a', buildEntry .cache {} [⟨"ctype", [2]⟩] = .ok a') ∧
    ("size", 1) ∈ flagBits .cache ∧
    has [⟨"size", [4096]⟩, ⟨"ctype", [2]⟩] "size" ≠ has [⟨"ctype", [2]⟩] "size" :=
  ⟨by decide, by decide, ⟨_, rfl⟩, ⟨_, rfl⟩, by decide, by decide⟩

/-- … and so do those of the HMAT locality structure (the one kind with a non-zero `flagBase`) -/
example : entryWf .loc { n := #[3, 0, 0, 100, 1, 1] } [⟨"nst", []⟩, ⟨"sete", [0, 0, 7]⟩] = true ∧
    (∃ a, buildEntry .loc { n := #[3, 0, 0, 100, 1, 1] } [⟨"nst", []⟩, ⟨"sete", [0, 0, 7]⟩] = .ok a) ∧
    ("nst", 0x20) ∈ flagBits .loc ∧
    has [⟨"nst", []⟩, ⟨"sete", [0, 0, 7]⟩] "nst" ≠ has [⟨"sete", [0, 0, 7]⟩] "nst" :=
  ⟨by decide, ⟨_, rfl⟩, by decide, by decide⟩

/-! ### PPTT processor node: direct writes of the flags field -/

/-- the statements `flags_field` / `flag_set_iff` / `flag_distinguishable` for the PPTT processor
    node *without* the `noFlagsWrite` hypothesis … -/
def proc_flag_distinguishable_unguarded : Prop :=
  ∀ (c : EArgs) (opts opts' : List Opt) (a a' : EArgs),
    entryWf .proc c opts = true → entryWf .proc c opts' = true →
    buildEntry .proc c opts = .ok a → buildEntry .proc c opts' = .ok a' →
    ∀ nm b, (nm, b) ∈ flagBits .proc → has opts nm ≠ has opts' nm → entryBytes .proc a ≠ entryBytes .proc a'

/-- … are false: `node.flags = 1` and `node.physical()` emit the same bytes, although `physical`
    is invoked in one program and not in the other -/
theorem proc_flags_write_indistinguishable :
    (∃ a a', buildEntry .proc {} [⟨"set", [0, 1]⟩] = .ok a ∧ buildEntry .proc {} [⟨"physical", []⟩] = .ok a' ∧
      entryBytes .proc a = entryBytes .proc a') ∧
    ¬ proc_flag_distinguishable_unguarded := by
  refine ⟨⟨_, _, rfl, rfl, by decide⟩, fun H => ?_⟩
  exact H {} [⟨"set", [0, 1]⟩] [⟨"physical", []⟩] _ _ (by decide) (by decide) rfl rfl "physical" 1
    (by decide) (by decide) (by decide)

/-- PPTT processor node, bit by bit and in general: the specification bit `b` of flag option `nm`
    is set in the emitted flags dword iff the last direct write of the field had it set or `nm`
    was invoked after that write -/
theorem proc_flag_set_iff (c : EArgs) (opts : List Opt) (a : EArgs)
    (hwf : entryWf .proc c opts = true) (h : buildEntry .proc c opts = .ok a)
    (nm : String) (b : Nat) (hm : (nm, b) ∈ flagBits .proc) :
    ∃ f, readAt (entryBytes .proc a) 4 4 = some f ∧
      (f &&& b = b ↔ (lastSet opts 0 0 &&& b = b ∨ has (afterLastFlagsWrite opts) nm = true)) := by
  refine ⟨_, proc_flags_field c opts a hwf h, ?_⟩
  rw [ProcF.procFlags_eq]
  have hp : (has (afterLastFlagsWrite opts) nm, b) ∈
      (flagBits .proc).map (fun p => (has (afterLastFlagsWrite opts) p.1, p.2)) :=
    List.mem_map_of_mem (f := fun p => (has (afterLastFlagsWrite opts) p.1, p.2)) hm
  have key : (flagSum (afterLastFlagsWrite opts) (flagBits .proc) &&& b = b ↔
      has (afterLastFlagsWrite opts) nm = true) := by
    rw [flagSum_eq_Sl]; exact mask5 _ _ _ _ _ _ hp
  have e : flagSum (afterLastFlagsWrite opts) (flagBits .proc) = procBuilderBits (afterLastFlagsWrite opts) := by
    simp [flagSum, flagBits, procBuilderBits, Nat.add_assoc]
  rw [e] at key
  rw [← key]
  simp only [flagBits, List.mem_cons, Prod.mk.injEq, List.not_mem_nil, or_false] at hm
  rcases hm with ⟨_, rfl⟩ | ⟨_, rfl⟩ | ⟨_, rfl⟩ | ⟨_, rfl⟩ | ⟨_, rfl⟩
  · exact ProcF.or_and_pow2 _ _ 0
  · exact ProcF.or_and_pow2 _ _ 1
  · exact ProcF.or_and_pow2 _ _ 2
  · exact ProcF.or_and_pow2 _ _ 3
  · exact ProcF.or_and_pow2 _ _ 4

/-- non-vacuity of `proc_flags_field` / `proc_flag_set_iff`: `physical(); flags = 6; leaf()` gives 14
    (the write discards `physical`, `leaf` is OR-ed in afterwards) -/
example : entryWf .proc {} [⟨"physical", []⟩, ⟨"set", [0, 6]⟩, ⟨"leaf", []⟩] = true ∧
    ∃ a, buildEntry .proc {} [⟨"physical", []⟩, ⟨"set", [0, 6]⟩, ⟨"leaf", []⟩] = .ok a ∧
      readAt (entryBytes .proc a) 4 4 = some 14 ∧
      procFlags [⟨"physical", []⟩, ⟨"set", [0, 6]⟩, ⟨"leaf", []⟩] = 14 :=
  ⟨by decide, _, rfl, by decide, by decide⟩

/-- non-vacuity of the `.proc` instances of `flags_field` / `flag_distinguishable` -/
example : entryWf .proc {} [⟨"set", [1, 3]⟩, ⟨"leaf", []⟩] = true ∧ entryWf .proc {} [⟨"set", [1, 3]⟩] = true ∧
    noFlagsWrite [⟨"set", [1, 3]⟩, ⟨"leaf", []⟩] = true ∧ noFlagsWrite [⟨"set", [1, 3]⟩] = true ∧
    (∃ a, buildEntry .proc {} [⟨"set", [1, 3]⟩, ⟨"leaf", []⟩] = .ok a) ∧
    (∃ a, buildEntry .proc {} [⟨"set", [1, 3]⟩] = .ok a) ∧
    has [⟨"set", [1, 3]⟩, ⟨"leaf", []⟩] "leaf" ≠ has [⟨"set", [1, 3]⟩] "leaf" :=
  ⟨by decide, by decide, by decide, by decide, ⟨_, rfl⟩, ⟨_, rfl⟩, by decide⟩

/-! ## 3. gating flags -/

/-- **C11, gating flags of the PPTT cache node**: the Flags dword (offset 4) is the sum, over the
    eight "… valid" bits, of the bit if and only if the corresponding value option occurs in the
    program: size 1, sets 2, associativity 4, allocation type 8, cache type 16, write policy 32,
    line size 64, cache id 128. -/
theorem cache_gating (c : EArgs) (opts : List Opt) (a : EArgs)
    (hwf : entryWf .cache c opts = true) (h : buildEntry .cache c opts = .ok a) :
    readAt (entryBytes .cache a) 4 4 =
      some ((if has opts "size" then 1 else 0) + (if has opts "sets" then 2 else 0) +
        (if has opts "assoc" then 4 else 0) + (if has opts "alloc" then 8 else 0) +
        (if has opts "ctype" then 16 else 0) + (if has opts "wp" then 32 else 0) +
        (if has opts "line" then 64 else 0) + (if has opts "id" then 128 else 0)) := by
  rw [flags_field_cache c opts a hwf h]
  simp [flagSum, flagBits, bit, Nat.add_assoc]

/-- the gated value fields of the PPTT cache node: each holds the last value supplied (truncated
    to the field width), and a value that was never supplied leaves its field zero — together
    with `cache_gating`: valid bit clear and field zero, or valid bit set and field = last value -/
theorem cache_gated_values (c : EArgs) (opts : List Opt) (a : EArgs)
    (hwf : entryWf .cache c opts = true) (h : buildEntry .cache c opts = .ok a)
    (nm : String) (off w : Nat)
    (hm : (nm, off, w) ∈ [("size", 12, 4), ("sets", 16, 4), ("assoc", 20, 1), ("line", 22, 2), ("id", 24, 4)]) :
    readAt (entryBytes .cache a) off w = some (lastVal opts nm 0 0 % 256 ^ w) ∧
    (has opts nm = false → readAt (entryBytes .cache a) off w = some 0) := by
  have key : readAt (entryBytes .cache a) off w = some (lastVal opts nm 0 0 % 256 ^ w) := by
    refine readAt_row_mod .cache c opts a _ _ off w _ (by decide) hwf (by intro h; cases h) h rfl ?_
    simp only [List.mem_cons, Prod.mk.injEq, List.not_mem_nil, or_false] at hm
    rcases hm with ⟨rfl, rfl, rfl⟩ | ⟨rfl, rfl, rfl⟩ | ⟨rfl, rfl, rfl⟩ | ⟨rfl, rfl, rfl⟩ | ⟨rfl, rfl, rfl⟩ <;> simp
  refine ⟨key, fun hn => ?_⟩
  rw [key, lastVal_of_not_has opts nm 0 0 hn, Nat.zero_mod]

/-- the attributes byte of the PPTT cache node is zero when none of allocation type, cache type,
    write policy was supplied -/
theorem cache_attr_absent (c : EArgs) (opts : List Opt) (a : EArgs)
    (hwf : entryWf .cache c opts = true) (h : buildEntry .cache c opts = .ok a)
    (h1 : has opts "alloc" = false) (h2 : has opts "ctype" = false) (h3 : has opts "wp" = false) :
    readAt (entryBytes .cache a) 21 1 = some 0 := by
  have key := readAt_row_mod .cache c opts a _ _ 21 1 _ (by decide) hwf (by intro h; cases h) h rfl
    (List.mem_cons_of_mem _ (List.mem_cons_of_mem _ (List.mem_cons_of_mem _ (List.mem_cons_of_mem _
      (List.mem_cons_of_mem _ (List.mem_cons_of_mem _ (List.mem_cons_of_mem _ (List.mem_cons_of_mem _
        List.mem_cons_self))))))))
  dsimp only at key
  rw [key, pushed_of_not_has opts _ h1, pushed_of_not_has opts _ h2, pushed_of_not_has opts _ h3]
  rfl

/-- **C11, gating flag of the GIC MSI frame**: the Flags dword (offset 16) has bit 0 ("SPI
    count/base select") set iff `spi(count, base)` was called; the count (offset 20) and base
    (offset 22) words hold the values of the last such call; without one, all three are zero. -/
theorem gicmsi_gating (c : EArgs) (opts : List Opt) (a : EArgs)
    (hwf : entryWf .gicmsi c opts = true) (h : buildEntry .gicmsi c opts = .ok a) :
    readAt (entryBytes .gicmsi a) 16 4 = some (if has opts "spi" then 1 else 0) ∧
    readAt (entryBytes .gicmsi a) 20 2 = some (lastVal opts "spi" 0 0 % 65536) ∧
    readAt (entryBytes .gicmsi a) 22 2 = some (lastVal opts "spi" 1 0 % 65536) ∧
    (has opts "spi" = false →
      readAt (entryBytes .gicmsi a) 16 4 = some 0 ∧ readAt (entryBytes .gicmsi a) 20 2 = some 0 ∧
      readAt (entryBytes .gicmsi a) 22 2 = some 0) := by
  have k1 : readAt (entryBytes .gicmsi a) 16 4 = some (if has opts "spi" then 1 else 0) := by
    rw [flags_field_gicmsi c opts a hwf h]
    simp [flagSum, flagBits, bit]
  have k2 : readAt (entryBytes .gicmsi a) 20 2 = some (lastVal opts "spi" 0 0 % 65536) :=
    readAt_row_mod .gicmsi c opts a _ _ 20 2 _ (by decide) hwf (by intro h; cases h) h rfl (by simp)
  have k3 : readAt (entryBytes .gicmsi a) 22 2 = some (lastVal opts "spi" 1 0 % 65536) :=
    readAt_row_mod .gicmsi c opts a _ _ 22 2 _ (by decide) hwf (by intro h; cases h) h rfl (by simp)
  refine ⟨k1, k2, k3, fun hn => ?_⟩
  rw [k1, k2, k3, lastVal_of_not_has opts _ 0 0 hn, lastVal_of_not_has opts _ 1 0 hn, hn]
  exact ⟨rfl, rfl, rfl⟩

/-- non-vacuity of `cache_gating` / `cache_gated_values` -/
example : entryWf .cache {} [⟨"size", [4096]⟩, ⟨"ctype", [2]⟩, ⟨"size", [8192]⟩] = true ∧
    ∃ a, buildEntry .cache {} [⟨"size", [4096]⟩, ⟨"ctype", [2]⟩, ⟨"size", [8192]⟩] = .ok a ∧
      readAt (entryBytes .cache a) 4 4 = some 17 ∧ readAt (entryBytes .cache a) 12 4 = some 8192 :=
  ⟨by decide, _, rfl, by decide, by decide⟩

/-- non-vacuity of `gicmsi_gating` -/
example : entryWf .gicmsi {} [⟨"set", [0, 5]⟩, ⟨"spi", [32, 64]⟩] = true ∧
    ∃ a, buildEntry .gicmsi {} [⟨"set", [0, 5]⟩, ⟨"spi", [32, 64]⟩] = .ok a ∧
      readAt (entryBytes .gicmsi a) 16 4 = some 1 ∧ readAt (entryBytes .gicmsi a) 20 2 = some 32 :=
  ⟨by decide, _, rfl, by decide, by decide⟩

/-! ## 2. order and repetition do not matter -/

/-- SRAT RINTC affinity: any two programs that agree on whether `enabled` occurs and on the last
    proximity domain supplied emit identical bytes (order and repetition of the calls are
    irrelevant) -/
theorem rintcAff_order_irrelevant (c : EArgs) (opts opts' : List Opt) (a a' : EArgs)
    (hs : has opts "en" = has opts' "en") (hv : lastVal opts "pd" 0 0 = lastVal opts' "pd" 0 0)
    (hwf : entryWf .rintcAff c opts = true) (hwf' : entryWf .rintcAff c opts' = true)
    (h : buildEntry .rintcAff c opts = .ok a) (h' : buildEntry .rintcAff c opts' = .ok a') :
    entryBytes .rintcAff a = entryBytes .rintcAff a' :=
  same_rows_same_bytes .rintcAff c opts opts' a a' (by decide) (by intro h; cases h) hwf hwf' h h'
    (by simp [rows, bit, hs, hv])

/-- GIC MSI frame: any two programs that agree on whether `spi` occurs, on the values of its last
    call, and on the last value set for the id and base address emit identical bytes -/
theorem gicmsi_order_irrelevant (c : EArgs) (opts opts' : List Opt) (a a' : EArgs)
    (hs : has opts "spi" = has opts' "spi")
    (hv0 : lastVal opts "spi" 0 0 = lastVal opts' "spi" 0 0)
    (hv1 : lastVal opts "spi" 1 0 = lastVal opts' "spi" 1 0)
    (hs0 : lastSet opts 0 0 = lastSet opts' 0 0) (hs1 : lastSet opts 1 0 = lastSet opts' 1 0)
    (hwf : entryWf .gicmsi c opts = true) (hwf' : entryWf .gicmsi c opts' = true)
    (h : buildEntry .gicmsi c opts = .ok a) (h' : buildEntry .gicmsi c opts' = .ok a') :
    entryBytes .gicmsi a = entryBytes .gicmsi a' :=
  same_rows_same_bytes .gicmsi c opts opts' a a' (by decide) (by intro h; cases h) hwf hwf' h h'
    (by simp [rows, bit, hs, hv0, hv1, hs0, hs1])

/-- the two pure flag options of the HMAT locality structure -/
def isLocFlag (o : Opt) : Bool := o.name = "mtsr" || o.name = "nst"

/-- HMAT system locality structure: two programs that invoke the same set of the flag options
    `mtsr` (minimum transfer size) / `nst` (non-sequential transfers) and whose *other* calls
    (initiator / target / entry assignments) form the same sequence emit identical bytes — the
    flag calls may be placed anywhere among the other calls, in any order, any number of times -/
theorem loc_flags_order_irrelevant (c : EArgs) (opts opts' : List Opt) (a a' : EArgs)
    (hm : has opts "mtsr" = has opts' "mtsr") (hn : has opts "nst" = has opts' "nst")
    (hrest : opts.filter (fun o => !isLocFlag o) = opts'.filter (fun o => !isLocFlag o))
    (hwf : entryWf .loc c opts = true) (hwf' : entryWf .loc c opts' = true)
    (h : buildEntry .loc c opts = .ok a) (h' : buildEntry .loc c opts' = .ok a') :
    entryBytes .loc a = entryBytes .loc a' := by
  have hf : ∀ p : Opt → Bool, (∀ o, p o = true → isLocFlag o = false) →
      opts.filter p = opts'.filter p := by
    intro p hp
    rw [filter_of_filter_not opts p isLocFlag hp, filter_of_filter_not opts' p isLocFlag hp, hrest]
  have e1 : ∀ i j : Nat, opts.filter (fun o => decide (o.name = "sete" ∧ o.arg 0 = i ∧ o.arg 1 = j)) =
      opts'.filter (fun o => decide (o.name = "sete" ∧ o.arg 0 = i ∧ o.arg 1 = j)) := by
    intro i j
    apply hf
    intro o ho
    simp only [decide_eq_true_eq] at ho
    simp [isLocFlag, ho.1]
  have e2 : ∀ i : Nat, opts.filter (fun o => decide (o.name = "seti" ∧ o.arg 0 = i)) =
      opts'.filter (fun o => decide (o.name = "seti" ∧ o.arg 0 = i)) := by
    intro i
    apply hf
    intro o ho
    simp only [decide_eq_true_eq] at ho
    simp [isLocFlag, ho.1]
  have e3 : ∀ i : Nat, opts.filter (fun o => decide (o.name = "sett" ∧ o.arg 0 = i)) =
      opts'.filter (fun o => decide (o.name = "sett" ∧ o.arg 0 = i)) := by
    intro i
    apply hf
    intro o ho
    simp only [decide_eq_true_eq] at ho
    simp [isLocFlag, ho.1]
  exact same_rows_same_bytes .loc c opts opts' a a' (by decide) (by intro h; cases h) hwf hwf' h h'
    (by simp only [rows, bit, hm, hn, e1, e2, e3])

/-- PPTT cache node: two programs emit identical bytes if they invoke the same set of options,
    agree on the last value supplied for each field that is *assigned* (next level, size, sets,
    associativity, line size, cache id), and supply the same *set* of values for each attribute
    that is *OR-ed* into the attributes byte (allocation type, cache type, write policy). -/
theorem cache_order_irrelevant (c : EArgs) (opts opts' : List Opt) (a a' : EArgs)
    (hs : ∀ nm, has opts nm = has opts' nm)
    (hv : ∀ nm ∈ ["next", "size", "sets", "assoc", "line", "id"],
      lastVal opts nm 0 0 = lastVal opts' nm 0 0)
    (hp : ∀ nm ∈ ["alloc", "ctype", "wp"], ∀ v, v ∈ pushed opts nm ↔ v ∈ pushed opts' nm)
    (hwf : entryWf .cache c opts = true) (hwf' : entryWf .cache c opts' = true)
    (h : buildEntry .cache c opts = .ok a) (h' : buildEntry .cache c opts' = .ok a') :
    entryBytes .cache a = entryBytes .cache a' := by
  have o1 := foldl_or_congr_set id _ _ (hp "alloc" (by simp))
  have o2 := foldl_or_congr_set (· * 4) _ _ (hp "ctype" (by simp))
  have o3 := foldl_or_congr_set (· * 16) _ _ (hp "wp" (by simp))
  have v1 := hv "next" (by simp)
  have v2 := hv "size" (by simp)
  have v3 := hv "sets" (by simp)
  have v4 := hv "assoc" (by simp)
  have v5 := hv "line" (by simp)
  have v6 := hv "id" (by simp)
  exact same_rows_same_bytes .cache c opts opts' a a' (by decide) (by intro h; cases h) hwf hwf' h h'
    (by simp only [rows, bit, hs, v1, v2, v3, v4, v5, v6, o1, o2, o3])

/-- the statement with "same last value for each valued option" only (as first proposed) … -/
def cache_order_irrelevant_lastval : Prop :=
  ∀ (c : EArgs) (opts opts' : List Opt) (a a' : EArgs),
    (∀ nm, has opts nm = has opts' nm) → (∀ nm i d, lastVal opts nm i d = lastVal opts' nm i d) →
    entryWf .cache c opts = true → entryWf .cache c opts' = true →
    buildEntry .cache c opts = .ok a → buildEntry .cache c opts' = .ok a' →
    entryBytes .cache a = entryBytes .cache a'

/-- … is false, for the model and for the reference rows alike: `allocation_type(Write)` then
    `allocation_type(Both)` ORs the codes 1 and 2 into the attributes byte (3), while
    `allocation_type(Both)` alone gives 2; both programs have the same options and last values. -/
theorem cache_order_irrelevant_lastval_false : ¬ cache_order_irrelevant_lastval := by
  intro H
  have hs : ∀ nm, has [⟨"alloc", [1]⟩, ⟨"alloc", [2]⟩] nm = has [⟨"alloc", [2]⟩] nm := by
    intro nm; simp [has]
  have hv : ∀ nm i d, lastVal [⟨"alloc", [1]⟩, ⟨"alloc", [2]⟩] nm i d = lastVal [⟨"alloc", [2]⟩] nm i d := by
    intro nm i d
    by_cases hn : "alloc" = nm
    · subst hn; simp [lastVal, lastOf]
    · simp [lastVal, lastOf, List.filter, hn]
  have := H {} [⟨"alloc", [1]⟩, ⟨"alloc", [2]⟩] [⟨"alloc", [2]⟩] _ _ hs hv (by decide) (by decide) rfl rfl
  revert this
  decide

/-- the options whose calls *accumulate* (list elements, OR-ed attribute codes): the names the
    reference rows query with `pushed` -/
def pushedNames : List String := ["h", "cache", "alloc", "ctype", "wp", "cmo", "target", "map"]

/-- all the spec-side queries of Acpi.Spec.Layout agree on two programs: the same set of options
    occurs, every valued option / state slot has the same last value, and the accumulating options
    push the same sequence of values -/
structure SameQueries (opts opts' : List Opt) : Prop where
  has_eq : ∀ nm, has opts nm = has opts' nm
  lastVal_eq : ∀ nm i d, lastVal opts nm i d = lastVal opts' nm i d
  lastSet_eq : ∀ idx d, lastSet opts idx d = lastSet opts' idx d
  pushed_eq : ∀ nm ∈ pushedNames, pushed opts nm = pushed opts' nm

/-- **order and repetition do not matter, in general**: for every structure whose reference rows
    are written with the spec-side queries only (all but the GICC and HMAT-locality structures,
    which filter on argument values, and the excluded GED), two programs on which `has`,
    `lastVal`, `lastSet` and `pushed` agree emit identical bytes.  The PPTT processor node has one
    more query, its flags value `procFlags` (sensitive to the position of the flag builders
    relative to a direct write of the field): `hpf`, which follows from the other queries for
    programs without such a write (`ProcF.procFlags_congr`). -/
theorem order_irrelevant_of_same_queries (k : Kind) (c : EArgs) (opts opts' : List Opt) (a a' : EArgs)
    (hk : k ≠ .ged) (hk1 : k ≠ .gicc) (hk2 : k ≠ .loc) (hq : k = .qosctrl → C04.qosCtorWf c)
    (q : SameQueries opts opts') (hpf : k = .proc → procFlags opts = procFlags opts')
    (hwf : entryWf k c opts = true) (hwf' : entryWf k c opts' = true)
    (h : buildEntry k c opts = .ok a) (h' : buildEntry k c opts' = .ok a') :
    entryBytes k a = entryBytes k a' := by
  refine same_rows_same_bytes k c opts opts' a a' hk hq hwf hwf' h h' ?_
  obtain ⟨q1, q2, q3, q4⟩ := q
  have p1 := q4 "h" (by decide)
  have p2 := q4 "cache" (by decide)
  have p3 := q4 "alloc" (by decide)
  have p4 := q4 "ctype" (by decide)
  have p5 := q4 "wp" (by decide)
  have p6 := q4 "cmo" (by decide)
  have p7 := q4 "target" (by decide)
  have p8 := q4 "map" (by decide)
  cases k
  case gicc => exact absurd rfl hk1
  case loc => exact absurd rfl hk2
  case proc => simp only [rows, hpf rfl, q3, p2]
  all_goals simp only [rows, bit, aerCommon, ghesCommon, q1, q2, q3, p1, p3, p4, p5, p6, p7, p8]

/-- non-vacuity of the order theorems: `enabled` twice around a proximity-domain call against once -/
example : SameQueries [⟨"en", []⟩, ⟨"pd", [3]⟩, ⟨"en", []⟩] [⟨"pd", [3]⟩, ⟨"en", []⟩] ∧
    entryWf .rintcAff { n := #[7], b := #[[1, 2, 3, 4]] } [⟨"en", []⟩, ⟨"pd", [3]⟩, ⟨"en", []⟩] = true ∧
    (∃ a, buildEntry .rintcAff { n := #[7], b := #[[1, 2, 3, 4]] } [⟨"en", []⟩, ⟨"pd", [3]⟩, ⟨"en", []⟩] = .ok a) ∧
    (∃ a, buildEntry .rintcAff { n := #[7], b := #[[1, 2, 3, 4]] } [⟨"pd", [3]⟩, ⟨"en", []⟩] = .ok a) := by
  refine ⟨⟨?_, ?_, ?_, ?_⟩, by decide, ⟨_, rfl⟩, ⟨_, rfl⟩⟩
  · intro nm; simp [has]; exact fun h => Or.inr h
  · intro nm i d
    by_cases h1 : "en" = nm
    · subst h1; simp [lastVal, lastOf]
    · by_cases h2 : "pd" = nm
      · subst h2; simp [lastVal, lastOf]
      · simp [lastVal, lastOf, List.filter, h1, h2]
  · intro idx d; simp [lastSet]
  · intro nm hnm
    simp only [pushedNames, List.mem_cons, List.not_mem_nil, or_false] at hnm
    rcases hnm with rfl | rfl | rfl | rfl | rfl | rfl | rfl | rfl <;> decide

/-- non-vacuity of `loc_flags_order_irrelevant`: the flag before or after (and repeated around)
    the same entry assignment -/
example : has [⟨"nst", []⟩, ⟨"sete", [0, 0, 7]⟩, ⟨"nst", []⟩] "mtsr" = has [⟨"sete", [0, 0, 7]⟩, ⟨"nst", []⟩] "mtsr" ∧
    has [⟨"nst", []⟩, ⟨"sete", [0, 0, 7]⟩, ⟨"nst", []⟩] "nst" = has [⟨"sete", [0, 0, 7]⟩, ⟨"nst", []⟩] "nst" ∧
    ([⟨"nst", []⟩, ⟨"sete", [0, 0, 7]⟩, ⟨"nst", []⟩] : List Opt).filter (fun o => !isLocFlag o) =
      ([⟨"sete", [0, 0, 7]⟩, ⟨"nst", []⟩] : List Opt).filter (fun o => !isLocFlag o) ∧
    entryWf .loc { n := #[3, 0, 0, 100, 1, 1] } [⟨"nst", []⟩, ⟨"sete", [0, 0, 7]⟩, ⟨"nst", []⟩] = true ∧
    (∃ a, buildEntry .loc { n := #[3, 0, 0, 100, 1, 1] } [⟨"nst", []⟩, ⟨"sete", [0, 0, 7]⟩, ⟨"nst", []⟩] = .ok a) ∧
    (∃ a, buildEntry .loc { n := #[3, 0, 0, 100, 1, 1] } [⟨"sete", [0, 0, 7]⟩, ⟨"nst", []⟩] = .ok a) :=
  ⟨by decide, by decide, by decide, by decide, ⟨_, rfl⟩, ⟨_, rfl⟩⟩

/-- non-vacuity of `cache_order_irrelevant`: the same calls permuted and one repeated -/
example :
    let p : List Opt := [⟨"alloc", [1]⟩, ⟨"size", [4096]⟩, ⟨"alloc", [2]⟩, ⟨"size", [8192]⟩]
    let p' : List Opt := [⟨"size", [8192]⟩, ⟨"alloc", [2]⟩, ⟨"alloc", [1]⟩, ⟨"alloc", [2]⟩]
    (∀ nm ∈ ["next", "size", "sets", "assoc", "line", "id"], lastVal p nm 0 0 = lastVal p' nm 0 0) ∧
    (∀ nm ∈ ["alloc", "ctype", "wp"], ∀ v, v ∈ pushed p nm ↔ v ∈ pushed p' nm) ∧
    entryWf .cache {} p = true ∧ entryWf .cache {} p' = true ∧
    (∃ a, buildEntry .cache {} p = .ok a) ∧ (∃ a, buildEntry .cache {} p' = .ok a) := by
  refine ⟨by decide, ?_, by decide, by decide, ⟨_, rfl⟩, ⟨_, rfl⟩⟩
  intro nm hnm v
  simp only [List.mem_cons, List.not_mem_nil, or_false] at hnm
  rcases hnm with rfl | rfl | rfl <;> simp [pushed, Opt.arg] <;> omega

end Acpi.C11
