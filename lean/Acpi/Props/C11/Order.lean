/-
  C11, "in any order and any number of times", stated outright for the flag-bearing structures
  beyond SRAT memory affinity and generic initiator (C11.lean): two builder programs that invoke
  the same *set* of flag options (and push the same sequence of list elements, where the structure
  has a list) emit identical bytes.
-/
import Acpi.Props.C11
namespace Acpi.C11
open Acpi Spec

/-- PPTT processor node: the five flags in any order and repetition, interleaved with the same
    sequence of `add_cache` calls -/
theorem proc_order_irrelevant (c : EArgs) (opts opts' : List Opt) (a a' : EArgs)
    (hs : ∀ nm, has opts nm = has opts' nm) (hp : pushed opts "cache" = pushed opts' "cache")
    (hwf : entryWf .proc c opts = true) (hwf' : entryWf .proc c opts' = true)
    (h : buildEntry .proc c opts = .ok a) (h' : buildEntry .proc c opts' = .ok a') :
    entryBytes .proc a = entryBytes .proc a' :=
  same_rows_same_bytes .proc c opts opts' a a' (by decide) (by intro h; cases h) hwf hwf' h h'
    (by simp [rows, bit, hs, hp])

/-- CXL fixed memory window: the five restriction flags in any order and repetition, with the
    same sequence of interleave targets -/
theorem cfmws_order_irrelevant (c : EArgs) (opts opts' : List Opt) (a a' : EArgs)
    (hs : ∀ nm, has opts nm = has opts' nm) (hp : pushed opts "target" = pushed opts' "target")
    (hwf : entryWf .cfmws c opts = true) (hwf' : entryWf .cfmws c opts' = true)
    (h : buildEntry .cfmws c opts = .ok a) (h' : buildEntry .cfmws c opts' = .ok a') :
    entryBytes .cfmws a = entryBytes .cfmws a' :=
  same_rows_same_bytes .cfmws c opts opts' a a' (by decide) (by intro h; cases h) hwf hwf' h h'
    (by simp [rows, bit, hs, hp])

end Acpi.C11
