/-
  C11, "in any order and any number of times", stated outright for the flag-bearing structures
  beyond SRAT memory affinity and generic initiator (C11.lean): two builder programs that invoke
  the same *set* of flag options (and push the same sequence of list elements, where the structure
  has a list) emit identical bytes.
-/
import Acpi.Props.C11
import Acpi.Lemmas.ProcFlags
namespace Acpi.C11
open Acpi Spec

/-- PPTT processor node, in general (direct field writes included): two programs with the same
    flags value (`procFlags`: last direct write of the field OR-ed with the flag builders invoked
    after it), the same last value written to the parent and processor-id fields, and the same
    sequence of `add_cache` calls emit identical bytes -/
theorem proc_same_fields_same_bytes (c : EArgs) (opts opts' : List Opt) (a a' : EArgs)
    (hf : procFlags opts = procFlags opts')
    (hpar : lastSet opts 1 (c.num 0) = lastSet opts' 1 (c.num 0))
    (hid : lastSet opts 2 (c.num 1) = lastSet opts' 2 (c.num 1))
    (hp : pushed opts "cache" = pushed opts' "cache")
    (hwf : entryWf .proc c opts = true) (hwf' : entryWf .proc c opts' = true)
    (h : buildEntry .proc c opts = .ok a) (h' : buildEntry .proc c opts' = .ok a') :
    entryBytes .proc a = entryBytes .proc a' :=
  same_rows_same_bytes .proc c opts opts' a a' (by decide) (by intro h; cases h) hwf hwf' h h'
    (by simp only [rows, hf, hpar, hid, hp])

/-- PPTT processor node: the five flags in any order and repetition, interleaved with the same
    sequence of `add_cache` calls — for programs that do not write the flags field directly
    (`noFlagsWrite`) and agree on the last value written to the parent / processor-id fields.
    (With a direct write of the flags field the order of the flag builders relative to it
    matters: `proc_order_relevant_with_flags_write`.) -/
theorem proc_order_irrelevant (c : EArgs) (opts opts' : List Opt) (a a' : EArgs)
    (hs : ∀ nm, has opts nm = has opts' nm) (hp : pushed opts "cache" = pushed opts' "cache")
    (hnw : noFlagsWrite opts = true) (hnw' : noFlagsWrite opts' = true)
    (hpar : lastSet opts 1 (c.num 0) = lastSet opts' 1 (c.num 0))
    (hid : lastSet opts 2 (c.num 1) = lastSet opts' 2 (c.num 1))
    (hwf : entryWf .proc c opts = true) (hwf' : entryWf .proc c opts' = true)
    (h : buildEntry .proc c opts = .ok a) (h' : buildEntry .proc c opts' = .ok a') :
    entryBytes .proc a = entryBytes .proc a' :=
  proc_same_fields_same_bytes c opts opts' a a' (ProcF.procFlags_congr opts opts' hs hnw hnw') hpar hid hp
    hwf hwf' h h'

/-- … in particular the statement as it was before direct writes were modelled, for programs
    without any direct write (`set=` does not occur): same set of options and same sequence of
    `add_cache` calls give identical bytes -/
theorem proc_order_irrelevant_no_writes (c : EArgs) (opts opts' : List Opt) (a a' : EArgs)
    (hs : ∀ nm, has opts nm = has opts' nm) (hp : pushed opts "cache" = pushed opts' "cache")
    (hns : has opts "set" = false)
    (hwf : entryWf .proc c opts = true) (hwf' : entryWf .proc c opts' = true)
    (h : buildEntry .proc c opts = .ok a) (h' : buildEntry .proc c opts' = .ok a') :
    entryBytes .proc a = entryBytes .proc a' := by
  have hns' : has opts' "set" = false := by rw [← hs]; exact hns
  refine proc_order_irrelevant c opts opts' a a' hs hp (ProcF.noFlagsWrite_of_not_has_set _ hns)
    (ProcF.noFlagsWrite_of_not_has_set _ hns') ?_ ?_ hwf hwf' h h'
  · rw [ProcF.lastSet_of_not_has_set _ hns, ProcF.lastSet_of_not_has_set _ hns']
  · rw [ProcF.lastSet_of_not_has_set _ hns, ProcF.lastSet_of_not_has_set _ hns']

/-- the statement of `proc_order_irrelevant` without `noFlagsWrite` (even with *every* slot's
    last written value agreeing) … -/
def proc_order_irrelevant_unguarded : Prop :=
  ∀ (c : EArgs) (opts opts' : List Opt) (a a' : EArgs),
    (∀ nm, has opts nm = has opts' nm) → pushed opts "cache" = pushed opts' "cache" →
    (∀ j d, lastSet opts j d = lastSet opts' j d) →
    entryWf .proc c opts = true → entryWf .proc c opts' = true →
    buildEntry .proc c opts = .ok a → buildEntry .proc c opts' = .ok a' →
    entryBytes .proc a = entryBytes .proc a'

/-- … is false: `flags = 0; physical()` leaves the flags at 1, `physical(); flags = 0` at 0 — the
    same set of calls, the same last written values, different bytes -/
theorem proc_order_relevant_with_flags_write : ¬ proc_order_irrelevant_unguarded := by
  intro H
  have hs : ∀ nm, has [⟨"set", [0, 0]⟩, ⟨"physical", []⟩] nm = has [⟨"physical", []⟩, ⟨"set", [0, 0]⟩] nm := by
    intro nm; simp [has, Bool.or_comm]
  have hl : ∀ j d, lastSet [⟨"set", [0, 0]⟩, ⟨"physical", []⟩] j d = lastSet [⟨"physical", []⟩, ⟨"set", [0, 0]⟩] j d := by
    intro j d; simp [lastSet, List.filter]
  have := H {} [⟨"set", [0, 0]⟩, ⟨"physical", []⟩] [⟨"physical", []⟩, ⟨"set", [0, 0]⟩] _ _ hs (by decide)
    hl (by decide) (by decide) rfl rfl
  revert this
  decide

/-- non-vacuity of `proc_order_irrelevant`: the flag builders permuted and repeated around the same
    `add_cache` call and a direct write of the parent field -/
example :
    let p : List Opt := [⟨"physical", []⟩, ⟨"set", [1, 9]⟩, ⟨"cache", [40]⟩, ⟨"leaf", []⟩, ⟨"physical", []⟩]
    let p' : List Opt := [⟨"leaf", []⟩, ⟨"cache", [40]⟩, ⟨"physical", []⟩, ⟨"set", [1, 9]⟩]
    pushed p "cache" = pushed p' "cache" ∧ noFlagsWrite p = true ∧ noFlagsWrite p' = true ∧
    lastSet p 1 0 = lastSet p' 1 0 ∧ lastSet p 2 0 = lastSet p' 2 0 ∧
    entryWf .proc {} p = true ∧ entryWf .proc {} p' = true ∧
    (∃ a, buildEntry .proc {} p = .ok a) ∧ (∃ a, buildEntry .proc {} p' = .ok a) :=
  ⟨by decide, by decide, by decide, by decide, by decide, by decide, by decide, ⟨_, rfl⟩, ⟨_, rfl⟩⟩

/-- CXL fixed memory window: the five restriction flags in any order and repetition, with the
    same sequence of interleave targets -/
theorem cfmws_order_irrelevant (c : EArgs) (opts opts' : List Opt) (a a' : EArgs)
    (hs : ∀ nm, has opts nm = has opts' nm) (hp : pushed opts "target" = pushed opts' "target")
    (hwf : entryWf .cfmws c opts = true) (hwf' : entryWf .cfmws c opts' = true)
    (h : buildEntry .cfmws c opts = .ok a) (h' : buildEntry .cfmws c opts' = .ok a') :
    entryBytes .cfmws a = entryBytes .cfmws a' :=
  same_rows_same_bytes .cfmws c opts opts' a a' (by decide) (by intro h; cases h) hwf hwf' h h'
    (by simp [rows, bit, hs, hp])

end Acpi.C11
