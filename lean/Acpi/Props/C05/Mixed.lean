/-
  C05, mixed programs: the handles a mixed program's add calls return are the offsets of the
  bytes those calls added (modelled entries and opaque entries alike).
-/
import Acpi.Tables.Mixed
import Acpi.Props.C05
import Acpi.Props.C05.Whole
import Acpi.Lemmas.Mixed
namespace Acpi.C05
open Acpi

/-- **C05 (mixed programs)**: in every non-panicking mixed program (modelled entries within their
    Rust types and not RDPAS; nothing asked of the opaque entries), every call returns a handle,
    and the i-th call's handle is the byte offset at which that very call's bytes sit in the FINAL
    image: the serialised bytes `entryBytes` of the entry the builder program built if the call is
    a modelled one, the bytes `raw` verbatim if it is an opaque one. -/
theorem mixed_handles (T : TableId) (o : Oem) (ho : C02.OemWf o) (ops : List MOp)
    (hwf : ∀ op, MOp.modelled op ∈ ops → op.k ≠ .rdpas ∧ entryWf op.k op.ctor op.opts = true)
    (hs : List Nat) (t : Tbl) (h : runMixed T o ops = some (hs, t)) :
    hs.length = ops.length ∧
    ∀ i (hi : i < ops.length), ∃ hnd, hs[i]? = some hnd ∧
      (∀ op, ops[i] = .modelled op → ∃ a, buildEntry op.k op.ctor op.opts = .ok a ∧
        (t.image.drop hnd).take (entryBytes op.k a).length = entryBytes op.k a) ∧
      (∀ raw, ops[i] = .opaque raw → (t.image.drop hnd).take raw.length = raw) := by
  obtain ⟨-, es, hb, hr⟩ := Mixed.runMixed_inv h
  have hcl := Mixed.claimed_eq ops hwf es hb
  obtain ⟨hl, hget⟩ := Mixed.buildMixed_spec ops es hb
  refine ⟨by rw [(handle_value T.cfg o es hcl hs t hr).1, hl], ?_⟩
  intro i hi
  have hi' : i < es.length := hl ▸ hi
  obtain ⟨hnd, h1, h2⟩ := handle_is_offset T.cfg o (Whole.cfgWf T o ho) es hcl hs t hr i hi'
  obtain ⟨g1, g2⟩ := hget i hi hi'
  refine ⟨hnd, h1, fun op hop => ?_, fun raw hraw => ?_⟩
  · obtain ⟨a, ha, e⟩ := g1 op hop
    rw [e] at h2
    exact ⟨a, ha, h2⟩
  · rw [g2 raw hraw] at h2
    exact h2

/-- the value of the handles: the i-th call's handle is the first-entry offset plus the sizes of
    the bytes added by the calls before it (`es` = what `buildMixed` lines up for the engine) -/
theorem mixed_handle_value (T : TableId) (o : Oem) (ops : List MOp)
    (hwf : ∀ op, MOp.modelled op ∈ ops → op.k ≠ .rdpas ∧ entryWf op.k op.ctor op.opts = true)
    (es : List (Bytes × Nat)) (hb : buildMixed ops = some es)
    (hs : List Nat) (t : Tbl) (h : runMixed T o ops = some (hs, t)) :
    ∀ i (_hi : i < ops.length),
      hs[i]? = some (Tbl.firstOffset T.cfg + (((es.take i).map (·.1.length)).sum)) := by
  obtain ⟨-, hr⟩ := Mixed.runMixed_inv' hb h
  intro i hi
  exact (handle_value T.cfg o es (Mixed.claimed_eq ops hwf es hb) hs t hr).2 i
    ((Mixed.buildMixed_spec ops es hb).1 ▸ hi)

/-- non-vacuity: the MADT program GICC (82 bytes), 12 opaque bytes, GICD (24 bytes) runs and its
    calls return the handles 44, 126, 138 (its hypotheses: see the example in C02/Mixed) -/
example : (runMixed (.madt 0) Mixed.exOem Mixed.exProg).map (·.1) = some [44, 126, 138] := by
  decide +kernel

/-- and the 12 opaque bytes indeed sit at offset 126 of the final image -/
example : (runMixed (.madt 0) Mixed.exOem Mixed.exProg).map
    (fun r => (r.2.image.drop 126).take 12) = some [0x7f, 12, 1, 2, 3, 4, 5, 6, 7, 8, 9, 10] := by
  decide +kernel

end Acpi.C05
