/-
  C05, second sentence, end to end: "Every reference field later built from a handle appears
  verbatim in the image, so each reference resolves to the start of a node of the expected type."

  `whole_handles` / `whole_handle_resolves` say what the handles returned by the add calls are.
  This file links them to their *use*: in a linked program (Acpi/Tables/Linked.lean) a reference
  position of a later entry holds "the handle returned by call j"; the theorems below say that
  the final image carries exactly that handle in the reference field, and that the independent
  walk of the image finds, at that offset, the start of a node of the kind the position expects.
-/
import Acpi.Tables.Linked
import Acpi.Lemmas.Linked
import Acpi.Props.C05.Resolves
namespace Acpi.C05
open Acpi Spec Linked

/-- **linked programs are table programs**: a successful linked run executed the concrete
    program `ops` — which is every symbolic call linked against the *final* handle list (a
    reference only looks at earlier handles, and a handle never changes once returned) —, and
    that concrete program, run by `runTable`, returns the same handles and the same table.
    Moreover one handle was returned per call, and every reference of call `i` names an earlier
    call `j < i`. -/
theorem runLinked_is_runTable (T : TableId) (o : Oem) (ls : List LAddOp) (hs : List Nat) (t : Tbl)
    (ops : List AddOp) (h : runLinked T o ls = some (hs, t, ops)) :
    runTable T o ops = some (hs, t) ∧ ops = ls.map (link hs) ∧ hs.length = ls.length ∧
    ∀ i (hi : i < ls.length), ∀ r ∈ ls[i].refs, r.2 < i := by
  obtain ⟨⟨hacc, hims⟩, hfrom⟩ := runLinked_inv h
  obtain ⟨hops, hlt, bs, hb, hr⟩ := runLinkedFrom_spec ls _ [] hs t ops hfrom
  rw [List.nil_append] at hops
  have hlen : hs.length = ls.length := by
    obtain ⟨-, -, -, -, -, -, hl, -⟩ := runAdds_struct _ _ hs t hr
    rw [hl, List.length_map, (Whole.buildAll_spec ops bs hb).1, hops, List.length_map]
  refine ⟨?_, hops, hlen, ?_⟩
  · have hacc' : ops.all (fun op => T.accepts op.k) = true := by
      rw [hops, List.all_map]
      simpa [Function.comp_def] using hacc
    have hims' : imsicOnce ops = true := by
      rw [imsicOnce_congr ops (ls.map (·.op)) (by rw [hops]; simp [Function.comp_def])]
      exact hims
    unfold runTable
    rw [hacc', hims', hb]
    exact hr
  · intro i hi r hr'
    have := hlt i hi r hr'
    simpa using this

/-- **… and conversely**: if every reference of call `i` names an earlier call, and the concrete
    program obtained by writing the handles `hs` into the reference positions is a `runTable`
    program that returns exactly these handles, then it is the run of the linked program.  So
    `runLinked` adds nothing to `runTable` but the origin of the numbers in the reference
    positions. -/
theorem runTable_is_runLinked (T : TableId) (o : Oem) (ls : List LAddOp) (hs : List Nat) (t : Tbl)
    (hlt : ∀ i (hi : i < ls.length), ∀ r ∈ ls[i].refs, r.2 < i)
    (h : runTable T o (ls.map (link hs)) = some (hs, t)) :
    runLinked T o ls = some (hs, t, ls.map (link hs)) := by
  obtain ⟨-, bs, hb, hr⟩ := Whole.runTable_inv h
  have hg : (ls.map (link hs)).all (fun op => T.accepts op.k) = true ∧
      imsicOnce (ls.map (link hs)) = true := by
    unfold runTable at h
    split at h
    · rename_i hc; simpa using hc
    · cases h
  have hacc : ls.all (fun l => T.accepts l.op.k) = true := by
    have := hg.1
    rw [List.all_map] at this
    simpa [Function.comp_def] using this
  have hims : imsicOnce (ls.map (·.op)) = true := by
    rw [← imsicOnce_congr (ls.map (link hs)) (ls.map (·.op)) (by simp [Function.comp_def])]
    exact hg.2
  unfold runLinked
  rw [hacc, hims]
  have := runLinkedFrom_complete ls (Tbl.new T.cfg o) [] hs t bs
    (fun i hi r hr' => by simpa using hlt i hi r hr') (by rw [List.nil_append]; exact hb) hr
  rw [List.nil_append] at this
  exact this

/-- **C05 (references resolve), end to end.**  Take a linked program that runs (`runLinked`),
    whose references obey the handle types (`refsWellTyped`: an earlier call of the expected kind,
    at a position that exists), whose concrete calls meet the hypotheses of `whole_handle_resolves`
    (arguments within their Rust types, no RDPAS), and whose image is below 4 GiB.  Then the
    independent walk `tableEntries` of the final image succeeds with one entry per call, and for
    every call `i` and every reference `(pos, j)` of it:

    (a) *the reference field appears verbatim*: reading `pos.width` bytes little-endian at offset
        `hs[i] + fieldOffset pos` of the final image gives `hs[j]`, the handle returned by call `j`
        (for the 2-byte VIOT field this uses that the VIOT refuses nodes beyond offset 65535);
    (b) *it resolves to the start of a node of the expected type*: the walk's `j`-th entry starts
        exactly at `hs[j]` (first-entry offset plus the lengths of the entries the walk stepped
        over), call `j` added a node of a kind the position may name (`targetKinds pos`), and
        that entry carries the specification type code of that kind.

    Covered positions: PPTT processor parent / private resources, PPTT cache next level, VIOT
    translation offset (PCI range and MMIO endpoint), RHCT hart-info offsets (ISA string and CMO
    nodes), RIMT id-mapping destinations (PCIe root complex and platform device). -/
theorem linked_references_resolve (T : TableId) (o : Oem) (ho : C02.OemWf o) (ls : List LAddOp)
    (hs : List Nat) (t : Tbl) (ops : List AddOp)
    (hrun : runLinked T o ls = some (hs, t, ops)) (hty : refsWellTyped ls = true)
    (hwf : ∀ op ∈ ops, op.k ≠ .rdpas ∧ entryWf op.k op.ctor op.opts = true ∧
      (op.k = .qosctrl → C04.qosCtorWf op.ctor))
    (bs : List (Kind × EArgs)) (hb : buildAll ops = some bs)
    (hbnd : ∀ e ∈ bs, (e.1 = .loc → (entryBytes e.1 e.2).length < 2 ^ 32) ∧ (e.1 = .qosctrl → e.2.num 0 < 256))
    (hsz : t.image.length < 2 ^ 32) :
    ∃ sh es, shapeOf T.name = some sh ∧ tableEntries sh t.image = .ok es ∧
      es.length = ls.length ∧ hs.length = ls.length ∧
      ∀ (i : Nat) (hi : i < ls.length) (pos : RefPos) (j : Nat), (pos, j) ∈ ls[i].refs →
        ∃ (hj : j < ls.length) (hje : j < es.length), j < i ∧
          readAt t.image (hs.getD i 0 + fieldOffset pos ls[i].op) pos.width = some (hs.getD j 0) ∧
          hs.getD j 0 = sh.first + ((es.take j).map (·.2.length)).sum ∧
          ls[j].op.k ∈ targetKinds pos ∧
          es[j].1 = typeCodeConst ls[j].op.k := by
  obtain ⟨hrt, hops, hlen, -⟩ := runLinked_is_runTable T o ls hs t ops hrun
  obtain ⟨sh, es, hsh, hwalk, heslen, hres⟩ := whole_handle_resolves T o ho ops hwf bs hb hbnd hs t hrt
  obtain ⟨hbl, hget⟩ := Whole.buildAll_spec ops bs hb
  have hol : ops.length = ls.length := by rw [hops, List.length_map]
  obtain ⟨hacc, hr⟩ := Whole.runTable_inv' hb hrt
  have hwf2 : ∀ op ∈ ops, op.k ≠ .rdpas ∧ entryWf op.k op.ctor op.opts = true :=
    fun op hop => ⟨(hwf op hop).1, (hwf op hop).2.1⟩
  have hcl := Whole.claimed_eq ops hwf2 bs hb
  obtain ⟨-, hh⟩ := whole_handles T o ho ops hwf2 bs hb hs t hrt
  refine ⟨sh, es, hsh, hwalk, by omega, hlen, ?_⟩
  intro i hi pos j hmem
  obtain ⟨hnd, hok⟩ := refsWellTyped_spec ls hty i hi
  obtain ⟨hji, ⟨hj, htk⟩, hex, hset⟩ := hok (pos, j) hmem
  simp only at hji hj htk hex hset
  have hio : i < ops.length := by omega
  have hib : i < bs.length := by omega
  have hjo : j < ops.length := by omega
  have hjb : j < bs.length := by omega
  have hje : j < es.length := by omega
  have hjh : j < hs.length := by omega
  have hopi : ops[i] = link hs ls[i] := by simp only [hops, List.getElem_map]
  have hopj : ops[j] = link hs ls[j] := by simp only [hops, List.getElem_map]
  refine ⟨hj, hje, hji, ?_, ?_, htk, ?_⟩
  · -- (a) the field appears verbatim
    have hval := getRef_link hs ls[i] hnd (fun r hr => (hok r hr).2.2.1) pos j hmem
    obtain ⟨total, rs, hrows, hrow⟩ := ref_row pos (link hs ls[i]) (hs.getD j 0) hval
      (fun e => (link_all_names hs ls[i] (fun n => n != "set")).trans (hset e))
    obtain ⟨hk1, hbuild⟩ := hget i hio hib
    obtain ⟨hndl, hhi, hbytes⟩ := hh i hib
    obtain ⟨-, w2, w3⟩ := hwf ops[i] (List.getElem_mem hio)
    have hacci := hacc ops[i] (List.getElem_mem hio)
    have hged : ops[i].k ≠ .ged := by
      intro hk
      rw [hk] at hacci
      cases hacci
    rw [hopi] at hk1 hbuild w2 w3 hged hacci
    rw [hk1] at hbytes
    have hre := C11.readAt_row_mod _ _ _ bs[i].2 total rs _ _ _ hged w2 w3 hbuild hrows hrow
    -- the handle fits the field
    have hjget : hs[j]? = some (hs.getD j 0) := by
      rw [List.getD_eq_getElem?_getD, List.getElem?_eq_getElem hjh]; rfl
    have hfit : hs.getD j 0 < 256 ^ pos.width := by
      by_cases hp : pos = .viotTrans
      · subst hp
        rw [link_k] at hacci
        have hT := viot_of_viotTrans T ls[i].op hex hacci
        subst hT
        have := handles_le_max _ _ hs t 65535 rfl hr (hs.getD j 0) (List.mem_of_getElem? hjget)
        show hs.getD j 0 < 256 ^ 2
        omega
      · have hw : pos.width = 4 := by cases pos <;> first | rfl | exact absurd rfl hp
        have := handle_le_image T.cfg o (Whole.cfgWf T o ho) _ hcl hs t hr j _ hjget
        rw [hw]
        omega
    rw [Nat.mod_eq_of_lt hfit] at hre
    have hwpos : 0 < pos.width := by cases pos <;> simp [RefPos.width]
    have hgi : hs.getD i 0 = hndl := by rw [List.getD_eq_getElem?_getD, hhi]; rfl
    rw [hgi, ← fieldOffset_link pos hs ls[i]]
    exact readAt_sub t.image _ hndl _ _ _ hwpos hbytes hre
  · -- (b) it is where the walk's j-th entry starts
    have := (hres j hje hjb).1
    rw [List.getD_eq_getElem?_getD, this]
    rfl
  · -- … and that entry has the type code of the kind added by call j
    have h2 := (hres j hje hjb).2
    have hk1 := (hget j hjo hjb).1
    rw [h2, hk1, hopj, link_k]
    unfold typeCode
    rw [if_neg (targetKinds_ne_qos pos _ htk)]

/-- the four tables whose entries carry references to other entries -/
def hasHandles : TableId → Bool
  | .pptt | .rhct _ | .rimt | .viot => true
  | _ => false

/-- **C05 (references resolve) for PPTT, RHCT, RIMT and VIOT**, with the side conditions that
    cannot occur on these tables discharged (no RDPAS, no HMAT locality structure, no RQSC
    controller; the built entries exist because the run succeeded): a linked program that runs,
    obeys the handle types, has every concrete call within its Rust types, and produces an image
    below 4 GiB, has every reference field carrying verbatim the handle of the call it names, and
    that handle is where the independent walk finds the start of a node of the expected kind. -/
theorem linked_references_resolve_handle_tables (T : TableId) (hT : hasHandles T = true) (o : Oem)
    (ho : C02.OemWf o) (ls : List LAddOp) (hs : List Nat) (t : Tbl) (ops : List AddOp)
    (hrun : runLinked T o ls = some (hs, t, ops)) (hty : refsWellTyped ls = true)
    (hwf : ∀ op ∈ ops, entryWf op.k op.ctor op.opts = true)
    (hsz : t.image.length < 2 ^ 32) :
    ∃ sh es, shapeOf T.name = some sh ∧ tableEntries sh t.image = .ok es ∧
      es.length = ls.length ∧ hs.length = ls.length ∧
      ∀ (i : Nat) (hi : i < ls.length) (pos : RefPos) (j : Nat), (pos, j) ∈ ls[i].refs →
        ∃ (hj : j < ls.length) (hje : j < es.length), j < i ∧
          readAt t.image (hs.getD i 0 + fieldOffset pos ls[i].op) pos.width = some (hs.getD j 0) ∧
          hs.getD j 0 = sh.first + ((es.take j).map (·.2.length)).sum ∧
          ls[j].op.k ∈ targetKinds pos ∧
          es[j].1 = typeCodeConst ls[j].op.k := by
  obtain ⟨hrt, -, -, -⟩ := runLinked_is_runTable T o ls hs t ops hrun
  obtain ⟨hacc, bs, hb, -⟩ := Whole.runTable_inv hrt
  have hkind : ∀ op ∈ ops, op.k ≠ .rdpas ∧ op.k ≠ .qosctrl ∧ op.k ≠ .loc := by
    intro op hop
    have ha := hacc op hop
    refine ⟨?_, ?_, ?_⟩ <;>
    · intro hk
      rw [hk] at ha
      cases T <;> simp [tableOf, TableId.name, hasHandles] at ha hT
  obtain ⟨hbl, hget⟩ := Whole.buildAll_spec ops bs hb
  refine linked_references_resolve T o ho ls hs t ops hrun hty ?_ bs hb ?_ hsz
  · intro op hop
    exact ⟨(hkind op hop).1, hwf op hop, fun hk => absurd hk (hkind op hop).2.1⟩
  · intro e he
    obtain ⟨i, hi, rfl⟩ := List.mem_iff_getElem.mp he
    have hio : i < ops.length := by omega
    have hk := (hget i hio hi).1
    have hn := hkind ops[i] (List.getElem_mem hio)
    rw [← hk] at hn
    exact ⟨fun h => absurd h hn.2.2, fun h => absurd h hn.2.1⟩

/-! ### non-vacuity -/

/-- well-formed OEM fields (6 and 8 bytes) -/
def exOem : Oem := { id := [65, 66, 67, 68, 69, 70], table := [1, 2, 3, 4, 5, 6, 7, 8], rev := 1 }

/-- a PPTT program: L2 cache; L1 cache whose next level is call #0; a package node with private
    resources #0 and #1; a core node whose parent is call #2 and whose private resource is #1.
    The numbers at the reference positions are placeholders (0). -/
def exPptt : List LAddOp :=
  [ { op := { k := .cache, ctor := {}, opts := [⟨"size", [4096]⟩] } },
    { op := { k := .cache, ctor := {}, opts := [⟨"size", [512]⟩, ⟨"next", [0]⟩] },
      refs := [(.cacheNext, 0)] },
    { op := { k := .proc, ctor := { n := #[0, 7] },
              opts := [⟨"physical", []⟩, ⟨"cache", [0]⟩, ⟨"cache", [0]⟩] },
      refs := [(.procCache 0, 0), (.procCache 1, 1)] },
    { op := { k := .proc, ctor := { n := #[0, 8] }, opts := [⟨"cache", [0]⟩, ⟨"leaf", []⟩] },
      refs := [(.procParent, 2), (.procCache 0, 1)] } ]

/-- the program obeys the handle types -/
example : refsWellTyped exPptt = true := by decide

set_option maxRecDepth 4000 in
/-- the run succeeds, returns the handles 36, 64, 92, 120, and the image has 144 bytes -/
theorem exPptt_runs : (runLinked .pptt exOem exPptt).map (fun r => (r.1, r.2.1.image.length)) =
    some ([36, 64, 92, 120], 144) := by decide +kernel

set_option maxRecDepth 4000 in
/-- what linking does, on `exPptt` (non-vacuity of `runLinked_is_runTable`): the concrete program
    executed has the handles 36, 64, 92 written over the placeholders — constructor numbers and
    option values of the four calls shown -/
example : (runLinked .pptt exOem exPptt).map
      (fun r => r.2.2.map fun op => (op.ctor.n, op.opts.map (·.v))) =
    some [(#[], [[4096]]), (#[], [[512], [36]]), (#[0, 7], [[], [36], [64]]),
          (#[92, 8], [[64], []])] := by decide +kernel

/-- non-vacuity of `runTable_is_runLinked`: its hypotheses hold for `exPptt` with the handles
    36, 64, 92, 120 -/
example : ∃ t, (∀ i (hi : i < exPptt.length), ∀ r ∈ exPptt[i].refs, r.2 < i) ∧
    runTable .pptt exOem (exPptt.map (link [36, 64, 92, 120])) = some ([36, 64, 92, 120], t) := by
  have hruns := exPptt_runs
  cases hrun : runLinked .pptt exOem exPptt with
  | none => rw [hrun] at hruns; cases hruns
  | some r =>
    obtain ⟨hs, t, ops⟩ := r
    rw [hrun] at hruns
    simp only [Option.map_some, Option.some.injEq, Prod.mk.injEq] at hruns
    obtain ⟨rfl, -⟩ := hruns
    obtain ⟨hrt, hops, -, hlt⟩ := runLinked_is_runTable _ _ _ _ _ _ hrun
    exact ⟨t, hlt, hops ▸ hrt⟩

/-- non-vacuity of `linked_references_resolve_handle_tables` (hence of `linked_references_resolve`)
    and its conclusion instantiated on `exPptt`: the final image carries 36 in the L1 cache's
    next-level field (offset 64 + 8), 36 and 64 in the package node's private resources
    (92 + 20, 92 + 24), 92 in the core node's parent field (120 + 8) and 64 in its private
    resource (120 + 20); the independent walk finds four entries; handle 92 is where its entry #2
    starts and that entry has the processor type code 0, handle 64 is where entry #1 starts and it
    has the cache type code 1. -/
example : ∃ hs t ops, runLinked .pptt exOem exPptt = some (hs, t, ops) ∧ hs = [36, 64, 92, 120] ∧
    readAt t.image (64 + 8) 4 = some 36 ∧
    readAt t.image (92 + 20) 4 = some 36 ∧ readAt t.image (92 + 24) 4 = some 64 ∧
    readAt t.image (120 + 8) 4 = some 92 ∧ readAt t.image (120 + 20) 4 = some 64 ∧
    ∃ es, tableEntries { first := 36, kind := .t8l8 } t.image = .ok es ∧ ∃ (h4 : es.length = 4),
      92 = 36 + ((es.take 2).map (·.2.length)).sum ∧ es[2].1 = 0 ∧
      64 = 36 + ((es.take 1).map (·.2.length)).sum ∧ es[1].1 = 1 := by
  have hruns := exPptt_runs
  cases hrun : runLinked .pptt exOem exPptt with
  | none => rw [hrun] at hruns; cases hruns
  | some r =>
    obtain ⟨hs, t, ops⟩ := r
    rw [hrun] at hruns
    simp only [Option.map_some, Option.some.injEq, Prod.mk.injEq] at hruns
    obtain ⟨rfl, hlen⟩ := hruns
    obtain ⟨-, hops, -, -⟩ := runLinked_is_runTable _ _ _ _ _ _ hrun
    have hwf : ∀ op ∈ ops, entryWf op.k op.ctor op.opts = true := by
      rw [hops]; decide
    obtain ⟨sh, es, hsh, hwalk, hel, -, hall⟩ :=
      linked_references_resolve_handle_tables .pptt rfl exOem ⟨rfl, rfl⟩ exPptt _ t ops hrun
        (by decide) hwf (by omega)
    have hsh' : sh = { first := 36, kind := .t8l8 } := by
      have : shapeOf "pptt" = some sh := hsh
      simp only [shapeOf, Option.some.injEq] at this
      exact this.symm
    subst hsh'
    have h4 : es.length = 4 := hel
    obtain ⟨-, -, -, a1, -, -, -⟩ := hall 1 (by decide) .cacheNext 0 (by decide)
    obtain ⟨-, -, -, a2, -, -, -⟩ := hall 2 (by decide) (.procCache 0) 0 (by decide)
    obtain ⟨_, _, _, a3, b3, _, c3⟩ := hall 2 (by decide) (.procCache 1) 1 (by decide)
    obtain ⟨_, _, _, a4, b4, _, c4⟩ := hall 3 (by decide) .procParent 2 (by decide)
    obtain ⟨-, -, -, a5, -, -, -⟩ := hall 3 (by decide) (.procCache 0) 1 (by decide)
    exact ⟨_, t, ops, rfl, rfl, a1, a2, a3, a4, a5, es, hwalk, h4, b4, c4, b3, c3⟩

/-- the typing discipline is not vacuous and not redundant: the same program with the core node's
    private resource naming call #2 (a processor node, where a cache node is expected) still
    runs — the model, like the bytes, cannot tell — but is rejected by `refsWellTyped`, as the Rust
    handle types reject it at compile time -/
example :
    let bad : List LAddOp := exPptt.take 3 ++
      [{ op := { k := .proc, ctor := { n := #[0, 8] }, opts := [⟨"cache", [0]⟩] },
         refs := [(.procCache 0, 2)] }]
    refsWellTyped bad = false ∧ (runLinked .pptt exOem bad).isSome = true := by
  decide +kernel

/-- a forward reference (call #0 naming call #1) is an ill-formed program: no run -/
example : runLinked .pptt exOem
    [{ op := { k := .cache, ctor := {}, opts := [⟨"next", [0]⟩] }, refs := [(.cacheNext, 1)] },
     { op := { k := .cache, ctor := {}, opts := [] } }] = none := by
  decide +kernel

/-- a VIOT program: PCI IOMMU, MMIO IOMMU, a PCI range translated by #0, an MMIO endpoint
    translated by #1 -/
def exViot : List LAddOp :=
  [ { op := { k := .pciiommu, ctor := { n := #[0, 0, 1, 0] }, opts := [] } },
    { op := { k := .mmioiommu, ctor := { n := #[0x10000000] }, opts := [] } },
    { op := { k := .pcirange, ctor := { n := #[0, 0, 0, 0, 0, 255, 31, 7, 0] }, opts := [] },
      refs := [(.viotTrans, 0)] },
    { op := { k := .mmioep, ctor := { n := #[5, 0x20000000, 0] }, opts := [] },
      refs := [(.viotTrans, 1)] } ]

/-- an RHCT program: ISA string node, CMO node, hart info node naming both -/
def exRhct : List LAddOp :=
  [ { op := { k := .isa, ctor := { b := #[[114, 118, 54, 52]] }, opts := [] } },
    { op := { k := .cmo, ctor := { n := #[6, 6, 6] }, opts := [] } },
    { op := { k := .hart, ctor := { n := #[0, 0] }, opts := [⟨"cmo", [0]⟩] },
      refs := [(.hartIsa, 0), (.hartCmo 0, 1)] } ]

/-- a RIMT program: IOMMU, a PCIe root complex with one id mapping to it, a platform device with
    two id mappings to it -/
def exRimt : List LAddOp :=
  [ { op := { k := .iommu, ctor := { n := #[1, 1, 0x10000, 0, 0, 0, 0, 0, 0, 0, 0] }, opts := [] } },
    { op := { k := .pcierc, ctor := { n := #[2, 0, 1, 0, 1], s := [[0, 0, 0xFFFF, 0, 1, 0, 0]] },
              opts := [] },
      refs := [(.idmapDst 0, 0)] },
    { op := { k := .platform,
              ctor := { n := #[3, 1], b := #[[100, 101, 118]],
                        s := [[0, 0, 1, 0, 0, 0, 0], [1, 0, 1, 0, 0, 0, 0]] },
              opts := [] },
      refs := [(.idmapDst 1, 0), (.idmapDst 0, 0)] } ]

set_option maxRecDepth 4000 in
/-- the VIOT, RHCT and RIMT programs obey the handle types and run (handles shown) -/
example :
    refsWellTyped exViot = true ∧ refsWellTyped exRhct = true ∧ refsWellTyped exRimt = true ∧
    (runLinked .viot exOem exViot).map (·.1) = some [48, 64, 80, 104] ∧
    (runLinked (.rhct 10000000) exOem exRhct).map (·.1) = some [56, 70, 80] ∧
    (runLinked .rimt exOem exRimt).map (·.1) = some [48, 80, 116] := by
  decide +kernel

end Acpi.C05
