/-
  C05, whole tables: the handles a program's add calls return are the offsets of their nodes.
-/
import Acpi.Tables.Whole
import Acpi.Props.C05
import Acpi.Props.C02.Entries
import Acpi.Props.C02.Fixed
import Acpi.Lemmas.Whole
namespace Acpi.C05
open Acpi

/-- **C05 (whole tables)**: in every non-panicking program (entries within their Rust types, no
    RDPAS), the i-th add call's handle is the byte offset at which that very entry's serialised
    bytes sit in the final image. -/
theorem whole_handles (T : TableId) (o : Oem) (ho : C02.OemWf o) (ops : List AddOp)
    (hwf : ∀ op ∈ ops, op.k ≠ .rdpas ∧ entryWf op.k op.ctor op.opts = true)
    (bs : List (Kind × EArgs)) (hb : buildAll ops = some bs)
    (hs : List Nat) (t : Tbl) (h : runTable T o ops = some (hs, t)) :
    hs.length = bs.length ∧
    ∀ i (hi : i < bs.length), ∃ hnd, hs[i]? = some hnd ∧
      (t.image.drop hnd).take (entryBytes bs[i].1 bs[i].2).length = entryBytes bs[i].1 bs[i].2 := by
  obtain ⟨-, hr⟩ := Whole.runTable_inv' hb h
  have hcl := Whole.claimed_eq ops hwf bs hb
  refine ⟨by rw [(handle_value T.cfg o _ hcl hs t hr).1, List.length_map], ?_⟩
  intro i hi
  have hi' : i < (bs.map rawOf).length := by rw [List.length_map]; exact hi
  obtain ⟨hnd, h1, h2⟩ := handle_is_offset T.cfg o (Whole.cfgWf T o ho) _ hcl hs t hr i hi'
  refine ⟨hnd, h1, ?_⟩
  simp only [List.getElem_map, rawOf] at h2
  exact h2

end Acpi.C05
