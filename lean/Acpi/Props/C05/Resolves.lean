/-
  C05, second sentence: every handle resolves, in the independent walk of the final image, to the
  start of a node of the kind that was added.
-/
import Acpi.Props.C05.Whole
import Acpi.Props.C03.Whole
namespace Acpi.C05
open Acpi Spec

/-- **C05 (handles resolve)**: under the hypotheses of `C03.whole_walk`, the specification walk
    of the final image finds as many entries as handles were returned, and the i-th handle is
    exactly the offset at which the walk's i-th entry starts (first-entry offset plus the lengths
    the walk stepped over), and that entry carries the specification type code of the kind added
    by the i-th call — "each reference resolves to the start of a node of the expected type". -/
theorem whole_handle_resolves (T : TableId) (o : Oem) (ho : C02.OemWf o) (ops : List AddOp)
    (hwf : ∀ op ∈ ops, op.k ≠ .rdpas ∧ entryWf op.k op.ctor op.opts = true ∧
      (op.k = .qosctrl → C04.qosCtorWf op.ctor))
    (bs : List (Kind × EArgs)) (hb : buildAll ops = some bs)
    (hbnd : ∀ e ∈ bs, (e.1 = .loc → (entryBytes e.1 e.2).length < 2 ^ 32) ∧ (e.1 = .qosctrl → e.2.num 0 < 256))
    (hs : List Nat) (t : Tbl) (h : runTable T o ops = some (hs, t)) :
    ∃ sh es, shapeOf T.name = some sh ∧ tableEntries sh t.image = .ok es ∧ es.length = hs.length ∧
      ∀ i (hi : i < es.length) (hi' : i < bs.length),
        hs[i]? = some (sh.first + ((es.take i).map (·.2.length)).sum) ∧
        es[i].1 = typeCode bs[i].1 bs[i].2 := by
  obtain ⟨sh, hsh, hwalk⟩ := C03.whole_walk T o ho ops hwf bs hb hbnd hs t h
  obtain ⟨sh', hsh', hm⟩ := Whole.shape T
  have : sh' = sh := by rw [hsh] at hsh'; exact (Option.some.inj hsh').symm
  subst this
  obtain ⟨-, hr⟩ := Whole.runTable_inv' hb h
  have hcl := Whole.claimed_eq ops (fun op hop => ⟨(hwf op hop).1, (hwf op hop).2.1⟩) bs hb
  obtain ⟨hlen, hval⟩ := handle_value T.cfg o _ hcl hs t hr
  refine ⟨sh', _, hsh, hwalk, by rw [hlen]; simp, ?_⟩
  intro i hi hi'
  have hi2 : i < (bs.map rawOf).length := by simpa using hi'
  refine ⟨?_, by simp⟩
  rw [hval i hi2, hm.2.1]
  congr 2
  simp [List.map_take, rawOf, Function.comp_def]

end Acpi.C05
