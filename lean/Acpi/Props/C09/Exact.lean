/-
  C09 (exact acceptance / length) — `Path::new` accepts exactly the names whose dot-separated
  pieces (after an optional leading `\`) are all 4 bytes long, and the emitted NameString has
  the length the specification's grammar gives it.

  Complements `Acpi/Props/C09.lean` (`new_none_iff`, `new_some`, `enc_form`, `decode_enc`).
-/
import Acpi.Aml.Path
import Acpi.Props.C09
import Acpi.Lemmas.EisaExact
namespace Acpi.C09
open Acpi Lemmas.EisaExact

/-- `name[root as usize ..]`, spelled without the model's helper names -/
theorem body_eq (s : Bytes) :
    Path.body s = (if s.head? = some 0x5C then s.tail else s) := by
  unfold Path.body Path.isRooted
  by_cases h : s.head? = some 0x5C
  · rw [if_pos h, if_pos (by rw [h]; rfl), List.drop_one]
  · rw [if_neg h, if_neg (by simpa using h)]

/-- **C09(a), positive form** (`new_none_iff` restated): `Path::new` returns a path exactly
    when every dot-separated piece of the body is 4 bytes long. -/
theorem new_isSome_iff' (s : Bytes) :
    (Path.new s).isSome ↔ ∀ q ∈ splitDot (Path.body s), q.length = 4 := by
  constructor
  · intro h q hq
    apply Classical.byContradiction
    intro hne
    rw [(new_none_iff s).mpr ⟨q, hq, hne⟩] at h
    cases h
  · intro h
    cases hn : Path.new s with
    | some p => rfl
    | none =>
      obtain ⟨q, hq, hne⟩ := (new_none_iff s).mp hn
      exact absurd (h q hq) hne

/-- **C09(a), positive form, self-contained**: `Path::new s` returns a path exactly when, after
    dropping one leading `\` (0x5C) if present, every piece between dots (0x2E) is exactly
    4 bytes long. -/
theorem new_isSome_iff (s : Bytes) :
    (Path.new s).isSome ↔
      ∀ q ∈ splitDot (if s.head? = some 0x5C then s.tail else s), q.length = 4 := by
  rw [← body_eq]; exact new_isSome_iff' s

/-- non-vacuity: `\_SB_.PCI0` is accepted, `_SB_.PCI` is not, the empty name is not -/
example : (Path.new [0x5C, 0x5F, 0x53, 0x42, 0x5F, 0x2E, 0x50, 0x43, 0x49, 0x30]).isSome := by decide
example : ¬ (Path.new [0x5F, 0x53, 0x42, 0x5F, 0x2E, 0x50, 0x43, 0x49]).isSome := by decide
example : ¬ (Path.new []).isSome := by decide
/-- via the theorem: a lone `\` is refused (its body has the single piece `[]`) -/
example : ¬ (Path.new [0x5C]).isSome := by
  intro h
  have := (new_isSome_iff [0x5C]).mp h [] (by decide)
  exact absurd this (by decide)

/-- the length of the NameString prefix emitted for `n` segments -/
theorem namePrefix_length (n : Nat) :
    (namePrefix n).length = (if n ≤ 1 then 0 else if n = 2 then 1 else 2) := by
  unfold namePrefix
  rcases n with _ | _ | _ | n <;> simp

/-- **C09 length (general)**: with all segments 4 bytes, whatever their number, the emitted
    bytes are: 1 for the root character if rooted; 0 / 1 / 2 for no prefix (0 or 1 segment),
    DualNamePrefix, or MultiNamePrefix + count; and 4 per segment. -/
theorem enc_length_general (p : Path) (hl : ∀ q ∈ p.parts, q.length = 4) :
    p.enc.length = (if p.root then 1 else 0) +
      (if p.parts.length ≤ 1 then 0 else if p.parts.length = 2 then 1 else 2) +
      4 * p.parts.length := by
  unfold Path.enc
  rw [List.length_append, List.length_append, namePrefix_length,
    flatten_length_of_all4 p.parts hl]
  cases p.root <;> simp

/-- **C09 length**: when `to_aml_bytes` does not panic (1..255 segments) and every segment is
    4 bytes (as `Path::new` guarantees), the emitted NameString is
    `[root char] + [nothing | DualNamePrefix | MultiNamePrefix count] + 4 bytes per segment`
    long.  (The zero-segment case, where the model's `namePrefix 0 = []` would give 0 rather
    than 2, is excluded by `encPanics = false`; it cannot come out of `Path.new` either, see
    `new_some`.) -/
theorem enc_length (p : Path) (h : p.encPanics = false) (hl : ∀ q ∈ p.parts, q.length = 4) :
    p.enc.length = (if p.root then 1 else 0) +
      (if p.parts.length = 1 then 0 else if p.parts.length = 2 then 1 else 2) +
      4 * p.parts.length := by
  have h0 : p.parts.length ≠ 0 := by
    intro e
    unfold Path.encPanics at h
    rw [e] at h
    revert h; decide
  rw [enc_length_general p hl]
  have e : (if p.parts.length ≤ 1 then 0 else if p.parts.length = 2 then 1 else 2) =
      (if p.parts.length = 1 then 0 else if p.parts.length = 2 then 1 else 2) := by
    by_cases h1 : p.parts.length = 1
    · rw [if_pos (Nat.le_of_eq h1), if_pos h1]
    · rw [if_neg (by omega), if_neg h1]
  rw [e]

/-- **C09 length from a name**: for a path built by `Path::new` with at most 255 segments, the
    emitted length is determined by rootedness and segment count alone. -/
theorem new_enc_length (s : Bytes) (p : Path) (hn : Path.new s = some p) (h255 : p.parts.length ≤ 255) :
    p.enc.length = (if p.root then 1 else 0) +
      (if p.parts.length = 1 then 0 else if p.parts.length = 2 then 1 else 2) +
      4 * p.parts.length := by
  obtain ⟨_, _, hall, h1⟩ := new_some s p hn
  apply enc_length p _ hall
  unfold Path.encPanics
  simp only [Bool.or_eq_false_iff, decide_eq_false_iff_not]
  exact ⟨by omega, by omega⟩

/-- non-vacuity (`\_SB_.PCI0`: 1 + 1 + 8 = 10 bytes; `_SB_`: 4; three segments: 2 + 12) -/
example : (⟨true, [[0x5F, 0x53, 0x42, 0x5F], [0x50, 0x43, 0x49, 0x30]]⟩ : Path).encPanics = false ∧
    (⟨true, [[0x5F, 0x53, 0x42, 0x5F], [0x50, 0x43, 0x49, 0x30]]⟩ : Path).enc.length = 10 := by decide
example : (⟨false, [[0x5F, 0x53, 0x42, 0x5F]]⟩ : Path).enc.length = 4 := by decide
example : (⟨false, [[0x5F, 0x53, 0x42, 0x5F], [0x50, 0x43, 0x49, 0x30], [0x41, 0x42, 0x43, 0x44]]⟩ : Path).enc.length
    = 14 := by decide
/-- the zero-segment corner: the statement of `enc_length` without its first hypothesis is
    false (the model emits 0 bytes where the formula says 2), which is why `encPanics = false`
    (or `enc_length_general`'s `≤ 1`) is needed. -/
example : (⟨false, []⟩ : Path).enc.length = 0 ∧ (⟨false, []⟩ : Path).encPanics = true := by decide

end Acpi.C09
