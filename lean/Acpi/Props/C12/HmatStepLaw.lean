/-
  C12 — the HMAT reference cell function (the `cell i j` of `Spec.rows .loc`, the reference that
  `C12.hmat_locality` compares the structure with) obeys the "last value assigned" step law, and
  the reference really places it at byte offset 32 + 4I + 4T + 2(i·T + j) — stride T, the number
  of targets.
-/
import Acpi.Props.C12
namespace Acpi.C12
open Acpi Spec

/-- the cell function of the `.loc` reference layout, as a definition of its own -/
def hmatCell (opts : List Opt) (i j : Nat) : Nat :=
  (((opts.filter (fun o => o.name = "sete" ∧ o.arg 0 = i ∧ o.arg 1 = j)).getLast?).map (·.arg 2)).getD 0xFFFF

/-- **link**: the reference layout of a locality structure with I initiators and T targets holds,
    for every in-range (i, j), the row "hmatCell i j, two bytes, at 32 + 4I + 4T + 2(i·T + j)" -/
theorem hmatCell_in_reference (c : EArgs) (opts : List Opt) (i j : Nat) (hi : i < c.num 4) (hj : j < c.num 5) :
    ∃ total rs, rows .loc c opts = some (total, rs) ∧
      Row.num (32 + 4 * c.num 4 + 4 * c.num 5 + 2 * (i * c.num 5 + j)) 2 (hmatCell opts i j) ∈ rs := by
  refine ⟨_, _, rfl, ?_⟩
  simp only [List.mem_append, List.mem_flatMap, List.mem_map, List.mem_range]
  exact Or.inr ⟨i, hi, j, hj, rfl⟩

theorem hmatCell_nil (i j : Nat) : hmatCell [] i j = 0xFFFF := by
  simp [hmatCell]

/-- one more `set_entry_value a b v`: cell (a, b) takes the value, every other cell keeps its own -/
theorem hmatCell_append_sete (opts : List Opt) (a b v i j : Nat) :
    hmatCell (opts ++ [⟨"sete", [a, b, v]⟩]) i j = if a = i ∧ b = j then v else hmatCell opts i j := by
  unfold hmatCell
  by_cases h : a = i ∧ b = j
  · simp [List.filter_append, Opt.arg, h]
  · simp [List.filter_append, Opt.arg, h]

/-- flag calls and initiator / target writes disturb no cell -/
theorem hmatCell_append_other (opts : List Opt) (op : Opt) (hop : op.name ≠ "sete") (i j : Nat) :
    hmatCell (opts ++ [op]) i j = hmatCell opts i j := by
  unfold hmatCell
  simp [List.filter_append, hop]

/-- non-vacuity: (1,0)←7, (0,1)←9, (1,0)←8 on a 2×3 structure -/
example : hmatCell [⟨"sete", [1, 0, 7]⟩, ⟨"sete", [0, 1, 9]⟩, ⟨"sete", [1, 0, 8]⟩] 1 0 = 8 ∧
    hmatCell [⟨"sete", [1, 0, 7]⟩, ⟨"sete", [0, 1, 9]⟩, ⟨"sete", [1, 0, 8]⟩] 0 1 = 9 ∧
    hmatCell [⟨"sete", [1, 0, 7]⟩, ⟨"sete", [0, 1, 9]⟩, ⟨"sete", [1, 0, 8]⟩] 1 1 = 0xFFFF := by decide

end Acpi.C12
