/-
  C12 — the reference cell function itself obeys the "last value assigned" step law.

  `Spec.slitCell` (used by the reference layout that `C12.slit_cells` compares the image with) is
  written as "last matching assignment in the program, else 10".  The theorems here state what that
  means operationally, one assignment at a time, so that the reading "assignments to one cell never
  disturb another" does not rest on reading a `filter … getLast?` expression correctly:

  * before any assignment every cell is 10;
  * an assignment `set_distance a b v` makes the cells (a,b) and (b,a) equal to v …
  * … and leaves every other cell as it was;
  * an operation that is not a distance assignment leaves every cell as it was.

  By induction these four determine `slitCell` uniquely (`slitCell_unique`).
-/
import Acpi.Props.C12
namespace Acpi.C12
open Acpi Spec

/-- the two cells a `set_distance a b _` call governs -/
def governs (a b i j : Nat) : Prop := (a = i ∧ b = j) ∨ (a = j ∧ b = i)

instance (a b i j : Nat) : Decidable (governs a b i j) := by unfold governs; infer_instance

theorem slitCell_nil (i j : Nat) : slitCell [] i j = 10 := by
  simp [slitCell]

/-- one more assignment: the governed cells take the new value, all others keep theirs -/
theorem slitCell_append_dist (ops : List Opt) (a b v i j : Nat) :
    slitCell (ops ++ [⟨"dist", [a, b, v]⟩]) i j = if governs a b i j then v else slitCell ops i j := by
  unfold slitCell governs
  by_cases h : (a = i ∧ b = j) ∨ (a = j ∧ b = i)
  · simp [List.filter_append, Opt.arg, h]
  · simp [List.filter_append, Opt.arg, h]

/-- an operation that is not `set_distance` disturbs no cell -/
theorem slitCell_append_other (ops : List Opt) (op : Opt) (hop : op.name ≠ "dist") (i j : Nat) :
    slitCell (ops ++ [op]) i j = slitCell ops i j := by
  unfold slitCell
  simp [List.filter_append, hop]

/-- the step law determines the cell function: any `f` that starts at 10 and obeys the two step
    equations is `slitCell` (on programs of well-formed `dist` calls and other operations) -/
theorem slitCell_unique (f : List Opt → Nat → Nat → Nat)
    (h0 : ∀ i j, f [] i j = 10)
    (hd : ∀ ops a b v i j, f (ops ++ [⟨"dist", [a, b, v]⟩]) i j = if governs a b i j then v else f ops i j)
    (ho : ∀ ops (op : Opt), op.name ≠ "dist" → ∀ i j, f (ops ++ [op]) i j = f ops i j)
    (ops : List Opt) (hwf : ∀ op ∈ ops, op.name = "dist" → ∃ a b v, op = ⟨"dist", [a, b, v]⟩) (i j : Nat) :
    f ops i j = slitCell ops i j := by
  generalize hn : ops.length = n
  induction n generalizing ops with
  | zero =>
    have : ops = [] := List.length_eq_zero_iff.mp hn
    subst this; rw [h0, slitCell_nil]
  | succ n ih =>
    rcases List.eq_nil_or_concat ops with h | ⟨ops', op, h⟩
    · subst h; simp at hn
    · rw [List.concat_eq_append] at h; subst h
      have ih' := ih ops' (fun o ho' => hwf o (by simp [ho'])) (by simp at hn; omega)
      by_cases hnm : op.name = "dist"
      · obtain ⟨a, b, v, rfl⟩ := hwf op (by simp) hnm
        rw [hd, slitCell_append_dist, ih']
      · rw [ho ops' op hnm, slitCell_append_other ops' op hnm, ih']

/-- non-vacuity: a concrete history — (0,1)←20, (1,2)←30, (1,0)←25 — read cell by cell -/
example : slitCell [⟨"dist", [0, 1, 20]⟩, ⟨"dist", [1, 2, 30]⟩, ⟨"dist", [1, 0, 25]⟩] 0 1 = 25 ∧
    slitCell [⟨"dist", [0, 1, 20]⟩, ⟨"dist", [1, 2, 30]⟩, ⟨"dist", [1, 0, 25]⟩] 2 1 = 30 ∧
    slitCell [⟨"dist", [0, 1, 20]⟩, ⟨"dist", [1, 2, 30]⟩, ⟨"dist", [1, 0, 25]⟩] 0 2 = 10 := by decide

end Acpi.C12
