/-
  C06 — emitted AML parses back to exactly the term tree the caller built.
  Model: `Aml.enc` (Acpi.Aml.Term).  Spec: the grammar table, the generic parser and the
  meaning map of Acpi.Spec.Aml; well-formedness guard Acpi.Spec.AmlWf.

  Proof layout (Acpi/Lemmas/Aml*.lean):
  * AmlParse — one-step lemmas for the parser (per first-byte class, per slot kind, per body kind);
  * AmlLeaf  — integers, strings, locals, args, names; `pathEnc` vs `pathOf` / `NameString.decode`;
  * AmlFacts — compositional facts (`TFact`, `SGFact`, `NFact`, `SlotsFact`) and the generic
               operator lemmas `tfact_plain / tfact_terms / tfact_elems / tfact_fields / tfact_bytes`;
  * AmlKids  — a child in TermArg / SuperName / Target / NameString position;
  * AmlLists — argument lists, TermLists, PackageElementLists;
  * AmlEisa, AmlRes — EISA/UUID values and resource descriptors against their specifications;
  * AmlStep1 … AmlStep7 — the induction step for each of the crate's constructors.
-/
import Acpi.Aml.Term
import Acpi.Spec.Aml
import Acpi.Spec.AmlWf
import Acpi.Props.C07
import Acpi.Props.C08
import Acpi.Props.C09
import Acpi.Lemmas.AmlStep7
namespace Acpi.C06
open Acpi Spec Spec.Aml Lemmas.AmlParse

/-- **C06**: for every well-formed tree (any nesting shape and depth, any body size for which
    the encoder does not refuse), the grammar-driven parser, told only the arities of invoked
    methods, consumes the emitted bytes exactly — whatever follows them — and recovers the
    meaning of the tree: the specification's opcode for each operator, operands in the
    specification's order, every length-delimited object ending where its last child ends,
    every name, constant, flag and child unchanged. -/
def Full : Prop :=
  ∀ (env : Env) (t : Aml) (bs rest : Bytes) (fuel : Nat),
    wf env t = true → okTerm t = true → t.enc = some bs → 8 * bs.length + 16 ≤ fuel →
    parseTerm env fuel (bs ++ rest) = some (meaning t, rest)

/-- constructors that are not terms (descriptors, field entries, field names): nothing to prove -/
theorem step_nonterm (env : Env) (op : Op)
    (h : (!(isDesc op) && op != .fnamed && op != .freserved && op != .fieldname) = false) : Step env op := by
  intro ints blobs kids _ bs rest fuel _ hok
  simp only [okTerm, h] at hok
  exact absurd hok (by decide)

/-- the induction step, constructor by constructor -/
theorem step_all (env : Env) (op : Op) : Step env op := by
  cases op
  case zero => exact step_zero env
  case one => exact step_one env
  case ones => exact step_ones env
  case u8 => exact step_u8 env
  case u16 => exact step_u16 env
  case u32 => exact step_u32 env
  case u64 => exact step_u64 env
  case usize => exact step_usize env
  case str => exact step_str env
  case path => exact step_path env
  case eisa => exact step_eisa env
  case uuid => exact step_uuid env
  case buf => exact step_buf env
  case bufterm => exact step_bufterm env
  case arg => exact step_arg env
  case local_ => exact step_local env
  case name => exact step_name env
  case fieldname => exact step_nonterm env _ rfl
  case pkg => exact step_pkg env
  case pkgb => exact step_pkgb env
  case varpkg => exact step_varpkg env
  case rt => exact step_rt env
  case mem32 => exact step_nonterm env _ rfl
  case io => exact step_nonterm env _ rfl
  case irq => exact step_nonterm env _ rfl
  case reg => exact step_nonterm env _ rfl
  case asmem => exact step_nonterm env _ rfl
  case asio => exact step_nonterm env _ rfl
  case asbus => exact step_nonterm env _ rfl
  case device => exact step_device env
  case scope => exact step_scope env
  case scoperaw => exact step_scoperaw env
  case method => exact step_method env
  case field => exact step_field env
  case fnamed => exact step_nonterm env _ rfl
  case freserved => exact step_nonterm env _ rfl
  case opregion => exact step_opregion env
  case if_ => exact step_if env
  case while_ => exact step_while env
  case else_ => exact step_else env
  case powerres => exact step_powerres env
  case eq => exact step_eq env
  case lt => exact step_lt env
  case gt => exact step_gt env
  case ne => exact step_ne env
  case ge => exact step_ge env
  case le => exact step_le env
  case store => exact step_store env
  case mutex => exact step_mutex env
  case acquire => exact step_acquire env
  case release => exact step_release env
  case notify => exact step_notify env
  case objtype => exact step_objtype env
  case sizeof => exact step_sizeof env
  case ret => exact step_ret env
  case deref => exact step_deref env
  case add => exact step_add env
  case concat => exact step_concat env
  case subtract => exact step_subtract env
  case multiply => exact step_multiply env
  case shl => exact step_shl env
  case shr => exact step_shr env
  case and_ => exact step_and env
  case nand => exact step_nand env
  case or_ => exact step_or env
  case nor => exact step_nor env
  case xor => exact step_xor env
  case concatres => exact step_concatres env
  case mod => exact step_mod env
  case index => exact step_index env
  case tostring => exact step_tostring env
  case createdw => exact step_createdw env
  case createqw => exact step_createqw env
  case tobuffer => exact step_tobuffer env
  case tointeger => exact step_tointeger env
  case createfield => exact step_createfield env
  case mid => exact step_mid env
  case call => exact step_call env

mutual
/-- every tree round-trips (structural induction over the tree) -/
theorem rt_term (env : Env) : (t : Aml) → RT env t
  | .node op ints blobs kids => step_all env op ints blobs kids (rt_list env kids)
theorem rt_list (env : Env) : (l : AmlList) → RTs env l
  | .nil => trivial
  | .cons a r => ⟨rt_term env a, rt_list env r⟩
end

/-- **C06**, in full: no constructor of the crate is excluded. -/
theorem parse_roundtrip : Full :=
  fun env t bs rest fuel hw hk he hf => rt_term env t bs rest fuel hw hk he hf

/-- what `parsesTo` (the oracle the harness evaluates) reports for the encoder's output: success -/
theorem parsesTo_enc (env : Env) (t : Aml) (bs : Bytes) (hw : wf env t = true) (hk : okTerm t = true)
    (he : t.enc = some bs) :
    parseTerm env (8 * bs.length + 16) bs = some (meaning t, []) := by
  have := parse_roundtrip env t bs [] _ hw hk he (Nat.le_refl _)
  rwa [List.append_nil] at this

end Acpi.C06
