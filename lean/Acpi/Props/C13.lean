/-
  C13 — the generic table (`sdt::Sdt`) behaves as a byte vector with a self-maintaining
  header.

  Model: Acpi/Sdt.lean (mirrors src/sdt.rs).  Reference machine: Acpi/Spec/Sdt.lean (a
  plain `Bytes`, one pointwise overwrite, Length rewritten on every append, byte 9 fixed
  after every accepted operation).  Property theorems only; helper lemmas live in
  Acpi/Lemmas/Sdt.lean.

  One precision the statement needs: bytes pushed through the sink interface are an
  append of *those bytes*; a sink call that carries no byte (`vec(&[])`) performs no
  `byte` call at all, so it is not an operation (nothing is rewritten, in particular not a
  Length field the user has overwritten).  `isAppend` below therefore excludes it.
-/
import Acpi.Lemmas.Sdt
namespace Acpi.C13
open Acpi Acpi.Sdt
open Acpi.Spec.Sdt (put fixSum)

/-- What each operation of the model means for the reference machine.  Typed values are
    described arithmetically (`leN w n`: the number `n`, little-endian, in `w` bytes). -/
def act : Sdt.Op → Spec.Sdt.Act
  | .append8 v => .append (leN 1 v.toNat)
  | .append16 v => .append (leN 2 v.toNat)
  | .append32 v => .append (leN 4 v.toNat)
  | .append64 v => .append (leN 8 v.toNat)
  | .appendSlice bs => .append bs
  | .write8 off v => .write off (leN 1 v.toNat)
  | .write16 off v => .write off (leN 2 v.toNat)
  | .write32 off v => .write off (leN 4 v.toNat)
  | .write64 off v => .write off (leN 8 v.toNat)
  | .writeSlice off bs => .write off bs
  | .sink c => .push c.bytes
  | .updateChecksum => .touch

/-- The invariant of every table obtained from `Sdt.new`. -/
def Inv (s : Sdt) : Prop := 36 ≤ s.data.length ∧ sum8 s.data = 0

/-- the range `(offset, width)` a write operation touches -/
def writeRange : Sdt.Op → Option (Nat × Nat)
  | .write8 off _ => some (off, 1)
  | .write16 off _ => some (off, 2)
  | .write32 off _ => some (off, 4)
  | .write64 off _ => some (off, 8)
  | .writeSlice off bs => some (off, bs.length)
  | _ => none

/-- append-type operations: typed, slice (including the empty slice), and sink calls that
    carry at least one byte -/
def isAppend : Sdt.Op → Bool
  | .append8 _ | .append16 _ | .append32 _ | .append64 _ | .appendSlice _ => true
  | .sink c => c.bytes ≠ []
  | _ => false

/-! ## (a) refinement -/

theorem u8_eq_leN (v : UInt8) : [v] = leN 1 v.toNat := by
  simp only [leN]
  congr 1
  apply UInt8.toNat_inj.mp; simp

/-- One step of the model is one step of the reference machine: same refusal, same
    contents. -/
theorem step_refines (s : Sdt) (h : 36 ≤ s.data.length) (op : Sdt.Op) :
    (s.step op).map Sdt.data = Spec.Sdt.step s.data (act op) := by
  have h10 : 10 ≤ s.data.length := by omega
  cases op with
  | append8 v => simp only [Sdt.step, act, Spec.Sdt.step, appendT_eq _ _ h10, u8_eq_leN]; rfl
  | append16 v => simp only [Sdt.step, act, Spec.Sdt.step, appendT_eq _ _ h10, u16le_eq_leN]; rfl
  | append32 v => simp only [Sdt.step, act, Spec.Sdt.step, appendT_eq _ _ h10, u32le_eq_leN]; rfl
  | append64 v => simp only [Sdt.step, act, Spec.Sdt.step, appendT_eq _ _ h10, u64le_eq_leN]; rfl
  | appendSlice bs => simp only [Sdt.step, act, Spec.Sdt.step, appendSlice_eq _ _ h10]; rfl
  | sink c => simp only [Sdt.step, act, Spec.Sdt.step, sink_feed1 _ _ h10]; rfl
  | updateChecksum => simp only [Sdt.step, act, Spec.Sdt.step, updateChecksum_eq]; rfl
  | write8 off v =>
    simp only [Sdt.step, act, Spec.Sdt.step, u8_eq_leN]
    split
    · next hr => rw [writeBytes_eq _ _ _ hr]; rfl
    · next hr => rw [writeBytes_none _ _ _ (by omega)]; rfl
  | write16 off v =>
    simp only [Sdt.step, act, Spec.Sdt.step, u16le_eq_leN]
    split
    · next hr => rw [writeBytes_eq _ _ _ hr]; rfl
    · next hr => rw [writeBytes_none _ _ _ (by omega)]; rfl
  | write32 off v =>
    simp only [Sdt.step, act, Spec.Sdt.step, u32le_eq_leN]
    split
    · next hr => rw [writeBytes_eq _ _ _ hr]; rfl
    · next hr => rw [writeBytes_none _ _ _ (by omega)]; rfl
  | write64 off v =>
    simp only [Sdt.step, act, Spec.Sdt.step, u64le_eq_leN]
    split
    · next hr => rw [writeBytes_eq _ _ _ hr]; rfl
    · next hr => rw [writeBytes_none _ _ _ (by omega)]; rfl
  | writeSlice off bs =>
    simp only [Sdt.step, act, Spec.Sdt.step]
    split
    · next hr => rw [writeBytes_eq _ _ _ hr]; rfl
    · next hr => rw [writeBytes_none _ _ _ (by omega)]; rfl

/-- the reference machine never shrinks the vector -/
theorem spec_step_length (v v' : Bytes) (a : Spec.Sdt.Act) (h : Spec.Sdt.step v a = some v') :
    v.length ≤ v'.length := by
  cases a with
  | append bs => simp only [Spec.Sdt.step, Option.some.injEq] at h; subst h; simp
  | push bs => simp only [Spec.Sdt.step, Option.some.injEq] at h; subst h; simp
  | touch => simp only [Spec.Sdt.step, Option.some.injEq] at h; subst h; simp
  | write off bs =>
    simp only [Spec.Sdt.step] at h
    split at h
    · simp only [Option.some.injEq] at h; subst h; simp
    · cases h

/-- every accepted step of the reference machine on a vector with byte 9 ends in a zero
    sum, provided it started from one -/
theorem spec_step_sum (v v' : Bytes) (a : Spec.Sdt.Act) (hl : 10 ≤ v.length) (hs : sum8 v = 0)
    (h : Spec.Sdt.step v a = some v') : sum8 v' = 0 := by
  cases a with
  | append bs =>
    simp only [Spec.Sdt.step, Option.some.injEq] at h; subst h
    exact sum8_fixSum _ (by simp; omega)
  | push bs =>
    simp only [Spec.Sdt.step, Option.some.injEq] at h; subst h
    unfold Spec.Sdt.push
    split
    · exact hs
    · exact sum8_fixSum _ (by simp; omega)
  | touch =>
    simp only [Spec.Sdt.step, Option.some.injEq] at h; subst h
    exact sum8_fixSum _ (by omega)
  | write off bs =>
    simp only [Spec.Sdt.step] at h
    split at h
    · simp only [Option.some.injEq] at h; subst h
      exact sum8_fixSum _ (by simp; omega)
    · cases h

theorem inv_step (s s' : Sdt) (op : Sdt.Op) (hi : Inv s) (h : s.step op = some s') : Inv s' := by
  have hr := step_refines s hi.1 op
  rw [h] at hr
  simp only [Option.map_some] at hr
  exact ⟨Nat.le_trans hi.1 (spec_step_length _ _ _ hr.symm),
    spec_step_sum _ _ _ (by have := hi.1; omega) hi.2 hr.symm⟩

theorem inv_stepKeep (s : Sdt) (op : Sdt.Op) (hi : Inv s) : Inv (s.stepKeep op) := by
  unfold Sdt.stepKeep
  cases h : s.step op with
  | none => exact hi
  | some s' => exact inv_step s s' op hi h

theorem inv_run (s : Sdt) (ops : List Sdt.Op) (hi : Inv s) : Inv (s.run ops) := by
  induction ops generalizing s with
  | nil => exact hi
  | cons op ops ih => exact ih _ (inv_stepKeep s op hi)

/-- **C13(a), observation form**: from any table satisfying the invariant, the model and
    the reference machine produce the same observation after every operation — the same
    refusals (contents unchanged) and the same contents. -/
theorem trace_refines (s : Sdt) (hi : Inv s) (ops : List Sdt.Op) :
    s.trace ops = Spec.Sdt.trace s.data (ops.map act) := by
  induction ops generalizing s with
  | nil => rfl
  | cons op ops ih =>
    have hr := step_refines s hi.1 op
    simp only [Sdt.trace, List.map_cons, Spec.Sdt.trace]
    cases h : s.step op with
    | none =>
      rw [h] at hr
      simp only [Option.map_none] at hr
      rw [← hr]
      simp only
      rw [ih s hi]
    | some s' =>
      rw [h] at hr
      simp only [Option.map_some] at hr
      rw [← hr]
      simp only
      rw [ih s' (inv_step s s' op hi h)]

/-- **C13(a), final-state form**. -/
theorem run_refines (s : Sdt) (hi : Inv s) (ops : List Sdt.Op) :
    (s.run ops).data = Spec.Sdt.run s.data (ops.map act) := by
  induction ops generalizing s with
  | nil => rfl
  | cons op ops ih =>
    simp only [Sdt.run, List.foldl_cons, List.map_cons, Spec.Sdt.run] at ih ⊢
    rw [ih _ (inv_stepKeep s op hi)]
    congr 1
    have hr := step_refines s hi.1 op
    unfold Sdt.stepKeep
    rw [← hr]
    cases s.step op <;> rfl

/-- creation establishes the invariant -/
theorem inv_new (sig : Bytes) (length : UInt32) (rev : UInt8) (oemId oemTable : Bytes)
    (oemRev : UInt32) (s : Sdt) (h : Sdt.new sig length rev oemId oemTable oemRev = some s) :
    Inv s ∧ s.data.length = length.toNat := by
  unfold Sdt.new at h
  split at h
  · cases h
  · next hlt =>
    dsimp only at h
    split at h
    · cases h
    · next hlen =>
      simp only [Option.some.injEq] at h
      subst h
      have h36 : 36 ≤ length.toNat := by
        have : ¬ length.toNat < (36 : UInt32).toNat := fun x => hlt (UInt32.lt_iff_toNat_lt.mpr x)
        have h2 : (36 : UInt32).toNat = 36 := rfl
        omega
      simp only [Decidable.not_not] at hlen
      have hl : (resize (sig ++ u32le length ++ [rev] ++ [0] ++ oemId ++ oemTable ++ u32le oemRev
          ++ creatorId ++ creatorRev) length.toNat).length = length.toNat := by
        rw [resize_ge _ _ (by rw [hlen]; omega), List.length_append, length_zeros, hlen]
        omega
      simp only [Inv, updateChecksum_data, length_fixSum]
      exact ⟨⟨by omega, sum8_fixSum _ (by omega)⟩, hl⟩

/-- **C13(a)**: for every declared length ≥ 36 (header arguments of the sizes the Rust
    types enforce) creation succeeds in the model and in the reference machine with the same
    contents, and for every operation list the two agree observation by observation and on
    the final contents. -/
theorem refines (sig : Bytes) (length : UInt32) (rev : UInt8) (oemId oemTable : Bytes)
    (oemRev : UInt32) (hs : sig.length = 4) (ho : oemId.length = 6) (ht : oemTable.length = 8)
    (hlen : 36 ≤ length.toNat) :
    ∃ s : Sdt, Sdt.new sig length rev oemId oemTable oemRev = some s
      ∧ Spec.Sdt.create sig length.toNat rev oemId oemTable oemRev.toNat = some s.data
      ∧ ∀ ops : List Sdt.Op,
          s.trace ops = Spec.Sdt.trace s.data (ops.map act)
          ∧ (s.run ops).data = Spec.Sdt.run s.data (ops.map act) := by
  have hn := new_eq sig length rev oemId oemTable oemRev hs ho ht
  cases h : Sdt.new sig length rev oemId oemTable oemRev with
  | none =>
    rw [h] at hn
    simp only [Option.map_none, Spec.Sdt.create] at hn
    rw [if_neg (by omega)] at hn
    cases hn
  | some s =>
    rw [h] at hn
    have hi := (inv_new _ _ _ _ _ _ s h).1
    exact ⟨s, rfl, hn.symm, fun ops => ⟨trace_refines s hi ops, run_refines s hi ops⟩⟩

/-! ## (b) the image always sums to 0 -/

/-- **C13(b)**: after `new`, after every operation of any history (every observation of the
    trace), and at the end, the image sums to 0 modulo 256. -/
theorem sum_zero (sig : Bytes) (length : UInt32) (rev : UInt8) (oemId oemTable : Bytes)
    (oemRev : UInt32) (s : Sdt) (h : Sdt.new sig length rev oemId oemTable oemRev = some s)
    (ops : List Sdt.Op) :
    sum8 s.data = 0 ∧ (∀ o ∈ s.trace ops, sum8 o.2 = 0) ∧ sum8 (s.run ops).data = 0 := by
  have hi := (inv_new _ _ _ _ _ _ s h).1
  refine ⟨hi.2, ?_, (inv_run s ops hi).2⟩
  clear h
  induction ops generalizing s with
  | nil => intro o ho; cases ho
  | cons op ops ih =>
    intro o ho
    simp only [Sdt.trace] at ho
    cases hst : s.step op with
    | none =>
      rw [hst] at ho
      simp only [List.mem_cons] at ho
      cases ho with
      | inl h1 => subst h1; exact hi.2
      | inr h1 => exact ih s hi o h1
    | some s' =>
      rw [hst] at ho
      simp only [List.mem_cons] at ho
      have hi' := inv_step s s' op hi hst
      cases ho with
      | inl h1 => subst h1; exact hi'.2
      | inr h1 => exact ih s' hi' o h1

/-- one-step form of (b) -/
theorem sum_zero_step (s s' : Sdt) (op : Sdt.Op) (hi : Inv s) (h : s.step op = some s') :
    sum8 s'.data = 0 := (inv_step s s' op hi h).2

/-! ## (c) Length after an append -/

/-- append-type operations are never refused -/
theorem append_accepted (s : Sdt) (hi : Inv s) (op : Sdt.Op) (ha : writeRange op = none) :
    (s.step op).isSome = true := by
  have hr := step_refines s hi.1 op
  cases op <;> first
    | (cases ha; done)
    | (simp only [act, Spec.Sdt.step] at hr
       cases h : s.step _ with
       | none => rw [h] at hr; cases hr
       | some _ => rfl)

/-- **C13(c)**: after every append-type operation (typed, slice — empty included — and every
    sink call carrying at least one byte) the Length field holds the length of the image,
    as long as that length fits 32 bits. -/
theorem length_after_append (s s' : Sdt) (op : Sdt.Op) (hi : Inv s) (ha : isAppend op = true)
    (h : s.step op = some s') (hlt : s'.data.length < 2 ^ 32) :
    readAt s'.data 4 4 = some s'.data.length := by
  have hr := step_refines s hi.1 op
  rw [h] at hr
  simp only [Option.map_some] at hr
  have h10 : 10 ≤ s.data.length := by have := hi.1; omega
  have key : ∀ bs : Bytes, s'.data = Spec.Sdt.append s.data bs →
      readAt s'.data 4 4 = some s'.data.length := by
    intro bs hb
    rw [hb] at hlt ⊢
    rw [length_spec_append] at hlt ⊢
    exact readAt_spec_append _ _ h10 hlt
  cases op with
  | append8 v => exact key _ (by simpa [act, Spec.Sdt.step] using hr)
  | append16 v => exact key _ (by simpa [act, Spec.Sdt.step] using hr)
  | append32 v => exact key _ (by simpa [act, Spec.Sdt.step] using hr)
  | append64 v => exact key _ (by simpa [act, Spec.Sdt.step] using hr)
  | appendSlice bs => exact key _ (by simpa [act, Spec.Sdt.step] using hr)
  | sink c =>
    simp only [isAppend, decide_eq_true_eq] at ha
    simp only [act, Spec.Sdt.step, Spec.Sdt.push, if_neg ha, Option.some.injEq] at hr
    exact key _ hr
  | write8 _ _ => cases ha
  | write16 _ _ => cases ha
  | write32 _ _ => cases ha
  | write64 _ _ => cases ha
  | writeSlice _ _ => cases ha
  | updateChecksum => cases ha

/-- (c) along a whole history started by `new`: whenever the last operation was an
    append-type one. -/
theorem length_after_append_run (sig : Bytes) (length : UInt32) (rev : UInt8)
    (oemId oemTable : Bytes) (oemRev : UInt32) (s : Sdt)
    (h : Sdt.new sig length rev oemId oemTable oemRev = some s)
    (ops : List Sdt.Op) (op : Sdt.Op) (ha : isAppend op = true)
    (hlt : (s.run (ops ++ [op])).data.length < 2 ^ 32) :
    readAt (s.run (ops ++ [op])).data 4 4 = some (s.run (ops ++ [op])).data.length := by
  have hi := inv_run s ops (inv_new _ _ _ _ _ _ s h).1
  have hrun : s.run (ops ++ [op]) = (s.run ops).stepKeep op := by
    simp [Sdt.run, List.foldl_append]
  rw [hrun] at hlt ⊢
  have hacc := append_accepted (s.run ops) hi op (by cases op <;> first | rfl | cases ha)
  cases hst : (s.run ops).step op with
  | none => rw [hst] at hacc; cases hacc
  | some s' =>
    have : (s.run ops).stepKeep op = s' := by simp [Sdt.stepKeep, hst]
    rw [this] at hlt ⊢
    exact length_after_append _ _ op hi ha hst hlt

/-- creation writes the declared length -/
theorem length_after_new (sig : Bytes) (length : UInt32) (rev : UInt8) (oemId oemTable : Bytes)
    (oemRev : UInt32) (hs : sig.length = 4) (ho : oemId.length = 6) (ht : oemTable.length = 8)
    (s : Sdt) (h : Sdt.new sig length rev oemId oemTable oemRev = some s) :
    s.data.length = length.toNat ∧ readAt s.data 4 4 = some length.toNat := by
  have hl := (inv_new _ _ _ _ _ _ s h).2
  have h36 := (inv_new _ _ _ _ _ _ s h).1.1
  refine ⟨hl, ?_⟩
  have hn := new_eq sig length rev oemId oemTable oemRev hs ho ht
  rw [h] at hn
  simp only [Option.map_some, Spec.Sdt.create] at hn
  rw [if_neg (by omega)] at hn
  simp only [Option.some.injEq] at hn
  -- the header laid over the zeros is itself an overwrite of bytes 4..8 by the length
  have hput : ∀ (Z a b c : Bytes), a.length = 4 → b.length = 4 → 8 ≤ Z.length →
      put Z 0 (a ++ b ++ c) = put (put Z 0 (a ++ b ++ c)) 4 b := by
    intro Z a b c ha hb hZ
    apply List.ext_getElem?
    intro i
    simp only [getElem?_put, length_put]
    by_cases h1 : 4 ≤ i ∧ i < 4 + b.length ∧ i < Z.length
    · have h2 : 0 ≤ i ∧ i < 0 + (a ++ b ++ c).length ∧ i < Z.length := by
        simp only [List.length_append]; omega
      rw [if_pos h1, if_pos h2, List.append_assoc, List.getElem?_append_right (by omega),
        List.getElem?_append_left (by omega)]
      congr 1; omega
    · rw [if_neg h1]
  unfold readAt
  rw [if_pos (by omega), hn]
  have := hput (List.replicate length.toNat 0) sig (leN 4 length.toNat)
    ([rev, 0] ++ oemId ++ oemTable ++ leN 4 oemRev.toNat ++ [0x52, 0x56, 0x41, 0x54] ++ [0, 0, 0, 1])
    hs (by simp) (by simp; omega)
  simp only [← List.append_assoc] at this
  rw [this, drop4_take4 _ _ (by simp; omega) (by simp), fromLE_leN]
  congr 1
  exact Nat.mod_eq_of_lt length.toNat_lt

/-! ## (d) refusals -/

theorem spec_write_none (v : Bytes) (off : Nat) (bs : Bytes)
    (h : Spec.Sdt.step v (.write off bs) = none) : v.length < off + bs.length := by
  simp only [Spec.Sdt.step] at h
  split at h
  · cases h
  · omega

/-- **C13(d)**: an operation is refused exactly when it is a write whose range ends past the
    end of the table (in particular: never for a write that fits, header, checksum byte and
    last position included); a refused operation leaves the table as it was. -/
theorem refused_iff (s : Sdt) (hi : Inv s) (op : Sdt.Op) :
    s.step op = none ↔ ∃ off w, writeRange op = some (off, w) ∧ s.data.length < off + w := by
  have hr := step_refines s hi.1 op
  constructor
  · intro hn
    rw [hn] at hr
    cases hw : writeRange op with
    | none =>
      have := append_accepted s hi op hw
      rw [hn] at this; cases this
    | some r =>
      cases op <;> cases hw
      all_goals
        exact ⟨_, _, rfl, by have := spec_write_none _ _ _ hr.symm; simpa using this⟩
  · rintro ⟨off, w, hw, hlt⟩
    cases op <;> cases hw <;> exact writeBytes_none _ _ _ (by simpa using hlt)

theorem refused_unchanged (s : Sdt) (off : Nat) (bs : Bytes) (h : s.data.length < off + bs.length) :
    s.writeBytes off bs = none ∧ s.stepKeep (.writeSlice off bs) = s
      ∧ s.trace [.writeSlice off bs] = [(true, s.data)] := by
  have hn := writeBytes_none s off bs h
  refine ⟨hn, ?_, ?_⟩
  · simp [Sdt.stepKeep, Sdt.step, hn]
  · simp [Sdt.trace, Sdt.step, hn]

/-- whatever is refused leaves the table unchanged, for every operation -/
theorem refused_keeps (s : Sdt) (op : Sdt.Op) (h : s.step op = none) :
    s.stepKeep op = s ∧ s.trace [op] = [(true, s.data)] := by
  simp [Sdt.stepKeep, Sdt.trace, h]

/-- a write that fits is accepted and changes nothing but its range and byte 9 -/
theorem write_accepted (s : Sdt) (off : Nat) (bs : Bytes) (h : off + bs.length ≤ s.data.length) :
    s.writeBytes off bs = some ⟨fixSum (put s.data off bs)⟩ := writeBytes_eq s off bs h

/-- creation with a declared length below 36 is refused (model and reference machine) -/
theorem new_refused (sig : Bytes) (length : UInt32) (rev : UInt8) (oemId oemTable : Bytes)
    (oemRev : UInt32) (h : length.toNat < 36) :
    Sdt.new sig length rev oemId oemTable oemRev = none
      ∧ Spec.Sdt.create sig length.toNat rev oemId oemTable oemRev.toNat = none := by
  constructor
  · unfold Sdt.new
    rw [if_pos (UInt32.lt_iff_toNat_lt.mpr (by simpa using h))]
  · unfold Spec.Sdt.create
    rw [if_pos h]

/-! ## (e) only the concatenation matters (C14 for `Sdt`) -/

/-- **C13(e)**: feeding any list of sink calls — `byte`, `word`, `dword`, `qword`, `vec`, all
    of which reach the table as per-byte appends — gives exactly the table one
    `append_slice` of the concatenation gives; nothing is refused. -/
theorem sink_chunking (s : Sdt) (hi : Inv s) (cs : List SinkCall) (hne : flatten cs ≠ []) :
    Sdt.sink.feed (some s) cs = s.appendSlice (flatten cs) := by
  have h10 : 10 ≤ s.data.length := by have := hi.1; omega
  rw [sink_feed cs s h10, appendSlice_eq _ _ h10, Spec.Sdt.push, if_neg hne]

/-- calls that carry no byte do nothing -/
theorem sink_chunking_empty (s : Sdt) (hi : Inv s) (cs : List SinkCall) (he : flatten cs = []) :
    Sdt.sink.feed (some s) cs = some s := by
  have h10 : 10 ≤ s.data.length := by have := hi.1; omega
  rw [sink_feed cs s h10, Spec.Sdt.push, if_pos he]

/-- two call lists with the same concatenation are indistinguishable -/
theorem sink_concat_only (s : Sdt) (hi : Inv s) (cs cs' : List SinkCall)
    (h : flatten cs = flatten cs') : Sdt.sink.feed (some s) cs = Sdt.sink.feed (some s) cs' := by
  have h10 : 10 ≤ s.data.length := by have := hi.1; omega
  rw [sink_feed cs s h10, sink_feed cs' s h10, h]

/-! ## the table is a byte vector -/

/-- **C13, plain-vector form**: after any history, the table has the length of, and the same
    byte at every position other than the Length field (4..8) and the checksum (9) as, a
    plain byte vector — starting from the same contents — to which the same appends (`++`)
    and in-range writes (overwrite) were applied and on which nothing else was ever done. -/
theorem plain_vector (s : Sdt) (hi : Inv s) (ops : List Sdt.Op) :
    Spec.Sdt.agree (s.run ops).data (Spec.Sdt.plainRun s.data (ops.map act)) := by
  rw [run_refines s hi ops]
  exact agree_run (agree_refl _) _

/-- what was pushed through the sink is the tail of the table -/
theorem sink_payload (s : Sdt) (hi : Inv s) (cs : List SinkCall) :
    ∃ s', Sdt.sink.feed (some s) cs = some s'
      ∧ s'.data.length = s.data.length + (flatten cs).length
      ∧ s'.data.drop s.data.length = flatten cs := by
  have h10 : 10 ≤ s.data.length := by have := hi.1; omega
  refine ⟨_, sink_feed cs s h10, by simp, ?_⟩
  have hp : Spec.Sdt.agree (Spec.Sdt.push s.data (flatten cs)) (s.data ++ flatten cs) := by
    unfold Spec.Sdt.push
    split
    · next he => rw [he]; simpa using agree_refl _
    · exact agree_spec_append (agree_refl _) _
  apply List.ext_getElem?
  intro i
  have := hp.2 (s.data.length + i) (by have := hi.1; omega)
  rw [List.getElem?_drop, this, List.getElem?_append_right (by omega)]
  congr 1; omega

/-! ## non-vacuity -/

/-- a concrete mixed history on a 40-byte table: typed append, write into the header,
    refused write, sink push, slice append, explicit checksum update -/
def demoOps : List Sdt.Op :=
  [.append16 0xBEEF, .write32 0 0x11223344, .write8 9 0x77, .write64 35 1, .writeSlice 42 [],
   .sink (.dword 0xA0B0C0D0), .sink (.vec []), .appendSlice [], .appendSlice [1, 2, 3],
   .write8 48 0xFF, .write8 49 0xFF, .updateChecksum]

def demoNew : Option Sdt :=
  Sdt.new [0x54, 0x45, 0x53, 0x54] 40 1 [1, 2, 3, 4, 5, 6] [1, 2, 3, 4, 5, 6, 7, 8] 7

example : (demoNew.map fun s => (s.trace demoOps).map fun o => (o.1, o.2.length, sum8 o.2, readAt o.2 4 4))
    = some [(false, 42, 0, some 42), (false, 42, 0, some 42), (false, 42, 0, some 42),
            (true, 42, 0, some 42), (false, 42, 0, some 42), (false, 46, 0, some 46),
            (false, 46, 0, some 46), (false, 46, 0, some 46), (false, 49, 0, some 49),
            (false, 49, 0, some 49), (true, 49, 0, some 49), (false, 49, 0, some 49)] := by
  set_option maxRecDepth 100000 in decide

example : demoNew.map (fun s => (s.run demoOps).data)
    = (Spec.Sdt.create [0x54, 0x45, 0x53, 0x54] 40 1 [1, 2, 3, 4, 5, 6] [1, 2, 3, 4, 5, 6, 7, 8] 7).map
        (fun v => Spec.Sdt.run v (demoOps.map act)) := by
  set_option maxRecDepth 100000 in decide

end Acpi.C13
