/-
  C04 for the RHCT (isa, cmo, mmu, hart), RIMT (iommu, pcierc, platform, idmap, wire) and
  VIOT (pcirange, mmioep, pciiommu, mmioiommu) entries: the bytes the model serialises are
  the reference encoding of Acpi.Spec.Layout.
-/
import Acpi.Tables.Build
import Acpi.Tables.Wf
import Acpi.Spec.Layout
import Acpi.Lemmas.Layout
import Acpi.Lemmas.LayoutRhctRimtViot
namespace Acpi.C04
open Acpi Spec

-- `hwf` is part of the uniform theorem statement; several kinds do not need it
set_option linter.unusedVariables false

/-! ### kinds without builder calls -/

theorem applyOpt_cmo (a : EArgs) (o : Opt) : applyOpt .cmo a o = none := by
  unfold applyOpt; split <;> first | rfl | simp_all
theorem applyOpt_mmu (a : EArgs) (o : Opt) : applyOpt .mmu a o = none := by
  unfold applyOpt; split <;> first | rfl | simp_all
theorem applyOpt_isa (a : EArgs) (o : Opt) : applyOpt .isa a o = none := by
  unfold applyOpt; split <;> first | rfl | simp_all
theorem applyOpt_iommu (a : EArgs) (o : Opt) : applyOpt .iommu a o = none := by
  unfold applyOpt; split <;> first | rfl | simp_all
theorem applyOpt_pcierc (a : EArgs) (o : Opt) : applyOpt .pcierc a o = none := by
  unfold applyOpt; split <;> first | rfl | simp_all
theorem applyOpt_platform (a : EArgs) (o : Opt) : applyOpt .platform a o = none := by
  unfold applyOpt; split <;> first | rfl | simp_all
theorem applyOpt_idmap (a : EArgs) (o : Opt) : applyOpt .idmap a o = none := by
  unfold applyOpt; split <;> first | rfl | simp_all
theorem applyOpt_wire (a : EArgs) (o : Opt) : applyOpt .wire a o = none := by
  unfold applyOpt; split <;> first | rfl | simp_all
theorem applyOpt_pcirange (a : EArgs) (o : Opt) : applyOpt .pcirange a o = none := by
  unfold applyOpt; split <;> first | rfl | simp_all
theorem applyOpt_mmioep (a : EArgs) (o : Opt) : applyOpt .mmioep a o = none := by
  unfold applyOpt; split <;> first | rfl | simp_all
theorem applyOpt_pciiommu (a : EArgs) (o : Opt) : applyOpt .pciiommu a o = none := by
  unfold applyOpt; split <;> first | rfl | simp_all
theorem applyOpt_mmioiommu (a : EArgs) (o : Opt) : applyOpt .mmioiommu a o = none := by
  unfold applyOpt; split <;> first | rfl | simp_all

theorem conforms_cmo (c : EArgs) (opts : List Opt) (a : EArgs)
    (hwf : entryWf .cmo c opts = true) (h : buildEntry .cmo c opts = .ok a) :
    layoutOracle .cmo c opts (entryBytes .cmo a) = none := by
  obtain ⟨_, ho, _⟩ := buildEntry_ok h
  obtain ⟨rfl, ha⟩ := applyOpts_none .cmo applyOpt_cmo ho
  rw [show a = c from ha]
  simp only [layoutOracle, rows]
  apply conforms_of_eq
  · rfl
  · simp [entryBytes, encFields, fields, render, Row.bytes, Fld.bytes, res, zeros1, leN1_zero]

theorem conforms_mmu (c : EArgs) (opts : List Opt) (a : EArgs)
    (hwf : entryWf .mmu c opts = true) (h : buildEntry .mmu c opts = .ok a) :
    layoutOracle .mmu c opts (entryBytes .mmu a) = none := by
  obtain ⟨_, ho, _⟩ := buildEntry_ok h
  obtain ⟨rfl, ha⟩ := applyOpts_none .mmu applyOpt_mmu ho
  rw [show a = c from ha]
  simp only [layoutOracle, rows]
  apply conforms_of_eq
  · rfl
  · simp [entryBytes, encFields, fields, render, Row.bytes, Fld.bytes, res, zeros1, leN1_zero]

theorem conforms_mmioep (c : EArgs) (opts : List Opt) (a : EArgs)
    (hwf : entryWf .mmioep c opts = true) (h : buildEntry .mmioep c opts = .ok a) :
    layoutOracle .mmioep c opts (entryBytes .mmioep a) = none := by
  obtain ⟨_, ho, _⟩ := buildEntry_ok h
  obtain ⟨rfl, ha⟩ := applyOpts_none .mmioep applyOpt_mmioep ho
  rw [show a = c from ha]
  simp only [layoutOracle, rows]
  apply conforms_of_eq
  · rfl
  · simp [entryBytes, encFields, fields, render, Row.bytes, Fld.bytes, res, zeros1, zeros6, leN1_zero,
      leN2_zero, leN4_zero]

theorem conforms_mmioiommu (c : EArgs) (opts : List Opt) (a : EArgs)
    (hwf : entryWf .mmioiommu c opts = true) (h : buildEntry .mmioiommu c opts = .ok a) :
    layoutOracle .mmioiommu c opts (entryBytes .mmioiommu a) = none := by
  obtain ⟨_, ho, _⟩ := buildEntry_ok h
  obtain ⟨rfl, ha⟩ := applyOpts_none .mmioiommu applyOpt_mmioiommu ho
  rw [show a = c from ha]
  simp only [layoutOracle, rows]
  apply conforms_of_eq
  · rfl
  · simp [entryBytes, encFields, fields, render, Row.bytes, Fld.bytes, res, zeros1, zeros4, leN1_zero,
      leN4_zero]

/-! ### RIMT sub-structures -/

theorem render_idmapRows (o : Nat) (t : List Nat) : render (idmapRows o t) = encFields (idmapFields t) := by
  simp only [idmapRows, idmapFields, or3_eq_add]
  simp [render, encFields, Row.bytes, Fld.bytes]

theorem render_wireRows (o : Nat) (t : List Nat) : render (wireRows o t) = encFields (wireFields t) := by
  simp only [wireRows, wireFields, or2_eq_add]
  simp [render, encFields, Row.bytes, Fld.bytes]

theorem tiles_idmapRows (o : Nat) (t : List Nat) (total : Nat) (rest : List Row) :
    tilesFrom o total (idmapRows o t ++ rest) = tilesFrom (o + 20) total rest := by
  simp [idmapRows, tilesFrom, Row.off, Row.width, Nat.add_assoc]

theorem tiles_wireRows (o : Nat) (t : List Nat) (total : Nat) (rest : List Row) :
    tilesFrom o total (wireRows o t ++ rest) = tilesFrom (o + 8) total rest := by
  simp [wireRows, tilesFrom, Row.off, Row.width, Nat.add_assoc]

theorem conforms_idmap (c : EArgs) (opts : List Opt) (a : EArgs)
    (hwf : entryWf .idmap c opts = true) (h : buildEntry .idmap c opts = .ok a) :
    layoutOracle .idmap c opts (entryBytes .idmap a) = none := by
  obtain ⟨_, ho, _⟩ := buildEntry_ok h
  obtain ⟨rfl, ha⟩ := applyOpts_none .idmap applyOpt_idmap ho
  rw [show a = c from ha]
  simp only [layoutOracle, rows]
  apply conforms_of_eq
  · have := tiles_idmapRows 0 c.n.toList 20 []
    simpa [tilesFrom] using this
  · exact (render_idmapRows 0 _).symm

theorem conforms_wire (c : EArgs) (opts : List Opt) (a : EArgs)
    (hwf : entryWf .wire c opts = true) (h : buildEntry .wire c opts = .ok a) :
    layoutOracle .wire c opts (entryBytes .wire a) = none := by
  obtain ⟨_, ho, _⟩ := buildEntry_ok h
  obtain ⟨rfl, ha⟩ := applyOpts_none .wire applyOpt_wire ho
  rw [show a = c from ha]
  simp only [layoutOracle, rows]
  apply conforms_of_eq
  · have := tiles_wireRows 0 c.n.toList 8 []
    simpa [tilesFrom] using this
  · exact (render_wireRows 0 _).symm

/-! ### VIOT PCI entries -/

theorem conforms_pciiommu (c : EArgs) (opts : List Opt) (a : EArgs)
    (hwf : entryWf .pciiommu c opts = true) (h : buildEntry .pciiommu c opts = .ok a) :
    layoutOracle .pciiommu c opts (entryBytes .pciiommu a) = none := by
  obtain ⟨hc, ho, _⟩ := buildEntry_ok h
  obtain ⟨rfl, ha⟩ := applyOpts_none .pciiommu applyOpt_pciiommu ho
  rw [show a = c from ha]
  simp only [entryWf, ctorWf, List.all_nil, Bool.and_true, decide_eq_true_eq] at hwf
  simp only [ctorPanics, Bool.or_eq_false_iff, decide_eq_false_iff_not, Nat.not_le] at hc
  have hb := bdf_eq (c.num 1) (c.num 2) (c.num 3) hwf hc.1 hc.2
  simp only [layoutOracle, rows]
  apply conforms_of_eq
  · rfl
  · simp [entryBytes, encFields, fields, render, Row.bytes, Fld.bytes, res, zeros1, zeros8, leN1_zero,
      leN8_zero, hb]

theorem conforms_pcirange (c : EArgs) (opts : List Opt) (a : EArgs)
    (hwf : entryWf .pcirange c opts = true) (h : buildEntry .pcirange c opts = .ok a) :
    layoutOracle .pcirange c opts (entryBytes .pcirange a) = none := by
  obtain ⟨hc, ho, _⟩ := buildEntry_ok h
  obtain ⟨rfl, ha⟩ := applyOpts_none .pcirange applyOpt_pcirange ho
  rw [show a = c from ha]
  simp only [entryWf, ctorWf, List.all_nil, Bool.and_true, Bool.and_eq_true, decide_eq_true_eq] at hwf
  simp only [ctorPanics, Bool.or_eq_false_iff, decide_eq_false_iff_not, Nat.not_le] at hc
  have hb1 := bdf_eq (c.num 1) (c.num 2) (c.num 3) hwf.1 hc.1.1.1 hc.1.1.2
  have hb2 := bdf_eq (c.num 5) (c.num 6) (c.num 7) hwf.2 hc.1.2 hc.2
  simp only [layoutOracle, rows]
  apply conforms_of_eq
  · rfl
  · simp [entryBytes, encFields, fields, render, Row.bytes, Fld.bytes, res, zeros1, zeros6, leN1_zero,
      leN2_zero, leN4_zero, hb1, hb2]

/-! ### RHCT ISA string node -/

theorem conforms_isa (c : EArgs) (opts : List Opt) (a : EArgs)
    (hwf : entryWf .isa c opts = true) (h : buildEntry .isa c opts = .ok a) :
    layoutOracle .isa c opts (entryBytes .isa a) = none := by
  obtain ⟨_, ho, hp⟩ := buildEntry_ok h
  obtain ⟨rfl, ha⟩ := applyOpts_none .isa applyOpt_isa ho
  rw [show a = c from ha] at hp ⊢
  simp only [panics, decide_eq_false_iff_not, Nat.not_lt] at hp
  simp only [layoutOracle, rows, entryBytes, fields]
  generalize hl0 : (c.blob 0).length = l at hp ⊢
  have hl : l ≤ 65526 := by split at hp <;> omega
  have h1 : l % 65536 = l := Nat.mod_eq_of_lt (by omega)
  have h2 : (l + 1) % 65536 = l + 1 := Nat.mod_eq_of_lt (by omega)
  rw [h1, h2]
  rcases Nat.mod_two_eq_zero_or_one l with he | he
  · have e1 : ¬ ((9 + l) % 2 = 0) := by omega
    have e2 : ¬ ((8 + l + 1) % 2 = 0) := by omega
    have e3 : (l + 1) % 2 = 1 := by omega
    have e4 : 10 + l - 8 - l = 2 := by omega
    have e5 : 8 + l + 2 = 10 + l := by omega
    simp only [if_neg e1, if_neg e2, if_pos e3, e4, e5]
    apply conforms_of_eq
    · simp [tilesFrom, Row.off, Row.width, res, hl0]; omega
    · simp [encFields, render, Row.bytes, Fld.bytes, res, zeros2, leN1_zero]
  · have e1 : (9 + l) % 2 = 0 := by omega
    have e2 : (8 + l + 1) % 2 = 0 := by omega
    have e3 : ¬ ((l + 1) % 2 = 1) := by omega
    have e4 : 9 + l - 8 - l = 1 := by omega
    have e5 : 8 + l + 1 = 9 + l := by omega
    simp only [if_pos e1, if_neg e3, e4, e5]
    apply conforms_of_eq
    · simp [tilesFrom, Row.off, Row.width, res, hl0]; omega
    · simp [encFields, render, Row.bytes, Fld.bytes, res, zeros1, leN1_zero]

/-! ### RHCT hart info node (pushes CMO/MMU handles) -/

theorem applyOpt_hart (a : EArgs) (o : Opt) : applyOpt .hart a o =
    if o.name = "cmo" then some { a with s := [a.s.getD 0 [] ++ [o.arg 0]] } else none := by
  unfold applyOpt
  split <;> simp_all

theorem applyOpts_hart (opts : List Opt) (s a : EArgs) (l0 : List Nat) (hs : s.s = [l0])
    (h : applyOpts .hart s opts = .ok a) :
    a.n = s.n ∧ a.s = [l0 ++ pushed opts "cmo"] := by
  induction opts generalizing s l0 with
  | nil =>
    simp only [applyOpts, Except.ok.injEq] at h
    subst h
    simp [pushed, hs]
  | cons o os ih =>
    simp only [applyOpts, applyOpt_hart] at h
    by_cases hn : o.name = "cmo"
    · simp only [hn, if_true] at h
      have := ih _ (l0 ++ [o.arg 0]) (by simp [hs]) h
      simp only [pushed, List.filter_cons, hn, decide_true, if_true, List.map_cons] at this ⊢
      simpa using this
    · simp [hn] at h

theorem conforms_hart (c : EArgs) (opts : List Opt) (a : EArgs)
    (hwf : entryWf .hart c opts = true) (h : buildEntry .hart c opts = .ok a) :
    layoutOracle .hart c opts (entryBytes .hart a) = none := by
  obtain ⟨_, ho, _⟩ := buildEntry_ok h
  obtain ⟨hn, hs⟩ := applyOpts_hart opts _ a [c.num 1] rfl ho
  have hn0 : a.num 0 = c.num 0 := by
    simp only [EArgs.num, hn, init]; rfl
  simp only [layoutOracle, rows, entryBytes, fields, hn0, hs, List.getD_cons_zero, List.singleton_append]
  generalize c.num 1 :: pushed opts "cmo" = l
  apply conforms_of_eq
  · simp only [List.cons_append, List.nil_append, tilesFrom, Row.off, Row.width, tiles_arrayRows]
    simp
  · rw [encFields_append, render_append, encFields_map_num, render_arrayRows]
    simp [encFields, render, Row.bytes, Fld.bytes]

/-! ### RIMT nodes with sub-structure arrays -/

theorem conforms_iommu (c : EArgs) (opts : List Opt) (a : EArgs)
    (hwf : entryWf .iommu c opts = true) (h : buildEntry .iommu c opts = .ok a) :
    layoutOracle .iommu c opts (entryBytes .iommu a) = none := by
  obtain ⟨hc, ho, _⟩ := buildEntry_ok h
  obtain ⟨rfl, ha⟩ := applyOpts_none .iommu applyOpt_iommu ho
  rw [show a = c from ha]
  simp only [entryWf, ctorWf, List.all_nil, Bool.and_true, decide_eq_true_eq] at hwf
  simp only [ctorPanics, Bool.and_eq_false_iff, Bool.or_eq_false_iff, decide_eq_false_iff_not, Nat.not_le] at hc
  have hb : (if c.num 3 ≠ 0 then bdf (c.num 5) (c.num 6) (c.num 7) else 0) =
      (if c.num 3 ≠ 0 then bdfOf (c.num 5) (c.num 6) (c.num 7) else 0) := by
    by_cases h3 : c.num 3 ≠ 0
    · rw [if_pos h3, if_pos h3]
      rcases hc with hc | hc
      · exact absurd h3 hc
      · exact bdf_eq _ _ _ hwf hc.1 hc.2
    · rw [if_neg h3, if_neg h3]
  simp only [layoutOracle, rows, entryBytes, fields, hb, or2_eq_add]
  by_cases h10 : c.num 10 ≠ 0
  · simp only [if_pos h10, range_flatMap_eq wireRows 8]
    apply conforms_of_eq
    · simp only [List.cons_append, List.nil_append, tilesFrom, Row.off, Row.width, tiles_subRows wireRows 8 tiles_wireRows]
      simp
    · rw [encFields_append, render_append, render_subRows wireRows 8 wireFields render_wireRows]
      simp [encFields, render, Row.bytes, Fld.bytes]
  · simp only [if_neg h10, range_flatMap_eq wireRows 8]
    apply conforms_of_eq
    · simp only [List.cons_append, List.nil_append, tilesFrom, Row.off, Row.width, tiles_subRows wireRows 8 tiles_wireRows]
      simp
    · rw [encFields_append, render_append, render_subRows wireRows 8 wireFields render_wireRows]
      simp [encFields, render, Row.bytes, Fld.bytes]

theorem conforms_pcierc (c : EArgs) (opts : List Opt) (a : EArgs)
    (hwf : entryWf .pcierc c opts = true) (h : buildEntry .pcierc c opts = .ok a) :
    layoutOracle .pcierc c opts (entryBytes .pcierc a) = none := by
  obtain ⟨_, ho, _⟩ := buildEntry_ok h
  obtain ⟨rfl, ha⟩ := applyOpts_none .pcierc applyOpt_pcierc ho
  rw [show a = c from ha]
  simp only [layoutOracle, rows, entryBytes, fields, or2_eq_add]
  by_cases h4 : c.num 4 ≠ 0
  · simp only [if_pos h4, range_flatMap_eq idmapRows 20]
    apply conforms_of_eq
    · simp only [List.cons_append, List.nil_append, tilesFrom, Row.off, Row.width,
        tiles_subRows idmapRows 20 tiles_idmapRows]
      simp
    · rw [encFields_append, render_append, render_subRows idmapRows 20 idmapFields render_idmapRows]
      simp [encFields, render, Row.bytes, Fld.bytes]
  · simp only [if_neg h4, range_flatMap_eq idmapRows 20]
    apply conforms_of_eq
    · simp only [List.cons_append, List.nil_append, tilesFrom, Row.off, Row.width,
        tiles_subRows idmapRows 20 tiles_idmapRows]
      simp
    · rw [encFields_append, render_append, render_subRows idmapRows 20 idmapFields render_idmapRows]
      simp [encFields, render, Row.bytes, Fld.bytes]

theorem conforms_platform (c : EArgs) (opts : List Opt) (a : EArgs)
    (hwf : entryWf .platform c opts = true) (h : buildEntry .platform c opts = .ok a) :
    layoutOracle .platform c opts (entryBytes .platform a) = none := by
  obtain ⟨_, ho, _⟩ := buildEntry_ok h
  obtain ⟨rfl, ha⟩ := applyOpts_none .platform applyOpt_platform ho
  rw [show a = c from ha]
  simp only [layoutOracle, rows, entryBytes, fields]
  have e1 : 12 + (c.blob 0).length + 1 = 13 + (c.blob 0).length := by omega
  rw [e1]
  by_cases h1 : c.num 1 ≠ 0
  · simp only [if_pos h1, range_flatMap_eq idmapRows 20]
    apply conforms_of_eq
    · simp only [List.cons_append, List.nil_append, tilesFrom, Row.off, Row.width, res, length_zeros]
      have e2 : 0 + 1 + 1 + 2 + 2 + 2 + 2 + 2 + (c.blob 0).length + 1 = 13 + (c.blob 0).length := by omega
      rw [e2, tiles_subRows idmapRows 20 tiles_idmapRows]
      simp
    · rw [encFields_append, render_append, render_subRows idmapRows 20 idmapFields render_idmapRows]
      simp [encFields, render, Row.bytes, Fld.bytes, res, zeros1, zeros2, leN1_zero, leN2_zero]
  · simp only [if_neg h1, range_flatMap_eq idmapRows 20]
    apply conforms_of_eq
    · simp only [List.cons_append, List.nil_append, tilesFrom, Row.off, Row.width, res, length_zeros]
      have e2 : 0 + 1 + 1 + 2 + 2 + 2 + 2 + 2 + (c.blob 0).length + 1 = 13 + (c.blob 0).length := by omega
      rw [e2, tiles_subRows idmapRows 20 tiles_idmapRows]
      simp
    · rw [encFields_append, render_append, render_subRows idmapRows 20 idmapFields render_idmapRows]
      simp [encFields, render, Row.bytes, Fld.bytes, res, zeros1, zeros2, leN1_zero, leN2_zero]

end Acpi.C04
