/-
  C04 / C11 for the PPTT processor hierarchy node with direct writes of its public fields
  (`node.flags = v; node.parent = p; node.acpi_processor_id = id`, modelled as `set=slot.value`
  on slots 0 / 1 / 2): what each of the three dwords holds after an arbitrary program.

    proc_flags_field   (Acpi.Props.C11.Distinct)  offset 4: `procFlags opts`
    proc_parent_field                              offset 8: last value written to slot 1, else the
                                                   constructor's parent reference
    proc_id_field                                  offset 12: last value written to slot 2, else the
                                                   constructor's ACPI processor id

  All three are consequences of `C04.conforms_proc` (via `C04.entry_conforms`).
-/
import Acpi.Props.C11.Distinct
namespace Acpi.C04
open Acpi Spec

/-- **PPTT processor node, parent field**: after any well-formed program that builds, the dword at
    offset 8 holds the value of the last direct write of the parent field, or the constructor
    argument if the program has none (truncated to 32 bits, as the Rust `u32` field is) -/
theorem proc_parent_field (c : EArgs) (opts : List Opt) (a : EArgs)
    (hwf : entryWf .proc c opts = true) (h : buildEntry .proc c opts = .ok a) :
    readAt (entryBytes .proc a) 8 4 = some (lastSet opts 1 (c.num 0) % 2 ^ 32) := by
  have := C11.readAt_row_mod .proc c opts a _ _ 8 4 (lastSet opts 1 (c.num 0)) (by decide) hwf
    (by intro h; cases h) h rfl (by simp)
  rwa [show (256 : Nat) ^ 4 = 2 ^ 32 by decide] at this

/-- **PPTT processor node, ACPI processor id field**: likewise at offset 12 for slot 2 -/
theorem proc_id_field (c : EArgs) (opts : List Opt) (a : EArgs)
    (hwf : entryWf .proc c opts = true) (h : buildEntry .proc c opts = .ok a) :
    readAt (entryBytes .proc a) 12 4 = some (lastSet opts 2 (c.num 1) % 2 ^ 32) := by
  have := C11.readAt_row_mod .proc c opts a _ _ 12 4 (lastSet opts 2 (c.num 1)) (by decide) hwf
    (by intro h; cases h) h rfl (by simp)
  rwa [show (256 : Nat) ^ 4 = 2 ^ 32 by decide] at this

/-- with constructor arguments that are `u32`s (as the Rust types make them) nothing is truncated:
    the two fields hold exactly the last written value / the constructor argument -/
theorem proc_parent_id_fields_exact (c : EArgs) (opts : List Opt) (a : EArgs)
    (hwf : entryWf .proc c opts = true) (h : buildEntry .proc c opts = .ok a)
    (h0 : c.num 0 < 2 ^ 32) (h1 : c.num 1 < 2 ^ 32) :
    readAt (entryBytes .proc a) 8 4 = some (lastSet opts 1 (c.num 0)) ∧
    readAt (entryBytes .proc a) 12 4 = some (lastSet opts 2 (c.num 1)) := by
  have hw := hwf
  rw [entryWf, Bool.and_eq_true] at hw
  rw [proc_parent_field c opts a hwf h, proc_id_field c opts a hwf h,
    Nat.mod_eq_of_lt (ProcF.lastSet_lt opts hw.2 1 _ h0), Nat.mod_eq_of_lt (ProcF.lastSet_lt opts hw.2 2 _ h1)]
  exact ⟨rfl, rfl⟩

/-- a program without direct writes leaves the constructor's values in both fields (the layout
    as it was stated before direct writes were modelled) -/
theorem proc_parent_id_fields_no_writes (c : EArgs) (opts : List Opt) (a : EArgs)
    (hwf : entryWf .proc c opts = true) (h : buildEntry .proc c opts = .ok a)
    (hns : has opts "set" = false) :
    readAt (entryBytes .proc a) 8 4 = some (c.num 0 % 2 ^ 32) ∧
    readAt (entryBytes .proc a) 12 4 = some (c.num 1 % 2 ^ 32) := by
  rw [proc_parent_field c opts a hwf h, proc_id_field c opts a hwf h,
    ProcF.lastSet_of_not_has_set _ hns, ProcF.lastSet_of_not_has_set _ hns]
  exact ⟨rfl, rfl⟩

/-- non-vacuity: `physical(); flags = 6; leaf(); acpi_processor_id = 77; add_cache(40)` on a node
    constructed with parent 5 and id 3 is well-formed, builds, and its flags field reads 14 (the
    write discards `physical`, `leaf` is OR-ed in afterwards), its parent 5, its id 77 -/
example :
    let p : List Opt := [⟨"physical", []⟩, ⟨"set", [0, 6]⟩, ⟨"leaf", []⟩, ⟨"set", [2, 77]⟩, ⟨"cache", [40]⟩]
    entryWf .proc { n := #[5, 3] } p = true ∧
    ∃ a, buildEntry .proc { n := #[5, 3] } p = .ok a ∧
      readAt (entryBytes .proc a) 4 4 = some 14 ∧ procFlags p = 14 ∧
      readAt (entryBytes .proc a) 8 4 = some 5 ∧ lastSet p 1 5 = 5 ∧
      readAt (entryBytes .proc a) 12 4 = some 77 ∧ lastSet p 2 3 = 77 ∧
      layoutOracle .proc { n := #[5, 3] } p (entryBytes .proc a) = none :=
  ⟨by decide, _, rfl, by decide, by decide, by decide, by decide, by decide, by decide, by decide⟩

/-- the flags specification on a few more programs: a write after the builders discards them; of
    two writes only the last counts, with the builders after it; a write of another slot does not
    interrupt the accumulation; the model (left fold, `|=` and assignment) agrees on each -/
example :
    procFlags [⟨"leaf", []⟩, ⟨"set", [0, 6]⟩] = 6 ∧
    procFlags [⟨"set", [0, 1]⟩, ⟨"valid", []⟩, ⟨"set", [0, 8]⟩, ⟨"thread", []⟩] = 12 ∧
    procFlags [⟨"physical", []⟩, ⟨"set", [1, 9]⟩, ⟨"leaf", []⟩] = 9 ∧
    procFlags [⟨"set", [0, 3]⟩, ⟨"physical", []⟩, ⟨"valid", []⟩] = 3 ∧
    (∃ a, buildEntry .proc {} [⟨"leaf", []⟩, ⟨"set", [0, 6]⟩] = .ok a ∧ a.num 0 = 6) ∧
    (∃ a, buildEntry .proc {} [⟨"set", [0, 1]⟩, ⟨"valid", []⟩, ⟨"set", [0, 8]⟩, ⟨"thread", []⟩] = .ok a ∧
      a.num 0 = 12) ∧
    (∃ a, buildEntry .proc {} [⟨"physical", []⟩, ⟨"set", [1, 9]⟩, ⟨"leaf", []⟩] = .ok a ∧ a.num 0 = 9 ∧ a.num 1 = 9) :=
  ⟨by decide, by decide, by decide, by decide, ⟨_, rfl, by decide⟩, ⟨_, rfl, by decide⟩, ⟨_, rfl, by decide, by decide⟩⟩

end Acpi.C04
