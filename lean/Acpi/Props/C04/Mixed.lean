/-
  C04, mixed programs: every modelled entry sits in the final image as its own reference encoding
  even when opaque entries surround it, and every opaque entry's bytes sit there verbatim.
-/
import Acpi.Tables.Mixed
import Acpi.Props.C04
import Acpi.Props.C04.Whole
import Acpi.Props.C05.Mixed
import Acpi.Lemmas.Mixed
namespace Acpi.C04
open Acpi Spec

/-- **C04 (mixed programs)**: in every non-panicking mixed program (modelled entries within their
    Rust types, not RDPAS, QoS-controller constructor arguments well formed — the hypotheses of
    `whole_entries_conform`; nothing asked of the opaque entries), at the offset its add call
    returned the final image holds
    * for a modelled call: exactly the reference encoding of that entry (`layoutOracle` finds no
      deviation), whatever opaque entries were added before or after it;
    * for an opaque call: its bytes, verbatim. -/
theorem mixed_entries_in_place (T : TableId) (o : Oem) (ho : C02.OemWf o) (ops : List MOp)
    (hwf : ∀ op, MOp.modelled op ∈ ops → op.k ≠ .rdpas ∧ entryWf op.k op.ctor op.opts = true ∧
      (op.k = .qosctrl → qosCtorWf op.ctor))
    (hs : List Nat) (t : Tbl) (h : runMixed T o ops = some (hs, t)) :
    ∀ i (hi : i < ops.length), ∃ hnd, hs[i]? = some hnd ∧
      (∀ op, ops[i] = .modelled op → ∃ a, buildEntry op.k op.ctor op.opts = .ok a ∧
        layoutOracle op.k op.ctor op.opts
          ((t.image.drop hnd).take (entryBytes op.k a).length) = none) ∧
      (∀ raw, ops[i] = .opaque raw → (t.image.drop hnd).take raw.length = raw) := by
  obtain ⟨hacc, -⟩ := Mixed.runMixed_inv h
  obtain ⟨-, hh⟩ := C05.mixed_handles T o ho ops
    (fun op hop => ⟨(hwf op hop).1, (hwf op hop).2.1⟩) hs t h
  intro i hi
  obtain ⟨hnd, e1, e2, e3⟩ := hh i hi
  refine ⟨hnd, e1, fun op hop => ?_, e3⟩
  obtain ⟨a, ha, e⟩ := e2 op hop
  have hmem : MOp.modelled op ∈ ops := hop ▸ List.getElem_mem hi
  obtain ⟨-, w2, w3⟩ := hwf op hmem
  have hged : op.k ≠ .ged := by
    intro hk
    have := hacc op hmem
    rw [hk] at this
    cases this
  refine ⟨a, ha, ?_⟩
  rw [e]
  exact entry_conforms op.k op.ctor op.opts a hged w2 w3 ha

/-- non-vacuity: the MADT program GICC, 12 opaque bytes, GICD satisfies the hypotheses (it runs,
    with handles 44, 126, 138: see C05/Mixed) -/
example : C02.OemWf Mixed.exOem ∧
    (∀ op, MOp.modelled op ∈ Mixed.exProg → op.k ≠ .rdpas ∧ entryWf op.k op.ctor op.opts = true ∧
      (op.k = .qosctrl → qosCtorWf op.ctor)) ∧
    (runMixed (.madt 0) Mixed.exOem Mixed.exProg).map (·.1) = some [44, 126, 138] := by
  refine ⟨⟨rfl, rfl⟩, fun op hop => ?_, by decide +kernel⟩
  simp only [Mixed.exProg, List.mem_cons, MOp.modelled.injEq, reduceCtorEq, List.not_mem_nil,
    or_false, false_or] at hop
  rcases hop with rfl | rfl <;> exact ⟨by decide, by decide +kernel, nofun⟩

end Acpi.C04
