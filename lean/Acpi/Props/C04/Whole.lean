/-
  C04, whole tables: the part of the image before the first entry is the reference encoding of
  the table head, and every entry sits in the image as its own reference encoding.
-/
import Acpi.Tables.Whole
import Acpi.Spec.FixedLayout
import Acpi.Props.C04
import Acpi.Props.C05.Whole
import Acpi.Lemmas.Whole
namespace Acpi.C04
open Acpi Spec

/-- one table of `whole_head_conforms`: the reference rows are those of `tableHeadRows`, they
    tile `[36, total)` and render to the engine's `pre ++ count ++ post` -/
local macro "head_case " n:num ", " hcfg:ident ", " aux:ident : tactic =>
  `(tactic| (
    refine ⟨$n, _, rfl, rfl, ?_⟩
    rw [$hcfg:ident] at $aux:ident ⊢
    refine $aux _ _ ?_ ?_
    · rfl
    · simp [TableId.cfg, TableId.ctor, cfgXSDT, cfgMCFG, cfgMADT, cfgSRAT, cfgHMAT, cfgPPTT, cfgCEDT, cfgRHCT, cfgRIMT,
        cfgVIOT, cfgHEST, cfgRQSC, render, Row.bytes, res, zeros, List.replicate, leN, u16le_eq_leN,
        u32le_eq_leN, u64le_eq_leN]))

set_option linter.unusedSimpArgs false in
/-- **C04 (table heads)**: for every table, after every non-panicking program, the bytes before
    the first entry are exactly the reference encoding of the table head: signature, Length,
    revision, checksum, OEM fields, creator id and revision, the table's own fixed fields
    (MADT controller address and flags, the SRAT's must-be-one dword, reserved fields zero,
    RHCT/RIMT/VIOT array offsets) and the entry count — with the Length, checksum and count
    being whatever the engine holds (C01/C02/C03 say what they are). -/
theorem whole_head_conforms (T : TableId) (o : Oem) (ho : C02.OemWf o) (ops : List AddOp)
    (hs : List Nat) (t : Tbl) (h : runTable T o ops = some (hs, t)) :
    ∃ total rows, tableHeadRows T.name o T.ctor t.length.toNat t.cfg.rev.toNat t.hdrCks.toNat t.count = some (total, rows) ∧
      total = Tbl.firstOffset T.cfg ∧ conforms total rows t.head = none := by
  obtain ⟨-, bs, -, hr⟩ := Whole.runTable_inv h
  obtain ⟨hcfg, hoem, -⟩ := runAdds_struct _ _ hs t hr
  simp only [Tbl.new_cfg, Tbl.new_oem] at hcfg hoem
  have hsig : t.cfg.sig.length = 4 := hcfg ▸ Whole.sig_length T
  have hid : t.oem.id.length = 6 := hoem ▸ ho.1
  have htb : t.oem.table.length = 8 := hoem ▸ ho.2
  have aux := fun total rows => Whole.head_conforms_aux t total rows hsig hid htb
  rw [hoem] at aux
  cases T with
  | xsdt => head_case 36, hcfg, aux
  | mcfg => head_case 44, hcfg, aux
  | madt l => head_case 44, hcfg, aux
  | srat => head_case 48, hcfg, aux
  | hmat => head_case 40, hcfg, aux
  | pptt => head_case 36, hcfg, aux
  | cedt => head_case 36, hcfg, aux
  | rhct tb => head_case 56, hcfg, aux
  | rimt => head_case 48, hcfg, aux
  | viot => head_case 48, hcfg, aux
  | hest => head_case 40, hcfg, aux
  | rqsc => head_case 40, hcfg, aux

/-- **C04 (whole tables)**: every entry of a non-panicking program sits in the final image, at
    the offset its add call returned, as exactly its reference encoding. -/
theorem whole_entries_conform (T : TableId) (o : Oem) (ho : C02.OemWf o) (ops : List AddOp)
    (hwf : ∀ op ∈ ops, op.k ≠ .rdpas ∧ entryWf op.k op.ctor op.opts = true ∧
      (op.k = .qosctrl → qosCtorWf op.ctor))
    (bs : List (Kind × EArgs)) (hb : buildAll ops = some bs)
    (hs : List Nat) (t : Tbl) (h : runTable T o ops = some (hs, t)) :
    ∀ i (hi : i < ops.length), ∃ hnd a, hs[i]? = some hnd ∧ bs[i]? = some (ops[i].k, a) ∧
      layoutOracle ops[i].k ops[i].ctor ops[i].opts
        ((t.image.drop hnd).take (entryBytes ops[i].k a).length) = none := by
  obtain ⟨hacc, -⟩ := Whole.runTable_inv' hb h
  obtain ⟨hl, hget⟩ := Whole.buildAll_spec ops bs hb
  obtain ⟨-, hh⟩ := C05.whole_handles T o ho ops (fun op hop => ⟨(hwf op hop).1, (hwf op hop).2.1⟩)
    bs hb hs t h
  intro i hi
  have hib : i < bs.length := hl ▸ hi
  obtain ⟨h1, h2⟩ := hget i hi hib
  obtain ⟨hnd, e1, e2⟩ := hh i hib
  obtain ⟨-, w2, w3⟩ := hwf ops[i] (List.getElem_mem hi)
  have hged : ops[i].k ≠ .ged := by
    intro hk
    have := hacc ops[i] (List.getElem_mem hi)
    rw [hk] at this
    cases this
  rw [h1] at e2
  refine ⟨hnd, bs[i].2, e1, ?_, ?_⟩
  · rw [List.getElem?_eq_getElem hib, ← h1]
  · rw [e2]
    exact entry_conforms ops[i].k ops[i].ctor ops[i].opts bs[i].2 hged w2 w3 h2

end Acpi.C04
