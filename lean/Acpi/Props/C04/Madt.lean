/-
  C04 (with C11) for the MADT interrupt-controller structures: for every well-formed builder
  program the serialised entry is the reference encoding of Acpi.Spec.Layout.
-/
import Acpi.Tables.Build
import Acpi.Tables.Wf
import Acpi.Spec.Layout
import Acpi.Lemmas.Layout
import Acpi.Lemmas.LayoutMadt
namespace Acpi.C04
open Acpi Spec
open Acpi.C04.Madt

set_option linter.unusedSimpArgs false

/-! ### kinds without builder calls -/

theorem conforms_lapic (c : EArgs) (opts : List Opt) (a : EArgs)
    (hwf : entryWf .lapic c opts = true) (h : buildEntry .lapic c opts = .ok a) :
    layoutOracle .lapic c opts (entryBytes .lapic a) = none := by
  obtain ⟨ho, ha⟩ := build_noopts _ c opts a (fun _ _ => rfl) h
  subst ho; subst ha
  unfold layoutOracle rows
  simp only []
  apply conforms_of_eq
  · simp [tilesFrom, Row.off, Row.width, res]
  · simp [entryBytes, encFields, fields, init, render, Row.bytes, Fld.bytes, res, zeros, List.replicate_succ]

theorem conforms_ioapic (c : EArgs) (opts : List Opt) (a : EArgs)
    (hwf : entryWf .ioapic c opts = true) (h : buildEntry .ioapic c opts = .ok a) :
    layoutOracle .ioapic c opts (entryBytes .ioapic a) = none := by
  obtain ⟨ho, ha⟩ := build_noopts _ c opts a (fun _ _ => rfl) h
  subst ho; subst ha
  unfold layoutOracle rows
  simp only []
  apply conforms_of_eq
  · simp [tilesFrom, Row.off, Row.width, res]
  · simp [entryBytes, encFields, fields, init, render, Row.bytes, Fld.bytes, res, zeros, List.replicate_succ]

theorem conforms_gicd (c : EArgs) (opts : List Opt) (a : EArgs)
    (hwf : entryWf .gicd c opts = true) (h : buildEntry .gicd c opts = .ok a) :
    layoutOracle .gicd c opts (entryBytes .gicd a) = none := by
  obtain ⟨ho, ha⟩ := build_noopts _ c opts a (fun _ _ => rfl) h
  subst ho; subst ha
  unfold layoutOracle rows
  simp only []
  apply conforms_of_eq
  · simp [tilesFrom, Row.off, Row.width, res]
  · simp [entryBytes, encFields, fields, init, render, Row.bytes, Fld.bytes, res, zeros, List.replicate_succ]

theorem conforms_gicr (c : EArgs) (opts : List Opt) (a : EArgs)
    (hwf : entryWf .gicr c opts = true) (h : buildEntry .gicr c opts = .ok a) :
    layoutOracle .gicr c opts (entryBytes .gicr a) = none := by
  obtain ⟨ho, ha⟩ := build_noopts _ c opts a (fun _ _ => rfl) h
  subst ho; subst ha
  unfold layoutOracle rows
  simp only []
  apply conforms_of_eq
  · simp [tilesFrom, Row.off, Row.width, res]
  · simp [entryBytes, encFields, fields, init, render, Row.bytes, Fld.bytes, res, zeros, List.replicate_succ]

theorem conforms_its (c : EArgs) (opts : List Opt) (a : EArgs)
    (hwf : entryWf .its c opts = true) (h : buildEntry .its c opts = .ok a) :
    layoutOracle .its c opts (entryBytes .its a) = none := by
  obtain ⟨ho, ha⟩ := build_noopts _ c opts a (fun _ _ => rfl) h
  subst ho; subst ha
  unfold layoutOracle rows
  simp only []
  apply conforms_of_eq
  · simp [tilesFrom, Row.off, Row.width, res]
  · simp [entryBytes, encFields, fields, init, render, Row.bytes, Fld.bytes, res, zeros, List.replicate_succ]

theorem conforms_rintc (c : EArgs) (opts : List Opt) (a : EArgs)
    (hwf : entryWf .rintc c opts = true) (h : buildEntry .rintc c opts = .ok a) :
    layoutOracle .rintc c opts (entryBytes .rintc a) = none := by
  obtain ⟨ho, ha⟩ := build_noopts _ c opts a (fun _ _ => rfl) h
  subst ho; subst ha
  unfold layoutOracle rows
  simp only []
  apply conforms_of_eq
  · simp [tilesFrom, Row.off, Row.width, res]
  · simp [entryBytes, encFields, fields, init, render, Row.bytes, Fld.bytes, res, zeros, List.replicate_succ]

theorem conforms_imsic (c : EArgs) (opts : List Opt) (a : EArgs)
    (hwf : entryWf .imsic c opts = true) (h : buildEntry .imsic c opts = .ok a) :
    layoutOracle .imsic c opts (entryBytes .imsic a) = none := by
  obtain ⟨ho, ha⟩ := build_noopts _ c opts a (fun _ _ => rfl) h
  subst ho; subst ha
  unfold layoutOracle rows
  simp only []
  apply conforms_of_eq
  · simp [tilesFrom, Row.off, Row.width, res]
  · simp [entryBytes, encFields, fields, init, render, Row.bytes, Fld.bytes, res, zeros, List.replicate_succ]

theorem conforms_aplic (c : EArgs) (opts : List Opt) (a : EArgs)
    (hwf : entryWf .aplic c opts = true) (h : buildEntry .aplic c opts = .ok a) :
    layoutOracle .aplic c opts (entryBytes .aplic a) = none := by
  obtain ⟨ho, ha⟩ := build_noopts _ c opts a (fun _ _ => rfl) h
  have hb : (c.blob 0).length = 8 := by
    simp only [entryWf, ctorWf, Bool.and_eq_true, decide_eq_true_eq] at hwf; exact hwf.1
  subst ho; subst ha
  unfold layoutOracle rows
  simp only []
  apply conforms_of_eq
  · simp [tilesFrom, Row.off, Row.width, res, hb]
  · simp [entryBytes, encFields, fields, init, render, Row.bytes, Fld.bytes, res, zeros, List.replicate_succ]

theorem conforms_plic (c : EArgs) (opts : List Opt) (a : EArgs)
    (hwf : entryWf .plic c opts = true) (h : buildEntry .plic c opts = .ok a) :
    layoutOracle .plic c opts (entryBytes .plic a) = none := by
  obtain ⟨ho, ha⟩ := build_noopts _ c opts a (fun _ _ => rfl) h
  have hb : (c.blob 0).length = 8 := by
    simp only [entryWf, ctorWf, Bool.and_eq_true, decide_eq_true_eq] at hwf; exact hwf.1
  subst ho; subst ha
  unfold layoutOracle rows
  simp only []
  apply conforms_of_eq
  · simp [tilesFrom, Row.off, Row.width, res, hb]
  · simp [entryBytes, encFields, fields, init, render, Row.bytes, Fld.bytes, res, zeros, List.replicate_succ]

/-! ### kinds with builder calls (C11: set semantics of the options) -/

theorem conforms_gicc (c : EArgs) (opts : List Opt) (a : EArgs)
    (hwf : entryWf .gicc c opts = true) (h : buildEntry .gicc c opts = .ok a) :
    layoutOracle .gicc c opts (entryBytes .gicc a) = none := by
  have hw : opts.all (optWf .gicc) = true := by
    simp only [entryWf, Bool.and_eq_true] at hwf; exact hwf.2
  have I := gicc_inv opts (init .gicc c) a rfl hw (build_ok h)
  have hflags : a.num 0 = (if c.num 0 = 1 then 1 else 0) + (if c.num 0 = 2 then 8 else 0) +
      (if opts.any (fun o => o.name = "pi" ∧ o.arg 1 = 0) then 2 else 0) +
      (if opts.any (fun o => o.name = "mi" ∧ o.arg 1 = 0) then 4 else 0) := by
    rw [I.flags]
    have : (init .gicc c).num 0 = if c.num 0 = 1 then 1 else if c.num 0 = 2 then 8 else 0 := rfl
    rw [this]
    generalize opts.any (fun o => decide (o.name = "pi" ∧ o.arg 1 = 0)) = b1
    generalize opts.any (fun o => decide (o.name = "mi" ∧ o.arg 1 = 0)) = b2
    by_cases h1 : c.num 0 = 1
    · cases b1 <;> cases b2 <;> simp [h1]
    · by_cases h2 : c.num 0 = 2
      · cases b1 <;> cases b2 <;> simp [h2]
      · cases b1 <;> cases b2 <;> simp [h1, h2]
  have s1 : a.num 1 = lastSet opts 1 0 := I.slot 1 (by decide) (by decide) (by decide)
  have s2 : a.num 2 = lastSet opts 2 0 := I.slot 2 (by decide) (by decide) (by decide)
  have s3 : a.num 3 = lastSet opts 3 0 := I.slot 3 (by decide) (by decide) (by decide)
  have s5 : a.num 5 = lastSet opts 5 0 := I.slot 5 (by decide) (by decide) (by decide)
  have s6 : a.num 6 = lastSet opts 6 0 := I.slot 6 (by decide) (by decide) (by decide)
  have s7 : a.num 7 = lastSet opts 7 0 := I.slot 7 (by decide) (by decide) (by decide)
  have s8 : a.num 8 = lastSet opts 8 0 := I.slot 8 (by decide) (by decide) (by decide)
  have s10 : a.num 10 = lastSet opts 10 0 := I.slot 10 (by decide) (by decide) (by decide)
  have s11 : a.num 11 = lastSet opts 11 0 := I.slot 11 (by decide) (by decide) (by decide)
  have s12 : a.num 12 = lastSet opts 12 0 := I.slot 12 (by decide) (by decide) (by decide)
  have s13 : a.num 13 = lastSet opts 13 0 := I.slot 13 (by decide) (by decide) (by decide)
  have s14 : a.num 14 = lastSet opts 14 0 := I.slot 14 (by decide) (by decide) (by decide)
  have s4 : a.num 4 = lastVal opts "pi" 0 0 := I.perf
  have s9 : a.num 9 = lastVal opts "mi" 0 0 := I.maint
  unfold layoutOracle rows
  simp only []
  apply conforms_of_eq
  · simp [tilesFrom, Row.off, Row.width, res]
  · simp only [entryBytes, fields, hflags, s1, s2, s3, s4, s5, s6, s7, s8, s9, s10, s11, s12, s13, s14]
    simp [encFields, render, Row.bytes, Fld.bytes, res, zeros, List.replicate_succ, leN]

theorem conforms_gicmsi (c : EArgs) (opts : List Opt) (a : EArgs)
    (hwf : entryWf .gicmsi c opts = true) (h : buildEntry .gicmsi c opts = .ok a) :
    layoutOracle .gicmsi c opts (entryBytes .gicmsi a) = none := by
  have hw : opts.all (optWf .gicmsi) = true := by
    simp only [entryWf, Bool.and_eq_true] at hwf; exact hwf.2
  have I := gicmsi_inv opts (init .gicmsi c) a rfl hw (build_ok h)
  have s0 : a.num 0 = lastSet opts 0 0 := I.id
  have s1 : a.num 1 = lastSet opts 1 0 := I.base
  have s2 : a.num 2 = bit opts "spi" 1 := I.flags
  have s3 : a.num 3 = lastVal opts "spi" 0 0 := I.count
  have s4 : a.num 4 = lastVal opts "spi" 1 0 := I.sbase
  unfold layoutOracle rows
  simp only []
  apply conforms_of_eq
  · simp [tilesFrom, Row.off, Row.width, res]
  · simp only [entryBytes, fields, s0, s1, s2, s3, s4]
    simp [encFields, render, Row.bytes, Fld.bytes, res, zeros, List.replicate_succ, leN]

end Acpi.C04
