/-
  C04 for the two remaining byte-producing constructors (Generic Address Structures built by
  helper constructors): ACPI 6.5 §5.2.3.2, Table 5.1 — address space id 1@0, register bit width
  1@1, bit offset 1@2, access size 1@3 (1 byte … 4 qword), address 8@4; for PCI configuration
  space the address is device (bits 47:32), function (31:16), register offset (15:0).
-/
import Acpi.Tables.Misc
import Acpi.Spec.Layout
import Acpi.Lemmas.Layout
namespace Acpi.C04
open Acpi Spec

def genericAddressRows (io : Bool) (tsize addr : Nat) : List Row :=
  gasRows 0 (if io then 1 else 0) (8 * tsize) 0 (if tsize = 1 then 1 else if tsize = 2 then 2 else if tsize = 4 then 3 else 4) addr

def gasPciRows (width access device function register : Nat) : List Row :=
  gasRows 0 2 width 0 access (device * 2 ^ 32 + function * 2 ^ 16 + register)

/-- `GenericAddress::{io_port,mmio}_address::<T>` is the Generic Address Structure for that
    space, width and access size (T of 1, 2, 4 or 8 bytes) -/
theorem generic_address_conforms (io : Bool) (tsize addr : Nat)
    (ht : tsize = 1 ∨ tsize = 2 ∨ tsize = 4 ∨ tsize = 8) :
    conforms 12 (genericAddressRows io tsize addr) (encFields (genericAddress io tsize addr)) = none := by
  apply conforms_of_eq
  · rfl
  · rcases ht with rfl | rfl | rfl | rfl <;>
      simp [genericAddress, genericAddressRows, gasRows, render, Row.bytes, encFields, Fld.bytes, accessSizeOf]

/-- the constructors refuse exactly the register types that have no Access Size code -/
theorem generic_address_refused_iff (tsize : Nat) :
    genericAddressRefuses tsize = false ↔ (tsize = 1 ∨ tsize = 2 ∨ tsize = 4 ∨ tsize = 8) := by
  simp only [genericAddressRefuses, Bool.not_eq_false', Bool.or_eq_true, beq_iff_eq]
  omega

theorem pci_addr (device function register : Nat) (hd : device < 256) (hf : function < 256) (hr : register < 65536) :
    (((device % 256) <<< 32) ||| ((function % 256) <<< 16) ||| (register % 65536)) % 2 ^ 64
      = device * 2 ^ 32 + function * 2 ^ 16 + register := by
  rw [Nat.mod_eq_of_lt hd, Nat.mod_eq_of_lt hf, Nat.mod_eq_of_lt hr]
  have hf' : function < 2 ^ 16 := by omega
  have e1 : device <<< 32 ||| function <<< 16 = (device <<< 16 + function) <<< 16 := by
    have : device <<< 32 = (device <<< 16) <<< 16 := by rw [← Nat.shiftLeft_add]
    rw [this, ← Nat.shiftLeft_or_distrib, ← Nat.shiftLeft_add_eq_or_of_lt hf']
  rw [e1, ← Nat.shiftLeft_add_eq_or_of_lt hr]
  simp only [Nat.shiftLeft_eq]
  omega

/-- `GAS::new_pci_config` is the Generic Address Structure of a PCI configuration-space
    register: space id 2, the address word packing device, function and register offset -/
theorem gas_pci_conforms (width access device function register : Nat)
    (hd : device < 256) (hf : function < 256) (hr : register < 65536) :
    conforms 12 (gasPciRows width access device function register)
      (encFields (gasPciConfig width access device function register)) = none := by
  apply conforms_of_eq
  · rfl
  · simp only [gasPciConfig, pci_addr device function register hd hf hr]
    simp [gasPciRows, gasRows, gasFields, render, Row.bytes, encFields, Fld.bytes]

end Acpi.C04
