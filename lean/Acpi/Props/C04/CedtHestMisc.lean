/-
  C04 for the CEDT, HEST, MCFG, XSDT, RQSC and GAS entry kinds: the bytes the model of the
  crate serialises are the reference encoding of Acpi.Spec.Layout (every caller value at its
  specification offset, nothing else in the structure).
-/
import Acpi.Tables.Build
import Acpi.Tables.Wf
import Acpi.Spec.Layout
import Acpi.Lemmas.Layout
import Acpi.Lemmas.LayoutCedtHestMisc
namespace Acpi.C04
open Acpi Spec CHM

/-! ## kinds without builder calls -/

/-- closing step shared by the fixed-size kinds -/
local macro "layout_simp" : tactic =>
  `(tactic| simp [entryBytes, encFields, fields, gasFields, render, Row.bytes, Fld.bytes, res, gasRows])

theorem conforms_chbs (c : EArgs) (opts : List Opt) (a : EArgs)
    (hwf : entryWf .chbs c opts = true) (h : buildEntry .chbs c opts = .ok a) :
    layoutOracle .chbs c opts (entryBytes .chbs a) = none := by
  obtain ⟨rfl, rfl, -, -⟩ := noOpts .chbs (fun _ _ => rfl) c opts a h
  show conforms 32 _ _ = none
  apply conforms_of_eq
  · rfl
  · layout_simp


theorem conforms_ecam (c : EArgs) (opts : List Opt) (a : EArgs)
    (hwf : entryWf .ecam c opts = true) (h : buildEntry .ecam c opts = .ok a) :
    layoutOracle .ecam c opts (entryBytes .ecam a) = none := by
  obtain ⟨rfl, rfl, -, -⟩ := noOpts .ecam (fun _ _ => rfl) c opts a h
  show conforms 16 _ _ = none
  apply conforms_of_eq
  · rfl
  · layout_simp
    rfl

theorem conforms_xsdtEntry (c : EArgs) (opts : List Opt) (a : EArgs)
    (hwf : entryWf .xsdtEntry c opts = true) (h : buildEntry .xsdtEntry c opts = .ok a) :
    layoutOracle .xsdtEntry c opts (entryBytes .xsdtEntry a) = none := by
  obtain ⟨rfl, rfl, -, -⟩ := noOpts .xsdtEntry (fun _ _ => rfl) c opts a h
  show conforms 8 _ _ = none
  apply conforms_of_eq
  · rfl
  · layout_simp

theorem conforms_gas (c : EArgs) (opts : List Opt) (a : EArgs)
    (hwf : entryWf .gas c opts = true) (h : buildEntry .gas c opts = .ok a) :
    layoutOracle .gas c opts (entryBytes .gas a) = none := by
  obtain ⟨rfl, rfl, -, -⟩ := noOpts .gas (fun _ _ => rfl) c opts a h
  show conforms 12 _ _ = none
  apply conforms_of_eq
  · rfl
  · layout_simp

theorem conforms_rdpas (c : EArgs) (opts : List Opt) (a : EArgs)
    (hwf : entryWf .rdpas c opts = true) (h : buildEntry .rdpas c opts = .ok a) :
    layoutOracle .rdpas c opts (entryBytes .rdpas a) = none := by
  obtain ⟨rfl, ha, hc, -⟩ := noOpts .rdpas (fun _ _ => rfl) c opts a h
  rw [ha]
  have hb : c.num 1 < 256 := by
    have := ((entryWf_iff _ _ _).mp hwf).1
    simpa [ctorWf] using this
  have hdf : c.num 2 < 32 ∧ c.num 3 < 8 := by
    simp only [ctorPanics, Bool.or_eq_false_iff, decide_eq_false_iff_not, Nat.not_le] at hc
    exact hc
  show conforms 17 _ _ = none
  apply conforms_of_eq
  · rfl
  · have h16 : leN 2 16 = [16, 0] := rfl
    simp only [init]
    layout_simp
    rw [bdf_eq_bdfOf _ _ _ hb hdf.1 hdf.2, h16]
    simp

theorem conforms_ges (c : EArgs) (opts : List Opt) (a : EArgs)
    (hwf : entryWf .ges c opts = true) (h : buildEntry .ges c opts = .ok a) :
    layoutOracle .ges c opts (entryBytes .ges a) = none := by
  obtain ⟨rfl, rfl, -, -⟩ := noOpts .ges (fun _ _ => rfl) c opts a h
  show conforms 20 _ _ = none
  apply conforms_of_eq
  · rfl
  · have hst : ∀ x y : Nat, ((if x = 1 then 2 else if 1 < x then 8 else 0) |||
          (if y = 1 then 1 else if 1 < y then 4 else 0)) =
        (if y = 1 then 1 else 0) + (if x = 1 then 2 else 0) +
          (if 1 < y then 4 else 0) + (if 1 < x then 8 else 0) := by
      intro x y
      rcases Nat.lt_trichotomy x 1 with h0 | h0 | h0 <;>
      rcases Nat.lt_trichotomy y 1 with h1 | h1 | h1 <;>
      simp [h0, h1, Nat.ne_of_gt, Nat.ne_of_lt, Nat.not_lt_of_lt] <;> omega
    simp only [init]
    layout_simp
    simp [EArgs.num, hst]

/-! ## kinds whose only builder call is `set=slot.v` -/

/-- in the branch of `applyOpt` for one kind, discard the option names that do not apply -/
local macro "applyOpt_neg" : tactic =>
  `(tactic| first
    | (unfold applyOpt applyOpt.match_1
       dsimp only [applyOpt._sparseCasesOn_1]
       simp only [dif_neg, not_false_eq_true, *])
    | (unfold applyOpt; split <;> simp_all))

theorem applyOpt_aerrp (a : EArgs) (o : Opt) :
    applyOpt .aerrp a o = if o.name = "set" then some (a.setNum (o.arg 0) (o.arg 1)) else none := by
  by_cases h : o.name = "set"
  · rw [if_pos h]; obtain ⟨nm, v⟩ := o; cases h; rfl
  · rw [if_neg h]; applyOpt_neg

theorem applyOpt_aerdev (a : EArgs) (o : Opt) :
    applyOpt .aerdev a o = if o.name = "set" then some (a.setNum (o.arg 0) (o.arg 1)) else none := by
  by_cases h : o.name = "set"
  · rw [if_pos h]; obtain ⟨nm, v⟩ := o; cases h; rfl
  · rw [if_neg h]; applyOpt_neg

theorem applyOpt_aerbr (a : EArgs) (o : Opt) :
    applyOpt .aerbr a o = if o.name = "set" then some (a.setNum (o.arg 0) (o.arg 1)) else none := by
  by_cases h : o.name = "set"
  · rw [if_pos h]; obtain ⟨nm, v⟩ := o; cases h; rfl
  · rw [if_neg h]; applyOpt_neg

theorem applyOpt_notif (a : EArgs) (o : Opt) :
    applyOpt .notif a o = if o.name = "set" then some (a.setNum (o.arg 0) (o.arg 1)) else none := by
  by_cases h : o.name = "set"
  · rw [if_pos h]; obtain ⟨nm, v⟩ := o; cases h; rfl
  · rw [if_neg h]; applyOpt_neg

theorem init_aerrp (c : EArgs) : init .aerrp c =
    { n := #[if c.num 0 ≠ 0 then 2 else c.num 1, if c.num 0 ≠ 0 then 0 else c.num 2,
             if c.num 0 ≠ 0 then 0 else c.num 3, if c.num 0 ≠ 0 then 0 else c.num 4,
             0, 0, 0, 0, 0, 0, 0, 0] } := by
  simp only [init]; split <;> simp [*]

theorem init_aerdev (c : EArgs) : init .aerdev c =
    { n := #[if c.num 0 ≠ 0 then 2 else c.num 1, if c.num 0 ≠ 0 then 0 else c.num 2,
             if c.num 0 ≠ 0 then 0 else c.num 3, if c.num 0 ≠ 0 then 0 else c.num 4,
             0, 0, 0, 0, 0, 0, 0] } := by
  simp only [init]; split <;> simp [*]

theorem init_aerbr (c : EArgs) : init .aerbr c =
    { n := #[if c.num 0 ≠ 0 then 2 else c.num 1, if c.num 0 ≠ 0 then 0 else c.num 2,
             if c.num 0 ≠ 0 then 0 else c.num 3, if c.num 0 ≠ 0 then 0 else c.num 4,
             0, 0, 0, 0, 0, 0, 0, 0, 0, 0] } := by
  simp only [init]; split <;> simp [*]

theorem conforms_aerrp (c : EArgs) (opts : List Opt) (a : EArgs)
    (hwf : entryWf .aerrp c opts = true) (h : buildEntry .aerrp c opts = .ok a) :
    layoutOracle .aerrp c opts (entryBytes .aerrp a) = none := by
  obtain ⟨-, ha, -⟩ := buildEntry_ok _ _ _ _ h
  obtain ⟨-, hall⟩ := (entryWf_iff _ _ _).mp hwf
  rw [init_aerrp] at ha
  obtain ⟨-, -, -, hnum⟩ := setOnly_final .aerrp 12 applyOpt_aerrp (by decide) opts _ a rfl hall ha
  have hun : ∀ j d, j ∉ [4, 5, 6, 7, 8, 9, 10, 11] → lastSet opts j d = d :=
    fun j d hj => lastSet_unsettable .aerrp opts hall j d hj
  show conforms 48 _ _ = none
  apply conforms_of_eq
  · rfl
  · simp [entryBytes, encFields, fields, render, Row.bytes, Fld.bytes, res, aerCommon, hnum, hun]
    simp [EArgs.num]

theorem conforms_aerdev (c : EArgs) (opts : List Opt) (a : EArgs)
    (hwf : entryWf .aerdev c opts = true) (h : buildEntry .aerdev c opts = .ok a) :
    layoutOracle .aerdev c opts (entryBytes .aerdev a) = none := by
  obtain ⟨-, ha, -⟩ := buildEntry_ok _ _ _ _ h
  obtain ⟨-, hall⟩ := (entryWf_iff _ _ _).mp hwf
  rw [init_aerdev] at ha
  obtain ⟨-, -, -, hnum⟩ := setOnly_final .aerdev 11 applyOpt_aerdev (by decide) opts _ a rfl hall ha
  have hun : ∀ j d, j ∉ [4, 5, 6, 7, 8, 9, 10] → lastSet opts j d = d :=
    fun j d hj => lastSet_unsettable .aerdev opts hall j d hj
  show conforms 44 _ _ = none
  apply conforms_of_eq
  · rfl
  · simp [entryBytes, encFields, fields, render, Row.bytes, Fld.bytes, res, aerCommon, hnum, hun]
    simp [EArgs.num]

theorem conforms_aerbr (c : EArgs) (opts : List Opt) (a : EArgs)
    (hwf : entryWf .aerbr c opts = true) (h : buildEntry .aerbr c opts = .ok a) :
    layoutOracle .aerbr c opts (entryBytes .aerbr a) = none := by
  obtain ⟨-, ha, -⟩ := buildEntry_ok _ _ _ _ h
  obtain ⟨-, hall⟩ := (entryWf_iff _ _ _).mp hwf
  rw [init_aerbr] at ha
  obtain ⟨-, -, -, hnum⟩ := setOnly_final .aerbr 14 applyOpt_aerbr (by decide) opts _ a rfl hall ha
  have hun : ∀ j d, j ∉ [4, 5, 6, 7, 8, 9, 10, 11, 12, 13] → lastSet opts j d = d :=
    fun j d hj => lastSet_unsettable .aerbr opts hall j d hj
  show conforms 56 _ _ = none
  apply conforms_of_eq
  · rfl
  · simp [entryBytes, encFields, fields, render, Row.bytes, Fld.bytes, res, aerCommon, hnum, hun]
    simp [EArgs.num]

theorem conforms_notif (c : EArgs) (opts : List Opt) (a : EArgs)
    (hwf : entryWf .notif c opts = true) (h : buildEntry .notif c opts = .ok a) :
    layoutOracle .notif c opts (entryBytes .notif a) = none := by
  obtain ⟨-, ha, -⟩ := buildEntry_ok _ _ _ _ h
  obtain ⟨-, hall⟩ := (entryWf_iff _ _ _).mp hwf
  obtain ⟨-, -, -, hnum⟩ := setOnly_final .notif 9 applyOpt_notif (by decide) opts _ a rfl hall ha
  have hun : ∀ j d, j ∉ [2, 3, 4, 5, 6, 7, 8] → lastSet opts j d = d :=
    fun j d hj => lastSet_unsettable .notif opts hall j d hj
  show conforms 28 _ _ = none
  apply conforms_of_eq
  · rfl
  · simp [entryBytes, encFields, fields, notifFields, render, Row.bytes, Fld.bytes, notifRows, hnum, hun]
    simp [EArgs.num, init]

/-! ## GHES, GHESv2: `set`, `gas`, `notif`, `gas2` -/

theorem applyOpt_ghes (a : EArgs) (o : Opt) : applyOpt .ghes a o =
    if o.name = "set" then some (a.setNum (o.arg 0) (o.arg 1)) else
    if o.name = "gas" then some (((((a.setNum 6 (o.arg 0)).setNum 7 (o.arg 1)).setNum 8 (o.arg 2)).setNum 9 (o.arg 3)).setNum 10 (o.arg 4)) else
    if o.name = "notif" then some (((((((((a.setNum 11 (o.arg 0)).setNum 12 28).setNum 13 (o.arg 1)).setNum 14 (o.arg 2)).setNum 15 (o.arg 3)).setNum 16 (o.arg 4)).setNum 17 (o.arg 5)).setNum 18 (o.arg 6)).setNum 19 (o.arg 7))
    else none := by
  by_cases h1 : o.name = "set"
  · rw [if_pos h1]; obtain ⟨nm, v⟩ := o; cases h1; rfl
  · rw [if_neg h1]
    by_cases h2 : o.name = "gas"
    · rw [if_pos h2]; obtain ⟨nm, v⟩ := o; cases h2; rfl
    · rw [if_neg h2]
      by_cases h3 : o.name = "notif"
      · rw [if_pos h3]; obtain ⟨nm, v⟩ := o; cases h3; rfl
      · rw [if_neg h3]; applyOpt_neg

/-- the value the reference layout expects in state slot `j` of a GHES builder -/
def ghesE (opts : List Opt) (j d : Nat) : Nat :=
  match j with
  | 2 => lastSet opts 2 d | 3 => lastSet opts 3 d | 4 => lastSet opts 4 d | 5 => lastSet opts 5 d
  | 6 => lastVal opts "gas" 0 d | 7 => lastVal opts "gas" 1 d | 8 => lastVal opts "gas" 2 d
  | 9 => lastVal opts "gas" 3 d | 10 => lastVal opts "gas" 4 d
  | 11 => lastVal opts "notif" 0 d
  | 12 => if has opts "notif" then 28 else d
  | 13 => lastVal opts "notif" 1 d | 14 => lastVal opts "notif" 2 d | 15 => lastVal opts "notif" 3 d
  | 16 => lastVal opts "notif" 4 d | 17 => lastVal opts "notif" 5 d | 18 => lastVal opts "notif" 6 d
  | 19 => lastVal opts "notif" 7 d
  | _ => d

theorem ghes_step (o : Opt) (s s' : EArgs) (hs : s.n.size = 20) (hwf : optWf .ghes o = true)
    (hstep : applyOpt .ghes s o = some s') (os : List Opt) :
    s'.n.size = 20 ∧ ∀ j, j < 20 → ghesE os j (s'.num j) = ghesE (o :: os) j (s.num j) := by
  rw [applyOpt_ghes] at hstep
  by_cases h1 : o.name = "set"
  · rw [if_pos h1] at hstep; obtain rfl := Option.some.inj hstep
    have hmem := optWf_set _ _ hwf h1
    have hlt : o.arg 0 < 20 := by
      simp only [settableSlots, List.mem_cons, List.not_mem_nil, or_false] at hmem; omega
    have hne : ∀ j, j ∉ [2, 3, 4, 5] → ¬ o.arg 0 = j := fun j hj he => hj (he ▸ hmem)
    refine ⟨by simpa using hs, ?_⟩
    simp only [Nat.forall_lt_succ_right, Nat.not_lt_zero, false_imp_iff, implies_true, true_and]
    repeat' apply And.intro
    all_goals simp [ghesE, lastSet_cons, lastVal_cons, has_cons, num_setNum, hs, h1, hlt, hne]
  · rw [if_neg h1] at hstep
    by_cases h2 : o.name = "gas"
    · rw [if_pos h2] at hstep; obtain rfl := Option.some.inj hstep
      refine ⟨by simpa using hs, ?_⟩
      simp only [Nat.forall_lt_succ_right, Nat.not_lt_zero, false_imp_iff, implies_true, true_and]
      repeat' apply And.intro
      all_goals simp [ghesE, lastSet_cons, lastVal_cons, has_cons, num_setNum, hs, h2]
    · rw [if_neg h2] at hstep
      by_cases h3 : o.name = "notif"
      · rw [if_pos h3] at hstep; obtain rfl := Option.some.inj hstep
        refine ⟨by simpa using hs, ?_⟩
        simp only [Nat.forall_lt_succ_right, Nat.not_lt_zero, false_imp_iff, implies_true, true_and]
        repeat' apply And.intro
        all_goals simp [ghesE, lastSet_cons, lastVal_cons, has_cons, num_setNum, hs, h3]
      · rw [if_neg h3] at hstep; cases hstep

theorem ghes_final (opts : List Opt) (s a : EArgs) (hs : s.n.size = 20)
    (hwf : opts.all (optWf .ghes) = true) (h : applyOpts .ghes s opts = .ok a) :
    ∀ j, j < 20 → a.num j = ghesE opts j (s.num j) := by
  refine applyOpts_ind .ghes (fun s => s.n.size = 20)
    (fun opts s a => ∀ j, j < 20 → a.num j = ghesE opts j (s.num j)) ?_ ?_ opts s a hs hwf h
  · intro s _ j hj
    revert j hj
    simp only [Nat.forall_lt_succ_right, Nat.not_lt_zero, false_imp_iff, implies_true, true_and]
    simp [ghesE]
  · intro o s s' hs hwf hstep
    have h2 := ghes_step o s s' hs hwf hstep
    refine ⟨(h2 []).1, ?_⟩
    intro os a hr j hj
    rw [hr j hj, (h2 os).2 j hj]

theorem conforms_ghes (c : EArgs) (opts : List Opt) (a : EArgs)
    (hwf : entryWf .ghes c opts = true) (h : buildEntry .ghes c opts = .ok a) :
    layoutOracle .ghes c opts (entryBytes .ghes a) = none := by
  obtain ⟨-, ha, -⟩ := buildEntry_ok _ _ _ _ h
  obtain ⟨-, hall⟩ := (entryWf_iff _ _ _).mp hwf
  have hnum := ghes_final opts _ a rfl hall ha
  show conforms 64 _ _ = none
  apply conforms_of_eq
  · rfl
  · simp [entryBytes, encFields, fields, gasFields, notifFields, render, Row.bytes, Fld.bytes,
      ghesCommon, gasRows, notifRows, hnum]
    simp [ghesE, EArgs.num, init]


theorem applyOpt_ghesv2 (a : EArgs) (o : Opt) : applyOpt .ghesv2 a o =
    if o.name = "set" then some (a.setNum (o.arg 0) (o.arg 1)) else
    if o.name = "gas" then some (((((a.setNum 6 (o.arg 0)).setNum 7 (o.arg 1)).setNum 8 (o.arg 2)).setNum 9 (o.arg 3)).setNum 10 (o.arg 4)) else
    if o.name = "notif" then some (((((((((a.setNum 11 (o.arg 0)).setNum 12 28).setNum 13 (o.arg 1)).setNum 14 (o.arg 2)).setNum 15 (o.arg 3)).setNum 16 (o.arg 4)).setNum 17 (o.arg 5)).setNum 18 (o.arg 6)).setNum 19 (o.arg 7)) else
    if o.name = "gas2" then some (((((a.setNum 20 (o.arg 0)).setNum 21 (o.arg 1)).setNum 22 (o.arg 2)).setNum 23 (o.arg 3)).setNum 24 (o.arg 4))
    else none := by
  by_cases h1 : o.name = "set"
  · rw [if_pos h1]; obtain ⟨nm, v⟩ := o; cases h1; rfl
  · rw [if_neg h1]
    by_cases h2 : o.name = "gas"
    · rw [if_pos h2]; obtain ⟨nm, v⟩ := o; cases h2; rfl
    · rw [if_neg h2]
      by_cases h3 : o.name = "notif"
      · rw [if_pos h3]; obtain ⟨nm, v⟩ := o; cases h3; rfl
      · rw [if_neg h3]
        by_cases h4 : o.name = "gas2"
        · rw [if_pos h4]; obtain ⟨nm, v⟩ := o; cases h4; rfl
        · rw [if_neg h4]; applyOpt_neg

/-- the value the reference layout expects in state slot `j` of a GHESv2 builder -/
def ghesv2E (opts : List Opt) (j d : Nat) : Nat :=
  match j with
  | 20 => lastVal opts "gas2" 0 d | 21 => lastVal opts "gas2" 1 d | 22 => lastVal opts "gas2" 2 d
  | 23 => lastVal opts "gas2" 3 d | 24 => lastVal opts "gas2" 4 d
  | 25 => lastSet opts 25 d | 26 => lastSet opts 26 d
  | j => ghesE opts j d

local macro "slots27" : tactic =>
  `(tactic| (simp only [Nat.forall_lt_succ_right, Nat.not_lt_zero, false_imp_iff, implies_true, true_and]
             repeat' apply And.intro))

theorem ghesv2_step (o : Opt) (s s' : EArgs) (hs : s.n.size = 27) (hwf : optWf .ghesv2 o = true)
    (hstep : applyOpt .ghesv2 s o = some s') (os : List Opt) :
    s'.n.size = 27 ∧ ∀ j, j < 27 → ghesv2E os j (s'.num j) = ghesv2E (o :: os) j (s.num j) := by
  rw [applyOpt_ghesv2] at hstep
  by_cases h1 : o.name = "set"
  · rw [if_pos h1] at hstep; obtain rfl := Option.some.inj hstep
    have hmem := optWf_set _ _ hwf h1
    have hlt : o.arg 0 < 27 := by
      simp only [settableSlots, List.mem_cons, List.not_mem_nil, or_false] at hmem; omega
    have hne : ∀ j, j ∉ [2, 3, 4, 5, 25, 26] → ¬ o.arg 0 = j := fun j hj he => hj (he ▸ hmem)
    refine ⟨by simpa using hs, ?_⟩
    slots27
    all_goals simp [ghesv2E, ghesE, lastSet_cons, lastVal_cons, has_cons, num_setNum, hs, h1, hlt, hne]
  · rw [if_neg h1] at hstep
    by_cases h2 : o.name = "gas"
    · rw [if_pos h2] at hstep; obtain rfl := Option.some.inj hstep
      refine ⟨by simpa using hs, ?_⟩
      slots27
      all_goals simp [ghesv2E, ghesE, lastSet_cons, lastVal_cons, has_cons, num_setNum, hs, h2]
    · rw [if_neg h2] at hstep
      by_cases h3 : o.name = "notif"
      · rw [if_pos h3] at hstep; obtain rfl := Option.some.inj hstep
        refine ⟨by simpa using hs, ?_⟩
        slots27
        all_goals simp [ghesv2E, ghesE, lastSet_cons, lastVal_cons, has_cons, num_setNum, hs, h3]
      · rw [if_neg h3] at hstep
        by_cases h4 : o.name = "gas2"
        · rw [if_pos h4] at hstep; obtain rfl := Option.some.inj hstep
          refine ⟨by simpa using hs, ?_⟩
          slots27
          all_goals simp [ghesv2E, ghesE, lastSet_cons, lastVal_cons, has_cons, num_setNum, hs, h4]
        · rw [if_neg h4] at hstep; cases hstep

theorem ghesv2_final (opts : List Opt) (s a : EArgs) (hs : s.n.size = 27)
    (hwf : opts.all (optWf .ghesv2) = true) (h : applyOpts .ghesv2 s opts = .ok a) :
    ∀ j, j < 27 → a.num j = ghesv2E opts j (s.num j) := by
  refine applyOpts_ind .ghesv2 (fun s => s.n.size = 27)
    (fun opts s a => ∀ j, j < 27 → a.num j = ghesv2E opts j (s.num j)) ?_ ?_ opts s a hs hwf h
  · intro s _ j hj
    revert j hj
    simp only [Nat.forall_lt_succ_right, Nat.not_lt_zero, false_imp_iff, implies_true, true_and]
    simp [ghesv2E, ghesE]
  · intro o s s' hs hwf hstep
    have h2 := ghesv2_step o s s' hs hwf hstep
    refine ⟨(h2 []).1, ?_⟩
    intro os a hr j hj
    rw [hr j hj, (h2 os).2 j hj]

theorem conforms_ghesv2 (c : EArgs) (opts : List Opt) (a : EArgs)
    (hwf : entryWf .ghesv2 c opts = true) (h : buildEntry .ghesv2 c opts = .ok a) :
    layoutOracle .ghesv2 c opts (entryBytes .ghesv2 a) = none := by
  obtain ⟨-, ha, -⟩ := buildEntry_ok _ _ _ _ h
  obtain ⟨-, hall⟩ := (entryWf_iff _ _ _).mp hwf
  have hnum := ghesv2_final opts _ a rfl hall ha
  show conforms 92 _ _ = none
  apply conforms_of_eq
  · rfl
  · simp [entryBytes, encFields, fields, gasFields, notifFields, render, Row.bytes, Fld.bytes,
      ghesCommon, gasRows, notifRows, hnum]
    simp [ghesv2E, ghesE, EArgs.num, init]

/-! ## CXIMS (pushed bitmaps) and CFMWS (restriction flags, pushed targets) -/

theorem applyOpt_cxims (a : EArgs) (o : Opt) : applyOpt .cxims a o =
    if o.name = "map" then some { a with s := [a.s.getD 0 [] ++ [o.arg 0]] } else none := by
  by_cases h : o.name = "map"
  · rw [if_pos h]; obtain ⟨nm, v⟩ := o; cases h; rfl
  · rw [if_neg h]; applyOpt_neg

theorem cxims_final (opts : List Opt) (s a : EArgs)
    (hwf : opts.all (optWf .cxims) = true) (h : applyOpts .cxims s opts = .ok a) :
    a.n = s.n ∧ a.s.getD 0 [] = s.s.getD 0 [] ++ pushed opts "map" := by
  refine applyOpts_ind .cxims (fun _ => True)
    (fun opts s a => a.n = s.n ∧ a.s.getD 0 [] = s.s.getD 0 [] ++ pushed opts "map") ?_ ?_ opts s a trivial hwf h
  · intro s _; simp
  · intro o s s' _ _ hstep
    rw [applyOpt_cxims] at hstep
    by_cases hn : o.name = "map"
    · rw [if_pos hn] at hstep; obtain rfl := Option.some.inj hstep
      refine ⟨trivial, ?_⟩
      intro os a ⟨h1, h2⟩
      refine ⟨h1, ?_⟩
      rw [h2, pushed_cons, if_pos hn]
      simp
    · rw [if_neg hn] at hstep; cases hstep

theorem conforms_cxims (c : EArgs) (opts : List Opt) (a : EArgs)
    (hwf : entryWf .cxims c opts = true) (h : buildEntry .cxims c opts = .ok a) :
    layoutOracle .cxims c opts (entryBytes .cxims a) = none := by
  obtain ⟨-, ha, -⟩ := buildEntry_ok _ _ _ _ h
  obtain ⟨-, hall⟩ := (entryWf_iff _ _ _).mp hwf
  obtain ⟨hn, hs⟩ := cxims_final opts _ a hall ha
  have hs' : a.s.getD 0 [] = pushed opts "map" := by rw [hs]; simp [init]
  have hn0 : a.num 0 = c.num 0 := by simp [EArgs.num, hn, init]
  show conforms (8 + 8 * (pushed opts "map").length) (_ ++ arrayRows 8 8 8 (pushed opts "map")) _ = none
  apply conforms_of_eq
  · simp only [List.cons_append, List.nil_append, tilesFrom, Row.off, Row.width, res, length_zeros,
      beq_self_eq_true, Bool.true_and, Nat.zero_add, Nat.reduceAdd]
    exact tilesFrom_arrayRows 8 8 _ _ rfl
  · rw [render_append, render_arrayRows]
    simp only [entryBytes, fields, hs', hn0]
    rw [encFields_append, encFields_map_num]
    simp [encFields, render, Row.bytes, Fld.bytes, res]

theorem applyOpt_cfmws (a : EArgs) (o : Opt) : applyOpt .cfmws a o =
    if o.name = "t2" then some (a.orNum 6 1) else
    if o.name = "t3" then some (a.orNum 6 2) else
    if o.name = "vol" then some (a.orNum 6 4) else
    if o.name = "pers" then some (a.orNum 6 8) else
    if o.name = "fixed" then some (a.orNum 6 16) else
    if o.name = "target" then some { a with b := a.b.push (leN 4 (o.arg 0)) } else none := by
  by_cases h1 : o.name = "t2"
  · rw [if_pos h1]; obtain ⟨nm, v⟩ := o; cases h1; rfl
  rw [if_neg h1]
  by_cases h2 : o.name = "t3"
  · rw [if_pos h2]; obtain ⟨nm, v⟩ := o; cases h2; rfl
  rw [if_neg h2]
  by_cases h3 : o.name = "vol"
  · rw [if_pos h3]; obtain ⟨nm, v⟩ := o; cases h3; rfl
  rw [if_neg h3]
  by_cases h4 : o.name = "pers"
  · rw [if_pos h4]; obtain ⟨nm, v⟩ := o; cases h4; rfl
  rw [if_neg h4]
  by_cases h5 : o.name = "fixed"
  · rw [if_pos h5]; obtain ⟨nm, v⟩ := o; cases h5; rfl
  rw [if_neg h5]
  by_cases h6 : o.name = "target"
  · rw [if_pos h6]; obtain ⟨nm, v⟩ := o; cases h6; rfl
  rw [if_neg h6]
  applyOpt_neg

/-- the restriction bits of the options invoked, as the crate accumulates them -/
def cfmwsF (opts : List Opt) : Nat :=
  bit opts "t2" 1 ||| bit opts "t3" 2 ||| bit opts "vol" 4 ||| bit opts "pers" 8 ||| bit opts "fixed" 16

theorem cfmwsF_eq_sum (opts : List Opt) : cfmwsF opts =
    bit opts "t2" 1 + bit opts "t3" 2 + bit opts "vol" 4 + bit opts "pers" 8 + bit opts "fixed" 16 := by
  have : ∀ h1 h2 h3 h4 h5 : Bool,
      ((if h1 then 1 else 0) ||| (if h2 then 2 else 0) ||| (if h3 then 4 else 0) ||| (if h4 then 8 else 0) |||
        (if h5 then 16 else 0) : Nat) =
      (if h1 then 1 else 0) + (if h2 then 2 else 0) + (if h3 then 4 else 0) + (if h4 then 8 else 0) +
        (if h5 then 16 else 0) := by decide
  exact this _ _ _ _ _

def cfmwsR (opts : List Opt) (s a : EArgs) : Prop :=
  a.n.size = 7 ∧ a.b.toList = s.b.toList ++ (pushed opts "target").map (leN 4) ∧
    (∀ j, j ≠ 6 → a.num j = s.num j) ∧ a.num 6 = s.num 6 ||| cfmwsF opts

theorem cfmws_flag (o : Opt) (os : List Opt) (s : EArgs) (hs : s.n.size = 7) (b : Nat) (nm : String)
    (hn : o.name = nm) (hnt : nm ≠ "target")
    (hF : ∀ x, (x ||| b) ||| cfmwsF os = x ||| cfmwsF (o :: os)) :
    ∀ a, cfmwsR os (s.orNum 6 b) a → cfmwsR (o :: os) s a := by
  intro a ⟨h1, h2, h3, h4⟩
  refine ⟨h1, ?_, ?_, ?_⟩
  · rw [h2, pushed_cons, if_neg (by rw [hn]; exact hnt)]; rfl
  · intro j hj
    rw [h3 j hj, num_orNum, if_neg (by omega)]
  · rw [h4, num_orNum, if_pos ⟨rfl, by omega⟩, hF]

theorem cfmws_final (opts : List Opt) (s a : EArgs) (hs : s.n.size = 7)
    (hwf : opts.all (optWf .cfmws) = true) (h : applyOpts .cfmws s opts = .ok a) : cfmwsR opts s a := by
  refine applyOpts_ind .cfmws (fun s => s.n.size = 7) cfmwsR ?_ ?_ opts s a hs hwf h
  · intro s hs
    exact ⟨hs, by simp, fun _ _ => rfl, by simp [cfmwsF, bit]⟩
  · intro o s s' hs _ hstep
    rw [applyOpt_cfmws] at hstep
    by_cases h1 : o.name = "t2"
    · rw [if_pos h1] at hstep; obtain rfl := Option.some.inj hstep
      refine ⟨by simpa using hs, fun os => cfmws_flag o os s hs 1 "t2" h1 (by decide) ?_⟩
      intro x
      simp only [cfmwsF, bit, has_cons, h1]
      cases has os "t2" <;> simp <;> ac_rfl
    rw [if_neg h1] at hstep
    by_cases h2 : o.name = "t3"
    · rw [if_pos h2] at hstep; obtain rfl := Option.some.inj hstep
      refine ⟨by simpa using hs, fun os => cfmws_flag o os s hs 2 "t3" h2 (by decide) ?_⟩
      intro x
      simp only [cfmwsF, bit, has_cons, h2]
      cases has os "t3" <;> simp <;> ac_rfl
    rw [if_neg h2] at hstep
    by_cases h3 : o.name = "vol"
    · rw [if_pos h3] at hstep; obtain rfl := Option.some.inj hstep
      refine ⟨by simpa using hs, fun os => cfmws_flag o os s hs 4 "vol" h3 (by decide) ?_⟩
      intro x
      simp only [cfmwsF, bit, has_cons, h3]
      cases has os "vol" <;> simp <;> ac_rfl
    rw [if_neg h3] at hstep
    by_cases h4 : o.name = "pers"
    · rw [if_pos h4] at hstep; obtain rfl := Option.some.inj hstep
      refine ⟨by simpa using hs, fun os => cfmws_flag o os s hs 8 "pers" h4 (by decide) ?_⟩
      intro x
      simp only [cfmwsF, bit, has_cons, h4]
      cases has os "pers" <;> simp <;> ac_rfl
    rw [if_neg h4] at hstep
    by_cases h5 : o.name = "fixed"
    · rw [if_pos h5] at hstep; obtain rfl := Option.some.inj hstep
      refine ⟨by simpa using hs, fun os => cfmws_flag o os s hs 16 "fixed" h5 (by decide) ?_⟩
      intro x
      simp only [cfmwsF, bit, has_cons, h5]
      cases has os "fixed" <;> simp <;> ac_rfl
    rw [if_neg h5] at hstep
    by_cases h6 : o.name = "target"
    · rw [if_pos h6] at hstep; obtain rfl := Option.some.inj hstep
      refine ⟨hs, ?_⟩
      intro os a ⟨r1, r2, r3, r4⟩
      refine ⟨r1, ?_, r3, ?_⟩
      · rw [r2, pushed_cons, if_pos h6]; simp
      · rw [r4]
        show s.num 6 ||| cfmwsF os = s.num 6 ||| cfmwsF (o :: os)
        simp [cfmwsF, bit, has_cons, h6]
    · rw [if_neg h6] at hstep; cases hstep

theorem conforms_cfmws (c : EArgs) (opts : List Opt) (a : EArgs)
    (hwf : entryWf .cfmws c opts = true) (h : buildEntry .cfmws c opts = .ok a) :
    layoutOracle .cfmws c opts (entryBytes .cfmws a) = none := by
  obtain ⟨-, ha, hp⟩ := buildEntry_ok _ _ _ _ h
  obtain ⟨-, hall⟩ := (entryWf_iff _ _ _).mp hwf
  obtain ⟨-, hb, hn, hf⟩ := cfmws_final opts _ a rfl hall ha
  have hb' : a.b.toList = (pushed opts "target").map (leN 4) := by rw [hb]; simp [init]
  have hways : numWays (a.num 4) = (pushed opts "target").length := by
    have : numWays (a.num 4) = a.b.size := by simpa [panics] using hp
    rw [this, ← Array.length_toList, hb', List.length_map]
  have hf' : a.num 6 = bit opts "t2" 1 + bit opts "t3" 2 + bit opts "vol" 4 + bit opts "pers" 8 +
      bit opts "fixed" 16 := by
    rw [hf, ← cfmwsF_eq_sum]; simp [init, EArgs.num]
  have e0 : a.num 0 = c.num 0 := hn 0 (by decide)
  have e1 : a.num 1 = c.num 1 := hn 1 (by decide)
  have e2 : a.num 2 = c.num 2 := hn 2 (by decide)
  have e3 : a.num 3 = c.num 3 := hn 3 (by decide)
  have e4 : a.num 4 = c.num 4 := hn 4 (by decide)
  have e5 : a.num 5 = c.num 5 := hn 5 (by decide)
  rw [e4] at hways
  show conforms (36 + 4 * (pushed opts "target").length) (_ ++ arrayRows 36 4 4 (pushed opts "target")) _ = none
  apply conforms_of_eq
  · simp only [List.cons_append, List.nil_append, tilesFrom, Row.off, Row.width, res, length_zeros,
      beq_self_eq_true, Bool.true_and, Nat.zero_add, Nat.reduceAdd]
    exact tilesFrom_arrayRows 36 4 _ _ rfl
  · rw [render_append, render_arrayRows]
    simp only [entryBytes, fields, hways, hb', hf', e0, e1, e2, e3, e4, e5]
    rw [encFields_append, encFields_map_raw]
    simp [encFields, render, Row.bytes, Fld.bytes, res, List.flatMap_def]

/-! ## RQSC QoS controller (resources of variable size) -/

/-- what the Rust types guarantee about one RQSC resource `[rtype, rflags, idkind, a, b]`: for
    the cache, memory and PCI identifiers, Resource ID 1 is a `u32` -/
def qosResWf (t : List Nat) : Prop :=
  (t.getD 2 0 = 0 ∨ t.getD 2 0 = 1 ∨ t.getD 2 0 = 3) → t.getD 3 0 < 2 ^ 32

theorem qosRes_cases (x : Nat) : x = 0 ∨ x = 1 ∨ x = 2 ∨ x = 3 ∨ ∃ m, x = m + 4 := by
  rcases x with _ | _ | _ | _ | m
  · simp
  · simp
  · simp
  · simp
  · right; right; right; right; exact ⟨m, rfl⟩

theorem leN8_of_u32 (v : Nat) (h : v < 2 ^ 32) : leN 8 v = leN 4 v ++ zeros 4 :=
  leN_of_lt 4 4 v (by have : (256 : Nat) ^ 4 = 2 ^ 32 := by decide
                      omega)

theorem qosRes_size (o : Nat) (t : List Nat) (b : Bytes) : (qosResRows o t b).1 = qosResLen t b := by
  rcases qosRes_cases (t.getD 2 0) with h | h | h | h | ⟨m, h⟩ <;>
    simp only [qosResRows, qosResLen, qosResPayload, h] <;>
    simp [-List.getD_eq_getElem?_getD, fieldsLen, Fld.width] <;> omega

theorem qosRes_tiles (o : Nat) (t : List Nat) (b : Bytes) :
    tilesFrom o (o + qosResLen t b) (qosResRows o t b).2 = true := by
  rcases qosRes_cases (t.getD 2 0) with h | h | h | h | ⟨m, h⟩ <;>
    simp only [qosResRows, qosResLen, qosResPayload, h] <;>
    simp [-List.getD_eq_getElem?_getD, fieldsLen, Fld.width, tilesFrom, Row.off, Row.width, res] <;>
    omega

theorem qosRes_render (o : Nat) (t : List Nat) (b : Bytes) (hw : qosResWf t) :
    render (qosResRows o t b).2 = encFields (qosResFields t b) := by
  unfold qosResWf at hw
  rcases qosRes_cases (t.getD 2 0) with h | h | h | h | ⟨m, h⟩
  · have := leN8_of_u32 _ (hw (by rw [h]; decide))
    simp only [qosResRows, qosResFields, qosResLen, qosResPayload, h]
    simp [-List.getD_eq_getElem?_getD, fieldsLen, Fld.width, render, encFields, Row.bytes, Fld.bytes, res, this]
  · have := leN8_of_u32 _ (hw (by rw [h]; decide))
    simp only [qosResRows, qosResFields, qosResLen, qosResPayload, h]
    simp [-List.getD_eq_getElem?_getD, fieldsLen, Fld.width, render, encFields, Row.bytes, Fld.bytes, res, this]
  · simp only [qosResRows, qosResFields, qosResLen, qosResPayload, h]
    simp [-List.getD_eq_getElem?_getD, fieldsLen, Fld.width, render, encFields, Row.bytes, Fld.bytes, res]
  · have := leN8_of_u32 _ (hw (by rw [h]; decide))
    simp only [qosResRows, qosResFields, qosResLen, qosResPayload, h]
    simp [-List.getD_eq_getElem?_getD, fieldsLen, Fld.width, render, encFields, Row.bytes, Fld.bytes, res, this]
  · simp only [qosResRows, qosResFields, qosResLen, qosResPayload, h]
    simp [-List.getD_eq_getElem?_getD, fieldsLen, Fld.width, render, encFields, Row.bytes, Fld.bytes, res]
    congr 1; omega

/-- the resource rows of an RQSC controller, resource after resource from offset `p` -/
def qosRowsFrom (T : Nat → List Nat) (B : Nat → Bytes) : Nat → List Nat → List Row
  | _, [] => []
  | p, i :: l => (qosResRows p (T i) (B i)).2 ++ qosRowsFrom T B (p + qosResLen (T i) (B i)) l

theorem qos_fold (T : Nat → List Nat) (B : Nat → Bytes) (l : List Nat) (p : Nat) (pre : List Row) :
    l.foldl (fun (acc : Nat × List Row) i =>
      let (sz, rs) := qosResRows acc.1 (T i) (B i)
      (acc.1 + sz, acc.2 ++ rs)) (p, pre) =
    (p + (l.map fun i => qosResLen (T i) (B i)).sum, pre ++ qosRowsFrom T B p l) := by
  induction l generalizing p pre with
  | nil => simp [qosRowsFrom]
  | cons i l ih =>
    simp only [List.foldl_cons, List.map_cons, List.sum_cons, qosRowsFrom]
    have e : qosResRows p (T i) (B i) = (qosResLen (T i) (B i), (qosResRows p (T i) (B i)).2) := by
      rw [← qosRes_size p]
    rw [e]
    simp only []
    rw [ih]
    simp [Nat.add_assoc]

theorem qosRowsFrom_tiles (T : Nat → List Nat) (B : Nat → Bytes) (l : List Nat) (p : Nat) :
    tilesFrom p (p + (l.map fun i => qosResLen (T i) (B i)).sum) (qosRowsFrom T B p l) = true := by
  induction l generalizing p with
  | nil => simp [qosRowsFrom, tilesFrom]
  | cons i l ih =>
    simp only [List.map_cons, List.sum_cons, qosRowsFrom]
    apply tilesFrom_append _ _ _ _ _ (qosRes_tiles p (T i) (B i))
    rw [← Nat.add_assoc]
    exact ih _

theorem qosRowsFrom_render (T : Nat → List Nat) (B : Nat → Bytes) (l : List Nat) (p : Nat)
    (hw : ∀ i ∈ l, qosResWf (T i)) :
    render (qosRowsFrom T B p l) = encFields (l.flatMap fun i => qosResFields (T i) (B i)) := by
  induction l generalizing p with
  | nil => rfl
  | cons i l ih =>
    simp only [qosRowsFrom, List.flatMap_cons]
    rw [render_append, qosRes_render _ _ _ (hw i List.mem_cons_self),
      ih _ (fun j hj => hw j (List.mem_cons_of_mem _ hj))]
    simp [encFields]

/-- what the Rust types guarantee about the resources of an RQSC controller (an extra hypothesis
    of `conforms_qosctrl`: `ctorWf .qosctrl` does not state it) -/
def qosCtorWf (c : EArgs) : Prop := ∀ i, i < c.s.length → qosResWf (c.s.getD i [])

theorem rows_qosctrl (c : EArgs) (opts : List Opt) :
    rows .qosctrl c opts =
      some (28 + ((List.range c.s.length).map fun i => qosResLen (c.s.getD i []) (c.blob i)).sum,
        [.num 0 1 (c.num 0), res 1 1,
          .num 2 2 (28 + ((List.range c.s.length).map fun i => qosResLen (c.s.getD i []) (c.blob i)).sum)] ++
        gasRows 4 (c.num 1) (c.num 2) (c.num 3) (c.num 4) (c.num 5) ++
        [.num 16 4 (c.num 6), .num 20 4 (c.num 7), .num 24 2 (c.num 8), .num 26 2 c.s.length] ++
        qosRowsFrom (fun i => c.s.getD i []) (fun i => c.blob i) 28 (List.range c.s.length)) := by
  unfold rows
  simp only []
  rw [qos_fold (fun i => c.s.getD i []) (fun i => c.blob i)]
  simp

/-- EXTRA HYPOTHESIS `hres` (not part of `entryWf`): Resource ID 1 of cache, memory and PCI
    resources is a `u32` in the crate; the reference layout places an 8-byte value there. -/
theorem conforms_qosctrl (c : EArgs) (opts : List Opt) (a : EArgs)
    (hwf : entryWf .qosctrl c opts = true) (hres : qosCtorWf c) (h : buildEntry .qosctrl c opts = .ok a) :
    layoutOracle .qosctrl c opts (entryBytes .qosctrl a) = none := by
  obtain ⟨rfl, ha, -, -⟩ := noOpts .qosctrl (fun _ _ => rfl) c opts a h
  rw [ha]
  unfold layoutOracle
  rw [rows_qosctrl]
  simp only []
  apply conforms_of_eq
  · simp only [List.cons_append, List.nil_append, gasRows, tilesFrom, Row.off, Row.width, res, length_zeros,
      beq_self_eq_true, Bool.true_and, Nat.zero_add, Nat.reduceAdd]
    exact qosRowsFrom_tiles _ _ _ 28
  · rw [render_append, qosRowsFrom_render _ _ _ _ (fun i hi => hres i (List.mem_range.mp hi))]
    simp only [init, entryBytes, fields]
    rw [encFields_append]
    simp [encFields, render, Row.bytes, Fld.bytes, res, gasFields, gasRows]

/-- `hres` cannot be dropped: a cache resource whose Resource ID 1 is `2^32` meets `entryWf`,
    builds, and the model's bytes (the `u32` cast drops the value) differ from the reference
    encoding (an 8-byte field holding `2^32`). -/
def qosctrlCex : EArgs := { n := #[0, 0, 0, 0, 0, 0, 0, 0, 0], b := #[[]], s := [[0, 0, 0, 4294967296, 0]] }

theorem qosctrl_needs_hres : entryWf .qosctrl qosctrlCex [] = true ∧
    buildEntry .qosctrl qosctrlCex [] = .ok qosctrlCex ∧
    (layoutOracle .qosctrl qosctrlCex [] (entryBytes .qosctrl qosctrlCex)).isSome = true :=
  ⟨by decide, by rfl, by decide⟩

end Acpi.C04
