/-
  C04 (with C11 option semantics and C12 HMAT matrix) for the SRAT, HMAT and PPTT entry kinds:
  mem, gi, rintcAff, mpd, loc, msc, proc, cache.
-/
import Acpi.Tables.Build
import Acpi.Tables.Wf
import Acpi.Spec.Layout
import Acpi.Lemmas.Layout
import Acpi.Lemmas.LayoutSratHmatPptt
import Acpi.Lemmas.ProcFlags
namespace Acpi.C04
open Acpi Spec SHP

/-! ### mpd (HMAT memory proximity domain attributes): no builder calls -/

theorem applyOpts_mpd (s : EArgs) (opts : List Opt) (a : EArgs)
    (h : applyOpts .mpd s opts = .ok a) : opts = [] ∧ a = s := by
  cases opts with
  | nil => simp [applyOpts] at h; exact ⟨rfl, h.symm⟩
  | cons o os =>
    have : applyOpt .mpd s o = none := by unfold applyOpt; split <;> simp_all
    simp [applyOpts, this] at h

theorem conforms_mpd (c : EArgs) (opts : List Opt) (a : EArgs)
    (hwf : entryWf .mpd c opts = true) (h : buildEntry .mpd c opts = .ok a) :
    layoutOracle .mpd c opts (entryBytes .mpd a) = none := by
  have _ := hwf
  obtain ⟨_, ha, _⟩ := buildEntry_ok _ _ _ _ h
  obtain ⟨rfl, rfl⟩ := applyOpts_mpd _ _ _ ha
  unfold layoutOracle rows
  simp only []
  apply conforms_of_eq
  · simp [tilesFrom, Row.off, Row.width, res]
  · simp [entryBytes, encFields, fields, render, Row.bytes, Fld.bytes, res, leN_zero]

/-! ### mem (SRAT memory affinity): flag options en, hp, nv -/

theorem applyOpt_mem (a : EArgs) (o : Opt) :
    applyOpt .mem a o =
      if o.name = "en" then some (a.orNum 3 1) else if o.name = "hp" then some (a.orNum 3 2)
      else if o.name = "nv" then some (a.orNum 3 4) else none := by
  unfold applyOpt
  split <;> simp_all

theorem final_mem (c : EArgs) : ∀ opts a, applyOpts .mem (init .mem c) opts = .ok a →
    a = { n := #[c.num 0, c.num 1, c.num 2, bit opts "en" 1 ||| bit opts "hp" 2 ||| bit opts "nv" 4] } := by
  intro opts
  induction opts using snoc_induction with
  | hnil =>
    intro a h
    simp only [applyOpts, Except.ok.injEq] at h
    subst h
    rfl
  | hsnoc os o ih =>
    intro a h
    rw [applyOpts_snoc] at h
    obtain ⟨a', h1, h2⟩ := h
    have := ih a' h1
    subst this
    rw [applyOpt_mem] at h2
    simp only [bit_snoc]
    repeat' split at h2
    all_goals first | (simp at h2; done) | skip
    all_goals simp only [Option.some.injEq] at h2; subst h2
    all_goals simp [*, EArgs.orNum, EArgs.setNum, EArgs.num]
    · rcases bit_cases os "en" 1 with e | e <;> rw [e] <;> or_ac
    · rcases bit_cases os "hp" 2 with e | e <;> rw [e] <;> or_ac
    · rcases bit_cases os "nv" 4 with e | e <;> rw [e] <;> or_ac

theorem bits_mem (os : List Opt) :
    bit os "en" 1 ||| bit os "hp" 2 ||| bit os "nv" 4 = bit os "en" 1 + bit os "hp" 2 + bit os "nv" 4 := by
  unfold bit
  cases has os "en" <;> cases has os "hp" <;> cases has os "nv" <;> rfl

theorem conforms_mem (c : EArgs) (opts : List Opt) (a : EArgs)
    (hwf : entryWf .mem c opts = true) (h : buildEntry .mem c opts = .ok a) :
    layoutOracle .mem c opts (entryBytes .mem a) = none := by
  have _ := hwf
  obtain ⟨_, ha, _⟩ := buildEntry_ok _ _ _ _ h
  have := final_mem _ _ _ ha
  subst this
  unfold layoutOracle rows
  simp only []
  apply conforms_of_eq
  · simp [tilesFrom, Row.off, Row.width, res]
  · simp [entryBytes, encFields, fields, render, Row.bytes, Fld.bytes, res, leN_zero, EArgs.num, bits_mem,
      leN8_split]

/-! ### gi (SRAT generic initiator affinity): flag options en, arch -/

theorem applyOpt_gi (a : EArgs) (o : Opt) :
    applyOpt .gi a o =
      if o.name = "en" then some (a.orNum 6 1) else if o.name = "arch" then some (a.orNum 6 2) else none := by
  unfold applyOpt
  split <;> simp_all

theorem final_gi (c : EArgs) : ∀ opts a, applyOpts .gi (init .gi c) opts = .ok a →
    a = { n := #[c.num 0, c.num 1, c.num 2, c.num 3, c.num 4, c.num 5, bit opts "en" 1 ||| bit opts "arch" 2],
          b := c.b, s := c.s } := by
  intro opts
  induction opts using snoc_induction with
  | hnil =>
    intro a h
    simp only [applyOpts, Except.ok.injEq] at h
    subst h
    rfl
  | hsnoc os o ih =>
    intro a h
    rw [applyOpts_snoc] at h
    obtain ⟨a', h1, h2⟩ := h
    have := ih a' h1
    subst this
    rw [applyOpt_gi] at h2
    simp only [bit_snoc]
    repeat' split at h2
    all_goals first | (simp at h2; done) | skip
    all_goals simp only [Option.some.injEq] at h2; subst h2
    all_goals simp [*, EArgs.orNum, EArgs.setNum, EArgs.num]
    · rcases bit_cases os "en" 1 with e | e <;> rw [e] <;> or_ac
    · rcases bit_cases os "arch" 2 with e | e <;> rw [e] <;> or_ac

theorem bits_gi (os : List Opt) :
    bit os "en" 1 ||| bit os "arch" 2 = bit os "en" 1 + bit os "arch" 2 := by
  unfold bit
  cases has os "en" <;> cases has os "arch" <;> rfl

theorem conforms_gi (c : EArgs) (opts : List Opt) (a : EArgs)
    (hwf : entryWf .gi c opts = true) (h : buildEntry .gi c opts = .ok a) :
    layoutOracle .gi c opts (entryBytes .gi a) = none := by
  obtain ⟨hc, ha, _⟩ := buildEntry_ok _ _ _ _ h
  have := final_gi _ _ _ ha
  subst this
  simp only [entryWf, ctorWf, Bool.and_eq_true] at hwf
  have hw := hwf.1
  simp only [ctorPanics] at hc
  unfold layoutOracle rows
  simp only []
  by_cases h1 : c.num 1 = 1
  · simp only [h1, if_true] at hw hc ⊢
    simp at hc
    apply conforms_of_eq
    · simp [tilesFrom, Row.off, Row.width, res]
    · simp [entryBytes, encFields, fields, render, Row.bytes, Fld.bytes, res, leN_zero, num_mk, bits_gi,
        zeros_append']
      rw [shl3_or _ _ hc.1 hc.2, leN1_mod]
  · simp only [h1, if_false] at hw ⊢
    simp at hw
    apply conforms_of_eq
    · simp [tilesFrom, Row.off, Row.width, res, hw.1, hw.2]
    · simp [entryBytes, encFields, fields, render, Row.bytes, Fld.bytes, res, leN_zero, num_mk, EArgs.blob, bits_gi, h1]

/-! ### rintcAff (SRAT RINTC affinity): flag option en, valued option pd -/

theorem applyOpt_rintcAff (a : EArgs) (o : Opt) :
    applyOpt .rintcAff a o =
      if o.name = "en" then some (a.orNum 1 1) else if o.name = "pd" then some (a.setNum 2 (o.arg 0)) else none := by
  unfold applyOpt
  split <;> simp_all

theorem final_rintcAff (c : EArgs) : ∀ opts a, applyOpts .rintcAff (init .rintcAff c) opts = .ok a →
    a = { n := #[c.num 0, bit opts "en" 1, lastVal opts "pd" 0 0], b := c.b, s := c.s } := by
  intro opts
  induction opts using snoc_induction with
  | hnil =>
    intro a h
    simp only [applyOpts, Except.ok.injEq] at h
    subst h
    rfl
  | hsnoc os o ih =>
    intro a h
    rw [applyOpts_snoc] at h
    obtain ⟨a', h1, h2⟩ := h
    have := ih a' h1
    subst this
    rw [applyOpt_rintcAff] at h2
    simp only [bit_snoc, lastVal_snoc]
    repeat' split at h2
    all_goals first | (simp at h2; done) | skip
    all_goals simp only [Option.some.injEq] at h2; subst h2
    all_goals simp [*, EArgs.orNum, EArgs.setNum, EArgs.num]
    · rcases bit_cases os "en" 1 with e | e <;> rw [e] <;> rfl

theorem conforms_rintcAff (c : EArgs) (opts : List Opt) (a : EArgs)
    (hwf : entryWf .rintcAff c opts = true) (h : buildEntry .rintcAff c opts = .ok a) :
    layoutOracle .rintcAff c opts (entryBytes .rintcAff a) = none := by
  obtain ⟨_, ha, _⟩ := buildEntry_ok _ _ _ _ h
  have := final_rintcAff _ _ _ ha
  subst this
  simp only [entryWf, ctorWf, Bool.and_eq_true, decide_eq_true_eq] at hwf
  have hw := hwf.1
  unfold layoutOracle rows
  simp only []
  apply conforms_of_eq
  · simp [tilesFrom, Row.off, Row.width, res, hw]
  · simp [entryBytes, encFields, fields, render, Row.bytes, Fld.bytes, res, leN_zero, num_mk, EArgs.blob]

/-! ### msc (HMAT memory side cache): pushes h -/

theorem applyOpt_msc (a : EArgs) (o : Opt) :
    applyOpt .msc a o =
      if o.name = "h" then some { a with s := [a.s.getD 0 [] ++ [o.arg 0]] } else none := by
  unfold applyOpt
  split <;> simp_all

/-- the cache-attributes dword: disjoint bit fields add up -/
theorem msc_attr (t l a w s : Nat) (ht : t < 4) (hl : l < 4) (ha : a < 3) (hw : w < 3) (hs : s < 65536) :
    (t ||| (l <<< 4) ||| (a <<< 8) ||| (w <<< 12) ||| (s <<< 16)) % 2 ^ 32 =
      t + l * 16 + a * 256 + w * 4096 + s * 65536 := by
  have e1 : t ||| (l <<< 4) = l * 16 + t := by
    rw [Nat.or_comm, ← Nat.shiftLeft_add_eq_or_of_lt (show t < 2 ^ 4 by omega), Nat.shiftLeft_eq]
  have e2 : (l * 16 + t) ||| (a <<< 8) = a * 256 + (l * 16 + t) := by
    rw [Nat.or_comm, ← Nat.shiftLeft_add_eq_or_of_lt (show l * 16 + t < 2 ^ 8 by omega), Nat.shiftLeft_eq]
  have e3 : (a * 256 + (l * 16 + t)) ||| (w <<< 12) = w * 4096 + (a * 256 + (l * 16 + t)) := by
    rw [Nat.or_comm, ← Nat.shiftLeft_add_eq_or_of_lt (show a * 256 + (l * 16 + t) < 2 ^ 12 by omega),
      Nat.shiftLeft_eq]
  have e4 : (w * 4096 + (a * 256 + (l * 16 + t))) ||| (s <<< 16) = s * 65536 + (w * 4096 + (a * 256 + (l * 16 + t))) := by
    rw [Nat.or_comm, ← Nat.shiftLeft_add_eq_or_of_lt (show w * 4096 + (a * 256 + (l * 16 + t)) < 2 ^ 16 by omega),
      Nat.shiftLeft_eq]
  rw [e1, e2, e3, e4]
  omega

theorem final_msc (c : EArgs) : ∀ opts a, applyOpts .msc (init .msc c) opts = .ok a →
    a = { n := #[c.num 0, c.num 1,
                 (c.num 2 ||| (c.num 3 <<< 4) ||| (c.num 4 <<< 8) ||| (c.num 5 <<< 12) ||| (c.num 6 <<< 16)) % 2 ^ 32],
          s := [pushed opts "h"] } := by
  intro opts
  induction opts using snoc_induction with
  | hnil =>
    intro a h
    simp only [applyOpts, Except.ok.injEq] at h
    subst h
    rfl
  | hsnoc os o ih =>
    intro a h
    rw [applyOpts_snoc] at h
    obtain ⟨a', h1, h2⟩ := h
    have := ih a' h1
    subst this
    rw [applyOpt_msc] at h2
    simp only [pushed_snoc]
    repeat' split at h2
    all_goals first | (simp at h2; done) | skip
    all_goals simp only [Option.some.injEq] at h2; subst h2
    all_goals simp [*]

theorem conforms_msc (c : EArgs) (opts : List Opt) (a : EArgs)
    (hwf : entryWf .msc c opts = true) (h : buildEntry .msc c opts = .ok a) :
    layoutOracle .msc c opts (entryBytes .msc a) = none := by
  obtain ⟨_, ha, _⟩ := buildEntry_ok _ _ _ _ h
  have := final_msc _ _ _ ha
  subst this
  simp only [entryWf, ctorWf, Bool.and_eq_true, decide_eq_true_eq] at hwf
  obtain ⟨⟨⟨⟨⟨h2, h3⟩, h4⟩, h5⟩, h6⟩, _⟩ := hwf
  unfold layoutOracle rows
  simp only []
  apply conforms_of_eq
  · apply tilesFrom_append 0 32
    · simp [tilesFrom, Row.off, Row.width, res]
    · exact tilesFrom_arrayRows 32 2 _
  · rw [render_append, render_arrayRows]
    unfold entryBytes fields
    simp only []
    rw [encFields_append, encFields_map_num]
    simp [encFields, render, Row.bytes, Fld.bytes, res, leN_zero, num_mk, msc_attr _ _ _ _ _ h2 h3 h4 h5 h6]

/-! ### proc (PPTT processor hierarchy node): five flag options, pushes cache, and direct writes
    of the three public fields (`set=slot.value`; slot 0 flags, 1 parent, 2 ACPI processor id) -/

theorem applyOpt_proc (a : EArgs) (o : Opt) :
    applyOpt .proc a o =
      if o.name = "physical" then some (a.orNum 0 1) else if o.name = "valid" then some (a.orNum 0 2)
      else if o.name = "thread" then some (a.orNum 0 4) else if o.name = "leaf" then some (a.orNum 0 8)
      else if o.name = "identical" then some (a.orNum 0 16)
      else if o.name = "cache" then some { a with s := [a.s.getD 0 [] ++ [o.arg 0]] }
      else if o.name = "set" then some (a.setNum (o.arg 0) (o.arg 1)) else none := by
  unfold applyOpt
  split <;> simp_all

/-- the builder state after any program (direct writes included; no well-formedness needed: a
    write to a slot the node does not have is a no-op in the model and invisible to the spec) -/
theorem final_proc (c : EArgs) : ∀ opts a, applyOpts .proc (init .proc c) opts = .ok a →
    a = { n := #[procFlags opts, lastSet opts 1 (c.num 0), lastSet opts 2 (c.num 1)],
          s := [pushed opts "cache"] } := by
  intro opts
  induction opts using snoc_induction with
  | hnil =>
    intro a h
    simp only [applyOpts, Except.ok.injEq] at h
    subst h
    rfl
  | hsnoc os o ih =>
    intro a h
    rw [applyOpts_snoc] at h
    obtain ⟨a', h1, h2⟩ := h
    have := ih a' h1
    subst this
    rw [applyOpt_proc] at h2
    simp only [pushed_snoc, ProcF.procFlags_snoc, ProcF.lastSet_snoc]
    repeat' split at h2
    all_goals first | (simp at h2; done) | skip
    all_goals simp only [Option.some.injEq] at h2; subst h2
    all_goals rename_i hlast
    -- the five flag builders and `add_cache`
    iterate 6 simp [*, EArgs.orNum, EArgs.setNum, EArgs.num]
    -- a direct write
    · rw [ProcF.setNum3]
      simp [hlast]

theorem bits_proc (os : List Opt) :
    bit os "physical" 1 ||| bit os "valid" 2 ||| bit os "thread" 4 ||| bit os "leaf" 8 ||| bit os "identical" 16 =
      bit os "physical" 1 + bit os "valid" 2 + bit os "thread" 4 + bit os "leaf" 8 + bit os "identical" 16 := by
  unfold bit
  cases has os "physical" <;> cases has os "valid" <;> cases has os "thread" <;> cases has os "leaf" <;>
    cases has os "identical" <;> rfl

/-- the builder state of a program without a direct write of the flags field, in the form
    `final_proc` had before direct writes were modelled: the flags slot is the union of the bits of
    the flag builders invoked -/
theorem final_proc_noFlagsWrite (c : EArgs) (opts : List Opt) (a : EArgs)
    (h : applyOpts .proc (init .proc c) opts = .ok a) (hnw : noFlagsWrite opts = true) :
    a = { n := #[bit opts "physical" 1 ||| bit opts "valid" 2 ||| bit opts "thread" 4 ||| bit opts "leaf" 8 |||
                   bit opts "identical" 16, lastSet opts 1 (c.num 0), lastSet opts 2 (c.num 1)],
          s := [pushed opts "cache"] } := by
  rw [final_proc c opts a h, ProcF.procFlags_of_noFlagsWrite opts hnw, bits_proc]

theorem conforms_proc (c : EArgs) (opts : List Opt) (a : EArgs)
    (hwf : entryWf .proc c opts = true) (h : buildEntry .proc c opts = .ok a) :
    layoutOracle .proc c opts (entryBytes .proc a) = none := by
  have _ := hwf
  obtain ⟨_, ha, _⟩ := buildEntry_ok _ _ _ _ h
  have := final_proc _ _ _ ha
  subst this
  unfold layoutOracle rows
  simp only []
  apply conforms_of_eq
  · apply tilesFrom_append 0 20
    · simp [tilesFrom, Row.off, Row.width, res]
    · exact tilesFrom_arrayRows 20 4 _
  · rw [render_append, render_arrayRows]
    unfold entryBytes fields
    simp only []
    rw [encFields_append, encFields_map_num]
    simp [encFields, render, Row.bytes, Fld.bytes, res, leN_zero, num_mk]

/-! ### cache (PPTT cache type structure): valued options and or-accumulated attributes -/

theorem applyOpt_cache (a : EArgs) (o : Opt) :
    applyOpt .cache a o =
      if o.name = "next" then some (a.setNum 0 (o.arg 0))
      else if o.name = "size" then some ((a.setNum 1 (o.arg 0)).orNum 7 1)
      else if o.name = "sets" then some ((a.setNum 2 (o.arg 0)).orNum 7 2)
      else if o.name = "assoc" then some ((a.setNum 3 (o.arg 0)).orNum 7 4)
      else if o.name = "alloc" then some ((a.orNum 4 (o.arg 0)).orNum 7 8)
      else if o.name = "ctype" then some ((a.orNum 4 (o.arg 0 * 4)).orNum 7 16)
      else if o.name = "wp" then some ((a.orNum 4 (o.arg 0 * 16)).orNum 7 32)
      else if o.name = "line" then some ((a.setNum 5 (o.arg 0)).orNum 7 64)
      else if o.name = "id" then some ((a.setNum 6 (o.arg 0)).orNum 7 128)
      else none := by
  unfold applyOpt
  split <;> simp_all

/-- union of the codes `f v` of all values supplied through option `nm` -/
def orAll (opts : List Opt) (nm : String) (f : Nat → Nat) : Nat :=
  (pushed opts nm).foldl (fun acc v => acc ||| f v) 0

theorem orAll_snoc (os : List Opt) (o : Opt) (nm : String) (f : Nat → Nat) :
    orAll (os ++ [o]) nm f = if o.name = nm then orAll os nm f ||| f (o.arg 0) else orAll os nm f := by
  unfold orAll
  rw [pushed_snoc]
  by_cases h : o.name = nm <;> simp [h]

theorem final_cache (c : EArgs) : ∀ opts a, applyOpts .cache (init .cache c) opts = .ok a →
    a = { n := #[lastVal opts "next" 0 0, lastVal opts "size" 0 0, lastVal opts "sets" 0 0, lastVal opts "assoc" 0 0,
                 orAll opts "alloc" id ||| orAll opts "ctype" (· * 4) ||| orAll opts "wp" (· * 16),
                 lastVal opts "line" 0 0, lastVal opts "id" 0 0,
                 bit opts "size" 1 ||| bit opts "sets" 2 ||| bit opts "assoc" 4 ||| bit opts "alloc" 8 |||
                   bit opts "ctype" 16 ||| bit opts "wp" 32 ||| bit opts "line" 64 ||| bit opts "id" 128] } := by
  intro opts
  induction opts using snoc_induction with
  | hnil =>
    intro a h
    simp only [applyOpts, Except.ok.injEq] at h
    subst h
    rfl
  | hsnoc os o ih =>
    intro a h
    rw [applyOpts_snoc] at h
    obtain ⟨a', h1, h2⟩ := h
    have := ih a' h1
    subst this
    rw [applyOpt_cache] at h2
    simp only [lastVal_snoc, bit_snoc, orAll_snoc]
    repeat' split at h2
    all_goals first | (simp at h2; done) | skip
    all_goals simp only [Option.some.injEq] at h2; subst h2
    all_goals simp [*, EArgs.orNum, EArgs.setNum, EArgs.num]
    · rcases bit_cases os "size" 1 with e | e <;> rw [e] <;> or_ac
    · rcases bit_cases os "sets" 2 with e | e <;> rw [e] <;> or_ac
    · rcases bit_cases os "assoc" 4 with e | e <;> rw [e] <;> or_ac
    · refine ⟨by or_ac, ?_⟩
      rcases bit_cases os "alloc" 8 with e | e <;> rw [e] <;> or_ac
    · refine ⟨by or_ac, ?_⟩
      rcases bit_cases os "ctype" 16 with e | e <;> rw [e] <;> or_ac
    · refine ⟨by or_ac, ?_⟩
      rcases bit_cases os "wp" 32 with e | e <;> rw [e] <;> or_ac
    · rcases bit_cases os "line" 64 with e | e <;> rw [e] <;> or_ac
    · rcases bit_cases os "id" 128 with e | e <;> rw [e] <;> or_ac

theorem bits_cache (os : List Opt) :
    bit os "size" 1 ||| bit os "sets" 2 ||| bit os "assoc" 4 ||| bit os "alloc" 8 |||
        bit os "ctype" 16 ||| bit os "wp" 32 ||| bit os "line" 64 ||| bit os "id" 128 =
      bit os "size" 1 + bit os "sets" 2 + bit os "assoc" 4 + bit os "alloc" 8 +
        bit os "ctype" 16 + bit os "wp" 32 + bit os "line" 64 + bit os "id" 128 := by
  unfold bit
  cases has os "size" <;> cases has os "sets" <;> cases has os "assoc" <;> cases has os "alloc" <;>
    cases has os "ctype" <;> cases has os "wp" <;> cases has os "line" <;> cases has os "id" <;> rfl

theorem conforms_cache (c : EArgs) (opts : List Opt) (a : EArgs)
    (hwf : entryWf .cache c opts = true) (h : buildEntry .cache c opts = .ok a) :
    layoutOracle .cache c opts (entryBytes .cache a) = none := by
  have _ := hwf
  obtain ⟨_, ha, _⟩ := buildEntry_ok _ _ _ _ h
  have := final_cache _ _ _ ha
  subst this
  unfold layoutOracle rows
  simp only []
  apply conforms_of_eq
  · simp [tilesFrom, Row.off, Row.width, res]
  · simp [entryBytes, encFields, fields, render, Row.bytes, Fld.bytes, res, leN_zero, num_mk, bits_cache, orAll]

/-! ### loc (HMAT system locality latency/bandwidth; C12): flags nst, mtsr; seti, sett, sete -/

theorem applyOpt_loc (a : EArgs) (o : Opt) :
    applyOpt .loc a o =
      if o.name = "nst" then some (a.orNum 0 0x20)
      else if o.name = "mtsr" then some (a.orNum 0 0x10)
      else if o.name = "seti" then
        (if o.arg 0 < (a.s.getD 0 []).length then
          some { a with s := a.s.set 0 ((a.s.getD 0 []).set (o.arg 0) (o.arg 1)) } else none)
      else if o.name = "sett" then
        (if o.arg 0 < (a.s.getD 1 []).length then
          some { a with s := a.s.set 1 ((a.s.getD 1 []).set (o.arg 0) (o.arg 1)) } else none)
      else if o.name = "sete" then
        (if o.arg 0 < a.num 4 ∧ o.arg 1 < a.num 5 then
          some { a with s := a.s.set 2 ((a.s.getD 2 []).set (o.arg 0 * a.num 5 + o.arg 1) (o.arg 2)) } else none)
      else none := by
  unfold applyOpt
  split <;> simp_all

/-- last value assigned to index `i` by option `nm` (`seti`/`sett`), default 0 -/
def lastIdx (opts : List Opt) (nm : String) (i : Nat) : Nat :=
  lastD (fun o => decide (o.name = nm ∧ o.arg 0 = i)) (fun o => o.arg 1) opts 0

/-- last value assigned by `sete` to the matrix cell with linear index `k`, default 0xFFFF -/
def cellK (opts : List Opt) (T k : Nat) : Nat :=
  lastD (fun o => decide (o.name = "sete" ∧ o.arg 0 * T + o.arg 1 = k)) (fun o => o.arg 2) opts 0xFFFF

theorem lastIdx_snoc (os : List Opt) (o : Opt) (nm : String) :
    lastIdx (os ++ [o]) nm =
      if o.name = nm then (fun i => if o.arg 0 = i then o.arg 1 else lastIdx os nm i) else lastIdx os nm := by
  funext i
  unfold lastIdx
  rw [lastD_snoc]
  by_cases h : o.name = nm <;> simp [h]

theorem cellK_snoc (os : List Opt) (o : Opt) (T : Nat) :
    cellK (os ++ [o]) T =
      if o.name = "sete" then (fun k => if o.arg 0 * T + o.arg 1 = k then o.arg 2 else cellK os T k)
      else cellK os T := by
  funext k
  unfold cellK
  rw [lastD_snoc]
  by_cases h : o.name = "sete" <;> simp [h]

theorem lastIdx_nil (nm : String) : lastIdx [] nm = fun _ => 0 := rfl
theorem cellK_nil (T : Nat) : cellK [] T = fun _ => 0xFFFF := rfl

theorem final_loc (c : EArgs) : ∀ opts a, applyOpts .loc (init .loc c) opts = .ok a →
    a = { n := #[c.num 0 ||| bit opts "mtsr" 0x10 ||| bit opts "nst" 0x20, c.num 1, c.num 2, c.num 3, c.num 4, c.num 5],
          s := [(List.range (c.num 4)).map (lastIdx opts "seti"), (List.range (c.num 5)).map (lastIdx opts "sett"),
                (List.range (c.num 4 * c.num 5)).map (cellK opts (c.num 5))] } ∧
    ∀ p ∈ opts, p.name = "sete" → p.arg 1 < c.num 5 := by
  intro opts
  induction opts using snoc_induction with
  | hnil =>
    intro a h
    simp only [applyOpts, Except.ok.injEq] at h
    subst h
    refine ⟨?_, by simp⟩
    simp [init, lastIdx_nil, cellK_nil, List.map_const', bit_nil]
  | hsnoc os o ih =>
    intro a h
    rw [applyOpts_snoc] at h
    obtain ⟨a', h1, h2⟩ := h
    obtain ⟨e, hb⟩ := ih a' h1
    subst e
    rw [applyOpt_loc] at h2
    simp only [bit_snoc, lastIdx_snoc, cellK_snoc]
    repeat' split at h2
    all_goals first | (simp at h2; done) | skip
    all_goals simp only [Option.some.injEq] at h2; subst h2
    all_goals rename_i hlast
    all_goals simp [*, EArgs.orNum, EArgs.setNum, num_mk, map_range_set]
    · refine ⟨?_, ?_⟩
      · rcases bit_cases os "nst" 32 with e | e <;> rw [e] <;> or_ac
      · intro p hp hn
        rcases hp with hp | rfl
        · exact hb p hp hn
        · rw [hlast] at hn; exact absurd hn (by decide)
    · refine ⟨?_, ?_⟩
      · rcases bit_cases os "mtsr" 16 with e | e <;> rw [e] <;> or_ac
      · intro p hp hn
        rcases hp with hp | rfl
        · exact hb p hp hn
        · rw [hlast] at hn; exact absurd hn (by decide)
    · intro p hp hn
      rcases hp with hp | rfl
      · exact hb p hp hn
      · rename_i h3; rw [h3] at hn; exact absurd hn (by decide)
    · intro p hp hn
      rcases hp with hp | rfl
      · exact hb p hp hn
      · rename_i h3; rw [h3] at hn; exact absurd hn (by decide)
    · intro p hp hn
      rcases hp with hp | rfl
      · exact hb p hp hn
      · simp only [num_mk] at hlast
        simpa using hlast.2

theorem loc_flags (x : Nat) (os : List Opt) (hx : x < 4) :
    x ||| bit os "mtsr" 16 ||| bit os "nst" 32 = x + bit os "mtsr" 16 + bit os "nst" 32 := by
  have : x = 0 ∨ x = 1 ∨ x = 2 ∨ x = 3 := by omega
  unfold bit
  rcases this with rfl | rfl | rfl | rfl <;> cases has os "mtsr" <;> cases has os "nst" <;> rfl

/-- C12: the cell with linear index `i * T + j` holds the last value assigned to `(i, j)` -/
theorem cellK_eq_cell (opts : List Opt) (T i j : Nat)
    (hb : ∀ p ∈ opts, p.name = "sete" → p.arg 1 < T) (hj : j < T) :
    cellK opts T (i * T + j) =
      lastD (fun o => decide (o.name = "sete" ∧ o.arg 0 = i ∧ o.arg 1 = j)) (fun o => o.arg 2) opts 0xFFFF := by
  unfold cellK
  apply lastD_congr
  intro p hp
  by_cases hn : p.name = "sete"
  · have := cell_index_inj T (p.arg 0) (p.arg 1) i j (hb p hp hn) hj
    simp [hn, this]
  · simp [hn]

theorem conforms_loc (c : EArgs) (opts : List Opt) (a : EArgs)
    (hwf : entryWf .loc c opts = true) (h : buildEntry .loc c opts = .ok a) :
    layoutOracle .loc c opts (entryBytes .loc a) = none := by
  obtain ⟨_, ha, _⟩ := buildEntry_ok _ _ _ _ h
  obtain ⟨e, hb⟩ := final_loc _ _ _ ha
  subst e
  simp only [entryWf, ctorWf, Bool.and_eq_true, decide_eq_true_eq] at hwf
  have h0 := hwf.1
  unfold layoutOracle rows
  simp only []
  apply conforms_of_eq
  · apply tilesFrom_append 0 (32 + 4 * c.num 4 + 4 * c.num 5)
    · apply tilesFrom_append 0 (32 + 4 * c.num 4)
      · apply tilesFrom_append 0 32
        · simp [tilesFrom, Row.off, Row.width, res]
        · exact tiles_rangeRows 32 4 _ _
      · exact tiles_rangeRows (32 + 4 * c.num 4) 4 _ _
    · exact tiles_matrix (32 + 4 * c.num 4 + 4 * c.num 5) 2 _ _ _
  · rw [render_append, render_append, render_append, render_map_num, render_map_num, render_matrix]
    unfold entryBytes fields
    simp only [List.getD_cons_zero, List.getD_cons_succ]
    rw [encFields_append, encFields_append, encFields_append, encFields_map_num, encFields_map_num,
      encFields_map_num]
    have e2 : List.map (cellK opts (c.num 5)) (List.range (c.num 4 * c.num 5)) =
        (List.range (c.num 4)).flatMap (fun i => (List.range (c.num 5)).map (fun j =>
          lastD (fun o => decide (o.name = "sete" ∧ o.arg 0 = i ∧ o.arg 1 = j)) (fun o => o.arg 2) opts 0xFFFF)) := by
      rw [range_mul_map]
      congr 1; funext i
      apply List.map_congr_left
      intro j hj
      exact cellK_eq_cell opts _ i j hb (List.mem_range.mp hj)
    simp only [List.length_map, List.length_range]
    rw [e2]
    have hlen : 4 * c.num 4 + 4 * c.num 5 + 2 * (c.num 4 * c.num 5) + 32 =
        32 + 4 * c.num 4 + 4 * c.num 5 + 2 * (c.num 4 * c.num 5) := by omega
    refine append_congr (append_congr (append_congr ?_ rfl) rfl) rfl
    simp [encFields, render, Row.bytes, Fld.bytes, res, leN_zero, num_mk, loc_flags _ _ h0, hlen]

end Acpi.C04
