/-
  C04, the recorded finding made precise: what *does* hold of `hest::GenericErrorData`.
  The crate's section type is a `u16` where ACPI 6.5 Table 18.12 has a 16-byte GUID
  (`C04.ged_counterexample`); everything after the section type is the reference encoding.
-/
import Acpi.Props.C04
import Acpi.Lemmas.LayoutCedtHestMisc
namespace Acpi.C04
open Acpi Spec

/-- **C04 for the Generic Error Data Entry, partial** (`_partial`: the section-type field is
    excluded, see `ged_counterexample` and known_findings.json): for all field values within their
    Rust types and any payloads added with `add_data`, the serialised entry is the two low bytes of
    the section type followed by exactly the reference encoding from offset 16 on (severity,
    revision, validation bits, flags, data length, FRU id, FRU text, timestamp, payload). -/
theorem ged_partial (c : EArgs) (a : EArgs) (hwf : entryWf .ged c [] = true)
    (h : buildEntry .ged c [] = .ok a) :
    ∃ total rs, Spec.rows .ged c [] = some (total, rs) ∧
      entryBytes .ged a = leN 2 (c.num 0) ++ (render rs).drop 16 := by
  obtain ⟨-, rfl, -, -⟩ := CHM.noOpts .ged (fun _ _ => rfl) c [] a h
  simp only [entryWf, ctorWf, List.all_nil, Bool.and_true, Bool.and_eq_true, decide_eq_true_eq] at hwf
  obtain ⟨⟨h0, h1⟩, h2⟩ := hwf
  refine ⟨_, _, rfl, ?_⟩
  have key : ∀ l : List Bytes, (l.getD 0 []).length = 16 → (l.getD 1 []).length = 20 →
      (l.getD 2 []).length = 8 → l = l.getD 0 [] :: l.getD 1 [] :: l.getD 2 [] :: l.drop 3 := by
    intro l
    match l with
    | [] => simp
    | [_] => simp
    | [_, _] => simp
    | _ :: _ :: _ :: _ => simp
  have hb : ∀ i, a.blob i = a.b.toList.getD i [] := by
    intro i; simp [EArgs.blob, Array.getD_eq_getD_getElem?, List.getD_eq_getElem?_getD]
  rw [hb] at h0 h1 h2
  have hl := key a.b.toList h0 h1 h2
  simp only [entryBytes, fields, render, hb]
  generalize a.b.toList = l at hl h0 h1 h2 ⊢
  rw [hl]
  have h16 : (leN 16 (a.num 0)).length = 16 := by simp [leN]
  simp [encFields, Fld.bytes, Row.bytes, w16, d32, b8, List.flatMap_cons, h16]
  have hfm : ∀ d : List Bytes, List.flatMap Fld.bytes (List.map Fld.raw d) = d.flatten := by
    intro d; induction d with
    | nil => rfl
    | cons x xs ih => simp [List.flatMap_cons, Fld.bytes, ih]
  rw [← List.map_drop, hfm]
  generalize List.drop 3 l = d
  split
  · rename_i hall
    simp only [List.flatMap_nil]
    induction d with
    | nil => rfl
    | cons x xs ih =>
      have hx : x = [] := hall x List.mem_cons_self
      subst hx
      simpa using ih (fun y hy => hall y (List.mem_cons_of_mem _ hy))
  · simp [Row.bytes]

/-- non-vacuity: an entry with two `add_data` payloads meets the hypotheses -/
example : entryWf .ged { n := #[7, 1, 0x300, 1, 2, 12], b := #[zeros 16, zeros 20, zeros 8, [1, 2, 3], [4]] } [] = true ∧
    ∃ a, buildEntry .ged { n := #[7, 1, 0x300, 1, 2, 12], b := #[zeros 16, zeros 20, zeros 8, [1, 2, 3], [4]] } [] = .ok a :=
  ⟨by decide, _, rfl⟩

end Acpi.C04
