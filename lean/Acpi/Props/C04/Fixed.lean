/-
  C04 / C11 / C12 for the fixed tables: the image is the reference encoding of
  Acpi.Spec.FixedLayout, whose rows give every builder call its per-field meaning (a field
  holds what the last call that writes it wrote; a flag field is the union of the flag calls
  since its last plain write; a SLIT cell holds the last distance assigned to its unordered
  pair, else 10).
-/
import Acpi.Tables.Fixed
import Acpi.Spec.FixedLayout
import Acpi.Lemmas.Layout
import Acpi.Lemmas.FixedRun
import Acpi.Lemmas.FixedSum
import Acpi.Lemmas.FixedRows
import Acpi.Lemmas.FixedSimple
import Acpi.Lemmas.FixedFadt
import Acpi.Lemmas.FixedTcpas
import Acpi.Lemmas.FixedSlit
namespace Acpi.C04
open Acpi Spec

/-- the arguments are within their Rust types -/
def fixedWf (t : FixedT) (o : Oem) (_c : EArgs) (ops : List Opt) : Prop :=
  o.id.length = 6 ∧ o.table.length = 8 ∧
  (t = .fadt → ∀ op ∈ ops, (op.name = "flag" → op.arg 0 < 25) ∧ (op.name = "profile" → op.arg 0 < 9)) ∧
  (t = .slit → ∀ op ∈ ops, op.name = "dist" → op.arg 2 < 256)

/-- **C04/C11/C12 (fixed tables)**: after every program that does not panic, the image conforms
    to the reference layout computed from the constructor arguments and the *program text*
    (the revision and checksum bytes are read from the image: the first is an observed
    parameter, the second is C01's business). -/
theorem fixed_conforms (t : FixedT) (o : Oem) (c : EArgs) (ops : List Opt) (s : FixedState)
    (hwf : fixedWf t o c ops) (hrun : runFixed t o c ops = some s) :
    let img := s.image
    let rev := if t = .rsdp ∨ t = .facs then 0 else (img.getD 8 0).toNat
    let cks := if t = .rsdp then (img.getD 8 0).toNat else (img.getD 9 0).toNat
    let (total, rows) := fixedRows t o c ops rev cks (img.getD 32 0).toNat
    conforms total rows img = none := by
  obtain ⟨h1, h2, _, _⟩ := hwf
  intro img rev cks
  suffices h : conforms (fixedRows t o c ops rev cks (img.getD 32 0).toNat).1
      (fixedRows t o c ops rev cks (img.getD 32 0).toNat).2 img = none by
    rcases hp : fixedRows t o c ops rev cks (img.getD 32 0).toNat with ⟨total, rows⟩
    rw [hp] at h
    exact h
  cases t with
  | fadt => exact conforms_fadt o c ops s _ h1 h2 hrun
  | bert => exact conforms_bert o c ops s _ h1 h2 hrun
  | spcr => exact conforms_spcr o c ops s _ h1 h2 hrun
  | tcpac => exact conforms_tcpac o c ops s _ h1 h2 hrun
  | tcpas => exact conforms_tcpas o c ops s _ h1 h2 hrun
  | tpm2 => exact conforms_tpm2 o c ops s _ h1 h2 hrun
  | rsdp => exact conforms_rsdp o c ops s _ h1 hrun
  | facs => exact conforms_facs o c ops s _ _ _ hrun
  | slit => exact conforms_slit o c ops s _ h1 h2 hrun

/-- **C12 (SLIT)**: every in-range pair is accepted. -/
theorem slit_accepts (o : Oem) (n : Nat) (ops : List Opt) (hn : n * n + 44 < 2 ^ 32)
    (hops : ∀ op ∈ ops, op.name = "dist" ∧ op.arg 0 < n ∧ op.arg 1 < n) :
    ∃ s, runFixed .slit o { n := #[n] } ops = some s := by
  have hnew : ∃ s0, FixedState.new .slit o { n := #[n] } = some s0 := by
    unfold FixedState.new
    have e : ({ n := #[n] } : EArgs).num 0 = n := rfl
    simp only [e]
    rw [if_neg (by omega)]
    exact ⟨_, rfl⟩
  obtain ⟨s0, h0⟩ := hnew
  obtain ⟨I0, ha0, _⟩ := slitInv_new h0
  have e : s0.a.num 0 = n := by rw [ha0]; rfl
  obtain ⟨s', h'⟩ := slit_accepts_from ops s0 I0 (by rw [e]; exact hops)
  exact ⟨s', by unfold runFixed; rw [h0]; exact h'⟩

end Acpi.C04
