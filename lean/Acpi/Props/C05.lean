/-
  C05 — handles returned by add operations are true offsets of the node they name
  (engine part: PPTT, RHCT, RIMT, VIOT all hand out the engine's `handle_offset`).
-/
import Acpi.Tbl
import Acpi.Lemmas.Tbl
import Acpi.Props.C02
namespace Acpi.C05
open Acpi

/-- **C05 (engine)**: with truthful claimed lengths, the i-th handle is the first-entry offset
    plus the sizes of the entries before it … -/
theorem handle_value (c : TblCfg) (o : Oem) (es : List (Bytes × Nat))
    (hcl : ∀ e ∈ es, e.2 = e.1.length) (hs : List Nat) (t : Tbl)
    (h : runAdds (Tbl.new c o) es = some (hs, t)) :
    hs.length = es.length ∧
    ∀ i (_hi : i < es.length), hs[i]? = some (Tbl.firstOffset c + (((es.take i).map (·.1.length)).sum)) := by
  obtain ⟨-, -, -, -, -, -, hlen, hget⟩ := runAdds_struct es _ hs t h
  refine ⟨hlen, fun i hi => ?_⟩
  rw [hget i hi, Tbl.new_handleOffset,
    map_snd_eq (es.take i) (fun e he => hcl e (List.mem_of_mem_take he))]

/-- … which is exactly where that entry's bytes begin in the emitted image — the final one,
    and (since a prefix of a history is a history and later adds only append) every
    intermediate one. -/
theorem handle_is_offset (c : TblCfg) (o : Oem) (hw : C02.CfgWf c o) (es : List (Bytes × Nat))
    (hcl : ∀ e ∈ es, e.2 = e.1.length) (hs : List Nat) (t : Tbl)
    (h : runAdds (Tbl.new c o) es = some (hs, t)) :
    ∀ i (hi : i < es.length), ∃ hnd, hs[i]? = some hnd ∧
      (t.image.drop hnd).take (es[i].1.length) = es[i].1 := by
  intro i hi
  obtain ⟨hsig, hid, htb⟩ := hw
  obtain ⟨hcfg, hoem, hbody, -⟩ := runAdds_struct es _ hs t h
  simp only [Tbl.new_cfg, Tbl.new_oem, Tbl.new_body, List.nil_append] at hcfg hoem hbody
  refine ⟨_, (handle_value c o es hcl hs t h).2 i hi, ?_⟩
  have hhead : t.head.length = Tbl.firstOffset c := by
    rw [Tbl.length_head t (hcfg ▸ hsig) (hoem ▸ hid) (hoem ▸ htb), hcfg]
  have hi' : i < (es.map (·.1)).length := by simpa using hi
  have key := flatten_drop_take (es.map (·.1)) i hi' []
  simp only [List.append_nil, List.getElem_map, ← List.map_take, List.map_map] at key
  rw [Tbl.image_eq, hbody, ← hhead, ← List.drop_drop, List.drop_left' rfl]
  exact key

/-- later adds never move an earlier node: the image of a longer history extends the image
    body of the shorter one (same bytes at the same offsets from the first entry on). -/
theorem later_adds_only_append (c : TblCfg) (o : Oem) (hw : C02.CfgWf c o)
    (es es' : List (Bytes × Nat))
    (hs hs' : List Nat) (t t' : Tbl)
    (h : runAdds (Tbl.new c o) es = some (hs, t))
    (h' : runAdds (Tbl.new c o) (es ++ es') = some (hs', t')) :
    t'.image.drop (Tbl.firstOffset c) = t.image.drop (Tbl.firstOffset c) ++ (es'.map Prod.fst).flatten ∧
    hs'.take hs.length = hs := by
  obtain ⟨hsig, hid, htb⟩ := hw
  obtain ⟨hcfg, hoem, hbody, -⟩ := runAdds_struct es _ hs t h
  obtain ⟨hs2, h2, rfl⟩ := runAdds_append es es' _ hs hs' t t' h h'
  obtain ⟨hcfg', hoem', hbody', -⟩ := runAdds_struct es' _ hs2 t' h2
  simp only [Tbl.new_cfg, Tbl.new_oem] at hcfg hoem
  refine ⟨?_, List.take_left' rfl⟩
  have hhead : t.head.length = Tbl.firstOffset c := by
    rw [Tbl.length_head t (hcfg ▸ hsig) (hoem ▸ hid) (hoem ▸ htb), hcfg]
  have hhead' : t'.head.length = Tbl.firstOffset c := by
    rw [Tbl.length_head t' (hcfg' ▸ hcfg ▸ hsig) (hoem' ▸ hoem ▸ hid) (hoem' ▸ hoem ▸ htb),
      hcfg', hcfg]
  rw [Tbl.image_eq, Tbl.image_eq, List.drop_left' hhead, List.drop_left' hhead', hbody',
    List.flatten_append]

end Acpi.C05
