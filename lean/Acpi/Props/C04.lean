/-
  C04 — caller values land at their specification offsets (image = reference encoding).
  Also carries C11 (option builders) and C12 (HMAT matrix): the reference layouts of
  Acpi.Spec.Layout give every builder call its *set* meaning (flag = union of the bits of
  the options invoked, valued option = its last value, matrix cell = last value assigned to
  that cell), whereas the model folds the calls in program order like the Rust does.

  Per-kind theorems live in Acpi/Props/C04/*.lean (one file per table family); this file
  assembles them and states the decoding direction.
-/
import Acpi.Tables.Build
import Acpi.Tables.Wf
import Acpi.Spec.Layout
import Acpi.Lemmas.Layout
import Acpi.Props.C04.Madt
import Acpi.Props.C04.SratHmatPptt
import Acpi.Props.C04.RhctRimtViot
import Acpi.Props.C04.CedtHestMisc
namespace Acpi.C04
open Acpi Spec

/-- **C04 (entries)**: for every entry/sub-structure kind with a claimed reference layout, every
    constructor argument tuple and every sequence of builder calls within their Rust types
    (`entryWf`; for RQSC resources additionally the 32-bit ids, `qosCtorWf`), if the program
    does not panic then the serialised bytes are exactly the reference encoding: right size,
    every field at its specification offset with the caller's value, constants and reserved
    fields as specified, and nothing else (the rows tile the structure).

    `.ged` is excluded: ACPI's Generic Error Data Entry starts with a 16-byte section-type
    GUID, the crate has a `u16` (recorded finding, see `ged_counterexample`). -/
theorem entry_conforms (k : Kind) (c : EArgs) (opts : List Opt) (a : EArgs)
    (hk : k ≠ .ged) (hwf : entryWf k c opts = true) (hq : k = .qosctrl → qosCtorWf c)
    (h : buildEntry k c opts = .ok a) :
    layoutOracle k c opts (entryBytes k a) = none := by
  cases k with
  | lapic => exact conforms_lapic c opts a hwf h
  | ioapic => exact conforms_ioapic c opts a hwf h
  | gicc => exact conforms_gicc c opts a hwf h
  | gicd => exact conforms_gicd c opts a hwf h
  | gicmsi => exact conforms_gicmsi c opts a hwf h
  | gicr => exact conforms_gicr c opts a hwf h
  | its => exact conforms_its c opts a hwf h
  | rintc => exact conforms_rintc c opts a hwf h
  | imsic => exact conforms_imsic c opts a hwf h
  | aplic => exact conforms_aplic c opts a hwf h
  | plic => exact conforms_plic c opts a hwf h
  | mem => exact conforms_mem c opts a hwf h
  | gi => exact conforms_gi c opts a hwf h
  | rintcAff => exact conforms_rintcAff c opts a hwf h
  | mpd => exact conforms_mpd c opts a hwf h
  | loc => exact conforms_loc c opts a hwf h
  | msc => exact conforms_msc c opts a hwf h
  | proc => exact conforms_proc c opts a hwf h
  | cache => exact conforms_cache c opts a hwf h
  | isa => exact conforms_isa c opts a hwf h
  | cmo => exact conforms_cmo c opts a hwf h
  | mmu => exact conforms_mmu c opts a hwf h
  | hart => exact conforms_hart c opts a hwf h
  | iommu => exact conforms_iommu c opts a hwf h
  | pcierc => exact conforms_pcierc c opts a hwf h
  | platform => exact conforms_platform c opts a hwf h
  | idmap => exact conforms_idmap c opts a hwf h
  | wire => exact conforms_wire c opts a hwf h
  | pcirange => exact conforms_pcirange c opts a hwf h
  | mmioep => exact conforms_mmioep c opts a hwf h
  | pciiommu => exact conforms_pciiommu c opts a hwf h
  | mmioiommu => exact conforms_mmioiommu c opts a hwf h
  | chbs => exact conforms_chbs c opts a hwf h
  | cfmws => exact conforms_cfmws c opts a hwf h
  | cxims => exact conforms_cxims c opts a hwf h
  | rdpas => exact conforms_rdpas c opts a hwf h
  | aerrp => exact conforms_aerrp c opts a hwf h
  | aerdev => exact conforms_aerdev c opts a hwf h
  | aerbr => exact conforms_aerbr c opts a hwf h
  | ghes => exact conforms_ghes c opts a hwf h
  | ghesv2 => exact conforms_ghesv2 c opts a hwf h
  | notif => exact conforms_notif c opts a hwf h
  | ges => exact conforms_ges c opts a hwf h
  | ged => exact absurd rfl hk
  | ecam => exact conforms_ecam c opts a hwf h
  | xsdtEntry => exact conforms_xsdtEntry c opts a hwf h
  | qosctrl => exact conforms_qosctrl c opts a hwf (hq rfl) h
  | gas => exact conforms_gas c opts a hwf h

/-- what conformance means, spelled out: the image *is* the reference encoding … -/
theorem conforms_iff_render (total : Nat) (rs : List Row) (img : Bytes)
    (h : conforms total rs img = none) :
    img.length = total ∧ tilesFrom 0 total rs = true ∧ img = render rs := by
  unfold conforms tiles at h
  split at h
  · simp at h
  · rename_i hl
    split at h
    · simp at h
    · rename_i ht
      split at h
      · rename_i he
        exact ⟨by simpa using hl, by simpa using ht, he⟩
      · split at h <;> simp at h

/-- … and hence **decoding** it with the specification-derived layout returns exactly the
    caller's values: every row (field) is read back at its offset. -/
theorem decode_rows (total : Nat) (rs : List Row) (img : Bytes)
    (h : conforms total rs img = none) : ∀ r ∈ rs, rowHolds img r = true := by
  obtain ⟨_, ht, he⟩ := conforms_iff_render total rs img h
  have := rowHolds_of_tiles 0 total [] rs rfl ht
  simpa [he] using this

/-- the recorded finding, as a theorem about the model: a default Generic Error Data Entry
    is 58 bytes where the reference encoding has 72 -/
theorem ged_counterexample :
    layoutOracle .ged { n := #[0, 0, 0, 0, 0, 0], b := #[zeros 16, zeros 20, zeros 8] } []
      (entryBytes .ged { n := #[0, 0, 0, 0, 0, 0], b := #[zeros 16, zeros 20, zeros 8] }) ≠ none := by
  decide

/-- non-vacuity: a PPTT cache node built with three builder calls meets the hypotheses -/
example : entryWf .cache {} [⟨"size", [4096]⟩, ⟨"ctype", [2]⟩, ⟨"size", [8192]⟩] = true ∧
    ∃ a, buildEntry .cache {} [⟨"size", [4096]⟩, ⟨"ctype", [2]⟩, ⟨"size", [8192]⟩] = .ok a :=
  ⟨by decide, _, rfl⟩

end Acpi.C04
