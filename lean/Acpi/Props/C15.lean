/-
  C15 — alternative construction paths for the same object emit identical bytes.
-/
import Acpi.Aml.Term
import Acpi.Props.C07
namespace Acpi.C15
open Acpi

/-- **C15 (scope)**: `Scope::raw(path, serialised children)` — which builds `10 path children`,
    grows the vector and splices the PkgLength in with `copy_within` — yields exactly the bytes
    of `Scope::new(path, children)`, at every size (in particular across every PkgLength width
    boundary), and refuses in exactly the same cases. -/
theorem scoperaw_eq_scope (ints : List Nat) (blobs : List Bytes) (kids : AmlList) :
    (Aml.node .scoperaw ints blobs kids).enc = (Aml.node .scope ints blobs kids).enc := by
  simp only [Aml.enc]
  cases hp : pathEnc (blobs.getD 0 []) with
  | none => simp
  | some p =>
    cases hd : catOpt (AmlList.encs kids) with
    | none => simp
    | some d =>
      simp only [Option.bind_eq_bind, Option.bind_some, pkgObj]
      have hl : ([0x10] ++ p ++ d : Bytes).length - 1 = (p ++ d).length := by simp
      rw [hl]
      split
      · rfl
      · simp

/-- **C15 (package)**: a `PackageBuilder` filled element by element equals `Package::new` of
    the list of the same elements (same bytes, same refusals). -/
theorem pkgb_eq_pkg (ints : List Nat) (blobs : List Bytes) (kids : AmlList) :
    (Aml.node .pkgb ints blobs kids).enc = (Aml.node .pkg ints blobs kids).enc := by
  simp only [Aml.enc]
  cases hd : catOpt (AmlList.encs kids) with
  | none => simp
  | some d =>
    simp only [Option.bind_some, pkgObj]
    by_cases h : 255 < kids.length
    · simp [h]
    · simp only [h, if_false]
      have : ([UInt8.ofNat kids.length] ++ d : Bytes).length = d.length + 1 := by simp
      rw [this]
      split <;> simp

/-- **C15 (integers)**: a platform-width and a 64-bit integer of equal value are interchangeable. -/
theorem usize_eq_u64 (ints : List Nat) (blobs : List Bytes) (kids : AmlList) :
    (Aml.node .usize ints blobs kids).enc = (Aml.node .u64 ints blobs kids).enc := rfl

/-- borrowed and owned strings share one encoder (`create_aml_string`): in the model both are
    the constructor `.str`, so there is nothing to prove beyond the correspondence check,
    which serialises the same text once as `&'static str` and once as `String`. -/
theorem str_one_encoder (ints : List Nat) (blobs : List Bytes) (kids : AmlList) :
    (Aml.node .str ints blobs kids).enc = some ([0x0D] ++ blobs.getD 0 [] ++ [0x00]) := rfl

/-- non-vacuity: a scope whose body crosses the one-byte PkgLength boundary -/
example : (Aml.node .scoperaw [] [[0x5F, 0x53, 0x42, 0x5F]]
    (.cons (.node .buf [] [List.replicate 60 7] .nil) .nil)).enc ≠ none := by decide

end Acpi.C15
