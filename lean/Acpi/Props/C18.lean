/-
  C18 — counts and sizes too large for their field are refused, never wrapped.

  The model's refusals are the `none` / `panics` / `error "refused"` outcomes; after the
  `fix:` commits they do not depend on the build profile (every refusal is an `assert!` or a
  checked operation, not an overflow trap), so one theorem per site covers both the build
  with overflow checks and the default release build — the correspondence check runs the
  `overflow` cases against both builds.  The converse half ("bytes returned ⇒ count and length
  fields agree with the content") is what C03 / C06 / C07 / C10 prove under "no panic".
-/
import Acpi.Aml.Term
import Acpi.Tables.Build
import Acpi.Tables.Fixed
import Acpi.Tbl
import Acpi.Props.C07
import Acpi.Props.C09
namespace Acpi.C18
open Acpi

/-- more than 255 package elements (`Package` and `PackageBuilder`) -/
theorem package_refused (op : Op) (hop : op = .pkg ∨ op = .pkgb) (ints : List Nat) (blobs : List Bytes)
    (kids : AmlList) (h : 255 < kids.length) : (Aml.node op ints blobs kids).enc = none := by
  rcases hop with rfl | rfl
  · simp [Aml.enc, h]
  · simp only [Aml.enc]
    cases catOpt (AmlList.encs kids) <;> simp [h]

/-- more than 255 name segments -/
theorem name_segments_refused (p : Path) (h : 255 < p.parts.length) : p.encPanics = true :=
  C09.refuses_long p h

/-- more than 7 method arguments -/
theorem method_args_refused (ints : List Nat) (blobs : List Bytes) (kids : AmlList)
    (h : 7 < ints.getD 0 0) : (Aml.node .method ints blobs kids).enc = none := by
  simp only [Aml.enc]
  rw [if_pos h]

/-- a PkgLength of 2^28 or more (both forms), hence every length-prefixed object whose body
    does not fit -/
theorem pkglength_refused (len : Nat) (incl : Bool) (h : 2 ^ 28 ≤ pkgLenTotal len incl) :
    pkgLenPanics len incl = true := (C07.refused_iff len incl).mpr h

theorem object_refused (opcode body : Bytes) (h : 2 ^ 28 ≤ pkgLenTotal body.length true) :
    pkgObj opcode body = none := by
  simp [pkgObj, pkgLenPanics, h]

/-- an address range whose size does not fit its width, or with maximum below minimum -/
theorem address_range_refused (bits ty tf mn mx tr : Nat) (h : mx < mn ∨ 2 ^ bits ≤ mx - mn + 1) :
    addrSpace bits ty tf mn mx tr = none := by
  simp [addrSpace, h]

/-- sub-structures longer than their one- or two-byte length field -/
theorem pptt_processor_refused (a : EArgs) (h : 255 < 20 + 4 * (a.s.getD 0 []).length) :
    panics .proc a = true := by simp only [panics]; exact decide_eq_true h
theorem cxims_refused (a : EArgs) (h : 255 < (a.s.getD 0 []).length) : panics .cxims a = true := by
  simp only [panics]; exact decide_eq_true h
theorem hmat_smbios_refused (a : EArgs) (h : 65535 < (a.s.getD 0 []).length) : panics .msc a = true := by
  simp only [panics]; exact decide_eq_true h
theorem rhct_hart_refused (a : EArgs) (h : 65535 < 12 + 4 * (a.s.getD 0 []).length) :
    panics .hart a = true := by simp only [panics]; exact decide_eq_true h
theorem rimt_iommu_refused (a : EArgs) (h : 65535 < 32 + 8 * (if a.num 10 ≠ 0 then a.s.length else 0)) :
    panics .iommu a = true := by simp only [panics]; exact decide_eq_true h
theorem rimt_pcierc_refused (a : EArgs) (h : 65535 < 16 + 20 * (if a.num 4 ≠ 0 then a.s.length else 0)) :
    panics .pcierc a = true := by simp only [panics]; exact decide_eq_true h
theorem rimt_platform_refused (a : EArgs)
    (h : 65535 < 12 + (a.blob 0).length + 1 + 20 * (if a.num 1 ≠ 0 then a.s.length else 0)) :
    panics .platform a = true := by simp only [panics]; exact decide_eq_true h

/-- a refusal inside serialisation refuses the whole builder program -/
theorem build_refused (k : Kind) (c : EArgs) (opts : List Opt) (a : EArgs)
    (hc : ctorPanics k c = false) (ha : applyOpts k (init k c) opts = .ok a) (hp : panics k a = true) :
    buildEntry k c opts = .error "refused" := by
  simp [buildEntry, hc, ha, hp]

/-- VIOT: a node whose end would lie beyond the 16-bit offset field is refused by the table -/
theorem viot_offset_refused (t : Tbl) (raw : Bytes) (claimed : Nat) (fed : UInt8) (m : Nat)
    (hm : t.cfg.maxOffset = some m) (h : m < t.handleOffset + claimed) :
    t.add raw claimed fed = none := by
  simp [Tbl.add, hm, h]

/-- SLIT: a locality count whose square (plus the 44 fixed bytes) does not fit 32 bits -/
theorem slit_refused (o : Oem) (c : EArgs) (h : 2 ^ 32 ≤ c.num 0 * c.num 0 + 44) :
    FixedState.new .slit o c = none := by
  simp only [FixedState.new]
  rw [if_pos (Or.inr h)]

/-- non-vacuity: 59 cache references make a processor node 256 bytes long -/
example : panics .proc { s := [List.replicate 59 0] } = true := by decide

end Acpi.C18
