/-
  C03 — table bodies are exactly tiled by self-describing entries; counts agree (engine part).
-/
import Acpi.Tbl
import Acpi.Spec.Walk
import Acpi.Lemmas.Tbl
import Acpi.Props.C02
namespace Acpi.C03
open Acpi Spec

/-- an entry is self-describing for walk style `k`: it announces type `ty` and its own
    length, and is at least as long as the header that carries them -/
def SelfDescribing (k : WalkKind) (ty : Nat) (raw : Bytes) : Prop :=
  entryHdr k raw = some (ty, raw.length) ∧ hdrSize k ≤ raw.length ∧ 0 < raw.length

instance (k : WalkKind) (ty : Nat) (raw : Bytes) : Decidable (SelfDescribing k ty raw) := by
  unfold SelfDescribing; infer_instance

/-- **C03 (walk)**: a concatenation of self-describing entries is walked back into exactly
    those entries, in order, with their type codes, ending exactly at the end. -/
theorem walk_flatten (k : WalkKind) (es : List (Nat × Bytes))
    (h : ∀ e ∈ es, SelfDescribing k e.1 e.2) (fuel : Nat)
    (hf : (es.map (·.2)).flatten.length ≤ fuel) :
    walk k fuel (es.map (·.2)).flatten = some es :=
  walk_flatten_aux k es h fuel hf

/-- **C03 (engine)**: for a table whose first-entry offset is the engine's, whose entries are
    self-describing, whose count field (if any) is the engine's and whose array-offset field (if
    any) is the constant stored at the start of the engine's `post` bytes, the specification's
    walk of the emitted image finds exactly the entries added, the count agrees (modulo the
    width of its field) and the array-offset field reads back the specified value. -/
theorem table_entries (c : TblCfg) (o : Oem) (hw : C02.CfgWf c o) (sh : TableShape)
    (hfirst : sh.first = Tbl.firstOffset c)
    (hcount : sh.count = if c.cw = 0 then none else some (36 + c.pre.length, c.cw))
    (harr : ∀ off w v, sh.arrayOff = some (off, w, v) →
      off = 36 + c.pre.length + c.cw ∧ c.post.take w = leN w v ∧ w ≤ c.post.length ∧ v < 256 ^ w)
    (es : List (Bytes × Nat)) (tys : List Nat) (hty : tys.length = es.length)
    (hsd : ∀ i (hi : i < es.length), SelfDescribing sh.kind (tys[i]'(hty ▸ hi)) es[i].1)
    (hs : List Nat) (t : Tbl) (h : runAdds (Tbl.new c o) es = some (hs, t)) :
    tableEntries sh t.image = .ok (tys.zip (es.map (·.1))) := by
  obtain ⟨hsig, hid, htb⟩ := hw
  obtain ⟨hcfg, hoem, hbody, hcnt, -⟩ := runAdds_struct es _ hs t h
  simp only [Tbl.new_cfg, Tbl.new_oem, Tbl.new_body, Tbl.new_count, List.nil_append,
    Nat.zero_add] at hcfg hoem hbody hcnt
  have hsig' : t.cfg.sig.length = 4 := hcfg ▸ hsig
  have hid' : t.oem.id.length = 6 := hoem ▸ hid
  have htb' : t.oem.table.length = 8 := hoem ▸ htb
  have hhead : t.head.length = sh.first := by
    rw [Tbl.length_head t hsig' hid' htb', hcfg, hfirst]
  have hlen : tys.length = (es.map (·.1)).length := by rw [List.length_map, hty]
  have hzl : (tys.zip (es.map (·.1))).length = es.length := by
    rw [List.length_zip, hlen, Nat.min_self, List.length_map]
  have hmap : (tys.zip (es.map (·.1))).map (·.2) = es.map (·.1) := zip_map_snd _ _ hlen
  have hall : ∀ e ∈ tys.zip (es.map (·.1)), SelfDescribing sh.kind e.1 e.2 := by
    intro e he
    obtain ⟨i, hi, rfl⟩ := List.mem_iff_getElem.mp he
    rw [hzl] at hi
    have := hsd i hi
    simpa only [List.getElem_zip, List.getElem_map] using this
  apply tableEntries_ok
  · rw [Tbl.image_eq, List.length_append, hhead]; omega
  · have hwalk := walk_flatten sh.kind _ hall t.image.length (by
      rw [hmap, Tbl.image_eq, List.length_append, hbody]; omega)
    rw [hmap] at hwalk
    rw [Tbl.image_eq, hbody] at hwalk ⊢
    rw [List.drop_left' hhead]
    exact hwalk
  · intro off w hc
    rw [hcount] at hc
    split at hc
    · cases hc
    · cases hc
      rw [hzl, ← hcnt, ← hcfg]
      exact readAt_count t hsig' hid' htb'
  · intro off w v ha
    obtain ⟨rfl, hp, -, hv⟩ := harr off w v ha
    rw [← hcfg] at hp ⊢
    rw [readAt_post t hsig' hid' htb' w v hp, Nat.mod_eq_of_lt hv]

/-! ### the twelve concrete tables satisfy the side conditions -/

/-- the side conditions of `table_entries` relating a specification shape to an engine
    configuration -/
def ShapeMatches (sh : TableShape) (c : TblCfg) : Prop :=
  c.sig.length = 4 ∧
  sh.first = Tbl.firstOffset c ∧
  sh.count = (if c.cw = 0 then none else some (36 + c.pre.length, c.cw)) ∧
  ∀ off w v, sh.arrayOff = some (off, w, v) →
    off = 36 + c.pre.length + c.cw ∧ c.post.take w = leN w v ∧ w ≤ c.post.length ∧ v < 256 ^ w

theorem shape_xsdt : ∃ sh, shapeOf "xsdt" = some sh ∧ ShapeMatches sh cfgXSDT :=
  ⟨_, rfl, rfl, rfl, rfl, fun _ _ _ h => nomatch h⟩
theorem shape_madt (l : UInt32) : ∃ sh, shapeOf "madt" = some sh ∧ ShapeMatches sh (cfgMADT l) :=
  ⟨_, rfl, rfl, rfl, rfl, fun _ _ _ h => nomatch h⟩
theorem shape_rhct (tb : UInt64) : ∃ sh, shapeOf "rhct" = some sh ∧ ShapeMatches sh (cfgRHCT tb) := by
  refine ⟨_, rfl, rfl, rfl, rfl, ?_⟩
  intro off w v h
  cases h
  exact ⟨rfl, (by decide : (u32le 56).take 4 = leN 4 56), Nat.le_refl 4, by decide⟩

theorem shape_mcfg : ∃ sh, shapeOf "mcfg" = some sh ∧ ShapeMatches sh cfgMCFG :=
  ⟨_, rfl, rfl, rfl, rfl, fun _ _ _ h => nomatch h⟩
theorem shape_srat : ∃ sh, shapeOf "srat" = some sh ∧ ShapeMatches sh cfgSRAT :=
  ⟨_, rfl, rfl, rfl, rfl, fun _ _ _ h => nomatch h⟩
theorem shape_hmat : ∃ sh, shapeOf "hmat" = some sh ∧ ShapeMatches sh cfgHMAT :=
  ⟨_, rfl, rfl, rfl, rfl, fun _ _ _ h => nomatch h⟩
theorem shape_pptt : ∃ sh, shapeOf "pptt" = some sh ∧ ShapeMatches sh cfgPPTT :=
  ⟨_, rfl, rfl, rfl, rfl, fun _ _ _ h => nomatch h⟩
theorem shape_cedt : ∃ sh, shapeOf "cedt" = some sh ∧ ShapeMatches sh cfgCEDT :=
  ⟨_, rfl, rfl, rfl, rfl, fun _ _ _ h => nomatch h⟩
theorem shape_hest : ∃ sh, shapeOf "hest" = some sh ∧ ShapeMatches sh cfgHEST :=
  ⟨_, rfl, rfl, rfl, rfl, fun _ _ _ h => nomatch h⟩
theorem shape_rqsc : ∃ sh, shapeOf "rqsc" = some sh ∧ ShapeMatches sh cfgRQSC :=
  ⟨_, rfl, rfl, rfl, rfl, fun _ _ _ h => nomatch h⟩
theorem shape_rimt : ∃ sh, shapeOf "rimt" = some sh ∧ ShapeMatches sh cfgRIMT := by
  refine ⟨_, rfl, rfl, rfl, rfl, ?_⟩
  intro off w v h
  cases h
  exact ⟨rfl, by decide, by decide, by decide⟩
theorem shape_viot : ∃ sh, shapeOf "viot" = some sh ∧ ShapeMatches sh cfgVIOT := by
  refine ⟨_, rfl, rfl, rfl, rfl, ?_⟩
  intro off w v h
  cases h
  exact ⟨rfl, by decide, by decide, by decide⟩

/-- `table_entries` with the side conditions packaged -/
theorem table_entries_of_shape (c : TblCfg) (o : Oem) (ho : o.id.length = 6 ∧ o.table.length = 8)
    (sh : TableShape) (hm : ShapeMatches sh c)
    (es : List (Bytes × Nat)) (tys : List Nat) (hty : tys.length = es.length)
    (hsd : ∀ i (hi : i < es.length), SelfDescribing sh.kind (tys[i]'(hty ▸ hi)) es[i].1)
    (hs : List Nat) (t : Tbl) (h : runAdds (Tbl.new c o) es = some (hs, t)) :
    tableEntries sh t.image = .ok (tys.zip (es.map (·.1))) :=
  table_entries c o ⟨hm.1, ho.1, ho.2⟩ sh hm.2.1 hm.2.2.1 hm.2.2.2 es tys hty hsd hs t h

/-- non-vacuity: self-describing entries exist for a header style, and the hypotheses of
    `table_entries_of_shape` are jointly satisfiable on a VIOT-shaped history -/
theorem sd_example : SelfDescribing .t8l16 3 [3, 0, 6, 0, 9, 9] ∧ SelfDescribing .t8l16 4 [4, 0, 4, 0] := by
  decide

example : ∃ sh hs t, shapeOf "viot" = some sh ∧
    runAdds (Tbl.new cfgVIOT ⟨[1,2,3,4,5,6], [1,2,3,4,5,6,7,8], 7⟩)
      [([3, 0, 6, 0, 9, 9], 6), ([4, 0, 4, 0], 4)] = some (hs, t) ∧
    tableEntries sh t.image = .ok [(3, [3, 0, 6, 0, 9, 9]), (4, [4, 0, 4, 0])] := by
  obtain ⟨sh, hsh, hm⟩ := shape_viot
  refine ⟨sh, _, _, hsh, rfl, ?_⟩
  cases hsh
  exact table_entries_of_shape cfgVIOT _ ⟨rfl, rfl⟩ _ hm
    [([3, 0, 6, 0, 9, 9], 6), ([4, 0, 4, 0], 4)] [3, 4] rfl
    (by intro i hi
        match i, hi with
        | 0, _ => exact sd_example.1
        | 1, _ => exact sd_example.2) _ _ rfl

end Acpi.C03
