/-
  C16 — EISA identifiers and UUIDs are encoded per the ACPI compression rules.
  Model: Acpi.Aml.Eisa (mirror of `EISAName::new`, `Uuid::new`); spec: Acpi.Spec.Eisa.
-/
import Acpi.Aml.Eisa
import Acpi.Spec.Eisa
import Acpi.Spec.Int
import Acpi.Props.C08
import Acpi.Lemmas.Eisa
namespace Acpi.C16
open Acpi Spec.Eisa Lemmas.Eisa

/-- ASCII view of a character list (the UTF-8 bytes of an ASCII string) -/
def asciiBytes (cs : List Char) : Bytes := cs.map (fun c => UInt8.ofNat c.toNat)

/-- the i-th upper-case letter -/
def letter (i : Fin 26) : Char := Char.ofNat (65 + i.val)

/-- a spelling of the hex digit `d`: `0-9`, and `A-F` or `a-f` according to `upper` -/
def hexCh (d : Fin 16) (upper : Bool) : Char :=
  if d.val < 10 then Char.ofNat (48 + d.val)
  else if upper then Char.ofNat (55 + d.val) else Char.ofNat (87 + d.val)

/-- **C16 refusal (EISA)**: a string whose byte length is not 7 is refused. -/
theorem eisa_wrong_length (bytes : Bytes) (chars : List Char) (h : bytes.length ≠ 7) :
    eisaValue bytes chars = none := by
  simp [eisaValue, h]

/-- **C16 refusal (EISA)**: a non-hex character (or none at all) at any of the four digit
    positions is refused. -/
theorem eisa_nonhex (bytes : Bytes) (chars : List Char) (k : Nat) (hk : k = 3 ∨ k = 4 ∨ k = 5 ∨ k = 6)
    (h : (chars[k]?).bind toDigit16 = none) : eisaValue bytes chars = none := by
  unfold eisaValue
  split
  · rfl
  · rcases hk with rfl | rfl | rfl | rfl <;>
      (simp only [h]; cases subBase bytes[0]! <;> cases subBase bytes[1]! <;> cases subBase bytes[2]! <;>
        simp [Option.bind] <;> (repeat' split) <;> simp_all)

/-- the emitted object is the integer constant of the compressed value -/
theorem eisa_emits_integer (bytes : Bytes) (chars : List Char) (v : UInt32)
    (h : eisaValue bytes chars = some v) : eisaEnc bytes chars = some (Spec.Int.enc v.toNat) := by
  simp [eisaEnc, h, C08.encU32_spec]

/-- **C16 refusal (UUID)**: a string that is not 36 characters long is refused. -/
theorem uuid_wrong_length (cs : List Char) (h : cs.length ≠ 36) : uuidBytes cs = none := by
  simp [uuidBytes, h]

/-- **C16 refusal (UUID)**: a separator missing at 8, 13, 18 or 23 is refused. -/
theorem uuid_misplaced_dash (cs : List Char)
    (h : cs[8]! ≠ '-' ∨ cs[13]! ≠ '-' ∨ cs[18]! ≠ '-' ∨ cs[23]! ≠ '-') : uuidBytes cs = none := by
  unfold uuidBytes
  by_cases hl : cs.length ≠ 36
  · rw [if_pos hl]
  · rw [if_neg hl, if_pos h]

/-! ### acceptance and round trip -/

theorem subBase_letter : ∀ l : Fin 26,
    subBase (UInt8.ofNat (letter l).toNat) = some (UInt32.ofNat (l.val + 1)) := by
  decide +kernel

theorem toDigit16_hexCh : ∀ (d : Fin 16) (u : Bool),
    toDigit16 (hexCh d u) = some (UInt32.ofNat d.val) := by
  decide +kernel

theorem hexUpper_eq (d : Fin 16) : hexUpper d.val = hexCh d true := by
  revert d; decide +kernel

/-- the model evaluated on a canonical id: no panic, and the value is the packed word swapped -/
theorem eisaValue_canon (l1 l2 l3 : Fin 26) (d1 d2 d3 d4 : Fin 16) (u1 u2 u3 u4 : Bool) :
    eisaValue (asciiBytes [letter l1, letter l2, letter l3, hexCh d1 u1, hexCh d2 u2, hexCh d3 u3, hexCh d4 u4])
      [letter l1, letter l2, letter l3, hexCh d1 u1, hexCh d2 u2, hexCh d3 u3, hexCh d4 u4] =
    some (swapBytes ((UInt32.ofNat (l1.val+1) <<< 26) ||| (UInt32.ofNat (l2.val+1) <<< 21) |||
      (UInt32.ofNat (l3.val+1) <<< 16) ||| (UInt32.ofNat d1.val <<< 12) ||| (UInt32.ofNat d2.val <<< 8)
      ||| (UInt32.ofNat d3.val <<< 4) ||| UInt32.ofNat d4.val)) := by
  unfold eisaValue asciiBytes
  rw [if_neg (by simp)]
  simp only [List.map_cons, List.getElem!_cons_zero, List.getElem!_cons_succ, List.getElem?_cons_zero,
    List.getElem?_cons_succ, subBase_letter, toDigit16_hexCh, Option.bind_some, Option.bind_eq_bind]

/-- **C16 (EISA)**: every canonical id (three letters A–Z, four hex digits in either case) is
    accepted, and the 32-bit value decompresses, by the specification's rule, to the same id
    (digits upper-cased). -/
theorem eisa_roundtrip (l1 l2 l3 : Fin 26) (d1 d2 d3 d4 : Fin 16) (u1 u2 u3 u4 : Bool) :
    ∃ v : UInt32,
      eisaValue (asciiBytes [letter l1, letter l2, letter l3, hexCh d1 u1, hexCh d2 u2, hexCh d3 u3, hexCh d4 u4])
        [letter l1, letter l2, letter l3, hexCh d1 u1, hexCh d2 u2, hexCh d3 u3, hexCh d4 u4] = some v ∧
      decompress v.toNat =
        [letter l1, letter l2, letter l3, hexCh d1 true, hexCh d2 true, hexCh d3 true, hexCh d4 true] := by
  refine ⟨_, eisaValue_canon l1 l2 l3 d1 d2 d3 d4 u1 u2 u3 u4, ?_⟩
  have a1 := toNat_ofNat_small (l1.val + 1) (by omega)
  have a2 := toNat_ofNat_small (l2.val + 1) (by omega)
  have a3 := toNat_ofNat_small (l3.val + 1) (by omega)
  have b1 := toNat_ofNat_small d1.val (by omega)
  have b2 := toNat_ofNat_small d2.val (by omega)
  have b3 := toNat_ofNat_small d3.val (by omega)
  have b4 := toNat_ofNat_small d4.val (by omega)
  have hp := pack_toNat (UInt32.ofNat (l1.val+1)) (UInt32.ofNat (l2.val+1)) (UInt32.ofNat (l3.val+1))
    (UInt32.ofNat d1.val) (UInt32.ofNat d2.val) (UInt32.ofNat d3.val) (UInt32.ofNat d4.val)
    (by omega) (by omega) (by omega) (by omega) (by omega) (by omega) (by omega)
  rw [a1, a2, a3, b1, b2, b3, b4] at hp
  have hd := decompress_swapped (l1.val+1) (l2.val+1) (l3.val+1) d1.val d2.val d3.val d4.val
    (by omega) (by omega) (by omega) (by omega) (by omega) (by omega) (by omega) _ _ hp (swapBytes_toNat _)
  rw [hd, hexUpper_eq, hexUpper_eq, hexUpper_eq, hexUpper_eq]
  have e : ∀ l : Fin 26, Char.ofNat (64 + (l.val + 1)) = letter l := by
    intro l; unfold letter; congr 1; omega
  rw [e, e, e]

/-- a valid UUID string: 32 hex digits `ds` (spelled per `us`) with dashes at 8, 13, 18, 23 -/
def uuidString (ds : Fin 32 → Fin 16) (us : Fin 32 → Bool) : List Char :=
  [hexCh (ds ⟨0, by decide⟩) (us ⟨0, by decide⟩), hexCh (ds ⟨1, by decide⟩) (us ⟨1, by decide⟩),
   hexCh (ds ⟨2, by decide⟩) (us ⟨2, by decide⟩), hexCh (ds ⟨3, by decide⟩) (us ⟨3, by decide⟩),
   hexCh (ds ⟨4, by decide⟩) (us ⟨4, by decide⟩), hexCh (ds ⟨5, by decide⟩) (us ⟨5, by decide⟩),
   hexCh (ds ⟨6, by decide⟩) (us ⟨6, by decide⟩), hexCh (ds ⟨7, by decide⟩) (us ⟨7, by decide⟩),
   '-', hexCh (ds ⟨8, by decide⟩) (us ⟨8, by decide⟩),
   hexCh (ds ⟨9, by decide⟩) (us ⟨9, by decide⟩), hexCh (ds ⟨10, by decide⟩) (us ⟨10, by decide⟩),
   hexCh (ds ⟨11, by decide⟩) (us ⟨11, by decide⟩), '-',
   hexCh (ds ⟨12, by decide⟩) (us ⟨12, by decide⟩), hexCh (ds ⟨13, by decide⟩) (us ⟨13, by decide⟩),
   hexCh (ds ⟨14, by decide⟩) (us ⟨14, by decide⟩), hexCh (ds ⟨15, by decide⟩) (us ⟨15, by decide⟩),
   '-', hexCh (ds ⟨16, by decide⟩) (us ⟨16, by decide⟩),
   hexCh (ds ⟨17, by decide⟩) (us ⟨17, by decide⟩), hexCh (ds ⟨18, by decide⟩) (us ⟨18, by decide⟩),
   hexCh (ds ⟨19, by decide⟩) (us ⟨19, by decide⟩), '-',
   hexCh (ds ⟨20, by decide⟩) (us ⟨20, by decide⟩), hexCh (ds ⟨21, by decide⟩) (us ⟨21, by decide⟩),
   hexCh (ds ⟨22, by decide⟩) (us ⟨22, by decide⟩), hexCh (ds ⟨23, by decide⟩) (us ⟨23, by decide⟩),
   hexCh (ds ⟨24, by decide⟩) (us ⟨24, by decide⟩), hexCh (ds ⟨25, by decide⟩) (us ⟨25, by decide⟩),
   hexCh (ds ⟨26, by decide⟩) (us ⟨26, by decide⟩), hexCh (ds ⟨27, by decide⟩) (us ⟨27, by decide⟩),
   hexCh (ds ⟨28, by decide⟩) (us ⟨28, by decide⟩), hexCh (ds ⟨29, by decide⟩) (us ⟨29, by decide⟩),
   hexCh (ds ⟨30, by decide⟩) (us ⟨30, by decide⟩), hexCh (ds ⟨31, by decide⟩) (us ⟨31, by decide⟩)]

theorem hex2byte_hexCh : ∀ (d1 d2 : Fin 16) (u1 u2 : Bool),
    hex2byte (hexCh d1 u1) (hexCh d2 u2) = some (UInt8.ofNat (16 * d1.val + d2.val)) := by
  decide +kernel

theorem byteLower_hexCh : ∀ (d1 d2 : Fin 16),
    byteLower (UInt8.ofNat (16 * d1.val + d2.val)) = [hexCh d1 false, hexCh d2 false] := by
  decide +kernel

/-- **C16 (UUID)**: every canonical 36-character UUID string (either letter case) is accepted,
    the buffer has 16 bytes, and reading it back in ToUUID order gives the same UUID in
    lower case. -/
theorem uuid_roundtrip (ds : Fin 32 → Fin 16) (us : Fin 32 → Bool) :
    ∃ b : Bytes, uuidBytes (uuidString ds us) = some b ∧ b.length = 16 ∧
      uuidOfBuffer b = some (uuidString ds (fun _ => false)) := by
  unfold uuidBytes
  rw [if_neg (by intro h; exact h rfl), if_neg (by intro h; rcases h with h | h | h | h <;> exact h rfl)]
  simp only [uuidString, List.getElem!_cons_zero, List.getElem!_cons_succ, hex2byte_hexCh]
  simp only [List.mapM_cons, List.mapM_nil, id_eq, Option.pure_def, Option.bind_eq_bind, Option.bind_some]
  refine ⟨_, rfl, rfl, ?_⟩
  simp only [uuidOfBuffer, byteLower_hexCh, List.cons_append, List.nil_append]

/-- **C16 refusal (UUID)**: a non-hex character at any of the 32 digit positions is refused. -/
theorem uuid_nonhex (cs : List Char) (k : Nat) (hk : k < 36) (hd : k ≠ 8 ∧ k ≠ 13 ∧ k ≠ 18 ∧ k ≠ 23)
    (h : toDigit16 cs[k]! = none) : uuidBytes cs = none := by
  by_cases hl : cs.length = 36
  · by_cases hdash : (cs[8]! ≠ '-' ∨ cs[13]! ≠ '-' ∨ cs[18]! ≠ '-' ∨ cs[23]! ≠ '-')
    · exact uuid_misplaced_dash cs hdash
    · rw [uuidBytes_eq cs hl hdash]
      apply mapM_id_none_of_mem
      obtain ⟨p, hp, hpk⟩ := uuidPairs_cover ⟨k, hk⟩ hd
      apply List.mem_map.mpr
      refine ⟨p, hp, ?_⟩
      rcases hpk with e | e
      · exact hex2byte_none_left _ _ (by rw [e]; exact h)
      · exact hex2byte_none_right _ _ (by rw [e]; exact h)
  · exact uuid_wrong_length cs hl

end Acpi.C16
