/-
  C16 — EISA identifiers and UUIDs are encoded per the ACPI compression rules.
  Model: Acpi.Aml.Eisa (mirror of `EISAName::new`, `Uuid::new`); spec: Acpi.Spec.Eisa.
-/
import Acpi.Aml.Eisa
import Acpi.Spec.Eisa
import Acpi.Spec.Int
import Acpi.Props.C08
namespace Acpi.C16
open Acpi Spec.Eisa

/-- ASCII view of a character list (the UTF-8 bytes of an ASCII string) -/
def asciiBytes (cs : List Char) : Bytes := cs.map (fun c => UInt8.ofNat c.toNat)

/-- the i-th upper-case letter -/
def letter (i : Fin 26) : Char := Char.ofNat (65 + i.val)

/-- a spelling of the hex digit `d`: `0-9`, and `A-F` or `a-f` according to `upper` -/
def hexCh (d : Fin 16) (upper : Bool) : Char :=
  if d.val < 10 then Char.ofNat (48 + d.val)
  else if upper then Char.ofNat (55 + d.val) else Char.ofNat (87 + d.val)

/-- **C16 refusal (EISA)**: a string whose byte length is not 7 is refused. -/
theorem eisa_wrong_length (bytes : Bytes) (chars : List Char) (h : bytes.length ≠ 7) :
    eisaValue bytes chars = none := by
  simp [eisaValue, h]

/-- **C16 refusal (EISA)**: a non-hex character (or none at all) at any of the four digit
    positions is refused. -/
theorem eisa_nonhex (bytes : Bytes) (chars : List Char) (k : Nat) (hk : k = 3 ∨ k = 4 ∨ k = 5 ∨ k = 6)
    (h : (chars[k]?).bind toDigit16 = none) : eisaValue bytes chars = none := by
  unfold eisaValue
  split
  · rfl
  · rcases hk with rfl | rfl | rfl | rfl <;>
      (simp only [h]; cases subBase bytes[0]! <;> cases subBase bytes[1]! <;> cases subBase bytes[2]! <;>
        simp [Option.bind] <;> (repeat' split) <;> simp_all)

/-- the emitted object is the integer constant of the compressed value -/
theorem eisa_emits_integer (bytes : Bytes) (chars : List Char) (v : UInt32)
    (h : eisaValue bytes chars = some v) : eisaEnc bytes chars = some (Spec.Int.enc v.toNat) := by
  simp [eisaEnc, h, C08.encU32_spec]

/-- **C16 refusal (UUID)**: a string that is not 36 characters long is refused. -/
theorem uuid_wrong_length (cs : List Char) (h : cs.length ≠ 36) : uuidBytes cs = none := by
  simp [uuidBytes, h]

/-- **C16 refusal (UUID)**: a separator missing at 8, 13, 18 or 23 is refused. -/
theorem uuid_misplaced_dash (cs : List Char)
    (h : cs[8]! ≠ '-' ∨ cs[13]! ≠ '-' ∨ cs[18]! ≠ '-' ∨ cs[23]! ≠ '-') : uuidBytes cs = none := by
  unfold uuidBytes
  by_cases hl : cs.length ≠ 36
  · rw [if_pos hl]
  · rw [if_neg hl, if_pos h]

end Acpi.C16
