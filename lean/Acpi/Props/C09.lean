/-
  C09 — name paths encode to the specification's NameString form and back.
-/
import Acpi.Aml.Path
import Acpi.Spec.NameString
import Acpi.Lemmas.Basic
namespace Acpi.C09
open Acpi Spec.NameString

/-! ### `splitDot` is `split('.')` -/

theorem splitDot_ne_nil (s : Bytes) : splitDot s ≠ [] := by
  induction s with
  | nil => simp [splitDot]
  | cons b bs ih =>
    unfold splitDot
    split
    · simp
    · split <;> simp

/-- joining the pieces with dots gives the string back -/
theorem splitDot_join (s : Bytes) : [(0x2E : UInt8)].intercalate (splitDot s) = s := by
  induction s with
  | nil => simp [splitDot, List.intercalate]
  | cons b bs ih =>
    unfold splitDot
    split
    · rename_i h; subst h
      have := splitDot_ne_nil bs
      cases hs : splitDot bs with
      | nil => exact absurd hs this
      | cons p ps => rw [hs] at ih; simp [List.intercalate, List.intersperse] at ih ⊢; exact ih
    · split
      · rename_i h; exact absurd h (splitDot_ne_nil bs)
      · rename_i p ps h
        rw [h] at ih
        cases ps with
        | nil => simp [List.intercalate, List.intersperse] at ih ⊢; exact ih
        | cons q qs => simp [List.intercalate, List.intersperse] at ih ⊢; exact ih

/-- no piece contains a dot -/
theorem splitDot_no_dot (s : Bytes) : ∀ p ∈ splitDot s, (0x2E : UInt8) ∉ p := by
  induction s with
  | nil => simp [splitDot]
  | cons b bs ih =>
    unfold splitDot
    split
    · intro p hp
      simp at hp
      rcases hp with rfl | hp
      · simp
      · exact ih p hp
    · rename_i hb
      split
      · intro p hp; simp at hp; subst hp; simp; exact fun h => hb h.symm
      · rename_i p ps h
        rw [h] at ih
        intro q hq
        simp at hq
        rcases hq with rfl | hq
        · have := ih p (by simp)
          simp; exact ⟨fun h => hb h.symm, this⟩
        · exact ih q (by simp [hq])

/-- **C09(a)** refusal: `Path::new` panics exactly when some dot-separated piece (after the
    optional root character) is not 4 bytes long; otherwise it keeps the pieces verbatim. -/
theorem new_none_iff (s : Bytes) :
    Path.new s = none ↔ ∃ p ∈ splitDot (Path.body s), p.length ≠ 4 := by
  unfold Path.new
  split
  · rename_i h; simp at h
    constructor
    · intro h'; simp at h'
    · intro ⟨p, hp, hne⟩; exact absurd (h p hp) hne
  · rename_i h; simp at h
    simpa using h

theorem new_some (s : Bytes) (p : Path) (h : Path.new s = some p) :
    p.root = Path.isRooted s ∧ p.parts = splitDot (Path.body s) ∧
    (∀ q ∈ p.parts, q.length = 4) ∧ 1 ≤ p.parts.length := by
  unfold Path.new at h
  split at h
  · rename_i hall
    simp at hall
    injection h with h; subst h
    refine ⟨rfl, rfl, hall, ?_⟩
    have := splitDot_ne_nil (Path.body s)
    cases hs : splitDot (Path.body s) with
    | nil => exact absurd hs this
    | cons a b => simp
  · simp at h

/-- **C09(b)** form: root character if rooted; nothing / DualNamePrefix / MultiNamePrefix
    + count; then the segments verbatim. -/
theorem enc_form (p : Path) :
    p.enc = (if p.root then [0x5C] else []) ++
      (if p.parts.length ≤ 1 then [] else if p.parts.length = 2 then [0x2E]
       else [0x2F, UInt8.ofNat p.parts.length]) ++ p.parts.flatten := by
  unfold Path.enc namePrefix
  congr 2
  rcases hn : p.parts.length with _ | _ | _ | n <;> simp

/-! ### round trip through the specification's decoder -/

theorem segs_flatten (parts : List Bytes) (rest : Bytes) (h : ∀ q ∈ parts, isSeg q = true) :
    segs parts.length (parts.flatten ++ rest) = some (parts, rest) := by
  induction parts with
  | nil => simp [segs]
  | cons q qs ih =>
    have hq : isSeg q = true := h q (by simp)
    have hl : q.length = 4 := by
      unfold isSeg at hq; split at hq <;> simp_all
    simp only [List.length_cons, segs, List.flatten_cons, List.append_assoc]
    rw [List.take_left' hl, List.drop_left' hl]
    simp [hq, ih (fun x hx => h x (by simp [hx]))]

theorem lead_of_seg (q : Bytes) (h : isSeg q = true) :
    ∃ a t, q = a :: t ∧ isLead a = true := by
  unfold isSeg at h
  split at h
  · rename_i a b c d; exact ⟨a, [b, c, d], rfl, by simp_all⟩
  · simp at h

theorem lead_ne (a : UInt8) (h : isLead a = true) : a ≠ 0x2E ∧ a ≠ 0x2F ∧ a ≠ 0x5C := by
  refine ⟨?_, ?_, ?_⟩ <;> (intro e; subst e; revert h; decide)

theorem namePath_tail (parts : List Bytes) (rest : Bytes) (h : ∀ q ∈ parts, isSeg q = true)
    (h1 : 1 ≤ parts.length) (h2 : parts.length ≤ 255) :
    namePath (namePrefix parts.length ++ parts.flatten ++ rest) = some (parts, rest) ∧
    (namePrefix parts.length ++ parts.flatten ++ rest).head? ≠ some 0x5C := by
  have hs := segs_flatten parts rest h
  match parts, h, h1, h2, hs with
  | [q], h, _, _, hs =>
    obtain ⟨a, t, rfl, ha⟩ := lead_of_seg q (h q (by simp))
    obtain ⟨n1, n2, n3⟩ := lead_ne a ha
    simp only [namePrefix, List.length_cons, List.length_nil, List.nil_append,
      List.flatten_cons, List.flatten_nil, List.append_nil, List.cons_append] at hs ⊢
    refine ⟨?_, by simpa using n3⟩
    unfold namePath
    split
    · rename_i heq; simp at heq; exact absurd heq.1 n1
    · rename_i heq; simp at heq; exact absurd heq.1 n2
    · exact hs
  | [q1, q2], h, _, _, hs =>
    simp only [namePrefix, List.length_cons, List.length_nil] at hs ⊢
    refine ⟨?_, by simp⟩
    simpa [namePath] using hs
  | q1 :: q2 :: q3 :: qs, h, _, h2, hs =>
    simp only [List.length_cons] at h2 hs
    have hn : (UInt8.ofNat (qs.length + 1 + 1 + 1)) ≠ 0 := by
      intro e
      have := congrArg UInt8.toNat e
      simp [UInt8.toNat_ofNat'] at this; omega
    have ht : (UInt8.ofNat (qs.length + 1 + 1 + 1)).toNat = qs.length + 1 + 1 + 1 := by
      simp [UInt8.toNat_ofNat']; omega
    simp only [namePrefix, List.length_cons, List.cons_append, List.nil_append, namePath]
    refine ⟨?_, by simp⟩
    simp only [hn, if_false, ht]
    simpa using hs

/-- **C09(c)** round trip: for 1..255 segments over the AML name alphabet, rooted or not,
    decoding the emitted bytes returns the same rootedness and segments and stops exactly
    at the end of the name. -/
theorem decode_enc (p : Path) (rest : Bytes) (h : ∀ q ∈ p.parts, isSeg q = true)
    (h1 : 1 ≤ p.parts.length) (h2 : p.parts.length ≤ 255) :
    decode (p.enc ++ rest) = some (p.root, p.parts, rest) := by
  obtain ⟨hp, hne⟩ := namePath_tail p.parts rest h h1 h2
  unfold Path.enc
  cases hr : p.root
  · simp only [Bool.false_eq_true, if_false, List.nil_append]
    unfold decode
    split
    · rename_i heq; rw [heq] at hne; simp at hne
    · simp only [List.append_assoc] at hp; simp [hp]
  · simp only [if_true, List.cons_append, List.nil_append, List.append_assoc, decode] at hp ⊢
    simp [hp]

/-- segment counts above 255 are refused (C18 side) -/
theorem refuses_long (p : Path) (h : 255 < p.parts.length) : p.encPanics = true := by
  simp [Path.encPanics, h]

/-- non-vacuity (`\_SB_.PCI0`, `_SB_.PCI`) -/
example : Path.new [0x5C, 0x5F, 0x53, 0x42, 0x5F, 0x2E, 0x50, 0x43, 0x49, 0x30] =
    some ⟨true, [[0x5F, 0x53, 0x42, 0x5F], [0x50, 0x43, 0x49, 0x30]]⟩ := by decide
example : Path.new [0x5F, 0x53, 0x42, 0x5F, 0x2E, 0x50, 0x43, 0x49] = none := by decide
example : decode ((⟨true, [[0x5F, 0x53, 0x42, 0x5F], [0x50, 0x43, 0x49, 0x30]]⟩ : Path).enc ++ [1, 2])
    = some (true, [[0x5F, 0x53, 0x42, 0x5F], [0x50, 0x43, 0x49, 0x30]], [1, 2]) := by decide

end Acpi.C09
