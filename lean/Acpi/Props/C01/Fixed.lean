/-
  C01, part 2 — the tables that are not built by the append engine carry a valid checksum
  after construction and after every builder operation (FACS has no checksum and is exempt).
-/
import Acpi.Tables.Fixed
import Acpi.Lemmas.Basic
import Acpi.Lemmas.FixedRun
import Acpi.Lemmas.FixedSum
import Acpi.Props.C17
namespace Acpi.C01
open Acpi

/-- the from-scratch / accumulate-everything checksum makes any header-bearing image sum to 0 -/
theorem fixedImage_sum_zero (sig : Bytes) (lenLit : Nat) (rev : UInt8) (o : Oem) (body : Bytes) :
    sum8 (fixedImage sig lenLit rev o body) = 0 := by
  unfold fixedImage
  apply sum8_with_cksum
  rw [C17.append_raw, C17.append_raw, sum8_append]
  simp [Cks.raw]

/-- **C01 (fixed tables)**: FADT (for all values of all public fields and all builder calls),
    BERT, SPCR, TCPA client and server (after `new` and after every builder, any order), TPM2
    (before and after `set_log_area`), SLIT (after every `set_distance`, diagonal and mirrored
    ones included): the image sums to zero after every program that does not panic. -/
theorem fixed_sum_zero (t : FixedT) (o : Oem) (c : EArgs) (ops : List Opt) (s : FixedState)
    (ht : t ≠ .facs ∧ t ≠ .rsdp) (hrun : runFixed t o c ops = some s) : sum8 s.image = 0 := by
  obtain ⟨s0, h0, h1⟩ := runFixed_some hrun
  have hT : s.t = t := (runFixed_t hrun).1
  cases t with
  | fadt => unfold FixedState.image; rw [hT]; exact fixedImage_sum_zero ..
  | bert => unfold FixedState.image; rw [hT]; exact fixedImage_sum_zero ..
  | spcr => unfold FixedState.image; rw [hT]; exact fixedImage_sum_zero ..
  | tcpac => unfold FixedState.image; rw [hT]; exact fixedImage_sum_zero ..
  | tcpas => unfold FixedState.image; rw [hT]; exact fixedImage_sum_zero ..
  | facs => exact absurd rfl ht.1
  | rsdp => exact absurd rfl ht.2
  | tpm2 =>
    have I := runFixedFrom_inv Tpm2Inv tpm2Inv_step ops s0 s (tpm2Inv_new h0).1 h1
    unfold FixedState.image; rw [hT]
    simp only []
    rw [I.hdr]
    exact sum8_with_cksum _ _ _ _ _ _ I.raw
  | slit =>
    have I := runFixedFrom_inv SlitInv slitInv_step ops s0 s (slitInv_new h0).1 h1
    unfold FixedState.image; rw [hT]
    simp only []
    rw [I.hdr]
    have hr := I.raw
    unfold slitHead at hr ⊢
    rw [List.append_assoc] at hr ⊢
    exact sum8_with_cksum _ _ _ _ _ _ hr

/-- **C01 (RSDP)**: both the first 20 bytes and the whole 36 bytes sum to zero. -/
theorem rsdp_sums (o : Oem) (c : EArgs) (ops : List Opt) (s : FixedState) (ho : o.id.length = 6)
    (hrun : runFixed .rsdp o c ops = some s) :
    sum8 (s.image.take 20) = 0 ∧ sum8 s.image = 0 ∧ s.image.length = 36 := by
  obtain ⟨_, rfl⟩ := runFixed_plain (by simp [FixedT.plain]) hrun
  unfold FixedState.image
  simp only []
  refine ⟨?_, ?_, ?_⟩
  · rw [List.take_left' (by simp [ho])]
    simp only [genChecksum, sum8_append, sum8_cons, sum8_nil]
    grind
  · simp only [genChecksum, sum8_append, sum8_cons, sum8_nil]
    grind
  · simp [ho]

end Acpi.C01
