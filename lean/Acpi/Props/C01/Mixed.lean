/-
  C01, mixed programs: the checksum statement for whole-table programs whose add calls mix
  modelled entries with opaque ones (Acpi.Tables.Mixed).
-/
import Acpi.Tables.Mixed
import Acpi.Props.C01
import Acpi.Lemmas.Mixed
namespace Acpi.C01
open Acpi

/-- **C01 (mixed programs)**: for each of the twelve append tables, every constructor argument
    and every sequence of add calls — modelled entries built by arbitrary builder programs and
    opaque entries with arbitrary bytes, in any interleaving, with no hypothesis on either — if
    the program does not panic the emitted image sums to 0.  (Every prefix of a mixed program is
    a mixed program, so this is "after construction and after every operation".) -/
theorem mixed_sum_zero (T : TableId) (o : Oem) (ops : List MOp) (hs : List Nat) (t : Tbl)
    (h : runMixed T o ops = some (hs, t)) : sum8 t.image = 0 := by
  obtain ⟨-, es, -, hr⟩ := Mixed.runMixed_inv h
  exact tbl_sum_zero T.cfg o es hs t hr

/-- non-vacuity: the MADT program GICC, 12 opaque bytes, GICD runs -/
example : (runMixed (.madt 0) Mixed.exOem Mixed.exProg).isSome = true := by
  decide +kernel

end Acpi.C01
