/-
  C01, whole tables: the checksum statement for complete builder programs of the twelve
  append tables (engine + entry models composed, Acpi.Tables.Whole).
-/
import Acpi.Tables.Whole
import Acpi.Props.C01
import Acpi.Lemmas.Whole
namespace Acpi.C01
open Acpi

/-- **C01 (whole tables)**: for each of the twelve append tables, every constructor argument,
    and every sequence of `add_*` calls with entries built by arbitrary builder programs — no
    well-formedness guard at all — if the program does not panic the emitted image sums to 0.
    (Every prefix of a program is a program, so this is "after construction and after every
    operation".) -/
theorem whole_sum_zero (T : TableId) (o : Oem) (ops : List AddOp) (hs : List Nat) (t : Tbl)
    (h : runTable T o ops = some (hs, t)) : sum8 t.image = 0 := by
  obtain ⟨-, bs, -, hr⟩ := Whole.runTable_inv h
  exact tbl_sum_zero T.cfg o _ hs t hr

/-- non-vacuity: an SRAT program with a memory-affinity entry runs -/
example : (runTable .srat ⟨[1,2,3,4,5,6], [1,2,3,4,5,6,7,8], 7⟩
    [⟨.mem, { n := #[1, 0x1000, 0x2000] }, [⟨"hp", []⟩]⟩]).isSome = true := by
  decide +kernel

end Acpi.C01
