/-
  C01 / C02, recorded finding KF-ADDSTRUCT-INT: `MADT::add_structure<T>` and
  `HEST::add_structure<T>` take Length growth and checksum contribution from the *raw* form of `T`
  (`size_of::<T>()`, `as_bytes()`) and the bytes from its `Aml` impl.  For the table structures the two
  forms coincide (C14); the primitive integers also satisfy the bound, and for them they do not: the raw
  form of `5u8` is `05`, its AML form `0A 05`.

  In the engine's terms that is an add with `claimed ≠ raw.length` and `fed ≠ sum8 raw` — outside the
  hypotheses of `C01.tbl_sum_zero` / `C02.tbl_length_field`.  This file keeps the unguarded statements
  visible, refutes them on that witness (the replay against the real code is the `dflt/43` case of the
  `tbl` stream), and records that the guarded theorems are the ones proved.
-/
import Acpi.Tbl
import Acpi.Aml.Int
import Acpi.Props.C01
namespace Acpi.C01
open Acpi

/-- the unguarded claim: whatever is claimed and fed for an entry, the image sums to zero and announces
    its own size -/
def unguarded_add_keeps_header : Prop :=
  ∀ (t : Tbl) (raw : Bytes) (claimed : Nat) (fed : UInt8) (h : Nat) (t' : Tbl),
    sum8 t.image = 0 → t.add raw claimed fed = some (h, t') →
    sum8 t'.image = 0 ∧ (t'.image.drop 4).take 4 = u32le (UInt32.ofNat t'.image.length)

/-- what `madt.add_structure(5u8)` does to an empty MADT: one byte accounted (raw form `05`), two bytes
    emitted (AML form `0A 05`) -/
def madtAfterU8 : Option (Nat × Tbl) :=
  (Tbl.new (cfgMADT 0) ⟨[1, 2, 3, 4, 5, 6], [1, 2, 3, 4, 5, 6, 7, 8], 7⟩).add (encU8 5) 1 5

/-- **recorded finding**: the image no longer sums to zero and its Length is one short -/
theorem addstruct_int_counterexample :
    ∃ h t', madtAfterU8 = some (h, t') ∧ sum8 t'.image ≠ 0 ∧
      (t'.image.drop 4).take 4 ≠ u32le (UInt32.ofNat t'.image.length) ∧ t'.image.length = 46 := by
  refine ⟨44, _, rfl, ?_, ?_, ?_⟩ <;> decide +kernel

theorem unguarded_add_keeps_header_false : ¬ unguarded_add_keeps_header := by
  intro H
  obtain ⟨h, t', e, hs, -, -⟩ := addstruct_int_counterexample
  have h0 : sum8 (Tbl.new (cfgMADT 0) ⟨[1, 2, 3, 4, 5, 6], [1, 2, 3, 4, 5, 6, 7, 8], 7⟩).image = 0 := by
    decide +kernel
  exact hs (H _ _ _ _ h t' h0 e).1

/-- the guarded statement that *is* proved: with the serialised form's own size and byte sum (what
    every table structure — `asBytes x = enc x`, C14 — gives) the header stays right; this is
    `tbl_sum_zero` for a one-entry history -/
theorem add_keeps_header_partial (c : TblCfg) (o : Oem) (raw : Bytes) (hs : List Nat) (t : Tbl)
    (h : runAdds (Tbl.new c o) [(raw, raw.length)] = some (hs, t)) : sum8 t.image = 0 :=
  tbl_sum_zero c o _ hs t h

end Acpi.C01
