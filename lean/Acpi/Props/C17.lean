/-
  C17 — the checksum accumulator is a faithful mod-256 sum with exact inverses.
  Property theorems only; helper lemmas live in Acpi/Lemmas.
-/
import Acpi.Checksum
import Acpi.Lemmas.Sink
namespace Acpi.C17
open Acpi Cks

/-- bytes an operation adds to the accumulator -/
def added : Op → Bytes
  | .add b => [b] | .append bs => bs | .sink k => k.bytes | _ => []
/-- bytes an operation removes -/
def removed : Op → Bytes
  | .sub b => [b] | .delete bs => bs | _ => []

theorem append_raw (c : Cks) (bs : Bytes) : (c.append bs).raw = c.raw + sum8 bs := by
  simp only [Cks.append, raw, sum8]; exact foldl_add_acc bs c.value

theorem foldl_sub_acc (bs : Bytes) (a : UInt8) : bs.foldl (· - ·) a = a - sum8 bs := by
  induction bs generalizing a with
  | nil => simp
  | cons b bs ih => simp only [List.foldl_cons, ih, sum8_cons]; grind

theorem delete_raw (c : Cks) (bs : Bytes) : (c.delete bs).raw = c.raw - sum8 bs := by
  simp only [Cks.delete, raw]; exact foldl_sub_acc bs c.value

theorem foldl_add_raw (bs : Bytes) (c : Cks) :
    (bs.foldl Cks.add c).raw = c.raw + sum8 bs := by
  induction bs generalizing c with
  | nil => simp [raw]
  | cons b bs ih =>
    simp only [List.foldl_cons, sum8_cons]
    rw [ih (c.add b)]
    simp [Cks.add, raw, UInt8.add_assoc]

/-- Sink independence: however bytes arrive through the sink interface, the raw value
    moves by their sum. -/
theorem sink_raw (c : Cks) (k : SinkCall) :
    (Sink.feed1 Cks.sink c k).raw = c.raw + sum8 k.bytes := by
  cases k <;> simp [Sink.feed1, Cks.sink, Sink.ofByte, SinkCall.bytes, foldl_add_raw] <;>
    simp [Cks.add, raw]

theorem step_raw (c : Cks) (op : Op) :
    (step c op).raw = c.raw + sum8 (added op) - sum8 (removed op) := by
  cases op <;> simp [step, added, removed, append_raw, delete_raw, sink_raw] <;>
    simp [Cks.add, Cks.sub, raw]

/-- **C17(a)**: after any operation sequence the raw value is the sum of the bytes added
    minus the sum of the bytes removed, modulo 256 — singly, as slices, or via the sink. -/
theorem raw_is_sum (ops : List Op) :
    (run ops).raw = sum8 (ops.flatMap added) - sum8 (ops.flatMap removed) := by
  suffices h : ∀ c : Cks, (ops.foldl step c).raw
      = c.raw + sum8 (ops.flatMap added) - sum8 (ops.flatMap removed) by
    have := h {}; simpa [run, raw] using this
  induction ops with
  | nil => intro c; simp
  | cons op ops ih =>
    intro c
    simp only [List.foldl_cons, List.flatMap_cons, sum8_append, ih, step_raw]
    grind

/-- **C17(b)**: removing what was added restores the previous state exactly. -/
theorem delete_append (c : Cks) (bs : Bytes) : (c.append bs).delete bs = c := by
  have h := delete_raw (c.append bs) bs
  rw [append_raw] at h
  cases c with | mk v =>
  have : ((Cks.mk v).append bs).delete bs = ⟨((Cks.mk v).append bs |>.delete bs).raw⟩ := rfl
  rw [this, h]; simp [raw]

theorem append_delete (c : Cks) (bs : Bytes) : (c.delete bs).append bs = c := by
  have h := append_raw (c.delete bs) bs
  rw [delete_raw] at h
  cases c with | mk v =>
  have : ((Cks.mk v).delete bs).append bs = ⟨((Cks.mk v).delete bs |>.append bs).raw⟩ := rfl
  rw [this, h]; simp [raw]

theorem sub_add (c : Cks) (b : UInt8) : (c.add b).sub b = c := by
  cases c; simp [Cks.add, Cks.sub]

theorem add_sub (c : Cks) (b : UInt8) : (c.sub b).add b = c := by
  cases c; simp [Cks.add, Cks.sub]

/-- **C17(c)**: the reported checksum makes raw value plus checksum vanish. -/
theorem raw_add_cksum (c : Cks) : c.raw + c.cksum = 0 := by
  cases c with | mk v => simp only [raw, cksum]; grind

/-- the reported checksum is the negation of the raw value -/
theorem cksum_eq_neg (c : Cks) : c.cksum = 0 - c.raw := by
  cases c with | mk v => simp only [raw, cksum]; grind

/-- Cross-check of the algebra on the whole single-step table (256 × 256), by kernel
    evaluation: `add`, `sub` and `cksum` agree with `Nat` arithmetic modulo 256. -/
theorem single_step_table :
    ∀ s b : Fin 256,
      ((Cks.mk (UInt8.ofNat s)).add (UInt8.ofNat b)).raw.toNat = (s.val + b.val) % 256 ∧
      ((Cks.mk (UInt8.ofNat s)).sub (UInt8.ofNat b)).raw.toNat = (s.val + 256 - b.val) % 256 ∧
      ((Cks.mk (UInt8.ofNat s)).cksum.toNat + s.val) % 256 = 0 := by
  decide +kernel

/-- non-vacuity: a concrete mixed history -/
example : (run [.add 200, .append [100, 7], .sink (.word 0x1234), .sub 3, .delete [7]]).raw
    = 200 + 100 + 7 + 0x34 + 0x12 - 3 - 7 := by decide

end Acpi.C17
