/-
  C07, call sites: every length-prefixed object the model's AML encoder emits carries, right
  after its opcode, a PkgLength that decodes (by the specification's rule) to the number of
  bytes from its own first byte to the end of the object, in the shortest encoding that can
  include its own size; field-list entries carry exactly the width given.  These are the
  oracles `Spec.c07Object` / `Spec.c07FieldEntries` the driver runs on the implementation's
  bytes, proved here of the model for every term.
-/
import Acpi.Aml.Term
import Acpi.Spec.AmlFrame
import Acpi.Props.C07
import Acpi.Lemmas.AmlFrame
namespace Acpi.C07
open Acpi Spec

/-- explicit form: the object is `opcode ++ PkgLength ++ body` with the PkgLength of the body -/
theorem object_framed (op : Op) (ints : List Nat) (blobs : List Bytes) (kids : AmlList) (bs : Bytes)
    (w : Nat) (hw : pkgLenOpcodeWidth op = some w)
    (h : (Aml.node op ints blobs kids).enc = some bs) :
    ∃ body, bs = bs.take w ++ pkgLen body.length true ++ body ∧ pkgLenTotal body.length true < 2 ^ 28 := by
  have hf : Framed w bs := by
    cases op
    case buf => cases hw; exact framed_buf _ _ _ _ h
    case bufterm => cases hw; exact framed_bufterm _ _ _ _ h
    case uuid => cases hw; exact framed_uuid _ _ _ _ h
    case pkg => cases hw; exact framed_pkg _ _ _ _ h
    case pkgb => cases hw; exact framed_pkgb _ _ _ _ h
    case varpkg => cases hw; exact framed_varpkg _ _ _ _ h
    case rt => cases hw; exact framed_rt _ _ _ _ h
    case scope => cases hw; exact framed_scope _ _ _ _ h
    case scoperaw => cases hw; exact framed_scoperaw _ _ _ _ h
    case method => cases hw; exact framed_method _ _ _ _ h
    case if_ => cases hw; exact framed_if _ _ _ _ h
    case while_ => cases hw; exact framed_while _ _ _ _ h
    case else_ => cases hw; exact framed_else _ _ _ _ h
    case device => cases hw; exact framed_device _ _ _ _ h
    case field => cases hw; exact framed_field _ _ _ _ h
    case powerres => cases hw; exact framed_powerres _ _ _ _ h
    all_goals cases hw
  exact hf

/-- **C07 (every call site)**: whatever the node — any operator, any arguments, any children —
    if the encoder does not refuse, the object passes the PkgLength oracle: for the sixteen
    length-prefixed constructors the PkgLength after the opcode decodes to exactly the rest of the
    object and is minimal; for all other constructors the oracle has nothing to check. -/
theorem object_pkglength (op : Op) (ints : List Nat) (blobs : List Bytes) (kids : AmlList) (bs : Bytes)
    (h : (Aml.node op ints blobs kids).enc = some bs) : c07Object op bs = none := by
  cases hw : pkgLenOpcodeWidth op with
  | none => unfold c07Object; rw [hw]
  | some w => exact c07Object_of_framed hw (object_framed op ints blobs kids bs w hw h)

/-- **C07 (field entries)**: a named entry is its 4-byte name followed by the exclusive
    PkgLength of its width, a reserved entry `00` followed by it; the width decodes back. -/
theorem field_entry_width (named : Bool) (nm : Bytes) (bits : Nat) (bs rest : Bytes)
    (hn : nm.length = 4)
    (h : (Aml.node (if named then .fnamed else .freserved) [bits] [nm] .nil).enc = some bs) :
    Spec.PkgLength.decode ((bs ++ rest).drop (if named then 4 else 1)) = some (bits, pkgLenWidth bits) := by
  cases named
  · simp only [Bool.false_eq_true, if_false] at h ⊢
    unfold Aml.enc at h
    simp only [List.getD_cons_zero] at h
    split at h
    · cases h
    · rename_i hp
      simp only [Option.some.injEq] at h
      subst h
      have ht := total_lt_of_not_panics (Bool.eq_false_iff.mpr hp)
      rw [List.append_assoc, List.drop_left' (by rfl), C07.decode_pkgLen bits false rest ht]
      simp [pkgLenTotal]
  · simp only [if_true] at h ⊢
    unfold Aml.enc at h
    simp only [List.getD_cons_zero] at h
    split at h
    · cases h
    · rename_i hp
      simp only [Option.some.injEq] at h
      subst h
      have ht := total_lt_of_not_panics (Bool.eq_false_iff.mpr hp)
      rw [List.append_assoc, List.drop_left' hn, C07.decode_pkgLen bits false rest ht]
      simp [pkgLenTotal]

/-- non-vacuity: a Method with a body is accepted and framed -/
example : ∃ bs, (Aml.node .method [2, 1] [[0x4D, 0x54, 0x48, 0x44]] (.cons (.node .one [] [] .nil) .nil)).enc = some bs ∧
    c07Object .method bs = none := by
  cases h : (Aml.node .method [2, 1] [[0x4D, 0x54, 0x48, 0x44]] (.cons (.node .one [] [] .nil) .nil)).enc with
  | none => exact absurd h (by decide)
  | some bs => exact ⟨bs, rfl, object_pkglength _ _ _ _ bs h⟩

end Acpi.C07
