/-
  C13, generic typed operations: `Sdt::append<T>` and `Sdt::write<T>` accept every
  `T: IntoBytes + Immutable + FromBytes` — not only `u8 … u64` but byte arrays of any length,
  `u128`, `sdt::GenericAddress` (12 bytes) … — and act on `value.as_bytes()`.  The model's
  `appendT` / `writeBytes` take those raw bytes; this file states that for the table they are
  indistinguishable from the slice operations on the same bytes, so the typed operation of any
  width is the reference machine's append / overwrite.
-/
import Acpi.Sdt
import Acpi.Lemmas.Sdt
namespace Acpi.C13
open Acpi Acpi.Sdt

/-- **C13 (typed append of any width)**: `append<T>(value)` (resize, Length write, data write, two
    checksum recomputations) leaves the table exactly as `append_slice(value.as_bytes())` does
    (Length write into the old data, extend, one recomputation) — both are the reference machine's
    single append. -/
theorem appendT_eq_appendSlice (s : Sdt) (v : Bytes) (h : 10 ≤ s.data.length) :
    s.appendT v = s.appendSlice v := by
  rw [Sdt.appendT_eq s v h, Sdt.appendSlice_eq s v h]

/-- `write<T>(offset, value)` is `write_bytes(offset, value.as_bytes())` by definition; in range it
    is accepted and is the reference overwrite followed by the checksum rule, out of range refused. -/
theorem writeT_accepted_iff (s : Sdt) (off : Nat) (v : Bytes) :
    (s.writeBytes off v).isSome ↔ off + v.length ≤ s.data.length := by
  unfold writeBytes
  split <;> simp_all

/-- non-vacuity: a 3-byte array appended to a fresh 36-byte table is accepted, by both routes, with
    the same result -/
example : ((Sdt.new [0x54, 0x45, 0x53, 0x54] 36 1 [1, 2, 3, 4, 5, 6] [1, 2, 3, 4, 5, 6, 7, 8] 7).bind
      fun s => (s.appendT [9, 8, 7]).map fun s' => (s.appendSlice [9, 8, 7] == some s', s'.data.length)) =
    some (true, 39) := by decide +kernel

end Acpi.C13
