/-
  C03, part 3 — the per-entry summary fields (second sentence of the property): resource,
  offset, wire, mapping, handle, bitmap and target counts, array offsets, string lengths inside
  one entry equal what the entry's own size implies.  `Spec.entryCountsOracle` is what the
  driver evaluates on the implementation's entries; here it is proved of the model's.
-/
import Acpi.Tables.Build
import Acpi.Tables.Wf
import Acpi.Spec.Counts
import Acpi.Props.C04
import Acpi.Lemmas.Counts
namespace Acpi.C03
open Acpi Spec

/-- **C03 (inner counts)**: for every entry kind, every constructor argument tuple and builder
    program within their Rust types, if the program does not panic the serialised entry passes
    the inner-count oracle.

    ADDED HYPOTHESES (the statement without them is false, see `loc_counts_needs_h32`,
    `cfmws_counts_needs_hways`, `isa_counts_needs_hnul` below):
    * `h32` — an HMAT locality structure is smaller than 4 GiB (same assumption as in
      `entry_self_describing`: the initiator and target counts have 4-byte fields and the model
      puts no bound on them).
    * `hways` — the CFMWS interleave-ways code fits its one-byte field (an enum with codes
      0–4, 8–10 in the crate, an unconstrained number in the model).
    * `hnul` — the RHCT ISA string has no interior NUL byte (a Rust `&str` may contain one and
      the crate does not check; the node then carries a C string shorter than announced).

    The RQSC hypothesis `qosCtorWf` of C04 is NOT needed here: the resource walk only reads the
    type and length fields, which the asserts of `ResourceStructure::new` / `add_resource` bound. -/
theorem entry_counts (k : Kind) (c : EArgs) (opts : List Opt) (a : EArgs)
    (hwf : entryWf k c opts = true)
    (h : buildEntry k c opts = .ok a)
    (h32 : k = .loc → (entryBytes k a).length < 2 ^ 32)
    (hways : k = .cfmws → c.num 4 < 256)
    (hnul : k = .isa → ∀ b ∈ c.blob 0, b ≠ 0) :
    entryCountsOracle k (entryBytes k a) = none := by
  cases k with
  | proc => exact Cnt.counts_proc c opts a hwf h
  | hart => exact Cnt.counts_hart c opts a hwf h
  | isa => exact Cnt.counts_isa c opts a hwf h (hnul rfl)
  | iommu => exact Cnt.counts_iommu c opts a hwf h
  | pcierc => exact Cnt.counts_pcierc c opts a hwf h
  | platform => exact Cnt.counts_platform c opts a hwf h
  | msc => exact Cnt.counts_msc c opts a hwf h
  | loc => exact Cnt.counts_loc c opts a hwf h (h32 rfl)
  | cxims => exact Cnt.counts_cxims c opts a hwf h
  | cfmws => exact Cnt.counts_cfmws c opts a hwf h (hways rfl)
  | qosctrl => exact Cnt.counts_qosctrl c opts a h
  | _ => rfl

/-- `h32` cannot be dropped: a locality structure with 2^32 initiators and no target announces
    0 initiators -/
theorem loc_counts_needs_h32 : ∃ c a, entryWf .loc c [] = true ∧ buildEntry .loc c [] = .ok a ∧
    entryCountsOracle .loc (entryBytes .loc a) ≠ none := by
  refine ⟨{ n := #[0, 0, 0, 0, 2 ^ 32, 0] }, _, by decide, rfl, ?_⟩
  obtain ⟨hl, hr, hr2⟩ := Cnt.loc_reads { n := #[0, 0, 0, 0, 2 ^ 32, 0] } [] _ (by decide) rfl
  have e4 : ({ n := #[0, 0, 0, 0, 2 ^ 32, 0] } : EArgs).num 4 = 2 ^ 32 := rfl
  have e5 : ({ n := #[0, 0, 0, 0, 2 ^ 32, 0] } : EArgs).num 5 = 0 := rfl
  rw [e4, e5] at hl
  rw [e4] at hr
  rw [e5] at hr2
  unfold entryCountsOracle
  simp only [hl, hr, hr2]
  decide

/-- `hways` cannot be dropped: the code 256 (no targets) is stored as 0, which means one target -/
theorem cfmws_counts_needs_hways : ∃ c a, entryWf .cfmws c [] = true ∧ buildEntry .cfmws c [] = .ok a ∧
    entryCountsOracle .cfmws (entryBytes .cfmws a) ≠ none :=
  ⟨{ n := #[0, 0, 0, 0, 256, 0] }, _, by decide, rfl, by decide⟩

/-- `hnul` cannot be dropped: the one-character string "\0" -/
theorem isa_counts_needs_hnul : ∃ c a, entryWf .isa c [] = true ∧ buildEntry .isa c [] = .ok a ∧
    entryCountsOracle .isa (entryBytes .isa a) = some "NUL inside the string" :=
  ⟨{ b := #[[0]] }, _, by decide, rfl, by decide⟩

end Acpi.C03
