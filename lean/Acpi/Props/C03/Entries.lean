/-
  C03, part 2 — per-kind instantiation: every entry the model serialises announces, in the
  header style of its table, its specification type code and its own length, so the side
  condition `SelfDescribing` of C03.walk_flatten / C03.table_entries holds for every kind.
-/
import Acpi.Tables.Build
import Acpi.Tables.Wf
import Acpi.Spec.Codes
import Acpi.Props.C03
import Acpi.Props.C04
import Acpi.Lemmas.Inst
import Acpi.Lemmas.InstVar
namespace Acpi.C03
open Acpi Spec

/-- **C03 (entries)**: for every kind that belongs to a table (`tableOf k = some t`), except the
    CEDT RDPAS record (recorded finding), the serialised entry is self-describing for its
    table's walk style with the specification's type code.

    ADDED HYPOTHESES (the statement without them is false, see `loc_needs_h32` and
    `qosctrl_needs_hty` below):
    * `h32` — an HMAT locality structure is smaller than 4 GiB (its Length field has 4 bytes and
      the model puts no bound on the numbers of initiators and targets; "tables smaller than
      4 GiB" is the project's stated assumption).  For `.msc`, the other kind with a 4-byte
      length, the bound follows from the serialisation assert and is not assumed.
    * `hty` — the RQSC controller type fits its one-byte field (a two-variant enum in the crate,
      an unconstrained number in the model). -/
theorem entry_self_describing (k : Kind) (hk : k ≠ .rdpas) (t : String) (sh : TableShape)
    (ht : tableOf k = some t) (hs : shapeOf t = some sh)
    (c : EArgs) (opts : List Opt) (a : EArgs)
    (hwf : entryWf k c opts = true) (hq : k = .qosctrl → C04.qosCtorWf c)
    (h : buildEntry k c opts = .ok a)
    (h32 : k = .loc → (entryBytes k a).length < 2 ^ 32)
    (hty : k = .qosctrl → a.num 0 < 256) :
    SelfDescribing sh.kind (typeCode k a) (entryBytes k a) := by
  cases k with
  -- fixed size: type and length rows of the reference layout are read back
  | lapic => cases ht; cases hs; exact Inst.sd_t8l8 _ (typeCodeConst .lapic) _ _ (Inst.conforms_of_entry .lapic c opts a _ _ (by decide) hwf nofun h rfl) (by decide) (by decide)
  | ioapic => cases ht; cases hs; exact Inst.sd_t8l8 _ (typeCodeConst .ioapic) _ _ (Inst.conforms_of_entry .ioapic c opts a _ _ (by decide) hwf nofun h rfl) (by decide) (by decide)
  | gicc => cases ht; cases hs; exact Inst.sd_t8l8 _ (typeCodeConst .gicc) _ _ (Inst.conforms_of_entry .gicc c opts a _ _ (by decide) hwf nofun h rfl) (by decide) (by decide)
  | gicd => cases ht; cases hs; exact Inst.sd_t8l8 _ (typeCodeConst .gicd) _ _ (Inst.conforms_of_entry .gicd c opts a _ _ (by decide) hwf nofun h rfl) (by decide) (by decide)
  | gicmsi => cases ht; cases hs; exact Inst.sd_t8l8 _ (typeCodeConst .gicmsi) _ _ (Inst.conforms_of_entry .gicmsi c opts a _ _ (by decide) hwf nofun h rfl) (by decide) (by decide)
  | gicr => cases ht; cases hs; exact Inst.sd_t8l8 _ (typeCodeConst .gicr) _ _ (Inst.conforms_of_entry .gicr c opts a _ _ (by decide) hwf nofun h rfl) (by decide) (by decide)
  | its => cases ht; cases hs; exact Inst.sd_t8l8 _ (typeCodeConst .its) _ _ (Inst.conforms_of_entry .its c opts a _ _ (by decide) hwf nofun h rfl) (by decide) (by decide)
  | rintc => cases ht; cases hs; exact Inst.sd_t8l8 _ (typeCodeConst .rintc) _ _ (Inst.conforms_of_entry .rintc c opts a _ _ (by decide) hwf nofun h rfl) (by decide) (by decide)
  | imsic => cases ht; cases hs; exact Inst.sd_t8l8 _ (typeCodeConst .imsic) _ _ (Inst.conforms_of_entry .imsic c opts a _ _ (by decide) hwf nofun h rfl) (by decide) (by decide)
  | aplic => cases ht; cases hs; exact Inst.sd_t8l8 _ (typeCodeConst .aplic) _ _ (Inst.conforms_of_entry .aplic c opts a _ _ (by decide) hwf nofun h rfl) (by decide) (by decide)
  | plic => cases ht; cases hs; exact Inst.sd_t8l8 _ (typeCodeConst .plic) _ _ (Inst.conforms_of_entry .plic c opts a _ _ (by decide) hwf nofun h rfl) (by decide) (by decide)
  | mem => cases ht; cases hs; exact Inst.sd_t8l8 _ (typeCodeConst .mem) _ _ (Inst.conforms_of_entry .mem c opts a _ _ (by decide) hwf nofun h rfl) (by decide) (by decide)
  | gi => cases ht; cases hs; exact Inst.sd_t8l8 _ (typeCodeConst .gi) _ _ (Inst.conforms_of_entry .gi c opts a _ _ (by decide) hwf nofun h rfl) (by decide) (by decide)
  | rintcAff => cases ht; cases hs; exact Inst.sd_t8l8 _ (typeCodeConst .rintcAff) _ _ (Inst.conforms_of_entry .rintcAff c opts a _ _ (by decide) hwf nofun h rfl) (by decide) (by decide)
  | cache => cases ht; cases hs; exact Inst.sd_t8l8 _ (typeCodeConst .cache) _ _ (Inst.conforms_of_entry .cache c opts a _ _ (by decide) hwf nofun h rfl) (by decide) (by decide)
  | mpd => cases ht; cases hs; exact Inst.sd_t16l32 _ (typeCodeConst .mpd) _ _ _ (Inst.conforms_of_entry .mpd c opts a _ _ (by decide) hwf nofun h rfl) (by decide) (by decide)
  | cmo => cases ht; cases hs; exact Inst.sd_t16l16 _ (typeCodeConst .cmo) _ _ (Inst.conforms_of_entry .cmo c opts a _ _ (by decide) hwf nofun h rfl) (by decide) (by decide)
  | mmu => cases ht; cases hs; exact Inst.sd_t16l16 _ (typeCodeConst .mmu) _ _ (Inst.conforms_of_entry .mmu c opts a _ _ (by decide) hwf nofun h rfl) (by decide) (by decide)
  | pcirange => cases ht; cases hs; exact Inst.sd_t8l16 _ (typeCodeConst .pcirange) _ _ _ (Inst.conforms_of_entry .pcirange c opts a _ _ (by decide) hwf nofun h rfl) (by decide) (by decide)
  | mmioep => cases ht; cases hs; exact Inst.sd_t8l16 _ (typeCodeConst .mmioep) _ _ _ (Inst.conforms_of_entry .mmioep c opts a _ _ (by decide) hwf nofun h rfl) (by decide) (by decide)
  | pciiommu => cases ht; cases hs; exact Inst.sd_t8l16 _ (typeCodeConst .pciiommu) _ _ _ (Inst.conforms_of_entry .pciiommu c opts a _ _ (by decide) hwf nofun h rfl) (by decide) (by decide)
  | mmioiommu => cases ht; cases hs; exact Inst.sd_t8l16 _ (typeCodeConst .mmioiommu) _ _ _ (Inst.conforms_of_entry .mmioiommu c opts a _ _ (by decide) hwf nofun h rfl) (by decide) (by decide)
  | chbs => cases ht; cases hs; exact Inst.sd_t8l16 _ (typeCodeConst .chbs) _ _ _ (Inst.conforms_of_entry .chbs c opts a _ _ (by decide) hwf nofun h rfl) (by decide) (by decide)
  | aerrp => cases ht; cases hs; exact Inst.sd_hest _ (typeCodeConst .aerrp) _ _ (Inst.conforms_of_entry .aerrp c opts a _ _ (by decide) hwf nofun h rfl) (by decide) rfl (by decide)
  | aerdev => cases ht; cases hs; exact Inst.sd_hest _ (typeCodeConst .aerdev) _ _ (Inst.conforms_of_entry .aerdev c opts a _ _ (by decide) hwf nofun h rfl) (by decide) rfl (by decide)
  | aerbr => cases ht; cases hs; exact Inst.sd_hest _ (typeCodeConst .aerbr) _ _ (Inst.conforms_of_entry .aerbr c opts a _ _ (by decide) hwf nofun h rfl) (by decide) rfl (by decide)
  | ghes => cases ht; cases hs; exact Inst.sd_hest _ (typeCodeConst .ghes) _ _ (Inst.conforms_of_entry .ghes c opts a _ _ (by decide) hwf nofun h rfl) (by decide) rfl (by decide)
  | ghesv2 => cases ht; cases hs; exact Inst.sd_hest _ (typeCodeConst .ghesv2) _ _ (Inst.conforms_of_entry .ghesv2 c opts a _ _ (by decide) hwf nofun h rfl) (by decide) rfl (by decide)
  | ecam => cases ht; cases hs; exact Inst.sd_fixed _ _ _ (Inst.conforms_of_entry .ecam c opts a _ _ (by decide) hwf nofun h rfl) (by decide)
  | xsdtEntry => cases ht; cases hs; exact Inst.sd_fixed _ _ _ (Inst.conforms_of_entry .xsdtEntry c opts a _ _ (by decide) hwf nofun h rfl) (by decide)
  -- variable size: the announced length fits its field because serialisation refuses otherwise
  | proc => cases ht; cases hs; exact Inst.sd_proc c opts a hwf h
  | msc => cases ht; cases hs; exact Inst.sd_msc c opts a hwf h
  | isa => cases ht; cases hs; exact Inst.sd_isa c opts a hwf h
  | hart => cases ht; cases hs; exact Inst.sd_hart c opts a hwf h
  | iommu => cases ht; cases hs; exact Inst.sd_iommu c opts a hwf h
  | pcierc => cases ht; cases hs; exact Inst.sd_pcierc c opts a hwf h
  | platform => cases ht; cases hs; exact Inst.sd_platform c opts a hwf h
  | cfmws => cases ht; cases hs; exact Inst.sd_cfmws c opts a hwf h
  | cxims => cases ht; cases hs; exact Inst.sd_cxims c opts a hwf h
  | loc => cases ht; cases hs; exact Inst.sd_loc c opts a hwf h (h32 rfl)
  | qosctrl => cases ht; cases hs; exact Inst.sd_qosctrl c opts a hwf (hq rfl) h (hty rfl)
  | rdpas => exact absurd rfl hk
  -- free-standing sub-structures belong to no table
  | idmap => cases ht
  | wire => cases ht
  | notif => cases ht
  | ges => cases ht
  | ged => cases ht
  | gas => cases ht

/-- `h32` of `entry_self_describing` cannot be dropped: an HMAT locality structure with 2^30
    initiators and one target meets all other hypotheses and is not self-describing -/
theorem loc_needs_h32 : ∃ c a, entryWf .loc c [] = true ∧ buildEntry .loc c [] = .ok a ∧
    ¬ SelfDescribing .t16l32 (typeCode .loc a) (entryBytes .loc a) := by
  refine ⟨{ n := #[0, 0, 0, 0, 2 ^ 30, 1] }, _, by decide, rfl, ?_⟩
  intro hsd
  have := Inst.lt_of_sd_t16l32 _ _ hsd
  rw [Inst.loc_len] at this
  have e4 : ({ n := #[0, 0, 0, 0, 2 ^ 30, 1] } : EArgs).num 4 = 2 ^ 30 := rfl
  have e5 : ({ n := #[0, 0, 0, 0, 2 ^ 30, 1] } : EArgs).num 5 = 1 := rfl
  rw [e4, e5] at this
  omega

/-- `hty` of `entry_self_describing` cannot be dropped -/
theorem qosctrl_needs_hty : ∃ c a, entryWf .qosctrl c [] = true ∧ C04.qosCtorWf c ∧
    buildEntry .qosctrl c [] = .ok a ∧
    ¬ SelfDescribing .t8l16 (typeCode .qosctrl a) (entryBytes .qosctrl a) :=
  ⟨{ n := #[256, 0, 0, 0, 0, 0, 0, 0, 0] }, _, by decide, fun i hi => absurd hi (Nat.not_lt_zero i), rfl, by decide⟩

end Acpi.C03
