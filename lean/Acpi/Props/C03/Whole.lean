/-
  C03, whole tables: the independent walk returns exactly the entries of the program.
-/
import Acpi.Tables.Whole
import Acpi.Props.C03
import Acpi.Props.C03.Entries
import Acpi.Props.C02.Fixed
import Acpi.Lemmas.Whole
namespace Acpi.C03
open Acpi Spec

/-- **C03 (whole tables)**: for every table and every non-panicking program (entries within their
    Rust types, no RDPAS, RQSC resource ids 32-bit and controller type one byte, HMAT locality
    structures below 4 GiB), the specification-side walk of the emitted image — from the
    specification's first-entry offset, by each entry's own length field — returns exactly the
    entries that were added, in order, with their specification type codes, ends exactly at the
    end of the image, and the table's count and array-offset fields agree with it. -/
theorem whole_walk (T : TableId) (o : Oem) (ho : C02.OemWf o) (ops : List AddOp)
    (hwf : ∀ op ∈ ops, op.k ≠ .rdpas ∧ entryWf op.k op.ctor op.opts = true ∧
      (op.k = .qosctrl → C04.qosCtorWf op.ctor))
    (bs : List (Kind × EArgs)) (hb : buildAll ops = some bs)
    (hbnd : ∀ e ∈ bs, (e.1 = .loc → (entryBytes e.1 e.2).length < 2 ^ 32) ∧ (e.1 = .qosctrl → e.2.num 0 < 256))
    (hs : List Nat) (t : Tbl) (h : runTable T o ops = some (hs, t)) :
    ∃ sh, shapeOf T.name = some sh ∧
      tableEntries sh t.image = .ok (bs.map fun e => (typeCode e.1 e.2, entryBytes e.1 e.2)) := by
  obtain ⟨hacc, hr⟩ := Whole.runTable_inv' hb h
  obtain ⟨hl, hget⟩ := Whole.buildAll_spec ops bs hb
  obtain ⟨sh, hsh, hm⟩ := Whole.shape T
  refine ⟨sh, hsh, ?_⟩
  have key := table_entries_of_shape T.cfg o ho sh hm (bs.map rawOf)
    (bs.map fun e => typeCode e.1 e.2) (by simp only [List.length_map])
    (by
      intro i hi
      have hib : i < bs.length := by rw [List.length_map] at hi; exact hi
      have hio : i < ops.length := hl ▸ hib
      obtain ⟨h1, h2⟩ := hget i hio hib
      obtain ⟨w1, w2, w3⟩ := hwf ops[i] (List.getElem_mem hio)
      obtain ⟨b1, b2⟩ := hbnd bs[i] (List.getElem_mem hib)
      simp only [List.getElem_map, rawOf]
      rw [h1] at b1 b2 ⊢
      exact entry_self_describing ops[i].k w1 T.name sh (hacc ops[i] (List.getElem_mem hio)) hsh
        ops[i].ctor ops[i].opts bs[i].2 w2 w3 h2 b1 b2)
    hs t hr
  rw [key, List.map_map, List.zip_map']
  rfl

end Acpi.C03
