/-
  C16 (exact acceptance) — `EISAName::new` and `Uuid::new` accept exactly the inputs described
  here, and the accepted UUID's bytes are exactly the ToUUID pairing of hex-digit values.

  Complements `Acpi/Props/C16.lean` (refusal theorems + round trips on canonical inputs) with
  if-and-only-if statements.
-/
import Acpi.Aml.Eisa
import Acpi.Props.C16
import Acpi.Lemmas.Eisa
import Acpi.Lemmas.EisaExact
namespace Acpi.C16
open Acpi Lemmas.Eisa Lemmas.EisaExact

/-! ### `char::to_digit(16)` -/

/-- **C16 (hex digits)**: `to_digit(16)` succeeds exactly on `0-9`, `a-f`, `A-F`. -/
theorem toDigit16_isSome_iff (c : Char) : (toDigit16 c).isSome ↔
    ('0' ≤ c ∧ c ≤ '9') ∨ ('a' ≤ c ∧ c ≤ 'f') ∨ ('A' ≤ c ∧ c ≤ 'F') := by
  unfold toDigit16
  by_cases h1 : '0' ≤ c ∧ c ≤ '9'
  · rw [if_pos h1]; simp [h1]
  · rw [if_neg h1]
    by_cases h2 : 'a' ≤ c ∧ c ≤ 'f'
    · rw [if_pos h2]; simp [h2]
    · rw [if_neg h2]
      by_cases h3 : 'A' ≤ c ∧ c ≤ 'F'
      · rw [if_pos h3]; simp [h3]
      · rw [if_neg h3]; simp [h1, h2, h3]

example : (toDigit16 'c').isSome := (toDigit16_isSome_iff 'c').mpr (by decide)
example : ¬ (toDigit16 'g').isSome := fun h => absurd ((toDigit16_isSome_iff 'g').mp h) (by decide)

/-- **C16 (hex digits)**: a digit value returned by `to_digit(16)` is below 16. -/
theorem toDigit16_lt (c : Char) (d : UInt32) (h : toDigit16 c = some d) : d < 16 := by
  unfold toDigit16 at h
  simp only [Char.le_def, UInt32.le_iff_toNat_le] at h
  rw [UInt32.lt_iff_toNat_lt]
  have k16 : (16 : UInt32).toNat = 16 := by decide
  have k10 : (10 : UInt32).toNat = 10 := by decide
  split at h
  · rename_i h1
    injection h with h; subst h
    rw [UInt32.toNat_sub_of_le _ _ (UInt32.le_iff_toNat_le.mpr h1.1)]
    have : ('0' : Char).val.toNat = 48 := by decide
    have : ('9' : Char).val.toNat = 57 := by decide
    omega
  · split at h
    · rename_i h2
      injection h with h; subst h
      rw [UInt32.toNat_add, UInt32.toNat_sub_of_le _ _ (UInt32.le_iff_toNat_le.mpr h2.1)]
      have : ('a' : Char).val.toNat = 97 := by decide
      have : ('f' : Char).val.toNat = 102 := by decide
      omega
    · split at h
      · rename_i h3
        injection h with h; subst h
        rw [UInt32.toNat_add, UInt32.toNat_sub_of_le _ _ (UInt32.le_iff_toNat_le.mpr h3.1)]
        have : ('A' : Char).val.toNat = 65 := by decide
        have : ('F' : Char).val.toNat = 70 := by decide
        omega
      · cases h

example : toDigit16 'F' = some 15 := by decide

/-! ### UUID -/

/-- the canonical textual UUID shape: 36 characters, `-` at 8, 13, 18, 23 and a hex digit
    (either case) at each of the other 32 positions -/
def uuidCanonical (cs : List Char) : Prop :=
  cs.length = 36 ∧ ∀ j, j < 36 →
    (if j = 8 ∨ j = 13 ∨ j = 18 ∨ j = 23 then cs[j]! = '-' else (toDigit16 cs[j]!).isSome)

/-- the dash part of `uuidCanonical`, in the form tested by `Uuid::new` -/
theorem uuidCanonical_dashes (cs : List Char) (h : uuidCanonical cs) :
    ¬ (cs[8]! ≠ '-' ∨ cs[13]! ≠ '-' ∨ cs[18]! ≠ '-' ∨ cs[23]! ≠ '-') := by
  have h8 := h.2 8 (by decide)
  have h13 := h.2 13 (by decide)
  have h18 := h.2 18 (by decide)
  have h23 := h.2 23 (by decide)
  rw [if_pos (by decide)] at h8 h13 h18 h23
  rw [h8, h13, h18, h23]
  decide

/-- **C16 (UUID, exact acceptance)**: `Uuid::new` does not panic exactly on the canonical
    shape — 36 characters, dashes at 8/13/18/23, hex digits everywhere else. -/
theorem uuid_accepted_iff (cs : List Char) : (uuidBytes cs).isSome ↔ uuidCanonical cs := by
  constructor
  · intro h
    have hl : cs.length = 36 := by
      apply Classical.byContradiction
      intro hl; rw [uuid_wrong_length cs hl] at h; cases h
    have hd : ¬ (cs[8]! ≠ '-' ∨ cs[13]! ≠ '-' ∨ cs[18]! ≠ '-' ∨ cs[23]! ≠ '-') := by
      intro hd; rw [uuid_misplaced_dash cs hd] at h; cases h
    refine ⟨hl, ?_⟩
    intro j hj
    by_cases hdj : j = 8 ∨ j = 13 ∨ j = 18 ∨ j = 23
    · rw [if_pos hdj]
      apply Classical.byContradiction
      intro hne
      apply hd
      rcases hdj with rfl | rfl | rfl | rfl
      · exact Or.inl hne
      · exact Or.inr (Or.inl hne)
      · exact Or.inr (Or.inr (Or.inl hne))
      · exact Or.inr (Or.inr (Or.inr hne))
    · rw [if_neg hdj]
      cases hdig : toDigit16 cs[j]! with
      | some d => rfl
      | none =>
        have hd' : j ≠ 8 ∧ j ≠ 13 ∧ j ≠ 18 ∧ j ≠ 23 :=
          ⟨fun e => hdj (Or.inl e), fun e => hdj (Or.inr (Or.inl e)),
           fun e => hdj (Or.inr (Or.inr (Or.inl e))), fun e => hdj (Or.inr (Or.inr (Or.inr e)))⟩
        rw [uuid_nonhex cs j hj hd' hdig] at h; cases h
  · intro h
    rw [uuidBytes_eq cs h.1 (uuidCanonical_dashes cs h), mapM_id_isSome_iff]
    intro x hx
    obtain ⟨p, hp, rfl⟩ := List.mem_map.mp hx
    obtain ⟨r1, r2, n1, n2⟩ := uuidPairs_mem_range p hp
    rw [hex2byte_isSome_iff]
    have a1 := h.2 p.1 r1
    have a2 := h.2 p.2 r2
    rw [if_neg n1] at a1
    rw [if_neg n2] at a2
    exact ⟨a1, a2⟩

/-- non-vacuity: a canonical string (mixed case) is accepted -/
example : (uuidBytes "c5DCDA2c-2b0f-4Dd3-b7a7-d1e8f4c0a1b2".toList).isSome := by decide

/-- right multiset of characters (4 dashes, 32 hex digits, 36 long) but grouped 7-5-4-4-12: the
    first dash is at index 7, so index 8 holds a digit — refused. -/
example : uuidBytes "c5dcda2-c2b0f-4dd3-b7a7-d1e8f4c0a1b2".toList = none := by decide

/-- the same via the theorem: the 7-5-4-4-12 grouping is not canonical -/
example : ¬ uuidCanonical "c5dcda2-c2b0f-4dd3-b7a7-d1e8f4c0a1b2".toList := by
  intro h
  have := (uuid_accepted_iff _).mpr h
  revert this; decide

/-- **C16 (UUID)**: an accepted UUID yields exactly 16 buffer bytes. -/
theorem uuid_accepted_length (cs : List Char) (b : Bytes) (h : uuidBytes cs = some b) :
    b.length = 16 := by
  have hs : (uuidBytes cs).isSome := by rw [h]; rfl
  have hc := (uuid_accepted_iff cs).mp hs
  rw [uuidBytes_eq cs hc.1 (uuidCanonical_dashes cs hc)] at h
  rw [mapM_id_length _ _ h, List.length_map]
  rfl

example : ∃ b, uuidBytes "c5DCDA2c-2b0f-4Dd3-b7a7-d1e8f4c0a1b2".toList = some b ∧ b.length = 16 := by
  decide

/-- **C16 (UUID, exact value)**: when accepted, byte `i` of the buffer is
    `16 * digit(cs[p]) + digit(cs[q])` (written `hi <<< 4 ||| lo` on `u8`, the digits being
    below 16 by `toDigit16_lt`) where `(p, q) = uuidPairs[i]` is the ToUUID pairing
    (6,7),(4,5),(2,3),(0,1),(11,12),(9,10),(16,17),(14,15),(19,20),(21,22),(24,25),…,(34,35):
    the first three groups byte-reversed, the last two in textual order. -/
theorem uuid_value_exact (cs : List Char) (b : Bytes) (h : uuidBytes cs = some b) :
    ∀ i, i < 16 → ∃ hi lo : UInt32,
      toDigit16 cs[(uuidPairs[i]!).1]! = some hi ∧ toDigit16 cs[(uuidPairs[i]!).2]! = some lo ∧
      b[i]! = (hi.toUInt8 <<< 4) ||| lo.toUInt8 := by
  have hs : (uuidBytes cs).isSome := by rw [h]; rfl
  have hc := (uuid_accepted_iff cs).mp hs
  rw [uuidBytes_eq cs hc.1 (uuidCanonical_dashes cs hc)] at h
  have hm := (mapM_id_eq_some_iff _ _).mp h
  have hbl : b.length = 16 := by
    rw [mapM_id_length _ _ h, List.length_map]; rfl
  intro i hi
  have hil : i < uuidPairs.length := by rw [uuidPairs_length]; exact hi
  have hib : i < b.length := by rw [hbl]; exact hi
  -- the i-th entries of both sides of `hm`
  have e := congrArg (fun l => l[i]?) hm
  simp only [List.getElem?_map, List.getElem?_eq_getElem hil, List.getElem?_eq_getElem hib,
    Option.map_some] at e
  have e' := Option.some.inj e
  rw [getElem!_pos uuidPairs i hil, getElem!_pos b i hib]
  exact (hex2byte_eq_some_iff _ _ _).mp e'

/-- the pairing list is the one named in the statement -/
example : uuidPairs =
    [(6, 7), (4, 5), (2, 3), (0, 1), (11, 12), (9, 10), (16, 17), (14, 15), (19, 20), (21, 22),
     (24, 25), (26, 27), (28, 29), (30, 31), (32, 33), (34, 35)] := rfl

/-- non-vacuity: the buffer of a concrete UUID (`c5dcda2c-…` starts `2c da dc c5`) -/
example : uuidBytes "c5DCDA2c-2b0f-4Dd3-b7a7-d1e8f4c0a1b2".toList =
    some [0x2c, 0xda, 0xdc, 0xc5, 0x0f, 0x2b, 0xd3, 0x4d, 0xb7, 0xa7, 0xd1, 0xe8, 0xf4, 0xc0, 0xa1, 0xb2] := by
  decide

/-- each output byte, as a number: `16 * hi + lo` -/
theorem hex_byte_toNat (hi lo : UInt32) (hh : hi < 16) (hl : lo < 16) :
    ((hi.toUInt8 <<< 4) ||| lo.toUInt8).toNat = 16 * hi.toNat + lo.toNat := by
  rw [UInt32.lt_iff_toNat_lt] at hh hl
  have k16 : (16 : UInt32).toNat = 16 := by decide
  rw [k16] at hh hl
  rw [UInt8.toNat_or, UInt8.toNat_shiftLeft, UInt32.toNat_toUInt8, UInt32.toNat_toUInt8]
  have k4 : (4 : UInt8).toNat % 8 = 4 := by decide
  rw [k4, Nat.shiftLeft_eq]
  have p4 : (2 : Nat) ^ 4 = 16 := by decide
  have p8 : (2 : Nat) ^ 8 = 256 := by decide
  rw [p4, p8]
  have e1 : hi.toNat % 256 = hi.toNat := by omega
  have e2 : lo.toNat % 256 = lo.toNat := by omega
  have e3 : hi.toNat * 16 % 256 = hi.toNat * 16 := by omega
  rw [e1, e2, e3]
  rw [or_eq_add_of_mod' 4 16 (by decide) (hi.toNat * 16) lo.toNat (by omega) hl]
  omega

/-- **C16 (UUID, exact value, arithmetic form)**: when accepted, byte `i` of the buffer has
    the numeric value `16 * hi + lo`, with `hi, lo < 16` the values of the hex digits at the
    `i`-th ToUUID pair of positions. -/
theorem uuid_value_exact_nat (cs : List Char) (b : Bytes) (h : uuidBytes cs = some b) :
    ∀ i, i < 16 → ∃ hi lo : UInt32,
      toDigit16 cs[(uuidPairs[i]!).1]! = some hi ∧ toDigit16 cs[(uuidPairs[i]!).2]! = some lo ∧
      hi.toNat < 16 ∧ lo.toNat < 16 ∧ (b[i]!).toNat = 16 * hi.toNat + lo.toNat := by
  intro i hi
  obtain ⟨x, y, hx, hy, hb⟩ := uuid_value_exact cs b h i hi
  have lx := toDigit16_lt _ _ hx
  have ly := toDigit16_lt _ _ hy
  refine ⟨x, y, hx, hy, ?_, ?_, ?_⟩
  · exact UInt32.lt_iff_toNat_lt.mp lx
  · exact UInt32.lt_iff_toNat_lt.mp ly
  · rw [hb]; exact hex_byte_toNat x y lx ly

/-! ### EISA -/

/-- **C16 (EISA, exact acceptance)**: `EISAName::new` does not panic exactly when the string is
    7 bytes long, its first three bytes are at least `0x40` (`checked_sub(NAMECHARBASE)`
    succeeds), and characters 3..6 exist and are hex digits.  (Note what this does *not*
    require: the first three bytes need not be upper-case letters.) -/
theorem eisa_accepted_iff (bytes : Bytes) (chars : List Char) :
    (eisaValue bytes chars).isSome ↔
      bytes.length = 7 ∧ (0x40 : UInt8) ≤ bytes[0]! ∧ (0x40 : UInt8) ≤ bytes[1]! ∧ (0x40 : UInt8) ≤ bytes[2]! ∧
      (∀ k, k = 3 ∨ k = 4 ∨ k = 5 ∨ k = 6 → ((chars[k]?).bind toDigit16).isSome) := by
  have hall : (∀ k, k = 3 ∨ k = 4 ∨ k = 5 ∨ k = 6 → ((chars[k]?).bind toDigit16).isSome) ↔
      (((chars[3]?).bind toDigit16).isSome ∧ ((chars[4]?).bind toDigit16).isSome ∧
       ((chars[5]?).bind toDigit16).isSome ∧ ((chars[6]?).bind toDigit16).isSome) := by
    constructor
    · intro h
      exact ⟨h 3 (by simp), h 4 (by simp), h 5 (by simp), h 6 (by simp)⟩
    · rintro ⟨h3, h4, h5, h6⟩ k (rfl | rfl | rfl | rfl) <;> assumption
  rw [hall, ← subBase_isSome_iff, ← subBase_isSome_iff, ← subBase_isSome_iff]
  unfold eisaValue
  by_cases hl : bytes.length = 7
  · rw [if_neg (by intro h; exact h hl)]
    simp only [hl, true_and]
    cases subBase bytes[0]! <;> cases subBase bytes[1]! <;> cases subBase bytes[2]! <;>
      cases (chars[3]?).bind toDigit16 <;> cases (chars[4]?).bind toDigit16 <;>
      cases (chars[5]?).bind toDigit16 <;> cases (chars[6]?).bind toDigit16 <;> simp
  · rw [if_pos hl]
    simp [hl]

/-- non-vacuity: `PNP0A08` is accepted -/
example : (eisaValue (asciiBytes "PNP0A08".toList) "PNP0A08".toList).isSome := by decide

/-- accepted although not a letter: `@` (0x40) passes `checked_sub` -/
example : (eisaValue (asciiBytes "@@@0000".toList) "@@@0000".toList).isSome := by decide

/-- refused: a first byte below `0x40` -/
example : eisaValue (asciiBytes "1NP0A08".toList) "1NP0A08".toList = none := by decide

end Acpi.C16
