/-
  C11 — option builders set exactly their own specification bit, independently.

  The *meaning* of every option call is fixed on the specification side (Acpi.Spec.Layout,
  Acpi.Spec.FixedLayout) in set semantics: a flag field is the sum of the distinct bits of the
  options that occur in the program (any order, any multiplicity), a gating flag is set iff
  its value was supplied (`bit opts "size" 1` next to `lastVal opts "size"` …), and every byte
  outside the fields an option governs is the same row as without it.  The theorems of C04
  say the model — which applies the calls one by one, in program order, with `|=` like the
  Rust — produces exactly that encoding.  This file states the consequences C11 names.
-/
import Acpi.Props.C04
import Acpi.Props.C04.Fixed
namespace Acpi.C11
open Acpi Spec

/-- the specification's bit for each pure flag option of each structure -/
def flagBits : Kind → List (String × Nat)
  | .mem => [("en", 1), ("hp", 2), ("nv", 4)]
  | .gi => [("en", 1), ("arch", 2)]
  | .rintcAff => [("en", 1)]
  | .proc => [("physical", 1), ("valid", 2), ("thread", 4), ("leaf", 8), ("identical", 16)]
  | .cache => [("size", 1), ("sets", 2), ("assoc", 4), ("alloc", 8), ("ctype", 16), ("wp", 32), ("line", 64), ("id", 128)]
  | .cfmws => [("t2", 1), ("t3", 2), ("vol", 4), ("pers", 8), ("fixed", 16)]
  | .loc => [("mtsr", 0x10), ("nst", 0x20)]
  | .gicmsi => [("spi", 1)]
  | _ => []

/-- distinct options have distinct, non-zero, pairwise disjoint bits — so distinct option sets
    are always distinguishable in the output -/
def bitsOk (l : List (String × Nat)) : Bool :=
  l.all (fun p => p.2 ≠ 0) &&
  (List.range l.length).all fun i => (List.range l.length).all fun j =>
    i = j || ((l.getD i ("", 0)).2 &&& (l.getD j ("", 0)).2) = 0

theorem flagBits_disjoint (k : Kind) : bitsOk (flagBits k) = true := by
  cases k <;> decide

/-- **C11 (entries)**: for every option-bearing entry structure the emitted bytes are the
    reference encoding in set semantics (union of the bits of exactly the options invoked; value
    fields hold the last value supplied; gating bits set iff the value was supplied; everything
    else as without the option). -/
theorem options_set_semantics (k : Kind) (c : EArgs) (opts : List Opt) (a : EArgs)
    (hk : k ≠ .ged) (hwf : entryWf k c opts = true) (hq : k = .qosctrl → C04.qosCtorWf c)
    (h : buildEntry k c opts = .ok a) : layoutOracle k c opts (entryBytes k a) = none :=
  C04.entry_conforms k c opts a hk hwf hq h

/-- two programs with the same reference rows emit the same bytes -/
theorem same_rows_same_bytes (k : Kind) (c : EArgs) (opts opts' : List Opt) (a a' : EArgs)
    (hk : k ≠ .ged) (hq : k = .qosctrl → C04.qosCtorWf c)
    (hwf : entryWf k c opts = true) (hwf' : entryWf k c opts' = true)
    (h : buildEntry k c opts = .ok a) (h' : buildEntry k c opts' = .ok a')
    (hr : rows k c opts = rows k c opts') : entryBytes k a = entryBytes k a' := by
  have e := C04.entry_conforms k c opts a hk hwf hq h
  have e' := C04.entry_conforms k c opts' a' hk hwf' hq h'
  unfold layoutOracle at e e'
  rw [← hr] at e'
  cases hrw : rows k c opts with
  | none =>
    -- every kind has rows
    cases k <;> simp [rows] at hrw
  | some tr =>
    obtain ⟨total, rs⟩ := tr
    simp only [hrw] at e e'
    have := (C04.conforms_iff_render total rs _ e).2.2
    have := (C04.conforms_iff_render total rs _ e').2.2
    simp_all

/-- **order and repetition do not matter** (SRAT memory affinity): any two programs invoking
    the same *set* of options emit identical bytes -/
theorem mem_order_irrelevant (c : EArgs) (opts opts' : List Opt) (a a' : EArgs)
    (hs : ∀ nm, has opts nm = has opts' nm)
    (hwf : entryWf .mem c opts = true) (hwf' : entryWf .mem c opts' = true)
    (h : buildEntry .mem c opts = .ok a) (h' : buildEntry .mem c opts' = .ok a') :
    entryBytes .mem a = entryBytes .mem a' :=
  same_rows_same_bytes .mem c opts opts' a a' (by decide) (by intro h; cases h) hwf hwf' h h'
    (by simp [rows, bit, hs])

theorem gi_order_irrelevant (c : EArgs) (opts opts' : List Opt) (a a' : EArgs)
    (hs : ∀ nm, has opts nm = has opts' nm)
    (hwf : entryWf .gi c opts = true) (hwf' : entryWf .gi c opts' = true)
    (h : buildEntry .gi c opts = .ok a) (h' : buildEntry .gi c opts' = .ok a') :
    entryBytes .gi a = entryBytes .gi a' :=
  same_rows_same_bytes .gi c opts opts' a a' (by decide) (by intro h; cases h) hwf hwf' h h'
    (by simp [rows, bit, hs])

/-- **C11 (FADT flags and profiles, TCPA server flags)**: after any program the image is the
    reference encoding in which the FADT Flags dword is the union of the specification bits of
    the `flag` calls (since the last direct write of the field), `preferred_pm_profile`,
    `dsdt_32/64`, `firmware_ctrl_32/64`, `acpi_enable/disable` are last-call-wins and touch only
    their own fields; the TCPA device/interrupt flag bytes are the union of the bits of the
    builders invoked, each "valid" bit set together with its value. -/
theorem fixed_options (t : FixedT) (o : Oem) (c : EArgs) (ops : List Opt) (s : FixedState)
    (hwf : C04.fixedWf t o c ops) (hrun : runFixed t o c ops = some s) :
    let img := s.image
    let rev := if t = .rsdp ∨ t = .facs then 0 else (img.getD 8 0).toNat
    let cks := if t = .rsdp then (img.getD 8 0).toNat else (img.getD 9 0).toNat
    let (total, rows) := fixedRows t o c ops rev cks (img.getD 32 0).toNat
    conforms total rows img = none :=
  C04.fixed_conforms t o c ops s hwf hrun

/-- the FADT flag numbers map to distinct bits of Table 5.10 (22 is the zero value of the
    two-bit field 23:22, 23 and 24 its other values) and the model's `Flags as u32` agrees -/
theorem fadt_flag_bits : ∀ k : Fin 25, Fadt.flagValue k.val = fadtFlagBits k.val := by decide

theorem fadt_flag_bits_distinct : ∀ i j : Fin 22, i ≠ j → fadtFlagBits i.val &&& fadtFlagBits j.val = 0 := by
  decide

end Acpi.C11
