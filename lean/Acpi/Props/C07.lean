/-
  C07 — PkgLength encodings are correct for every representable length.
  Model: Acpi.Aml.PkgLen (mirror of `create_pkg_length`); spec: Acpi.Spec.PkgLength.
-/
import Acpi.Lemmas.PkgLen
namespace Acpi.C07
open Acpi Spec.PkgLength

/-- **C07(a)**: for every content size whose total is representable (< 2^28), in the
    self-inclusive form (`incl = true`, objects) and the exclusive form (`incl = false`,
    field-list entries), the emitted prefix decodes by the specification's rule to exactly
    the total (content + prefix, resp. content), consuming exactly the bytes emitted,
    whatever follows. -/
theorem decode_pkgLen (c : Nat) (incl : Bool) (rest : Bytes)
    (h : pkgLenTotal c incl < 2 ^ 28) :
    decode (pkgLen c incl ++ rest) = some (pkgLenTotal c incl, pkgLenWidth c) := by
  have hw := width_cases c
  have ht : pkgLenTotal c incl = c + (if incl then pkgLenWidth c else 0) := rfl
  unfold pkgLen
  rcases hw with ⟨w, h1⟩ | ⟨w, h1, h2⟩ | ⟨w, h1, h2⟩ | ⟨w, h1⟩ <;> rw [w] at ht ⊢ <;>
    simp only [List.cons_append, List.nil_append]
  · apply decode1; cases incl <;> simp at ht <;> omega
  · apply decode2; cases incl <;> simp at ht <;> omega
  · apply decode3; cases incl <;> simp at ht <;> omega
  · apply decode4; exact h

/-- the prefix is `pkgLenWidth c` bytes long -/
theorem length_pkgLen (c : Nat) (incl : Bool) : (pkgLen c incl).length = pkgLenWidth c := by
  unfold pkgLen
  rcases width_cases c with ⟨w, _⟩ | ⟨w, _⟩ | ⟨w, _⟩ | ⟨w, _⟩ <;> rw [w] <;> rfl

/-- objects: the decoded value is the distance from the prefix's first byte to the end of
    the object, i.e. prefix length + content length -/
theorem decode_object (c : Nat) (content rest : Bytes) (hc : content.length = c)
    (h : pkgLenTotal c true < 2 ^ 28) :
    decode (pkgLen c true ++ content ++ rest)
      = some ((pkgLen c true ++ content).length, (pkgLen c true).length) := by
  rw [List.append_assoc, decode_pkgLen c true _ h]
  simp [length_pkgLen, pkgLenTotal, hc]; omega

/-- **C07(b)** lead-byte format: follow-byte count in bits 7–6; bits 5–4 zero when follow
    bytes are present. -/
theorem lead_byte_format (c : Nat) (incl : Bool) :
    ∃ b0 tl, pkgLen c incl = b0 :: tl ∧ b0.toNat / 64 = pkgLenWidth c - 1 ∧
      (1 < pkgLenWidth c → b0.toNat / 16 % 4 = 0) := by
  unfold pkgLen
  rcases width_cases c with ⟨w, h1⟩ | ⟨w, _⟩ | ⟨w, _⟩ | ⟨w, _⟩ <;> rw [w] <;>
    refine ⟨_, _, rfl, ?_, ?_⟩
  · cases incl <;> simp [pkgLenTotal, w, UInt8.toNat_ofNat'] <;> omega
  · intro h; omega
  · rw [lead1']; omega
  · intro _; rw [lead1']; omega
  · rw [lead2']; omega
  · intro _; rw [lead2']; omega
  · rw [lead3']; omega
  · intro _; rw [lead3']; omega

/-- **C07(c)** minimality of the self-inclusive form: no narrower prefix could carry its
    own size plus the content. -/
theorem minimal (c w' : Nat) (h1 : 1 ≤ w') (h2 : w' < pkgLenWidth c) : maxOf w' < c + w' := by
  unfold maxOf
  rcases width_cases c with ⟨w, _⟩ | ⟨w, _, _⟩ | ⟨w, _, _⟩ | ⟨w, _⟩ <;> rw [w] at h2
  · omega
  · have : w' = 1 := by omega
    subst this; simp; omega
  · have : w' = 1 ∨ w' = 2 := by omega
    rcases this with rfl | rfl <;> simp <;> omega
  · have : w' = 1 ∨ w' = 2 ∨ w' = 3 := by omega
    rcases this with rfl | rfl | rfl <;> simp <;> omega

/-- and the chosen width does carry it (whenever anything can) -/
theorem fits (c : Nat) (h : pkgLenTotal c true < 2 ^ 28) :
    c + pkgLenWidth c ≤ maxOf (pkgLenWidth c) := by
  unfold maxOf
  rcases width_cases c with ⟨w, _⟩ | ⟨w, _, _⟩ | ⟨w, _, _⟩ | ⟨w, _⟩ <;>
    simp [pkgLenTotal, w] at h ⊢ <;> omega

/-- **C18 side**: a total that does not fit in 28 bits is refused. -/
theorem refused_iff (c : Nat) (incl : Bool) :
    pkgLenPanics c incl = true ↔ 2 ^ 28 ≤ pkgLenTotal c incl := by
  simp [pkgLenPanics]

/-- non-vacuity: the hypotheses are met at and around every width boundary -/
example : pkgLenTotal 62 true < 2 ^ 28 ∧ pkgLenTotal 63 true < 2 ^ 28 ∧
    pkgLenTotal 4093 true < 2 ^ 28 ∧ pkgLenTotal 4094 true < 2 ^ 28 ∧
    pkgLenTotal 1048573 true < 2 ^ 28 ∧ pkgLenTotal (2 ^ 28 - 5) true < 2 ^ 28 := by decide
example : decode (pkgLen 63 true) = some (65, 2) := by decide
example : decode (pkgLen 63 false) = some (63, 2) := by decide

end Acpi.C07
