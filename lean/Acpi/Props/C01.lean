/-
  C01 — every emitted static table carries a valid ACPI checksum.
  Part 1 (`tbl_sum_zero`): the generic incremental engine, for arbitrary entry bytes.
-/
import Acpi.Tbl
import Acpi.Lemmas.Tbl
namespace Acpi.C01
open Acpi

/-- **C01 (engine)**: after construction and after every prefix of every add history —
    whatever the entries' bytes and whatever lengths are claimed for them, so in particular
    across the 255→256 and 65535→65536 carries of the Length and count fields — the image
    sums to zero. (A prefix of a history is itself a history, so "every prefix" is this
    statement applied to the prefix.) -/
theorem tbl_sum_zero (c : TblCfg) (o : Oem) (es : List (Bytes × Nat)) (hs : List Nat) (t : Tbl)
    (h : runAdds (Tbl.new c o) es = some (hs, t)) : sum8 t.image = 0 :=
  CksInv_sum t (CksInv_runAdds es _ hs t (CksInv_new c o) h)

/-- non-vacuity: a VIOT-shaped table with two entries -/
example : ∃ hs t, runAdds (Tbl.new cfgVIOT ⟨[1,2,3,4,5,6], [1,2,3,4,5,6,7,8], 7⟩)
    [([3, 0, 16, 0, 9, 9], 16), ([4, 0, 16, 0], 16)] = some (hs, t) :=
  ⟨_, _, rfl⟩

end Acpi.C01
