/-
  Acpi.Sink — the `AmlSink` trait (src/lib.rs:51-71) as data.

  A serialiser is modelled as a list of sink calls; `flatten` is the byte string the
  calls denote.  A `Sink σ` is an implementation of the five entry points on a state `σ`.
-/
import Acpi.Basic
namespace Acpi

inductive SinkCall where
  | byte (b : UInt8)
  | word (w : UInt16)
  | dword (d : UInt32)
  | qword (q : UInt64)
  | vec (bs : Bytes)
deriving Repr, DecidableEq, Inhabited

namespace SinkCall
def bytes : SinkCall → Bytes
  | byte b => [b]
  | word w => u16le w
  | dword d => u32le d
  | qword q => u64le q
  | vec bs => bs
end SinkCall

/-- The bytes a call list denotes. -/
def flatten (cs : List SinkCall) : Bytes := cs.flatMap SinkCall.bytes

structure Sink (σ : Type) where
  byte : σ → UInt8 → σ
  word : σ → UInt16 → σ
  dword : σ → UInt32 → σ
  qword : σ → UInt64 → σ
  vec : σ → Bytes → σ

namespace Sink
variable {σ : Type}

def feed1 (S : Sink σ) (s : σ) : SinkCall → σ
  | .byte b => S.byte s b
  | .word w => S.word s w
  | .dword d => S.dword s d
  | .qword q => S.qword s q
  | .vec bs => S.vec s bs

def feed (S : Sink σ) (s : σ) (cs : List SinkCall) : σ := cs.foldl S.feed1 s

/-- The trait's default methods over a user-supplied `byte` (lib.rs:54-70):
    `word/dword/qword` call `vec` on the LE bytes, `vec` calls `byte` per element. -/
def ofByte (byte : σ → UInt8 → σ) : Sink σ where
  byte := byte
  word s w := (u16le w).foldl byte s
  dword s d := (u32le d).foldl byte s
  qword s q := (u64le q).foldl byte s
  vec s v := v.foldl byte s

/-- `impl AmlSink for Vec<u8>`: `byte` pushes, `vec` extends; the rest default to `vec`. -/
def vecSink : Sink Bytes where
  byte s b := s ++ [b]
  word s w := s ++ u16le w
  dword s d := s ++ u32le d
  qword s q := s ++ u64le q
  vec s v := s ++ v

/-- A sink is lawful w.r.t. an abstraction `abs : σ → Bytes` when every entry point
    appends exactly the bytes the call denotes. -/
structure Lawful (S : Sink σ) (abs : σ → Bytes) : Prop where
  byte : ∀ s b, abs (S.byte s b) = abs s ++ [b]
  word : ∀ s w, abs (S.word s w) = abs s ++ u16le w
  dword : ∀ s d, abs (S.dword s d) = abs s ++ u32le d
  qword : ∀ s q, abs (S.qword s q) = abs s ++ u64le q
  vec : ∀ s v, abs (S.vec s v) = abs s ++ v

end Sink
end Acpi
