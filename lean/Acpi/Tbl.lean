/-
  Acpi.Tbl — the generic incremental-table engine: the common shape of the thirteen
  `update_header` variants (xsdt.rs:43, mcfg.rs:49, madt.rs:101, srat.rs:56, hmat.rs:61,
  pptt.rs:27, rhct.rs:85, rimt.rs:58, viot.rs:53, cedt.rs:44, hest.rs:70, rqsc.rs:66).

  Image   = header(36) ++ pre ++ count (cw bytes, little-endian) ++ post ++ entries
  add     : Length += claimed;  checksum accumulator: delete old length bytes, append new,
            add the entry's byte sum, replace the count bytes; store header.checksum;
            handle_offset += claimed;  push the entry.
  The entry is opaque here: `raw` are its bytes as serialised, `claimed` what the Rust `len()`
  helper says, `fed` the byte sum the code feeds its accumulator (`u8sum(&entry)` or
  `as_bytes()`).  Per-table instances fix `cfg`.
-/
import Acpi.Header
import Acpi.Checksum
namespace Acpi

structure TblCfg where
  sig : Bytes
  rev : UInt8 := 1
  pre : Bytes := []
  cw : Nat := 0
  post : Bytes := []
  /-- `Some m`: handle offsets are kept in a field of that many bits with a checked add (VIOT) -/
  maxOffset : Option Nat := none
deriving Repr, DecidableEq, Inhabited

structure Tbl where
  cfg : TblCfg
  oem : Oem
  length : UInt32
  cks : Cks
  hdrCks : UInt8
  count : Nat := 0
  handleOffset : Nat
  body : List Bytes := []
deriving Repr, Inhabited

namespace Tbl

/-- offset of the first entry -/
def firstOffset (c : TblCfg) : Nat := 36 + c.pre.length + c.cw + c.post.length

/-- `T::new(oem_id, oem_table_id, oem_revision, …)` -/
def new (c : TblCfg) (o : Oem) : Tbl :=
  let len := UInt32.ofNat (firstOffset c)
  let cks := ((({} : Cks).append (hdrBytes c.sig len c.rev 0 o)).append c.pre).append c.post
  { cfg := c, oem := o, length := len, cks := cks, hdrCks := cks.cksum,
    handleOffset := firstOffset c }

/-- `add_*`: returns the handle (the old `handle_offset`) and the new state; `none` = panic -/
def add (t : Tbl) (raw : Bytes) (claimed : Nat) (fed : UInt8) : Option (Nat × Tbl) :=
  match t.cfg.maxOffset with
  | some m => if m < t.handleOffset + claimed then none else go
  | none => go
where go : Option (Nat × Tbl) :=
  let newLen := t.length + UInt32.ofNat claimed
  let c1 := ((t.cks.delete (u32le t.length)).append (u32le newLen)).add fed
  let c2 := if t.cfg.cw = 0 then c1
            else (c1.delete (leN t.cfg.cw t.count)).append (leN t.cfg.cw (t.count + 1))
  some (t.handleOffset,
    { t with length := newLen, cks := c2, hdrCks := c2.cksum, count := t.count + 1,
             handleOffset := t.handleOffset + claimed, body := t.body ++ [raw] })

/-- `to_aml_bytes` -/
def image (t : Tbl) : Bytes :=
  hdrBytes t.cfg.sig t.length t.cfg.rev t.hdrCks t.oem ++ t.cfg.pre ++ leN t.cfg.cw t.count ++
    t.cfg.post ++ t.body.flatten

/-- the part of the image before the first entry -/
def head (t : Tbl) : Bytes :=
  hdrBytes t.cfg.sig t.length t.cfg.rev t.hdrCks t.oem ++ t.cfg.pre ++ leN t.cfg.cw t.count ++ t.cfg.post

end Tbl

/-! ### the thirteen instances -/
def cfgXSDT : TblCfg := { sig := [0x58, 0x53, 0x44, 0x54] }
def cfgMCFG : TblCfg := { sig := [0x4D, 0x43, 0x46, 0x47], pre := zeros 8 }
def cfgMADT (lica : UInt32) : TblCfg := { sig := [0x41, 0x50, 0x49, 0x43], pre := u32le lica ++ u32le 0 }
def cfgSRAT : TblCfg := { sig := [0x53, 0x52, 0x41, 0x54], pre := u32le 1 ++ u64le 0 }
def cfgHMAT : TblCfg := { sig := [0x48, 0x4D, 0x41, 0x54], pre := u32le 0 }
def cfgPPTT : TblCfg := { sig := [0x50, 0x50, 0x54, 0x54] }
def cfgCEDT : TblCfg := { sig := [0x43, 0x45, 0x44, 0x54] }
def cfgRHCT (timebase : UInt64) : TblCfg :=
  { sig := [0x52, 0x48, 0x43, 0x54], pre := u32le 0 ++ u64le timebase, cw := 4, post := u32le 56 }
def cfgRIMT : TblCfg := { sig := [0x52, 0x49, 0x4D, 0x54], cw := 4, post := u32le 48 ++ u32le 0 }
def cfgVIOT : TblCfg :=
  { sig := [0x56, 0x49, 0x4F, 0x54], cw := 2, post := u16le 48 ++ u64le 0, maxOffset := some 65535 }
def cfgHEST : TblCfg := { sig := [0x48, 0x45, 0x53, 0x54], cw := 4 }
def cfgRQSC : TblCfg := { sig := [0x52, 0x51, 0x53, 0x43], cw := 4 }

end Acpi
