/-
  Acpi.Aml.PkgLen — model of `create_pkg_length` (src/aml.rs:376).
  `len` is a `usize` in Rust; sizes are `Nat` here and every `as u8` is `UInt8.ofNat`
  (reduction modulo 256).  The refusal added by the `fix:` commit
  (`assert!(length < 1 << 28)`) is the separate predicate `pkgLenPanics`.
-/
import Acpi.Basic
namespace Acpi

/-- the `length_length` chosen by the code -/
def pkgLenWidth (len : Nat) : Nat :=
  if len < 2 ^ 6 - 1 then 1
  else if len < 2 ^ 12 - 2 then 2
  else if len < 2 ^ 20 - 3 then 3
  else 4

/-- the value that is encoded: content plus (for objects) the prefix itself -/
def pkgLenTotal (len : Nat) (inclSelf : Bool) : Nat :=
  len + (if inclSelf then pkgLenWidth len else 0)

/-- `create_pkg_length(len, include_self)` panics (refuses) iff the total is not
    representable in 28 bits. -/
def pkgLenPanics (len : Nat) (inclSelf : Bool) : Bool :=
  decide (2 ^ 28 ≤ pkgLenTotal len inclSelf)

def pkgLen (len : Nat) (inclSelf : Bool) : Bytes :=
  let length := pkgLenTotal len inclSelf
  match pkgLenWidth len with
  | 1 => [UInt8.ofNat length]
  | 2 => [((1 : UInt8) <<< 6) ||| UInt8.ofNat (length &&& 0xf), UInt8.ofNat (length >>> 4)]
  | 3 => [((2 : UInt8) <<< 6) ||| UInt8.ofNat (length &&& 0xf), UInt8.ofNat (length >>> 4),
          UInt8.ofNat (length >>> 12)]
  | _ => [((3 : UInt8) <<< 6) ||| UInt8.ofNat (length &&& 0xf), UInt8.ofNat (length >>> 4),
          UInt8.ofNat (length >>> 12), UInt8.ofNat (length >>> 20)]

end Acpi
