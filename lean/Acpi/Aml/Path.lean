/-
  Acpi.Aml.Path — model of `Path::new` and `impl Aml for Path` (src/aml.rs:120-171).
  `&str` enters as its UTF-8 bytes: `starts_with('\\')`, `split('.')` and `len()` all act
  on bytes, and `\` and `.` are ASCII.
-/
import Acpi.Basic
namespace Acpi

/-- `str::split('.')` on bytes: always at least one piece. -/
def splitDot : Bytes → List Bytes
  | [] => [[]]
  | b :: bs =>
    if b = 0x2E then [] :: splitDot bs
    else match splitDot bs with
      | [] => [[b]]            -- unreachable: `splitDot` never returns `[]`
      | p :: ps => (b :: p) :: ps

structure Path where
  root : Bool
  parts : List Bytes           -- each exactly 4 bytes when built by `Path.new`
deriving Repr, DecidableEq, Inhabited

/-- `name.starts_with('\\')` -/
def Path.isRooted (name : Bytes) : Bool := name.head? == some 0x5C

/-- `name[offset..]` with `offset = root as usize` -/
def Path.body (name : Bytes) : Bytes := if Path.isRooted name then name.drop 1 else name

/-- `Path::new`; `none` = the `assert_eq!(part.len(), 4)` panics. -/
def Path.new (name : Bytes) : Option Path :=
  if (splitDot (Path.body name)).all (fun p => p.length = 4)
  then some ⟨Path.isRooted name, splitDot (Path.body name)⟩ else none

/-- `to_aml_bytes` panics: `0 => panic!`, and the `fix:` assert `n <= 255`. -/
def Path.encPanics (p : Path) : Bool := p.parts.length = 0 || 255 < p.parts.length

/-- the `match self.name_parts.len()` of `to_aml_bytes`: nothing, DualNamePrefix, or
    MultiNamePrefix + `n as u8` -/
def namePrefix (n : Nat) : Bytes :=
  match n with
  | 0 => []
  | 1 => []
  | 2 => [0x2E]
  | n => [0x2F, UInt8.ofNat n]

/-- `impl Aml for Path` -/
def Path.enc (p : Path) : Bytes :=
  (if p.root then [0x5C] else []) ++ namePrefix p.parts.length ++ p.parts.flatten

end Acpi
