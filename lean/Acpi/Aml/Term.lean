/-
  Acpi.Aml.Term — model of every `impl Aml for …` of src/aml.rs, constructor by constructor.

  Crate objects hold their children as `&dyn Aml` (untyped), so the model is a uniform tree:
  a node is a crate constructor `Op`, its scalar arguments `ints`, its byte-string arguments
  `blobs` (paths and strings enter as UTF-8 bytes), and its children.  `Aml`/`AmlList` are a
  mutual inductive with an explicit list type so that `enc` is structurally recursive.

  `enc` mirrors `to_aml_bytes` (same opcodes, same order of emission, same use of
  `create_pkg_length`); `encPanics` collects every assert/unwrap/refusal on the way.
-/
import Acpi.Basic
import Acpi.Aml.PkgLen
import Acpi.Aml.Int
import Acpi.Aml.Path
import Acpi.Aml.Eisa
namespace Acpi

inductive Op where
  | zero | one | ones
  | u8 | u16 | u32 | u64 | usize            -- ints = [value]
  | str                                      -- blobs = [utf8]   (`&'static str` and `String` share one encoder)
  | path                                     -- blobs = [path string]   a bare `Path` used as a term
  | eisa | uuid                              -- blobs = [utf8 bytes]; ints = the chars (code points)
  | buf                                      -- blobs = [data]   `BufferData`
  | bufterm                                  -- kids = [t]       `BufferTerm`
  | arg | local_                              -- ints = [n]
  | name                                     -- blobs = [path]; kids = [inner]
  | fieldname                                -- blobs = [bytes]  `Name::new_field_name`
  | pkg | pkgb                               -- kids = elements  (`Package`, `PackageBuilder`)
  | varpkg                                   -- kids = [t]
  | rt                                       -- kids = descriptors
  | mem32                                    -- ints = [rw, base, len]
  | io                                       -- ints = [min, max, align, len]
  | irq                                      -- ints = [consumer, edge, activeLow, shared, number]
  | reg                                      -- ints = [space, width, offset, access, address]
  | asmem                                    -- ints = [bits, cacheable, rw, min, max, hasTrans, trans]
  | asio                                     -- ints = [bits, min, max, hasTrans, trans]
  | asbus                                    -- ints = [bits, min, max]
  | device | scope | scoperaw                -- blobs = [path]; kids = children
  | method                                   -- blobs = [path]; ints = [args, serialized]; kids = body
  | field                                    -- blobs = [path]; ints = [access, lock, update]; kids = entries
  | fnamed                                   -- blobs = [4-byte name]; ints = [bits]      (FieldEntry::Named)
  | freserved                                -- ints = [bits]                             (FieldEntry::Reserved)
  | opregion                                 -- blobs = [path]; ints = [space]; kids = [offset, length]
  | if_ | while_                             -- kids = predicate :: body
  | else_                                    -- kids = body
  | powerres                                 -- blobs = [path]; ints = [level, order]; kids = body
  | eq | lt | gt | ne | ge | le              -- kids = [left, right]
  | store                                    -- kids = [name, value]
  | mutex                                    -- blobs = [path]; ints = [sync level]
  | acquire                                  -- blobs = [path]; ints = [timeout]
  | release                                  -- blobs = [path]
  | notify                                   -- kids = [object, value]
  | objtype | sizeof | ret | deref           -- kids = [a]
  | add | concat | subtract | multiply | shl | shr | and_ | nand | or_ | nor | xor | concatres | mod
  | index | tostring | createdw | createqw   -- kids = [target, a, b]
  | tobuffer | tointeger                     -- kids = [target, a]
  | createfield                              -- kids = [name_string, source, bit_index, bit_num]
  | mid                                      -- kids = [source, index, length, result]
  | call                                     -- blobs = [path]; kids = args   (`MethodCall`)
deriving Repr, DecidableEq, Inhabited

mutual
inductive Aml where
  | node (op : Op) (ints : List Nat) (blobs : List Bytes) (kids : AmlList)
inductive AmlList where
  | nil
  | cons (a : Aml) (rest : AmlList)
end

namespace AmlList
def toList : AmlList → List Aml
  | nil => []
  | cons a r => a :: toList r
def ofList : List Aml → AmlList
  | [] => nil
  | a :: r => cons a (ofList r)
def length : AmlList → Nat
  | nil => 0
  | cons _ r => length r + 1
end AmlList

/-- the opcode of the three- and two-operand operator constructors -/
def opByte : Op → UInt8
  | .add => 0x72 | .concat => 0x73 | .subtract => 0x74 | .multiply => 0x77 | .shl => 0x79 | .shr => 0x7A
  | .and_ => 0x7B | .nand => 0x7C | .or_ => 0x7D | .nor => 0x7E | .xor => 0x7F | .concatres => 0x84
  | .mod => 0x85 | .index => 0x88 | .tostring => 0x9C | .createdw => 0x8A | .createqw => 0x8F
  | .tobuffer => 0x96 | .tointeger => 0x99
  | .objtype => 0x8E | .sizeof => 0x87 | .ret => 0xA4 | .deref => 0x83
  | .eq | .ne => 0x93 | .lt | .ge => 0x95 | .gt | .le => 0x94
  | _ => 0

/-- `Path::new(s).to_aml_bytes`; `none` = `Path::new` or the serialiser panics -/
def pathEnc (s : Bytes) : Option Bytes :=
  (Path.new s).bind fun p => if p.encPanics then none else some p.enc

/-- `opcode ++ create_pkg_length(body.len(), true) ++ body`; `none` = PkgLength refused -/
def pkgObj (opcode : Bytes) (body : Bytes) : Option Bytes :=
  if pkgLenPanics body.length true then none else some (opcode ++ pkgLen body.length true ++ body)

def intLE (bits v : Nat) : Bytes := leN (bits / 8) v

/-- `AddressSpace<T>` descriptors (aml.rs:578-687): header (tag, u16 length, type, general
    flags 0x0C, type flags) + granularity, min, max, translation, length; `none` = the
    `fix:` refusal of a range whose size does not fit -/
def addrSpace (bits ty tyFlags mn mx trans : Nat) : Option Bytes :=
  if mx < mn ∨ 2 ^ bits ≤ mx - mn + 1 then none else
  let tag : UInt8 := if bits = 16 then 0x88 else if bits = 32 then 0x87 else 0x8A
  some ([tag] ++ leN 2 (3 + 5 * (bits / 8)) ++ [UInt8.ofNat ty, 0x0C, UInt8.ofNat tyFlags] ++
    intLE bits 0 ++ intLE bits mn ++ intLE bits mx ++ intLE bits trans ++ intLE bits (mx - mn + 1))

/-- sequence a list of optional encodings -/
def catOpt : List (Option Bytes) → Option Bytes
  | [] => some []
  | none :: _ => none
  | some b :: rest => (catOpt rest).map (b ++ ·)

mutual
/-- `to_aml_bytes`; `none` = some assert/unwrap on the way panics -/
def Aml.enc : Aml → Option Bytes
  | .node op ints blobs kids =>
    let i (k : Nat) := ints.getD k 0
    let b (k : Nat) := blobs.getD k []
    let ks := AmlList.encs kids                 -- encodings of the children, in order
    let k (j : Nat) : Option Bytes := ks.getD j none
    let all : Option Bytes := catOpt ks
    match op with
    | .zero => some [0x00]
    | .one => some [0x01]
    | .ones => some [0xFF]
    | .u8 => some (encU8 (UInt8.ofNat (i 0)))
    | .u16 => some (encU16 (UInt16.ofNat (i 0)))
    | .u32 => some (encU32 (UInt32.ofNat (i 0)))
    | .u64 => some (encU64 (UInt64.ofNat (i 0)))
    | .usize => some (encUsize (UInt64.ofNat (i 0)))
    | .str => some ([0x0D] ++ b 0 ++ [0x00])
    | .path => pathEnc (b 0)
    | .eisa => eisaEnc (b 0) (ints.map Char.ofNat)       -- ints = the string's chars (code points)
    | .uuid =>
      (uuidBytes (ints.map Char.ofNat)).bind fun d => pkgObj [0x11] (encUsize (UInt64.ofNat d.length) ++ d)
    | .buf => pkgObj [0x11] (encUsize (UInt64.ofNat (b 0).length) ++ b 0)
    | .bufterm => (k 0).bind fun d => pkgObj [0x11] d
    | .arg => if i 0 ≤ 6 then some [UInt8.ofNat (0x68 + i 0)] else none
    | .local_ => if i 0 ≤ 7 then some [UInt8.ofNat (0x60 + i 0)] else none
    | .name => do let p ← pathEnc (b 0); let v ← k 0; some ([0x08] ++ p ++ v)
    | .fieldname => some (b 0)
    | .pkg =>
      if 255 < kids.length then none else
      all.bind fun d => pkgObj [0x12] ([UInt8.ofNat kids.length] ++ d)
    | .pkgb =>                                 -- PackageBuilder: elements serialised on `add_element`, count checked on emission
      all.bind fun d => if 255 < kids.length then none else
        if pkgLenPanics (d.length + 1) true then none
        else some ([0x12] ++ pkgLen (d.length + 1) true ++ [UInt8.ofNat kids.length] ++ d)
    | .varpkg => (k 0).bind fun d => pkgObj [0x13] d
    | .rt =>
      all.bind fun d =>
        let bytes := d ++ [0x79, 0x00]
        let blen := encUsize (UInt64.ofNat bytes.length)
        if pkgLenPanics (bytes.length + blen.length) true then none
        else some ([0x11] ++ pkgLen (bytes.length + blen.length) true ++ blen ++ bytes)
    | .mem32 => some ([0x86] ++ leN 2 9 ++ [if i 0 ≠ 0 then 1 else 0] ++ leN 4 (i 1) ++ leN 4 (i 2))
    | .io => some ([0x47, 0x01] ++ leN 2 (i 0) ++ leN 2 (i 1) ++ [UInt8.ofNat (i 2), UInt8.ofNat (i 3)])
    | .irq =>
      let flags := ((if i 3 ≠ 0 then 1 else 0) <<< 3) ||| ((if i 2 ≠ 0 then 1 else 0) <<< 2) |||
        ((if i 1 ≠ 0 then 1 else 0) <<< 1) ||| (if i 0 ≠ 0 then 1 else 0)
      some ([0x89] ++ leN 2 6 ++ [UInt8.ofNat flags, 0x01] ++ leN 4 (i 4))
    | .reg => some ([0x82] ++ leN 2 0x0c ++ [UInt8.ofNat (i 0), UInt8.ofNat (i 1), UInt8.ofNat (i 2), UInt8.ofNat (i 3)] ++ leN 8 (i 4))
    | .asmem => addrSpace (i 0) 0 ((i 1 <<< 1) ||| (if i 2 ≠ 0 then 1 else 0)) (i 3) (i 4) (if i 5 ≠ 0 then i 6 else 0)
    | .asio => addrSpace (i 0) 1 3 (i 1) (i 2) (if i 3 ≠ 0 then i 4 else 0)
    | .asbus => addrSpace (i 0) 2 0 (i 1) (i 2) 0
    | .device => do let p ← pathEnc (b 0); let d ← all; pkgObj [0x5B, 0x82] (p ++ d)
    | .scope => do let p ← pathEnc (b 0); let d ← all; pkgObj [0x10] (p ++ d)
    | .scoperaw =>                             -- `Scope::raw`: build `10 path children`, then splice the PkgLength in
      do
        let p ← pathEnc (b 0)
        let d ← all
        let bytes := [0x10] ++ p ++ d
        let n := bytes.length
        if pkgLenPanics (n - 1) true then none else
        let pl := pkgLen (n - 1) true
        -- resize(n + m, 0xFF); copy_within(1..n, m + 1); [1..m+1] = pkg_length
        some (bytes.take 1 ++ pl ++ bytes.drop 1)
    | .method =>
      if 7 < i 0 then none else
      do let p ← pathEnc (b 0); let d ← all
         pkgObj [0x14] (p ++ [UInt8.ofNat ((i 0 &&& 7) ||| ((if i 1 ≠ 0 then 1 else 0) <<< 3))] ++ d)
    | .field =>
      do let p ← pathEnc (b 0); let d ← all
         pkgObj [0x5B, 0x81] (p ++ [UInt8.ofNat (i 0 ||| (i 1 <<< 4) ||| (i 2 <<< 5))] ++ d)
    | .fnamed => if pkgLenPanics (i 0) false then none else some (b 0 ++ pkgLen (i 0) false)
    | .freserved => if pkgLenPanics (i 0) false then none else some ([0x00] ++ pkgLen (i 0) false)
    | .opregion => do let p ← pathEnc (b 0); let o ← k 0; let l ← k 1; some ([0x5B, 0x80] ++ p ++ [UInt8.ofNat (i 0)] ++ o ++ l)
    | .if_ => all.bind fun d => pkgObj [0xA0] d
    | .while_ => all.bind fun d => pkgObj [0xA2] d
    | .else_ => all.bind fun d => pkgObj [0xA1] d
    | .powerres =>
      do let p ← pathEnc (b 0); let d ← all
         pkgObj [0x5B, 0x84] (p ++ [UInt8.ofNat (i 0)] ++ leN 2 (i 1) ++ d)
    | .eq | .lt | .gt => do let l ← k 0; let r ← k 1; some ([opByte op] ++ l ++ r)
    | .ne | .ge | .le => do let l ← k 0; let r ← k 1; some ([0x92, opByte op] ++ l ++ r)
    | .store => do let nm ← k 0; let v ← k 1; some ([0x70] ++ v ++ nm)
    | .mutex => (pathEnc (b 0)).map fun p => [0x5B, 0x01] ++ p ++ [UInt8.ofNat (i 0)]
    | .acquire => (pathEnc (b 0)).map fun p => [0x5B, 0x23] ++ p ++ leN 2 (i 0)
    | .release => (pathEnc (b 0)).map fun p => [0x5B, 0x27] ++ p
    | .notify => do let o ← k 0; let v ← k 1; some ([0x86] ++ o ++ v)
    | .objtype | .sizeof | .ret | .deref => (k 0).map fun a => [opByte op] ++ a
    | .add | .concat | .subtract | .multiply | .shl | .shr | .and_ | .nand | .or_ | .nor | .xor
    | .concatres | .mod | .index | .tostring | .createdw | .createqw =>
      do let t ← k 0; let a ← k 1; let c ← k 2; some ([opByte op] ++ a ++ c ++ t)
    | .tobuffer | .tointeger => do let t ← k 0; let a ← k 1; some ([opByte op] ++ a ++ t)
    | .createfield => do let nm ← k 0; let s ← k 1; let bi ← k 2; let bn ← k 3; some ([0x5B, 0x13] ++ s ++ bi ++ bn ++ nm)
    | .mid => do let s ← k 0; let ix ← k 1; let l ← k 2; let r ← k 3; some ([0x9E] ++ s ++ ix ++ l ++ r)
    | .call => do let p ← pathEnc (b 0); let d ← all; some (p ++ d)
def AmlList.encs : AmlList → List (Option Bytes)
  | .nil => []
  | .cons a r => a.enc :: AmlList.encs r
end

end Acpi
