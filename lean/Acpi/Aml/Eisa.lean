/-
  Acpi.Aml.Eisa — model of `EISAName::new` (src/aml.rs:424) and `Uuid::new` (aml.rs:1554).

  A `&str` is seen by the Rust both as bytes (`len()`, `as_bytes()`) and as chars
  (`chars().nth(k)`, `chars().collect()`); the model takes both views.  For an ASCII string
  they are related by `bytes = chars.map (UInt8.ofNat ·.toNat)`; the driver derives both
  from the same UTF-8 string.
-/
import Acpi.Basic
import Acpi.Aml.Int
namespace Acpi

/-- `char::to_digit(16)` -/
def toDigit16 (c : Char) : Option UInt32 :=
  if '0' ≤ c ∧ c ≤ '9' then some (c.val - '0'.val)
  else if 'a' ≤ c ∧ c ≤ 'f' then some (c.val - 'a'.val + 10)
  else if 'A' ≤ c ∧ c ≤ 'F' then some (c.val - 'A'.val + 10)
  else none

/-- `u8::checked_sub(NAMECHARBASE)` widened by `u32::from` -/
def subBase (b : UInt8) : Option UInt32 := if b < 0x40 then none else some (b - 0x40).toUInt32

/-- `u32::swap_bytes` -/
def swapBytes (x : UInt32) : UInt32 :=
  ((x &&& (0xFF : UInt32)) <<< (24 : UInt32)) ||| ((x &&& (0xFF00 : UInt32)) <<< (8 : UInt32)) |||
  ((x >>> (8 : UInt32)) &&& (0xFF00 : UInt32)) ||| (x >>> (24 : UInt32))

/-- `EISAName::new`: the 32-bit value, or `none` when an `assert`/`unwrap` panics. -/
def eisaValue (bytes : Bytes) (chars : List Char) : Option UInt32 :=
  if bytes.length ≠ 7 then none else do
    let d0 ← subBase (bytes[0]!)
    let d1 ← subBase (bytes[1]!)
    let d2 ← subBase (bytes[2]!)
    let h3 ← (chars[3]?).bind toDigit16
    let h4 ← (chars[4]?).bind toDigit16
    let h5 ← (chars[5]?).bind toDigit16
    let h6 ← (chars[6]?).bind toDigit16
    some (swapBytes ((d0 <<< 26) ||| (d1 <<< 21) ||| (d2 <<< 16) ||| (h3 <<< 12) ||| (h4 <<< 8)
      ||| (h5 <<< 4) ||| h6))

/-- `impl Aml for EISAName`: the value as a DWord integer constant -/
def eisaEnc (bytes : Bytes) (chars : List Char) : Option Bytes :=
  (eisaValue bytes chars).map encU32

/-- `hex2byte` -/
def hex2byte (c1 c2 : Char) : Option UInt8 := do
  let hi ← toDigit16 c1
  let lo ← toDigit16 c2
  some ((hi.toUInt8 <<< 4) ||| lo.toUInt8)

/-- `Uuid::new`: the 16 buffer bytes in ToUUID order, or `none` on panic. -/
def uuidBytes (cs : List Char) : Option Bytes :=
  if cs.length ≠ 36 then none
  else if cs[8]! ≠ '-' ∨ cs[13]! ≠ '-' ∨ cs[18]! ≠ '-' ∨ cs[23]! ≠ '-' then none
  else
    let h (i j : Nat) := hex2byte cs[i]! cs[j]!
    [h 6 7, h 4 5, h 2 3, h 0 1, h 11 12, h 9 10, h 16 17, h 14 15, h 19 20, h 21 22,
     h 24 25, h 26 27, h 28 29, h 30 31, h 32 33, h 34 35].mapM id

end Acpi
